(** C18 — executable model of the glob matcher used by the filters (fnmatch, C locale, no FNM_PERIOD,
    no FNM_CASEFOLD on Unix).  Executable definitions only; proofs are in GlobProofs.v.

    SnapRAID calls the C library's fnmatch (config.h: HAVE_FNMATCH=1), cmdline/elem.c:184/187/243:
      rooted patterns : fnmatch(pattern + 1, path, FNM_PATHNAME)     -> [glob_match true]
      name patterns   : fnmatch(pattern, name, 0)                    -> [glob_match false]
      disk patterns   : fnmatch(pattern, disk, 0)                    -> [glob_match false]
    FNM_PERIOD is never passed: a leading '.' is matched by '*', '?' and sets like any other byte.

    The matcher works in two stages: [tokenize] (the pattern syntax) and [match_toks] (the search).
    Grammar claimed (and compared with libc fnmatch and with cmdline/fnmatch.c on every run):
      '?'  '*'  '\c'  '[' ['!'|'^'] item+ ']'   with item = c | '\c' | lo '-' hi  (lo, hi plain or escaped),
      a ']' directly after '[' / '[!' is an ordinary member, '-' before ']' is an ordinary member,
      an unterminated '[' is an ordinary '[' (glibc), a trailing backslash never matches.
    Outside the claim: POSIX classes [:alpha:], equivalence classes [=a=], collating symbols [.a.],
    unterminated brackets that end in a dangling '-' or backslash, bytes 0, multibyte locales. *)

From Coq Require Import NArith List Bool.
Import ListNotations.
Open Scope N_scope.

Notation SLASH := 47 (only parsing).
Notation STAR := 42 (only parsing).
Notation QMARK := 63 (only parsing).
Notation LBRACK := 91 (only parsing).
Notation RBRACK := 93 (only parsing).
Notation BSLASH := 92 (only parsing).
Notation BANG := 33 (only parsing).
Notation CARET := 94 (only parsing).
Notation DASH := 45 (only parsing).
Notation DOT := 46 (only parsing).

(** Tokens of a pattern.  [TLit esc c]: the byte [c], written with a backslash iff [esc]. *)
Inductive tok : Type :=
| TLit (esc : bool) (c : N)
| TAny
| TStar
| TSet (neg : bool) (rs : list (N * N))
| TFail.

(** One member of a bracket expression, read at the head of [p]:
    a byte (plain or escaped), optionally followed by '-' hi (hi plain or escaped) unless the '-' stands
    directly before the closing ']'. *)
Inductive br_item_res : Type :=
| ItOk (lo hi : N) (rest : list N)
| ItFail.

Definition br_after (cold : N) (q : list N) : br_item_res :=
  match q with
  | d :: q1 =>
      if d =? DASH then
        match q1 with
        | [] => ItFail                                 (* "[a-" then end of pattern *)
        | e :: q2 =>
            if e =? RBRACK then ItOk cold cold q       (* "a-]" : '-' is a member of its own *)
            else if e =? BSLASH then
              match q2 with
              | [] => ItFail
              | e' :: q3 => ItOk cold e' q3
              end
            else ItOk cold e q2
        end
      else ItOk cold cold q
  | [] => ItOk cold cold q
  end.

Definition br_item (p : list N) : br_item_res :=
  match p with
  | [] => ItFail
  | c :: p1 =>
      if c =? BSLASH then
        match p1 with
        | [] => ItFail
        | c' :: p2 => br_after c' p2
        end
      else br_after c p1
  end.

Inductive br_res : Type :=
| BrOk (rs : list (N * N)) (rest : list N)
| BrUnterm
| BrFail.

Definition br_cons (r : N * N) (b : br_res) : br_res :=
  match b with
  | BrOk rs rest => BrOk (r :: rs) rest
  | x => x
  end.

(** Members of a bracket expression up to the closing ']'.  [first]: no member read yet (a ']' is then
    an ordinary member).  Fuel: one unit per member; [S (length p)] always suffices (GlobProofs). *)
Fixpoint br_items (fuel : nat) (first : bool) (p : list N) : br_res :=
  match fuel with
  | O => BrUnterm
  | S fuel' =>
      match p with
      | [] => BrUnterm
      | c :: p1 =>
          if negb first && (c =? RBRACK) then BrOk [] p1
          else
            match br_item p with
            | ItFail => BrFail
            | ItOk lo hi rest => br_cons (lo, hi) (br_items fuel' false rest)
            end
      end
  end.

Definition br_open (p1 : list N) : bool * list N :=
  match p1 with
  | x :: q => if (x =? BANG) || (x =? CARET) then (true, q) else (false, p1)
  | [] => (false, p1)
  end.

Fixpoint tokenize_f (fuel : nat) (p : list N) : list tok :=
  match fuel with
  | O => [TFail]
  | S f =>
      match p with
      | [] => []
      | c :: p1 =>
          if c =? QMARK then TAny :: tokenize_f f p1
          else if c =? STAR then TStar :: tokenize_f f p1
          else if c =? BSLASH then
            match p1 with
            | [] => [TFail]
            | c' :: p2 => TLit true c' :: tokenize_f f p2
            end
          else if c =? LBRACK then
            let (neg, q) := br_open p1 in
            match br_items (S (length q)) true q with
            | BrOk rs rest => TSet neg rs :: tokenize_f f rest
            | BrUnterm => TLit false LBRACK :: tokenize_f f p1
            | BrFail => [TFail]
            end
          else TLit false c :: tokenize_f f p1
      end
  end.

Definition tokenize (p : list N) : list tok := tokenize_f (S (length p)) p.

Definition in_range (c : N) (r : N * N) : bool := (fst r <=? c) && (c <=? snd r).
Definition in_ranges (c : N) (rs : list (N * N)) : bool := existsb (in_range c) rs.

(** libc (and cmdline/fnmatch.c) quirk, kept because it is what runs: in pathname mode a '*' (followed by
    any run of '*' and '?') directly followed by an ESCAPED slash never matches, because the search for the
    next literal stops at the first '/'. *)
Fixpoint skip_wild (ts : list tok) : list tok :=
  match ts with
  | TAny :: ts' => skip_wild ts'
  | TStar :: ts' => skip_wild ts'
  | _ => ts
  end.

Definition starts_esc_slash (ts : list tok) : bool :=
  match ts with
  | TLit true c :: _ => c =? SLASH
  | _ => false
  end.

Definition star_blocked (pn : bool) (ts : list tok) : bool := pn && starts_esc_slash (skip_wild ts).

(** [wild_ok pn x]: may the byte [x] be matched by '?', '*' or a set. *)
Definition wild_ok (pn : bool) (x : N) : bool := negb (pn && (x =? SLASH)).

Fixpoint match_toks (pn : bool) (ts : list tok) (s : list N) {struct ts} : bool :=
  match ts with
  | [] => match s with [] => true | _ :: _ => false end
  | TLit _ c :: ts' =>
      match s with
      | x :: s' => (x =? c) && match_toks pn ts' s'
      | [] => false
      end
  | TAny :: ts' =>
      match s with
      | x :: s' => wild_ok pn x && match_toks pn ts' s'
      | [] => false
      end
  | TSet neg rs :: ts' =>
      match s with
      | x :: s' => wild_ok pn x && xorb neg (in_ranges x rs) && match_toks pn ts' s'
      | [] => false
      end
  | TFail :: _ => false
  | TStar :: ts' =>
      if star_blocked pn ts' then false
      else
        (fix star (s : list N) : bool :=
           match_toks pn ts' s
           || match s with
              | x :: s' => wild_ok pn x && star s'
              | [] => false
              end) s
  end.

(** [glob_match pathname pat s] = (fnmatch(pat, s, pathname ? FNM_PATHNAME : 0) == 0). *)
Definition glob_match (pn : bool) (pat s : list N) : bool := match_toks pn (tokenize pat) s.
