(** C18 — the glob matcher agrees with the declarative meaning of patterns. *)
From Coq Require Import NArith List Bool Lia.
From Snap.Filter Require Import GlobModel.
Import ListNotations.
Open Scope N_scope.

(** * The documented meaning of a (tokenized) pattern *)

Definition InRanges (rs : list (N * N)) (c : N) : Prop :=
  exists lo hi, In (lo, hi) rs /\ lo <= c /\ c <= hi.

Definition InSet (neg : bool) (rs : list (N * N)) (c : N) : Prop :=
  if neg then ~ InRanges rs c else InRanges rs c.

(** [WildOk pn c]: the byte may be matched by a wildcard: in pathname mode never a slash. *)
Definition WildOk (pn : bool) (c : N) : Prop := pn = true -> c <> SLASH.

Inductive Matches (pn : bool) : list tok -> list N -> Prop :=
| M_nil : Matches pn [] []
| M_lit : forall e c ts s, Matches pn ts s -> Matches pn (TLit e c :: ts) (c :: s)
| M_any : forall c ts s, WildOk pn c -> Matches pn ts s -> Matches pn (TAny :: ts) (c :: s)
| M_set : forall neg rs c ts s, WildOk pn c -> InSet neg rs c -> Matches pn ts s ->
                                Matches pn (TSet neg rs :: ts) (c :: s)
| M_star : forall w ts s, Forall (WildOk pn) w -> star_blocked pn ts = false -> Matches pn ts s ->
                          Matches pn (TStar :: ts) (w ++ s).

(** * Reflection lemmas *)

Lemma wild_ok_spec pn c : wild_ok pn c = true <-> WildOk pn c.
Proof.
  unfold wild_ok, WildOk. destruct pn; simpl.
  - rewrite negb_true_iff, N.eqb_neq. split; auto.
  - split; [discriminate|reflexivity].
Qed.

Lemma in_ranges_spec rs c : in_ranges c rs = true <-> InRanges rs c.
Proof.
  unfold in_ranges, InRanges. rewrite existsb_exists. split.
  - intros [[lo hi] [Hin H]]. unfold in_range in H. simpl in H.
    apply andb_true_iff in H. destruct H as [H1 H2].
    apply N.leb_le in H1. apply N.leb_le in H2. exists lo, hi. auto.
  - intros [lo [hi [Hin [H1 H2]]]]. exists (lo, hi). split; auto.
    unfold in_range. simpl. apply andb_true_iff. split; apply N.leb_le; assumption.
Qed.

Lemma in_set_spec neg rs c : xorb neg (in_ranges c rs) = true <-> InSet neg rs c.
Proof.
  unfold InSet. pose proof (in_ranges_spec rs c) as R.
  destruct neg; destruct (in_ranges c rs); simpl.
  - split; [discriminate|]. intros H. exfalso. apply H. apply R. reflexivity.
  - split; [|reflexivity]. intros _ K. apply R in K. discriminate.
  - split; [|reflexivity]. intros _. apply R. reflexivity.
  - split; [discriminate|]. intros K. apply R in K. discriminate.
Qed.

(** the inner loop of the star case, as a top-level function *)
Fixpoint star_loop (pn : bool) (ts : list tok) (s : list N) : bool :=
  match_toks pn ts s
  || match s with
     | x :: s' => wild_ok pn x && star_loop pn ts s'
     | [] => false
     end.

Lemma match_toks_star pn ts s :
  match_toks pn (TStar :: ts) s = if star_blocked pn ts then false else star_loop pn ts s.
Proof.
  simpl. destruct (star_blocked pn ts); [reflexivity|].
  induction s as [|x s IH]; simpl; [reflexivity|]. rewrite IH. reflexivity.
Qed.

Lemma star_loop_spec pn ts s :
  star_loop pn ts s = true <->
  exists w s', s = w ++ s' /\ Forall (WildOk pn) w /\ match_toks pn ts s' = true.
Proof.
  induction s as [|x s IH]; simpl.
  - rewrite orb_false_r. split.
    + intros H. exists [], []. auto.
    + intros [w [s' [E [_ H]]]]. symmetry in E. apply app_eq_nil in E. destruct E; subst. exact H.
  - rewrite orb_true_iff, andb_true_iff, IH, wild_ok_spec. split.
    + intros [H | [Hx [w [s' [E [Hw H]]]]]].
      * exists [], (x :: s). auto.
      * exists (x :: w), s'. subst. auto.
    + intros [w [s' [E [Hw H]]]]. destruct w as [|y w]; simpl in E.
      * subst s'. left. exact H.
      * injection E as E1 E2. subst. right. inversion Hw; subst. split; [assumption|].
        exists w, s'. auto.
Qed.

(** * glob_spec *)

Lemma match_toks_spec pn ts : forall s, match_toks pn ts s = true <-> Matches pn ts s.
Proof.
  induction ts as [|t ts IH]; intros s.
  - destruct s; simpl; split; intros H; try constructor; try discriminate; inversion H.
  - destruct t as [e c| | |neg rs|].
    + destruct s as [|x s]; simpl.
      * split; [discriminate|intros H; inversion H].
      * rewrite andb_true_iff, N.eqb_eq, IH. split.
        -- intros [E H]. subst. constructor. exact H.
        -- intros H. inversion H; subst. auto.
    + destruct s as [|x s]; simpl.
      * split; [discriminate|intros H; inversion H].
      * rewrite andb_true_iff, wild_ok_spec, IH. split.
        -- intros [E H]. constructor; assumption.
        -- intros H. inversion H; subst. auto.
    + rewrite match_toks_star. destruct (star_blocked pn ts) eqn:B.
      * split; [discriminate|]. intros H. inversion H; subst. congruence.
      * rewrite star_loop_spec. split.
        -- intros [w [s' [E [Hw H]]]]. subst. constructor; [assumption|assumption|]. apply IH. exact H.
        -- intros H. inversion H; subst. exists w, s0. split; [reflexivity|]. split; [assumption|].
           apply IH. assumption.
    + destruct s as [|x s]; simpl.
      * split; [discriminate|intros H; inversion H].
      * rewrite !andb_true_iff, wild_ok_spec, in_set_spec, IH. split.
        -- intros [[E1 E2] H]. constructor; assumption.
        -- intros H. inversion H; subst. auto.
    + simpl. split; [discriminate|intros H; inversion H].
Qed.

Theorem glob_spec pn pat s : glob_match pn pat s = true <-> Matches pn (tokenize pat) s.
Proof. unfold glob_match. apply match_toks_spec. Qed.

(** * Fuel: [S (length p)] is always enough, the fuel-exhaustion token is never produced *)

Lemma br_after_shorter cold q lo hi rest :
  br_after cold q = ItOk lo hi rest -> (length rest <= length q)%nat.
Proof.
  unfold br_after. destruct q as [|d q1]; [intros H; inversion H; subst; simpl; lia|].
  destruct (d =? 45).
  - destruct q1 as [|e q2]; [discriminate|].
    destruct (e =? 93); [intros H; inversion H; subst; simpl; lia|].
    destruct (e =? 92).
    + destruct q2 as [|e' q3]; [discriminate|]. intros H; inversion H; subst; simpl; lia.
    + intros H; inversion H; subst; simpl; lia.
  - intros H; inversion H; subst; simpl; lia.
Qed.

Lemma br_item_shorter p lo hi rest :
  br_item p = ItOk lo hi rest -> (length rest < length p)%nat.
Proof.
  unfold br_item. destruct p as [|c p1]; [discriminate|].
  destruct (c =? 92).
  - destruct p1 as [|c' p2]; [discriminate|]. intros H. apply br_after_shorter in H. simpl. lia.
  - intros H. apply br_after_shorter in H. simpl. lia.
Qed.

Lemma br_items_shorter fuel : forall first p rs rest,
  br_items fuel first p = BrOk rs rest -> (length rest < length p)%nat.
Proof.
  induction fuel as [|fuel IH]; intros first p rs rest; simpl; [discriminate|].
  destruct p as [|c p1]; [discriminate|].
  destruct (negb first && (c =? 93)).
  - intros H; inversion H; subst; simpl; lia.
  - destruct (br_item (c :: p1)) as [lo hi r|] eqn:E; [|discriminate].
    apply br_item_shorter in E.
    destruct (br_items fuel false r) as [rs' rest'| |] eqn:E2; simpl; try discriminate.
    intros H; inversion H; subst. apply IH in E2. simpl in *. lia.
Qed.

Local Arguments br_items : simpl never.

Lemma br_open_shorter p1 : (length (snd (br_open p1)) <= length p1)%nat.
Proof.
  unfold br_open. destruct p1 as [|x q]; simpl; [lia|].
  destruct ((x =? 33) || (x =? 94)); simpl; lia.
Qed.

Lemma tokenize_f_fuel : forall f1 f2 p,
  (length p < f1)%nat -> (length p < f2)%nat -> tokenize_f f1 p = tokenize_f f2 p.
Proof.
  induction f1 as [|f1 IH]; intros f2 p H1 H2; [lia|].
  destruct f2 as [|f2]; [lia|].
  destruct p as [|c p1]; [reflexivity|]. simpl in H1, H2. simpl.
  destruct (c =? 63); [f_equal; apply IH; lia|].
  destruct (c =? 42); [f_equal; apply IH; lia|].
  destruct (c =? 92).
  { destruct p1 as [|c' p2]; [reflexivity|]. simpl in H1, H2. f_equal; apply IH; lia. }
  destruct (c =? 91); [|f_equal; apply IH; lia].
  pose proof (br_open_shorter p1) as Ho. destruct (br_open p1) as [neg q]. simpl in Ho.
  destruct (br_items (S (length q)) true q) as [rs rest| |] eqn:E; [| |reflexivity].
  - apply br_items_shorter in E. f_equal; apply IH; lia.
  - f_equal; apply IH; lia.
Qed.

Lemma tokenize_f_cons f c p1 :
  tokenize_f (S f) (c :: p1) =
  if c =? QMARK then TAny :: tokenize_f f p1
  else if c =? STAR then TStar :: tokenize_f f p1
  else if c =? BSLASH then
    match p1 with
    | [] => [TFail]
    | c' :: p2 => TLit true c' :: tokenize_f f p2
    end
  else if c =? LBRACK then
    let (neg, q) := br_open p1 in
    match br_items (S (length q)) true q with
    | BrOk rs rest => TSet neg rs :: tokenize_f f rest
    | BrUnterm => TLit false LBRACK :: tokenize_f f p1
    | BrFail => [TFail]
    end
  else TLit false c :: tokenize_f f p1.
Proof. reflexivity. Qed.

Lemma tokenize_cons c p1 : tokenize (c :: p1) =
  if c =? QMARK then TAny :: tokenize p1
  else if c =? STAR then TStar :: tokenize p1
  else if c =? BSLASH then
    match p1 with
    | [] => [TFail]
    | c' :: p2 => TLit true c' :: tokenize p2
    end
  else if c =? LBRACK then
    let (neg, q) := br_open p1 in
    match br_items (S (length q)) true q with
    | BrOk rs rest => TSet neg rs :: tokenize rest
    | BrUnterm => TLit false LBRACK :: tokenize p1
    | BrFail => [TFail]
    end
  else TLit false c :: tokenize p1.
Proof.
  unfold tokenize at 1. cbn [length]. rewrite tokenize_f_cons.
  destruct (c =? 63); [reflexivity|]. destruct (c =? 42); [reflexivity|].
  destruct (c =? 92).
  { destruct p1 as [|c' p2]; [reflexivity|]. f_equal. unfold tokenize. apply tokenize_f_fuel; simpl; lia. }
  destruct (c =? 91); [|reflexivity].
  pose proof (br_open_shorter p1) as Ho. destruct (br_open p1) as [neg q]. simpl in Ho.
  destruct (br_items (S (length q)) true q) as [rs rest| |] eqn:E; [|reflexivity|reflexivity].
  apply br_items_shorter in E. f_equal. unfold tokenize. apply tokenize_f_fuel; lia.
Qed.

Lemma tokenize_fuel f p : (length p < f)%nat -> tokenize_f f p = tokenize p.
Proof. intros H. unfold tokenize. apply tokenize_f_fuel; lia. Qed.

(** * The pattern syntax, byte by byte (what each form of snapraid.txt section 8 means) *)

Definition ordinary (c : N) : Prop := c <> QMARK /\ c <> STAR /\ c <> BSLASH /\ c <> LBRACK.

Lemma tokenize_nil : tokenize [] = [].
Proof. reflexivity. Qed.

Lemma tokenize_qmark p : tokenize (QMARK :: p) = TAny :: tokenize p.
Proof. rewrite tokenize_cons. reflexivity. Qed.

Lemma tokenize_star p : tokenize (STAR :: p) = TStar :: tokenize p.
Proof. rewrite tokenize_cons. reflexivity. Qed.

Lemma tokenize_ordinary c p : ordinary c -> tokenize (c :: p) = TLit false c :: tokenize p.
Proof.
  intros [H1 [H2 [H3 H4]]]. rewrite tokenize_cons.
  apply N.eqb_neq in H1, H2, H3, H4. rewrite H1, H2, H3, H4. reflexivity.
Qed.

Lemma tokenize_escape c p : tokenize (BSLASH :: c :: p) = TLit true c :: tokenize p.
Proof. rewrite tokenize_cons. reflexivity. Qed.

Lemma tokenize_trailing_backslash : tokenize [BSLASH] = [TFail].
Proof. reflexivity. Qed.

Lemma tokenize_set p1 neg q rs rest :
  br_open p1 = (neg, q) -> br_items (S (length q)) true q = BrOk rs rest ->
  tokenize (LBRACK :: p1) = TSet neg rs :: tokenize rest.
Proof. intros Ho Hb. rewrite tokenize_cons. cbn [N.eqb Pos.eqb]. rewrite Ho, Hb. reflexivity. Qed.

Lemma tokenize_unterminated p1 neg q :
  br_open p1 = (neg, q) -> br_items (S (length q)) true q = BrUnterm ->
  tokenize (LBRACK :: p1) = TLit false LBRACK :: tokenize p1.
Proof. intros Ho Hb. rewrite tokenize_cons. cbn [N.eqb Pos.eqb]. rewrite Ho, Hb. reflexivity. Qed.

(** the meaning of each form, directly on [glob_match] *)
Lemma glob_empty pn s : glob_match pn [] s = true <-> s = [].
Proof. unfold glob_match. rewrite tokenize_nil. destruct s; simpl; split; congruence. Qed.

Lemma glob_ordinary pn c p s : ordinary c ->
  glob_match pn (c :: p) s = true <-> exists s', s = c :: s' /\ glob_match pn p s' = true.
Proof.
  intros Hc. unfold glob_match. rewrite (tokenize_ordinary c p Hc). simpl. destruct s as [|x s].
  - split; [discriminate|intros [s' [E _]]; discriminate].
  - rewrite andb_true_iff, N.eqb_eq. split.
    + intros [E H]. subst. eauto.
    + intros [s' [E H]]. inversion E; subst. auto.
Qed.

Lemma glob_escape pn c p s :
  glob_match pn (BSLASH :: c :: p) s = true <-> exists s', s = c :: s' /\ glob_match pn p s' = true.
Proof.
  unfold glob_match. rewrite tokenize_escape. simpl. destruct s as [|x s].
  - split; [discriminate|intros [s' [E _]]; discriminate].
  - rewrite andb_true_iff, N.eqb_eq. split.
    + intros [E H]. subst. eauto.
    + intros [s' [E H]]. inversion E; subst. auto.
Qed.

Lemma glob_qmark pn p s :
  glob_match pn (QMARK :: p) s = true <-> exists x s', s = x :: s' /\ WildOk pn x /\ glob_match pn p s' = true.
Proof.
  unfold glob_match. rewrite tokenize_qmark. simpl. destruct s as [|x s].
  - split; [discriminate|intros [y [s' [E _]]]; discriminate].
  - rewrite andb_true_iff, wild_ok_spec. split.
    + intros [E H]. eauto.
    + intros [y [s' [E [H1 H2]]]]. inversion E; subst. auto.
Qed.

Lemma glob_star pn p s :
  glob_match pn (STAR :: p) s = true <->
  star_blocked pn (tokenize p) = false /\
  exists w s', s = w ++ s' /\ Forall (WildOk pn) w /\ glob_match pn p s' = true.
Proof.
  unfold glob_match. rewrite tokenize_star, match_toks_star.
  destruct (star_blocked pn (tokenize p)).
  - split; [discriminate|intros [H _]; discriminate].
  - rewrite star_loop_spec. split; [intros H; split; [reflexivity|exact H]|intros [_ H]; exact H].
Qed.

Lemma glob_set pn p1 neg q rs rest s :
  br_open p1 = (neg, q) -> br_items (S (length q)) true q = BrOk rs rest ->
  glob_match pn (LBRACK :: p1) s = true <->
  exists x s', s = x :: s' /\ WildOk pn x /\ InSet neg rs x /\ glob_match pn rest s' = true.
Proof.
  intros Ho Hb. unfold glob_match. rewrite (tokenize_set p1 neg q rs rest Ho Hb). simpl. destruct s as [|x s].
  - split; [discriminate|intros [y [s' [E _]]]; discriminate].
  - rewrite !andb_true_iff, wild_ok_spec, in_set_spec. split.
    + intros [[H1 H2] H3]. eauto 6.
    + intros [y [s' [E [H1 [H2 H3]]]]]. inversion E; subst. auto.
Qed.

(** * Pathname mode: wildcards never match a slash *)

Fixpoint lit_slashes (ts : list tok) : nat :=
  match ts with
  | [] => O
  | TLit _ c :: ts' => if c =? SLASH then S (lit_slashes ts') else lit_slashes ts'
  | _ :: ts' => lit_slashes ts'
  end.

Fixpoint slashes (s : list N) : nat :=
  match s with
  | [] => O
  | c :: s' => if c =? SLASH then S (slashes s') else slashes s'
  end.

Lemma slashes_app a b : slashes (a ++ b) = (slashes a + slashes b)%nat.
Proof. induction a as [|x a IH]; simpl; [reflexivity|]. destruct (x =? 47); simpl; rewrite IH; reflexivity. Qed.

Lemma slashes_wild w : Forall (WildOk true) w -> slashes w = O.
Proof.
  induction 1 as [|x w Hx _ IH]; simpl; [reflexivity|].
  destruct (x =? 47) eqn:E; [|exact IH]. apply N.eqb_eq in E. exfalso. apply (Hx eq_refl). exact E.
Qed.

(** every slash of a string matched in pathname mode is matched by a literal slash of the pattern *)
Lemma matches_slash_count ts s : Matches true ts s -> slashes s = lit_slashes ts.
Proof.
  induction 1 as [|e c ts s _ IH|c ts s Hc _ IH|neg rs c ts s Hc _ _ IH|w ts s Hw _ _ IH]; simpl.
  - reflexivity.
  - destruct (c =? 47); rewrite IH; reflexivity.
  - destruct (c =? 47) eqn:E; [|exact IH]. apply N.eqb_eq in E. exfalso. apply (Hc eq_refl). exact E.
  - destruct (c =? 47) eqn:E; [|exact IH]. apply N.eqb_eq in E. exfalso. apply (Hc eq_refl). exact E.
  - rewrite slashes_app, (slashes_wild w Hw), IH. reflexivity.
Qed.

Theorem glob_pathname_slashes pat s :
  glob_match true pat s = true -> slashes s = lit_slashes (tokenize pat).
Proof. intros H. apply matches_slash_count. apply glob_spec. exact H. Qed.

(** component-wise reading: split pattern tokens and string at (literal) slashes *)
Fixpoint split_toks (ts : list tok) : list tok * list (list tok) :=
  match ts with
  | [] => ([], [])
  | t :: ts' =>
      let (cur, more) := split_toks ts' in
      match t with
      | TLit _ c => if c =? SLASH then ([], cur :: more) else (t :: cur, more)
      | _ => (t :: cur, more)
      end
  end.

Fixpoint split_str (s : list N) : list N * list (list N) :=
  match s with
  | [] => ([], [])
  | c :: s' =>
      let (cur, more) := split_str s' in
      if c =? SLASH then ([], cur :: more) else (c :: cur, more)
  end.

Definition toks_components ts := let (c, m) := split_toks ts in c :: m.
Definition str_components s := let (c, m) := split_str s in c :: m.

Lemma split_str_wild_app w s : Forall (WildOk true) w ->
  split_str (w ++ s) = (w ++ fst (split_str s), snd (split_str s)).
Proof.
  induction 1 as [|x w Hx _ IH]; simpl; [destruct (split_str s); reflexivity|].
  rewrite IH. destruct (x =? 47) eqn:E; [|reflexivity].
  apply N.eqb_eq in E. exfalso. apply (Hx eq_refl). exact E.
Qed.

(** a component of the pattern never contains a literal slash *)
Definition slash_free (ts : list tok) : Prop := lit_slashes ts = O.

Lemma split_toks_slash_free ts : slash_free (fst (split_toks ts)).
Proof.
  unfold slash_free. induction ts as [|t ts IH]; simpl; [reflexivity|].
  destruct (split_toks ts) as [cur more]. simpl in IH.
  destruct t as [e c| | |neg rs|]; simpl; try exact IH.
  destruct (c =? 47) eqn:E; simpl; [reflexivity|]. rewrite E. exact IH.
Qed.

Lemma slash_free_not_blocked pn ts : slash_free ts -> star_blocked pn ts = false.
Proof.
  unfold slash_free, star_blocked. intros H. destruct pn; [|reflexivity]. simpl.
  induction ts as [|t ts IH]; [reflexivity|].
  destruct t as [e c| | |neg rs|]; simpl in *; try (apply IH; exact H); try reflexivity.
  destruct (c =? 47); [discriminate|]. destruct e; reflexivity.
Qed.

Lemma matches_components ts s : Matches true ts s ->
  Forall2 (Matches true) (toks_components ts) (str_components s).
Proof.
  unfold toks_components, str_components.
  induction 1 as [|e c ts s _ IH|c ts s Hc _ IH|neg rs c ts s Hc Hs _ IH|w ts s Hw Hb _ IH]; simpl.
  - repeat constructor.
  - destruct (split_toks ts) as [tc tm]. destruct (split_str s) as [sc sm].
    destruct (c =? 47).
    + constructor; [constructor|exact IH].
    + inversion IH; subst. constructor; [constructor; assumption|assumption].
  - destruct (split_toks ts) as [tc tm]. destruct (split_str s) as [sc sm].
    destruct (c =? 47) eqn:E.
    { apply N.eqb_eq in E. exfalso. apply (Hc eq_refl). exact E. }
    inversion IH; subst. constructor; [constructor; assumption|assumption].
  - destruct (split_toks ts) as [tc tm]. destruct (split_str s) as [sc sm].
    destruct (c =? 47) eqn:E.
    { apply N.eqb_eq in E. exfalso. apply (Hc eq_refl). exact E. }
    inversion IH; subst. constructor; [constructor; assumption|assumption].
  - rewrite (split_str_wild_app w s Hw).
    pose proof (split_toks_slash_free ts) as F.
    destruct (split_toks ts) as [tc tm]. destruct (split_str s) as [sc sm]. simpl. simpl in F.
    inversion IH; subst. constructor; [|assumption].
    constructor; [assumption| |assumption].
    apply slash_free_not_blocked. exact F.
Qed.

(** each component of the pattern is free of literal slashes, so by [matches_slash_count] each component of the
    string is free of slashes: the pattern is matched component by component *)
Theorem glob_pathname_components pat s :
  glob_match true pat s = true ->
  Forall2 (fun tc sc => Matches true tc sc /\ slash_free tc /\ slashes sc = O)
          (toks_components (tokenize pat)) (str_components s).
Proof.
  intros H. apply glob_spec in H. pose proof (matches_components _ _ H) as C.
  assert (A : Forall slash_free (toks_components (tokenize pat))).
  { unfold toks_components. generalize (tokenize pat). intros ts.
    induction ts as [|t ts IH]; simpl; [repeat constructor|].
    destruct (split_toks ts) as [cur more]. inversion IH; subst.
    destruct t as [e c| | |neg rs|]; try (constructor; [exact H2|exact H3]).
    destruct (c =? 47) eqn:E.
    - constructor; [reflexivity|]. constructor; assumption.
    - constructor; [|assumption]. unfold slash_free in *. simpl. rewrite E. exact H2. }
  revert A. induction C as [|tc sc tl sl M _ IH]; intros A; [constructor|].
  inversion A; subst. constructor; [|apply IH; assumption].
  split; [exact M|]. split; [assumption|].
  rewrite (matches_slash_count _ _ M). assumption.
Qed.
