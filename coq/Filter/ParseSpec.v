(** C18 — complete characterisation of filter_alloc_file: which texts are accepted, and with which flags. *)
From Coq Require Import NArith List Bool Lia.
From Snap.Filter Require Import GlobModel GlobProofs FilterModel FilterProofs.
Import ListNotations.
Open Scope N_scope.

Definition is_nil {A : Type} (c : list A) : bool := match c with [] => true | _ => false end.

(** components of a text: [c] before the first slash, [rest] after each slash *)
Lemma split_str_join s :
  s = fst (split_str s) ++ join_path (snd (split_str s)) /\
  no_slash (fst (split_str s)) /\ Forall no_slash (snd (split_str s)).
Proof.
  unfold no_slash. induction s as [|x s [IH1 [IH2 IH3]]]; simpl; [repeat split; constructor|].
  destruct (split_str s) as [cur more]. simpl in *.
  destruct (x =? 47) eqn:E; simpl.
  - apply N.eqb_eq in E. subst x. repeat split; [rewrite IH1 at 1; reflexivity|constructor; assumption].
  - rewrite E. repeat split; [rewrite IH1 at 1; reflexivity|assumption|assumption].
Qed.

(** the token scan, read on the components *)
Fixpoint comps_scan (seen : bool) (c : list N) (rest : list (list N)) : option bool :=
  match rest with
  | [] => if negb (valid_comp c) && (negb seen || negb (is_nil c)) then None else Some seen
  | c' :: rest' => if negb (valid_comp c) && (seen || negb (is_nil c)) then None else comps_scan true c' rest'
  end.

Lemma is_nil_match (c : list N) : negb (match c with [] => true | _ :: _ => false end) = negb (is_nil c).
Proof. reflexivity. Qed.

Lemma tok_scan_comps rest : forall seen c, no_slash c -> Forall no_slash rest ->
  tok_scan seen false false (c ++ join_path rest) = comps_scan seen c rest.
Proof.
  induction rest as [|c' rest IH]; intros seen c Hc Hall; simpl.
  - rewrite app_nil_r, (tok_scan_comp c Hc). simpl. reflexivity.
  - inversion Hall; subst. rewrite tok_scan_app, (scan_state_comp c Hc). simpl.
    destruct (negb (valid_comp c) && (seen || negb (is_nil c))) eqn:E.
    + unfold is_nil in E. rewrite E. reflexivity.
    + unfold is_nil in E. rewrite E. apply IH; assumption.
Qed.

(** the declarative reading: which component lists are well formed *)
Fixpoint tail_ok (c : list N) (rest : list (list N)) : bool :=
  match rest with
  | [] => valid_comp c || is_nil c            (* the last component may be empty: a trailing slash *)
  | c' :: rest' => valid_comp c && tail_ok c' rest'
  end.

Definition comps_ok (c : list N) (rest : list (list N)) : bool :=
  match rest with
  | [] => valid_comp c                         (* no slash at all: FILE *)
  | c' :: rest' => (valid_comp c || is_nil c) && tail_ok c' rest'   (* the first may be empty: a leading slash *)
  end.

Lemma comps_scan_tail rest : forall c, comps_scan true c rest = if tail_ok c rest then Some true else None.
Proof.
  induction rest as [|c' rest IH]; intros c; simpl.
  - destruct (valid_comp c), (is_nil c); reflexivity.
  - rewrite IH. destruct (valid_comp c); simpl; [reflexivity|]. destruct (is_nil c); reflexivity.
Qed.

Lemma comps_scan_ok c rest :
  comps_scan false c rest = if comps_ok c rest then Some (negb (is_nil rest)) else None.
Proof.
  destruct rest as [|c' rest]; simpl.
  - destruct (valid_comp c); reflexivity.
  - rewrite comps_scan_tail. destruct (valid_comp c); simpl; [reflexivity|]. destruct (is_nil c); reflexivity.
Qed.

Lemma count_slash_join rest : Forall no_slash rest -> count_slash (join_path rest) = length rest.
Proof.
  induction 1 as [|c rest Hc _ IH]; simpl; [reflexivity|].
  rewrite count_slash_app, IH. unfold no_slash in Hc. rewrite Hc. reflexivity.
Qed.

Lemma ends_slash_join rest : Forall no_slash rest -> rest <> [] -> forall pre,
  ends_slash (pre ++ join_path rest) = is_nil (last rest []).
Proof.
  induction 1 as [|c rest Hc Hall IH]; intros Hne pre; [congruence|].
  destruct rest as [|c2 rest].
  - simpl. rewrite app_nil_r. destruct c as [|x c]; simpl.
    + rewrite ends_slash_snoc. reflexivity.
    + destruct (exists_last (l := x :: c)) as [c' [y E]]; [discriminate|]. rewrite E.
      change (pre ++ 47 :: c' ++ [y]) with (pre ++ (47 :: c') ++ [y]). rewrite app_assoc, ends_slash_snoc.
      unfold no_slash in Hc. rewrite E, count_slash_app in Hc. simpl in Hc.
      destruct (y =? 47); [lia|reflexivity].
  - change (join_path (c :: c2 :: rest)) with ((47 :: c) ++ join_path (c2 :: rest)).
    rewrite app_assoc. rewrite (IH ltac:(discriminate)). reflexivity.
Qed.

Lemma starts_slash_join c rest : no_slash c -> rest <> [] -> starts_slash (c ++ join_path rest) = is_nil c.
Proof.
  intros Hc Hne. destruct c as [|x c]; simpl.
  - destruct rest; [congruence|reflexivity].
  - unfold no_slash in Hc. simpl in Hc. destruct (x =? 47); [discriminate|reflexivity].
Qed.

(** the complete specification of filter_alloc_file on the components of the text *)
Definition parse_spec (incl : bool) (pat : list N) : option filter :=
  let (c, rest) := split_str pat in
  if comps_ok c rest then
    match rest with
    | [] => Some (mkFilter incl pat false false false)                              (* FILE *)
    | _ :: more =>
        let d := is_nil (last rest []) in
        if is_nil more && d then Some (mkFilter incl (removelast pat) false false true)        (* DIR/ *)
        else if is_nil c
             then Some (mkFilter incl (if d then removelast pat else pat) false true d)         (* /PATH/FILE, /PATH/DIR/ *)
             else None                                                              (* PATH/FILE, PATH/DIR/ *)
    end
  else None.

Theorem filter_parse_spec incl pat : filter_parse incl pat = parse_spec incl pat.
Proof.
  unfold parse_spec. destruct (split_str_join pat) as [E [Hc Hall]].
  destruct (split_str pat) as [c rest]. simpl in E, Hc, Hall.
  unfold filter_parse.
  assert (L1 : tok_scan false false false pat = comps_scan false c rest) by (rewrite E at 1; apply tok_scan_comps; assumption).
  assert (L2 : count_slash pat = length rest).
  { rewrite E at 1. rewrite count_slash_app, (count_slash_join rest Hall). unfold no_slash in Hc. rewrite Hc. reflexivity. }
  rewrite L1, comps_scan_ok, L2.
  destruct (comps_ok c rest); [|reflexivity].
  destruct rest as [|l more]; [reflexivity|].
  assert (L3 : starts_slash pat = is_nil c) by (rewrite E at 1; apply starts_slash_join; [assumption|discriminate]).
  assert (L4 : ends_slash pat = is_nil (last (l :: more) [])) by (rewrite E at 1; apply ends_slash_join; [assumption|discriminate]).
  rewrite L3, L4. cbn [length].
  destruct more as [|l2 more]; cbn [is_nil andb]; destruct (is_nil (last _ [])); destruct (is_nil c); reflexivity.
Qed.

(** the accepted texts, as a property of the components alone *)
Corollary filter_parse_accepts incl pat :
  (exists f, filter_parse incl pat = Some f) <->
  (let (c, rest) := split_str pat in
   comps_ok c rest = true /\
   match rest with
   | [] => True
   | _ :: more => (is_nil more && is_nil (last rest []) = true) \/ is_nil c = true
   end).
Proof.
  rewrite filter_parse_spec. unfold parse_spec. destruct (split_str pat) as [c rest].
  destruct (comps_ok c rest).
  - destruct rest as [|l more].
    + split; [intros _; auto|intros _; eauto].
    + destruct (is_nil more && is_nil (last (l :: more) [])).
      * split; [intros _; auto|intros _; eauto].
      * destruct (is_nil c).
        -- split; [intros _; auto|intros _; eauto].
        -- split; [intros [f H]; discriminate|intros [_ [H|H]]; discriminate].
  - split; [intros [f H]; discriminate|intros [H _]; discriminate].
Qed.
