(* Non-vacuity: a concrete damaged stripe on which every hypothesis of the C01 / C04 theorems holds. *)
From Coq Require Import NArith ZArith List Bool Arith Lia.
From Snap.Array Require Import ArrayDefs SyncProofsDefs.
From Snap.Fix Require Import FixModel ScrubStep RepairProofs StripeProofs ScrubProofs PartialProofs.
Require Snap.Scrub.ScrubModel.
Import ListNotations.

Definition x_hashf (b : bid) (len : N) : hval := HReal (b * 4096 + len)%N.
Definition x_padz (b : bid) (len : N) : bool := true.
Definition x_truncf (b : bid) (len : N) : bid := b.
Definition x_newino (j : nat) (n : N) : N := (900 + n)%N.
Definition x_bs : N := 1024.
(* two data disks with one 1 KiB file each at position 0, two parity levels *)
Definition x_f1 : cfile := mkCF 1 1024 100 0 1 false [mkFB SBlk 0 (x_hashf 11%N 1024%N)].
Definition x_f2 : cfile := mkCF 2 1024 100 0 2 false [mkFB SBlk 0 (x_hashf 12%N 1024%N)].
Definition x_c : content := mkC [Some (mkCD [x_f1] [] [] []); Some (mkCD [x_f2] [] [] [])] [None] 1.
Definition x_v : list bid := [11; 12]%N.
(* damage: the file of disk 0 is missing, level 1 has other content: two damaged blocks, two levels *)
Definition x_fs : list (option fsdisk) := [Some []; Some [mkFF 2 1024 100 0 2 [12%N]]].
Definition x_par : parity := [[PEnc [11; 12]%N]; [PJunk 7]].
Definition x_s : rstate := mkRS x_fs [] x_par 0 0 0 [] 0%N.
Definition x_fix : copts := mkCO true false false false false [] [true; true] [false; false].
Definition x_check : copts := mkCO false false false false false [] [true; true] [false; false].

Lemma x_slot j : slot_of x_c 0 j = match j with 0 => SFile x_f1 0 (mkFB SBlk 0 (x_hashf 11%N 1024%N)) | 1 => SFile x_f2 0 (mkFB SBlk 0 (x_hashf 12%N 1024%N)) | _ => SEmpty end.
Proof. destruct j as [|[|j]]; try reflexivity. unfold slot_of, slots. cbn. destruct j; reflexivity. Qed.

(* the example hash is injective on the block id (for a given length) *)
Lemma x_hash_inj b b' len : hval_eqb (x_hashf b len) (x_hashf b' len) = true -> b = b'.
Proof. unfold x_hashf. cbn [hval_eqb]. intro H. apply N.eqb_eq in H. apply N.add_cancel_r in H. apply N.mul_cancel_r in H; [exact H | discriminate]. Qed.

Lemma x_plain_fix : plain 2 x_fix.
Proof. constructor; try reflexivity; intros l; destruct l as [|[|l]]; intros; cbn; auto; try lia; destruct l; reflexivity. Qed.
Lemma x_plain_check : plain 2 x_check.
Proof. constructor; try reflexivity; intros l; destruct l as [|[|l]]; intros; cbn; auto; try lia; destruct l; reflexivity. Qed.
Lemma x_synced : stripe_synced x_c 0.
Proof.
  split.
  - intro j. rewrite x_slot. destruct j as [|[|j]]; cbn; auto.
  - exists 0. reflexivity.
Qed.
Lemma x_enc : enc_ok x_hashf x_bs x_c 0 x_v.
Proof. split; [reflexivity|]. intros j Hj. rewrite x_slot. destruct j as [|[|j]]; cbn in *; try reflexivity; lia. Qed.

Ltac slot_inv H := rewrite x_slot in H; match type of H with match ?j with _ => _ end = _ => destruct j as [|[|?]] end; inversion H; subst; clear H.

(* C01_fix_step_restores applies: one missing file + one damaged level with two levels *)
Example x_fix_restores :
  let s' := stripe_step x_hashf x_padz x_truncf x_bs 2 false x_newino 999 x_fix x_c x_fs x_s 0 in
  (forall j f idx b, slot_of x_c 0 j = SFile f idx b ->
     exists g, fs_find (r_fs s') j (cf_name f) = Some g /\ nth idx (ff_blocks g) 0%N = vnth x_v j
               /\ (N.of_nat idx * x_bs + block_len x_bs (cf_size f) idx <= ff_size g)%N /\ (ff_size g <= cf_size f)%N)
  /\ (forall l, l < 2 -> par_matches x_v (prow (r_par s') 0 l) = true)
  /\ r_unrec s' = r_unrec x_s /\ keeps_damaged x_s s' /\ length (r_fs s') = length (r_fs x_s).
Proof.
  apply (fix_step_restores x_hashf x_padz x_truncf x_bs 2 false x_newino 999 x_fix x_c x_fs 0 x_s x_v x_plain_fix eq_refl x_synced eq_refl).
  - intros j f idx b H. slot_inv H; cbn; repeat split; auto; try lia; intros g Hg; try discriminate Hg.
    unfold fs_find in Hg. cbn in Hg. injection Hg as Hg. subst g. cbn. lia.
  - exact x_enc.
  - intros. unfold pad_ok, x_padz. apply orb_true_r.
  - intros j f idx b y H Hr Hh. slot_inv H; cbn in Hr; try discriminate Hr. injection Hr as Hr. subst y. reflexivity.
  - intros e x He Hx. vm_compute in He. destruct He as [He|[]]. subst e. unfold blockcmp, x_hashf. cbn [fe_hash fe_len fe_file hval_eqb].
    unfold is_junk, JBASE in Hx. apply andb_false_iff. left. apply N.eqb_neq. cbn. lia.
  - intros l w i e Hl He Hb. vm_compute in He. destruct He as [He|[]]. subst e.
    destruct l as [|[|l]]; cbn in Hl; try discriminate Hl; [|destruct l; discriminate Hl]. injection Hl as Hl. subst w.
    (* only block 11 of the encoded vector passes the hash test of the entry of disk 0 *)
    destruct i as [|[|i]]; [reflexivity | vm_compute in Hb; discriminate Hb | destruct i; vm_compute in Hb; discriminate Hb].
  - intros i e He Hb. vm_compute in He. destruct He as [He|[]]. subst e.
    destruct i as [|[|i]]; [reflexivity | vm_compute in Hb; discriminate Hb | destruct i; vm_compute in Hb; discriminate Hb].
  - intros fsx e b He Hs. vm_compute in He. destruct He as [He|[]]. subst e.
    destruct (search_fetch_hash x_hashf x_bs _ fsx _ b Hs) as [f [i [Ef Eh]]]. cbn in Ef. injection Ef as Ef1 Ef2. subst f i.
    unfold x_hashf in Eh. cbn in Eh. apply N.eqb_eq in Eh. unfold x_bs in Eh. cbn. lia.
  - vm_compute. lia.
  - cbn. lia.
  - intros j f idx b H. slot_inv H; reflexivity.
  - intros j f idx b H. slot_inv H; vm_compute; discriminate.
Qed.

(* the undamaged stripe: C04_check_no_false_alarm and C04_scrub_no_false_alarm apply *)
Definition x_fs_ok : list (option fsdisk) := [Some [mkFF 1 1024 100 0 1 [11%N]]; Some [mkFF 2 1024 100 0 2 [12%N]]].
Definition x_par_ok : parity := [[PEnc [11; 12]%N]; [PEnc [11; 12]%N]].
Definition x_s_ok : rstate := mkRS x_fs_ok [] x_par_ok 0 0 0 [] 0%N.
Example x_check_quiet :
  let s' := stripe_step x_hashf x_padz x_truncf x_bs 2 false x_newino 999 x_check x_c x_fs_ok x_s_ok 0 in
  r_tags s' = [] /\ r_err s' = 0 /\ r_rec s' = 0 /\ r_unrec s' = 0 /\ r_fs s' = x_fs_ok /\ r_par s' = x_par_ok.
Proof.
  apply (check_step_quiet x_hashf x_padz x_truncf x_bs 2 false x_newino 999 x_check x_c x_fs_ok 0 x_s_ok x_plain_check eq_refl x_synced eq_refl).
  - intros j f idx b H. slot_inv H; cbn; repeat split; auto; try lia; intros g Hg; unfold fs_find in Hg; cbn in Hg; injection Hg as Hg; subst g; cbn; lia.
  - intro j. unfold is_bad. rewrite x_slot. destruct j as [|[|j]]; reflexivity.
  - intros l Hl. destruct l as [|[|l]]; try lia; reflexivity.
  - intros j f idx b H. slot_inv H; auto.
Qed.

Example x_scrub_detects :
  exists o, scrub_stripe x_hashf x_bs 2 100 {| ScrubModel.c_error := 0; ScrubModel.c_silent := 0; ScrubModel.c_io := 0 |} x_c
                         [[PEnc [11; 12]%N]; [PJunk 7]] x_fs_ok 0 = Some o
            /\ so_bad o = true /\ so_tags o = [(K_SC_PAR_DATA, [0; 1]%N)].
Proof. eexists. split; [vm_compute; reflexivity|]. split; reflexivity. Qed.

(* C05: the hypothesis of the partial theorem is exactly what the witnesses break *)
Example x_past_hash_inv_holds :    (* past hash = hash of the old block over the length compared *)
  past_hash_inv x_hashf x_padz x_bs (mkFE true false 0 (Some SChg) (x_hashf 11%N 1024%N) (Some (x_f1, 0%nat))) 11%N.
Proof. reflexivity. Qed.
Example x_past_hash_inv_broken_by_length :   (* F-C05b: the new block is 100 bytes long, the past hash was taken over 1024 *)
  ~ past_hash_inv x_hashf x_padz x_bs (mkFE true false 0 (Some SChg) (x_hashf 11%N 1024%N) (Some (mkCF 1 100 200 0 4 false [mkFB SChg 0 (x_hashf 11%N 1024%N)], 0%nat))) 11%N.
Proof. unfold past_hash_inv. cbn. discriminate. Qed.
Example x_past_hash_inv_broken_by_zero :     (* F-C05c: ZERO recorded although the parity encodes block 22 *)
  ~ past_hash_inv x_hashf x_padz x_bs (mkFE true false 0 (Some SChg) HZero (Some (x_f1, 0%nat))) 22%N.
Proof. unfold past_hash_inv. cbn. discriminate. Qed.
