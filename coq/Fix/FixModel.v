(* Executable model of check / fix: cmdline/check.c  repair_step, repair, file_post, block_is_enabled,
   state_check_process (the stripe loop, the loop over empty files / links / dirs, the final clean-up and the exit
   status) and the parts of state.c state_filter that decide FILE_IS_EXCLUDED for -d / -f / -m / -e.  Definitions only
   (this file is extracted).

   Abstraction: coq/Array/ArrayDefs.v.  A buffer is a vector of block ids (one per disk position); raid_data over a
   failed set F with the parity blocks `used` gives v|F when every used block is `PEnc v` for one and the same v that
   agrees with the buffer outside F (C03), and fresh junk ids (>= JBASE, never recorded anywhere) otherwise; raid_gen
   over a buffer b gives `PEnc b` on every level; two parity blocks are equal iff they encode the same vector.

   Not modelled: import directories (-i: state_import_fetch always fails), hash migration in progress (the rehash bit),
   I/O errors other than missing / short files and missing / short parity, signals; -S/-B ranges are given as the list
   of positions to visit. *)
From Coq Require Import NArith ZArith List Bool Arith.
From Snap.Array Require Import ArrayDefs.
Import ListNotations.

Definition JBASE : N := 4294967296.

(* a log tag: kind and numeric arguments (ocaml/C01/driver.ml prints them in the tool's format) *)
Notation tag := (N * list N)%type (only parsing).
Definition K_ERR_OPEN : N := 1.      (* error:<pos>:<disk>:<file>: Open error at position <fpos>            args pos d name fpos *)
Definition K_ERR_READ : N := 2.      (* error:<pos>:<disk>:<file>: Read error at position <fpos> *)
Definition K_ERR_DATA : N := 3.      (* error:<pos>:<disk>:<file>: Data error at position <fpos> *)
Definition K_ERR_SIZE : N := 4.      (* error:<pos>:<disk>:<file>: Size error                                args pos d name *)
Definition K_FIXED_SIZE : N := 5.    (* fixed:<pos>:<disk>:<file>: Fixed size *)
Definition K_PAR_READ : N := 6.      (* parity_error:<pos>:<level>: Read error                               args pos l *)
Definition K_PAR_DATA : N := 7.      (* parity_error:<pos>:<level>: Data error *)
Definition K_PAR_TRY : N := 8.       (* parity_error:<pos>:<l1>/<l2>..:hash|parity: mismatch                 args pos hash? l1 l2 .. *)
Definition K_UNREC : N := 9.         (* unrecoverable:<pos>:<disk>:<file>: Unrecoverable error at position   args pos d name fpos *)
Definition K_UNREC_UNSYNC : N := 10. (* unrecoverable:...: Unrecoverable unsynced error at position *)
Definition K_FIXED : N := 11.        (* fixed:<pos>:<disk>:<file>: Fixed data error at position <fpos> *)
Definition K_PAR_FIXED : N := 12.    (* parity_fixed:<pos>:<level> *)
Definition K_ST_RECOVERED : N := 13. (* status:recovered:<disk>:<file>                                       args d name *)
Definition K_ST_UNREC : N := 14.     (* status:unrecoverable *)
Definition K_ST_RECOVERABLE : N := 15.
Definition K_ST_DAMAGED : N := 16.
Definition K_COLLISION : N := 17.    (* collision:<disk>:<file>:<other> *)
Definition K_EMPTY_ERR : N := 20.    (* error:<disk>:<file>: Empty file ...                                  args d name *)
Definition K_EMPTY_FIXED : N := 21.  (* fixed:<disk>:<file>: Fixed empty file *)
Definition K_HARD_ERR : N := 22.     (* hardlink_error:<disk>:<link>:<to>                                    args d name *)
Definition K_HARD_FIXED : N := 23.
Definition K_SYM_ERR : N := 24.
Definition K_SYM_FIXED : N := 25.
Definition K_DIR_ERR : N := 26.
Definition K_DIR_FIXED : N := 27.
Definition K_HASH_UNKNOWN : N := 30. (* hash_unknown: ... on entry                                           args pos d kind(1 unknown hash,2 old zero,3 old data,4 surely old) *)

(* what lstat / readlink say about a recorded symlink or dir (observed by the harness; independent of the stripe loop) *)
Inductive ostat := OOk | OBad.
Inductive okind := KEmpty | KHard | KSym | KDir.
Record obj := mkObj { ob_disk : nat; ob_kind : okind; ob_name : N; ob_to : N; ob_stat : ostat; ob_excl : bool }.

Definition fkey := (nat * N)%type.
Definition fkey_eqb (a b : fkey) : bool := Nat.eqb (fst a) (fst b) && N.eqb (snd a) (snd b).

Record fflags := mkFl { fl_missing : bool; fl_opened : bool; fl_unsynced : bool; fl_created : bool;
                        fl_damaged : bool; fl_fixed : bool; fl_finished : bool }.
Definition fl0 := mkFl false false false false false false false.
Definition flags := list (fkey * fflags).
Definition get_fl (fl : flags) (k : fkey) : fflags :=
  match find (fun x => fkey_eqb (fst x) k) fl with Some x => snd x | None => fl0 end.
Definition set_fl (fl : flags) (k : fkey) (v : fflags) : flags :=
  (k, v) :: filter (fun x => negb (fkey_eqb (fst x) k)) fl.
Definition fl_set_missing f := mkFl true (fl_opened f) (fl_unsynced f) (fl_created f) (fl_damaged f) (fl_fixed f) (fl_finished f).
Definition fl_set_opened f := mkFl (fl_missing f) true (fl_unsynced f) (fl_created f) (fl_damaged f) (fl_fixed f) (fl_finished f).
Definition fl_set_unsynced f := mkFl (fl_missing f) (fl_opened f) true (fl_created f) (fl_damaged f) (fl_fixed f) (fl_finished f).
Definition fl_set_created f := mkFl (fl_missing f) (fl_opened f) (fl_unsynced f) true (fl_damaged f) (fl_fixed f) (fl_finished f).
Definition fl_set_damaged f := mkFl (fl_missing f) (fl_opened f) (fl_unsynced f) (fl_created f) true (fl_fixed f) (fl_finished f).
Definition fl_set_fixed f := mkFl (fl_missing f) (fl_opened f) (fl_unsynced f) (fl_created f) (fl_damaged f) true (fl_finished f).
Definition fl_set_finished f := mkFl (fl_missing f) (fl_opened f) (fl_unsynced f) (fl_created f) (fl_damaged f) (fl_fixed f) true.

(* options of the run: snapraid.c option parsing + state_filter results *)
Record copts := mkCO {
  co_fix : bool;
  co_audit : bool;            (* -a *)
  co_badfile : bool;          (* -e: opt.badfileonly *)
  co_syncedonly : bool;       (* -e: opt.syncedonly *)
  co_nosearch : bool;         (* --force-nocopy or -a: no state_search_array *)
  co_excl : list fkey;        (* files with FILE_IS_EXCLUDED *)
  co_popen : list bool;       (* per level: parity handle available (parity_ptr[l] != 0) *)
  co_pexcl : list bool        (* per level: is_excluded_by_filter *)
}.
Definition is_excl (o : copts) (j : nat) (name : N) : bool := existsb (fkey_eqb (j, name)) (co_excl o).

(* ---- vectors ------------------------------------------------------------------------------------------- *)
Definition vnth (v : list bid) (i : nat) : bid := nth i v 0%N.
Definition veq (a b : list bid) : bool :=
  forallb (fun i => N.eqb (vnth a i) (vnth b i)) (seq 0 (Nat.max (length a) (length b))).
Definition memn (i : nat) (l : list nat) : bool := existsb (Nat.eqb i) l.
Definition agree_out (F : list nat) (v d : list bid) : bool :=
  forallb (fun i => memn i F || N.eqb (vnth v i) (vnth d i)) (seq 0 (Nat.max (length v) (length d))).
Definition mapi {A B} (f : nat -> A -> B) (l : list A) : list B :=
  map (fun ix => f (fst ix) (snd ix)) (combine (seq 0 (length l)) l).

(* the xor of blocks named by ids, as a multiset of ids: the zero block is neutral, two equal blocks cancel *)
Fixpoint xor_toggle (x : bid) (m : list bid) : list bid :=
  match m with
  | [] => [x]
  | y :: t => if N.eqb x y then t else y :: xor_toggle x t
  end.
Definition xor_ids (l : list bid) : list bid := fold_left (fun m x => if N.eqb x 0 then m else xor_toggle x m) l [].

(* raid_data(|F|, F, levels of `used`, ...) on the buffer d; jn = junk counter.
   xor1 = exactly one level is used and it is the first one (plain XOR parity: every coefficient is 1).  There, with a
   single failed position j, the result is v_j + sum over the other positions i of (v_i + d_i), and the id abstraction can
   still name it whenever that sum cancels down to at most one block: blocks that were MOVED between the other disk positions
   of the stripe (or moved away / copied to another disk) since the parity was computed cancel out although the parity is
   stale, and a block that moved from disk i to the failed disk j (old place now reading as zero) comes back.  Any result
   that does not cancel down to one block is junk. *)
Definition reconstruct (xor1 : bool) (F : list nat) (used : list penc) (d : list bid) (jn : N) : list bid * N :=
  let junk := (mapi (fun i x => if memn i F then (JBASE + jn + N.of_nat i)%N else x) d, (jn + N.of_nat (length d))%N) in
  match used with
  | PEnc v :: rest =>
      if forallb (fun p => match p with PEnc v' => veq v v' | _ => false end) rest && agree_out F v d
      then (mapi (fun i x => if memn i F then vnth v i else x) d, jn)
      else if xor1 then
        match F, rest with
        | [j], [] =>
            let others := filter (fun i => negb (Nat.eqb i j)) (seq 0 (Nat.max (length v) (length d))) in
            match xor_ids (vnth v j :: flat_map (fun i => [vnth v i; vnth d i]) others) with
            | [] => (mapi (fun k x => if Nat.eqb k j then 0%N else x) d, jn)
            | [x] => (mapi (fun k x0 => if Nat.eqb k j then x else x0) d, jn)
            | _ => junk
            end
        | _, _ => junk
        end
      else junk
  | _ => junk
  end.

(* memcmp(parity computed from buffer b, parity block read) == 0 *)
Definition par_matches (b : list bid) (p : penc) : bool := match p with PEnc v => veq b v | _ => false end.
Definition is_pnone (p : penc) : bool := match p with PNone => true | _ => false end.

(* combination_first / combination_next: r-subsets in lexicographic order *)
Fixpoint combos (l : list nat) (r : nat) {struct l} : list (list nat) :=
  match l with
  | [] => match r with O => [[]] | S _ => [] end
  | x :: t => match r with
              | O => [[]]
              | S r' => map (cons x) (combos t r') ++ combos t r
              end
  end.

(* a block that failed the hash check, or that was deleted (struct failed_struct) *)
Record fent := mkFE {
  fe_bad : bool; fe_ood : bool; fe_idx : nat;
  fe_state : option bstate;         (* None = DELETED *)
  fe_hash : hval;
  fe_file : option (cfile * nat)    (* file and file_pos; None for a DELETED block *)
}.
Definition fe_set_ood (e : fent) : fent := mkFE (fe_bad e) true (fe_idx e) (fe_state e) (fe_hash e) (fe_file e).
(* block_has_updated_hash *)
Definition fe_updated_hash (e : fent) : bool := match fe_state e with Some SBlk | Some SRep => true | _ => false end.
Definition fe_is (s : bstate) (e : fent) : bool := match fe_state e with Some s' => bstate_eqb s s' | None => false end.

Inductive rres := ROk | RErr (n : nat) | RNone.     (* repair_step / repair: 0, > 0, -1 *)

Section Fix.
  Variable hashf : bid -> N -> hval.
  Variable padz : bid -> N -> bool.   (* the bytes [len, block size) of the padded block are zero *)
  Variable truncf : bid -> N -> bid.  (* the block made of the first len bytes, zero padded *)
  Variable bs : N.
  Variable nlev : nat.
  Variable reduced : bool.            (* BLOCK_HASH_SIZE != HASH_MAX: elem.h hash_is_invalid/zero/unique return 0 *)
  Variable newino : nat -> N -> N.    (* inode given by the OS to a file created by this run (disk position, name) *)
  Variable now : Z.                   (* mtime given by the OS to a file written by this run *)

  Definition h_is_invalid (h : hval) : bool := negb reduced && match h with HInvalid => true | _ => false end.
  Definition h_is_zero (h : hval) : bool := negb reduced && match h with HZero => true | _ => false end.
  Definition h_is_unique (h : hval) : bool := negb reduced && negb (h_is_zero h) && negb (h_is_invalid h).

  Definition pad_ok (b : bid) (len : N) : bool := (bs <=? len)%N || padz b len.
  (* blockcmp == 0 *)
  Definition blockcmp (h : hval) (len : N) (b : bid) : bool := hval_eqb (hashf b len) h && pad_ok b len.
  Definition fe_len (e : fent) : N := match fe_file e with Some (f, i) => block_len bs (cf_size f) i | None => bs end.

  (* ---- repair_step ------------------------------------------------------------------------------------ *)
  Definition has_hash (fm : list fent) : bool := existsb (fun e => negb (fe_ood e) && fe_updated_hash e) fm.
  (* is_hash_matching *)
  Definition hash_matching (fm : list fent) (buf : list bid) : bool :=
    has_hash fm &&
    forallb (fun e => if negb (fe_ood e) && fe_updated_hash e then blockcmp (fe_hash e) (fe_len e) (vnth buf (fe_idx e)) else true) fm.

  Fixpoint try_combos (pos : nat) (withhash : bool) (F : list nat) (fm : list fent) (rec : list penc) (cs : list (list nat))
           (buf : list bid) (jn : N) (err : nat) (tags : list tag) : bool * list bid * N * nat * list tag :=
    match cs with
    | [] => (false, buf, jn, err, tags)
    | ip :: rest =>
        if existsb (fun l => is_pnone (nth l rec PNone)) ip
        then try_combos pos withhash F fm rec rest buf jn err tags
        else
          let used := if withhash then ip else removelast ip in
          let xor1 := match used with [O] => true | _ => false end in
          let '(buf', jn') := reconstruct xor1 F (map (fun l => nth l rec PNone) used) buf jn in
          let ok := if withhash then hash_matching fm buf' else par_matches buf' (nth (last ip O) rec PNone) in
          if ok then (true, buf', jn', err, tags)
          else try_combos pos withhash F fm rec rest buf' jn' (S err)
                          (tags ++ [(K_PAR_TRY, N.of_nat pos :: (if withhash then 1%N else 0%N) :: map N.of_nat ip)])
    end.

  Definition repair_step (pos : nat) (fm : list fent) (rec : list penc) (buf : list bid) (jn : N)
    : rres * list bid * N * list tag :=
    let n := length fm in
    if Nat.eqb n 0 then (ROk, buf, jn, []) else
    let F := map fe_idx fm in
    let hh := has_hash fm in
    let run := if hh then (n <=? nlev)%nat else (n <? nlev)%nat in
    if negb run then (RNone, buf, jn, []) else
    let cs := combos (seq 0 nlev) (if hh then n else S n) in
    let '(ok, buf', jn', err, tags) := try_combos pos hh F fm rec cs buf jn 0 [] in
    if ok then (ROk, buf', jn', tags)
    else (match err with O => RNone | S _ => RErr err end, buf', jn', tags).

  (* ---- repair ----------------------------------------------------------------------------------------- *)
  (* state_search_fetch: a file anywhere in the array with the size and time-stamp of the missing one whose block at
     the same offset has the recorded hash *)
  Definition search_fetch (nosearch : bool) (fs0 : list (option fsdisk)) (e : fent) : option bid :=
    if nosearch then None else
    match fe_file e with
    | None => None
    | Some (f, i) =>
        let len := block_len bs (cf_size f) i in
        let cands := flat_map (fun od => match od with Some d => d | None => [] end) fs0 in
        match find (fun g => N.eqb (ff_size g) (cf_size f) && Z.eqb (ff_mtime g) (cf_mtime f) && Z.eqb (ff_nsec g) (cf_nsec f)
                             && hval_eqb (hashf (nth i (ff_blocks g) 0%N) len) (fe_hash e)) cands with
        | Some g => Some (nth i (ff_blocks g) 0%N)
        | None => None
        end
    end.

  Definition set_buf (buf : list bid) (i : nat) (b : bid) : list bid := mapi (fun k x => if Nat.eqb k i then b else x) buf.

  (* the CHG heuristics after a successful strategy 1 *)
  Definition chg_heuristic (pos : nat) (buf : list bid) (e : fent) : fent * list tag :=
    if fe_bad e && fe_is SChg e then
      if h_is_invalid (fe_hash e) then (fe_set_ood e, [(K_HASH_UNKNOWN, [N.of_nat pos; N.of_nat (fe_idx e); 1%N])])
      else if h_is_zero (fe_hash e) then
        (if N.eqb (vnth buf (fe_idx e)) 0 then (fe_set_ood e, [(K_HASH_UNKNOWN, [N.of_nat pos; N.of_nat (fe_idx e); 2%N])]) else (e, []))
      else
        (if blockcmp (fe_hash e) (fe_len e) (vnth buf (fe_idx e)) then (fe_set_ood e, [(K_HASH_UNKNOWN, [N.of_nat pos; N.of_nat (fe_idx e); 3%N])]) else (e, []))
    else (e, []).

  Definition repair (pos : nat) (nosearch : bool) (fs0 : list (option fsdisk)) (failed : list fent) (rec : list penc)
             (buf : list bid) (jn : N) : rres * list fent * list bid * N * list tag :=
    match failed with
    | [] => (ROk, failed, buf, jn, [])
    | _ =>
      (* strategy 1: the parity is updated *)
      let '(fm1, buf1) :=
        fold_left (fun (acc : list fent * list bid) e =>
                     if fe_bad e then
                       match (if fe_updated_hash e then search_fetch nosearch fs0 e else None) with
                       | Some b => (fst acc, set_buf (snd acc) (fe_idx e) b)
                       | None => (fst acc ++ [e], snd acc)
                       end
                     else acc) failed ([], buf) in
      match fm1 with
      | [] => (ROk, failed, buf1, jn, [])
      | _ =>
        let '(r1, buf2, jn2, tags1) := repair_step pos fm1 rec buf1 jn in
        match r1 with
        | ROk =>
            let res := map (chg_heuristic pos buf2) failed in
            (ROk, map fst res, buf2, jn2, tags1 ++ flat_map snd res)
        | _ =>
          let err1 := match r1 with RErr n => n | _ => O end in
          (* strategy 2: the parity is still the old one *)
          let step := fun (acc : list fent * list fent * list bid * bool * bool) e =>
            let '(fl, fm, b, torec, unsync) := acc in
            match fe_state e with
            | Some SBlk =>
                if fe_bad e then (fl ++ [e], fm ++ [e], b, true, unsync) else (fl ++ [e], fm, b, torec, unsync)
            | _ =>
                let e' := fe_set_ood e in
                if fe_is SChg e && h_is_zero (fe_hash e)
                then (fl ++ [e'], fm, set_buf b (fe_idx e) 0%N, torec, true)
                else (fl ++ [e'], fm ++ [e'], b, torec, true)
            end in
          let '(failed2, fm2, buf3, torec, unsync) := fold_left step failed ([], [], buf2, false, false) in
          (* the entries of fm2 taken before a later entry was marked keep their own flag: every CHG/REP/DELETED entry
             is marked when it is met, BLK entries are never marked, so fm2 already carries the final flags *)
          if torec && unsync then
            let '(r2, buf4, jn4, tags2) := repair_step pos fm2 rec buf3 jn2 in
            match r2 with
            | ROk =>
                let t := flat_map (fun e => if fe_bad e && (fe_is SChg e || fe_is SRep e)
                                            then [(K_HASH_UNKNOWN, [N.of_nat pos; N.of_nat (fe_idx e); 4%N])] else []) failed2 in
                (ROk, failed2, buf4, jn4, tags1 ++ tags2 ++ t)
            | _ =>
                let err2 := match r2 with RErr n => n | _ => O end in
                (match (err1 + err2)%nat with O => RNone | S k => RErr (S k) end, failed2, buf4, jn4, tags1 ++ tags2)
            end
          else (match err1 with O => RNone | S k => RErr (S k) end, failed2, buf3, jn2, tags1)
        end
      end
    end.

  (* ---- the state of a run ------------------------------------------------------------------------------ *)
  Record rstate := mkRS {
    r_fs : list (option fsdisk);    (* the data disks as they are now *)
    r_flags : flags;
    r_par : parity;
    r_err : nat; r_rec : nat; r_unrec : nat;
    r_tags : list tag;
    r_jn : N
  }.
  Definition rs_tag (s : rstate) (t : list tag) := mkRS (r_fs s) (r_flags s) (r_par s) (r_err s) (r_rec s) (r_unrec s) (r_tags s ++ t) (r_jn s).
  Definition rs_err (s : rstate) (n : nat) := mkRS (r_fs s) (r_flags s) (r_par s) (r_err s + n) (r_rec s) (r_unrec s) (r_tags s) (r_jn s).
  Definition rs_recov (s : rstate) (n : nat) := mkRS (r_fs s) (r_flags s) (r_par s) (r_err s) (r_rec s + n) (r_unrec s) (r_tags s) (r_jn s).
  Definition rs_unrec (s : rstate) (n : nat) := mkRS (r_fs s) (r_flags s) (r_par s) (r_err s) (r_rec s) (r_unrec s + n) (r_tags s) (r_jn s).
  Definition rs_setfs (s : rstate) fs := mkRS fs (r_flags s) (r_par s) (r_err s) (r_rec s) (r_unrec s) (r_tags s) (r_jn s).
  Definition rs_setfl (s : rstate) fl := mkRS (r_fs s) fl (r_par s) (r_err s) (r_rec s) (r_unrec s) (r_tags s) (r_jn s).
  Definition rs_setpar (s : rstate) p := mkRS (r_fs s) (r_flags s) p (r_err s) (r_rec s) (r_unrec s) (r_tags s) (r_jn s).
  Definition rs_setjn (s : rstate) j := mkRS (r_fs s) (r_flags s) (r_par s) (r_err s) (r_rec s) (r_unrec s) (r_tags s) j.
  Definition rs_flag (s : rstate) (k : fkey) (f : fflags -> fflags) := rs_setfl s (set_fl (r_flags s) k (f (get_fl (r_flags s) k))).

  Definition fs_find (fs : list (option fsdisk)) (j : nat) (name : N) : option fsfile :=
    match nth j fs None with Some d => find_fs name d | None => None end.
  Definition fs_del (fs : list (option fsdisk)) (j : nat) (name : N) : list (option fsdisk) :=
    mapi (fun k od => if Nat.eqb k j then match od with Some d => Some (filter (fun g => negb (N.eqb (ff_name g) name)) d) | None => None end else od) fs.
  Definition fs_put (fs : list (option fsdisk)) (j : nat) (g : fsfile) : list (option fsdisk) :=
    mapi (fun k od => if Nat.eqb k j
                      then Some (g :: match od with Some d => filter (fun x => negb (N.eqb (ff_name x) (ff_name g))) d | None => [] end)
                      else od) fs.

  (* state_search_fetch (search.c) looks in the list of ALL the files of the array taken when the command starts (path, size,
     time-stamp), but reads the bytes of a candidate only when they are needed: what fix has written into that file meanwhile
     is what is read (a twin repaired in an earlier stripe gives its repaired block), and a candidate that is no longer
     there (fix itself renamed it to .unrecoverable) simply does not match (c59fbb3; before, fix gave up).  A candidate that
     became shorter than the block to read does not match either: its block list ends before. *)
  Definition search_view (fs0 cur : list (option fsdisk)) : list (option fsdisk) :=
    mapi (fun j od => match od with
                      | None => None
                      | Some d => Some (flat_map (fun g0 => match fs_find cur j (ff_name g0) with
                                                          | Some g => [mkFF (ff_name g0) (ff_size g0) (ff_mtime g0) (ff_nsec g0) (ff_inode g0) (ff_blocks g)]
                                                          | None => []
                                                          end) d)
                      end) fs0.

  (* handle_write of buffer block b at block idx of the file (write size = block length of the recorded size) *)
  Definition write_block (g : fsfile) (f : cfile) (idx : nat) (b : bid) : fsfile :=
    let len := block_len bs (cf_size f) idx in
    let b' := if pad_ok b len then b else truncf b len in
    let endo := (N.of_nat idx * bs + len)%N in
    mkFF (ff_name g) (if (ff_size g <? endo)%N then endo else ff_size g) now 0 (ff_inode g) (set_ext 0%N idx b' (ff_blocks g)).

  Definition tg (k : N) (args : list nat) (name : list N) : tag := (k, map N.of_nat args ++ name).

  (* ---- one stripe: the loop over the disks -------------------------------------------------------------- *)
  Record dacc := mkDA { da_buf : list bid; da_failed : list fent; da_valid : bool; da_used : bool; da_st : rstate }.

  (* opening the file of a block (handle_open / handle_create and the first-open checks); None = open error *)
  Definition open_step (o : copts) (pos j : nat) (f : cfile) (s0 : rstate) : option rstate :=
    let name := cf_name f in
    let key := (j, name) in
    let excl := is_excl o j name in
    let creating := co_fix o && negb excl in
    let present := match fs_find (r_fs s0) j name with Some _ => true | None => false end in
    if negb creating && (fl_missing (get_fl (r_flags s0) key) || negb present) then None
    else
      let s1 := if present then s0
                else rs_flag (rs_setfs s0 (fs_put (r_fs s0) j (mkFF name 0 now 0 (newino j name) []))) key fl_set_created in
      match fs_find (r_fs s1) j name with
      | None => None     (* impossible *)
      | Some g0 =>
        let fl1 := get_fl (r_flags s1) key in
        let first := negb (fl_opened fl1) && negb excl in
        let unsynced := first && (negb (N.eqb (ff_size g0) (cf_size f)) || negb (Z.eqb (ff_mtime g0) (cf_mtime f)) || negb (Z.eqb (ff_nsec g0) (cf_nsec f))) in
        let s2 := if unsynced then rs_flag s1 key fl_set_unsynced else s1 in
        let fl2 := get_fl (r_flags s2) key in
        let larger := first && negb (co_syncedonly o && fl_unsynced fl2) && (cf_size f <? ff_size g0)%N in
        let s3 := if larger then
                    let s' := rs_err (rs_tag s2 [tg K_ERR_SIZE [pos; j] [name]]) 1 in
                    if co_fix o
                    then
                      (* the file is cut back to its recorded size and flagged FIXED, so that file_post reports it recovered and
                         gives it its recorded time-stamp back (993feac; before, the time of the truncation was left) *)
                      rs_flag (rs_recov (rs_tag (rs_setfs s' (fs_put (r_fs s') j (mkFF name (cf_size f) now 0 (ff_inode g0) (firstn (nblocks bs (cf_size f)) (ff_blocks g0)))))
                                                [tg K_FIXED_SIZE [pos; j] [name]]) 1) key fl_set_fixed
                    else s'
                  else s2 in
        Some (rs_flag s3 key fl_set_opened)
      end.

  (* handle_read of block idx of file f: None = read error (the file ends before the end of the block) *)
  Definition read_block (s : rstate) (j : nat) (f : cfile) (idx : nat) : option bid :=
    match fs_find (r_fs s) j (cf_name f) with
    | None => None
    | Some g => if (ff_size g <? N.of_nat idx * bs + block_len bs (cf_size f) idx)%N then None else Some (nth idx (ff_blocks g) 0%N)
    end.

  Definition data_step (o : copts) (c : content) (pos : nat) (a : dacc) (j : nat) : dacc :=
    let push0 := fun (a : dacc) => mkDA (da_buf a ++ [0%N]) (da_failed a) (da_valid a) (da_used a) (da_st a) in
    match nth j (c_disks c) None with
    | None => push0 a
    | Some d =>
      match slot_at d pos with
      | SEmpty => push0 a
      | SDeleted h => mkDA (da_buf a ++ [0%N]) (da_failed a ++ [mkFE false false j None h None]) false (da_used a) (da_st a)
      | SFile f idx b =>
        let valid := da_valid a && bstate_eqb (fb_state b) SBlk in
        let name := cf_name f in
        let key := (j, name) in
        if co_audit o && is_excl o j name then mkDA (da_buf a ++ [0%N]) (da_failed a) valid true (da_st a) else
        let s0 := da_st a in
        let ent := fun (bad : bool) => mkFE bad false j (Some (fb_state b)) (fb_hash b) (Some (f, idx)) in
        let fail := fun (s : rstate) (k : N) =>
                      mkDA (da_buf a ++ [0%N]) (da_failed a ++ [ent true]) valid true
                           (rs_err (rs_tag s [tg k [pos; j] [name; N.of_nat idx]]) 1) in
        match open_step o pos j f s0 with
        | None => fail (rs_flag s0 key fl_set_missing) K_ERR_OPEN
        | Some s4 =>
          match read_block s4 j f idx with
          | None => fail s4 K_ERR_READ
          | Some data =>
            let len := block_len bs (cf_size f) idx in
            match fb_state b with
            | SChg => mkDA (da_buf a ++ [data]) (da_failed a ++ [ent false]) valid true s4
            | st =>
                if hval_eqb (hashf data len) (fb_hash b)
                then mkDA (da_buf a ++ [data]) (da_failed a ++ (if bstate_eqb st SRep then [ent false] else [])) valid true s4
                else mkDA (da_buf a ++ [data]) (da_failed a ++ [ent true]) valid true
                          (rs_err (rs_tag s4 [tg K_ERR_DATA [pos; j] [name; N.of_nat idx]]) 1)
            end
          end
        end
      end
    end.

  (* file_post for disk position j *)
  Definition file_post (o : copts) (c : content) (pos : nat) (s : rstate) (j : nat) : rstate :=
    match nth j (c_disks c) None with
    | None => s
    | Some d =>
      match slot_at d pos with
      | SFile f idx b =>
        if negb (Nat.eqb (S idx) (length (cf_blocks f))) then s else
        let name := cf_name f in
        let key := (j, name) in
        let fl := get_fl (r_flags s) key in
        if is_excl o j name || (co_syncedonly o && fl_unsynced fl) then s else
        if co_fix o then
          let s1 := rs_flag s key fl_set_finished in
          if fl_damaged fl then rs_tag (rs_setfs s1 (fs_del (r_fs s1) j name)) [(K_ST_UNREC, [N.of_nat j; name])]
          else if negb (fl_fixed fl) then s1
          else
            let s2 := rs_tag s1 [(K_ST_RECOVERED, [N.of_nat j; name])] in
            match fs_find (r_fs s2) j name with
            | None => s2
            | Some g =>
              let collide := find (fun h => N.eqb (cf_inode h) (ff_inode g)) (cd_files d) in
              let settime := match collide with
                             | None => true
                             | Some h => N.eqb (cf_name h) name || negb (N.eqb (cf_size h) (cf_size f))
                                         || negb (Z.eqb (cf_mtime h) (cf_mtime f)) || negb (Z.eqb (cf_nsec h) (cf_nsec f))
                             end in
              if settime then rs_setfs s2 (fs_put (r_fs s2) j (mkFF name (ff_size g) (cf_mtime f) (cf_nsec f) (ff_inode g) (ff_blocks g)))
              else rs_tag s2 [(K_COLLISION, [N.of_nat j; name; match collide with Some h => cf_name h | None => 0%N end])]
            end
        else
          if fl_damaged fl then rs_tag s [((if co_audit o then K_ST_DAMAGED else K_ST_UNREC), [N.of_nat j; name])]
          else if fl_fixed fl then rs_tag s [(K_ST_RECOVERABLE, [N.of_nat j; name])]
          else s
      | _ => s
      end
    end.

  Definition bad_files (failed : list fent) : list (nat * cfile * nat) :=
    flat_map (fun e => if fe_bad e then match fe_file e with Some (f, i) => [(fe_idx e, f, i)] | None => [] end else []) failed.

  (* the loop over the disks of one stripe *)
  Definition data_phase (o : copts) (c : content) (pos : nat) (s : rstate) : dacc :=
    fold_left (data_step o c pos) (seq 0 (length (c_disks c))) (mkDA [] [] true false s).

  (* reading the parity blocks of the stripe: PNone = nothing to use (no handle, or read error) *)
  Definition parity_phase (o : copts) (pos : nat) (s : rstate) : list penc * rstate :=
    fold_left (fun (acc : list penc * rstate) l =>
                 let '(r, st) := acc in
                 if nth l (co_popen o) false then
                   match nth pos (nth l (r_par st) []) PNone with
                   | PNone => (r ++ [PNone], rs_err (rs_tag st [tg K_PAR_READ [pos; l] []]) 1)
                   | p => (r ++ [p], st)
                   end
                 else (r ++ [PNone], st)) (seq 0 nlev) ([], s).

  (* comparing the parity read with the one computed from the (repaired) buffer *)
  Definition compare_phase (pos : nat) (rec : list penc) (buf : list bid) (s : rstate) : list penc * rstate :=
    fold_left (fun (acc : list penc * rstate) l =>
                 let '(r, st) := acc in
                 let p := nth l rec PNone in
                 if negb (is_pnone p) && negb (par_matches buf p)
                 then (r ++ [PNone], rs_err (rs_tag st [tg K_PAR_DATA [pos; l] []]) 1)
                 else (r ++ [p], st)) (seq 0 nlev) ([], s).

  (* writing back the recovered blocks *)
  Definition write_phase (o : copts) (pos : nat) (failed : list fent) (buf : list bid) (s : rstate) : rstate :=
    fold_left (fun s e =>
                 if negb (fe_bad e) then s else
                 match fe_file e with
                 | None => s
                 | Some (f, i) =>
                   let j := fe_idx e in
                   let key := (j, cf_name f) in
                   if is_excl o j (cf_name f) || (co_syncedonly o && fl_unsynced (get_fl (r_flags s) key)) then s else
                   let s' := match fs_find (r_fs s) j (cf_name f) with
                             | Some g => rs_setfs s (fs_put (r_fs s) j (write_block g f i (vnth buf j)))
                             | None => s end in
                   if fe_ood e then rs_flag s' key fl_set_damaged
                   else rs_recov (rs_tag (rs_flag s' key fl_set_fixed) [tg K_FIXED [pos; j] [cf_name f; N.of_nat i]]) 1
                 end) failed s.

  (* rewriting the parity blocks found wrong or missing *)
  Definition parity_write_phase (o : copts) (pos : nat) (rec2 : list penc) (buf : list bid) (s : rstate) : rstate :=
    fold_left (fun s l =>
                 if is_pnone (nth l rec2 PNone) && nth l (co_popen o) false && negb (nth l (co_pexcl o) false)
                 then rs_recov (rs_tag (rs_setpar s (mapi (fun k lv => if Nat.eqb k l then set_ext PNone pos (PEnc buf) lv else lv) (r_par s)))
                                       [tg K_PAR_FIXED [pos; l] []]) 1
                 else s) (seq 0 nlev) s.

  Definition stripe_step (o : copts) (c : content) (fs0 : list (option fsdisk)) (s : rstate) (pos : nat) : rstate :=
    let ndisk := length (c_disks c) in
    let a := data_phase o c pos s in
    let s1 := da_st a in
    let failed := da_failed a in
    let s2 :=
      if co_audit o then
        fold_left (fun s x => let '(j, f, i) := x in rs_flag s (j, cf_name f) fl_set_damaged) (bad_files failed) s1
      else
        let '(rec, s1a) := parity_phase o pos s1 in
        let '(res, failed', buf, jn', rtags) := repair pos (co_nosearch o) (search_view fs0 (r_fs s1a)) failed rec (da_buf a) (r_jn s1a) in
        let s1b := rs_tag (rs_setjn s1a jn') rtags in
        match res with
        | ROk =>
          let partial := filter (fun e => fe_bad e && fe_ood e) failed' in
          let s3 := fold_left (fun s e => match fe_file e with
                                          | Some (f, i) => rs_tag s [tg K_UNREC_UNSYNC [pos; fe_idx e] [cf_name f; N.of_nat i]]
                                          | None => s end) partial s1b in
          let s4 := match partial with [] => s3 | _ => rs_unrec (rs_err s3 (length partial)) 1 end in
          let check_par := da_used a && da_valid a in
          let '(rec2, s5) := if check_par then compare_phase pos rec buf s4 else (rec, s4) in
          if co_fix o then
            let s6 := write_phase o pos failed' buf s5 in
            if check_par then parity_write_phase o pos rec2 buf s6 else s6
          else
            fold_left (fun s x => let '(j, f, i) := x in rs_flag s (j, cf_name f) fl_set_fixed) (bad_files failed') s5
        | _ =>
          let n := match res with RErr n => n | _ => O end in
          let s3 := rs_unrec (rs_err s1b n) 1 in
          let s4 := fold_left (fun s x => let '(j, f, i) := x in rs_tag s [tg K_UNREC [pos; j] [cf_name f; N.of_nat i]]) (bad_files failed') s3 in
          fold_left (fun s x => let '(j, f, i) := x in rs_flag s (j, cf_name f) fl_set_damaged) (bad_files failed') s4
        end in
    fold_left (file_post o c pos) (seq 0 ndisk) s2.

  (* block_is_enabled *)
  Definition info_bad (c : content) (pos : nat) : bool := match nth pos (c_info c) None with Some i => i_bad i | None => false end.
  Definition block_enabled (o : copts) (c : content) (pos : nat) : bool :=
    (if co_badfile o then info_bad c pos else existsb (fun l => negb (nth l (co_pexcl o) false)) (seq 0 nlev))
    || existsb (fun j => match nth j (c_disks c) None with
                         | Some d => match slot_at d pos with SFile f _ _ => negb (is_excl o j (cf_name f)) | _ => false end
                         | None => false end) (seq 0 (length (c_disks c))).

  (* ---- empty files, links, dirs (after the stripe loop) -------------------------------------------------- *)
  Definition find_cfile (c : content) (j : nat) (name : N) : option cfile :=
    match nth j (c_disks c) None with Some d => find (fun f => N.eqb (cf_name f) name) (cd_files d) | None => None end.

  Definition obj_step (o : copts) (c : content) (s : rstate) (ob : obj) : rstate :=
    if ob_excl ob then s else
    let j := ob_disk ob in
    let nm := ob_name ob in
    let a2 := [N.of_nat j; nm] in
    match ob_kind ob with
    | KEmpty =>
        let bad := match fs_find (r_fs s) j nm with Some g => negb (N.eqb (ff_size g) 0) | None => true end in
        if negb bad then s else
        let s1 := rs_err (rs_tag s [(K_EMPTY_ERR, a2)]) 1 in
        if co_fix o then
          let g := match find_cfile c j nm with
                   | Some f => mkFF nm 0 (cf_mtime f) (cf_nsec f) (newino j nm) []
                   | None => mkFF nm 0 now 0 (newino j nm) [] end in
          rs_recov (rs_tag (rs_setfs s1 (fs_put (r_fs s1) j g)) [(K_EMPTY_FIXED, a2); (K_ST_RECOVERED, a2)]) 1
        else s1
    | KHard =>
        let lk := fs_find (r_fs s) j nm in
        let to := fs_find (r_fs s) j (ob_to ob) in
        let s1 := match lk with None => rs_err (rs_tag s [(K_HARD_ERR, a2)]) 1 | Some _ => s end in
        match to with
        | None =>
            (* the target does not exist: unrecoverable when fixing, a plain error when checking *)
            let s2 := if co_fix o then rs_unrec s1 1 else rs_err s1 1 in
            rs_err (rs_tag s2 [(K_HARD_ERR, a2)]) 1
        | Some t =>
            let s2 := match lk with
                      | Some l => if negb (N.eqb (ff_inode l) (ff_inode t)) then rs_err (rs_tag s1 [(K_HARD_ERR, a2)]) 1 else s1
                      | None => s1 end in
            let unsuccessful := match lk with Some l => negb (N.eqb (ff_inode l) (ff_inode t)) | None => true end in
            if co_fix o && unsuccessful
            then rs_recov (rs_tag (rs_setfs s2 (fs_put (r_fs s2) j (mkFF nm (ff_size t) (ff_mtime t) (ff_nsec t) (ff_inode t) (ff_blocks t))))
                                  [(K_HARD_FIXED, a2); (K_ST_RECOVERED, a2)]) 1
            else s2
        end
    | KSym =>
        match ob_stat ob with
        | OOk => s
        | OBad => let s1 := rs_err (rs_tag s [(K_SYM_ERR, a2)]) 1 in
                  if co_fix o then rs_recov (rs_tag s1 [(K_SYM_FIXED, a2); (K_ST_RECOVERED, a2)]) 1 else s1
        end
    | KDir =>
        match ob_stat ob with
        | OOk => s
        | OBad => let s1 := rs_err (rs_tag s [(K_DIR_ERR, a2)]) 1 in
                  if co_fix o then rs_recov (rs_tag s1 [(K_DIR_FIXED, a2); (K_ST_RECOVERED, a2)]) 1 else s1
        end
    end.

  (* remove the files created from scratch whose processing did not finish *)
  Definition cleanup (o : copts) (s : rstate) : rstate :=
    if co_fix o then
      fold_left (fun s kf => let '(k, f) := kf in
                             if fl_created f && negb (fl_finished f) then rs_setfs s (fs_del (r_fs s) (fst k) (snd k)) else s)
                (r_flags s) s
    else s.

  Record outcome := mkOut { out_st : rstate; out_fail : bool (* exit status != 0 *) }.

  (* state_check + state_check_process; positions = blockstart .. blockmax-1 *)
  Definition check_run (o : copts) (c : content) (par : parity) (fs : list (option fsdisk)) (objs : list obj)
             (positions : list nat) : outcome :=
    let s0 := mkRS fs [] par 0 0 0 [] 0%N in
    (* state_check: `if (blockstart < blockmax || blockmax == 0)`: a start beyond the end skips everything, links and dirs
       included; an array without any block still has its empty files, links and dirs processed (repaired by 1f26379:
       before, the second disjunct was missing and such an array was never checked nor fixed) *)
    match positions, c_blockmax c with
    | [], S _ => mkOut s0 false
    | _, _ =>
      let s1 := fold_left (fun s pos => if block_enabled o c pos then stripe_step o c fs s pos else s) positions s0 in
      let s2 := fold_left (obj_step o c) objs s1 in
      let s3 := cleanup o s2 in
      mkOut s3 (if co_fix o then negb (Nat.eqb (r_unrec s3) 0)
                else negb (Nat.eqb (r_err s3) 0) || negb (Nat.eqb (r_unrec s3) 0))
    end.

  (* ---- state_filter for the data files: -d <disks>, -f (the harness gives the matching files), -m, -e ------- *)
  Definition file_has_bad (c : content) (f : cfile) : bool := existsb (fun b => info_bad c (fb_pos b)) (cf_blocks f).
  Definition filter_files (fdisks : option (list nat)) (fnames : option (list fkey)) (fmissing ferror : bool)
             (c : content) (fs : list (option fsdisk)) : list fkey :=
    flat_map (fun jd => match snd jd with
                        | None => []
                        | Some d =>
                          flat_map (fun f =>
                            let k := (fst jd, cf_name f) in
                            if match fdisks with Some l => negb (memn (fst jd) l) | None => false end
                               || match fnames with Some l => negb (existsb (fkey_eqb k) l) | None => false end
                               || (fmissing && match fs_find fs (fst jd) (cf_name f) with Some _ => true | None => false end)
                               || (ferror && negb (file_has_bad c f))
                            then [k] else []) (cd_files d)
                        end) (combine (seq 0 (length (c_disks c))) (c_disks c)).
  Definition filter_parity (fdisks : option (list nat)) (fnames : option (list fkey)) (fmissing : bool) : bool :=
    match fdisks with Some _ => true | None => fmissing || match fnames with Some _ => true | None => false end end.


End Fix.
