(* How the per-file flags evolve over one stripe_step, for ANY options: a walk through the definition of stripe_step
   showing that the flags are only ever changed by rs_flag with one of the seven setters, and that CREATED and MISSING
   are only set on the files that have a block in the stripe.  Used by RunProofs.v for the clean-up of check_run. *)
From Coq Require Import NArith ZArith List Bool Arith Lia.
From Snap.Array Require Import ArrayDefs SyncProofsDefs.
From Snap.Fix Require Import FixModel RepairProofs StripeProofs.
Import ListNotations.
Local Opaque JBASE.

(* the key names a file that has a block in stripe pos *)
Definition Kpos (c : content) (pos : nat) (key : fkey) : Prop :=
  exists f i b, slot_of c pos (fst key) = SFile f i b /\ snd key = cf_name f.

Inductive okset (c : content) (pos : nat) : fkey -> (fflags -> fflags) -> Prop :=
| ok_opened k : okset c pos k fl_set_opened
| ok_unsynced k : okset c pos k fl_set_unsynced
| ok_damaged k : okset c pos k fl_set_damaged
| ok_fixed k : okset c pos k fl_set_fixed
| ok_finished k : okset c pos k fl_set_finished
| ok_created k : Kpos c pos k -> okset c pos k fl_set_created.

Section FlagWalk.
  Variable hashf : bid -> N -> hval.
  Variable padz : bid -> N -> bool.
  Variable truncf : bid -> N -> bid.
  Variable bs : N.
  Variable nlev : nat.
  Variable reduced : bool.
  Variable newino : nat -> N -> N.
  Variable now : Z.
  Variable o : copts.
  Variable c : content.
  Variable pos : nat.

  Variable R : rstate -> rstate -> Prop.
  Hypothesis R_trans : forall a b d, R a b -> R b d -> R a d.
  Hypothesis R_refl : forall s, R s s.
  (* counters, tags, junk counter *)
  Hypothesis R_upd : forall s s', r_flags s' = r_flags s -> r_fs s' = r_fs s -> r_par s' = r_par s -> R s s'.
  (* writes to the files or to the parity: only when fixing *)
  Hypothesis R_fix : co_fix o = true -> forall s s', r_flags s' = r_flags s -> R s s'.
  Hypothesis R_flag : forall s k g, okset c pos k g -> R s (rs_flag s k g).
  (* MISSING is set when (and only when) the file of a block of this stripe cannot be opened *)
  Hypothesis R_missing : forall s j f, Kpos c pos (j, cf_name f) -> open_step bs newino now o pos j f s = None ->
                                       R s (rs_flag s (j, cf_name f) fl_set_missing).

  Ltac walk :=
    repeat match goal with
    | |- R _ _ => assumption
    | |- R ?a ?a => apply R_refl
    | |- R _ (rs_flag ?x _ fl_set_missing) => apply (R_trans _ x); [| apply R_missing; assumption]
    | |- R _ (rs_flag ?x _ _) => apply (R_trans _ x); [| apply R_flag; first [constructor; assumption | constructor]]
    | |- R _ (rs_tag ?x _) => apply (R_trans _ x); [| apply R_upd; reflexivity]
    | |- R _ (rs_err ?x _) => apply (R_trans _ x); [| apply R_upd; reflexivity]
    | |- R _ (rs_recov ?x _) => apply (R_trans _ x); [| apply R_upd; reflexivity]
    | |- R _ (rs_unrec ?x _) => apply (R_trans _ x); [| apply R_upd; reflexivity]
    | |- R _ (rs_setfs ?x _) => apply (R_trans _ x); [| apply R_fix; [assumption | reflexivity]]
    | |- R _ (rs_setjn ?x _) => apply (R_trans _ x); [| apply R_upd; reflexivity]
    | |- R _ (rs_setpar ?x _) => apply (R_trans _ x); [| apply R_fix; [assumption | reflexivity]]
    | |- R _ (if ?b then _ else _) => destruct b
    | |- R _ (match ?x with Some _ => _ | None => _ end) => destruct x
    end.

  Lemma fold_R {A} (f : rstate -> A -> rstate) : (forall s x, R s (f s x)) -> forall l s, R s (fold_left f l s).
  Proof.
    intro H. induction l as [|x t IH]; intro s; [apply R_refl|]. cbn [fold_left].
    apply (R_trans _ (f s x)); [apply H | apply IH].
  Qed.
  Lemma fold_pair_R {A B} (f : B * rstate -> A -> B * rstate) :
    (forall acc x, R (snd acc) (snd (f acc x))) -> forall l acc, R (snd acc) (snd (fold_left f l acc)).
  Proof.
    intro H. induction l as [|x t IH]; intro acc; [apply R_refl|]. cbn [fold_left].
    apply (R_trans _ (snd (f acc x))); [apply H | apply IH].
  Qed.

  Lemma open_R j f s0 s4 : Kpos c pos (j, cf_name f) -> open_step bs newino now o pos j f s0 = Some s4 -> R s0 s4.
  Proof.
    intros HK H. unfold open_step in H.
    destruct (bool_dec (co_fix o) true) as [Efix|Efix].
    - destruct (negb (co_fix o && negb (is_excl o j (cf_name f))) && _) in H; [discriminate|].
      match type of H with match ?x with Some _ => _ | None => _ end = _ => destruct x as [g0|]; [|discriminate] end.
      injection H as H. subst s4. walk.
    - apply not_true_is_false in Efix. rewrite Efix in H. destruct (fs_find (r_fs s0) j (cf_name f)) as [g|] eqn:Ep.
      + cbn [andb negb orb] in H. destruct (fl_missing _) in H; [discriminate|]. cbv beta iota in H. rewrite Ep in H.
        injection H as H. subst s4. walk.
      + cbn [andb negb orb] in H. rewrite orb_true_r in H. discriminate.
  Qed.

  Lemma data_step_R a j : R (da_st a) (da_st (data_step hashf bs newino now o c pos a j)).
  Proof.
    unfold data_step. destruct (nth j (c_disks c) None) as [d|] eqn:En; [|apply R_refl].
    destruct (slot_at d pos) as [|f idx b|h] eqn:Es; try (apply R_refl).
    assert (HK : Kpos c pos (j, cf_name f)).
    { exists f, idx, b. cbn [fst snd]. rewrite slot_of_nth, En, Es. auto. }
    destruct (co_audit o && is_excl o j (cf_name f)); [apply R_refl|].
    destruct (open_step bs newino now o pos j f (da_st a)) as [s4|] eqn:Eo.
    - pose proof (open_R j f (da_st a) s4 HK Eo) as X.
      destruct (read_block bs s4 j f idx); [|cbn [da_st]; walk].
      destruct (fb_state b); try (destruct (hval_eqb _ _)); cbn [da_st]; walk.
    - cbn [da_st]. walk.
  Qed.

  Lemma data_phase_R s : R s (da_st (data_phase hashf bs newino now o c pos s)).
  Proof.
    unfold data_phase.
    assert (H : forall l a, R (da_st a) (da_st (fold_left (data_step hashf bs newino now o c pos) l a))).
    { induction l as [|x t IH]; intro a; [apply R_refl|]. cbn [fold_left].
      apply (R_trans _ (da_st (data_step hashf bs newino now o c pos a x))); [apply data_step_R | apply IH]. }
    apply (H _ (mkDA [] [] true false s)).
  Qed.

  Lemma parity_phase_R s : R s (snd (parity_phase nlev o pos s)).
  Proof.
    unfold parity_phase. refine (fold_pair_R _ _ _ ([], s)). intros [r st] l. cbn beta iota.
    destruct (nth l (co_popen o) false); [destruct (nth pos (nth l (r_par st) []) PNone)|]; cbn [snd]; walk.
  Qed.
  Lemma compare_phase_R rec buf s : R s (snd (compare_phase nlev pos rec buf s)).
  Proof.
    unfold compare_phase. refine (fold_pair_R _ _ _ ([], s)). intros [r st] l. cbn beta iota zeta.
    destruct (negb _ && negb _); cbn [snd]; walk.
  Qed.
  Lemma write_phase_R failed buf s : co_fix o = true -> R s (write_phase padz truncf bs now o pos failed buf s).
  Proof.
    intro Efix. unfold write_phase. apply fold_R. intros st e.
    destruct (negb (fe_bad e)); [walk|]. destruct (fe_file e) as [[f i]|]; [|walk].
    destruct (is_excl o (fe_idx e) (cf_name f) || _); [walk|]. walk.
  Qed.
  Lemma parity_write_R rec2 buf s : co_fix o = true -> R s (parity_write_phase nlev o pos rec2 buf s).
  Proof. intro Efix. unfold parity_write_phase. apply fold_R. intros st l. walk. Qed.

  Lemma file_post_R s j : R s (file_post o c pos s j).
  Proof.
    unfold file_post. destruct (nth j (c_disks c) None) as [d|]; [|walk].
    destruct (slot_at d pos) as [|f idx b|h]; try (apply R_refl).
    destruct (negb (Nat.eqb (S idx) (length (cf_blocks f)))); [walk|].
    destruct (is_excl o j (cf_name f) || _); [walk|].
    destruct (bool_dec (co_fix o) true) as [Efix|Efix]; [rewrite Efix | apply not_true_is_false in Efix; rewrite Efix].
    - destruct (fl_damaged _); [walk|]. destruct (negb (fl_fixed _)); [walk|].
      cbv zeta. match goal with |- R _ (match ?x with Some _ => _ | None => _ end) => destruct x end; [|walk].
      match goal with |- R _ (if ?b then _ else _) => destruct b end; walk.
    - walk.
  Qed.

  Theorem stripe_step_R fs0 s : R s (stripe_step hashf padz truncf bs nlev reduced newino now o c fs0 s pos).
  Proof.
    unfold stripe_step. cbv zeta.
    pose proof (data_phase_R s) as D. set (a := data_phase hashf bs newino now o c pos s) in *.
    match goal with |- R _ (fold_left _ _ ?s2) => apply (R_trans _ s2); [| apply fold_R; intros; apply file_post_R] end.
    destruct (co_audit o).
    - apply (R_trans _ (da_st a)); [exact D|]. apply fold_R. intros st [[j f] i]. walk.
    - pose proof (parity_phase_R (da_st a)) as Pp. destruct (parity_phase nlev o pos (da_st a)) as [rec s1a]. cbn [snd] in Pp.
      destruct (repair hashf padz bs nlev reduced pos (co_nosearch o) (search_view fs0 (r_fs s1a)) (da_failed a) rec (da_buf a) (r_jn s1a)) as [[[[res failed'] buf] jn'] rtags].
      assert (X1 : R s (rs_tag (rs_setjn s1a jn') rtags)) by (apply (R_trans _ (da_st a)); [exact D|]; walk).
      set (s1b := rs_tag (rs_setjn s1a jn') rtags) in *.
      destruct res.
      + set (partial := filter (fun e => fe_bad e && fe_ood e) failed').
        set (s3 := fold_left _ partial s1b).
        assert (X3 : R s s3).
        { apply (R_trans _ s1b); [exact X1|]. apply fold_R. intros st e. destruct (fe_file e) as [[f i]|]; walk. }
        set (s4 := match partial with [] => s3 | _ => rs_unrec (rs_err s3 (length partial)) 1 end).
        assert (X4 : R s s4) by (unfold s4; destruct partial; walk).
        destruct (da_used a && da_valid a).
        * pose proof (compare_phase_R rec buf s4) as Cp. destruct (compare_phase nlev pos rec buf s4) as [rec2 s5]. cbn [snd] in Cp.
          assert (X5 : R s s5) by (apply (R_trans _ s4); assumption).
          destruct (bool_dec (co_fix o) true) as [Efix|Efix]; [rewrite Efix | apply not_true_is_false in Efix; rewrite Efix].
          -- apply (R_trans _ (write_phase padz truncf bs now o pos failed' buf s5)); [|apply parity_write_R; exact Efix].
             apply (R_trans _ s5); [exact X5 | apply write_phase_R; exact Efix].
          -- apply (R_trans _ s5); [exact X5|]. apply fold_R. intros st [[j f] i]. walk.
        * destruct (bool_dec (co_fix o) true) as [Efix|Efix]; [rewrite Efix | apply not_true_is_false in Efix; rewrite Efix].
          -- apply (R_trans _ s4); [exact X4 | apply write_phase_R; exact Efix].
          -- apply (R_trans _ s4); [exact X4|]. apply fold_R. intros st [[j f] i]. walk.
      + match goal with |- R _ (fold_left _ _ (fold_left _ _ ?s3)) => assert (X3 : R s s3) by walk end.
        match goal with |- R _ (fold_left _ _ ?s4) => apply (R_trans _ s4) end.
        * match goal with |- R _ (fold_left _ _ ?s3) => apply (R_trans _ s3); [exact X3|] end. apply fold_R. intros st [[j f] i]. walk.
        * apply fold_R. intros st [[j f] i]. walk.
      + match goal with |- R _ (fold_left _ _ (fold_left _ _ ?s3)) => assert (X3 : R s s3) by walk end.
        match goal with |- R _ (fold_left _ _ ?s4) => apply (R_trans _ s4) end.
        * match goal with |- R _ (fold_left _ _ ?s3) => apply (R_trans _ s3); [exact X3|] end. apply fold_R. intros st [[j f] i]. walk.
        * apply fold_R. intros st [[j f] i]. walk.
  Qed.
End FlagWalk.

(* ---- the instance used by the run: NoDup of the keys, FINISHED is never cleared, CREATED / MISSING only set on files of the stripe *)
Definition Rfl (c : content) (pos : nat) (s s' : rstate) : Prop :=
  (NoDup (map fst (r_flags s)) -> NoDup (map fst (r_flags s')))
  /\ (forall k, fl_finished (get_fl (r_flags s) k) = true -> fl_finished (get_fl (r_flags s') k) = true)
  /\ (forall k, fl_created (get_fl (r_flags s') k) = true -> fl_created (get_fl (r_flags s) k) = true \/ Kpos c pos k)
  /\ (forall k, fl_missing (get_fl (r_flags s') k) = true -> fl_missing (get_fl (r_flags s) k) = true \/ Kpos c pos k).

Lemma Rfl_trans c pos a b d : Rfl c pos a b -> Rfl c pos b d -> Rfl c pos a d.
Proof.
  intros [A1 [A2 [A3 A4]]] [B1 [B2 [B3 B4]]]. split; [auto|]. split; [auto|]. split.
  - intros k H. destruct (B3 k H) as [X|X]; [apply A3; exact X | right; exact X].
  - intros k H. destruct (B4 k H) as [X|X]; [apply A4; exact X | right; exact X].
Qed.
Lemma Rfl_eq c pos s s' : r_flags s' = r_flags s -> Rfl c pos s s'.
Proof. intro E. unfold Rfl. rewrite E. repeat split; auto. Qed.

Lemma map_fst_filter (fl : flags) k :
  map fst (filter (fun x => negb (fkey_eqb (fst x) k)) fl) = filter (fun y => negb (fkey_eqb y k)) (map fst fl).
Proof. induction fl as [|x t IH]; [reflexivity|]. cbn. destruct (negb (fkey_eqb (fst x) k)); cbn; rewrite IH; reflexivity. Qed.

Lemma set_fl_nodup fl k v : NoDup (map fst fl) -> NoDup (map fst (set_fl fl k v)).
Proof.
  intro H. unfold set_fl. cbn [map fst]. rewrite map_fst_filter. constructor.
  - intro X. apply filter_In in X. destruct X as [_ X]. rewrite fkey_eqb_refl in X. discriminate.
  - apply NoDup_filter. exact H.
Qed.

Lemma Rfl_get s k g k' :
  get_fl (set_fl (r_flags s) k (g (get_fl (r_flags s) k))) k' = if fkey_eqb k k' then g (get_fl (r_flags s) k') else get_fl (r_flags s) k'.
Proof.
  destruct (fkey_eqb k k') eqn:E.
  - apply fkey_eqb_eq in E. subst k'. apply get_set_same.
  - apply get_set_other. intro X. subst k'. rewrite fkey_eqb_refl in E. discriminate.
Qed.

Lemma Rfl_flag c pos s k g : okset c pos k g -> Rfl c pos s (rs_flag s k g).
Proof.
  intro Hok. unfold Rfl, rs_flag, rs_setfl. cbn [r_flags]. split; [apply set_fl_nodup|].
  split; [|split]; intro k'; rewrite Rfl_get; destruct (fkey_eqb k k') eqn:E; auto;
    apply fkey_eqb_eq in E; subst k'; inversion Hok; subst; cbn; auto.
Qed.
Lemma Rfl_missing c pos s k : Kpos c pos k -> Rfl c pos s (rs_flag s k fl_set_missing).
Proof.
  intro HK. unfold Rfl, rs_flag, rs_setfl. cbn [r_flags]. split; [apply set_fl_nodup|].
  split; [|split]; intro k'; rewrite Rfl_get; destruct (fkey_eqb k k') eqn:E; auto;
    apply fkey_eqb_eq in E; subst k'; cbn; auto.
Qed.

Definition stripe_step_Rfl hashf padz truncf bs nlev reduced newino now o c pos fs0 s :=
  stripe_step_R hashf padz truncf bs nlev reduced newino now o c pos (Rfl c pos) (Rfl_trans c pos)
    (fun s => Rfl_eq c pos s s eq_refl) (fun s s' E _ _ => Rfl_eq c pos s s' E) (fun _ s s' E => Rfl_eq c pos s s' E)
    (Rfl_flag c pos) (fun s j f HK _ => Rfl_missing c pos s (j, cf_name f) HK) fs0 s.
Definition file_post_Rfl o c pos s j :=
  file_post_R o c pos (Rfl c pos) (Rfl_trans c pos)
    (fun s => Rfl_eq c pos s s eq_refl) (fun s s' E _ _ => Rfl_eq c pos s s' E) (fun _ s s' E => Rfl_eq c pos s s' E)
    (Rfl_flag c pos) s j.

(* ---- the instance for check mode: the files and the parity are never written; MISSING is only set on a file that is absent
        (or was already flagged) *)
Definition Rchk (s s' : rstate) : Prop :=
  r_fs s' = r_fs s /\ r_par s' = r_par s
  /\ (forall k, fl_missing (get_fl (r_flags s') k) = true ->
                fl_missing (get_fl (r_flags s) k) = true \/ fs_find (r_fs s) (fst k) (snd k) = None).
Lemma Rchk_trans a b d : Rchk a b -> Rchk b d -> Rchk a d.
Proof.
  intros [A1 [A2 A3]] [B1 [B2 B3]]. split; [congruence|]. split; [congruence|].
  intros k H. destruct (B3 k H) as [X|X]; [apply A3; exact X | right; rewrite <- A1; exact X].
Qed.
Lemma Rchk_refl s : Rchk s s.
Proof. unfold Rchk. auto. Qed.
Lemma Rchk_upd s s' : r_flags s' = r_flags s -> r_fs s' = r_fs s -> r_par s' = r_par s -> Rchk s s'.
Proof. intros E1 E2 E3. unfold Rchk. rewrite E1. auto. Qed.
Lemma Rchk_flag c pos s k g : okset c pos k g -> Rchk s (rs_flag s k g).
Proof.
  intro Hok. unfold Rchk, rs_flag, rs_setfl. cbn [r_flags r_fs r_par]. split; [reflexivity|]. split; [reflexivity|].
  intro k'. rewrite Rfl_get. destruct (fkey_eqb k k') eqn:E; auto. inversion Hok; subst; cbn; auto.
Qed.
Lemma open_none_check bs newino now o pos j f s :
  co_fix o = false -> open_step bs newino now o pos j f s = None ->
  fl_missing (get_fl (r_flags s) (j, cf_name f)) = true \/ fs_find (r_fs s) j (cf_name f) = None.
Proof.
  intros Hc H. destruct (fs_find (r_fs s) j (cf_name f)) as [g|] eqn:Ep; [|right; reflexivity]. left.
  destruct (fl_missing (get_fl (r_flags s) (j, cf_name f))) eqn:Em; [reflexivity|]. exfalso.
  unfold open_step in H. rewrite Hc, Ep, Em in H. cbn [andb negb orb] in H. cbv beta iota in H. rewrite Ep in H. discriminate.
Qed.
Lemma Rchk_missing bs newino now o pos s j f :
  co_fix o = false -> open_step bs newino now o pos j f s = None -> Rchk s (rs_flag s (j, cf_name f) fl_set_missing).
Proof.
  intros Hc H. unfold Rchk, rs_flag, rs_setfl. cbn [r_flags r_fs r_par]. split; [reflexivity|]. split; [reflexivity|].
  intro k'. rewrite Rfl_get. destruct (fkey_eqb (j, cf_name f) k') eqn:E; auto.
  apply fkey_eqb_eq in E. subst k'. intros _. apply (open_none_check bs newino now o pos j f s Hc H).
Qed.

Lemma stripe_step_Rchk hashf padz truncf bs nlev reduced newino now o c pos fs0 s :
  co_fix o = false -> Rchk s (stripe_step hashf padz truncf bs nlev reduced newino now o c fs0 s pos).
Proof.
  intro Hc. apply (stripe_step_R hashf padz truncf bs nlev reduced newino now o c pos Rchk Rchk_trans Rchk_refl Rchk_upd).
  - intro H. rewrite Hc in H. discriminate.
  - apply Rchk_flag.
  - intros s1 j f _ H. apply (Rchk_missing bs newino now o pos s1 j f Hc H).
Qed.
