(* How the per-file flags evolve over one stripe_step, for ANY options: a walk through the definition of stripe_step
   showing that the flags are only ever changed by rs_flag with one of the seven setters, and that CREATED and MISSING
   are only set on the files that have a block in the stripe.  Used by RunProofs.v for the clean-up of check_run. *)
From Coq Require Import NArith ZArith List Bool Arith Lia.
From Snap.Array Require Import ArrayDefs SyncProofsDefs.
From Snap.Fix Require Import FixModel RepairProofs StripeProofs.
Import ListNotations.
Local Opaque JBASE.

(* the key names a file that has a block in stripe pos *)
Definition Kpos (c : content) (pos : nat) (key : fkey) : Prop :=
  exists f i b, slot_of c pos (fst key) = SFile f i b /\ snd key = cf_name f.

Inductive okset (c : content) (pos : nat) : fkey -> (fflags -> fflags) -> Prop :=
| ok_opened k : okset c pos k fl_set_opened
| ok_unsynced k : okset c pos k fl_set_unsynced
| ok_damaged k : okset c pos k fl_set_damaged
| ok_fixed k : okset c pos k fl_set_fixed
| ok_finished k : okset c pos k fl_set_finished
| ok_created k : Kpos c pos k -> okset c pos k fl_set_created
| ok_missing k : Kpos c pos k -> okset c pos k fl_set_missing.

Section FlagWalk.
  Variable hashf : bid -> N -> hval.
  Variable padz : bid -> N -> bool.
  Variable truncf : bid -> N -> bid.
  Variable bs : N.
  Variable nlev : nat.
  Variable reduced : bool.
  Variable newino : nat -> N -> N.
  Variable now : Z.
  Variable o : copts.
  Variable c : content.
  Variable pos : nat.

  Variable R : rstate -> rstate -> Prop.
  Hypothesis R_trans : forall a b d, R a b -> R b d -> R a d.
  Hypothesis R_eq : forall s s', r_flags s' = r_flags s -> R s s'.
  Hypothesis R_flag : forall s k g, okset c pos k g -> R s (rs_flag s k g).

  Ltac walk :=
    repeat match goal with
    | |- R _ _ => assumption
    | |- R ?a ?a => apply R_eq; reflexivity
    | |- R _ (rs_flag ?x _ _) => apply (R_trans _ x); [| apply R_flag; first [constructor; assumption | constructor]]
    | |- R _ (rs_tag ?x _) => apply (R_trans _ x); [| apply R_eq; reflexivity]
    | |- R _ (rs_err ?x _) => apply (R_trans _ x); [| apply R_eq; reflexivity]
    | |- R _ (rs_recov ?x _) => apply (R_trans _ x); [| apply R_eq; reflexivity]
    | |- R _ (rs_unrec ?x _) => apply (R_trans _ x); [| apply R_eq; reflexivity]
    | |- R _ (rs_setfs ?x _) => apply (R_trans _ x); [| apply R_eq; reflexivity]
    | |- R _ (rs_setjn ?x _) => apply (R_trans _ x); [| apply R_eq; reflexivity]
    | |- R _ (rs_setpar ?x _) => apply (R_trans _ x); [| apply R_eq; reflexivity]
    | |- R _ (if ?b then _ else _) => destruct b
    | |- R _ (match ?x with Some _ => _ | None => _ end) => destruct x
    end.

  Lemma fold_R {A} (f : rstate -> A -> rstate) : (forall s x, R s (f s x)) -> forall l s, R s (fold_left f l s).
  Proof.
    intro H. induction l as [|x t IH]; intro s; [apply R_eq; reflexivity|]. cbn [fold_left].
    apply (R_trans _ (f s x)); [apply H | apply IH].
  Qed.
  Lemma fold_pair_R {A B} (f : B * rstate -> A -> B * rstate) :
    (forall acc x, R (snd acc) (snd (f acc x))) -> forall l acc, R (snd acc) (snd (fold_left f l acc)).
  Proof.
    intro H. induction l as [|x t IH]; intro acc; [apply R_eq; reflexivity|]. cbn [fold_left].
    apply (R_trans _ (snd (f acc x))); [apply H | apply IH].
  Qed.

  Lemma open_R j f s0 s4 : Kpos c pos (j, cf_name f) -> open_step bs newino now o pos j f s0 = Some s4 -> R s0 s4.
  Proof.
    intros HK H. unfold open_step in H.
    destruct (negb (co_fix o && negb (is_excl o j (cf_name f))) && _) in H; [discriminate|].
    match type of H with match ?x with Some _ => _ | None => _ end = _ => destruct x as [g0|]; [|discriminate] end.
    injection H as H. subst s4. walk.
  Qed.

  Lemma data_step_R a j : R (da_st a) (da_st (data_step hashf bs newino now o c pos a j)).
  Proof.
    unfold data_step. destruct (nth j (c_disks c) None) as [d|] eqn:En; [|apply R_eq; reflexivity].
    destruct (slot_at d pos) as [|f idx b|h] eqn:Es; try (apply R_eq; reflexivity).
    assert (HK : Kpos c pos (j, cf_name f)).
    { exists f, idx, b. cbn [fst snd]. rewrite slot_of_nth, En, Es. auto. }
    destruct (co_audit o && is_excl o j (cf_name f)); [apply R_eq; reflexivity|].
    destruct (open_step bs newino now o pos j f (da_st a)) as [s4|] eqn:Eo.
    - pose proof (open_R j f (da_st a) s4 HK Eo) as X.
      destruct (read_block bs s4 j f idx); [|cbn [da_st]; walk].
      destruct (fb_state b); try (destruct (hval_eqb _ _)); cbn [da_st]; walk.
    - cbn [da_st]. walk.
  Qed.

  Lemma data_phase_R s : R s (da_st (data_phase hashf bs newino now o c pos s)).
  Proof.
    unfold data_phase.
    assert (H : forall l a, R (da_st a) (da_st (fold_left (data_step hashf bs newino now o c pos) l a))).
    { induction l as [|x t IH]; intro a; [apply R_eq; reflexivity|]. cbn [fold_left].
      apply (R_trans _ (da_st (data_step hashf bs newino now o c pos a x))); [apply data_step_R | apply IH]. }
    apply (H _ (mkDA [] [] true false s)).
  Qed.

  Lemma parity_phase_R s : R s (snd (parity_phase nlev o pos s)).
  Proof.
    unfold parity_phase. apply (fold_pair_R _ ltac:(intros [r st] l; cbn [snd]; destruct (nth l (co_popen o) false); [destruct (nth pos (nth l (r_par st) []) PNone)|]; cbn [snd]; walk) _ ([], s)).
  Qed.
  Lemma compare_phase_R rec buf s : R s (snd (compare_phase nlev pos rec buf s)).
  Proof.
    unfold compare_phase. apply (fold_pair_R _ ltac:(intros [r st] l; cbn [snd]; destruct (negb _ && negb _); cbn [snd]; walk) _ ([], s)).
  Qed.
  Lemma write_phase_R failed buf s : R s (write_phase padz truncf bs now o pos failed buf s).
  Proof.
    unfold write_phase. apply fold_R. intros st e.
    destruct (negb (fe_bad e)); [walk|]. destruct (fe_file e) as [[f i]|]; [|walk].
    destruct (is_excl o (fe_idx e) (cf_name f) || _); [walk|]. walk.
  Qed.
  Lemma parity_write_R rec2 buf s : R s (parity_write_phase nlev o pos rec2 buf s).
  Proof. unfold parity_write_phase. apply fold_R. intros st l. walk. Qed.

  Lemma file_post_R s j : R s (file_post now o c pos s j).
  Proof.
    unfold file_post. destruct (nth j (c_disks c) None) as [d|]; [|walk].
    destruct (slot_at d pos) as [|f idx b|h]; try (apply R_eq; reflexivity).
    destruct (negb (Nat.eqb (S idx) (length (cf_blocks f)))); [walk|].
    destruct (is_excl o j (cf_name f) || _); [walk|].
    destruct (co_fix o).
    - destruct (fl_damaged _); [walk|]. destruct (negb (fl_fixed _)); [walk|].
      cbv zeta. match goal with |- R _ (match ?x with Some _ => _ | None => _ end) => destruct x end; [|walk].
      match goal with |- R _ (if ?b then _ else _) => destruct b end; walk.
    - walk.
  Qed.

  Theorem stripe_step_R fs0 s : R s (stripe_step hashf padz truncf bs nlev reduced newino now o c fs0 s pos).
  Proof.
    unfold stripe_step. cbv zeta.
    pose proof (data_phase_R s) as D. set (a := data_phase hashf bs newino now o c pos s) in *.
    match goal with |- R _ (fold_left _ _ ?s2) => apply (R_trans _ s2); [| apply fold_R; intros; apply file_post_R] end.
    destruct (co_audit o).
    - apply (R_trans _ (da_st a)); [exact D|]. apply fold_R. intros st [[j f] i]. walk.
    - pose proof (parity_phase_R (da_st a)) as Pp. destruct (parity_phase nlev o pos (da_st a)) as [rec s1a]. cbn [snd] in Pp.
      destruct (repair hashf padz bs nlev reduced pos (co_nosearch o) fs0 (da_failed a) rec (da_buf a) (r_jn s1a)) as [[[[res failed'] buf] jn'] rtags].
      assert (X1 : R s (rs_tag (rs_setjn s1a jn') rtags)) by (apply (R_trans _ (da_st a)); [exact D|]; walk).
      set (s1b := rs_tag (rs_setjn s1a jn') rtags) in *.
      destruct res.
      + set (partial := filter (fun e => fe_bad e && fe_ood e) failed').
        set (s3 := fold_left _ partial s1b).
        assert (X3 : R s s3).
        { apply (R_trans _ s1b); [exact X1|]. apply fold_R. intros st e. destruct (fe_file e) as [[f i]|]; walk. }
        set (s4 := match partial with [] => s3 | _ => rs_unrec (rs_err s3 (length partial)) 1 end).
        assert (X4 : R s s4) by (unfold s4; destruct partial; walk).
        destruct (da_used a && da_valid a).
        * pose proof (compare_phase_R rec buf s4) as Cp. destruct (compare_phase nlev pos rec buf s4) as [rec2 s5]. cbn [snd] in Cp.
          assert (X5 : R s s5) by (apply (R_trans _ s4); assumption).
          destruct (co_fix o).
          -- apply (R_trans _ (write_phase padz truncf bs now o pos failed' buf s5)); [|apply parity_write_R].
             apply (R_trans _ s5); [exact X5 | apply write_phase_R].
          -- apply (R_trans _ s5); [exact X5|]. apply fold_R. intros st [[j f] i]. walk.
        * destruct (co_fix o).
          -- apply (R_trans _ s4); [exact X4 | apply write_phase_R].
          -- apply (R_trans _ s4); [exact X4|]. apply fold_R. intros st [[j f] i]. walk.
      + match goal with |- R _ (fold_left _ _ (fold_left _ _ ?s3)) => assert (X3 : R s s3) by walk end.
        match goal with |- R _ (fold_left _ _ ?s4) => apply (R_trans _ s4) end.
        * match goal with |- R _ (fold_left _ _ ?s3) => apply (R_trans _ s3); [exact X3|] end. apply fold_R. intros st [[j f] i]. walk.
        * apply fold_R. intros st [[j f] i]. walk.
      + match goal with |- R _ (fold_left _ _ (fold_left _ _ ?s3)) => assert (X3 : R s s3) by walk end.
        match goal with |- R _ (fold_left _ _ ?s4) => apply (R_trans _ s4) end.
        * match goal with |- R _ (fold_left _ _ ?s3) => apply (R_trans _ s3); [exact X3|] end. apply fold_R. intros st [[j f] i]. walk.
        * apply fold_R. intros st [[j f] i]. walk.
  Qed.
End FlagWalk.
