(* Non-vacuity of GrownProofs.v: the one-stripe array of Examples.v (two disks, two parity levels) where the file of disk 0 GREW
   (2048 bytes for 1024 recorded, newer time-stamp) AND its recorded block was overwritten: every hypothesis of
   run_fix_restores_grown holds, `no_larger` does not. *)
From Coq Require Import NArith ZArith List Bool Arith Lia.
From Snap.Array Require Import ArrayDefs SyncProofsDefs.
From Snap.Fix Require Import FixModel RepairProofs StripeProofs FlagWalk RunProofs Examples GrownProofs.
Import ListNotations.

Definition gx_fs : list (option fsdisk) := [Some [mkFF 1 2048 200 0 1 [77; 55]%N]; Some [mkFF 2 1024 100 0 2 [12]%N]].
Definition gx_vs (p : nat) : list bid := x_v.

Lemma gx_slot p j :
  slot_of x_c p j = match p, j with
                    | 0, 0 => SFile x_f1 0 (mkFB SBlk 0 (x_hashf 11%N 1024%N))
                    | 0, 1 => SFile x_f2 0 (mkFB SBlk 0 (x_hashf 12%N 1024%N))
                    | _, _ => SEmpty end.
Proof.
  destruct p as [|p]; destruct j as [|[|j]]; try reflexivity; unfold slot_of, slots; cbn; destruct j; reflexivity.
Qed.

Ltac gx_inv H :=
  rewrite gx_slot in H;
  match type of H with match ?p with _ => _ end = _ => destruct p as [|?] end;
  match type of H with match ?j with _ => _ end = _ => destruct j as [|[|?]] | _ => idtac end;
  try discriminate H; inversion H; subst; clear H.

Lemma gx_geom : geom x_bs x_c 1.
Proof.
  constructor.
  - intros p1 p2 j f1 i1 b1 f2 i2 b2 H1 H2 Hn. gx_inv H1; gx_inv H2; try discriminate Hn; split; auto; intro; lia.
  - intros p j f i b H. gx_inv H; vm_compute; split; congruence.
  - intros p j f i b H. gx_inv H; lia.
  - intros p j f i b H. gx_inv H; cbn; lia.
  - intros p j f i b H. gx_inv H.
    + exists 0, 0, (mkFB SBlk 0 (x_hashf 11%N 1024%N)). split; [reflexivity | split; reflexivity].
    + exists 0, 0, (mkFB SBlk 0 (x_hashf 12%N 1024%N)). split; [reflexivity | split; reflexivity].
Qed.

Lemma gx_synced_array : synced_array x_hashf x_padz x_bs x_c 1 gx_vs.
Proof.
  constructor.
  - reflexivity.
  - intros p Hp. assert (p = 0) by lia. subst p. exact x_synced.
  - exact gx_geom.
  - intros p Hp. assert (p = 0) by lia. subst p. exact x_enc.
  - intros. unfold pad_ok, x_padz. apply orb_true_r.
Qed.

Lemma gx_recoverable : recoverable x_hashf x_padz x_bs 2 (co_nosearch x_fix) x_c 1 gx_fs x_par_ok gx_vs.
Proof.
  constructor.
  - intros p j f i b y H Hr Hh. gx_inv H; cbn in Hr; try discriminate Hr; injection Hr as Hr; subst y; [vm_compute in Hh; discriminate Hh | reflexivity].
  - intros p Hp e x He Hx. assert (p = 0) by lia. subst p. vm_compute in He. destruct He as [He|[]]. subst e.
    unfold blockcmp, x_hashf. cbn [fe_hash fe_len fe_file hval_eqb].
    unfold is_junk, JBASE in Hx. apply andb_false_iff. left. apply N.eqb_neq. cbn. lia.
  - intros p Hp l w i e Hl He Hb. assert (p = 0) by lia. subst p. vm_compute in He. destruct He as [He|[]]. subst e.
    destruct l as [|[|l]]; cbn in Hl; try discriminate Hl; [| |destruct l; discriminate Hl]; injection Hl as Hl; subst w;
      (destruct i as [|[|i]]; [reflexivity | vm_compute in Hb; discriminate Hb | destruct i; vm_compute in Hb; discriminate Hb]).
  - intros p Hp i e He Hb. assert (p = 0) by lia. subst p. vm_compute in He. destruct He as [He|[]]. subst e.
    destruct i as [|[|i]]; [reflexivity | vm_compute in Hb; discriminate Hb | destruct i; vm_compute in Hb; discriminate Hb].
  - intros p Hp fsx e b He Hs. assert (p = 0) by lia. subst p. vm_compute in He. destruct He as [He|[]]. subst e.
    destruct (search_fetch_hash x_hashf x_bs _ fsx _ b Hs) as [f [i [Ef Eh]]]. cbn in Ef. injection Ef as Ef1 Ef2. subst f i.
    unfold x_hashf in Eh. cbn in Eh. apply N.eqb_eq in Eh. unfold x_bs in Eh. cbn. unfold gx_vs. cbn. lia.
  - intros p Hp. assert (p = 0) by lia. subst p. vm_compute. lia.
Qed.

Lemma gx_not_no_larger : ~ no_larger x_c gx_fs.
Proof.
  intro H. specialize (H 0 0 x_f1 0 (mkFB SBlk 0 (x_hashf 11%N 1024%N)) (mkFF 1 2048 200 0 1 [77; 55]%N) eq_refl eq_refl). cbn in H. lia.
Qed.

Lemma gx_objs_ok : objs_ok x_c [].
Proof. split; intros ob; intros; contradiction. Qed.

Lemma gx_uniq j f p i b : slot_of x_c p j = SFile f i b -> uniq_stamp x_c j f.
Proof.
  intros H d h Hd Hin _ _ _. gx_inv H; cbn in Hd; injection Hd as Hd; subst d; destruct Hin as [E|[]]; subst h; reflexivity.
Qed.

(* every hypothesis of the whole-run theorem holds although a file is larger than recorded ... *)
Example gx_fix_run_restores :
  let out := check_run x_hashf x_padz x_truncf x_bs 2 false x_newino 999 x_fix x_c x_par_ok gx_fs [] (seq 0 1) in
  ~ no_larger x_c gx_fs
  /\ restored 2 x_c 1 gx_vs (r_fs (out_st out)) (r_par (out_st out))
  /\ out_fail out = false /\ r_unrec (out_st out) = 0
  /\ (forall key, fl_damaged (get_fl (r_flags (out_st out)) key) = false)
  /\ length (r_par (out_st out)) = length x_par_ok.
Proof.
  cbn zeta. split; [exact gx_not_no_larger|].
  exact (run_fix_restores_grown x_hashf x_padz x_truncf x_bs 2 false x_newino 999 x_fix x_c 1 gx_fs x_par_ok gx_vs []
           x_plain_fix eq_refl gx_synced_array eq_refl (le_n 2) gx_recoverable gx_objs_ok).
Qed.

(* ... the grown file is back with its recorded size, content and time-stamp ... *)
Example gx_fix_run_grown_file :
  let out := check_run x_hashf x_padz x_truncf x_bs 2 false x_newino 999 x_fix x_c x_par_ok gx_fs [] (seq 0 1) in
  exists g, fs_find (r_fs (out_st out)) 0 1%N = Some g /\ ff_size g = 1024%N /\ nth 0 (ff_blocks g) 0%N = 11%N
            /\ ff_mtime g = 100%Z /\ ff_nsec g = 0%Z.
Proof.
  cbn zeta.
  destruct (run_fix_grown_file x_hashf x_padz x_truncf x_bs 2 false x_newino 999 x_fix x_c 1 gx_fs x_par_ok gx_vs []
              x_plain_fix eq_refl gx_synced_array eq_refl (le_n 2) gx_recoverable gx_objs_ok
              0 0 x_f1 0 (mkFB SBlk 0 (x_hashf 11%N 1024%N)) (mkFF 1 2048 200 0 1 [77; 55]%N) eq_refl eq_refl ltac:(cbn; lia))
    as [g [Hg [Hsz [Hb Hst]]]].
  exists g. split; [exact Hg|]. split; [exact Hsz|]. split; [exact (Hb 0 0 _ eq_refl)|].
  exact (Hst (gx_uniq 0 x_f1 0 0 _ eq_refl)).
Qed.

(* ... and the run computed agrees: Size error + Fixed size (the cut), Data error + Fixed data error (the overwritten block),
   recovered, recorded time-stamp, exit status 0; a following check says nothing *)
Example gx_fix_run_computed :
  let out := check_run x_hashf x_padz x_truncf x_bs 2 false x_newino 999 x_fix x_c x_par_ok gx_fs [] (seq 0 1) in
  let out' := check_run x_hashf x_padz x_truncf x_bs 2 false x_newino 999 x_check x_c (r_par (out_st out)) (r_fs (out_st out)) [] (seq 0 1) in
  r_fs (out_st out) = x_fs_ok /\ r_par (out_st out) = x_par_ok
  /\ map fst (r_tags (out_st out)) = [K_ERR_SIZE; K_FIXED_SIZE; K_ERR_DATA; K_FIXED; K_ST_RECOVERED]
  /\ out_fail out = false /\ r_err (out_st out) = 2 /\ r_rec (out_st out) = 2 /\ r_unrec (out_st out) = 0
  /\ r_tags (out_st out') = [] /\ out_fail out' = false.
Proof. vm_compute. repeat split; reflexivity. Qed.

(* the grown-file state of RunExamples.v rx_grown_file_restored (the file grew, its recorded block is intact): also inside the
   hypotheses of the whole-run theorem, also outside no_larger *)
Definition gx0_fs : list (option fsdisk) := [Some [mkFF 1 2048 200 0 1 [11; 55]%N]; Some [mkFF 2 1024 100 0 2 [12]%N]].

Lemma gx0_recoverable : recoverable x_hashf x_padz x_bs 2 (co_nosearch x_fix) x_c 1 gx0_fs x_par_ok gx_vs.
Proof.
  constructor.
  - intros p j f i b y H Hr Hh. gx_inv H; cbn in Hr; try discriminate Hr; injection Hr as Hr; subst y; reflexivity.
  - intros p Hp e x He Hx. assert (p = 0) by lia. subst p. vm_compute in He. contradiction.
  - intros p Hp l w i e Hl He Hb. assert (p = 0) by lia. subst p. vm_compute in He. contradiction.
  - intros p Hp i e He Hb. assert (p = 0) by lia. subst p. vm_compute in He. contradiction.
  - intros p Hp fsx e b He Hs. assert (p = 0) by lia. subst p. vm_compute in He. contradiction.
  - intros p Hp. assert (p = 0) by lia. subst p. vm_compute. lia.
Qed.

Lemma gx0_not_no_larger : ~ no_larger x_c gx0_fs.
Proof.
  intro H. specialize (H 0 0 x_f1 0 (mkFB SBlk 0 (x_hashf 11%N 1024%N)) (mkFF 1 2048 200 0 1 [11; 55]%N) eq_refl eq_refl). cbn in H. lia.
Qed.

Example gx0_fix_run_restores :
  let out := check_run x_hashf x_padz x_truncf x_bs 2 false x_newino 999 x_fix x_c x_par_ok gx0_fs [] (seq 0 1) in
  ~ no_larger x_c gx0_fs
  /\ restored 2 x_c 1 gx_vs (r_fs (out_st out)) (r_par (out_st out))
  /\ out_fail out = false /\ r_unrec (out_st out) = 0
  /\ (forall key, fl_damaged (get_fl (r_flags (out_st out)) key) = false)
  /\ length (r_par (out_st out)) = length x_par_ok.
Proof.
  cbn zeta. split; [exact gx0_not_no_larger|].
  exact (run_fix_restores_grown x_hashf x_padz x_truncf x_bs 2 false x_newino 999 x_fix x_c 1 gx0_fs x_par_ok gx_vs []
           x_plain_fix eq_refl gx_synced_array eq_refl (le_n 2) gx0_recoverable gx_objs_ok).
Qed.
