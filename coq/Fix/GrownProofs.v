(* C01 for files that GREW: the whole-run restoration of RunProofs.v (fix_run_restores, fix_run_stamps) WITHOUT the hypothesis
   `no_larger`.  Since 993feac fix cuts a file that is larger than recorded back to its recorded size at its first open
   (open_step; StripeProofs.v open_larger_fix) and flags it FIXED.

   Route: a simulation argument, stripe by stripe.  The loop over the disks of a stripe (data_phase) started in a state sA where
   some not-yet-opened files of the stripe are larger than recorded ends in a state s1 in which these files are cut back
   (dinvG / data_phase_G).  Seen from s1 -- a state without larger files in the stripe, to which all the hypotheses of the
   no_larger development apply -- the buffer, the failed list and the files read are those that the loop over the disks would
   have produced when started in s1 itself (G_slot, G_read, G_is_bad, G_bufval, G_fent_of, G_other).  The rest of the stripe step (parity, repair, write-back, file_post) is then
   the one analysed by StripeProofs.v fix_step_full, whose proof is replayed with the start state decoupled from the reference
   state (fix_step_full_T), and its result is read back in terms of sA (fix_step_grown).  The run invariant of RunProofs.v (rinv) is generalised: a file may be larger than recorded as long
   as it was never opened (rinvG). *)
From Coq Require Import NArith ZArith List Bool Arith Lia.
From Snap.Array Require Import ArrayDefs SyncProofsDefs.
From Snap.Fix Require Import FixModel RepairProofs StripeProofs FlagWalk RunProofs.
Import ListNotations.
Local Opaque JBASE.

Lemma nth_firstn_lt {A} (l : list A) n i d : i < n -> nth i (firstn n l) d = nth i l d.
Proof.
  revert n i. induction l as [|x t IH]; intros n i H; [rewrite firstn_nil; reflexivity|].
  destruct n; [lia|]. destruct i; [reflexivity|]. cbn. apply IH. lia.
Qed.

Lemma idx_lt_nblocks bs size idx :
  (0 < block_len bs size idx)%N -> (N.of_nat idx * bs + block_len bs size idx <= size)%N -> idx < nblocks bs size.
Proof.
  intros H1 H2.
  assert (Hbs : (0 < bs)%N).
  { unfold block_len in H1. destruct (N.succ (N.of_nat idx) * bs <=? size)%N eqn:E; [exact H1|].
    apply N.leb_gt in E. destruct (N.eq_dec bs 0) as [Z|Z]; [subst bs; rewrite N.mul_0_r in E; lia | lia]. }
  unfold nblocks.
  assert (X : (N.of_nat idx + 1 <= (size + bs - 1) / bs)%N) by (apply N.div_le_lower_bound; [lia | nia]).
  lia.
Qed.

Lemma ltb_S_other j k : j <> k -> (j <? S k) = (j <? k).
Proof.
  intro H. destruct (j <? k) eqn:X; [apply Nat.ltb_lt in X; apply Nat.ltb_lt; lia | apply Nat.ltb_ge in X; apply Nat.ltb_ge; lia].
Qed.

Section Grown.
  Variable hashf : bid -> N -> hval.
  Variable padz : bid -> N -> bool.
  Variable truncf : bid -> N -> bid.
  Variable bs : N.
  Variable nlev : nat.
  Variable reduced : bool.
  Variable newino : nat -> N -> N.
  Variable now : Z.

  Notation stripe_step := (stripe_step hashf padz truncf bs nlev reduced newino now).
  Notation data_step := (data_step hashf bs newino now).
  Notation data_phase := (data_phase hashf bs newino now).

  (* the file g cut back to the recorded size of f (what open_step leaves) *)
  Definition cutf (f : cfile) (g : fsfile) : fsfile :=
    mkFF (cf_name f) (cf_size f) now 0 (ff_inode g) (firstn (nblocks bs (cf_size f)) (ff_blocks g)).

  (* ---- one disk of the stripe, the file is larger than recorded and not yet opened ---------------------------------------- *)
  Lemma data_step_grown o c pos a j d f idx b g :
    plain nlev o -> co_fix o = true -> nth j (c_disks c) None = Some d -> slot_at d pos = SFile f idx b -> fb_state b = SBlk ->
    j < length (r_fs (da_st a)) -> fs_find (r_fs (da_st a)) j (cf_name f) = Some g -> (cf_size f < ff_size g)%N ->
    fl_opened (get_fl (r_flags (da_st a)) (j, cf_name f)) = false ->
    (0 < block_len bs (cf_size f) idx)%N -> (N.of_nat idx * bs + block_len bs (cf_size f) idx <= cf_size f)%N ->
    exists s',
      data_step o c pos a j
      = mkDA (da_buf a ++ [nth idx (ff_blocks g) 0%N])
             (da_failed a ++ (if hash_ok hashf bs f idx b (nth idx (ff_blocks g) 0%N) then [] else [ent j f idx b true])) (da_valid a) true s'
      /\ r_fs s' = fs_put (r_fs (da_st a)) j (cutf f g)
      /\ r_par s' = r_par (da_st a) /\ r_unrec s' = r_unrec (da_st a)
      /\ fl_fixed (get_fl (r_flags s') (j, cf_name f)) = true
      /\ fl_opened (get_fl (r_flags s') (j, cf_name f)) = true
      /\ fl_damaged (get_fl (r_flags s') (j, cf_name f)) = fl_damaged (get_fl (r_flags (da_st a)) (j, cf_name f))
      /\ (forall k', k' <> (j, cf_name f) -> get_fl (r_flags s') k' = get_fl (r_flags (da_st a)) k').
  Proof.
    intros Hp Hfix Hd Hs Hst Hj Hg Hsz Hop Hlen Hwf.
    destruct (open_larger_fix bs nlev newino now o pos j f (da_st a) g Hp Hfix Hg Hsz Hop)
      as [s4 [Eo [Efs [_ [_ [_ [Eun [Epar [Efx [Eop [Edm Eoth]]]]]]]]]]].
    assert (Er : read_block bs s4 j f idx = Some (nth idx (ff_blocks g) 0%N)).
    { unfold read_block. rewrite Efs. rewrite fs_find_put_mk by exact Hj. cbn [ff_size ff_blocks].
      assert (E : (cf_size f <? N.of_nat idx * bs + block_len bs (cf_size f) idx)%N = false) by (apply N.ltb_ge; exact Hwf).
      rewrite E. rewrite nth_firstn_lt by (apply idx_lt_nblocks; assumption). reflexivity. }
    unfold FixModel.data_step. rewrite Hd, Hs, (pl_audit nlev o Hp). cbn [andb]. rewrite Eo, Er, Hst. cbn [bstate_eqb]. rewrite andb_true_r.
    unfold hash_ok. destruct (hval_eqb (hashf (nth idx (ff_blocks g) 0%N) (block_len bs (cf_size f) idx)) (fb_hash b)) eqn:Eh.
    - exists s4. split; [reflexivity|]. unfold cutf. repeat split; auto.
    - eexists. split; [unfold ent; rewrite Hst; reflexivity|].
      cbn [r_fs r_par r_unrec r_flags rs_err rs_tag]. unfold cutf. repeat split; auto.
  Qed.

  (* ---- the loop over the disks, files of the stripe may be larger than recorded if never opened ---------------------------- *)
  Section DataG.
    Variable o : copts.
    Variable c : content.
    Variable pos : nat.
    Variable s : rstate.
    Hypothesis Hplain : plain nlev o.
    Hypothesis Hfix : co_fix o = true.
    Hypothesis Hsync : stripe_synced c pos.
    Hypothesis Hlenfs : length (r_fs s) = length (c_disks c).
    Hypothesis HfileG : forall j f idx b, slot_of c pos j = SFile f idx b ->
         (0 < block_len bs (cf_size f) idx)%N /\ (N.of_nat idx * bs + block_len bs (cf_size f) idx <= cf_size f)%N
         /\ (forall g, fs_find (r_fs s) j (cf_name f) = Some g -> (cf_size f < ff_size g)%N ->
                       fl_opened (get_fl (r_flags s) (j, cf_name f)) = false).

    Definition grownb (j : nat) : bool :=
      match slot_of c pos j with
      | SFile f _ _ => match fs_find (r_fs s) j (cf_name f) with Some g => (cf_size f <? ff_size g)%N | None => false end
      | _ => false end.
    (* the file system after the loop: missing files created empty, larger files cut back *)
    Definition fs_afterG (j' : nat) (n' : N) : option fsfile :=
      match slot_of c pos j' with
      | SFile f idx b =>
          if N.eqb (cf_name f) n'
          then Some (match fs_find (r_fs s) j' n' with
                     | Some g => if (cf_size f <? ff_size g)%N then cutf f g else g
                     | None => mkFF n' 0 now 0 (newino j' n') [] end)
          else fs_find (r_fs s) j' n'
      | _ => fs_find (r_fs s) j' n' end.

    Record dinvG (k : nat) (a : dacc) : Prop := {
      dg_buf : da_buf a = map (bufval bs c pos s) (seq 0 k);
      dg_failed : da_failed a = flat_map (fent_of hashf bs c pos s) (seq 0 k);
      dg_valid : da_valid a = true;
      dg_used : da_used a = existsb (fun j => slot_has_file (slot_of c pos j)) (seq 0 k);
      dg_par : r_par (da_st a) = r_par s;
      dg_unrec : r_unrec (da_st a) = r_unrec s;
      dg_len : length (r_fs (da_st a)) = length (r_fs s);
      dg_fs : forall j' n', fs_find (r_fs (da_st a)) j' n' = if j' <? k then fs_afterG j' n' else fs_find (r_fs s) j' n';
      dg_hi : forall k', k <= fst k' -> get_fl (r_flags (da_st a)) k' = get_fl (r_flags s) k';
      dg_other : forall k', (forall f idx b, slot_of c pos (fst k') = SFile f idx b -> cf_name f <> snd k') ->
                            get_fl (r_flags (da_st a)) k' = get_fl (r_flags s) k';
      dg_dam : forall k', fl_damaged (get_fl (r_flags (da_st a)) k') = fl_damaged (get_fl (r_flags s) k');
      dg_fix : forall j f idx b, slot_of c pos j = SFile f idx b -> j < k ->
                 fl_fixed (get_fl (r_flags (da_st a)) (j, cf_name f)) = fl_fixed (get_fl (r_flags s) (j, cf_name f)) || grownb j
    }.

    Lemma dinvG_0 : dinvG 0 (mkDA [] [] true false s).
    Proof. constructor; cbn; auto; intros; lia. Qed.

    Lemma dinvG_step k a : k < length (c_disks c) -> dinvG k a -> dinvG (S k) (data_step o c pos a k).
    Proof.
      intros Hk I.
      assert (Eseq : seq 0 (S k) = seq 0 k ++ [k]) by (rewrite seq_S; reflexivity).
      assert (Ekk : (k <? S k) = true) by (apply Nat.ltb_lt; lia).
      destruct (slot_cases c pos Hsync k) as [[Es Hn]|[d [f [idx [b [Ed [Esa [Es Hst]]]]]]]].
      - (* nothing at this disk position *)
        assert (Eds : data_step o c pos a k = mkDA (da_buf a ++ [0%N]) (da_failed a) (da_valid a) (da_used a) (da_st a)).
        { unfold FixModel.data_step. destruct Hn as [Hn|[d [Hd Hsd]]]; [rewrite Hn; reflexivity | rewrite Hd, Hsd; reflexivity]. }
        rewrite Eds. destruct I. constructor; cbn [da_buf da_failed da_valid da_used da_st]; rewrite ?Eseq; auto.
        + rewrite map_app. cbn. unfold bufval at 2. rewrite Es. rewrite dg_buf0. reflexivity.
        + rewrite flat_map_app. cbn. unfold fent_of at 2. rewrite Es. rewrite app_nil_r. exact dg_failed0.
        + rewrite existsb_app. cbn. rewrite Es. cbn. rewrite orb_false_r. exact dg_used0.
        + intros j' n'. rewrite dg_fs0. destruct (Nat.eq_dec j' k) as [E|E].
          * subst j'. rewrite Nat.ltb_irrefl, Ekk. unfold fs_afterG. rewrite Es. reflexivity.
          * rewrite (ltb_S_other j' k E). reflexivity.
        + intros k' Hk'. apply dg_hi0. lia.
        + intros j f0 idx0 b0 Hs0 Hj. apply (dg_fix0 j f0 idx0 b0 Hs0).
          destruct (Nat.eq_dec j k) as [E|E]; [subst j; rewrite Es in Hs0; discriminate | lia].
      - (* a BLK block *)
        destruct (HfileG k f idx b Es) as [Hlen [Hwf Hgrow]].
        destruct I.
        assert (Efs : fs_find (r_fs (da_st a)) k (cf_name f) = fs_find (r_fs s) k (cf_name f)) by (rewrite dg_fs0, Nat.ltb_irrefl; reflexivity).
        assert (Efl : get_fl (r_flags (da_st a)) (k, cf_name f) = get_fl (r_flags s) (k, cf_name f)) by (apply dg_hi0; cbn; lia).
        assert (Hkl : k < length (r_fs (da_st a))) by (rewrite dg_len0, Hlenfs; exact Hk).
        assert (Hkey : forall j f0 idx0 b0, slot_of c pos j = SFile f0 idx0 b0 -> j < S k -> j <> k -> (j, cf_name f0) <> (k, cf_name f) /\ j < k).
        { intros j f0 idx0 b0 _ H1 H2. split; [intro X; injection X as X1 X2; contradiction | lia]. }
        assert (Hnk : forall k', (forall f0 idx0 b0, slot_of c pos (fst k') = SFile f0 idx0 b0 -> cf_name f0 <> snd k') -> k' <> (k, cf_name f)).
        { intros k' H X. subst k'. apply (H f idx b Es). reflexivity. }
        destruct (fs_find (r_fs s) k (cf_name f)) as [g|] eqn:Eg.
        + destruct (cf_size f <? ff_size g)%N eqn:Egr.
          * (* larger than recorded: cut back *)
            apply N.ltb_lt in Egr.
            destruct (data_step_grown o c pos a k d f idx b g Hplain Hfix Ed Esa Hst Hkl Efs Egr) as [s' [Eds [Ef' [Ep' [Eu' [Efx [_ [Edm Eoth]]]]]]]];
              [rewrite Efl; apply (Hgrow g eq_refl Egr) | exact Hlen | exact Hwf |].
            assert (Erd : read_block bs s k f idx = Some (nth idx (ff_blocks g) 0%N)).
            { unfold read_block. rewrite Eg.
              assert (E : (ff_size g <? N.of_nat idx * bs + block_len bs (cf_size f) idx)%N = false) by (apply N.ltb_ge; lia).
              rewrite E. reflexivity. }
            assert (Egk : grownb k = true) by (unfold grownb; rewrite Es, Eg; apply N.ltb_lt; exact Egr).
            rewrite Eds. constructor; cbn [da_buf da_failed da_valid da_used da_st]; rewrite ?Eseq.
            -- rewrite map_app. cbn. unfold bufval at 2. rewrite Es, Erd, dg_buf0. reflexivity.
            -- rewrite flat_map_app. cbn. rewrite app_nil_r, dg_failed0. f_equal. unfold fent_of, is_bad. rewrite Es, Erd.
               destruct (hash_ok hashf bs f idx b (nth idx (ff_blocks g) 0%N)); reflexivity.
            -- exact dg_valid0.
            -- rewrite existsb_app. cbn. rewrite Es. cbn. rewrite orb_true_r. reflexivity.
            -- congruence.
            -- congruence.
            -- rewrite Ef', fs_put_length. exact dg_len0.
            -- intros j' n'. rewrite Ef'. destruct (Nat.eq_dec j' k) as [E|E].
               ++ subst j'. rewrite Ekk. unfold fs_afterG. rewrite Es. destruct (N.eqb (cf_name f) n') eqn:En.
                  ** apply N.eqb_eq in En. subst n'. rewrite Eg. assert (E2 : (cf_size f <? ff_size g)%N = true) by (apply N.ltb_lt; exact Egr). rewrite E2.
                     unfold cutf. apply fs_find_put_mk. exact Hkl.
                  ** rewrite fs_find_put_other; [rewrite dg_fs0, Nat.ltb_irrefl; reflexivity|].
                     cbn [ff_name cutf]. intro X. injection X as X. apply N.eqb_neq in En. congruence.
               ++ rewrite (ltb_S_other j' k E). rewrite fs_find_put_other by (intro X; injection X as X1 X2; contradiction). apply dg_fs0.
            -- intros k' Hk'. rewrite Eoth; [apply dg_hi0; lia|]. intro X. subst k'. cbn in Hk'. lia.
            -- intros k' H. rewrite Eoth by (apply Hnk; exact H). apply dg_other0. exact H.
            -- intro k'. destruct (fkey_eqb k' (k, cf_name f)) eqn:E.
               ++ apply fkey_eqb_eq in E. subst k'. rewrite Edm. apply dg_dam0.
               ++ rewrite Eoth; [apply dg_dam0|]. intro X. subst k'. rewrite fkey_eqb_refl in E. discriminate.
            -- intros j f0 idx0 b0 Hs0 Hj. destruct (Nat.eq_dec j k) as [E|E].
               ++ subst j. rewrite Es in Hs0. injection Hs0 as X1 X2 X3. subst f0 idx0 b0. rewrite Efx, Egk, orb_true_r. reflexivity.
               ++ destruct (Hkey j f0 idx0 b0 Hs0 Hj E) as [Hne Hlt]. rewrite Eoth by exact Hne. apply (dg_fix0 j f0 idx0 b0 Hs0 Hlt).
          * (* present, not larger *)
            apply N.ltb_ge in Egr.
            destruct (data_step_blk hashf padz truncf bs nlev newino now o c pos a k d f idx b Hplain Ed Esa Hst Hkl) as [s' [x [fe [Eds SO]]]];
              [intros g0 Hg0; rewrite Efs in Hg0; injection Hg0 as Hg0; subst g0; exact Egr | left; exact Hfix | exact Hlen |].
            destruct SO as [SOc SOo SOf SOr].
            assert (Erd : read_block bs (da_st a) k f idx = read_block bs s k f idx) by (unfold read_block; rewrite Efs, Eg; reflexivity).
            rewrite Erd in SOr.
            assert (Hx : x = bufval bs c pos s k /\ fe = fent_of hashf bs c pos s k /\ r_fs s' = r_fs (da_st a)).
            { unfold bufval, fent_of, is_bad, hash_ok. rewrite Es.
              destruct (read_block bs s k f idx) as [y|] eqn:Er.
              - destruct SOr as [Ex [Ef' SOr]]. subst x. destruct (hval_eqb (hashf y (block_len bs (cf_size f) idx)) (fb_hash b)) eqn:Eh; cbn [negb];
                  destruct SOr as [A _]; subst fe; auto.
              - destruct SOr as [Ex [A [_ [_ [_ Hf]]]]]. subst x fe. specialize (Hf Hfix). rewrite Efs in Hf. auto. }
            destruct Hx as [Hx1 [Hx2 Hx3]].
            assert (Egk : grownb k = false) by (unfold grownb; rewrite Es, Eg; apply N.ltb_ge; exact Egr).
            destruct SOc as [Cpar [Cunrec [_ [_ [Clen Cfl]]]]].
            rewrite Eds. constructor; cbn [da_buf da_failed da_valid da_used da_st]; rewrite ?Eseq.
            -- rewrite map_app. cbn. rewrite dg_buf0, Hx1. reflexivity.
            -- rewrite flat_map_app. cbn. rewrite app_nil_r, dg_failed0, Hx2. reflexivity.
            -- exact dg_valid0.
            -- rewrite existsb_app. cbn. rewrite Es. cbn. rewrite orb_true_r. reflexivity.
            -- congruence.
            -- congruence.
            -- congruence.
            -- intros j' n'. rewrite Hx3. rewrite dg_fs0. destruct (Nat.eq_dec j' k) as [E|E].
               ++ subst j'. rewrite Ekk, Nat.ltb_irrefl. unfold fs_afterG. rewrite Es. destruct (N.eqb (cf_name f) n') eqn:En; [|reflexivity].
                  apply N.eqb_eq in En. subst n'. rewrite Eg. assert (E2 : (cf_size f <? ff_size g)%N = false) by (apply N.ltb_ge; exact Egr). rewrite E2. reflexivity.
               ++ rewrite (ltb_S_other j' k E). reflexivity.
            -- intros k' Hk'. rewrite SOf; [apply dg_hi0; lia|]. intro X. subst k'. cbn in Hk'. lia.
            -- intros k' H. rewrite SOf by (apply Hnk; exact H). apply dg_other0. exact H.
            -- intro k'. destruct (Cfl k') as [X _]. rewrite X. apply dg_dam0.
            -- intros j f0 idx0 b0 Hs0 Hj. destruct (Nat.eq_dec j k) as [E|E].
               ++ subst j. rewrite Es in Hs0. injection Hs0 as X1 X2 X3. subst f0 idx0 b0. destruct (Cfl (k, cf_name f)) as [_ [X _]].
                  rewrite X, Efl, Egk, orb_false_r. reflexivity.
               ++ destruct (Hkey j f0 idx0 b0 Hs0 Hj E) as [Hne Hlt]. rewrite SOf by exact Hne. apply (dg_fix0 j f0 idx0 b0 Hs0 Hlt).
        + (* absent: created empty *)
          destruct (data_step_blk hashf padz truncf bs nlev newino now o c pos a k d f idx b Hplain Ed Esa Hst Hkl) as [s' [x [fe [Eds SO]]]];
            [intros g0 Hg0; rewrite Efs in Hg0; discriminate Hg0 | left; exact Hfix | exact Hlen |].
          destruct SO as [SOc SOo SOf SOr].
          assert (Erd : read_block bs (da_st a) k f idx = None) by (unfold read_block; rewrite Efs; reflexivity).
          assert (Erd0 : read_block bs s k f idx = None) by (unfold read_block; rewrite Eg; reflexivity).
          rewrite Erd in SOr. destruct SOr as [Ex [A [_ [_ [_ Hf]]]]]. subst x fe. specialize (Hf Hfix). rewrite Efs in Hf.
          assert (Egk : grownb k = false) by (unfold grownb; rewrite Es, Eg; reflexivity).
          destruct SOc as [Cpar [Cunrec [_ [_ [Clen Cfl]]]]].
          rewrite Eds. constructor; cbn [da_buf da_failed da_valid da_used da_st]; rewrite ?Eseq.
          -- rewrite map_app. cbn. unfold bufval at 2. rewrite Es, Erd0, dg_buf0. reflexivity.
          -- rewrite flat_map_app. cbn. rewrite app_nil_r, dg_failed0. f_equal. unfold fent_of, is_bad. rewrite Es, Erd0. reflexivity.
          -- exact dg_valid0.
          -- rewrite existsb_app. cbn. rewrite Es. cbn. rewrite orb_true_r. reflexivity.
          -- congruence.
          -- congruence.
          -- congruence.
          -- intros j' n'. rewrite Hf. destruct (Nat.eq_dec j' k) as [E|E].
             ++ subst j'. rewrite Ekk. unfold fs_afterG. rewrite Es. destruct (N.eqb (cf_name f) n') eqn:En.
                ** apply N.eqb_eq in En. subst n'. rewrite Eg. apply fs_find_put_mk. exact Hkl.
                ** rewrite fs_find_put_other; [rewrite dg_fs0, Nat.ltb_irrefl; reflexivity|].
                   cbn [ff_name]. intro X. injection X as X. apply N.eqb_neq in En. congruence.
             ++ rewrite (ltb_S_other j' k E). rewrite fs_find_put_other by (intro X; injection X as X1 X2; contradiction). apply dg_fs0.
          -- intros k' Hk'. rewrite SOf; [apply dg_hi0; lia|]. intro X. subst k'. cbn in Hk'. lia.
          -- intros k' H. rewrite SOf by (apply Hnk; exact H). apply dg_other0. exact H.
          -- intro k'. destruct (Cfl k') as [X _]. rewrite X. apply dg_dam0.
          -- intros j f0 idx0 b0 Hs0 Hj. destruct (Nat.eq_dec j k) as [E|E].
             ++ subst j. rewrite Es in Hs0. injection Hs0 as X1 X2 X3. subst f0 idx0 b0. destruct (Cfl (k, cf_name f)) as [_ [X _]].
                rewrite X, Efl, Egk, orb_false_r. reflexivity.
             ++ destruct (Hkey j f0 idx0 b0 Hs0 Hj E) as [Hne Hlt]. rewrite SOf by exact Hne. apply (dg_fix0 j f0 idx0 b0 Hs0 Hlt).
    Qed.

    Lemma data_phase_G : dinvG (length (c_disks c)) (data_phase o c pos s).
    Proof.
      unfold FixModel.data_phase.
      assert (H : forall k, k <= length (c_disks c) -> dinvG k (fold_left (data_step o c pos) (seq 0 k) (mkDA [] [] true false s))).
      { induction k as [|k IH]; intro Hk; [apply dinvG_0|].
        rewrite seq_S, fold_left_app. cbn [fold_left plus]. apply dinvG_step; [lia | apply IH; lia]. }
      apply H. lia.
    Qed.

    (* the state after the loop, seen from the state before it *)
    Lemma slot_lt j f idx b : slot_of c pos j = SFile f idx b -> j < length (c_disks c).
    Proof. intro Es. destruct (Nat.lt_ge_cases j (length (c_disks c))) as [H|H]; [exact H|]. rewrite slot_of_out in Es by exact H. discriminate. Qed.

    Lemma G_slot j f idx b :
      slot_of c pos j = SFile f idx b ->
      exists g1, fs_find (r_fs (da_st (data_phase o c pos s))) j (cf_name f) = Some g1
                 /\ ff_size g1 = N.min (fsz (r_fs s) j (cf_name f)) (cf_size f)
                 /\ (forall i, i < nblocks bs (cf_size f) -> nth i (ff_blocks g1) 0%N = fblk (r_fs s) j (cf_name f) i)
                 /\ (grownb j = false -> forall g, fs_find (r_fs s) j (cf_name f) = Some g -> g1 = g).
    Proof.
      intro Es. pose proof (dg_fs _ _ data_phase_G j (cf_name f)) as E.
      assert (Hj : (j <? length (c_disks c)) = true) by (apply Nat.ltb_lt; apply (slot_lt j f idx b Es)).
      rewrite Hj in E. unfold fs_afterG in E. rewrite Es, N.eqb_refl in E. rewrite E. unfold grownb, fsz, fblk. rewrite Es.
      destruct (fs_find (r_fs s) j (cf_name f)) as [g|].
      - destruct (cf_size f <? ff_size g)%N eqn:El.
        + apply N.ltb_lt in El. eexists. split; [reflexivity|]. unfold cutf. cbn [ff_size ff_blocks].
          split; [lia|]. split; [intros i Hi; apply nth_firstn_lt; exact Hi | intro X; discriminate X].
        + apply N.ltb_ge in El. exists g. split; [reflexivity|]. split; [lia|]. split; [reflexivity|]. intros _ g0 X. injection X as X. exact X.
      - eexists. split; [reflexivity|]. cbn [ff_size ff_blocks]. split; [lia|]. split; [intros i _; destruct i; reflexivity | intros _ g0 X; discriminate X].
    Qed.

    Lemma G_read j f idx b :
      slot_of c pos j = SFile f idx b -> read_block bs (da_st (data_phase o c pos s)) j f idx = read_block bs s j f idx.
    Proof.
      intro Es. destruct (G_slot j f idx b Es) as [g1 [E1 [Esz [Ebl _]]]]. destruct (HfileG j f idx b Es) as [Hlen [Hwf _]].
      pose proof (idx_lt_nblocks bs (cf_size f) idx Hlen Hwf) as Hi.
      unfold read_block. rewrite E1, Esz, (Ebl idx Hi). unfold fsz, fblk. destruct (fs_find (r_fs s) j (cf_name f)) as [g|].
      - destruct (N.min (ff_size g) (cf_size f) <? N.of_nat idx * bs + block_len bs (cf_size f) idx)%N eqn:A,
                 (ff_size g <? N.of_nat idx * bs + block_len bs (cf_size f) idx)%N eqn:B; try reflexivity;
          [apply N.ltb_lt in A; apply N.ltb_ge in B | apply N.ltb_ge in A; apply N.ltb_lt in B]; lia.
      - assert (A : (N.min 0 (cf_size f) <? N.of_nat idx * bs + block_len bs (cf_size f) idx)%N = true) by (apply N.ltb_lt; lia).
        rewrite A. reflexivity.
    Qed.

    Lemma G_is_bad j : is_bad hashf bs c pos (da_st (data_phase o c pos s)) j = is_bad hashf bs c pos s j.
    Proof. unfold is_bad. destruct (slot_of c pos j) as [|f idx b|h] eqn:Es; try reflexivity. rewrite (G_read j f idx b Es). reflexivity. Qed.
    Lemma G_bufval j : bufval bs c pos (da_st (data_phase o c pos s)) j = bufval bs c pos s j.
    Proof. unfold bufval. destruct (slot_of c pos j) as [|f idx b|h] eqn:Es; try reflexivity. rewrite (G_read j f idx b Es). reflexivity. Qed.
    Lemma G_fent_of j : fent_of hashf bs c pos (da_st (data_phase o c pos s)) j = fent_of hashf bs c pos s j.
    Proof. unfold fent_of. rewrite G_is_bad. reflexivity. Qed.

    (* a name that is not the name of the file of the stripe at that disk: nothing moved *)
    Lemma G_other j' n' : (forall f idx b, slot_of c pos j' = SFile f idx b -> cf_name f <> n') ->
      fs_find (r_fs (da_st (data_phase o c pos s))) j' n' = fs_find (r_fs s) j' n'
      /\ get_fl (r_flags (da_st (data_phase o c pos s))) (j', n') = get_fl (r_flags s) (j', n').
    Proof.
      intro Hno. split; [|apply (dg_other _ _ data_phase_G (j', n')); exact Hno].
      rewrite (dg_fs _ _ data_phase_G j' n'). destruct (j' <? length (c_disks c)); [|reflexivity].
      unfold fs_afterG. destruct (slot_of c pos j') as [|f idx b|h] eqn:Es; try reflexivity.
      assert (En : N.eqb (cf_name f) n' = false) by (apply N.eqb_neq; apply (Hno f idx b eq_refl)). rewrite En. reflexivity.
    Qed.
  End DataG.

  (* ---- the OPENED flag is only set by the loop over the disks ---------------------------------------------------------------- *)
  Lemma opened_rs_flag s k (g : fflags -> fflags) k' :
    (forall x, fl_opened (g x) = fl_opened x) -> fl_opened (get_fl (r_flags (rs_flag s k g)) k') = fl_opened (get_fl (r_flags s) k').
  Proof.
    intro Hg. unfold rs_flag, rs_setfl. cbn [r_flags]. destruct (fkey_eqb k k') eqn:E.
    - apply fkey_eqb_eq in E. subst k'. rewrite get_set_same. apply Hg.
    - rewrite get_set_other; [reflexivity|]. intro X. subst k'. rewrite fkey_eqb_refl in E. discriminate.
  Qed.

  Lemma file_post_opened o c pos s j k' : fl_opened (get_fl (r_flags (file_post o c pos s j)) k') = fl_opened (get_fl (r_flags s) k').
  Proof.
    unfold file_post. destruct (nth j (c_disks c) None) as [d|]; [|reflexivity].
    destruct (slot_at d pos) as [|f idx b|h]; try reflexivity.
    destruct (negb (Nat.eqb (S idx) (length (cf_blocks f)))); [reflexivity|].
    destruct (is_excl o j (cf_name f) || _); [reflexivity|].
    destruct (co_fix o).
    - destruct (fl_damaged _); [cbn [r_flags rs_tag rs_setfs]; apply opened_rs_flag; reflexivity|].
      destruct (negb (fl_fixed _)); [apply opened_rs_flag; reflexivity|].
      cbv zeta. cbn [r_fs rs_tag rs_flag rs_setfl].
      destruct (fs_find (r_fs s) j (cf_name f)) as [g|]; [|cbn [r_flags rs_tag]; apply (opened_rs_flag s); reflexivity].
      match goal with |- context [if ?b then _ else _] => destruct b end; cbn [r_flags rs_tag rs_setfs]; apply (opened_rs_flag s); reflexivity.
    - destruct (fl_damaged _); [reflexivity|]. destruct (fl_fixed _); reflexivity.
  Qed.
  Lemma fold_file_post_opened o c pos k' : forall js s,
    fl_opened (get_fl (r_flags (fold_left (file_post o c pos) js s)) k') = fl_opened (get_fl (r_flags s) k').
  Proof. induction js as [|j t IH]; intro s; [reflexivity|]. cbn [fold_left]. rewrite IH. apply file_post_opened. Qed.

  Lemma wfold_opened o pos buf k' : forall l s,
    fl_opened (get_fl (r_flags (fold_left (wstep padz truncf bs now o pos buf) l s)) k') = fl_opened (get_fl (r_flags s) k').
  Proof.
    induction l as [|e t IH]; intro s; [reflexivity|]. cbn [fold_left]. rewrite IH. unfold wstep.
    destruct (negb (fe_bad e)); [reflexivity|]. destruct (fe_file e) as [[f i]|]; [|reflexivity].
    destruct (is_excl o (fe_idx e) (cf_name f) || _); [reflexivity|].
    destruct (fs_find (r_fs s) (fe_idx e) (cf_name f)); destruct (fe_ood e); cbn [r_flags rs_recov rs_tag];
      try (apply (opened_rs_flag s); reflexivity);
      match goal with |- context [rs_flag (rs_setfs ?x ?y) ?k ?g] => apply (opened_rs_flag (rs_setfs x y) k g k'); reflexivity end.
  Qed.

  Lemma sd_refl a : same_data a a.
  Proof. destruct a; cbn; auto. Qed.
  Lemma sd_trans a b d : same_data a b -> same_data b d -> same_data a d.
  Proof. destruct a, b, d; cbn; try tauto. intros [A B] [C D]. split; congruence. Qed.

  (* ---- fix restores a stripe: StripeProofs.v fix_step_full replayed with the start state sA of the step decoupled from the
          reference state s in whose terms the result of the loop over the disks is described ------------------------------- *)
  Section RestoreT.
    Variable o : copts.
    Variable c : content.
    Variable fs0 : list (option fsdisk).
    Variable pos : nat.
    Variable sA : rstate.
    Variable s : rstate.
    Variable v : list bid.
    Hypothesis Hplain : plain nlev o.
    Hypothesis Hfix : co_fix o = true.
    Hypothesis Hsync : stripe_synced c pos.
    Hypothesis Hlenfs : length (r_fs s) = length (c_disks c).
    Hypothesis Hfile : forall j f idx b, slot_of c pos j = SFile f idx b ->
         (0 < block_len bs (cf_size f) idx)%N
         /\ (forall g, fs_find (r_fs s) j (cf_name f) = Some g -> (ff_size g <= cf_size f)%N)
         /\ (co_fix o = true \/ fl_missing (get_fl (r_flags s) (j, cf_name f)) = false \/ fs_find (r_fs s) j (cf_name f) = None).
    Hypothesis Henc : enc_ok hashf bs c pos v.
    Hypothesis Hpad : forall j f idx b, slot_of c pos j = SFile f idx b -> pad_ok padz bs (vnth v j) (block_len bs (cf_size f) idx) = true.
    Hypothesis CFdata : forall j f idx b y, slot_of c pos j = SFile f idx b -> read_block bs s j f idx = Some y ->
                                          hash_ok hashf bs f idx b y = true -> y = vnth v j.
    Let n := length (c_disks c).
    Let rec := map (prow (r_par s) pos) (seq 0 nlev).
    Let failed := flat_map (fent_of hashf bs c pos s) (seq 0 n).
    Hypothesis CFj : cf_junk hashf padz bs failed.
    Hypothesis CFr : cf_rec hashf padz bs failed rec v.
    Hypothesis CFv : cf_vec hashf padz bs failed v.
    Hypothesis CFs : forall fsx, cf_search hashf bs (co_nosearch o) fsx failed v.
    Hypothesis Hcount : length (filter (is_bad hashf bs c pos s) (seq 0 n)) <= length (filter (good_level v rec) (seq 0 nlev)).
    Hypothesis Hparlen : nlev <= length (r_par s).
    Hypothesis Hdam : forall j f idx b, slot_of c pos j = SFile f idx b -> fl_damaged (get_fl (r_flags s) (j, cf_name f)) = false.
    Hypothesis Hwf : forall j f idx b, slot_of c pos j = SFile f idx b -> (N.of_nat idx * bs + block_len bs (cf_size f) idx <= cf_size f)%N.

    (* the loop over the disks started in sA, described in terms of s *)
    Let a := data_phase o c pos sA.
    Hypothesis Ibuf : da_buf a = map (bufval bs c pos s) (seq 0 n).
    Hypothesis Ifailed : da_failed a = failed.
    Hypothesis Ivalid : da_valid a = true.
    Hypothesis Iused : da_used a = existsb (fun j => slot_has_file (slot_of c pos j)) (seq 0 n).
    Hypothesis Cpar : r_par (da_st a) = r_par s.
    Hypothesis Cunrec : r_unrec (da_st a) = r_unrec s.
    Hypothesis Clen : length (r_fs (da_st a)) = length (r_fs s).
    Hypothesis Cfl : forall k, fl_damaged (get_fl (r_flags (da_st a)) k) = fl_damaged (get_fl (r_flags s) k)
                               /\ fl_fixed (get_fl (r_flags (da_st a)) k) = fl_fixed (get_fl (r_flags s) k)
                               /\ fl_opened (get_fl (r_flags (da_st a)) k) = fl_opened (get_fl (r_flags s) k).
    Hypothesis Ifs : forall j' n', fs_find (r_fs (da_st a)) j' n'
                                   = if j' <? length (c_disks c) then fs_after newino now o c pos s j' n' else fs_find (r_fs s) j' n'.

    Let es : list wentry :=
      flat_map (fun j => match slot_of c pos j with SFile f idx b => if is_bad hashf bs c pos s j then [(j, f, idx, b)] else [] | _ => [] end) (seq 0 n).

    Lemma failed_esT : failed = map we_ent es.
    Proof.
      unfold failed, es. generalize (seq 0 n). intro l. induction l as [|j t IH]; [reflexivity|].
      cbn [flat_map]. rewrite map_app, IH. f_equal. unfold fent_of.
      destruct (slot_of c pos j); try reflexivity. destruct (is_bad hashf bs c pos s j); reflexivity.
    Qed.
    Lemma es_jT : map we_j es = filter (is_bad hashf bs c pos s) (seq 0 n).
    Proof.
      rewrite <- (failed_idx_filter hashf bs c pos s n). fold failed. rewrite failed_esT, map_map. apply map_ext.
      intros [[[j f] idx] b]. reflexivity.
    Qed.
    Lemma es_inT x : In x es -> exists j f idx b, x = (j, f, idx, b) /\ j < n /\ slot_of c pos j = SFile f idx b /\ is_bad hashf bs c pos s j = true.
    Proof.
      unfold es. intro H. apply in_flat_map in H. destruct H as [j [Hj Hx]]. apply in_seq in Hj.
      destruct (slot_of c pos j) as [|f idx b|h] eqn:Es; try contradiction.
      destruct (is_bad hashf bs c pos s j) eqn:Eb; [|contradiction]. destruct Hx as [E|[]]. subst x.
      exists j, f, idx, b. repeat split; auto; lia.
    Qed.

    Theorem fix_step_full_T :
      let s' := stripe_step o c fs0 sA pos in
      (forall j f idx b, slot_of c pos j = SFile f idx b ->
         exists g, fs_find (r_fs s') j (cf_name f) = Some g /\ nth idx (ff_blocks g) 0%N = vnth v j
                   /\ (N.of_nat idx * bs + block_len bs (cf_size f) idx <= ff_size g)%N /\ (ff_size g <= cf_size f)%N)
      /\ (forall l, l < nlev -> par_matches v (prow (r_par s') pos l) = true)
      /\ r_unrec s' = r_unrec s
      /\ keeps_damaged s s'
      /\ length (r_fs s') = length (r_fs s)
      /\ (forall l p, p <> pos -> nth p (nth l (r_par s') []) PNone = nth p (nth l (r_par s) []) PNone)
      /\ length (r_par s') = length (r_par s)
      /\ (forall j' n', (forall f idx b, slot_of c pos j' = SFile f idx b -> cf_name f <> n') ->
                        same_data (fs_find (r_fs s') j' n') (fs_find (r_fs s) j' n'))
      /\ (forall j f idx b, slot_of c pos j = SFile f idx b ->
            (forall i, i <> idx -> fblk (r_fs s') j (cf_name f) i = fblk (r_fs s) j (cf_name f) i)
            /\ (fsz (r_fs s) j (cf_name f) <= fsz (r_fs s') j (cf_name f))%N
            /\ (fsz (r_fs s') j (cf_name f) <= N.max (fsz (r_fs s) j (cf_name f)) (N.of_nat idx * bs + block_len bs (cf_size f) idx))%N)
      /\ (forall j' n', (forall f idx b, slot_of c pos j' = SFile f idx b -> cf_name f <> n') ->
                        fs_find (r_fs s') j' n' = fs_find (r_fs s) j' n'
                        /\ fl_fixed (get_fl (r_flags s') (j', n')) = fl_fixed (get_fl (r_flags s) (j', n')))
      /\ (forall j f idx b, slot_of c pos j = SFile f idx b ->
            fl_fixed (get_fl (r_flags s') (j, cf_name f)) = fl_fixed (get_fl (r_flags s) (j, cf_name f)) || is_bad hashf bs c pos s j
            /\ (is_bad hashf bs c pos s j = false -> fl_fixed (get_fl (r_flags s) (j, cf_name f)) = false ->
                fs_find (r_fs s') j (cf_name f) = fs_find (r_fs s) j (cf_name f))
            /\ (uniq_stamp c j f -> S idx = length (cf_blocks f) -> fl_fixed (get_fl (r_flags s') (j, cf_name f)) = true ->
                exists g, fs_find (r_fs s') j (cf_name f) = Some g /\ ff_mtime g = cf_mtime f /\ ff_nsec g = cf_nsec f))
      (* the OPENED flags are those left by the loop over the disks *)
      /\ (forall key, fl_opened (get_fl (r_flags s') key) = fl_opened (get_fl (r_flags s) key)).
    Proof.
      destruct Henc as [Hvlen Hvenc].
      assert (Hbuflen : length (da_buf a) = n) by (rewrite Ibuf, map_length, seq_length; reflexivity).
      assert (Hbufnth : forall j, j < n -> vnth (da_buf a) j = bufval bs c pos s j).
      { intros j Hj. rewrite Ibuf. unfold vnth. apply nth_map_seq. exact Hj. }
      (* the failed set *)
      assert (Hfin : forall e, In e failed -> exists j, j < n /\ In e (fent_of hashf bs c pos s j)).
      { intros e He. unfold failed in He. apply in_flat_map in He. destruct He as [j [Hj He]]. apply in_seq in Hj. exists j. split; [lia | exact He]. }
      assert (Hblk : blk_failed failed (da_buf a)).
      { intros e He. destruct (Hfin e He) as [j [Hj Hej]].
        destruct (fent_of_idx hashf bs c pos s Hsync j e Hej) as [A [B [C [D _]]]]. repeat split; auto. rewrite A, Hbuflen. exact Hj. }
      assert (Hhv : hv_ok hashf padz bs failed v).
      { intros e He. destruct (Hfin e He) as [j [Hj Hej]].
        destruct (fent_of_idx hashf bs c pos s Hsync j e Hej) as [A [_ [_ [_ [f [idx [b [Es [Ee _]]]]]]]]]. subst e. cbn.
        unfold blockcmp. specialize (Hvenc j ltac:(fold n; lia)). rewrite Es in Hvenc. cbn in Hvenc. unfold vnth. rewrite Hvenc, hval_eqb_refl. cbn.
        apply (Hpad j f idx b Es). }
      assert (Hidx : map fe_idx failed = filter (is_bad hashf bs c pos s) (seq 0 n)) by (apply failed_idx_filter).
      assert (Hag : agree_out (map fe_idx failed) v (da_buf a) = true).
      { apply agree_out_spec. intros i Hi. rewrite Hidx in Hi.
        destruct (Nat.lt_ge_cases i n) as [Hin|Hin].
        - assert (Eb : is_bad hashf bs c pos s i = false).
          { destruct (is_bad hashf bs c pos s i) eqn:E; [|reflexivity]. exfalso. apply Hi. apply filter_In. split; [apply in_seq; lia | exact E]. }
          rewrite Hbufnth by exact Hin. unfold bufval. unfold is_bad in Eb. specialize (Hvenc i ltac:(fold n; lia)).
          destruct (slot_of c pos i) as [|f idx b|h] eqn:Es.
          + cbn in Hvenc. exact Hvenc.
          + destruct (read_block bs s i f idx) as [y|] eqn:Er; [|discriminate].
            symmetry. apply (CFdata i f idx b y Es Er). destruct (hash_ok hashf bs f idx b y); [reflexivity | discriminate].
          + destruct Hsync as [Hs _]. specialize (Hs i). rewrite Es in Hs. contradiction.
        - rewrite !vnth_out by lia. reflexivity. }
      assert (Hcnt : length failed <= length (filter (good_level v rec) (seq 0 nlev))).
      { rewrite <- (map_length fe_idx), Hidx. exact Hcount. }
      (* the parity read *)
      pose proof (parity_phase_spec nlev o pos (da_st a) (pl_popen nlev o Hplain)) as Epp. rewrite Cpar in Epp. fold rec in Epp.
      (* repair *)
      destruct (repair_restores hashf padz bs nlev reduced pos (co_nosearch o) (search_view fs0 (r_fs (da_st a))) failed rec v (da_buf a)
                  (r_jn (da_st a)) Hblk Hhv CFj CFr CFv (CFs _) Hag Hcnt) as [buf' [jn' [rtags [Erep [Hfl1 Hfl2]]]]].
      cbn zeta.
      erewrite (stripe_step_ok hashf padz truncf bs nlev reduced newino now o c fs0 pos sA rec _ failed buf' jn' rtags); [| exact (pl_audit nlev o Hplain) | fold a; exact Epp | fold a; rewrite Ifailed; cbn [r_jn r_fs]; exact Erep].
      fold a. rewrite Iused, Ivalid.
      assert (Eu : existsb (fun j => slot_has_file (slot_of c pos j)) (seq 0 n) = true).
      { destruct Hsync as [_ [j Hj]]. apply existsb_exists. exists j. split; [|exact Hj].
        apply in_seq. destruct (Nat.lt_ge_cases j n) as [H|H]; [lia|]. rewrite slot_of_out in Hj by exact H. discriminate. }
      rewrite Eu. unfold ok_body. cbn [andb].
      assert (Epart : filter (fun e => fe_bad e && fe_ood e) failed = []).
      { apply filter_nil. intros e He. destruct (Hblk e He) as [_ [Ho _]]. rewrite Ho. apply andb_false_r. }
      rewrite Epart. cbn [fold_left]. rewrite Hfix. rewrite compare_phase_spec.
      set (rec2 := map (fun l => if wrong_level rec buf' l then PNone else nth l rec PNone) (seq 0 nlev)).
      match goal with |- context [write_phase padz truncf bs now o pos failed buf' ?st] => set (s5 := st) end.
      rewrite write_phase_fold, failed_esT.
      (* the write-back *)
      assert (Hfs5 : forall j' n', fs_find (r_fs s5) j' n' = fs_find (r_fs (da_st a)) j' n') by (intros; reflexivity).
      assert (Hnd : NoDup (map we_j es)) by (rewrite es_jT; apply NoDup_filter, seq_NoDup).
      assert (Hpres : forall x, In x es -> we_j x < length (r_fs s5) /\ exists g, fs_find (r_fs s5) (fst (we_key x)) (snd (we_key x)) = Some g).
      { intros x Hx. destruct (es_inT x Hx) as [j [f [idx [b [Ex [Hj [Es Eb]]]]]]]. subst x. cbn.
        split; [change (length (r_fs s5)) with (length (r_fs (da_st a))); rewrite Clen, Hlenfs; exact Hj|].
        change (r_fs s5) with (r_fs (da_st a)); rewrite Ifs. assert (E : (j <? n) = true) by (apply Nat.ltb_lt; exact Hj). fold n. rewrite E.
        unfold fs_after. rewrite Es, Hfix, N.eqb_refl. cbn [andb]. destruct (fs_find (r_fs s) j (cf_name f)); eauto. }
      destruct (wfold_spec padz truncf bs nlev now o pos buf' Hplain es s5 Hnd Hpres) as [W1 [W2 [W3 [W4 [W5 [W6 [W7 W8]]]]]]].
      set (s6 := fold_left (wstep padz truncf bs now o pos buf') (map we_ent es) s5) in *.
      (* the parity write-back *)
      destruct (parity_write_fold o pos rec2 buf' (seq 0 nlev) s6 (seq_NoDup nlev 0)) as [P1 [P2 [P3 [P4 [P5 [P6 [P7 P8]]]]]]].
      fold (parity_write_phase nlev o pos rec2 buf' s6) in *.
      set (s7 := parity_write_phase nlev o pos rec2 buf' s6) in *. fold n.
      (* damaged flags so far *)
      assert (Hd7 : forall k, fl_damaged (get_fl (r_flags s7) k) = fl_damaged (get_fl (r_flags s) k)).
      { intro k. rewrite P2. rewrite (W6 k). change (r_flags s5) with (r_flags (da_st a)). apply Cfl. }
      pose proof (fold_file_post_fix hashf padz truncf bs nlev newino o c pos Hplain Hfix (seq 0 n) s7) as PO.
      specialize (PO ltac:(intros j f idx b Es; rewrite Hd7; eapply Hdam; exact Es)).
      set (s8 := fold_left (file_post o c pos) (seq 0 n) s7) in *.
      destruct PO as [Q1 Q2 Q3 Q4 Q5 Q6].
      assert (Hfull : forall j, j < n -> vnth buf' j = vnth v j) by (intros j Hj; apply Hfl2; rewrite Hbuflen; exact Hj).
      assert (Hs6all : forall j f idx b, slot_of c pos j = SFile f idx b ->
        exists g, fs_find (r_fs s6) j (cf_name f) = Some g /\ nth idx (ff_blocks g) 0%N = vnth v j
                  /\ (N.of_nat idx * bs + block_len bs (cf_size f) idx <= ff_size g)%N /\ (ff_size g <= cf_size f)%N
                  /\ (forall i, i <> idx -> nth i (ff_blocks g) 0%N = fblk (r_fs s) j (cf_name f) i)
                  /\ (fsz (r_fs s) j (cf_name f) <= ff_size g)%N
                  /\ (ff_size g <= N.max (fsz (r_fs s) j (cf_name f)) (N.of_nat idx * bs + block_len bs (cf_size f) idx))%N).
      { intros j f idx b Es.
        assert (Hj : j < n).
        { destruct (Nat.lt_ge_cases j n) as [H|H]; [exact H|]. rewrite slot_of_out in Es by exact H. discriminate. }
        destruct (is_bad hashf bs c pos s j) eqn:Eb.
          - assert (Hin : In (j, f, idx, b) es).
            { unfold es. apply in_flat_map. exists j. split; [apply in_seq; lia|]. rewrite Es, Eb. left. reflexivity. }
            destruct (Hpres _ Hin) as [_ [g Hg]]. cbn in Hg.
            rewrite (W7 j f idx b g Hin Hg).
            destruct (write_block_spec padz truncf bs now g f idx (vnth buf' j)) as [_ [X2 [X3 [X4 X5]]]].
            assert (Hgs : (ff_size g <= cf_size f)%N /\ ff_size g = fsz (r_fs s) j (cf_name f) /\ (forall i, nth i (ff_blocks g) 0%N = fblk (r_fs s) j (cf_name f) i)).
            { change (r_fs s5) with (r_fs (da_st a)) in Hg. rewrite Ifs in Hg.
              assert (E : (j <? n) = true) by (apply Nat.ltb_lt; exact Hj). fold n in Hg. rewrite E in Hg.
              unfold fs_after in Hg. rewrite Es, Hfix, N.eqb_refl in Hg. cbn [andb] in Hg. unfold fsz, fblk.
              destruct (fs_find (r_fs s) j (cf_name f)) as [g0|] eqn:Eg0.
              - injection Hg as Hg. subst g0. destruct (Hfile j f idx b Es) as [_ [Hsz _]]. split; [apply Hsz; exact Eg0 | auto].
              - injection Hg as Hg. subst g. cbn. split; [lia|]. split; [reflexivity|]. intro i. destruct i; reflexivity. }
            destruct Hgs as [Hgs [Hgz Hgb]].
            eexists. split; [reflexivity|]. split; [|split; [exact X2 | split; [apply X5; [exact Hgs | apply (Hwf j f idx b Es)]|]]].
            { rewrite X3; [apply Hfull; exact Hj|]. rewrite Hfull by exact Hj. apply (Hpad j f idx b Es). }
            split; [intros i Hi; rewrite X4 by exact Hi; apply Hgb|].
            rewrite <- Hgz. unfold write_block. cbn [ff_size].
            destruct (ff_size g <? N.of_nat idx * bs + block_len bs (cf_size f) idx)%N eqn:El; [apply N.ltb_lt in El | apply N.ltb_ge in El]; lia.
          - unfold is_bad in Eb. rewrite Es in Eb.
            destruct (read_block bs s j f idx) as [y|] eqn:Er; [|discriminate].
            assert (Ey : y = vnth v j) by (apply (CFdata j f idx b y Es Er); destruct (hash_ok hashf bs f idx b y); [reflexivity | discriminate]).
            destruct (read_block_some bs s j f idx y Er) as [g [Hg [Hy Hsz]]].
            exists g. split; [|split; [congruence | split; [exact Hsz | split; [destruct (Hfile j f idx b Es) as [_ [Hsz' _]]; apply Hsz'; exact Hg|]]]].
            2: { unfold fsz, fblk. rewrite Hg. split; [reflexivity|]. lia. }
            rewrite W8.
            + change (r_fs s5) with (r_fs (da_st a)); rewrite Ifs. assert (E : (j <? n) = true) by (apply Nat.ltb_lt; exact Hj). fold n. rewrite E.
              unfold fs_after. rewrite Es, Hfix, N.eqb_refl. cbn [andb]. rewrite Hg. reflexivity.
            + intros x Hx X. destruct (es_inT x Hx) as [j2 [f2 [i2 [b2 [Ex [_ [_ Eb2]]]]]]]. subst x. cbn in X. injection X as X1 X2. subst j2.
              unfold is_bad in Eb2. rewrite Es, Er in Eb2. rewrite Eb in Eb2. discriminate. }
      assert (Hj_of : forall j f idx b, slot_of c pos j = SFile f idx b -> j < n).
      { intros j f idx b Es. destruct (Nat.lt_ge_cases j n) as [H|H]; [exact H|]. rewrite slot_of_out in Es by exact H. discriminate. }
      (* flags and time-stamps *)
      destruct (wfold_flags padz truncf bs nlev now o pos buf' Hplain es s5 (fun x Hx => proj2 (Hpres x Hx)) Hnd) as [WF1 WF2]. fold s6 in WF1, WF2.
      assert (Hd7' : forall j f idx b, slot_of c pos j = SFile f idx b -> fl_damaged (get_fl (r_flags s7) (j, cf_name f)) = false).
      { intros j f idx b Es. rewrite Hd7. eapply Hdam. exact Es. }
      destruct (fold_file_post_stamps hashf padz truncf bs nlev newino o c pos Hplain Hfix (seq 0 n) s7 (seq_NoDup n 0) Hd7') as [FSA FSB]. fold s8 in FSA, FSB.
      assert (Hes_key : forall x j f idx b, In x es -> slot_of c pos j = SFile f idx b -> is_bad hashf bs c pos s j = false -> (j, cf_name f) <> we_key x).
      { intros x j f idx b Hx Es Eb X. destruct (es_inT x Hx) as [j2 [f2 [i2 [b2 [Ex [_ [_ Eb2]]]]]]]. subst x. cbn in X. injection X as X1 X2. subst j2. congruence. }
      assert (G1 : forall j' n', (forall f idx b, slot_of c pos j' = SFile f idx b -> cf_name f <> n') ->
                        fs_find (r_fs s8) j' n' = fs_find (r_fs s) j' n'
                        /\ fl_fixed (get_fl (r_flags s8) (j', n')) = fl_fixed (get_fl (r_flags s) (j', n'))).
      { intros j' n' Hno.
        assert (Hne_es : forall x, In x es -> (j', n') <> we_key x).
        { intros x Hx X. destruct (es_inT x Hx) as [j2 [f2 [i2 [b2 [Ex [_ [Es2 _]]]]]]]. subst x. cbn in X. injection X as X1 X2. subst j2.
          apply (Hno f2 i2 b2 Es2). symmetry. exact X2. }
        destruct (FSA j' n') as [A1 A2].
        { intros j f idx b _ Es X. injection X as X1 X2. subst j'. apply (Hno f idx b Es). symmetry. exact X2. }
        split.
        - rewrite A1, P1, W8 by exact Hne_es. change (r_fs s5) with (r_fs (da_st a)). rewrite Ifs. fold n.
          destruct (j' <? n) eqn:E; [|reflexivity]. unfold fs_after. destruct (slot_of c pos j') as [|f idx b|h] eqn:Es; try reflexivity.
          assert (En : N.eqb (cf_name f) n' = false) by (apply N.eqb_neq; apply (Hno f idx b eq_refl)).
          rewrite En, andb_false_r. reflexivity.
        - rewrite A2, P2, WF2 by exact Hne_es. change (r_flags s5) with (r_flags (da_st a)). apply Cfl. }
      assert (G2 : forall j f idx b, slot_of c pos j = SFile f idx b ->
            fl_fixed (get_fl (r_flags s8) (j, cf_name f)) = fl_fixed (get_fl (r_flags s) (j, cf_name f)) || is_bad hashf bs c pos s j
            /\ (is_bad hashf bs c pos s j = false -> fl_fixed (get_fl (r_flags s) (j, cf_name f)) = false ->
                fs_find (r_fs s8) j (cf_name f) = fs_find (r_fs s) j (cf_name f))
            /\ (uniq_stamp c j f -> S idx = length (cf_blocks f) -> fl_fixed (get_fl (r_flags s8) (j, cf_name f)) = true ->
                exists g, fs_find (r_fs s8) j (cf_name f) = Some g /\ ff_mtime g = cf_mtime f /\ ff_nsec g = cf_nsec f)).
      { intros j f idx b Es. assert (Hj : j < n) by (apply (Hj_of j f idx b Es)).
        destruct (FSB j f idx b ltac:(apply in_seq; lia) Es) as [B1 [B2 B3]].
        assert (Efx7 : fl_fixed (get_fl (r_flags s7) (j, cf_name f)) = fl_fixed (get_fl (r_flags s) (j, cf_name f)) || is_bad hashf bs c pos s j).
        { rewrite P2. destruct (is_bad hashf bs c pos s j) eqn:Eb.
          - rewrite orb_true_r. apply (WF1 (j, f, idx, b)). unfold es. apply in_flat_map. exists j. split; [apply in_seq; lia|]. rewrite Es, Eb. left. reflexivity.
          - rewrite orb_false_r. rewrite WF2 by (intros x Hx; apply (Hes_key x j f idx b Hx Es Eb)).
            change (r_flags s5) with (r_flags (da_st a)). apply Cfl. }
        split; [rewrite B1; exact Efx7|]. split.
        - intros Eb Hnf. rewrite B2 by (rewrite Efx7, Hnf, Eb; reflexivity).
          rewrite P1, W8 by (intros x Hx; apply (Hes_key x j f idx b Hx Es Eb)).
          change (r_fs s5) with (r_fs (da_st a)). rewrite Ifs. assert (E : (j <? n) = true) by (apply Nat.ltb_lt; exact Hj). fold n. rewrite E.
          unfold fs_after. rewrite Es, Hfix, N.eqb_refl. cbn [andb].
          unfold is_bad in Eb. rewrite Es in Eb. destruct (read_block bs s j f idx) as [y|] eqn:Er; [|discriminate].
          destruct (read_block_some bs s j f idx y Er) as [g [Hg _]]. rewrite Hg. reflexivity.
        - intros Hu Hl Hfx. rewrite B1 in Hfx.
          destruct (Hs6all j f idx b Es) as [g6 [Hg6 _]]. rewrite <- P1 in Hg6.
          exists (restamp f g6). split; [apply (B3 Hu Hl Hfx g6 Hg6) | split; reflexivity]. }
      assert (G3 : forall key, fl_opened (get_fl (r_flags s8) key) = fl_opened (get_fl (r_flags s) key)).
      { intro key. unfold s8. rewrite fold_file_post_opened, P2. unfold s6. rewrite wfold_opened.
        change (r_flags s5) with (r_flags (da_st a)). apply Cfl. }
      split; [|split; [|split; [|split; [|split; [|split; [|split; [|split]]]]]]].
      - (* the data *)
        intros j f idx b Es.
        destruct (Hs6all j f idx b Es) as [g [Hg [Hb [Hsz [Hle _]]]]].
        specialize (Q6 j (cf_name f)). rewrite P1, Hg in Q6.
        destruct (fs_find (r_fs s8) j (cf_name f)) as [g8|] eqn:E8; [|contradiction]. destruct Q6 as [Qa Qb].
        exists g8. split; [first [reflexivity | exact E8]|]. rewrite Qa, Qb. auto.
      - (* the parity *)
        intros l Hl. rewrite Q1. rewrite P7.
        assert (Em : memn l (seq 0 nlev) = true) by (apply memn_spec, in_seq; lia). rewrite Em.
        assert (El : (l <? length (r_par s6)) = true).
        { apply Nat.ltb_lt. rewrite W1. change (r_par s5) with (r_par s). lia. }
        rewrite El. unfold pw_cond. rewrite (pl_popen nlev o Hplain l Hl), (pl_pexcl nlev o Hplain l). cbn [negb andb]. rewrite !andb_true_r.
        assert (Hveq : veq v buf' = true).
        { apply veq_spec. intro i. destruct (Nat.lt_ge_cases i n) as [H|H]; [symmetry; apply Hfull; exact H|].
          rewrite !vnth_out; [reflexivity | destruct Hfl1; lia | lia]. }
        assert (Er2 : nth l rec2 PNone = if wrong_level rec buf' l then PNone else nth l rec PNone).
        { unfold rec2. apply nth_map_seq. exact Hl. }
        rewrite Er2. unfold wrong_level.
        assert (Erl : nth l rec PNone = prow (r_par s) pos l).
        { unfold rec. apply nth_map_seq. exact Hl. }
        destruct (nth l rec PNone) as [w|t|] eqn:Ep; cbn [is_pnone negb andb par_matches].
        + destruct (veq buf' w) eqn:Ew; cbn [negb is_pnone].
          * rewrite W1. change (r_par s5) with (r_par s). rewrite <- Erl. cbn. eapply veq_trans; [exact Hveq | exact Ew].
          * exact Hveq.
        + exact Hveq.
        + exact Hveq.
      - rewrite Q2, P3, W2. change (r_unrec s5) with (r_unrec (da_st a)). exact Cunrec.
      - intro k. rewrite (Q5 k). apply Hd7.
      - rewrite Q4, P1, W5. change (length (r_fs s5)) with (length (r_fs (da_st a))). exact Clen.
      - intros l p Hp. rewrite Q1, (P8 l p Hp), W1. reflexivity.
      - rewrite Q1, P6, W1. reflexivity.
      - (* other files *)
        intros j' n' Hno. eapply sd_trans; [apply Q6|]. rewrite P1, W8.
        + change (r_fs s5) with (r_fs (da_st a)). rewrite Ifs. fold n. destruct (j' <? n) eqn:E; [|apply sd_refl].
          unfold fs_after. destruct (slot_of c pos j') as [|f idx b|h] eqn:Es; try apply sd_refl.
          assert (En : N.eqb (cf_name f) n' = false) by (apply N.eqb_neq; apply (Hno f idx b eq_refl)).
          rewrite En, andb_false_r. apply sd_refl.
        + intros x Hx X. destruct (es_inT x Hx) as [j2 [f2 [i2 [b2 [Ex [_ [Es2 _]]]]]]]. subst x. cbn in X. injection X as X1 X2. subst j2.
          apply (Hno f2 i2 b2 Es2). symmetry. exact X2.
      - split; [|split; [exact G1 | split; [exact G2 | exact G3]]].
        (* the other blocks of the files of this stripe *)
        intros j f idx b Es. destruct (Hs6all j f idx b Es) as [g [Hg [_ [_ [_ [Hoth [Hlo Hhi]]]]]]].
        pose proof (Q6 j (cf_name f)) as Q. rewrite P1, Hg in Q.
        unfold fsz at 2 3, fblk at 1. destruct (fs_find (r_fs s8) j (cf_name f)) as [g8|] eqn:E8; [|contradiction]. destruct Q as [Qa Qb].
        rewrite Qa, Qb. auto.
    Qed.
  End RestoreT.

  (* ---- the stripe step on a state where files of the stripe may be larger than recorded (if never opened) ------------------- *)
  Section StepG.
    Variable o : copts.
    Variable c : content.
    Variable fs0 : list (option fsdisk).
    Variable pos : nat.
    Variable sA : rstate.
    Variable v : list bid.
    Hypothesis Hplain : plain nlev o.
    Hypothesis Hfix : co_fix o = true.
    Hypothesis Hsync : stripe_synced c pos.
    Hypothesis Hlenfs : length (r_fs sA) = length (c_disks c).
    Hypothesis HfileG : forall j f idx b, slot_of c pos j = SFile f idx b ->
         (0 < block_len bs (cf_size f) idx)%N /\ (N.of_nat idx * bs + block_len bs (cf_size f) idx <= cf_size f)%N
         /\ (forall g, fs_find (r_fs sA) j (cf_name f) = Some g -> (cf_size f < ff_size g)%N ->
                       fl_opened (get_fl (r_flags sA) (j, cf_name f)) = false).
    Hypothesis Henc : enc_ok hashf bs c pos v.
    Hypothesis Hpad : forall j f idx b, slot_of c pos j = SFile f idx b -> pad_ok padz bs (vnth v j) (block_len bs (cf_size f) idx) = true.
    Hypothesis CFdata : forall j f idx b y, slot_of c pos j = SFile f idx b -> read_block bs sA j f idx = Some y ->
                                          hash_ok hashf bs f idx b y = true -> y = vnth v j.
    Let n := length (c_disks c).
    Let rec := map (prow (r_par sA) pos) (seq 0 nlev).
    Let failed := flat_map (fent_of hashf bs c pos sA) (seq 0 n).
    Hypothesis CFj : cf_junk hashf padz bs failed.
    Hypothesis CFr : cf_rec hashf padz bs failed rec v.
    Hypothesis CFv : cf_vec hashf padz bs failed v.
    Hypothesis CFs : forall fsx, cf_search hashf bs (co_nosearch o) fsx failed v.
    Hypothesis Hcount : length (filter (is_bad hashf bs c pos sA) (seq 0 n)) <= length (filter (good_level v rec) (seq 0 nlev)).
    Hypothesis Hparlen : nlev <= length (r_par sA).
    Hypothesis Hdam : forall j f idx b, slot_of c pos j = SFile f idx b -> fl_damaged (get_fl (r_flags sA) (j, cf_name f)) = false.

    Theorem fix_step_grown :
      let s' := stripe_step o c fs0 sA pos in
      (forall j f idx b, slot_of c pos j = SFile f idx b ->
         exists g, fs_find (r_fs s') j (cf_name f) = Some g /\ nth idx (ff_blocks g) 0%N = vnth v j
                   /\ (N.of_nat idx * bs + block_len bs (cf_size f) idx <= ff_size g)%N /\ (ff_size g <= cf_size f)%N)
      /\ (forall l, l < nlev -> par_matches v (prow (r_par s') pos l) = true)
      /\ r_unrec s' = r_unrec sA
      /\ keeps_damaged sA s'
      /\ length (r_fs s') = length (r_fs sA)
      /\ (forall l p, p <> pos -> nth p (nth l (r_par s') []) PNone = nth p (nth l (r_par sA) []) PNone)
      /\ length (r_par s') = length (r_par sA)
      (* the files that have no block in this stripe are not touched at all, nor are their FIXED and OPENED flags *)
      /\ (forall j' n', (forall f idx b, slot_of c pos j' = SFile f idx b -> cf_name f <> n') ->
                        fs_find (r_fs s') j' n' = fs_find (r_fs sA) j' n'
                        /\ fl_fixed (get_fl (r_flags s') (j', n')) = fl_fixed (get_fl (r_flags sA) (j', n'))
                        /\ fl_opened (get_fl (r_flags s') (j', n')) = fl_opened (get_fl (r_flags sA) (j', n')))
      (* the files of this stripe: the other blocks inside the recorded size stay, the size is first cut to the recorded one
         then grows at most to the end of the block written; FIXED is set exactly on the files cut back or written *)
      /\ (forall j f idx b, slot_of c pos j = SFile f idx b ->
            (forall i, i <> idx -> i < nblocks bs (cf_size f) -> fblk (r_fs s') j (cf_name f) i = fblk (r_fs sA) j (cf_name f) i)
            /\ (N.min (fsz (r_fs sA) j (cf_name f)) (cf_size f) <= fsz (r_fs s') j (cf_name f))%N
            /\ (fsz (r_fs s') j (cf_name f) <= N.max (N.min (fsz (r_fs sA) j (cf_name f)) (cf_size f)) (N.of_nat idx * bs + block_len bs (cf_size f) idx))%N
            /\ fl_fixed (get_fl (r_flags s') (j, cf_name f))
               = fl_fixed (get_fl (r_flags sA) (j, cf_name f)) || grownb c pos sA j || is_bad hashf bs c pos sA j
            /\ (is_bad hashf bs c pos sA j = false -> grownb c pos sA j = false -> fl_fixed (get_fl (r_flags sA) (j, cf_name f)) = false ->
                fs_find (r_fs s') j (cf_name f) = fs_find (r_fs sA) j (cf_name f))
            /\ (uniq_stamp c j f -> S idx = length (cf_blocks f) -> fl_fixed (get_fl (r_flags s') (j, cf_name f)) = true ->
                exists g, fs_find (r_fs s') j (cf_name f) = Some g /\ ff_mtime g = cf_mtime f /\ ff_nsec g = cf_nsec f)).
    Proof.
      pose proof (data_phase_G o c pos sA Hplain Hfix Hsync Hlenfs HfileG) as DG.
      set (s1 := da_st (data_phase o c pos sA)) in *.
      destruct DG as [Gbuf Gfailed Gvalid Gused Gpar Gunrec Glen Gfs Ghi Gother Gdam Gfix]. fold s1 in Gpar, Gunrec, Glen, Gfs, Ghi, Gother, Gdam, Gfix.
      assert (Gslot := G_slot o c pos sA Hplain Hfix Hsync Hlenfs HfileG). fold s1 in Gslot.
      assert (Gread := G_read o c pos sA Hplain Hfix Hsync Hlenfs HfileG). fold s1 in Gread.
      assert (Gbad := G_is_bad o c pos sA Hplain Hfix Hsync Hlenfs HfileG). fold s1 in Gbad.
      assert (Gbv := G_bufval o c pos sA Hplain Hfix Hsync Hlenfs HfileG). fold s1 in Gbv.
      assert (Gfe := G_fent_of o c pos sA Hplain Hfix Hsync Hlenfs HfileG). fold s1 in Gfe.
      assert (Goth := G_other o c pos sA Hplain Hfix Hsync Hlenfs HfileG). fold s1 in Goth.
      assert (Efailed : flat_map (fent_of hashf bs c pos s1) (seq 0 (length (c_disks c))) = failed) by (unfold failed, n; apply flat_map_ext; exact Gfe).
      assert (Erec : map (prow (r_par s1) pos) (seq 0 nlev) = rec) by (unfold rec; rewrite Gpar; reflexivity).
      assert (Hfile1 : forall j f idx b, slot_of c pos j = SFile f idx b ->
         (0 < block_len bs (cf_size f) idx)%N
         /\ (forall g, fs_find (r_fs s1) j (cf_name f) = Some g -> (ff_size g <= cf_size f)%N)
         /\ (co_fix o = true \/ fl_missing (get_fl (r_flags s1) (j, cf_name f)) = false \/ fs_find (r_fs s1) j (cf_name f) = None)).
      { intros j f idx b Es. destruct (HfileG j f idx b Es) as [Hl _]. split; [exact Hl|]. split; [|left; exact Hfix].
        intros g Hg. destruct (Gslot j f idx b Es) as [g1 [E1 [Esz _]]]. rewrite E1 in Hg. injection Hg as Hg. subst g1. lia. }
      assert (Ifs : forall j' n', fs_find (r_fs s1) j' n'
                                  = if j' <? length (c_disks c) then fs_after newino now o c pos s1 j' n' else fs_find (r_fs s1) j' n').
      { intros j' n'. destruct (j' <? length (c_disks c)); [|reflexivity]. unfold fs_after.
        destruct (slot_of c pos j') as [|f idx b|h] eqn:Es; try reflexivity. rewrite Hfix. cbn [andb].
        destruct (N.eqb (cf_name f) n') eqn:En; [|reflexivity]. apply N.eqb_eq in En. subst n'.
        destruct (Gslot j' f idx b Es) as [g1 [E1 _]]. rewrite E1. reflexivity. }
      destruct (fix_step_full_T o c fs0 pos sA s1 v Hplain Hfix Hsync ltac:(rewrite Glen; exact Hlenfs) Hfile1 Henc Hpad)
        as [A [B [C [D [E [F1 [F2 [F3 [F4 [HG1 [HG2 HG3]]]]]]]]]]].
      - intros j f idx b y Es Hr. rewrite (Gread j f idx b Es) in Hr. apply (CFdata j f idx b y Es Hr).
      - rewrite Efailed. exact CFj.
      - rewrite Efailed, Erec. exact CFr.
      - rewrite Efailed. exact CFv.
      - intro fsx. rewrite Efailed. apply CFs.
      - rewrite Erec. rewrite (filter_ext _ _ Gbad). exact Hcount.
      - rewrite Gpar. exact Hparlen.
      - intros j f idx b Es. rewrite Gdam. apply (Hdam j f idx b Es).
      - intros j f idx b Es. apply (HfileG j f idx b Es).
      - rewrite Gbuf. apply map_ext. intro j. symmetry. apply Gbv.
      - rewrite Gfailed. symmetry. exact Efailed.
      - exact Gvalid.
      - exact Gused.
      - reflexivity.
      - reflexivity.
      - reflexivity.
      - intro k. auto.
      - exact Ifs.
      - set (s' := stripe_step o c fs0 sA pos) in *. cbn zeta.
        split; [exact A|]. split; [exact B|]. split; [congruence|].
        split; [intro k; rewrite (D k); apply Gdam|]. split; [congruence|].
        split; [intros l p Hp; rewrite (F1 l p Hp), Gpar; reflexivity|]. split; [congruence|]. split.
        + intros j' n' Hno. destruct (HG1 j' n' Hno) as [X1 X2]. destruct (Goth j' n' Hno) as [Y1 Y2].
          split; [congruence|]. split; [rewrite X2, Y2; reflexivity | rewrite HG3, Y2; reflexivity].
        + intros j f idx b Es. destruct (F4 j f idx b Es) as [U1 [U2 U3]]. destruct (HG2 j f idx b Es) as [V1 [V2 V3]].
          destruct (Gslot j f idx b Es) as [g1 [E1 [Esz [Ebl Esame]]]].
          assert (Z1 : fsz (r_fs s1) j (cf_name f) = N.min (fsz (r_fs sA) j (cf_name f)) (cf_size f)) by (unfold fsz at 1; rewrite E1; exact Esz).
          assert (Hjn : j < length (c_disks c)) by (apply (slot_lt c pos j f idx b Es)).
          assert (Z2 : fl_fixed (get_fl (r_flags s1) (j, cf_name f)) = fl_fixed (get_fl (r_flags sA) (j, cf_name f)) || grownb c pos sA j) by (apply (Gfix j f idx b Es Hjn)).
          split; [intros i Hi Hin; rewrite (U1 i Hi); unfold fblk at 1; rewrite E1; apply Ebl; exact Hin|].
          split; [rewrite <- Z1; exact U2|]. split; [rewrite <- Z1; exact U3|].
          split; [rewrite V1, Z2, Gbad; reflexivity|]. split; [|exact V3].
          intros Hb Hg Hf. rewrite V2; [| rewrite Gbad; exact Hb | rewrite Z2, Hf, Hg; reflexivity].
          rewrite E1. unfold is_bad in Hb. rewrite Es in Hb.
          destruct (read_block bs sA j f idx) as [y|] eqn:Er; [|discriminate Hb].
          destruct (read_block_some bs sA j f idx y Er) as [g [Hgf _]]. rewrite Hgf. f_equal. apply (Esame Hg g Hgf).
    Qed.
  End StepG.

  (* ---- the loop over the stripes, fix mode, WITHOUT no_larger ------------------------------------------------------------ *)
  Section FixLoopG.
    Variable o : copts.
    Variable c : content.
    Variable bm : nat.
    Variable fs0 : list (option fsdisk).     (* the damaged data disks; files may be larger than recorded *)
    Variable par : parity.                   (* the damaged parity *)
    Variable vs : nat -> list bid.           (* the recorded vector of every stripe *)
    Hypothesis Hplain : plain nlev o.
    Hypothesis Hfix : co_fix o = true.
    Hypothesis Hsyn : forall p, p < bm -> stripe_synced c p.
    Hypothesis Hgeom : geom bs c bm.
    Hypothesis Hlen : length fs0 = length (c_disks c).
    Hypothesis Hparlen : nlev <= length par.
    Hypothesis Henc : forall p, p < bm -> enc_ok hashf bs c p (vs p).
    Hypothesis Hpad : forall p j f i b, slot_of c p j = SFile f i b -> pad_ok padz bs (vnth (vs p) j) (block_len bs (cf_size f) i) = true.

    Let s0 : rstate := mkRS fs0 [] par 0 0 0 [] 0%N.
    Hypothesis CFdata : forall p j f i b y, slot_of c p j = SFile f i b -> read_block bs s0 j f i = Some y ->
                                          hash_ok hashf bs f i b y = true -> y = vnth (vs p) j.
    Let failed0 (p : nat) := flat_map (fent_of hashf bs c p s0) (seq 0 (length (c_disks c))).
    Let rec0 (p : nat) := map (prow par p) (seq 0 nlev).
    Hypothesis CFj : forall p, p < bm -> cf_junk hashf padz bs (failed0 p).
    Hypothesis CFr : forall p, p < bm -> cf_rec hashf padz bs (failed0 p) (rec0 p) (vs p).
    Hypothesis CFv : forall p, p < bm -> cf_vec hashf padz bs (failed0 p) (vs p).
    Hypothesis CFs : forall p, p < bm -> forall fsx, cf_search hashf bs (co_nosearch o) fsx (failed0 p) (vs p).
    Hypothesis Hcount : forall p, p < bm ->
        length (filter (is_bad hashf bs c p s0) (seq 0 (length (c_disks c)))) <= length (filter (good_level (vs p) (rec0 p)) (seq 0 nlev)).

    Notation blkend f i := (N.of_nat i * bs + block_len bs (cf_size f) i)%N.

    Record rinvG (k : nat) (s : rstate) : Prop := {
      rg_len : length (r_fs s) = length (c_disks c);
      rg_parlen : length (r_par s) = length par;
      rg_unrec : r_unrec s = 0;
      rg_dam : forall key, fl_damaged (get_fl (r_flags s) key) = false;
      rg_files : forall p j f i b, slot_of c p j = SFile f i b ->
          (p < k -> fblk (r_fs s) j (cf_name f) i = vnth (vs p) j
                    /\ (blkend f i <= fsz (r_fs s) j (cf_name f))%N /\ (fsz (r_fs s) j (cf_name f) <= cf_size f)%N)
          /\ (k <= p -> fblk (r_fs s) j (cf_name f) i = fblk fs0 j (cf_name f) i
                        /\ ((blkend f i <= fsz (r_fs s) j (cf_name f))%N <-> (blkend f i <= fsz fs0 j (cf_name f))%N));
      (* a file larger than recorded was never opened *)
      rg_grown : forall p j f i b, slot_of c p j = SFile f i b -> (cf_size f < fsz (r_fs s) j (cf_name f))%N ->
                                   fl_opened (get_fl (r_flags s) (j, cf_name f)) = false;
      rg_par : forall p l, (p < k -> l < nlev -> par_matches (vs p) (prow (r_par s) p l) = true)
                           /\ (k <= p -> nth p (nth l (r_par s) []) PNone = nth p (nth l par []) PNone);
      rg_nofix : forall p j f i b, slot_of c p j = SFile f i b -> fl_fixed (get_fl (r_flags s) (j, cf_name f)) = false ->
                                   fs_find (r_fs s) j (cf_name f) = fs_find fs0 j (cf_name f);
      rg_stamp : forall p j f i b, slot_of c p j = SFile f i b -> uniq_stamp c j f -> S i = length (cf_blocks f) -> p < k ->
                                   fl_fixed (get_fl (r_flags s) (j, cf_name f)) = true ->
                                   exists g, fs_find (r_fs s) j (cf_name f) = Some g /\ ff_mtime g = cf_mtime f /\ ff_nsec g = cf_nsec f
    }.

    Lemma rinvG_0 : rinvG 0 s0.
    Proof.
      constructor; cbn; auto.
      - intros p j f i b Hs. split; [intro X; lia | intros _; split; [reflexivity | tauto]].
      - intros p l. split; [intros X; lia | reflexivity].
      - intros p j f i b _ _ _ X. lia.
    Qed.

    Lemma rinvG_read k s p j f i b : rinvG k s -> k <= p -> slot_of c p j = SFile f i b -> read_block bs s j f i = read_block bs s0 j f i.
    Proof.
      intros I Hk Hs. destruct (g_wf bs c bm Hgeom p j f i b Hs) as [Hl _].
      rewrite !read_block_fsz by exact Hl.
      destruct (rg_files k s I p j f i b Hs) as [_ H]. destruct (H Hk) as [Hb Hz]. change (r_fs s0) with fs0.
      rewrite Hb.
      destruct (fsz (r_fs s) j (cf_name f) <? N.of_nat i * bs + block_len bs (cf_size f) i)%N eqn:E1,
               (fsz fs0 j (cf_name f) <? N.of_nat i * bs + block_len bs (cf_size f) i)%N eqn:E2; try reflexivity.
      - apply N.ltb_lt in E1. apply N.ltb_ge in E2. apply Hz in E2. lia.
      - apply N.ltb_ge in E1. apply N.ltb_lt in E2. apply Hz in E1. lia.
    Qed.

    Lemma rinvG_is_bad k s j : rinvG k s -> k < bm -> is_bad hashf bs c k s j = is_bad hashf bs c k s0 j.
    Proof.
      intros I Hk. unfold is_bad. destruct (slot_of c k j) as [|f i b|h] eqn:Es; try reflexivity.
      rewrite (rinvG_read k s k j f i b I (le_n k) Es). reflexivity.
    Qed.

    Lemma rinvG_step k s : rinvG k s -> k < bm -> rinvG (S k) (stripe_step o c fs0 s k).
    Proof.
      intros I Hk.
      assert (Ebad : forall j, is_bad hashf bs c k s j = is_bad hashf bs c k s0 j) by (intro j; apply (rinvG_is_bad k s j I Hk)).
      assert (Efailed : flat_map (fent_of hashf bs c k s) (seq 0 (length (c_disks c))) = failed0 k).
      { unfold failed0. apply flat_map_ext_in2. intros j _. unfold fent_of. rewrite Ebad. reflexivity. }
      assert (Erec : map (prow (r_par s) k) (seq 0 nlev) = rec0 k).
      { unfold rec0. apply map_ext. intro l. unfold prow. apply (rg_par k s I k l). lia. }
      assert (HfileG : forall j f i b, slot_of c k j = SFile f i b ->
                (0 < block_len bs (cf_size f) i)%N /\ (blkend f i <= cf_size f)%N
                /\ (forall g, fs_find (r_fs s) j (cf_name f) = Some g -> (cf_size f < ff_size g)%N ->
                              fl_opened (get_fl (r_flags s) (j, cf_name f)) = false)).
      { intros j f i b Hs. destruct (g_wf bs c bm Hgeom k j f i b Hs) as [Hl Hw]. split; [exact Hl|]. split; [exact Hw|].
        intros g Hg Hgr. apply (rg_grown k s I k j f i b Hs). rewrite (fsz_some _ _ _ _ Hg). exact Hgr. }
      assert (CFd : forall j f i b y, slot_of c k j = SFile f i b -> read_block bs s j f i = Some y -> hash_ok hashf bs f i b y = true -> y = vnth (vs k) j).
      { intros j f i b y Hs Hr. rewrite (rinvG_read k s k j f i b I (le_n k) Hs) in Hr. apply (CFdata k j f i b y Hs Hr). }
      assert (CFj' : cf_junk hashf padz bs (flat_map (fent_of hashf bs c k s) (seq 0 (length (c_disks c))))) by (rewrite Efailed; apply CFj; exact Hk).
      assert (CFr' : cf_rec hashf padz bs (flat_map (fent_of hashf bs c k s) (seq 0 (length (c_disks c)))) (map (prow (r_par s) k) (seq 0 nlev)) (vs k)) by (rewrite Efailed, Erec; apply CFr; exact Hk).
      assert (CFv' : cf_vec hashf padz bs (flat_map (fent_of hashf bs c k s) (seq 0 (length (c_disks c)))) (vs k)) by (rewrite Efailed; apply CFv; exact Hk).
      assert (CFs' : forall fsx, cf_search hashf bs (co_nosearch o) fsx (flat_map (fent_of hashf bs c k s) (seq 0 (length (c_disks c)))) (vs k)) by (intro fsx; rewrite Efailed; apply CFs; exact Hk).
      assert (Hcnt : length (filter (is_bad hashf bs c k s) (seq 0 (length (c_disks c)))) <= length (filter (good_level (vs k) (map (prow (r_par s) k) (seq 0 nlev))) (seq 0 nlev))).
      { rewrite (filter_ext_in2 _ _ _ (fun j _ => Ebad j)), Erec. apply Hcount. exact Hk. }
      assert (Hpl : nlev <= length (r_par s)) by (rewrite (rg_parlen k s I); exact Hparlen).
      assert (Hdm : forall j f i b, slot_of c k j = SFile f i b -> fl_damaged (get_fl (r_flags s) (j, cf_name f)) = false) by (intros; apply (rg_dam k s I)).
      destruct (fix_step_grown o c fs0 k s (vs k) Hplain Hfix (Hsyn k Hk) (rg_len k s I)
                  HfileG (Henc k Hk) (fun j f i b Hs => Hpad k j f i b Hs) CFd CFj' CFr' CFv' CFs' Hcnt Hpl Hdm)
        as [A [B [C [D [E [F1 [F2 [NN SS]]]]]]]].
      set (s' := stripe_step o c fs0 s k) in *.
      (* what the step does to the file named by an arbitrary slot (p, j, f, i, b) *)
      assert (Hcase : forall p j f i b, slot_of c p j = SFile f i b ->
                (exists ik bk, slot_of c k j = SFile f ik bk /\ (p < k -> i < ik) /\ (k < p -> ik < i) /\ (p = k -> i = ik /\ b = bk))
                \/ (p <> k /\ fs_find (r_fs s') j (cf_name f) = fs_find (r_fs s) j (cf_name f)
                    /\ fl_fixed (get_fl (r_flags s') (j, cf_name f)) = fl_fixed (get_fl (r_flags s) (j, cf_name f))
                    /\ fl_opened (get_fl (r_flags s') (j, cf_name f)) = fl_opened (get_fl (r_flags s) (j, cf_name f)))).
      { intros p j f i b Hs. destruct (slot_of c k j) as [|fk ik bk|h] eqn:Ek.
        - right. split; [intro X; subst p; rewrite Ek in Hs; discriminate Hs|]. apply (NN j (cf_name f)). intros f' i' b' X. rewrite Ek in X. discriminate X.
        - destruct (N.eq_dec (cf_name fk) (cf_name f)) as [En|En].
          + left. destruct (g_same bs c bm Hgeom k p j fk ik bk f i b Ek Hs En) as [Ef H1]. subst fk.
            destruct (g_same bs c bm Hgeom p k j f i b f ik bk Hs Ek eq_refl) as [_ H2].
            exists ik, bk. split; [reflexivity|]. split; [exact H2|]. split; [exact H1|]. intro X. subst p. rewrite Ek in Hs. injection Hs as Hi Hb. auto.
          + right. split; [intro X; subst p; rewrite Ek in Hs; injection Hs as X1 X2 X3; subst fk; apply En; reflexivity|].
            apply (NN j (cf_name f)). intros f' i' b' X. rewrite Ek in X. injection X as X1 X2 X3. subst f'. exact En.
        - right. split; [intro X; subst p; rewrite Ek in Hs; discriminate Hs|]. apply (NN j (cf_name f)). intros f' i' b' X. rewrite Ek in X. discriminate X. }
      constructor.
      - rewrite E. apply (rg_len k s I).
      - rewrite F2. apply (rg_parlen k s I).
      - rewrite C. apply (rg_unrec k s I).
      - intro key. rewrite (D key). apply (rg_dam k s I).
      - intros p j f i b Hs. destruct (rg_files k s I p j f i b Hs) as [Rlt Rge].
        destruct (g_wf bs c bm Hgeom p j f i b Hs) as [Hl Hw].
        pose proof (idx_lt_nblocks bs (cf_size f) i Hl Hw) as Hin.
        destruct (Hcase p j f i b Hs) as [[ik [bk [Ek [Hlt [Hgt Heq]]]]]|[Hpk [Efs _]]].
        + (* the file has a block in this stripe *)
          destruct (SS j f ik bk Ek) as [S1 [S2 [S3 _]]].
          destruct (A j f ik bk Ek) as [g [Hg [Hn [Hs1 Hs2]]]].
          destruct (g_wf bs c bm Hgeom k j f ik bk Ek) as [Hlk Hwk].
          pose proof (block_len_le bs (cf_size f) ik) as Hbl.
          pose proof (fsz_some _ _ _ _ Hg) as Hz. split.
          * intro Hp. destruct (Nat.eq_dec p k) as [Epk|Epk].
            -- destruct (Heq Epk) as [X1 X2]. subst ik bk. subst p.
               rewrite (fblk_some _ _ _ _ _ Hg), Hz. auto.
            -- assert (Hpk : p < k) by lia. destruct (Rlt Hpk) as [R1 [R2 R3]].
               rewrite S1 by (try exact Hin; specialize (Hlt Hpk); lia). split; [exact R1|]. split; lia.
          * intro Hp. assert (Hkp : k < p) by lia. specialize (Hgt Hkp). destruct (Rge ltac:(lia)) as [R1 R2].
            rewrite S1 by (try exact Hin; lia). split; [exact R1|]. rewrite <- R2.
            assert (Hoff : (N.of_nat ik * bs + block_len bs (cf_size f) ik <= N.of_nat i * bs)%N) by nia.
            split; intro X; lia.
        + unfold fsz, fblk. rewrite Efs. fold (fsz (r_fs s) j (cf_name f)). fold (fblk (r_fs s) j (cf_name f) i). split.
          * intro Hp. apply Rlt. lia.
          * intro Hp. apply Rge. lia.
      - (* larger than recorded: never opened *)
        intros p j f i b Hs Hgr.
        destruct (Hcase p j f i b Hs) as [[ik [bk [Ek _]]]|[_ [Efs [_ Eop]]]].
        + exfalso. destruct (A j f ik bk Ek) as [g [Hg [_ [_ Hs2]]]]. rewrite (fsz_some _ _ _ _ Hg) in Hgr. lia.
        + rewrite Eop. apply (rg_grown k s I p j f i b Hs). unfold fsz in *. rewrite <- Efs. exact Hgr.
      - intros p l. destruct (rg_par k s I p l) as [R1 R2]. split.
        + intros Hp Hl. destruct (Nat.eq_dec p k) as [Epk|Epk]; [subst p; apply B; exact Hl|].
          unfold prow. rewrite (F1 l p Epk). apply R1; [lia | exact Hl].
        + intro Hp. rewrite (F1 l p ltac:(lia)). apply R2. lia.
      - (* never FIXED: untouched *)
        intros p j f i b Hs Hnf.
        destruct (Hcase p j f i b Hs) as [[ik [bk [Ek _]]]|[_ [Efs [Efx _]]]].
        + destruct (SS j f ik bk Ek) as [_ [_ [_ [S4 [S5 _]]]]]. rewrite Hnf in S4. symmetry in S4.
          apply orb_false_iff in S4. destruct S4 as [S4 Sb]. apply orb_false_iff in S4. destruct S4 as [Sf Sg].
          rewrite (S5 Sb Sg Sf). apply (rg_nofix k s I p j f i b Hs Sf).
        + rewrite Efs. apply (rg_nofix k s I p j f i b Hs). rewrite <- Efx. exact Hnf.
      - (* FIXED and past the last block: the recorded time-stamp *)
        intros p j f i b Hs Hu Hl Hp Hfx.
        destruct (Hcase p j f i b Hs) as [[ik [bk [Ek [Hlt [_ Heq]]]]]|[Hpk [Efs [Efx _]]]].
        + destruct (Nat.eq_dec p k) as [Epk|Epk].
          * destruct (Heq Epk) as [X1 X2]. subst ik bk. destruct (SS j f i b Ek) as [_ [_ [_ [_ [_ S6]]]]]. apply (S6 Hu Hl Hfx).
          * exfalso. pose proof (g_idx bs c bm Hgeom k j f ik bk Ek). specialize (Hlt ltac:(lia)). lia.
        + rewrite Efs. rewrite Efx in Hfx. apply (rg_stamp k s I p j f i b Hs Hu Hl ltac:(lia) Hfx).
    Qed.

    Lemma rinvG_loop : forall k, k <= bm ->
      rinvG k (fold_left (fun s pos => if block_enabled nlev o c pos then stripe_step o c fs0 s pos else s) (seq 0 k) s0).
    Proof.
      induction k as [|k IH]; intro Hk; [apply rinvG_0|].
      rewrite seq_S, fold_left_app. cbn [fold_left plus].
      rewrite (block_enabled_plain nlev o c k Hplain (Hsyn k ltac:(lia))). apply rinvG_step; [apply IH; lia | lia].
    Qed.

    (* ---- the empty files, links and dirs ---------------------------------------------------------------------------- *)
    Lemma rinvG_obj s ob :
      rinvG bm s ->
      (forall p f i b, slot_of c p (ob_disk ob) = SFile f i b -> cf_name f <> ob_name ob) ->
      (ob_kind ob = KHard -> exists p f i b, slot_of c p (ob_disk ob) = SFile f i b /\ cf_name f = ob_to ob) ->
      rinvG bm (obj_step newino now o c s ob) /\ r_flags (obj_step newino now o c s ob) = r_flags s.
    Proof.
      intros I Hnames Hhard. destruct (obj_step_frame newino now o c Hfix s ob) as [F1 [F2 [F3 [F4 F5]]]].
      set (s' := obj_step newino now o c s ob) in *. split; [|exact F2].
      assert (Efs : forall p j f i b, slot_of c p j = SFile f i b -> fs_find (r_fs s') j (cf_name f) = fs_find (r_fs s) j (cf_name f)).
      { intros p j f i b Hs. apply F4. intro X. injection X as X1 X2. subst j. apply (Hnames p f i b Hs). exact X2. }
      constructor.
      - rewrite F3. apply (rg_len bm s I).
      - rewrite F1. apply (rg_parlen bm s I).
      - rewrite F5; [apply (rg_unrec bm s I)|]. intro Hk. destruct (Hhard Hk) as [p [f [i [b [Hs En]]]]].
        destruct (rg_files bm s I p (ob_disk ob) f i b Hs) as [Hlt _].
        destruct (Hlt (g_bm bs c bm Hgeom p _ f i b Hs)) as [_ [Hsz _]].
        destruct (g_wf bs c bm Hgeom p _ f i b Hs) as [Hl _].
        unfold fsz in Hsz. rewrite En in Hsz. destruct (fs_find (r_fs s) (ob_disk ob) (ob_to ob)); [discriminate | lia].
      - intro key. rewrite F2. apply (rg_dam bm s I).
      - intros p j f i b Hs. unfold fsz, fblk. rewrite (Efs p j f i b Hs). apply (rg_files bm s I p j f i b Hs).
      - intros p j f i b Hs. unfold fsz. rewrite F2, (Efs p j f i b Hs). apply (rg_grown bm s I p j f i b Hs).
      - intros p l. rewrite F1. apply (rg_par bm s I).
      - intros p j f i b Hs. rewrite F2, (Efs p j f i b Hs). apply (rg_nofix bm s I p j f i b Hs).
      - intros p j f i b Hs. rewrite F2, (Efs p j f i b Hs). apply (rg_stamp bm s I p j f i b Hs).
    Qed.

    Variable objs : list obj.
    Hypothesis Hobj_names : forall ob p f i b, In ob objs -> slot_of c p (ob_disk ob) = SFile f i b -> cf_name f <> ob_name ob.
    Hypothesis Hobj_hard : forall ob, In ob objs -> ob_kind ob = KHard ->
                                      exists p f i b, slot_of c p (ob_disk ob) = SFile f i b /\ cf_name f = ob_to ob.

    Lemma rinvG_objs : forall l s, incl l objs -> rinvG bm s ->
      rinvG bm (fold_left (obj_step newino now o c) l s) /\ r_flags (fold_left (obj_step newino now o c) l s) = r_flags s.
    Proof.
      induction l as [|ob t IH]; intros s Hin I; [split; [exact I | reflexivity]|]. cbn [fold_left].
      assert (Hob : In ob objs) by (apply Hin; left; reflexivity).
      destruct (rinvG_obj s ob I (fun p f i b => Hobj_names ob p f i b Hob) (Hobj_hard ob Hob)) as [I' E'].
      destruct (IH _ (fun x Hx => Hin x (or_intror Hx)) I') as [I'' E'']. split; [exact I'' | congruence].
    Qed.

    Lemma rinvG_restored s : rinvG bm s -> restored nlev c bm vs (r_fs s) (r_par s).
    Proof.
      intro I. split; [apply (rg_len bm s I)|]. split.
      - intros p j f i b Hs. destruct (rg_files bm s I p j f i b Hs) as [Hlt _].
        destruct (Hlt (g_bm bs c bm Hgeom p j f i b Hs)) as [Hb [Hsz Hz]].
        destruct (g_wf bs c bm Hgeom p j f i b Hs) as [Hl _].
        destruct (g_last bs c bm Hgeom p j f i b Hs) as [p' [i' [b' [Hs' [_ Hend]]]]].
        destruct (rg_files bm s I p' j f i' b' Hs') as [Hlt' _].
        destruct (Hlt' (g_bm bs c bm Hgeom p' j f i' b' Hs')) as [_ [Hsz' _]].
        unfold fsz, fblk in *. destruct (fs_find (r_fs s) j (cf_name f)) as [g|]; [|lia].
        exists g. repeat split; auto. lia.
      - intros p l Hp Hl. apply (rg_par bm s I p l); assumption.
    Qed.

    Hypothesis Hbm : c_blockmax c = bm.

    Lemma fix_run_rinvG :
      let out := check_run hashf padz truncf bs nlev reduced newino now o c par fs0 objs (seq 0 bm) in
      rinvG bm (out_st out) /\ out_fail out = negb (Nat.eqb (r_unrec (out_st out)) 0).
    Proof.
      cbn zeta. rewrite (check_run_unfold hashf padz truncf bs nlev reduced newino now o c par fs0 objs bm Hbm). cbv zeta. fold s0.
      pose proof (rinvG_loop bm (le_n bm)) as I1.
      pose proof (finv_loop hashf padz truncf bs nlev reduced newino now o c bm fs0 par Hplain Hfix Hsyn Hgeom Hlen Hparlen bm (le_n bm)) as J1.
      fold s0 in J1.
      set (s1 := fold_left (fun s pos => if block_enabled nlev o c pos then stripe_step o c fs0 s pos else s) (seq 0 bm) s0) in *.
      destruct (rinvG_objs objs s1 (fun x H => H) I1) as [I2 E2].
      set (s2 := fold_left (obj_step newino now o c) objs s1) in *.
      assert (Ec : cleanup o s2 = s2).
      { apply cleanup_noop. intros k f Hin. rewrite E2 in Hin. destruct J1 as [Hnd Hcr].
        pose proof (get_fl_in (r_flags s1) k f Hnd Hin) as Eg.
        destruct (fl_created f) eqn:Ecr; [|reflexivity]. cbn [andb].
        destruct (Hcr k ltac:(rewrite Eg; exact Ecr)) as [Hf|[p [j [f' [i [b [Hp [Hs _]]]]]]]].
        - rewrite Eg in Hf. rewrite Hf. reflexivity.
        - pose proof (g_bm bs c bm Hgeom p j f' i b Hs). lia. }
      rewrite Ec. cbn [out_st out_fail]. rewrite Hfix. split; [exact I2 | reflexivity].
    Qed.

    (* C01 for the whole run, files larger than recorded allowed *)
    Theorem fix_run_restores_grown :
      let out := check_run hashf padz truncf bs nlev reduced newino now o c par fs0 objs (seq 0 bm) in
      restored nlev c bm vs (r_fs (out_st out)) (r_par (out_st out))
      /\ out_fail out = false
      /\ r_unrec (out_st out) = 0
      /\ (forall key, fl_damaged (get_fl (r_flags (out_st out)) key) = false)
      /\ length (r_par (out_st out)) = length par.
    Proof.
      cbn zeta. destruct fix_run_rinvG as [I Ef]. cbn zeta in I, Ef.
      set (out := check_run hashf padz truncf bs nlev reduced newino now o c par fs0 objs (seq 0 bm)) in *.
      split; [apply rinvG_restored; exact I|]. rewrite Ef, (rg_unrec bm _ I). split; [reflexivity|]. split; [reflexivity|].
      split; [apply (rg_dam bm _ I) | apply (rg_parlen bm _ I)].
    Qed.

    (* the time-stamps: after the run every file with blocks is either exactly the file it was before the run (never written, not
       larger than recorded) or carries its recorded time-stamp; a file that was larger than recorded carries its recorded time-stamp *)
    Theorem fix_run_stamps_grown :
      let out := check_run hashf padz truncf bs nlev reduced newino now o c par fs0 objs (seq 0 bm) in
      forall p j f i b, slot_of c p j = SFile f i b -> uniq_stamp c j f ->
        exists g, fs_find (r_fs (out_st out)) j (cf_name f) = Some g /\ ff_size g = cf_size f
                  /\ ((ff_mtime g = cf_mtime f /\ ff_nsec g = cf_nsec f) \/ fs_find fs0 j (cf_name f) = Some g).
    Proof.
      cbn zeta. intros p j f i b Hs Hu. destruct fix_run_rinvG as [I _]. cbn zeta in I.
      set (s2 := out_st (check_run hashf padz truncf bs nlev reduced newino now o c par fs0 objs (seq 0 bm))) in *.
      destruct (rinvG_restored s2 I) as [_ [Hfiles _]]. destruct (Hfiles p j f i b Hs) as [g [Hg [Hsz _]]].
      destruct (fl_fixed (get_fl (r_flags s2) (j, cf_name f))) eqn:Efx.
      - destruct (g_last bs c bm Hgeom p j f i b Hs) as [p' [i' [b' [Hs' [Hl _]]]]].
        destruct (rg_stamp bm s2 I p' j f i' b' Hs' Hu Hl (g_bm bs c bm Hgeom p' j f i' b' Hs') Efx) as [g' [Hg' [H1 H2]]].
        rewrite Hg in Hg'. injection Hg' as Hg'. subst g'.
        exists g. split; [exact Hg|]. split; [exact Hsz | left; split; assumption].
      - exists g. split; [exact Hg|]. split; [exact Hsz | right]. rewrite <- (rg_nofix bm s2 I p j f i b Hs Efx). exact Hg.
    Qed.

    (* a file that WAS larger than recorded: recorded size and, when no other file of the disk has its size and time-stamp,
       recorded time-stamp *)
    Theorem fix_run_grown_file :
      let out := check_run hashf padz truncf bs nlev reduced newino now o c par fs0 objs (seq 0 bm) in
      forall p j f i b g0, slot_of c p j = SFile f i b -> fs_find fs0 j (cf_name f) = Some g0 -> (cf_size f < ff_size g0)%N ->
        exists g, fs_find (r_fs (out_st out)) j (cf_name f) = Some g /\ ff_size g = cf_size f
                  /\ (forall p' i' b', slot_of c p' j = SFile f i' b' -> nth i' (ff_blocks g) 0%N = vnth (vs p') j)
                  /\ (uniq_stamp c j f -> ff_mtime g = cf_mtime f /\ ff_nsec g = cf_nsec f).
    Proof.
      cbn zeta. intros p j f i b g0 Hs Hg0 Hgr. destruct fix_run_restores_grown as [[_ [Hfiles _]] _]. cbn zeta in Hfiles.
      destruct (Hfiles p j f i b Hs) as [g [Hg [Hsz _]]]. exists g. split; [exact Hg|]. split; [exact Hsz|]. split.
      - intros p' i' b' Hs'. destruct (Hfiles p' j f i' b' Hs') as [g' [Hg' [_ Hb]]]. rewrite Hg in Hg'. injection Hg' as Hg'. subst g'. exact Hb.
      - intro Hu. destruct (fix_run_stamps_grown p j f i b Hs Hu) as [g' [Hg' [_ [Hst|Hsame]]]]; rewrite Hg in Hg'; injection Hg' as Hg'; subst g'; [exact Hst|].
        exfalso. rewrite Hg0 in Hsame. injection Hsame as Hsame. subst g0. lia.
    Qed.

    (* ---- the empty files and the hard links are in order after the run ------------------------------------------------ *)
    Hypothesis Hobj_disk : forall ob, In ob objs -> ob_disk ob < length (c_disks c).
    Hypothesis Hobj_nd : NoDup (map okey objs).

    Lemma obj_step_makes_goodG s ob :
      rinvG bm s -> In ob objs -> ob_kind ob = KEmpty \/ ob_kind ob = KHard -> obj_good (r_fs (obj_step newino now o c s ob)) ob.
    Proof.
      intros I Hin Hk. unfold obj_good. destruct (ob_excl ob) eqn:Ex; [left; reflexivity | right].
      assert (Hj : ob_disk ob < length (r_fs s)) by (rewrite (rg_len bm s I); apply Hobj_disk; exact Hin).
      unfold obj_step. rewrite Ex. destruct (ob_kind ob) eqn:Ek; try (destruct Hk; discriminate).
      - (* empty file *)
        destruct (fs_find (r_fs s) (ob_disk ob) (ob_name ob)) as [g|] eqn:Eg.
        + destruct (N.eqb (ff_size g) 0) eqn:Ez; cbn [negb].
          * exists g. split; [exact Eg | apply N.eqb_eq; exact Ez].
          * rewrite Hfix. destruct (find_cfile c (ob_disk ob) (ob_name ob)); cbn [r_fs rs_recov rs_tag rs_setfs rs_err];
              (eexists; split; [apply fs_find_put_mk; exact Hj | reflexivity]).
        + cbn [negb]. rewrite Hfix. destruct (find_cfile c (ob_disk ob) (ob_name ob)); cbn [r_fs rs_recov rs_tag rs_setfs rs_err];
            (eexists; split; [apply fs_find_put_mk; exact Hj | reflexivity]).
      - (* hard link *)
        destruct (Hobj_hard ob Hin Ek) as [p [f [i [b [Hs En]]]]].
        assert (Hto : exists t, fs_find (r_fs s) (ob_disk ob) (ob_to ob) = Some t).
        { destruct (rg_files bm s I p (ob_disk ob) f i b Hs) as [Hlt _].
          destruct (Hlt (g_bm bs c bm Hgeom p _ f i b Hs)) as [_ [Hsz _]].
          destruct (g_wf bs c bm Hgeom p _ f i b Hs) as [Hl _].
          unfold fsz in Hsz. rewrite En in Hsz. destruct (fs_find (r_fs s) (ob_disk ob) (ob_to ob)) as [t|]; [exists t; reflexivity | lia]. }
        destruct Hto as [t Ht]. rewrite Ht, Hfix.
        assert (Hne : (ob_disk ob, ob_to ob) <> (ob_disk ob, ob_name ob)).
        { intro X. injection X as X. apply (Hobj_names ob p f i b Hin Hs). congruence. }
        destruct (fs_find (r_fs s) (ob_disk ob) (ob_name ob)) as [l|] eqn:El.
        + destruct (N.eqb (ff_inode l) (ff_inode t)) eqn:Ei; cbn [negb andb].
          * exists l, t. split; [exact El|]. split; [exact Ht | apply N.eqb_eq; exact Ei].
          * cbn [r_fs rs_recov rs_tag rs_setfs rs_err]. eexists. exists t.
            split; [apply fs_find_put_mk; exact Hj|]. split; [|reflexivity].
            rewrite fs_find_put_other; [exact Ht | exact Hne].
        + cbn [negb andb r_fs rs_recov rs_tag rs_setfs rs_err]. eexists. exists t.
          split; [apply fs_find_put_mk; exact Hj|]. split; [|reflexivity].
          rewrite fs_find_put_other; [exact Ht | exact Hne].
    Qed.

    Lemma objs_fold_goodG : forall l s, incl l objs -> NoDup (map okey l) -> rinvG bm s ->
      forall ob, In ob l -> ob_kind ob = KEmpty \/ ob_kind ob = KHard -> obj_good (r_fs (fold_left (obj_step newino now o c) l s)) ob.
    Proof.
      induction l as [|ob0 t IH]; intros s Hin Hnd I ob Hob Hk; [contradiction|]. cbn [fold_left].
      cbn [map] in Hnd. apply NoDup_cons_iff in Hnd. destruct Hnd as [Hnin Hnd].
      assert (Hob0 : In ob0 objs) by (apply Hin; left; reflexivity).
      destruct (rinvG_obj s ob0 I (fun p f i b => Hobj_names ob0 p f i b Hob0) (Hobj_hard ob0 Hob0)) as [I' _].
      destruct Hob as [E|Hob]; [subst ob0 | apply (IH _ (fun x Hx => Hin x (or_intror Hx)) Hnd I' ob Hob Hk)].
      pose proof (obj_step_makes_goodG s ob I Hob0 Hk) as G.
      set (s1 := obj_step newino now o c s ob) in *.
      assert (Hnm : fs_find (r_fs (fold_left (obj_step newino now o c) t s1)) (ob_disk ob) (ob_name ob) = fs_find (r_fs s1) (ob_disk ob) (ob_name ob)).
      { apply (objs_fold_other newino now o c Hfix). intros ob' Hin' X. apply Hnin. rewrite in_map_iff. exists ob'. split; [symmetry; exact X | exact Hin']. }
      destruct G as [G|G]; [left; exact G | right]. destruct Hk as [Hk|Hk]; rewrite Hk in *.
      - rewrite Hnm. exact G.
      - rewrite Hnm.
        assert (Hto : fs_find (r_fs (fold_left (obj_step newino now o c) t s1)) (ob_disk ob) (ob_to ob) = fs_find (r_fs s1) (ob_disk ob) (ob_to ob)).
        { apply (objs_fold_other newino now o c Hfix). intros ob' Hin' X. unfold okey in X. injection X as X1 X2.
          destruct (Hobj_hard ob Hob0 Hk) as [p [f [i [b [Hs En]]]]].
          apply (Hobj_names ob' p f i b (Hin ob' (or_intror Hin'))); [rewrite <- X1; exact Hs | congruence]. }
        rewrite Hto. exact G.
    Qed.

    Theorem fix_run_objects_grown :
      let out := check_run hashf padz truncf bs nlev reduced newino now o c par fs0 objs (seq 0 bm) in
      forall ob, In ob objs -> ob_kind ob = KEmpty \/ ob_kind ob = KHard -> obj_good (r_fs (out_st out)) ob.
    Proof.
      cbn zeta. rewrite (check_run_unfold hashf padz truncf bs nlev reduced newino now o c par fs0 objs bm Hbm). cbv zeta. fold s0.
      pose proof (rinvG_loop bm (le_n bm)) as I1.
      pose proof (finv_loop hashf padz truncf bs nlev reduced newino now o c bm fs0 par Hplain Hfix Hsyn Hgeom Hlen Hparlen bm (le_n bm)) as J1.
      fold s0 in J1.
      set (s1 := fold_left (fun s pos => if block_enabled nlev o c pos then stripe_step o c fs0 s pos else s) (seq 0 bm) s0) in *.
      destruct (rinvG_objs objs s1 (fun x H => H) I1) as [I2 E2].
      pose proof (objs_fold_goodG objs s1 (fun x H => H) Hobj_nd I1) as G.
      set (s2 := fold_left (obj_step newino now o c) objs s1) in *.
      assert (Ec : cleanup o s2 = s2).
      { apply cleanup_noop. intros k f Hin. rewrite E2 in Hin. destruct J1 as [Hnd Hcr].
        pose proof (get_fl_in (r_flags s1) k f Hnd Hin) as Eg.
        destruct (fl_created f) eqn:Ecr; [|reflexivity]. cbn [andb].
        destruct (Hcr k ltac:(rewrite Eg; exact Ecr)) as [Hf|[p [j [f' [i [b [Hp [Hs _]]]]]]]].
        - rewrite Eg in Hf. rewrite Hf. reflexivity.
        - pose proof (g_bm bs c bm Hgeom p j f' i b Hs). lia. }
      rewrite Ec. cbn [out_st]. exact G.
    Qed.
  End FixLoopG.
End Grown.

(* ---------------------------------------------------------------------------------------------------------- *)
(* the statements, with the side conditions gathered in the records of RunProofs.v; `no_larger` is gone          *)
(* ---------------------------------------------------------------------------------------------------------- *)
Section StatementsG.
  Variable hashf : bid -> N -> hval.
  Variable padz : bid -> N -> bool.
  Variable truncf : bid -> N -> bid.
  Variable bs : N.
  Variable nlev : nat.
  Variable reduced : bool.
  Variable newino : nat -> N -> N.
  Variable now : Z.
  Notation check_run := (check_run hashf padz truncf bs nlev reduced newino now).

  Theorem run_fix_restores_grown o c bm fs par vs objs :
    plain nlev o -> co_fix o = true -> synced_array hashf padz bs c bm vs ->
    length fs = length (c_disks c) -> nlev <= length par ->
    recoverable hashf padz bs nlev (co_nosearch o) c bm fs par vs -> objs_ok c objs ->
    let out := check_run o c par fs objs (seq 0 bm) in
    restored nlev c bm vs (r_fs (out_st out)) (r_par (out_st out))
    /\ out_fail out = false /\ r_unrec (out_st out) = 0
    /\ (forall key, fl_damaged (get_fl (r_flags (out_st out)) key) = false)
    /\ length (r_par (out_st out)) = length par.
  Proof.
    intros Hp Hf [S1 S2 S3 S4 S5] Hl Hpl [R1 R2 R3 Rv R4 R5] [O1 O2].
    exact (fix_run_restores_grown hashf padz truncf bs nlev reduced newino now o c bm fs par vs Hp Hf S2 S3 Hl Hpl S4 S5 R1 R2 R3 Rv R4 R5 objs O1 O2 S1).
  Qed.

  Theorem run_fix_stamps_grown o c bm fs par vs objs :
    plain nlev o -> co_fix o = true -> synced_array hashf padz bs c bm vs ->
    length fs = length (c_disks c) -> nlev <= length par ->
    recoverable hashf padz bs nlev (co_nosearch o) c bm fs par vs -> objs_ok c objs ->
    let out := check_run o c par fs objs (seq 0 bm) in
    forall p j f i b, slot_of c p j = SFile f i b -> uniq_stamp c j f ->
      exists g, fs_find (r_fs (out_st out)) j (cf_name f) = Some g /\ ff_size g = cf_size f
                /\ ((ff_mtime g = cf_mtime f /\ ff_nsec g = cf_nsec f) \/ fs_find fs j (cf_name f) = Some g).
  Proof.
    intros Hp Hf [S1 S2 S3 S4 S5] Hl Hpl [R1 R2 R3 Rv R4 R5] [O1 O2].
    exact (fix_run_stamps_grown hashf padz truncf bs nlev reduced newino now o c bm fs par vs Hp Hf S2 S3 Hl Hpl S4 S5 R1 R2 R3 Rv R4 R5 objs O1 O2 S1).
  Qed.

  Theorem run_fix_grown_file o c bm fs par vs objs :
    plain nlev o -> co_fix o = true -> synced_array hashf padz bs c bm vs ->
    length fs = length (c_disks c) -> nlev <= length par ->
    recoverable hashf padz bs nlev (co_nosearch o) c bm fs par vs -> objs_ok c objs ->
    let out := check_run o c par fs objs (seq 0 bm) in
    forall p j f i b g0, slot_of c p j = SFile f i b -> fs_find fs j (cf_name f) = Some g0 -> (cf_size f < ff_size g0)%N ->
      exists g, fs_find (r_fs (out_st out)) j (cf_name f) = Some g /\ ff_size g = cf_size f
                /\ (forall p' i' b', slot_of c p' j = SFile f i' b' -> nth i' (ff_blocks g) 0%N = vnth (vs p') j)
                /\ (uniq_stamp c j f -> ff_mtime g = cf_mtime f /\ ff_nsec g = cf_nsec f).
  Proof.
    intros Hp Hf [S1 S2 S3 S4 S5] Hl Hpl [R1 R2 R3 Rv R4 R5] [O1 O2].
    exact (fix_run_grown_file hashf padz truncf bs nlev reduced newino now o c bm fs par vs Hp Hf S2 S3 Hl Hpl S4 S5 R1 R2 R3 Rv R4 R5 objs O1 O2 S1).
  Qed.

  Theorem run_fix_objects_grown o c bm fs par vs objs :
    plain nlev o -> co_fix o = true -> synced_array hashf padz bs c bm vs ->
    length fs = length (c_disks c) -> nlev <= length par ->
    recoverable hashf padz bs nlev (co_nosearch o) c bm fs par vs -> objs_ok c objs ->
    (forall ob, In ob objs -> ob_disk ob < length (c_disks c)) -> NoDup (map okey objs) ->
    let out := check_run o c par fs objs (seq 0 bm) in
    forall ob, In ob objs -> ob_kind ob = KEmpty \/ ob_kind ob = KHard -> obj_good (r_fs (out_st out)) ob.
  Proof.
    intros Hp Hf [S1 S2 S3 S4 S5] Hl Hpl [R1 R2 R3 Rv R4 R5] [O1 O2] Hd Hnd.
    exact (fix_run_objects_grown hashf padz truncf bs nlev reduced newino now o c bm fs par vs Hp Hf S2 S3 Hl Hpl S4 S5 R1 R2 R3 Rv R4 R5 objs O1 O2 S1 Hd Hnd).
  Qed.

  Theorem run_fix_grown_then_check_quiet o o' c bm fs par vs objs objs' :
    plain nlev o -> co_fix o = true -> synced_array hashf padz bs c bm vs ->
    length fs = length (c_disks c) -> nlev <= length par ->
    recoverable hashf padz bs nlev (co_nosearch o) c bm fs par vs -> objs_ok c objs ->
    plain nlev o' -> co_fix o' = false ->
    let out := check_run o c par fs objs (seq 0 bm) in
    (forall ob, In ob objs' -> obj_good (r_fs (out_st out)) ob) ->
    let out' := check_run o' c (r_par (out_st out)) (r_fs (out_st out)) objs' (seq 0 bm) in
    r_tags (out_st out') = [] /\ r_err (out_st out') = 0 /\ r_unrec (out_st out') = 0 /\ out_fail out' = false
    /\ r_fs (out_st out') = r_fs (out_st out) /\ r_par (out_st out') = r_par (out_st out).
  Proof.
    intros Hp Hf Hs Hl Hpl Hr Ho Hp' Hc'. cbn zeta. intro Hg.
    destruct (run_fix_restores_grown o c bm fs par vs objs Hp Hf Hs Hl Hpl Hr Ho) as [Hres _].
    exact (run_check_quiet hashf padz truncf bs nlev reduced newino now o' c bm _ _ vs objs' Hp' Hc' Hs Hres Hg).
  Qed.
End StatementsG.
