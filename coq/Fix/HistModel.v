(* Histories for C05: a minimal model of the scan step (cmdline/scan.c scan_file_allocate / scan_file_deallocate, as they
   run inside `sync`, i.e. with clear_past_hash set), the sync command (load with clear_past_hash, scan, the loop of
   coq/Array/SyncModel.v over the requested range, save with the normalisation of state_write), file-system changes,
   damage, and the judge of C05 (the version store).  Definitions only.

   Not modelled in the scan: copy detection (REP blocks), inode-only moves, links and dirs, the sort order of the
   insertions (they are inserted in the order of the file-system list, which the witness chooses). *)
From Coq Require Import NArith ZArith List Bool Arith.
From Snap.Array Require Import ArrayDefs SyncModel.
From Snap.Fix Require Import FixModel.
Import ListNotations.

Section Hist.
  Variable hashf : bid -> N -> hval.
  Variable padz : bid -> N -> bool.
  Variable truncf : bid -> N -> bid.
  Variable bs : N.
  Variable nlev : nat.
  Variable reduced : bool.

  (* ---- scan ------------------------------------------------------------------------------------------------ *)
  Definition same_file (f : cfile) (g : fsfile) : bool :=
    N.eqb (cf_size f) (ff_size g) && Z.eqb (cf_mtime f) (ff_mtime g) && Z.eqb (cf_nsec f) (ff_nsec g) && N.eqb (cf_inode f) (ff_inode g).
  Definition kept (fsd : fsdisk) (f : cfile) : bool :=
    match find_fs (cf_name f) fsd with Some g => same_file f g | None => false end.

  (* scan_file_deallocate: every block becomes DELETED; BLK keeps its hash, CHG keeps what it has (inside sync the past
     hashes were already cleared at load), REP gets INVALID *)
  Definition dealloc (d : cdisk) (f : cfile) : cdisk :=
    mkCD (filter (fun x => negb (N.eqb (cf_name x) (cf_name f))) (cd_files d))
         (cd_deleted d ++ map (fun b => (fb_pos b, match fb_state b with SRep => HInvalid | _ => fb_hash b end)) (cf_blocks f))
         (cd_links d) (cd_dirs d).

  Definition has_file_at (d : cdisk) (p : nat) : bool := match find_in_files p (cd_files d) with Some _ => true | None => false end.
  Definition disk_blocks (d : cdisk) : nat := fold_left (fun n f => (n + length (cf_blocks f))%nat) (cd_files d) 0%nat.

  (* scan_file_allocate: the first free positions; over EMPTY -> CHG with the ZERO hash, over DELETED -> CHG with the past
     hash of the deleted block (kept because clear_past_hash is set inside sync) *)
  Definition alloc (d : cdisk) (g : fsfile) : cdisk :=
    let n := nblocks bs (ff_size g) in
    let free := firstn n (filter (fun p => negb (has_file_at d p)) (seq 0 (disk_blocks d + n + length (cd_deleted d) + fold_left (fun m ph => Nat.max m (S (fst ph))) (cd_deleted d) 0%nat))) in
    let blocks := map (fun p => mkFB SChg p (match find_deleted p (cd_deleted d) with Some h => h | None => HZero end)) free in
    mkCD (cd_files d ++ [mkCF (ff_name g) (ff_size g) (ff_mtime g) (ff_nsec g) (ff_inode g) false blocks])
         (filter (fun ph => negb (existsb (Nat.eqb (fst ph)) free)) (cd_deleted d))
         (cd_links d) (cd_dirs d).

  Definition scan_disk (d : cdisk) (fsd : fsdisk) : cdisk :=
    let removed := filter (fun f => negb (kept fsd f)) (cd_files d) in
    let d1 := fold_left dealloc removed d in
    let added := filter (fun g => negb (existsb (fun f => N.eqb (cf_name f) (ff_name g)) (cd_files d1))) fsd in
    fold_left alloc added d1.

  Definition scan (c : content) (fs : list (option fsdisk)) : content :=
    mkC (map (fun dj => match fst dj, snd dj with
                        | Some d, Some fsd => Some (scan_disk d fsd)
                        | Some d, None => Some d
                        | None, Some fsd => Some (scan_disk (mkCD [] [] [] []) fsd)
                        | None, None => None end)
             (combine (c_disks c ++ repeat None (length fs - length (c_disks c))) (fs ++ repeat None (length (c_disks c) - length fs))))
        (c_info c) (c_blockmax c).

  (* ---- the state of a history ------------------------------------------------------------------------------- *)
  Record version := mkV { v_disk : nat; v_name : N; v_size : N; v_mtime : Z; v_nsec : Z; v_blocks : list bid }.
  Record hstate := mkH { h_c : content; h_par : parity; h_fs : list (option fsdisk); h_vers : list version; h_out : option outcome }.

  Inductive hop :=
  | HWrite (j : nat) (g : fsfile)                    (* create or replace a file behind the tool's back: a new version *)
  | HRemove (j : nat) (name : N)                     (* the user removes a file *)
  | HSync (start count : nat) (faults : list (nat * nat * rd))   (* sync -S start -B count (count 0 = to the end) with read faults (pos, disk, outcome) *)
  | HLose (j : nat) (name : N)                       (* damage: the file is lost *)
  | HParJunk (l pos : nat) (t : N)                   (* damage: a parity block gets other content *)
  | HFix (fdisks : option (list nat)) (fnames : option (list fkey)) (fmissing ferror : bool).

  Definition fs_put' (fs : list (option fsdisk)) (j : nat) (g : fsfile) : list (option fsdisk) :=
    let fs' := fs ++ repeat None (S j - length fs) in
    mapi (fun k od => if Nat.eqb k j
                      then Some (match od with Some d => filter (fun x => negb (N.eqb (ff_name x) (ff_name g))) d | None => [] end ++ [g])
                      else od) fs'.

  Definition faults_of (l : list (nat * nat * rd)) (pos : nat) : list (option rd) :=
    let mine := filter (fun x => Nat.eqb (fst (fst x)) pos) l in
    let n := fold_left (fun m x => Nat.max m (S (snd (fst x)))) mine 0%nat in
    map (fun d => match find (fun x => Nat.eqb (snd (fst x)) d) mine with Some x => Some (snd x) | None => None end) (seq 0 n).

  Definition grow_parity (par : parity) (n : nat) : parity :=
    map (fun lv => lv ++ repeat (PEnc []) (n - length lv)) par.     (* parity_chsize grows the files with zeros = encoding of nothing *)

  Definition hstep (newino : nat -> N -> N) (now : Z) (s : hstate) (op : hop) : hstate :=
    match op with
    | HWrite j g => mkH (h_c s) (h_par s) (fs_put' (h_fs s) j g) (h_vers s ++ [mkV j (ff_name g) (ff_size g) (ff_mtime g) (ff_nsec g) (ff_blocks g)]) (h_out s)
    | HRemove j name | HLose j name => mkH (h_c s) (h_par s) (fs_del (h_fs s) j name) (h_vers s) (h_out s)
    | HParJunk l pos t => mkH (h_c s) (mapi (fun k lv => if Nat.eqb k l then set_ext PNone pos (PJunk t) lv else lv) (h_par s)) (h_fs s) (h_vers s) (h_out s)
    | HSync start count faults =>
        let c1 := scan (clear_past (h_c s)) (h_fs s) in
        let bm := allocated_size c1 in
        let mx := if Nat.eqb count 0 then bm else Nat.min bm (start + count) in
        let par1 := grow_parity (h_par s) bm in
        let r := sync_loop hashf bs nlev (mkSO false false 100) 0%N (h_fs s) (faults_of faults) (seq start (mx - start)) None c1 par1 0 0 0 in
        mkH (save_normalise (ro_content r)) (ro_parity r) (h_fs s) (h_vers s) (h_out s)
    | HFix fd fn fm fe =>
        let c := h_c s in
        let excl := filter_files fd fn fm fe c (h_fs s) in
        let pex := filter_parity fd fn fm in
        let o := mkCO true false fe fe false excl (repeat true nlev) (repeat pex nlev) in
        let r := check_run hashf padz truncf bs nlev reduced newino now o c (h_par s) (h_fs s) [] (seq 0 (c_blockmax c)) in
        mkH c (r_par (out_st r)) (r_fs (out_st r)) (h_vers s) (Some r)
    end.

  Definition h0 (ndisk : nat) : hstate := mkH (mkC (repeat (Some (mkCD [] [] [] [])) ndisk) [] 0) (repeat [] nlev) (repeat (Some []) ndisk) [] None.
  Definition run_hist (newino : nat -> N -> N) (now : Z) (ndisk : nat) (ops : list hop) : hstate := fold_left (hstep newino now) ops (h0 ndisk).

  (* ---- the judge of C05 -------------------------------------------------------------------------------------- *)
  (* the recorded version of a file named in the content file: the stored version with its name, size and time-stamp *)
  Definition recorded_version (vers : list version) (j : nat) (f : cfile) : option version :=
    find (fun v => Nat.eqb (v_disk v) j && N.eqb (v_name v) (cf_name f) && N.eqb (v_size v) (cf_size f)
                   && Z.eqb (v_mtime v) (cf_mtime f) && Z.eqb (v_nsec v) (cf_nsec f)) (rev vers).
  Definition blocks_eqb (a b : list bid) : bool := Nat.eqb (length a) (length b) && forallb (fun ab => N.eqb (fst ab) (snd ab)) (combine a b).
  (* the file is reported: status:unrecoverable for it and a failing exit status *)
  Definition reported (r : outcome) (j : nat) (name : N) : bool :=
    out_fail r && existsb (fun t => N.eqb (fst t) K_ST_UNREC && match snd t with [d; n] => N.eqb d (N.of_nat j) && N.eqb n name | _ => false end) (r_tags (out_st r)).
  (* after fix, the recorded file (j, f), selected by the filters, is fine: exactly the bytes of the recorded version, or reported *)
  Definition file_fine (s : hstate) (r : outcome) (j : nat) (f : cfile) : bool :=
    reported r j (cf_name f) ||
    match recorded_version (h_vers s) j f, fs_find (h_fs s) j (cf_name f) with
    | Some v, Some g => N.eqb (ff_size g) (v_size v) && blocks_eqb (ff_blocks g) (v_blocks v)
    | _, _ => false
    end.
  Definition all_fine (s : hstate) : bool :=
    match h_out s with
    | None => true
    | Some r =>
        forallb (fun jd => match snd jd with
                           | None => true
                           | Some d => forallb (file_fine s r (fst jd)) (cd_files d) end)
                (combine (seq 0 (length (c_disks (h_c s)))) (c_disks (h_c s)))
    end.
End Hist.
