(* C05, the positive part: under the invariant that repair silently relies on (PastHashInv: the past hash of a CHG block is
   the hash -- over the length now used -- of what the parity encoded at that position before the pending change; ZERO means
   that block was zero), with the full hash size, a rebuilt CHG block that repair accepts (not marked out-of-date, hence
   written and reported recovered) is never that old block. *)
From Coq Require Import NArith ZArith List Bool Arith Lia.
From Snap.Array Require Import ArrayDefs.
From Snap.Fix Require Import FixModel RepairProofs.
Import ListNotations.
Local Opaque JBASE.

Section Partial.
  Variable hashf : bid -> N -> hval.
  Variable padz : bid -> N -> bool.
  Variable bs : N.
  Variable nlev : nat.

  (* the invariant for one CHG entry: ob = the block the parity encoded at its position before the pending change *)
  Definition past_hash_inv (e : fent) (ob : bid) : Prop :=
    match fe_hash e with
    | HInvalid => True                                                   (* nothing is known (and nothing is accepted) *)
    | HZero => ob = 0%N                                                  (* "was filled with zeros" *)
    | HReal _ => blockcmp hashf padz bs (fe_hash e) (fe_len bs e) ob = true   (* hash of the old block over the length compared now *)
    end.

  Lemma chg_heuristic_fields pos buf e :
    let e' := fst (chg_heuristic hashf padz bs false pos buf e) in
    fe_bad e' = fe_bad e /\ fe_idx e' = fe_idx e /\ fe_state e' = fe_state e /\ fe_hash e' = fe_hash e /\ fe_file e' = fe_file e
    /\ (fe_ood e' = false -> fe_ood e = false).
  Proof.
    unfold chg_heuristic.
    repeat match goal with |- context [if ?c then _ else _] => destruct c end;
      cbn; repeat split; auto; try (intro X; discriminate X).
  Qed.

  (* an accepted bad CHG entry: the rebuilt block is not the old one *)
  Lemma chg_heuristic_rejects_old pos buf e ob :
    fe_bad e = true -> fe_is SChg e = true -> past_hash_inv e ob ->
    fe_ood (fst (chg_heuristic hashf padz bs false pos buf e)) = false ->
    vnth buf (fe_idx e) <> ob.
  Proof.
    intros Hb Hc Hinv Hood Heq. unfold chg_heuristic in Hood. rewrite Hb, Hc in Hood. cbn [andb] in Hood.
    unfold past_hash_inv in Hinv. unfold h_is_invalid, h_is_zero in Hood. cbn [negb andb] in Hood.
    destruct (fe_hash e) as [| |h] eqn:Eh.
    - (* ZERO *) subst ob. rewrite Heq in Hood. cbn in Hood. discriminate.
    - (* INVALID *) cbn in Hood. discriminate.
    - rewrite Heq, Hinv in Hood. cbn in Hood. discriminate.
  Qed.

  (* strategy 2 marks every block that is not BLK *)
  Definition s2mark (e : fent) : fent := match fe_state e with Some SBlk => e | _ => fe_set_ood e end.

  Lemma s2_fold : forall l fl fm b tr us,
    fst (fst (fst (fst (fold_left (fun (acc : list fent * list fent * list bid * bool * bool) e =>
            let '(fl, fm, b, torec, unsync) := acc in
            match fe_state e with
            | Some SBlk =>
                if fe_bad e then (fl ++ [e], fm ++ [e], b, true, unsync) else (fl ++ [e], fm, b, torec, unsync)
            | _ =>
                let e' := fe_set_ood e in
                if fe_is SChg e && h_is_zero false (fe_hash e)
                then (fl ++ [e'], fm, set_buf b (fe_idx e) 0%N, torec, true)
                else (fl ++ [e'], fm ++ [e'], b, torec, true)
            end) l (fl, fm, b, tr, us))))) = fl ++ map s2mark l.
  Proof.
    induction l as [|e t IH]; intros fl fm b tr us.
    - cbn. rewrite app_nil_r. reflexivity.
    - cbn [fold_left map].
      assert (Em : s2mark e = match fe_state e with Some SBlk => e | _ => fe_set_ood e end) by reflexivity.
      destruct (fe_state e) as [[| |]|] eqn:Es; try destruct (fe_bad e); try destruct (fe_is SChg e && h_is_zero false (fe_hash e));
        rewrite IH, <- app_assoc, Em; reflexivity.
  Qed.

  (* strategy 1: a bad entry without a recorded hash is always handed to repair_step *)
  Lemma s1_fold_in nosearch fs0 e : forall l fm b,
    In e l -> fe_bad e = true -> fe_updated_hash e = false ->
    In e (fst (fold_left (fun (acc : list fent * list bid) e =>
                     if fe_bad e then
                       match (if fe_updated_hash e then search_fetch hashf bs nosearch fs0 e else None) with
                       | Some b => (fst acc, set_buf (snd acc) (fe_idx e) b)
                       | None => (fst acc ++ [e], snd acc)
                       end
                     else acc) l (fm, b))).
  Proof.
    assert (Hmono : forall l fm b x, In x fm ->
              In x (fst (fold_left (fun (acc : list fent * list bid) e =>
                     if fe_bad e then
                       match (if fe_updated_hash e then search_fetch hashf bs nosearch fs0 e else None) with
                       | Some b => (fst acc, set_buf (snd acc) (fe_idx e) b)
                       | None => (fst acc ++ [e], snd acc)
                       end
                     else acc) l (fm, b)))).
    { induction l as [|y t IH]; intros fm b x Hx; [exact Hx|]. cbn [fold_left].
      destruct (fe_bad y); [|apply IH; exact Hx].
      destruct (if fe_updated_hash y then search_fetch hashf bs nosearch fs0 y else None); cbn [fst snd]; apply IH; [exact Hx | apply in_or_app; left; exact Hx]. }
    induction l as [|y t IH]; intros fm b Hin Hb Hu; [contradiction|].
    cbn [fold_left]. destruct Hin as [E|Hin].
    - subst y. rewrite Hb, Hu. cbn [fst snd]. apply Hmono. apply in_or_app. right. left. reflexivity.
    - destruct (fe_bad y); [|apply IH; auto].
      destruct (if fe_updated_hash y then search_fetch hashf bs nosearch fs0 y else None); cbn [fst snd]; apply IH; auto.
  Qed.

  Lemma fe_is_chg_not_updated e : fe_is SChg e = true -> fe_updated_hash e = false.
  Proof. unfold fe_is, fe_updated_hash. destruct (fe_state e) as [[| |]|]; cbn; intro H; auto; discriminate. Qed.

  Theorem repair_never_accepts_old pos nosearch fs0 failed rec buf jn failed' buf' jn' tags :
    repair hashf padz bs nlev false pos nosearch fs0 failed rec buf jn = (ROk, failed', buf', jn', tags) ->
    forall e', In e' failed' -> fe_bad e' = true -> fe_is SChg e' = true -> fe_ood e' = false ->
    forall ob, past_hash_inv e' ob -> vnth buf' (fe_idx e') <> ob.
  Proof.
    intros H e' Hin Hb Hc Ho ob Hinv.
    unfold repair in H. destruct failed as [|e0 ft] eqn:Ef.
    { injection H as H1 _ _ _. subst failed'. contradiction. }
    rewrite <- Ef in *. clear Ef e0 ft.
    match type of H with context [fold_left ?g failed ([], buf)] => set (g1 := g) in *; destruct (fold_left g1 failed ([], buf)) as [fm1 buf1] eqn:E1 end.
    destruct fm1 as [|x1 fmt] eqn:Efm1.
    - (* nothing handed to repair_step: there is no bad CHG entry *)
      injection H as H1 H2 H3 H4. subst failed'. exfalso.
      pose proof (s1_fold_in nosearch fs0 e' failed [] buf Hin Hb (fe_is_chg_not_updated e' Hc)) as X.
      fold g1 in X. rewrite E1 in X. exact X.
    - rewrite <- Efm1 in *.
      destruct (repair_step hashf padz bs nlev pos fm1 rec buf1 jn) as [[[r1 buf2] jn2] tags1] eqn:Er1.
      assert (Hne : match fm1 with [] => true | _ => false end = false) by (rewrite Efm1; reflexivity).
      destruct fm1 as [|y1 fy]; [discriminate|]. clear Hne.
      destruct r1.
      + (* strategy 1 succeeded: the heuristics have looked at every bad CHG entry *)
        injection H as H1 H2 H3 H4. subst failed' buf'.
        rewrite map_map in Hin. apply in_map_iff in Hin. destruct Hin as [e [Ee He]]. subst e'.
        destruct (chg_heuristic_fields pos buf2 e) as [F1 [F2 [F3 [F4 [F5 F6]]]]].
        rewrite F2. apply (chg_heuristic_rejects_old pos buf2 e ob).
        * rewrite <- F1. exact Hb.
        * unfold fe_is in *. rewrite <- F3. exact Hc.
        * unfold past_hash_inv, fe_len in *. rewrite F4, F5 in Hinv. exact Hinv.
        * exact Ho.
      + (* strategy 1 failed with attempts *)
        match type of H with context [fold_left ?g failed ([], [], buf2, false, false)] => set (g2 := g) in *;
          assert (S2 : fst (fst (fst (fst (fold_left g2 failed ([], [], buf2, false, false))))) = [] ++ map s2mark failed) by (exact (s2_fold failed [] [] buf2 false false));
          destruct (fold_left g2 failed ([], [], buf2, false, false)) as [[[[failed2 fm2] buf3] torec] unsync] eqn:E2 end.
        cbn [fst app] in S2. subst failed2.
        destruct (torec && unsync).
        * destruct (repair_step hashf padz bs nlev pos fm2 rec buf3 jn2) as [[[r2 buf4] jn4] tags2] eqn:Er2.
          destruct r2; cbn in H. 2: { revert H; destruct (n + n0); intro H; discriminate H. } 2: { revert H; destruct (n + 0); intro H; discriminate H. }
          injection H as H1 H2 H3 H4. subst failed'. exfalso.
          apply in_map_iff in Hin. destruct Hin as [e [Ee He]]. subst e'. unfold s2mark, fe_is in *.
          destruct (fe_state e) as [[| |]|] eqn:Es; cbn in *; try rewrite Es in *; cbn in *; discriminate.
        * cbn in H. revert H; destruct n; intro H; discriminate H.
      + (* strategy 1 had no strategy *)
        match type of H with context [fold_left ?g failed ([], [], buf2, false, false)] => set (g2 := g) in *;
          assert (S2 : fst (fst (fst (fst (fold_left g2 failed ([], [], buf2, false, false))))) = [] ++ map s2mark failed) by (exact (s2_fold failed [] [] buf2 false false));
          destruct (fold_left g2 failed ([], [], buf2, false, false)) as [[[[failed2 fm2] buf3] torec] unsync] eqn:E2 end.
        cbn [fst app] in S2. subst failed2.
        destruct (torec && unsync).
        * destruct (repair_step hashf padz bs nlev pos fm2 rec buf3 jn2) as [[[r2 buf4] jn4] tags2] eqn:Er2.
          destruct r2; cbn in H. 2: { revert H; destruct n; intro H; discriminate H. } 2: { discriminate H. }
          injection H as H1 H2 H3 H4. subst failed'. exfalso.
          apply in_map_iff in Hin. destruct Hin as [e [Ee He]]. subst e'. unfold s2mark, fe_is in *.
          destruct (fe_state e) as [[| |]|] eqn:Es; cbn in *; try rewrite Es in *; cbn in *; discriminate.
        * cbn in H. discriminate H.
  Qed.
End Partial.
