(* Non-vacuity of PendingProofs.v, and the open findings seen through its run-level hypothesis.
   px: the state that a scan inside sync leaves when file 1 of disk 0 was replaced by a new version of the same size and the
   stripe was not synced yet (Witnesses.v vocabulary: the history ops_ok), then the new file is lost: the block map has a CHG
   block whose past hash is the hash of the old block 11, the parity still encodes 11 there.  PastHashInvAll holds, the
   hypotheses of fix_run_chg_not_old hold, and the run computed agrees (the rebuilt block IS the old one, repair sees it and
   reports the file unrecoverable).  The states before the fix of the witnesses b and c violate PastHashInvAll; the repaired a
   and d (whose failure is the reduced hash size) satisfy it. *)
From Coq Require Import NArith ZArith List Bool Arith Lia.
From Snap.Array Require Import ArrayDefs SyncProofsDefs SyncModel.
From Snap.Fix Require Import FixModel HistModel Witnesses RepairProofs StripeProofs RunProofs PartialProofs Examples GrownProofs SoundProofs PendingProofs.
Import ListNotations.

Definition ops_ok : list hop :=
  [HWrite 0 (ff 1 1024 100 1 [11%N]); HWrite 0 (ff 2 1024 100 2 [12%N]); HWrite 1 (ff 3 1024 100 3 [13%N]); HSync 0 0 [];
   HWrite 0 (ff 1 1024 200 4 [14%N]); HSync 1 1 []; HLose 0 1].

Definition px_f2 : cfile := mkCF 2 1024 100 0 2 false [mkFB SBlk 1 (HReal 50176)].
Definition px_f1 : cfile := mkCF 1 1024 200 0 4 false [mkFB SChg 0 (HReal 46080)].
Definition px_f3 : cfile := mkCF 3 1024 100 0 3 false [mkFB SBlk 0 (HReal 54272)].
Definition px_c : content :=
  mkC [Some (mkCD [px_f2; px_f1] [] [] []); Some (mkCD [px_f3] [] [] [])]
      [Some (mkInfo 0 false false true); Some (mkInfo 0 false false true)] 2.
Definition px_par : parity := [[PEnc [11; 13]; PEnc [12; 0]]; [PEnc [11; 13]; PEnc [12; 0]]]%N.
Definition px_fs : list (option fsdisk) := [Some [mkFF 2 1024 100 0 2 [12%N]]; Some [mkFF 3 1024 100 0 3 [13%N]]].

(* it IS the state the history leaves *)
Example px_is_scanned_state :
  h_c (run false ops_ok) = px_c /\ h_par (run false ops_ok) = px_par /\ h_fs (run false ops_ok) = px_fs.
Proof. vm_compute. repeat split; reflexivity. Qed.

Lemma px_slot p j :
  slot_of px_c p j = match p, j with
                     | 0, 0 => SFile px_f1 0 (mkFB SChg 0 (HReal 46080))
                     | 0, 1 => SFile px_f3 0 (mkFB SBlk 0 (HReal 54272))
                     | 1, 0 => SFile px_f2 0 (mkFB SBlk 1 (HReal 50176))
                     | _, _ => SEmpty end.
Proof.
  destruct p as [|[|p]]; destruct j as [|[|j]]; try reflexivity; unfold slot_of, slots; cbn; try (destruct j; reflexivity).
Qed.

Ltac px_inv H :=
  rewrite px_slot in H;
  match type of H with match ?p with _ => _ end = _ => destruct p as [|[|?]] end;
  match type of H with match ?j with _ => _ end = _ => destruct j as [|[|?]] | _ => idtac end;
  try discriminate H; inversion H; subst; clear H.

Lemma px_geom : geom 1024 px_c 2.
Proof.
  constructor.
  - intros p1 p2 j f1 i1 b1 f2 i2 b2 H1 H2 Hn. px_inv H1; px_inv H2; try discriminate Hn; split; auto; intro; lia.
  - intros p j f i b H. px_inv H; vm_compute; split; congruence.
  - intros p j f i b H. px_inv H; lia.
  - intros p j f i b H. px_inv H; cbn; lia.
  - intros p j f i b H. px_inv H.
    + exists 0, 0, (mkFB SChg 0 (HReal 46080)). split; [reflexivity | split; reflexivity].
    + exists 0, 0, (mkFB SBlk 0 (HReal 54272)). split; [reflexivity | split; reflexivity].
    + exists 1, 0, (mkFB SBlk 1 (HReal 50176)). split; [reflexivity | split; reflexivity].
Qed.

Example px_past_hash_inv_all : PastHashInvAll w_hashf w_padz 1024 px_c px_par.
Proof. apply phi_check_spec. vm_compute. reflexivity. Qed.

(* every hypothesis of the run-level theorem holds ... *)
Example px_fix_run_chg_not_old :
  let out := check_run w_hashf w_padz w_truncf 1024 2 false w_newino 999 x_fix px_c px_par px_fs [] (seq 0 2) in
  fl_damaged (get_fl (r_flags (out_st out)) (0, 1%N)) = true
  \/ fblk (r_fs (out_st out)) 0 1%N 0 = fblk px_fs 0 1%N 0
  \/ exists x, fblk (r_fs (out_st out)) 0 1%N 0 = wbv w_padz w_truncf 1024 px_f1 0 x
               /\ forall l v, nth 0 (nth l px_par []) PNone = PEnc v -> x <> vnth v 0.
Proof.
  cbn zeta.
  exact (fix_run_chg_not_old w_hashf w_padz w_truncf 1024 2 w_newino 999 x_fix px_c 2 px_fs px_par x_plain_fix eq_refl px_geom eq_refl (le_n 2)
           [] (fun ob p f i b H => match H with end) eq_refl px_past_hash_inv_all 0 0 px_f1 0 _ eq_refl eq_refl).
Qed.

(* ... and the run computed agrees: the block rebuilt from the stale parity is the old block 11, the heuristics of repair see it
   (hash_unknown ... 3 = "maybe old data"), the file is reported unrecoverable, nothing is left under its name, exit status 1 *)
Example px_fix_run_computed :
  let out := check_run w_hashf w_padz w_truncf 1024 2 false w_newino 999 x_fix px_c px_par px_fs [] (seq 0 2) in
  fl_damaged (get_fl (r_flags (out_st out)) (0, 1%N)) = true /\ fs_find (r_fs (out_st out)) 0 1%N = None
  /\ out_fail out = true /\ r_unrec (out_st out) = 1.
Proof. vm_compute. repeat split; reflexivity. Qed.

(* the open findings b and c are failures of PastHashInvAll in the state before the fix; the repaired a and d (reduced hash size)
   are not *)
Example witness_b_breaks_past_hash_inv_all :
  ~ PastHashInvAll w_hashf w_padz 1024 (h_c (run false (firstn 7 ops_b))) (h_par (run false (firstn 7 ops_b))).
Proof. intro H. apply phi_check_spec in H. vm_compute in H. discriminate H. Qed.
Example witness_c_breaks_past_hash_inv_all :
  ~ PastHashInvAll w_hashf w_padz 1024 (h_c (run false (firstn 13 ops_c))) (h_par (run false (firstn 13 ops_c))).
Proof. intro H. apply phi_check_spec in H. vm_compute in H. discriminate H. Qed.
Example regression_a_keeps_past_hash_inv_all :
  PastHashInvAll w_hashf w_padz 1024 (h_c (run false (firstn 7 ops_a))) (h_par (run false (firstn 7 ops_a))).
Proof. apply phi_check_spec. vm_compute. reflexivity. Qed.
Example witness_d_keeps_past_hash_inv_all :
  PastHashInvAll w_hashf w_padz 1024 (h_c (run false (firstn 9 ops_d))) (h_par (run false (firstn 9 ops_d))).
Proof. apply phi_check_spec. vm_compute. reflexivity. Qed.

(* ---- mixed: stripe 0 holds the pending change (CHG), stripe 1 is entirely synced; file 1 AND file 2 of disk 0 are lost -------- *)
Definition px_fs2 : list (option fsdisk) := [Some []; Some [mkFF 3 1024 100 0 3 [13%N]]].
Definition px_vs (p : nat) : list bid := match p with 1 => [12; 0]%N | _ => [] end.

Lemma px_synced_only_1 p : stripe_synced px_c p -> p = 1.
Proof.
  intros [H [j Hj]]. destruct p as [|[|p]]; [|reflexivity|].
  - specialize (H 0). rewrite px_slot in H. cbn in H. discriminate H.
  - rewrite px_slot in Hj. destruct j as [|[|j]]; discriminate Hj.
Qed.

Lemma px_synced_1 : stripe_synced px_c 1.
Proof.
  split.
  - intro j. rewrite px_slot. destruct j as [|[|j]]; cbn; auto.
  - exists 0. reflexivity.
Qed.

Lemma px_synced_part : synced_part w_hashf w_padz 1024 px_c 2 px_vs.
Proof.
  constructor.
  - intros p Hp Hsy. rewrite (px_synced_only_1 p Hsy). split; [reflexivity|]. intros j Hj. rewrite px_slot. destruct j as [|[|j]]; cbn in *; try reflexivity; lia.
  - intros p j f i b Hsy H. rewrite (px_synced_only_1 p Hsy) in *. px_inv H. reflexivity.
Qed.

Lemma px_collision_free_synced : collision_free_synced w_hashf w_padz 1024 2 (co_nosearch x_fix) px_c 2 px_fs2 px_par px_vs.
Proof.
  constructor.
  - intros p j f i b y Hsy H Hr Hh. rewrite (px_synced_only_1 p Hsy) in *. px_inv H. cbn in Hr. discriminate Hr.
  - intros p Hp Hsy e x He Hx. rewrite (px_synced_only_1 p Hsy) in *. vm_compute in He. destruct He as [He|[]]. subst e.
    unfold blockcmp, w_hashf. cbn [fe_hash fe_len fe_file hval_eqb].
    unfold is_junk, JBASE in Hx. apply andb_false_iff. left. apply N.eqb_neq. cbn. lia.
  - intros p Hp Hsy l w i e Hl He Hb. rewrite (px_synced_only_1 p Hsy) in *. vm_compute in He. destruct He as [He|[]]. subst e.
    destruct l as [|[|l]]; cbn in Hl; try discriminate Hl; [| |destruct l; discriminate Hl]; injection Hl as Hl; subst w;
      (destruct i as [|[|i]]; [reflexivity | vm_compute in Hb; discriminate Hb | destruct i; vm_compute in Hb; discriminate Hb]).
  - intros p Hp Hsy i e He Hb. rewrite (px_synced_only_1 p Hsy) in *. vm_compute in He. destruct He as [He|[]]. subst e.
    destruct i as [|[|i]]; [reflexivity | vm_compute in Hb; discriminate Hb | destruct i; vm_compute in Hb; discriminate Hb].
  - intros p Hp Hsy fsx e b He Hs. rewrite (px_synced_only_1 p Hsy) in *. vm_compute in He. destruct He as [He|[]]. subst e.
    destruct (search_fetch_hash w_hashf 1024 _ fsx _ b Hs) as [f [i [Ef Eh]]]. cbn in Ef. injection Ef as Ef1 Ef2. subst f i.
    unfold w_hashf in Eh. cbn in Eh. apply N.eqb_eq in Eh. cbn. lia.
Qed.

Lemma px_objs_ok : objs_ok px_c [].
Proof. split; intros ob; intros; contradiction. Qed.

(* the theorem for the synced stripe applies: file 2 (stripe 1, BLK) is flagged or holds its recorded block 12 ... *)
Example px_fix_run_synced_stripes :
  let out := check_run w_hashf w_padz w_truncf 1024 2 false w_newino 999 x_fix px_c px_par px_fs2 [] (seq 0 2) in
  fl_damaged (get_fl (r_flags (out_st out)) (0, 2%N)) = true \/ fblk (r_fs (out_st out)) 0 2%N 0 = 12%N.
Proof.
  cbn zeta.
  exact (run_fix_synced_stripes w_hashf w_padz w_truncf 1024 2 w_newino 999 x_fix px_c 2 px_fs2 px_par px_vs [] x_plain_fix eq_refl px_geom eq_refl eq_refl (le_n 2)
           px_objs_ok px_synced_part px_collision_free_synced
           1 0 px_f2 0 _ eq_refl px_synced_1).
Qed.

(* ... and the run computed: file 2 is restored (block 12, recorded time-stamp), file 1 (the pending change) is reported
   unrecoverable, exit status 1 *)
Example px_fix_run_mixed_computed :
  let out := check_run w_hashf w_padz w_truncf 1024 2 false w_newino 999 x_fix px_c px_par px_fs2 [] (seq 0 2) in
  fs_find (r_fs (out_st out)) 0 2%N = Some (mkFF 2 1024 100 0 902 [12%N])
  /\ fl_damaged (get_fl (r_flags (out_st out)) (0, 2%N)) = false
  /\ fl_damaged (get_fl (r_flags (out_st out)) (0, 1%N)) = true /\ fs_find (r_fs (out_st out)) 0 1%N = None
  /\ out_fail out = true.
Proof. vm_compute. repeat split; reflexivity. Qed.

(* file 3 (disk 1) shares stripe 0 with the lost file 1 and is intact: not touched, whatever happens to file 1 *)
Example px_fix_run_intact :
  let out := check_run w_hashf w_padz w_truncf 1024 2 false w_newino 999 x_fix px_c px_par px_fs2 [] (seq 0 2) in
  fs_find (r_fs (out_st out)) 1 3%N = fs_find px_fs2 1 3%N /\ fl_damaged (get_fl (r_flags (out_st out)) (1, 3%N)) = false.
Proof.
  cbn zeta.
  apply (run_fix_intact_untouched w_hashf w_padz w_truncf 1024 2 w_newino 999 x_fix px_c 2 px_fs2 px_par [] x_plain_fix eq_refl px_geom eq_refl eq_refl (le_n 2)
           px_objs_ok 0 1 px_f3 0 _ eq_refl).
  split; [cbn; lia|]. intros p i b H. px_inv H. exists 13%N. split; [reflexivity | intros _; reflexivity].
Qed.

(* ---- collision freedom at the recorded hashes: the hash of the witnesses is injective --------------------------------------- *)
Definition px_rb (p j : nat) : bid := match p, j with 0, 1 => 13%N | 1, 0 => 12%N | _, _ => 0%N end.
Lemma px_collision_free_blk : collision_free_blk w_hashf w_padz 1024 px_c 2 px_rb.
Proof.
  constructor.
  - intros p j f i b _ H Hnc. px_inv H; try (exfalso; apply Hnc; reflexivity); reflexivity.
  - intros p j f i b x _ H Hnc Hh. px_inv H; try (exfalso; apply Hnc; reflexivity);
      unfold hash_ok, w_hashf in Hh; cbn in Hh; apply N.eqb_eq in Hh; cbn; lia.
  - intros p j f i b _ H Hnc. px_inv H; try (exfalso; apply Hnc; reflexivity); reflexivity.
Qed.

(* the full statement on the array with the pending change, file 1 and file 2 lost: every hypothesis holds *)
Example px_fix_never_wrong :
  let out := check_run w_hashf w_padz w_truncf 1024 2 false w_newino 999 x_fix px_c px_par px_fs2 [] (seq 0 2) in
  (out_fail out = true <-> r_unrec (out_st out) <> 0)
  /\ forall p j f i b, slot_of px_c p j = SFile f i b ->
       (fl_damaged (get_fl (r_flags (out_st out)) (j, cf_name f)) = true
        /\ fs_find (r_fs (out_st out)) j (cf_name f) = None /\ In (K_ST_UNREC, [N.of_nat j; cf_name f]) (r_tags (out_st out))
        /\ r_unrec (out_st out) <> 0 /\ out_fail out = true)
       \/ (fl_damaged (get_fl (r_flags (out_st out)) (j, cf_name f)) = false
           /\ (exists g, fs_find (r_fs (out_st out)) j (cf_name f) = Some g /\ ff_size g = cf_size f)
           /\ (fb_state b <> SChg -> fblk (r_fs (out_st out)) j (cf_name f) i = px_rb p j)
           /\ (fb_state b = SChg ->
                 fblk (r_fs (out_st out)) j (cf_name f) i = fblk px_fs2 j (cf_name f) i
                 \/ exists x, fblk (r_fs (out_st out)) j (cf_name f) i = wbv w_padz w_truncf 1024 f i x
                              /\ forall l v, nth p (nth l px_par []) PNone = PEnc v -> x <> vnth v j)).
Proof.
  exact (run_fix_never_wrong w_hashf w_padz w_truncf 1024 2 w_newino 999 x_fix px_c 2 px_fs2 px_par [] px_rb x_plain_fix eq_refl px_geom eq_refl eq_refl (le_n 2)
           px_objs_ok px_past_hash_inv_all px_collision_free_blk).
Qed.

(* "reported recovered": in the run on px_fs2 file 2 is reported recovered (status:recovered:0:2 is in the log) and file 1 is not *)
Example px_fix_run_recovered_iff :
  let out := check_run w_hashf w_padz w_truncf 1024 2 false w_newino 999 x_fix px_c px_par px_fs2 [] (seq 0 2) in
  (In (K_ST_RECOVERED, [0; 2]%N) (r_tags (out_st out)) <->
   fl_fixed (get_fl (r_flags (out_st out)) (0, 2%N)) = true /\ fl_damaged (get_fl (r_flags (out_st out)) (0, 2%N)) = false)
  /\ (In (K_ST_RECOVERED, [0; 1]%N) (r_tags (out_st out)) <->
      fl_fixed (get_fl (r_flags (out_st out)) (0, 1%N)) = true /\ fl_damaged (get_fl (r_flags (out_st out)) (0, 1%N)) = false).
Proof.
  cbn zeta. split.
  - exact (run_fix_recovered_iff w_hashf w_padz w_truncf 1024 2 w_newino 999 x_fix px_c 2 px_fs2 px_par [] x_plain_fix eq_refl px_geom eq_refl eq_refl (le_n 2)
             px_objs_ok 1 0 px_f2 0 _ eq_refl).
  - exact (run_fix_recovered_iff w_hashf w_padz w_truncf 1024 2 w_newino 999 x_fix px_c 2 px_fs2 px_par [] x_plain_fix eq_refl px_geom eq_refl eq_refl (le_n 2)
             px_objs_ok 0 0 px_f1 0 _ eq_refl).
Qed.
Example px_fix_run_recovered_computed :
  let out := check_run w_hashf w_padz w_truncf 1024 2 false w_newino 999 x_fix px_c px_par px_fs2 [] (seq 0 2) in
  filter (fun t => N.eqb (fst t) K_ST_RECOVERED || N.eqb (fst t) K_ST_UNREC) (r_tags (out_st out))
  = [(K_ST_UNREC, [0; 1]%N); (K_ST_RECOVERED, [0; 2]%N)].
Proof. vm_compute. reflexivity. Qed.

(* the recorded size.  px_fs3: file 2 was truncated to nothing (size 0, no block); px_fs4: file 2 grew (2048 bytes, a second block);
   file 1 is lost in both.  The size statement holds on both arrays, and computed: file 2 ends with its recorded 1024 bytes and its
   recorded block *)
Definition px_fs3 : list (option fsdisk) := [Some [mkFF 2 0 100 0 2 []]; Some [mkFF 3 1024 100 0 3 [13%N]]].
Definition px_fs4 : list (option fsdisk) := [Some [mkFF 2 2048 100 0 2 [12%N; 77%N]]; Some [mkFF 3 1024 100 0 3 [13%N]]].
Example px_fix_size_exact :
  forall fs, fs = px_fs3 \/ fs = px_fs4 ->
  let out := check_run w_hashf w_padz w_truncf 1024 2 false w_newino 999 x_fix px_c px_par fs [] (seq 0 2) in
  forall p j f i b, slot_of px_c p j = SFile f i b ->
    fl_damaged (get_fl (r_flags (out_st out)) (j, cf_name f)) = false ->
    exists g, fs_find (r_fs (out_st out)) j (cf_name f) = Some g /\ ff_size g = cf_size f.
Proof.
  intros fs [E|E]; subst fs.
  - exact (run_fix_size_exact w_hashf w_padz w_truncf 1024 2 w_newino 999 x_fix px_c 2 px_fs3 px_par [] x_plain_fix eq_refl px_geom eq_refl eq_refl (le_n 2) px_objs_ok).
  - exact (run_fix_size_exact w_hashf w_padz w_truncf 1024 2 w_newino 999 x_fix px_c 2 px_fs4 px_par [] x_plain_fix eq_refl px_geom eq_refl eq_refl (le_n 2) px_objs_ok).
Qed.
Example px_fix_size_computed :
  let out3 := check_run w_hashf w_padz w_truncf 1024 2 false w_newino 999 x_fix px_c px_par px_fs3 [] (seq 0 2) in
  let out4 := check_run w_hashf w_padz w_truncf 1024 2 false w_newino 999 x_fix px_c px_par px_fs4 [] (seq 0 2) in
  (option_map ff_size (fs_find (r_fs (out_st out3)) 0 2%N) = Some 1024%N /\ option_map ff_blocks (fs_find (r_fs (out_st out3)) 0 2%N) = Some [12%N]
   /\ fl_damaged (get_fl (r_flags (out_st out3)) (0, 2%N)) = false)
  /\ (option_map ff_size (fs_find (r_fs (out_st out4)) 0 2%N) = Some 1024%N /\ option_map ff_blocks (fs_find (r_fs (out_st out4)) 0 2%N) = Some [12%N]
      /\ fl_damaged (get_fl (r_flags (out_st out4)) (0, 2%N)) = false).
Proof. vm_compute. repeat split; reflexivity. Qed.

(* "reported unrecoverable": in the run on px_fs2 the line is in the log for file 1, flagged DAMAGED, and not for file 2; and every
   status:unrecoverable line of that log is for a file of the content file flagged DAMAGED *)
Example px_fix_run_unrec_iff :
  let out := check_run w_hashf w_padz w_truncf 1024 2 false w_newino 999 x_fix px_c px_par px_fs2 [] (seq 0 2) in
  (In (K_ST_UNREC, [0; 1]%N) (r_tags (out_st out)) <-> fl_damaged (get_fl (r_flags (out_st out)) (0, 1%N)) = true)
  /\ (In (K_ST_UNREC, [0; 2]%N) (r_tags (out_st out)) <-> fl_damaged (get_fl (r_flags (out_st out)) (0, 2%N)) = true)
  /\ forall t, fst t = K_ST_UNREC -> In t (r_tags (out_st out)) ->
        exists p j f i b, slot_of px_c p j = SFile f i b /\ t = (K_ST_UNREC, [N.of_nat j; cf_name f])
                          /\ fl_damaged (get_fl (r_flags (out_st out)) (j, cf_name f)) = true.
Proof.
  cbn zeta. split; [|split].
  - exact (run_fix_unrec_iff w_hashf w_padz w_truncf 1024 2 w_newino 999 x_fix px_c 2 px_fs2 px_par [] x_plain_fix eq_refl px_geom eq_refl eq_refl (le_n 2)
             px_objs_ok 0 0 px_f1 0 _ eq_refl).
  - exact (run_fix_unrec_iff w_hashf w_padz w_truncf 1024 2 w_newino 999 x_fix px_c 2 px_fs2 px_par [] x_plain_fix eq_refl px_geom eq_refl eq_refl (le_n 2)
             px_objs_ok 1 0 px_f2 0 _ eq_refl).
  - exact (run_fix_unrec_only w_hashf w_padz w_truncf 1024 2 w_newino 999 x_fix px_c 2 px_fs2 px_par [] x_plain_fix eq_refl px_geom eq_refl eq_refl (le_n 2)
             px_objs_ok).
Qed.
