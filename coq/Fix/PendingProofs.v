(* C05 for arrays WITH PENDING CHANGES (block map with CHG / REP / DELETED entries, the states a scan leaves), the whole run of
   fix, full hash size.  PartialProofs.v repair_never_accepts_old is about one call of repair; here it is lifted over check_run:

   - PastHashInvAll: the run-level hypothesis, a predicate on the initial content file and parity (every CHG entry of the map
     satisfies past_hash_inv w.r.t. the block that every parity level encodes at its position); decidable (phi_check).
   - repair_maps: repair only changes the out-of-date mark of the entries.  repair_ok_hash_verified: a bad entry with a recorded hash
     that repair accepts holds a block that hashes to the recorded hash (fetched, strategy 1, strategy 2 alike).
   - the stripe step on an ARBITRARY stripe and state (no synced hypothesis): open_fix_gen, dinvP (the loop over the disks),
     wfoldP (the write-back), ok_body_frame, SoundProofs.v post_general / stripe_step_fail give fix_step_pending_full.
   - the run: rinvP (every mapped block: flagged, or the block of the disk, or a rebuilt block -- not the stale old one for CHG,
     hash verified for BLK / REP), fix_run_chg_pending, fix_run_blk_verified, fix_run_chg_not_old, fix_run_exit0_chg_not_old;
     rinvM (mixed arrays): fix_run_synced_stripes, the blocks of the entirely synced stripes are the recorded blocks (the synced
     stripe is handled by SoundProofs.v fix_step_sound, the frames by fix_step_pending_full). *)
From Coq Require Import NArith ZArith List Bool Arith Lia.
From Snap.Array Require Import ArrayDefs SyncProofsDefs.
From Snap.Fix Require Import FixModel RepairProofs StripeProofs FlagWalk RunProofs PartialProofs GrownProofs SoundProofs.
Import ListNotations.
Local Opaque JBASE.

(* ---------------------------------------------------------------------------------------------------------- *)
(* the run-level hypothesis                                                                                     *)
(* ---------------------------------------------------------------------------------------------------------- *)
Section PHI.
  Variable hashf : bid -> N -> hval.
  Variable padz : bid -> N -> bool.
  Variable bs : N.

  (* every CHG entry of the block map, at a position the run visits, satisfies past_hash_inv w.r.t. the block that the parity
     -- any level that holds an encoding there -- encodes at its position *)
  Definition PastHashInvAll (c : content) (par : parity) : Prop :=
    forall pos j f idx b, pos < c_blockmax c -> slot_of c pos j = SFile f idx b -> fb_state b = SChg ->
    forall l v, nth pos (nth l par []) PNone = PEnc v -> past_hash_inv hashf padz bs (ent j f idx b true) (vnth v j).

  Definition past_hash_invb (e : fent) (ob : bid) : bool :=
    match fe_hash e with
    | HInvalid => true
    | HZero => N.eqb ob 0
    | HReal _ => blockcmp hashf padz bs (fe_hash e) (fe_len bs e) ob
    end.
  Lemma past_hash_invb_spec e ob : past_hash_invb e ob = true <-> past_hash_inv hashf padz bs e ob.
  Proof. unfold past_hash_invb, past_hash_inv. destruct (fe_hash e); [apply N.eqb_eq | tauto | tauto]. Qed.

  Definition phi_check (c : content) (par : parity) : bool :=
    forallb (fun pos =>
      forallb (fun j =>
        match slot_of c pos j with
        | SFile f idx b =>
            if bstate_eqb (fb_state b) SChg
            then forallb (fun l => match nth pos (nth l par []) PNone with
                                   | PEnc v => past_hash_invb (ent j f idx b true) (vnth v j)
                                   | _ => true end) (seq 0 (length par))
            else true
        | _ => true end) (seq 0 (length (c_disks c)))) (seq 0 (c_blockmax c)).

  Lemma phi_check_spec c par : phi_check c par = true <-> PastHashInvAll c par.
  Proof.
    unfold phi_check, PastHashInvAll. split.
    - intros H pos j f idx b Hp Hs Hst l v Hl. rewrite forallb_forall in H. specialize (H pos ltac:(apply in_seq; lia)).
      rewrite forallb_forall in H.
      assert (Hj : j < length (c_disks c)).
      { destruct (Nat.lt_ge_cases j (length (c_disks c))) as [X|X]; [exact X|]. rewrite slot_of_out in Hs by exact X. discriminate. }
      specialize (H j ltac:(apply in_seq; lia)). rewrite Hs, Hst in H. cbn [bstate_eqb] in H. rewrite forallb_forall in H.
      assert (Hll : l < length par).
      { destruct (Nat.lt_ge_cases l (length par)) as [X|X]; [exact X|]. rewrite (nth_overflow par [] X) in Hl. destruct pos; discriminate Hl. }
      specialize (H l ltac:(apply in_seq; lia)). rewrite Hl in H. apply past_hash_invb_spec. exact H.
    - intro H. apply forallb_forall. intros pos Hp. apply in_seq in Hp. apply forallb_forall. intros j Hj.
      destruct (slot_of c pos j) as [|f idx b|h] eqn:Hs; try reflexivity.
      destruct (bstate_eqb (fb_state b) SChg) eqn:Hst; [|reflexivity].
      assert (Hst' : fb_state b = SChg) by (destruct (fb_state b); try discriminate Hst; reflexivity).
      apply forallb_forall. intros l Hl. destruct (nth pos (nth l par []) PNone) as [v| |] eqn:El; try reflexivity.
      apply past_hash_invb_spec. apply (H pos j f idx b ltac:(lia) Hs Hst' l v El).
  Qed.
End PHI.

(* ---------------------------------------------------------------------------------------------------------- *)
(* repair keeps the entries: only the out-of-date mark changes (full hash size)                                 *)
(* ---------------------------------------------------------------------------------------------------------- *)
Section RepairMap.
  Variable hashf : bid -> N -> hval.
  Variable padz : bid -> N -> bool.
  Variable bs : N.
  Variable nlev : nat.

  Definition same_ent (e e' : fent) : Prop :=
    fe_bad e' = fe_bad e /\ fe_idx e' = fe_idx e /\ fe_state e' = fe_state e /\ fe_hash e' = fe_hash e /\ fe_file e' = fe_file e.

  Lemma repair_maps pos nosearch fs0 failed rec buf jn res failed' buf' jn' tags :
    repair hashf padz bs nlev false pos nosearch fs0 failed rec buf jn = (res, failed', buf', jn', tags) ->
    exists g, failed' = map g failed /\ forall e, same_ent e (g e).
  Proof.
    intro H. unfold repair in H. destruct failed as [|e0 ft] eqn:Ef.
    { injection H as _ H _ _ _. subst failed'. exists (fun e => e). split; [reflexivity | intro e; repeat split]. }
    rewrite <- Ef in *. clear Ef e0 ft.
    match type of H with context [fold_left ?g failed ([], buf)] => destruct (fold_left g failed ([], buf)) as [fm1 buf1] end.
    destruct fm1 as [|x1 fmt].
    { injection H as _ H _ _ _. subst failed'. exists (fun e => e). rewrite map_id. split; [reflexivity | intro e; repeat split]. }
    destruct (repair_step hashf padz bs nlev pos (x1 :: fmt) rec buf1 jn) as [[[r1 buf2] jn2] tags1].
    assert (S2 : forall (X : list fent * list fent * list bid * bool * bool),
               fst (fst (fst (fst X))) = map (s2mark) failed ->
               exists g, fst (fst (fst (fst X))) = map g failed /\ forall e, same_ent e (g e)).
    { intros X EX. exists s2mark. split; [exact EX|]. intro e. unfold s2mark. destruct (fe_state e) as [[| |]|]; repeat split. }
    destruct r1.
    - injection H as _ H _ _ _. subst failed'. rewrite map_map.
      exists (fun e => fst (chg_heuristic hashf padz bs false pos buf2 e)). split; [reflexivity|].
      intro e. destruct (chg_heuristic_fields hashf padz bs pos buf2 e) as [F1 [F2 [F3 [F4 [F5 _]]]]]. repeat split; assumption.
    - match type of H with context [fold_left ?g failed ([], [], buf2, false, false)] =>
        pose proof (s2_fold failed [] [] buf2 false false) as E2; cbn [app] in E2;
        destruct (fold_left g failed ([], [], buf2, false, false)) as [[[[failed2 fm2] buf3] torec] unsync] end.
      cbn [fst] in E2.
      destruct (torec && unsync).
      + destruct (repair_step hashf padz bs nlev pos fm2 rec buf3 jn2) as [[[r2 buf4] jn4] tags2].
        destruct r2; injection H as _ H _ _ _; subst failed'; apply (S2 (failed2, fm2, buf3, torec, unsync) E2).
      + injection H as _ H _ _ _. subst failed'. apply (S2 (failed2, fm2, buf3, torec, unsync) E2).
    - match type of H with context [fold_left ?g failed ([], [], buf2, false, false)] =>
        pose proof (s2_fold failed [] [] buf2 false false) as E2; cbn [app] in E2;
        destruct (fold_left g failed ([], [], buf2, false, false)) as [[[[failed2 fm2] buf3] torec] unsync] end.
      cbn [fst] in E2.
      destruct (torec && unsync).
      + destruct (repair_step hashf padz bs nlev pos fm2 rec buf3 jn2) as [[[r2 buf4] jn4] tags2].
        destruct r2; injection H as _ H _ _ _; subst failed'; apply (S2 (failed2, fm2, buf3, torec, unsync) E2).
      + injection H as _ H _ _ _. subst failed'. apply (S2 (failed2, fm2, buf3, torec, unsync) E2).
  Qed.
End RepairMap.

(* ---------------------------------------------------------------------------------------------------------- *)
(* repair verifies what it accepts: a bad entry with a recorded hash that is not marked passes the hash test     *)
(* ---------------------------------------------------------------------------------------------------------- *)
Section RepairVerified.
  Variable hashf : bid -> N -> hval.
  Variable padz : bid -> N -> bool.
  Variable bs : N.
  Variable nlev : nat.

  (* the block x hashes, over the length of the block of the entry, to the recorded hash of the entry *)
  Definition hash_passes (e : fent) (x : bid) : bool := hval_eqb (hashf x (fe_len bs e)) (fe_hash e).
  Lemma blockcmp_hash e x : blockcmp hashf padz bs (fe_hash e) (fe_len bs e) x = true -> hash_passes e x = true.
  Proof. unfold blockcmp, hash_passes. intro H. apply andb_true_iff in H. tauto. Qed.

  Lemma hash_matching_entries fm b :
    hash_matching hashf padz bs fm b = true ->
    forall e, In e fm -> fe_ood e = false -> fe_updated_hash e = true -> blockcmp hashf padz bs (fe_hash e) (fe_len bs e) (vnth b (fe_idx e)) = true.
  Proof.
    unfold hash_matching. intro H. apply andb_true_iff in H. destruct H as [_ H]. rewrite forallb_forall in H.
    intros e He Ho Hu. specialize (H e He). rewrite Ho, Hu in H. exact H.
  Qed.
  Lemma no_hash_entries fm : has_hash fm = false -> forall e, In e fm -> fe_ood e = false -> fe_updated_hash e = true -> False.
  Proof.
    unfold has_hash. intros H e He Ho Hu.
    assert (X : existsb (fun e => negb (fe_ood e) && fe_updated_hash e) fm = true) by (apply existsb_exists; exists e; rewrite Ho, Hu; auto).
    congruence.
  Qed.

  Lemma try_combos_accept pos wh F fm rec : forall cs buf jn err tags buf' jn' err' tags',
    try_combos hashf padz bs pos wh F fm rec cs buf jn err tags = (true, buf', jn', err', tags') ->
    length buf' = length buf /\ (forall i, ~ In i F -> vnth buf' i = vnth buf i) /\ (wh = true -> hash_matching hashf padz bs fm buf' = true).
  Proof.
    induction cs as [|ip rest IH]; intros buf jn err tags b' j' e' t'; cbn [try_combos]; [intro H; discriminate H|].
    destruct (existsb (fun l => is_pnone (nth l rec PNone)) ip); [apply IH|].
    match goal with |- context [reconstruct ?x F ?u buf jn] =>
      pose proof (reconstruct_length x F u buf jn) as Hlen;
      pose proof (fun i => reconstruct_outside x F u buf jn i) as Hout;
      destruct (reconstruct x F u buf jn) as [b1 j1] end.
    cbn [fst] in Hlen, Hout.
    match goal with |- context [if ?ok then (true, b1, j1, err, tags) else _] => destruct ok eqn:Eok end.
    - intro H. injection H as H1 H2 H3 H4. subst. split; [exact Hlen|]. split; [exact Hout|]. intro Hw. subst wh. exact Eok.
    - intro H. destruct (IH _ _ _ _ _ _ _ _ H) as [A [B C]]. split; [congruence|].
      split; [intros i Hi; rewrite (B i Hi); apply Hout; exact Hi | exact C].
  Qed.

  Lemma repair_step_accept pos fm rec buf jn buf' jn' tags :
    repair_step hashf padz bs nlev pos fm rec buf jn = (ROk, buf', jn', tags) ->
    length buf' = length buf /\ (forall i, ~ In i (map fe_idx fm) -> vnth buf' i = vnth buf i)
    /\ (forall e, In e fm -> fe_ood e = false -> fe_updated_hash e = true ->
                  blockcmp hashf padz bs (fe_hash e) (fe_len bs e) (vnth buf' (fe_idx e)) = true).
  Proof.
    unfold repair_step. destruct (Nat.eqb (length fm) 0) eqn:E0.
    { intro H. injection H as H1 H2 H3. subst. split; [reflexivity|]. split; [auto|]. intros e He. apply Nat.eqb_eq in E0. destruct fm; [contradiction | discriminate]. }
    cbv zeta. destruct (has_hash fm) eqn:Eh.
    - destruct (negb (length fm <=? nlev)); [intro H; discriminate H|].
      destruct (try_combos hashf padz bs pos true (map fe_idx fm) fm rec (combos (seq 0 nlev) (length fm)) buf jn 0 []) as [[[[ok b2] j2] e2] t2] eqn:E.
      destruct ok; [|destruct e2; intro H; discriminate H].
      intro H. injection H as H1 H2 H3. subst b2.
      destruct (try_combos_accept _ _ _ _ _ _ _ _ _ _ _ _ _ _ E) as [A [B C]]. split; [exact A|]. split; [exact B|].
      intros e He Ho Hu. apply (hash_matching_entries fm buf' (C eq_refl) e He Ho Hu).
    - destruct (negb (length fm <? nlev)); [intro H; discriminate H|].
      destruct (try_combos hashf padz bs pos false (map fe_idx fm) fm rec (combos (seq 0 nlev) (S (length fm))) buf jn 0 []) as [[[[ok b2] j2] e2] t2] eqn:E.
      destruct ok; [|destruct e2; intro H; discriminate H].
      intro H. injection H as H1 H2 H3. subst b2.
      destruct (try_combos_accept _ _ _ _ _ _ _ _ _ _ _ _ _ _ E) as [A [B _]]. split; [exact A|]. split; [exact B|].
      intros e He Ho Hu. exfalso. apply (no_hash_entries fm Eh e He Ho Hu).
  Qed.

  (* strategy 1: the entries handed to repair_step, the blocks fetched *)
  Lemma s1_fold_spec nosearch fs0 : forall l fm0 b0,
    (forall e, In e l -> fe_idx e < length b0) -> NoDup (map fe_idx l) ->
    let r := fold_left (fun (acc : list fent * list bid) e =>
                     if fe_bad e then
                       match (if fe_updated_hash e then search_fetch hashf bs nosearch fs0 e else None) with
                       | Some b => (fst acc, set_buf (snd acc) (fe_idx e) b)
                       | None => (fst acc ++ [e], snd acc)
                       end
                     else acc) l (fm0, b0) in
    length (snd r) = length b0
    /\ (forall x, In x fm0 -> In x (fst r))
    /\ (forall x, In x (fst r) -> In x fm0 \/ In x l)
    /\ (forall e, In e l -> fe_bad e = true ->
          In e (fst r) \/ (fe_updated_hash e = true /\ exists b, search_fetch hashf bs nosearch fs0 e = Some b /\ vnth (snd r) (fe_idx e) = b))
    /\ (forall i, (forall e, In e l -> fe_idx e <> i) -> vnth (snd r) i = vnth b0 i).
  Proof.
    induction l as [|y t IH]; intros fm0 b0 Hidx Hnd; cbn [fold_left].
    - cbn zeta. cbn [fst snd]. repeat split; auto. intros e [].
    - cbn [map] in Hnd. apply NoDup_cons_iff in Hnd. destruct Hnd as [Hny Hnd].
      assert (Hyt : forall e, In e t -> fe_idx e <> fe_idx y) by (intros e He X; apply Hny; rewrite <- X; apply in_map; exact He).
      assert (Hidxt : forall b1 : list bid, length b1 = length b0 -> forall e, In e t -> fe_idx e < length b1) by (intros b1 E e He; rewrite E; apply Hidx; right; exact He).
      destruct (fe_bad y) eqn:Eb.
      + destruct (if fe_updated_hash y then search_fetch hashf bs nosearch fs0 y else None) as [b|] eqn:Ef; cbn [fst snd].
        * destruct (IH fm0 (set_buf b0 (fe_idx y) b) (Hidxt _ (set_buf_length _ _ _)) Hnd) as [A [B [C [D E]]]]. cbn zeta in A, B, C, D, E. cbn zeta.
          split; [rewrite A; apply set_buf_length|]. split; [exact B|]. split; [intros x Hx; destruct (C x Hx); auto; right; right; assumption|]. split.
          -- intros e [He|He] Hb; [subst e | apply (D e He Hb)]. right.
             destruct (fe_updated_hash y); [|discriminate Ef]. split; [reflexivity|]. exists b. split; [exact Ef|].
             rewrite (E (fe_idx y) Hyt). rewrite vnth_set_buf by (apply Hidx; left; reflexivity). rewrite Nat.eqb_refl. reflexivity.
          -- intros i Hi. rewrite (E i (fun e He => Hi e (or_intror He))).
             destruct (Nat.lt_ge_cases i (length b0)) as [Hl|Hl].
             ++ rewrite vnth_set_buf by exact Hl. assert (X : Nat.eqb i (fe_idx y) = false) by (apply Nat.eqb_neq; intro X; apply (Hi y (or_introl eq_refl)); auto). rewrite X. reflexivity.
             ++ rewrite !vnth_out; [reflexivity | exact Hl | rewrite set_buf_length; exact Hl].
        * destruct (IH (fm0 ++ [y]) b0 (Hidxt _ eq_refl) Hnd) as [A [B [C [D E]]]]. cbn zeta in A, B, C, D, E. cbn zeta.
          split; [exact A|]. split; [intros x Hx; apply B; apply in_or_app; left; exact Hx|].
          split; [intros x Hx; destruct (C x Hx) as [X|X]; [apply in_app_or in X; destruct X as [X|[X|[]]]; [left; exact X | subst x; right; left; reflexivity] | right; right; exact X]|].
          split.
          -- intros e [He|He] Hb; [subst e; left; apply B; apply in_or_app; right; left; reflexivity | apply (D e He Hb)].
          -- intros i Hi. apply E. intros e He. apply Hi. right. exact He.
      + destruct (IH fm0 b0 (Hidxt _ eq_refl) Hnd) as [A [B [C [D E]]]]. cbn zeta in A, B, C, D, E. cbn zeta.
        split; [exact A|]. split; [exact B|]. split; [intros x Hx; destruct (C x Hx); auto; right; right; assumption|]. split.
        * intros e [He|He] Hb; [subst e; rewrite Eb in Hb; discriminate Hb | apply (D e He Hb)].
        * intros i Hi. apply E. intros e He. apply Hi. right. exact He.
  Qed.

  (* strategy 2: every bad BLK entry is handed to repair_step *)
  Lemma s2_fold_fm : forall l fl fm b tr us x,
    In x fm \/ (In x l /\ fe_state x = Some SBlk /\ fe_bad x = true) ->
    In x (snd (fst (fst (fst (fold_left (fun (acc : list fent * list fent * list bid * bool * bool) e =>
            let '(fl, fm, b, torec, unsync) := acc in
            match fe_state e with
            | Some SBlk =>
                if fe_bad e then (fl ++ [e], fm ++ [e], b, true, unsync) else (fl ++ [e], fm, b, torec, unsync)
            | _ =>
                let e' := fe_set_ood e in
                if fe_is SChg e && h_is_zero false (fe_hash e)
                then (fl ++ [e'], fm, set_buf b (fe_idx e) 0%N, torec, true)
                else (fl ++ [e'], fm ++ [e'], b, torec, true)
            end) l (fl, fm, b, tr, us)))))).
  Proof.
    induction l as [|e t IH]; intros fl fm b tr us x H.
    - cbn. destruct H as [H|[[] _]]. exact H.
    - cbn [fold_left].
      assert (Hother : forall fm', (forall y, In y fm -> In y fm') -> (fe_state e = Some SBlk -> fe_bad e = true -> In e fm') ->
                       In x fm' \/ (In x t /\ fe_state x = Some SBlk /\ fe_bad x = true)).
      { intros fm' Hsub Hhead. destruct H as [H|[[H|H] [H1 H2]]]; [left; apply Hsub; exact H | subst x; left; apply Hhead; assumption | right; auto]. }
      destruct (fe_state e) as [[| |]|] eqn:Es.
      + destruct (fe_bad e) eqn:Eb; apply IH; apply Hother.
        * intros y Hy. apply in_or_app. left. exact Hy.
        * intros _ _. apply in_or_app. right. left. reflexivity.
        * auto.
        * intros _ X. discriminate X.
      + destruct (fe_is SChg e && h_is_zero false (fe_hash e)); apply IH; apply Hother.
        * auto.
        * intro X. discriminate X.
        * intros y Hy. apply in_or_app. left. exact Hy.
        * intro X. discriminate X.
      + destruct (fe_is SChg e && h_is_zero false (fe_hash e)); apply IH; apply Hother.
        * auto.
        * intro X. discriminate X.
        * intros y Hy. apply in_or_app. left. exact Hy.
        * intro X. discriminate X.
      + destruct (fe_is SChg e && h_is_zero false (fe_hash e)); apply IH; apply Hother.
        * auto.
        * intro X. discriminate X.
        * intros y Hy. apply in_or_app. left. exact Hy.
        * intro X. discriminate X.
  Qed.

  Lemma nodup_map_inj {A B} (f : A -> B) l x y : NoDup (map f l) -> In x l -> In y l -> f x = f y -> x = y.
  Proof.
    induction l as [|z t IH]; intros Hnd Hx Hy E; [contradiction|]. cbn [map] in Hnd. apply NoDup_cons_iff in Hnd. destruct Hnd as [Hn Hnd].
    destruct Hx as [Hx|Hx], Hy as [Hy|Hy]; try congruence.
    - subst z. exfalso. apply Hn. rewrite E. apply in_map. exact Hy.
    - subst z. exfalso. apply Hn. rewrite <- E. apply in_map. exact Hx.
    - apply IH; assumption.
  Qed.

  Theorem repair_ok_hash_verified pos nosearch fs0 failed rec buf jn failed' buf' jn' tags :
    NoDup (map fe_idx failed) -> (forall e, In e failed -> fe_idx e < length buf) ->
    repair hashf padz bs nlev false pos nosearch fs0 failed rec buf jn = (ROk, failed', buf', jn', tags) ->
    forall e', In e' failed' -> fe_bad e' = true -> fe_ood e' = false -> fe_updated_hash e' = true ->
      hash_passes e' (vnth buf' (fe_idx e')) = true.
  Proof.
    intros Hnd Hidx H. unfold repair in H. destruct failed as [|e0 ft] eqn:Ef.
    { injection H as H _ _ _. subst failed'. intros e' []. }
    rewrite <- Ef in *. clear Ef e0 ft.
    pose proof (s1_fold_spec nosearch fs0 failed [] buf Hidx Hnd) as S1. cbn zeta in S1.
    match type of H with context [fold_left ?g failed ([], buf)] => destruct (fold_left g failed ([], buf)) as [fm1 buf1] end.
    cbn [fst snd] in S1. destruct S1 as [L1 [_ [Sub1 [Cov1 _]]]].
    assert (Sub1' : forall x, In x fm1 -> In x failed) by (intros x Hx; destruct (Sub1 x Hx) as [[]|X]; exact X).
    (* a fetched block passes the hash test *)
    assert (Hfetch : forall e b, search_fetch hashf bs nosearch fs0 e = Some b -> hash_passes e b = true).
    { intros e b Hs. destruct (search_fetch_hash hashf bs nosearch fs0 e b Hs) as [f [i [Ef Eh]]]. unfold hash_passes, FixModel.fe_len. rewrite Ef. exact Eh. }
    destruct fm1 as [|x1 fmt] eqn:Efm1.
    { injection H as H1 H2 _ _. subst failed' buf'. intros e' He' Hb Ho Hu.
      destruct (Cov1 e' He' Hb) as [[]|[_ [b [Hs Hv]]]]. rewrite Hv. apply (Hfetch e' b Hs). }
    rewrite <- Efm1 in *.
    destruct (repair_step hashf padz bs nlev pos fm1 rec buf1 jn) as [[[r1 buf2] jn2] tags1] eqn:Er1.
    assert (Hne : match fm1 with [] => true | _ => false end = false) by (rewrite Efm1; reflexivity).
    destruct fm1 as [|y1 fy]; [discriminate Hne|]. clear Hne Efm1.
    set (fm1 := y1 :: fy) in *.
    (* strategy 2, when strategy 1 did not succeed *)
    assert (S2 : r1 <> ROk -> forall e', In e' failed' -> fe_bad e' = true -> fe_ood e' = false -> fe_updated_hash e' = true ->
                  hash_passes e' (vnth buf' (fe_idx e')) = true).
    { intro Hr1.
      assert (Hshape : exists err1,
        (let step := fun (acc : list fent * list fent * list bid * bool * bool) e =>
            let '(fl, fm, b, torec, unsync) := acc in
            match fe_state e with
            | Some SBlk => if fe_bad e then (fl ++ [e], fm ++ [e], b, true, unsync) else (fl ++ [e], fm, b, torec, unsync)
            | _ => let e' := fe_set_ood e in
                   if fe_is SChg e && h_is_zero false (fe_hash e) then (fl ++ [e'], fm, set_buf b (fe_idx e) 0%N, torec, true)
                   else (fl ++ [e'], fm ++ [e'], b, torec, true)
            end in
          let '(failed2, fm2, buf3, torec, unsync) := fold_left step failed ([], [], buf2, false, false) in
          if torec && unsync then
            let '(r2, buf4, jn4, tags2) := repair_step hashf padz bs nlev pos fm2 rec buf3 jn2 in
            match r2 with
            | ROk =>
                let t := flat_map (fun e => if fe_bad e && (fe_is SChg e || fe_is SRep e)
                                            then [(K_HASH_UNKNOWN, [N.of_nat pos; N.of_nat (fe_idx e); 4%N])] else []) failed2 in
                (ROk, failed2, buf4, jn4, tags1 ++ tags2 ++ t)
            | _ =>
              let err2 := match r2 with RErr n => n | _ => O end in
              (match (err1 + err2)%nat with O => RNone | S k => RErr (S k) end, failed2, buf4, jn4, tags1 ++ tags2)
            end
          else (match err1 with O => RNone | S k => RErr (S k) end, failed2, buf3, jn2, tags1)) = (ROk, failed', buf', jn', tags)).
      { destruct r1; [contradiction | exists n; exact H | exists 0; exact H]. }
      destruct Hshape as [err1 H2]. cbv zeta in H2.
      match type of H2 with context [fold_left ?g failed ([], [], buf2, false, false)] =>
        pose proof (s2_fold failed [] [] buf2 false false) as E2; cbn [app] in E2;
        pose proof (fun x Hx => s2_fold_fm failed [] [] buf2 false false x (or_intror Hx)) as M2;
        destruct (fold_left g failed ([], [], buf2, false, false)) as [[[[failed2 fm2] buf3] torec] unsync] end.
      cbn [fst snd] in E2, M2.
      destruct (torec && unsync); [|destruct err1; discriminate H2].
      destruct (repair_step hashf padz bs nlev pos fm2 rec buf3 jn2) as [[[r2 buf4] jn4] tags2] eqn:Er2.
      destruct r2; [| destruct (err1 + n); discriminate H2 | destruct (err1 + 0); discriminate H2].
      injection H2 as H21 H22 _ _. subst failed' buf'.
      destruct (repair_step_accept pos fm2 rec buf3 jn2 buf4 jn4 tags2 Er2) as [_ [_ V]].
      intros e' He' Hb Ho Hu. rewrite E2 in He'. apply in_map_iff in He'. destruct He' as [e [Ee He]]. subst e'.
      unfold s2mark in *. destruct (fe_state e) as [[| |]|] eqn:Es; try (cbn in Ho; discriminate Ho).
      apply blockcmp_hash. apply (V e); [apply (M2 e); auto | exact Ho | exact Hu]. }
    destruct r1; [|apply S2; discriminate | apply S2; discriminate]. clear S2.
    injection H as H1 H2 _ _. subst failed' buf'.
    destruct (repair_step_accept pos fm1 rec buf1 jn buf2 jn2 tags1 Er1) as [_ [Out V]].
    intros e' He' Hb Ho Hu. rewrite map_map in He'. apply in_map_iff in He'. destruct He' as [e [Ee He]]. subst e'.
    destruct (chg_heuristic_fields hashf padz bs pos buf2 e) as [F1 [F2 [F3 [F4 [F5 F6]]]]]. cbn zeta in F1, F2, F3, F4, F5, F6.
    set (e' := fst (chg_heuristic hashf padz bs false pos buf2 e)) in *.
    assert (Hu0 : fe_updated_hash e = true) by (unfold fe_updated_hash in *; rewrite <- F3; exact Hu).
    assert (Hp : hash_passes e' (vnth buf2 (fe_idx e')) = hash_passes e (vnth buf2 (fe_idx e))) by (unfold hash_passes, FixModel.fe_len; rewrite F2, F4, F5; reflexivity).
    rewrite Hp. rewrite F1 in Hb.
    destruct (Cov1 e He Hb) as [Hin|[_ [b [Hs Hv]]]].
    - apply blockcmp_hash. apply (V e Hin (F6 Ho) Hu0).
    - destruct (existsb (fun x => Nat.eqb (fe_idx x) (fe_idx e)) fm1) eqn:Ex.
      + apply existsb_exists in Ex. destruct Ex as [x [Hx Exi]]. apply Nat.eqb_eq in Exi.
        assert (x = e) by (apply (nodup_map_inj fe_idx failed x e Hnd (Sub1' x Hx) He Exi)). subst x.
        apply blockcmp_hash. apply (V e Hx (F6 Ho) Hu0).
      + rewrite Out; [rewrite Hv; apply (Hfetch e b Hs)|].
        intro X. apply in_map_iff in X. destruct X as [x [Exi Hx]].
        assert (Y : existsb (fun x => Nat.eqb (fe_idx x) (fe_idx e)) fm1 = true) by (apply existsb_exists; exists x; split; [exact Hx | apply Nat.eqb_eq; exact Exi]).
        congruence.
  Qed.
End RepairVerified.

(* ---------------------------------------------------------------------------------------------------------- *)
(* the stripe step on an arbitrary stripe                                                                       *)
(* ---------------------------------------------------------------------------------------------------------- *)
Section Pending.
  Variable hashf : bid -> N -> hval.
  Variable padz : bid -> N -> bool.
  Variable truncf : bid -> N -> bid.
  Variable bs : N.
  Variable nlev : nat.
  Variable newino : nat -> N -> N.
  Variable now : Z.

  Notation stripe_step := (stripe_step hashf padz truncf bs nlev false newino now).
  Notation data_step := (data_step hashf bs newino now).
  Notation data_phase := (data_phase hashf bs newino now).
  Notation cutf := (cutf bs now).

  (* ---- opening a file, fix mode: always succeeds; the file is created empty when absent, cut back when larger than recorded
          and opened for the first time, left alone otherwise ------------------------------------------------------------- *)
  Definition cut_cond (s : rstate) (j : nat) (f : cfile) (g : fsfile) : bool :=
    (cf_size f <? ff_size g)%N && negb (fl_opened (get_fl (r_flags s) (j, cf_name f))).
  Definition opened_file (s : rstate) (j : nat) (f : cfile) : fsfile :=
    match fs_find (r_fs s) j (cf_name f) with
    | Some g => if cut_cond s j f g then cutf f g else g
    | None => mkFF (cf_name f) 0 now 0 (newino j (cf_name f)) [] end.

  Lemma open_fix_gen o pos j f s :
    plain nlev o -> co_fix o = true -> j < length (r_fs s) ->
    exists s4, open_step bs newino now o pos j f s = Some s4
      /\ r_par s4 = r_par s /\ length (r_fs s4) = length (r_fs s)
      /\ (r_unrec s4 = r_unrec s /\ forall k, fl_damaged (get_fl (r_flags s4) k) = fl_damaged (get_fl (r_flags s) k))
      /\ ((forall g, fs_find (r_fs s) j (cf_name f) = Some g -> cut_cond s j f g = false) ->
          fl_fixed (get_fl (r_flags s4) (j, cf_name f)) = fl_fixed (get_fl (r_flags s) (j, cf_name f)))
      /\ fs_find (r_fs s4) j (cf_name f) = Some (opened_file s j f)
      /\ (forall j' n', (j', n') <> (j, cf_name f) -> fs_find (r_fs s4) j' n' = fs_find (r_fs s) j' n')
      /\ (forall k', k' <> (j, cf_name f) -> get_fl (r_flags s4) k' = get_fl (r_flags s) k').
  Proof.
    intros Hp Hfix Hj. unfold opened_file.
    destruct (fs_find (r_fs s) j (cf_name f)) as [g|] eqn:Eg.
    - unfold cut_cond. destruct (cf_size f <? ff_size g)%N eqn:El; [destruct (fl_opened (get_fl (r_flags s) (j, cf_name f))) eqn:Eo|]; cbn [andb negb].
      + (* larger, already opened: left alone *)
        exists (rs_flag s (j, cf_name f) fl_set_opened). split.
        { unfold open_step. rewrite (plain_not_excl nlev o j _ Hp), Eg, (pl_synced nlev o Hp), Hfix. cbn [negb andb orb]. rewrite Eg, Eo. cbn [negb andb]. reflexivity. }
        split; [reflexivity|]. split; [reflexivity|].
        split; [split; [reflexivity | intro k; apply (rs_flag_keeps s (j, cf_name f) fl_set_opened keeps_opened k)]|].
        split; [intros _; apply (rs_flag_keeps s (j, cf_name f) fl_set_opened keeps_opened (j, cf_name f))|].
        cbn [r_par r_fs rs_flag rs_setfl]. split; [exact Eg|]. split; [reflexivity|].
        intros k' Hk. apply (rs_flag_other s (j, cf_name f) fl_set_opened k' Hk).
      + (* larger, first open: cut back *)
        apply N.ltb_lt in El.
        destruct (open_larger_fix bs nlev newino now o pos j f s g Hp Hfix Eg El Eo) as [s4 [E1 [E2 [_ [_ [_ [Eu [E3 [_ [_ [Edm E4]]]]]]]]]]].
        exists s4. split; [exact E1|]. split; [exact E3|]. rewrite E2. split; [apply fs_put_length|].
        split; [split; [exact Eu|]; intro k; destruct (fkey_eqb k (j, cf_name f)) eqn:Ek;
                [apply fkey_eqb_eq in Ek; subst k; exact Edm | rewrite E4; [reflexivity | intro X; subst k; rewrite fkey_eqb_refl in Ek; discriminate Ek]]|].
        split; [intro Hnc; specialize (Hnc g eq_refl);
                assert (Y : (cf_size f <? ff_size g)%N = true) by (apply N.ltb_lt; exact El); rewrite Y in Hnc; discriminate Hnc|].
        split; [unfold GrownProofs.cutf; apply fs_find_put_mk; exact Hj|]. split; [|exact E4].
        intros j' n' Hne. apply fs_find_put_other. exact Hne.
      + (* not larger *)
        apply N.ltb_ge in El.
        destruct (open_present bs nlev newino now o pos j f s g Hp Eg El (or_introl Hfix)) as [s4 [E1 [E2 Hc]]].
        exists s4. split; [exact E1|]. destruct Hc as [C1 [Cu [_ [_ [_ [_ [C2 Cb]]]]]]]. split; [exact C1|]. split; [exact C2|].
        split; [split; [exact Cu | intro k; apply (Cb k)]|]. split; [intros _; apply (Cb (j, cf_name f))|]. rewrite E2.
        split; [exact Eg|]. split; [reflexivity|]. intros k' Hk. apply (open_step_other_flags bs newino now o pos j f s s4 k' E1 Hk).
    - destruct (open_absent_fix bs nlev newino now o pos j f s Hp Hfix Eg Hj) as [s4 [E1 [E2 Hc]]].
      exists s4. split; [exact E1|]. destruct Hc as [C1 [Cu [_ [_ [_ [_ [C2 Cb]]]]]]]. split; [exact C1|]. split; [exact C2|].
      split; [split; [exact Cu | intro k; apply (Cb k)]|]. split; [intros _; apply (Cb (j, cf_name f))|]. rewrite E2.
      split; [apply fs_find_put_mk; exact Hj|]. split; [intros j' n' Hne; apply fs_find_put_other; exact Hne|].
      intros k' Hk. apply (open_step_other_flags bs newino now o pos j f s s4 k' E1 Hk).
  Qed.

  (* ---- one disk of the stripe, a file block in any state --------------------------------------------------------------- *)
  Lemma data_step_sfile o c pos a j d f idx b :
    plain nlev o -> co_fix o = true -> nth j (c_disks c) None = Some d -> slot_at d pos = SFile f idx b ->
    j < length (r_fs (da_st a)) ->
    exists s4 s' x fe v',
      open_step bs newino now o pos j f (da_st a) = Some s4
      /\ data_step o c pos a j = mkDA (da_buf a ++ [x]) (da_failed a ++ fe) v' true s'
      /\ (fe = [] \/ exists bad, fe = [ent j f idx b bad])
      (* no bad entry: the block was read and, unless it is a CHG block, it hashes to the recorded hash *)
      /\ ((forall e, In e fe -> fe_bad e = false) ->
          fb_state b = SChg \/ exists data, read_block bs s4 j f idx = Some data /\ hash_ok hashf bs f idx b data = true)
      (* ... and conversely *)
      /\ (forall data, read_block bs s4 j f idx = Some data -> (fb_state b <> SChg -> hash_ok hashf bs f idx b data = true) ->
                       forall e, In e fe -> fe_bad e = false)
      (* no bad entry: the block was read *)
      /\ ((forall e, In e fe -> fe_bad e = false) -> exists data, read_block bs s4 j f idx = Some data)
      /\ r_fs s' = r_fs s4 /\ r_flags s' = r_flags s4 /\ r_par s' = r_par s4 /\ r_unrec s' = r_unrec s4.
  Proof.
    intros Hp Hfix Hd Hs Hj.
    destruct (open_fix_gen o pos j f (da_st a) Hp Hfix Hj) as [s4 [Eo _]].
    exists s4. unfold FixModel.data_step. rewrite Hd, Hs, (pl_audit nlev o Hp). cbn [andb]. rewrite Eo.
    destruct (read_block bs s4 j f idx) as [data|].
    - destruct (fb_state b) eqn:Est.
      + destruct (hval_eqb (hashf data (block_len bs (cf_size f) idx)) (fb_hash b)) eqn:Eh; cbn [bstate_eqb].
        * do 4 eexists. split; [reflexivity|]. split; [reflexivity|]. split; [left; reflexivity|].
          split; [intros _; right; exists data; split; [reflexivity | exact Eh]|]. split; [intros d0 _ _ e []|]. split; [intros _; exists data; reflexivity | auto].
        * do 4 eexists. split; [reflexivity|]. split; [reflexivity|]. split; [right; exists true; unfold ent; rewrite Est; reflexivity|].
          split; [intro H; specialize (H _ (or_introl eq_refl)); discriminate H|].
          split; [intros d0 Hd0 Hh e _; injection Hd0 as Hd0; subst d0; unfold hash_ok in Hh; rewrite Eh in Hh; specialize (Hh ltac:(discriminate)); discriminate Hh|]. split; [intro H; specialize (H _ (or_introl eq_refl)); discriminate H | auto].
      + do 4 eexists. split; [reflexivity|]. split; [reflexivity|]. split; [right; exists false; unfold ent; rewrite Est; reflexivity|].
        split; [intros _; left; reflexivity|]. split; [intros d0 _ _ e [He|[]]; subst e; reflexivity|]. split; [intros _; exists data; reflexivity | auto].
      + destruct (hval_eqb (hashf data (block_len bs (cf_size f) idx)) (fb_hash b)) eqn:Eh; cbn [bstate_eqb].
        * do 4 eexists. split; [reflexivity|]. split; [reflexivity|]. split; [right; exists false; unfold ent; rewrite Est; reflexivity|].
          split; [intros _; right; exists data; split; [reflexivity | exact Eh]|]. split; [intros d0 _ _ e [He|[]]; subst e; reflexivity|]. split; [intros _; exists data; reflexivity | auto].
        * do 4 eexists. split; [reflexivity|]. split; [reflexivity|]. split; [right; exists true; unfold ent; rewrite Est; reflexivity|].
          split; [intro H; specialize (H _ (or_introl eq_refl)); discriminate H|].
          split; [intros d0 Hd0 Hh e _; injection Hd0 as Hd0; subst d0; unfold hash_ok in Hh; rewrite Eh in Hh; specialize (Hh ltac:(discriminate)); discriminate Hh|]. split; [intro H; specialize (H _ (or_introl eq_refl)); discriminate H | auto].
    - do 4 eexists. split; [reflexivity|]. split; [reflexivity|]. split; [right; exists true; reflexivity|].
      split; [intro H; specialize (H _ (or_introl eq_refl)); discriminate H|]. split; [intros d0 Hd0; discriminate Hd0|]. split; [intro H; specialize (H _ (or_introl eq_refl)); discriminate H | auto].
  Qed.

  (* ---- the loop over the disks, any stripe ---------------------------------------------------------------------------- *)
  Section DataP.
    Variable o : copts.
    Variable c : content.
    Variable pos : nat.
    Variable s : rstate.
    Hypothesis Hplain : plain nlev o.
    Hypothesis Hfix : co_fix o = true.
    Hypothesis Hlenfs : length (r_fs s) = length (c_disks c).

    (* the file system after the loop *)
    Definition fs_afterP (j' : nat) (n' : N) : option fsfile :=
      match slot_of c pos j' with
      | SFile f idx b => if N.eqb (cf_name f) n' then Some (opened_file s j' f) else fs_find (r_fs s) j' n'
      | _ => fs_find (r_fs s) j' n' end.

    (* an entry of the failed list: made for the block of its disk position *)
    Definition ent_ok (e : fent) : Prop :=
      fe_ood e = false
      /\ (fe_file e = None /\ fe_bad e = false
          \/ exists f idx b, slot_of c pos (fe_idx e) = SFile f idx b /\ e = ent (fe_idx e) f idx b (fe_bad e)).

    Record dinvP (k : nat) (a : dacc) : Prop := {
      dp_len : length (r_fs (da_st a)) = length (r_fs s);
      dp_buflen : length (da_buf a) = k;
      dp_par : r_par (da_st a) = r_par s;
      dp_unrec : r_unrec (da_st a) = r_unrec s;
      dp_dam : forall k', fl_damaged (get_fl (r_flags (da_st a)) k') = fl_damaged (get_fl (r_flags s) k');
      dp_fs : forall j' n', fs_find (r_fs (da_st a)) j' n' = if j' <? k then fs_afterP j' n' else fs_find (r_fs s) j' n';
      dp_hi : forall k', k <= fst k' -> get_fl (r_flags (da_st a)) k' = get_fl (r_flags s) k';
      dp_other : forall k', (forall f idx b, slot_of c pos (fst k') = SFile f idx b -> cf_name f <> snd k') ->
                            get_fl (r_flags (da_st a)) k' = get_fl (r_flags s) k';
      dp_ent : forall e, In e (da_failed a) -> fe_idx e < k /\ ent_ok e;
      (* a block that is not CHG and has no bad entry was read from the opened file and hashes to the recorded hash *)
      dp_good : forall j f idx b, slot_of c pos j = SFile f idx b -> j < k -> fb_state b <> SChg ->
                  (forall e, In e (da_failed a) -> fe_idx e = j -> fe_bad e = false) ->
                  hash_ok hashf bs f idx b (nth idx (ff_blocks (opened_file s j f)) 0%N) = true;
      (* a block that reads (and, unless CHG, hashes to the recorded hash) in a file that open does not cut has no bad entry, and
         its file is not flagged FIXED by the loop *)
      dp_readable : forall j f idx b, slot_of c pos j = SFile f idx b -> j < k ->
                  (forall e, In e (da_failed a) -> fe_idx e = j -> fe_bad e = false) ->
                  (N.of_nat idx * bs + block_len bs (cf_size f) idx <= ff_size (opened_file s j f))%N;
      dp_nobad : forall j f idx b, slot_of c pos j = SFile f idx b -> j < k ->
                   (exists y, read_block bs s j f idx = Some y /\ (fb_state b <> SChg -> hash_ok hashf bs f idx b y = true)) ->
                   (forall g, fs_find (r_fs s) j (cf_name f) = Some g -> cut_cond s j f g = false) ->
                   forall e, In e (da_failed a) -> fe_idx e = j -> fe_bad e = false;
      dp_nofix : forall j f idx b, slot_of c pos j = SFile f idx b -> j < k ->
                   (forall g, fs_find (r_fs s) j (cf_name f) = Some g -> cut_cond s j f g = false) ->
                   fl_fixed (get_fl (r_flags (da_st a)) (j, cf_name f)) = fl_fixed (get_fl (r_flags s) (j, cf_name f));
      dp_nd : NoDup (map fe_idx (da_failed a))
    }.

    Lemma dinvP_0 : dinvP 0 (mkDA [] [] true false s).
    Proof. constructor; cbn; auto; try (intros; lia); try constructor; try (intros e []). Qed.

    Lemma nodup_snoc (l : list nat) k : (forall x, In x l -> x < k) -> NoDup l -> NoDup (l ++ [k]).
    Proof.
      intros H Hn. induction l as [|x t IH]; cbn; [constructor; [intros [] | constructor]|].
      apply NoDup_cons_iff in Hn. destruct Hn as [Hx Ht]. constructor.
      - intro X. apply in_app_or in X. destruct X as [X|[X|[]]]; [contradiction|]. subst x. specialize (H k (or_introl eq_refl)). lia.
      - apply IH; [intros y Hy; apply H; right; exact Hy | exact Ht].
    Qed.

    Lemma dinvP_step k a : k < length (c_disks c) -> dinvP k a -> dinvP (S k) (data_step o c pos a k).
    Proof.
      intros Hk I.
      assert (Ekk : (k <? S k) = true) by (apply Nat.ltb_lt; lia).
      assert (Hidx : forall x, In x (map fe_idx (da_failed a)) -> x < k).
      { intros x Hx. apply in_map_iff in Hx. destruct Hx as [e [Ee He]]. subst x. apply (dp_ent k a I e He). }
      pose proof (slot_of_nth c pos k) as Hso.
      assert (Hpush : forall x fe v' u' st,
                 r_fs st = r_fs (da_st a) -> r_flags st = r_flags (da_st a) -> r_par st = r_par (da_st a) -> r_unrec st = r_unrec (da_st a) ->
                 (forall f idx b, slot_of c pos k <> SFile f idx b) ->
                 (fe = [] \/ exists h, fe = [mkFE false false k None h None]) ->
                 dinvP (S k) (mkDA (da_buf a ++ [x]) (da_failed a ++ fe) v' u' st)).
      { intros x fe v' u' st E1 E2 E3 E4 Hno Hfe. destruct I. constructor; cbn [da_buf da_failed da_valid da_used da_st].
        - rewrite E1. exact dp_len0.
        - rewrite app_length, dp_buflen0. cbn. lia.
        - rewrite E3. exact dp_par0.
        - rewrite E4. exact dp_unrec0.
        - intro k'. rewrite E2. apply dp_dam0.
        - intros j' n'. rewrite E1, dp_fs0. destruct (Nat.eq_dec j' k) as [E|E].
          + subst j'. rewrite Nat.ltb_irrefl, Ekk. unfold fs_afterP. destruct (slot_of c pos k) as [|f idx b|h]; try reflexivity. exfalso. apply (Hno f idx b eq_refl).
          + rewrite (ltb_S_other j' k E). reflexivity.
        - intros k' Hk'. rewrite E2. apply dp_hi0. lia.
        - intros k' H. rewrite E2. apply dp_other0. exact H.
        - intros e He. apply in_app_or in He. destruct He as [He|He].
          + destruct (dp_ent0 e He) as [X Y]. split; [lia | exact Y].
          + destruct Hfe as [Hfe|[h Hfe]]; subst fe; [contradiction|]. destruct He as [He|[]]. subst e. cbn. split; [lia|]. split; [reflexivity | left; auto].
        - intros j f idx b Hs Hj Hnc Hall. destruct (Nat.eq_dec j k) as [E|E]; [subst j; exfalso; apply (Hno f idx b Hs)|].
          apply (dp_good0 j f idx b Hs ltac:(lia) Hnc). intros e He. apply Hall. apply in_or_app. left. exact He.
        - intros j f idx b Hs Hj Hall. destruct (Nat.eq_dec j k) as [E|E]; [subst j; exfalso; apply (Hno f idx b Hs)|].
          apply (dp_readable0 j f idx b Hs ltac:(lia)). intros e He. apply Hall. apply in_or_app. left. exact He.
        - intros j f idx b Hs Hj Hrd Hnc e He Hi. destruct (Nat.eq_dec j k) as [E|E]; [rewrite E in Hs; exfalso; apply (Hno f idx b Hs)|].
          apply in_app_or in He. destruct He as [He|He]; [apply (dp_nobad0 j f idx b Hs ltac:(lia) Hrd Hnc e He Hi)|].
          destruct Hfe as [Hfe|[h Hfe]]; subst fe; [contradiction|]. destruct He as [He|[]]. subst e. reflexivity.
        - intros j f idx b Hs Hj Hnc. destruct (Nat.eq_dec j k) as [E|E]; [subst j; exfalso; apply (Hno f idx b Hs)|].
          rewrite E2. apply (dp_nofix0 j f idx b Hs ltac:(lia) Hnc).
        - rewrite map_app. destruct Hfe as [Hfe|[h Hfe]]; subst fe; cbn [map]; [rewrite app_nil_r; exact dp_nd0 | apply nodup_snoc; assumption]. }
      destruct (nth k (c_disks c) None) as [d|] eqn:Ed.
      2: { unfold FixModel.data_step. rewrite Ed. rewrite <- (app_nil_r (da_failed a)). apply Hpush; auto. intros f idx b X. rewrite Hso in X. discriminate X. }
      destruct (slot_at d pos) as [|f idx b|h] eqn:Esa.
      - unfold FixModel.data_step. rewrite Ed, Esa. rewrite <- (app_nil_r (da_failed a)). apply Hpush; auto. intros f idx b X. rewrite Hso in X. discriminate X.
      - (* a file block *)
        assert (Hkl : k < length (r_fs (da_st a))) by (rewrite (dp_len k a I), Hlenfs; exact Hk).
        destruct (data_step_sfile o c pos a k d f idx b Hplain Hfix Ed Esa Hkl) as [s4 [s' [x [fe [v' [Eo [Eds [Hfe [Hgd [Hcv [Hrdb [E1 [E2 [E3 E4]]]]]]]]]]]]]].
        destruct (open_fix_gen o pos k f (da_st a) Hplain Hfix Hkl) as [s4' [Eo' [O1 [O2 [[Ou Od] [Ofx [O3 [O4 O5]]]]]]]].
        rewrite Eo in Eo'. injection Eo' as Eo'. subst s4'.
        assert (Eof : opened_file (da_st a) k f = opened_file s k f).
        { unfold opened_file, cut_cond. rewrite (dp_fs k a I k (cf_name f)), Nat.ltb_irrefl. rewrite (dp_hi k a I (k, cf_name f)) by (cbn; lia). reflexivity. }
        rewrite Eds. destruct I. constructor; cbn [da_buf da_failed da_valid da_used da_st].
        + rewrite E1, O2. exact dp_len0.
        + rewrite app_length, dp_buflen0. cbn. lia.
        + rewrite E3, O1. exact dp_par0.
        + rewrite E4, Ou. exact dp_unrec0.
        + intro k'. rewrite E2, Od. apply dp_dam0.
        + intros j' n'. rewrite E1. destruct (Nat.eq_dec j' k) as [E|E].
          * subst j'. rewrite Ekk. unfold fs_afterP. rewrite Hso. destruct (N.eqb (cf_name f) n') eqn:En.
            -- apply N.eqb_eq in En. subst n'. rewrite O3, Eof. reflexivity.
            -- rewrite O4; [rewrite dp_fs0, Nat.ltb_irrefl; reflexivity|]. intro X. injection X as X. apply N.eqb_neq in En. congruence.
          * rewrite (ltb_S_other j' k E). rewrite O4 by (intro X; injection X as X1 X2; contradiction). apply dp_fs0.
        + intros k' Hk'. rewrite E2, O5; [apply dp_hi0; lia|]. intro X. subst k'. cbn in Hk'. lia.
        + intros k' H. rewrite E2, O5; [apply dp_other0; exact H|]. intro X. subst k'. apply (H f idx b Hso). reflexivity.
        + intros e He. apply in_app_or in He. destruct He as [He|He].
          * destruct (dp_ent0 e He) as [X Y]. split; [lia | exact Y].
          * destruct Hfe as [Hfe|[bad Hfe]]; subst fe; [contradiction|]. destruct He as [He|[]]. subst e. cbn [fe_idx ent]. split; [lia|].
            split; [reflexivity|]. right. exists f, idx, b. split; [exact Hso | reflexivity].
        + intros j f0 idx0 b0 Hs0 Hj Hnc Hall. destruct (Nat.eq_dec j k) as [E|E].
          * subst j. rewrite Hso in Hs0. injection Hs0 as X1 X2 X3. subst f0 idx0 b0.
            destruct Hgd as [Hc|[data [Hr Hh]]]; [|contradiction|].
            { intros e He. apply Hall; [apply in_or_app; right; exact He|].
              destruct Hfe as [Hfe|[bad Hfe]]; subst fe; [contradiction|]. destruct He as [He|[]]. subst e. reflexivity. }
            destruct (read_block_some bs s4 k f idx data Hr) as [g [Hg [Hy _]]]. rewrite O3 in Hg. injection Hg as Hg. subst g.
            rewrite <- Eof, <- Hy. exact Hh.
          * apply (dp_good0 j f0 idx0 b0 Hs0 ltac:(lia) Hnc). intros e He. apply Hall. apply in_or_app. left. exact He.
        + intros j f0 idx0 b0 Hs0 Hj Hall. destruct (Nat.eq_dec j k) as [E|E].
          * subst j. rewrite Hso in Hs0. injection Hs0 as X1 X2 X3. subst f0 idx0 b0.
            destruct Hrdb as [data Hr].
            { intros e He. apply Hall; [apply in_or_app; right; exact He|].
              destruct Hfe as [Hfe|[bad Hfe]]; subst fe; [contradiction|]. destruct He as [He|[]]. subst e. reflexivity. }
            destruct (read_block_some bs s4 k f idx data Hr) as [g [Hg [_ Hz]]]. rewrite O3 in Hg. injection Hg as Hg. subst g.
            rewrite <- Eof. exact Hz.
          * apply (dp_readable0 j f0 idx0 b0 Hs0 ltac:(lia)). intros e He. apply Hall. apply in_or_app. left. exact He.
        + intros j f0 idx0 b0 Hs0 Hj [y [Hry Hhy]] Hnc e He Hi. apply in_app_or in He. destruct He as [He|He].
          * destruct (Nat.eq_dec j k) as [E|E]; [destruct (dp_ent0 e He) as [X _]; lia|].
            apply (dp_nobad0 j f0 idx0 b0 Hs0 ltac:(lia) (ex_intro _ y (conj Hry Hhy)) Hnc e He Hi).
          * assert (Ej : j = k). { destruct Hfe as [Hfe|[bad Hfe]]; subst fe; [contradiction|]. destruct He as [He|[]]. subst e. cbn in Hi. auto. }
            clear Hi. subst j. rewrite Hso in Hs0. injection Hs0 as X1 X2 X3. subst f0 idx0 b0.
            apply (Hcv y); [|exact Hhy | exact He].
            (* the file opened is the file of s: not cut *)
            destruct (read_block_some bs s k f idx y Hry) as [g [Hg [Hy Hz]]].
            unfold read_block. rewrite O3, Eof. unfold opened_file. rewrite Hg, (Hnc g Hg).
            unfold read_block in Hry. rewrite Hg in Hry. exact Hry.
        + intros j f0 idx0 b0 Hs0 Hj Hnc. destruct (Nat.eq_dec j k) as [E|E].
          * subst j. rewrite Hso in Hs0. injection Hs0 as X1 X2 X3. subst f0 idx0 b0.
            rewrite E2, Ofx; [apply f_equal; apply dp_hi0; cbn; lia|].
            intros g Hg. rewrite (dp_fs0 k (cf_name f)), Nat.ltb_irrefl in Hg. unfold cut_cond. rewrite (dp_hi0 (k, cf_name f)) by (cbn; lia). apply (Hnc g Hg).
          * rewrite E2, O5 by (intro X; injection X as X1 X2; contradiction). apply (dp_nofix0 j f0 idx0 b0 Hs0 ltac:(lia) Hnc).
        + rewrite map_app. destruct Hfe as [Hfe|[bad Hfe]]; subst fe; cbn [map]; [rewrite app_nil_r; exact dp_nd0 | apply nodup_snoc; assumption].
      - unfold FixModel.data_step. rewrite Ed, Esa. apply Hpush; auto; [intros f idx b X; rewrite Hso in X; discriminate X | right; exists h; reflexivity].
    Qed.

    Lemma data_phase_P : dinvP (length (c_disks c)) (data_phase o c pos s).
    Proof.
      unfold FixModel.data_phase.
      assert (H : forall k, k <= length (c_disks c) -> dinvP k (fold_left (data_step o c pos) (seq 0 k) (mkDA [] [] true false s))).
      { induction k as [|k IH]; intro Hk; [apply dinvP_0|].
        rewrite seq_S, fold_left_app. cbn [fold_left plus]. apply dinvP_step; [lia | apply IH; lia]. }
      apply H. lia.
    Qed.
  End DataP.

  (* ---- DAMAGED is never cleared by a stripe step (any options, any stripe): FlagWalk.v ---------------------------------- *)
  Definition Rdam (s s' : rstate) : Prop := forall k, fl_damaged (get_fl (r_flags s) k) = true -> fl_damaged (get_fl (r_flags s') k) = true.
  Lemma Rdam_eq s s' : r_flags s' = r_flags s -> Rdam s s'.
  Proof. intros E k. rewrite E. auto. Qed.
  Lemma Rdam_set s k g : (forall x, fl_damaged x = true -> fl_damaged (g x) = true) -> Rdam s (rs_flag s k g).
  Proof.
    intros Hg k'. unfold rs_flag, rs_setfl. cbn [r_flags]. rewrite Rfl_get. destruct (fkey_eqb k k'); [apply Hg | auto].
  Qed.
  Lemma stripe_step_dam_mono reduced o c pos fs0 s : Rdam s (FixModel.stripe_step hashf padz truncf bs nlev reduced newino now o c fs0 s pos).
  Proof.
    apply (stripe_step_R hashf padz truncf bs nlev reduced newino now o c pos Rdam).
    - intros a b d H1 H2 k H. apply H2, H1, H.
    - intros s0 k H. exact H.
    - intros s0 s1 E _ _. apply Rdam_eq. exact E.
    - intros _ s0 s1 E. apply Rdam_eq. exact E.
    - intros s0 k g Hok. apply Rdam_set. inversion Hok; subst; intros x Hx; cbn; auto.
    - intros s0 j f _ _. apply Rdam_set. intros x Hx. cbn. exact Hx.
  Qed.

  (* ---- the write-back, any list of entries with distinct disk positions --------------------------------------------------- *)
  Notation wstep := (wstep padz truncf bs now).
  Definition wbv (f : cfile) (idx : nat) (x : bid) : bid :=
    if pad_ok padz bs x (block_len bs (cf_size f) idx) then x else truncf x (block_len bs (cf_size f) idx).

  Lemma write_block_blocks g f idx x :
    nth idx (ff_blocks (write_block padz truncf bs now g f idx x)) 0%N = wbv f idx x
    /\ forall i, i <> idx -> nth i (ff_blocks (write_block padz truncf bs now g f idx x)) 0%N = nth i (ff_blocks g) 0%N.
  Proof.
    unfold write_block, wbv. cbn [ff_blocks]. split; [apply nth_set_ext_same | intros i Hi; apply nth_set_ext_other; exact Hi].
  Qed.

  Lemma write_block_size g f idx x :
    (ff_size g <= ff_size (write_block padz truncf bs now g f idx x))%N
    /\ (ff_size (write_block padz truncf bs now g f idx x) <= N.max (ff_size g) (N.of_nat idx * bs + block_len bs (cf_size f) idx))%N
    /\ (N.of_nat idx * bs + block_len bs (cf_size f) idx <= ff_size (write_block padz truncf bs now g f idx x))%N.
  Proof.
    unfold write_block. cbn [ff_size].
    destruct (ff_size g <? N.of_nat idx * bs + block_len bs (cf_size f) idx)%N eqn:E; [apply N.ltb_lt in E | apply N.ltb_ge in E]; repeat split; lia.
  Qed.

  Lemma wstep_frame o pos buf st e :
    plain nlev o ->
    let s' := wstep o pos buf st e in
    r_par s' = r_par st /\ length (r_fs s') = length (r_fs st) /\ Rdam st s'
    /\ (r_unrec s' = r_unrec st /\ (fe_bad e && fe_ood e = false -> forall k, fl_damaged (get_fl (r_flags s') k) = fl_damaged (get_fl (r_flags st) k)))
    /\ (forall j n, (fe_bad e = true -> forall f i, fe_file e = Some (f, i) -> (j, n) <> (fe_idx e, cf_name f)) ->
                    fs_find (r_fs s') j n = fs_find (r_fs st) j n)
    /\ (forall f i g, fe_bad e = true -> fe_file e = Some (f, i) -> fs_find (r_fs st) (fe_idx e) (cf_name f) = Some g ->
                      fs_find (r_fs s') (fe_idx e) (cf_name f) = Some (write_block padz truncf bs now g f i (vnth buf (fe_idx e)))
                      /\ (fe_ood e = true -> fl_damaged (get_fl (r_flags s') (fe_idx e, cf_name f)) = true)).
  Proof.
    intro Hp. cbn zeta. unfold StripeProofs.wstep.
    destruct (fe_bad e); cbn [negb].
    2: { split; [reflexivity|]. split; [reflexivity|]. split; [intros k H; exact H|]. split; [split; [reflexivity | intros _ k; reflexivity]|]. split; [reflexivity|]. intros f i g X. discriminate X. }
    destruct (fe_file e) as [[f i]|].
    2: { split; [reflexivity|]. split; [reflexivity|]. split; [intros k H; exact H|]. split; [split; [reflexivity | intros _ k; reflexivity]|]. split; [reflexivity|]. intros f i g _ X. discriminate X. }
    rewrite (plain_not_excl nlev o _ _ Hp), (pl_synced nlev o Hp). cbn [orb andb].
    set (j := fe_idx e).
    assert (Hfs : forall s1, (s1 = st \/ exists g, fs_find (r_fs st) j (cf_name f) = Some g /\ s1 = rs_setfs st (fs_put (r_fs st) j (write_block padz truncf bs now g f i (vnth buf j)))) ->
              match fs_find (r_fs st) j (cf_name f) with Some g => rs_setfs st (fs_put (r_fs st) j (write_block padz truncf bs now g f i (vnth buf j))) | None => st end = s1 ->
              r_par s1 = r_par st /\ length (r_fs s1) = length (r_fs st) /\ (r_flags s1 = r_flags st /\ r_unrec s1 = r_unrec st)
              /\ (forall j' n', (j', n') <> (j, cf_name f) -> fs_find (r_fs s1) j' n' = fs_find (r_fs st) j' n')
              /\ (forall g, fs_find (r_fs st) j (cf_name f) = Some g -> fs_find (r_fs s1) j (cf_name f) = Some (write_block padz truncf bs now g f i (vnth buf j)))).
    { intros s1 _ E. destruct (fs_find (r_fs st) j (cf_name f)) as [g|] eqn:Eg; subst s1.
      - cbn [r_par r_fs r_flags r_unrec rs_setfs]. split; [reflexivity|]. split; [apply fs_put_length|]. split; [split; reflexivity|]. split.
        + intros j' n' Hne. apply (fs_find_put_other (r_fs st) j (write_block padz truncf bs now g f i (vnth buf j)) j' n'). cbn [ff_name write_block].
          rewrite (fs_find_name _ _ _ _ Eg). exact Hne.
        + intros g0 X. injection X as X. subst g0.
          assert (Hj : j < length (r_fs st)).
          { unfold fs_find in Eg. destruct (Nat.lt_ge_cases j (length (r_fs st))) as [H|H]; [exact H|]. rewrite (nth_overflow (r_fs st) None H) in Eg. discriminate. }
          pose proof (fs_find_put_same (r_fs st) j (write_block padz truncf bs now g f i (vnth buf j)) Hj) as X. cbn [ff_name write_block] in X.
          rewrite (fs_find_name _ _ _ _ Eg) in X. exact X.
      - repeat split; auto. intros g X. discriminate X. }
    set (s1 := match fs_find (r_fs st) j (cf_name f) with Some g => rs_setfs st (fs_put (r_fs st) j (write_block padz truncf bs now g f i (vnth buf j))) | None => st end).
    destruct (Hfs s1) as [A1 [A2 [[A3 A3u] [A4 A5]]]]; [unfold s1; destruct (fs_find (r_fs st) j (cf_name f)) as [g|]; [right; exists g; auto | left; reflexivity] | reflexivity|].
    assert (Hd : forall (g : fflags -> fflags), (forall x, fl_damaged x = true -> fl_damaged (g x) = true) -> Rdam st (rs_flag s1 (j, cf_name f) g)).
    { intros g Hg k H. unfold rs_flag, rs_setfl. cbn [r_flags]. rewrite Rfl_get. rewrite A3. destruct (fkey_eqb (j, cf_name f) k); [apply Hg; exact H | exact H]. }
    destruct (fe_ood e).
    - cbn [r_par r_fs rs_flag rs_setfl]. split; [exact A1|]. split; [exact A2|]. split; [apply Hd; intros x Hx; reflexivity|].
      split; [split; [exact A3u | intro X; discriminate X]|]. split.
      + intros j' n' Hne. apply A4. apply (Hne eq_refl f i eq_refl).
      + intros f0 i0 g _ X Hg. injection X as X1 X2. subst f0 i0. split; [apply A5; exact Hg|]. intros _. unfold rs_flag, rs_setfl. cbn [r_flags]. rewrite get_set_same. reflexivity.
    - cbn [r_par r_fs rs_recov rs_tag rs_flag rs_setfl]. split; [exact A1|]. split; [exact A2|]. split; [apply (Hd fl_set_fixed); intros x Hx; exact Hx|].
      split; [split; [exact A3u|]; intros _ k; unfold rs_recov, rs_tag, rs_flag, rs_setfl; cbn [r_flags]; rewrite Rfl_get, A3; destruct (fkey_eqb (j, cf_name f) k); reflexivity|]. split.
      + intros j' n' Hne. apply A4. apply (Hne eq_refl f i eq_refl).
      + intros f0 i0 g _ X Hg. injection X as X1 X2. subst f0 i0. split; [apply A5; exact Hg|]. intro X. discriminate X.
  Qed.

  Lemma wfoldP o pos buf : plain nlev o -> forall l st, NoDup (map fe_idx l) ->
    let s' := fold_left (wstep o pos buf) l st in
    r_par s' = r_par st /\ length (r_fs s') = length (r_fs st) /\ Rdam st s'
    /\ (r_unrec s' = r_unrec st /\ ((forall e, In e l -> fe_bad e && fe_ood e = false) -> forall k, fl_damaged (get_fl (r_flags s') k) = fl_damaged (get_fl (r_flags st) k)))
    /\ (forall j n, (forall e f i, In e l -> fe_bad e = true -> fe_file e = Some (f, i) -> (j, n) <> (fe_idx e, cf_name f)) ->
                    fs_find (r_fs s') j n = fs_find (r_fs st) j n)
    /\ (forall e f i g, In e l -> fe_bad e = true -> fe_file e = Some (f, i) -> fs_find (r_fs st) (fe_idx e) (cf_name f) = Some g ->
                        fs_find (r_fs s') (fe_idx e) (cf_name f) = Some (write_block padz truncf bs now g f i (vnth buf (fe_idx e)))
                        /\ (fe_ood e = true -> fl_damaged (get_fl (r_flags s') (fe_idx e, cf_name f)) = true)).
  Proof.
    intro Hp. induction l as [|e0 t IH]; intros st Hnd; cbn [fold_left].
    - cbn zeta. split; [reflexivity|]. split; [reflexivity|]. split; [intros k H; exact H|]. split; [split; [reflexivity | intros _ k; reflexivity]|]. split; [reflexivity|]. intros e f i g [].
    - cbn [map] in Hnd. apply NoDup_cons_iff in Hnd. destruct Hnd as [Hnin Hnd].
      destruct (wstep_frame o pos buf st e0 Hp) as [A1 [A2 [A3 [[Au Ad] [A4 A5]]]]]. cbn zeta in A1, A2, A3, Au, Ad, A4, A5.
      set (s1 := wstep o pos buf st e0) in *.
      destruct (IH s1 Hnd) as [B1 [B2 [B3 [[Bu Bd] [B4 B5]]]]]. cbn zeta in B1, B2, B3, Bu, Bd, B4, B5. cbn zeta.
      assert (Hoth : forall e, In e t -> fe_idx e <> fe_idx e0) by (intros e He X; apply Hnin; rewrite <- X; apply in_map; exact He).
      split; [congruence|]. split; [congruence|]. split; [intros k H; apply B3, A3, H|].
      split; [split; [congruence|]; intros Hall k; rewrite Bd by (intros e He; apply Hall; right; exact He); apply Ad; apply Hall; left; reflexivity|]. split.
      + intros j n Hne. rewrite B4 by (intros e f i He; apply Hne; right; exact He).
        apply A4. intros Hb f i Hf. apply (Hne e0 f i (or_introl eq_refl) Hb Hf).
      + intros e f i g [E|He] Hb Hf Hg.
        * subst e0. destruct (A5 f i g Hb Hf Hg) as [X1 X2].
          assert (Y : forall e' f' i', In e' t -> fe_bad e' = true -> fe_file e' = Some (f', i') -> (fe_idx e, cf_name f) <> (fe_idx e', cf_name f')).
          { intros e' f' i' He' _ _ X. injection X as X _. apply (Hoth e' He'). symmetry. exact X. }
          split; [rewrite (B4 _ _ Y); exact X1|]. intro Ho. apply B3. apply X2. exact Ho.
        * apply (B5 e f i g He Hb Hf). rewrite A4; [exact Hg|].
          intros _ f0 i0 _ X. injection X as X _. apply (Hoth e He). exact X.
  Qed.


  (* ---- status:recovered is only said by file_post: FlagWalk.v's walk replayed for "no new status:recovered line" ------------- *)
  Definition Rn (s s' : rstate) : Prop := forall t, In t (r_tags s') -> fst t = K_ST_RECOVERED -> In t (r_tags s).
  Lemma Rn_refl s : Rn s s.
  Proof. intros t H _. exact H. Qed.
  Lemma Rn_trans a b d : Rn a b -> Rn b d -> Rn a d.
  Proof. intros H1 H2 t H Hk. apply (H1 t (H2 t H Hk) Hk). Qed.
  Lemma Rn_ext s s' ext : r_tags s' = r_tags s ++ ext -> Forall (fun t => fst t <> K_ST_RECOVERED) ext -> Rn s s'.
  Proof.
    intros E Hf t Ht Hk. rewrite E in Ht. apply in_app_or in Ht. destruct Ht as [Ht|Ht]; [exact Ht|].
    rewrite Forall_forall in Hf. exfalso. apply (Hf t Ht Hk).
  Qed.
  Ltac solve_rn :=
    intros ?t ?Ht ?Hk; cbn [r_tags rs_tag rs_err rs_recov rs_unrec rs_setfs rs_setjn rs_setpar rs_flag rs_setfl] in *;
    first [assumption
          | match goal with H : In _ (_ ++ _) |- _ =>
              apply in_app_or in H; destruct H as [H|H]; [exact H | exfalso; cbn in H;
                repeat (match goal with H0 : _ \/ _ |- _ => destruct H0 as [H0|H0] end);
                try contradiction; subst; cbn in *; discriminate] end].

  Section RecWalk.
    Variable o : copts.
    Variable c : content.
    Variable pos : nat.

  Ltac walk :=
    repeat match goal with
    | |- Rn _ _ => assumption
    | |- Rn ?a ?a => apply Rn_refl
    | |- Rn _ (rs_flag ?x _ _) => apply (Rn_trans _ x); [| solve_rn]
    | |- Rn _ (rs_tag ?x _) => apply (Rn_trans _ x); [| solve_rn]
    | |- Rn _ (rs_err ?x _) => apply (Rn_trans _ x); [| solve_rn]
    | |- Rn _ (rs_recov ?x _) => apply (Rn_trans _ x); [| solve_rn]
    | |- Rn _ (rs_unrec ?x _) => apply (Rn_trans _ x); [| solve_rn]
    | |- Rn _ (rs_setfs ?x _) => apply (Rn_trans _ x); [| solve_rn]
    | |- Rn _ (rs_setjn ?x _) => apply (Rn_trans _ x); [| solve_rn]
    | |- Rn _ (rs_setpar ?x _) => apply (Rn_trans _ x); [| solve_rn]
    | |- Rn _ (if ?b then _ else _) => destruct b
    | |- Rn _ (match ?x with Some _ => _ | None => _ end) => destruct x
    end.

  Lemma fold_Rn {A} (f : rstate -> A -> rstate) : (forall s x, Rn s (f s x)) -> forall l s, Rn s (fold_left f l s).
  Proof.
    intro H. induction l as [|x t IH]; intro s; [apply Rn_refl|]. cbn [fold_left].
    apply (Rn_trans _ (f s x)); [apply H | apply IH].
  Qed.
  Lemma fold_pair_Rn {A B} (f : B * rstate -> A -> B * rstate) :
    (forall acc x, Rn (snd acc) (snd (f acc x))) -> forall l acc, Rn (snd acc) (snd (fold_left f l acc)).
  Proof.
    intro H. induction l as [|x t IH]; intro acc; [apply Rn_refl|]. cbn [fold_left].
    apply (Rn_trans _ (snd (f acc x))); [apply H | apply IH].
  Qed.

  Lemma open_Rn j f s0 s4 : Kpos c pos (j, cf_name f) -> open_step bs newino now o pos j f s0 = Some s4 -> Rn s0 s4.
  Proof.
    intros HK H. unfold open_step in H.
    destruct (bool_dec (co_fix o) true) as [Efix|Efix].
    - destruct (negb (co_fix o && negb (is_excl o j (cf_name f))) && _) in H; [discriminate|].
      match type of H with match ?x with Some _ => _ | None => _ end = _ => destruct x as [g0|]; [|discriminate] end.
      injection H as H. subst s4. walk.
    - apply not_true_is_false in Efix. rewrite Efix in H. destruct (fs_find (r_fs s0) j (cf_name f)) as [g|] eqn:Ep.
      + cbn [andb negb orb] in H. destruct (fl_missing _) in H; [discriminate|]. cbv beta iota in H. rewrite Ep in H.
        injection H as H. subst s4. walk.
      + cbn [andb negb orb] in H. rewrite orb_true_r in H. discriminate.
  Qed.

  Lemma data_step_Rn a j : Rn (da_st a) (da_st (data_step o c pos a j)).
  Proof.
    unfold data_step. destruct (nth j (c_disks c) None) as [d|] eqn:En; [|apply Rn_refl].
    destruct (slot_at d pos) as [|f idx b|h] eqn:Es; try (apply Rn_refl).
    assert (HK : Kpos c pos (j, cf_name f)).
    { exists f, idx, b. cbn [fst snd]. rewrite slot_of_nth, En, Es. auto. }
    destruct (co_audit o && is_excl o j (cf_name f)); [apply Rn_refl|].
    destruct (open_step bs newino now o pos j f (da_st a)) as [s4|] eqn:Eo.
    - pose proof (open_Rn j f (da_st a) s4 HK Eo) as X.
      destruct (read_block bs s4 j f idx); [|cbn [da_st]; walk].
      destruct (fb_state b); try (destruct (hval_eqb _ _)); cbn [da_st]; walk.
    - cbn [da_st]. walk.
  Qed.

  Lemma data_phase_Rn s : Rn s (da_st (data_phase o c pos s)).
  Proof.
    unfold data_phase.
    assert (H : forall l a, Rn (da_st a) (da_st (fold_left (data_step o c pos) l a))).
    { induction l as [|x t IH]; intro a; [apply Rn_refl|]. cbn [fold_left].
      apply (Rn_trans _ (da_st (data_step o c pos a x))); [apply data_step_Rn | apply IH]. }
    apply (H _ (mkDA [] [] true false s)).
  Qed.

  Lemma parity_phase_Rn s : Rn s (snd (parity_phase nlev o pos s)).
  Proof.
    unfold parity_phase. refine (fold_pair_Rn _ _ _ ([], s)). intros [r st] l. cbn beta iota.
    destruct (nth l (co_popen o) false); [destruct (nth pos (nth l (r_par st) []) PNone)|]; cbn [snd]; walk.
  Qed.
  Lemma compare_phase_Rn rec buf s : Rn s (snd (compare_phase nlev pos rec buf s)).
  Proof.
    unfold compare_phase. refine (fold_pair_Rn _ _ _ ([], s)). intros [r st] l. cbn beta iota zeta.
    destruct (negb _ && negb _); cbn [snd]; walk.
  Qed.
  Lemma write_phase_Rn failed buf s : co_fix o = true -> Rn s (write_phase padz truncf bs now o pos failed buf s).
  Proof.
    intro Efix. unfold write_phase. apply fold_Rn. intros st e.
    destruct (negb (fe_bad e)); [walk|]. destruct (fe_file e) as [[f i]|]; [|walk].
    destruct (is_excl o (fe_idx e) (cf_name f) || _); [walk|]. walk.
  Qed.
  Lemma parity_write_Rn rec2 buf s : co_fix o = true -> Rn s (parity_write_phase nlev o pos rec2 buf s).
  Proof. intro Efix. unfold parity_write_phase. apply fold_Rn. intros st l. walk. Qed.

  Lemma ok_body_Rn failed' rec buf cp s1b : co_fix o = true -> Rn s1b (ok_body padz truncf bs nlev now o pos failed' rec buf cp s1b).
  Proof.
    intro Hfix. unfold ok_body. cbv zeta.
    set (partial := filter (fun e => fe_bad e && fe_ood e) failed').
    set (s3 := fold_left _ partial s1b).
    assert (X3 : Rn s1b s3) by (apply fold_Rn; intros st e; destruct (fe_file e) as [[f i]|]; walk).
    set (s4 := match partial with [] => s3 | _ => rs_unrec (rs_err s3 (length partial)) 1 end).
    assert (X4 : Rn s1b s4) by (unfold s4; destruct partial; walk).
    destruct cp.
    - pose proof (compare_phase_Rn rec buf s4) as Cp. destruct (compare_phase nlev pos rec buf s4) as [rec2 s5]. cbn [snd] in Cp.
      rewrite Hfix. apply (Rn_trans _ (write_phase padz truncf bs now o pos failed' buf s5)); [|apply parity_write_Rn; exact Hfix].
      apply (Rn_trans _ s5); [apply (Rn_trans _ s4); assumption | apply write_phase_Rn; exact Hfix].
    - rewrite Hfix. apply (Rn_trans _ s4); [exact X4 | apply write_phase_Rn; exact Hfix].
  Qed.

  Lemma fail_body_Rn res failed' s1b : Rn s1b (fail_body pos res failed' s1b).
  Proof.
    unfold fail_body. cbv zeta.
    match goal with |- Rn _ (fold_left _ _ (fold_left _ _ ?s3)) => assert (X3 : Rn s1b s3) by walk end.
    match goal with |- Rn _ (fold_left _ _ ?s4) => apply (Rn_trans _ s4) end.
    - match goal with |- Rn _ (fold_left _ _ ?s3) => apply (Rn_trans _ s3); [exact X3|] end. apply fold_Rn. intros st [[j f] i]. walk.
    - apply fold_Rn. intros st [[j f] i]. walk.
  Qed.

  End RecWalk.

  (* a rebuilt block that is not the stale old block of the CHG slot (pos, j): whatever block ob the past hash of the slot speaks
     of (past_hash_inv), x is not ob *)
  Definition NotOld (j : nat) (f : cfile) (idx : nat) (b : fblock) (x : bid) : Prop :=
    forall ob, past_hash_inv hashf padz bs (ent j f idx b true) ob -> x <> ob.

  Lemma fold_partial_frame pos (l : list fent) : forall st,
    let s' := fold_left (fun s e => match fe_file e with
                                    | Some (f, i) => rs_tag s [tg K_UNREC_UNSYNC [pos; fe_idx e] [cf_name f; N.of_nat i]]
                                    | None => s end) l st in
    r_fs s' = r_fs st /\ r_flags s' = r_flags st /\ r_par s' = r_par st /\ r_unrec s' = r_unrec st.
  Proof.
    induction l as [|e t IH]; intro st; cbn [fold_left]; [auto|].
    destruct (fe_file e) as [[f i]|]; [|apply IH].
    destruct (IH (rs_tag st [tg K_UNREC_UNSYNC [pos; fe_idx e] [cf_name f; N.of_nat i]])) as [A [B [C D]]]. cbn zeta in *. rewrite A, B, C, D. auto.
  Qed.

  Lemma filter_nil_inv {A} (f : A -> bool) l : filter f l = [] -> forall x, In x l -> f x = false.
  Proof.
    induction l as [|y t IH]; intros H x Hx; [contradiction|]. cbn [filter] in H. destruct (f y) eqn:E; [discriminate H|].
    destruct Hx as [Hx|Hx]; [subst; exact E | apply IH; assumption].
  Qed.

  (* the step after a successful repair, before file_post: only the write-back touches files and DAMAGED flags *)
  Lemma ok_body_frame o pos failed' rec buf cp s1b :
    plain nlev o -> co_fix o = true -> NoDup (map fe_idx failed') ->
    let s7 := ok_body padz truncf bs nlev now o pos failed' rec buf cp s1b in
    length (r_fs s7) = length (r_fs s1b) /\ Rdam s1b s7
    /\ (r_unrec s1b <= r_unrec s7 /\ (r_unrec s7 = r_unrec s1b -> forall k, fl_damaged (get_fl (r_flags s7) k) = fl_damaged (get_fl (r_flags s1b) k)))
    /\ (length (r_par s7) = length (r_par s1b) /\ (forall l p, p <> pos -> nth p (nth l (r_par s7) []) PNone = nth p (nth l (r_par s1b) []) PNone)
        /\ forall k, fl_opened (get_fl (r_flags s7) k) = fl_opened (get_fl (r_flags s1b) k))
    /\ (forall j n, (forall e f i, In e failed' -> fe_bad e = true -> fe_file e = Some (f, i) -> (j, n) <> (fe_idx e, cf_name f)) ->
                    fs_find (r_fs s7) j n = fs_find (r_fs s1b) j n)
    /\ (forall e f i g, In e failed' -> fe_bad e = true -> fe_file e = Some (f, i) -> fs_find (r_fs s1b) (fe_idx e) (cf_name f) = Some g ->
                        fs_find (r_fs s7) (fe_idx e) (cf_name f) = Some (write_block padz truncf bs now g f i (vnth buf (fe_idx e)))
                        /\ (fe_ood e = true -> fl_damaged (get_fl (r_flags s7) (fe_idx e, cf_name f)) = true)).
  Proof.
    intros Hp Hfix Hnd. cbn zeta. unfold ok_body. cbv zeta.
    set (partial := filter (fun e => fe_bad e && fe_ood e) failed').
    destruct (fold_partial_frame pos partial s1b) as [A1 [A2 [A3 A4]]]. cbn zeta in A1, A2, A3, A4.
    set (s3 := fold_left _ partial s1b) in *.
    set (s4 := match partial with [] => s3 | _ => rs_unrec (rs_err s3 (length partial)) 1 end).
    set (d := match partial with [] => 0 | _ => 1 end).
    assert (B : r_fs s4 = r_fs s1b /\ r_flags s4 = r_flags s1b /\ r_unrec s4 = r_unrec s1b + d /\ r_par s4 = r_par s1b) by (unfold s4, d; destruct partial; cbn; rewrite ?A4; auto).
    destruct B as [B1 [B2 [B3 B4]]].
    assert (Hd0 : d = 0 -> forall e, In e failed' -> fe_bad e && fe_ood e = false).
    { intros Hd e He. apply (filter_nil_inv (fun e => fe_bad e && fe_ood e) failed'); [|exact He]. fold partial. unfold d in Hd. destruct partial; [reflexivity | discriminate Hd]. }
    assert (Hmain : forall s5, r_fs s5 = r_fs s1b -> r_flags s5 = r_flags s1b -> r_unrec s5 = r_unrec s1b + d -> r_par s5 = r_par s1b ->
              forall s7, (s7 = write_phase padz truncf bs now o pos failed' buf s5
                          \/ exists rec2, s7 = parity_write_phase nlev o pos rec2 buf (write_phase padz truncf bs now o pos failed' buf s5)) ->
              length (r_fs s7) = length (r_fs s1b) /\ Rdam s1b s7
              /\ (r_unrec s1b <= r_unrec s7 /\ (r_unrec s7 = r_unrec s1b -> forall k, fl_damaged (get_fl (r_flags s7) k) = fl_damaged (get_fl (r_flags s1b) k)))
          /\ (length (r_par s7) = length (r_par s1b) /\ (forall l p, p <> pos -> nth p (nth l (r_par s7) []) PNone = nth p (nth l (r_par s1b) []) PNone)
        /\ forall k, fl_opened (get_fl (r_flags s7) k) = fl_opened (get_fl (r_flags s1b) k))
              /\ (forall j n, (forall e f i, In e failed' -> fe_bad e = true -> fe_file e = Some (f, i) -> (j, n) <> (fe_idx e, cf_name f)) ->
                              fs_find (r_fs s7) j n = fs_find (r_fs s1b) j n)
              /\ (forall e f i g, In e failed' -> fe_bad e = true -> fe_file e = Some (f, i) -> fs_find (r_fs s1b) (fe_idx e) (cf_name f) = Some g ->
                                  fs_find (r_fs s7) (fe_idx e) (cf_name f) = Some (write_block padz truncf bs now g f i (vnth buf (fe_idx e)))
                                  /\ (fe_ood e = true -> fl_damaged (get_fl (r_flags s7) (fe_idx e, cf_name f)) = true))).
    { intros s5 E1 E2 E3 E4 s7 Hs7.
      destruct (wfoldP o pos buf Hp failed' s5 Hnd) as [W1 [W2 [W3 [[Wu Wd] [W4 W5]]]]]. cbn zeta in W1, W2, W3, Wu, Wd, W4, W5.
      rewrite <- (write_phase_fold padz truncf bs now o pos failed' buf s5) in W1, W2, W3, Wu, Wd, W4, W5.
      set (s6 := write_phase padz truncf bs now o pos failed' buf s5) in *.
      assert (H6 : r_fs s7 = r_fs s6 /\ r_flags s7 = r_flags s6 /\ r_unrec s7 = r_unrec s6
                   /\ length (r_par s7) = length (r_par s6) /\ forall l p, p <> pos -> nth p (nth l (r_par s7) []) PNone = nth p (nth l (r_par s6) []) PNone).
      { destruct Hs7 as [X|[rec2 X]]; subst s7; [auto 10|].
        destruct (parity_write_fold o pos rec2 buf (seq 0 nlev) s6 (seq_NoDup nlev 0)) as [P1 [P2 [P3 [_ [_ [P6 [_ P8]]]]]]]. auto 10. }
      destruct H6 as [H6a [H6b [H6c [H6d H6e]]]]. rewrite H6a, H6b, <- E1.
      split; [exact W2|]. split; [intros k H; rewrite H6b; apply W3; rewrite E2; exact H|].
      split; [split; [lia|]; intros Hu k; rewrite Wd, E2; [reflexivity | apply Hd0; lia]|].
      split; [split; [rewrite H6d, W1, E4; reflexivity|]; split;
              [intros l p Hne; rewrite (H6e l p Hne), W1, E4; reflexivity
              | intro k; unfold s6; rewrite write_phase_fold, (wfold_opened padz truncf bs now), E2; reflexivity]|].
      split; [exact W4 | exact W5]. }
    destruct cp.
    - rewrite compare_phase_spec. rewrite Hfix. cbv beta iota zeta.
      match goal with |- context [write_phase padz truncf bs now o pos failed' buf ?st] => apply (Hmain st) end; [exact B1 | exact B2 | exact B3 | exact B4 | right; eexists; reflexivity].
    - rewrite Hfix. cbv beta iota zeta. apply (Hmain s4 B1 B2 B3 B4). left. reflexivity.
  Qed.

  (* the flags of a file that is not the file of a bad entry are not touched by the step after a successful repair *)
  Definition not_target (l : list fent) (key : fkey) : Prop :=
    forall e f i, In e l -> fe_bad e = true -> fe_file e = Some (f, i) -> key <> (fe_idx e, cf_name f).

  Lemma wfold_flags_other o pos buf key : plain nlev o -> forall l st, not_target l key ->
    get_fl (r_flags (fold_left (wstep o pos buf) l st)) key = get_fl (r_flags st) key.
  Proof.
    intro Hp. induction l as [|e t IH]; intros st Hnt; [reflexivity|]. cbn [fold_left].
    rewrite IH by (intros e' f i He'; apply Hnt; right; exact He').
    unfold StripeProofs.wstep. destruct (fe_bad e) eqn:Eb; cbn [negb]; [|reflexivity].
    destruct (fe_file e) as [[f i]|] eqn:Ef; [|reflexivity].
    rewrite (plain_not_excl nlev o _ _ Hp), (pl_synced nlev o Hp). cbn [orb andb].
    assert (Hk : key <> (fe_idx e, cf_name f)) by (apply (Hnt e f i (or_introl eq_refl) Eb Ef)).
    destruct (fs_find (r_fs st) (fe_idx e) (cf_name f)); destruct (fe_ood e); unfold rs_recov, rs_tag, rs_flag, rs_setfl, rs_setfs; cbn [r_flags];
      apply get_set_other; exact Hk.
  Qed.

  Lemma ok_body_flags_other o pos failed' rec buf cp s1b key :
    plain nlev o -> co_fix o = true -> not_target failed' key ->
    get_fl (r_flags (ok_body padz truncf bs nlev now o pos failed' rec buf cp s1b)) key = get_fl (r_flags s1b) key.
  Proof.
    intros Hp Hfix Hnt. unfold ok_body. cbv zeta.
    set (partial := filter (fun e => fe_bad e && fe_ood e) failed').
    destruct (fold_partial_frame pos partial s1b) as [_ [A2 _]]. cbn zeta in A2.
    set (s3 := fold_left _ partial s1b) in *.
    set (s4 := match partial with [] => s3 | _ => rs_unrec (rs_err s3 (length partial)) 1 end).
    assert (B2 : r_flags s4 = r_flags s1b) by (unfold s4; destruct partial; cbn; auto).
    assert (Hmain : forall s5, r_flags s5 = r_flags s1b ->
              forall s7, (s7 = write_phase padz truncf bs now o pos failed' buf s5
                          \/ exists rec2, s7 = parity_write_phase nlev o pos rec2 buf (write_phase padz truncf bs now o pos failed' buf s5)) ->
              get_fl (r_flags s7) key = get_fl (r_flags s1b) key).
    { intros s5 E2 s7 Hs7. rewrite <- E2, <- (wfold_flags_other o pos buf key Hp failed' s5 Hnt), <- write_phase_fold.
      destruct Hs7 as [X|[rec2 X]]; subst s7; [reflexivity|].
      destruct (parity_write_fold o pos rec2 buf (seq 0 nlev) (write_phase padz truncf bs now o pos failed' buf s5) (seq_NoDup nlev 0)) as [_ [P2 _]].
      unfold parity_write_phase. rewrite P2. reflexivity. }
    destruct cp.
    - rewrite compare_phase_spec. rewrite Hfix. cbv beta iota zeta.
      match goal with |- context [write_phase padz truncf bs now o pos failed' buf ?st] => apply (Hmain st) end; [exact B2 | right; eexists; reflexivity].
    - rewrite Hfix. cbv beta iota zeta. apply (Hmain s4 B2). left. reflexivity.
  Qed.

  Lemma opened_file_blk s j f i :
    i < nblocks bs (cf_size f) -> nth i (ff_blocks (opened_file s j f)) 0%N = fblk (r_fs s) j (cf_name f) i.
  Proof.
    intro Hi. unfold opened_file, fblk. destruct (fs_find (r_fs s) j (cf_name f)) as [g|].
    - destruct (cut_cond s j f g); [unfold GrownProofs.cutf; cbn [ff_blocks]; apply nth_firstn_lt; exact Hi | reflexivity].
    - destruct i; reflexivity.
  Qed.

  Lemma opened_size_cases s j f :
    (ff_size (opened_file s j f) = fsz (r_fs s) j (cf_name f)
     /\ ((cf_size f < fsz (r_fs s) j (cf_name f))%N -> fl_opened (get_fl (r_flags s) (j, cf_name f)) = true))
    \/ (ff_size (opened_file s j f) = cf_size f /\ (cf_size f < fsz (r_fs s) j (cf_name f))%N).
  Proof.
    unfold opened_file, fsz, cut_cond. destruct (fs_find (r_fs s) j (cf_name f)) as [g|]; [|left; split; [reflexivity | intro X; lia]].
    destruct (cf_size f <? ff_size g)%N eqn:El; cbn [andb].
    - apply N.ltb_lt in El. destruct (fl_opened (get_fl (r_flags s) (j, cf_name f))); cbn [negb]; [left; auto | right; cbn; auto].
    - apply N.ltb_ge in El. left. split; [reflexivity | intro X; lia].
  Qed.

  Section StepP.
    Variable o : copts.
    Variable c : content.
    Variable fs0 : list (option fsdisk).
    Variable pos : nat.
    Variable s : rstate.
    Hypothesis Hplain : plain nlev o.
    Hypothesis Hfix : co_fix o = true.
    Hypothesis Hlenfs : length (r_fs s) = length (c_disks c).

    Notation dam st j f := (fl_damaged (get_fl (r_flags st) (j, cf_name f))).

    (* the stripe step on ANY stripe (blocks BLK, CHG, REP, DELETED), ANY state: what happens to the mapped blocks of the files *)
    Theorem fix_step_pending_full :
      let s' := stripe_step o c fs0 s pos in
      length (r_fs s') = length (r_fs s)
      (* a name that is not the name of the file of the stripe at that disk: not touched *)
      /\ (forall j n, (forall f idx b, slot_of c pos j = SFile f idx b -> cf_name f <> n) -> fs_find (r_fs s') j n = fs_find (r_fs s) j n)
      /\ (forall j f idx b, slot_of c pos j = SFile f idx b ->
            (* reported unrecoverable and renamed away at its last block *)
            (fs_find (r_fs s') j (cf_name f) = None /\ dam s' j f = true /\ S idx = length (cf_blocks f))
            (* or: the other blocks inside the recorded size keep their content; the block of the stripe is the block before the
               step, or a rebuilt block x (written zero padded) -- and then, for a CHG block, the file is flagged DAMAGED or x is
               not the stale old block *)
            \/ ((forall i, i <> idx -> i < nblocks bs (cf_size f) -> fblk (r_fs s') j (cf_name f) i = fblk (r_fs s) j (cf_name f) i)
                /\ (idx < nblocks bs (cf_size f) ->
                      (fblk (r_fs s') j (cf_name f) idx = fblk (r_fs s) j (cf_name f) idx
                         /\ (fb_state b <> SChg -> dam s' j f = true \/ hash_ok hashf bs f idx b (fblk (r_fs s) j (cf_name f) idx) = true))
                      \/ exists x, fblk (r_fs s') j (cf_name f) idx = wbv f idx x
                                   /\ (fb_state b = SChg -> dam s' j f = true \/ NotOld j f idx b x)
                                   /\ (fb_state b <> SChg -> dam s' j f = true \/ hash_ok hashf bs f idx b x = true))))
      (* the unrecoverable count never decreases; when it does not move no file is newly flagged DAMAGED *)
      /\ (r_unrec s <= r_unrec s' /\ (r_unrec s' = r_unrec s -> forall k, fl_damaged (get_fl (r_flags s') k) = fl_damaged (get_fl (r_flags s) k)))
      (* frames: the parity outside the stripe, the OPENED flag of the other files, the size of the files of the stripe *)
      /\ (length (r_par s') = length (r_par s) /\ (forall l p, p <> pos -> nth p (nth l (r_par s') []) PNone = nth p (nth l (r_par s) []) PNone))
      /\ (forall j n, (forall f idx b, slot_of c pos j = SFile f idx b -> cf_name f <> n) ->
                      fl_opened (get_fl (r_flags s') (j, n)) = fl_opened (get_fl (r_flags s) (j, n)))
      /\ (forall j f idx b, slot_of c pos j = SFile f idx b ->
            (fs_find (r_fs s') j (cf_name f) = None /\ S idx = length (cf_blocks f))
            \/ ((ff_size (opened_file s j f) <= fsz (r_fs s') j (cf_name f))%N
                /\ (fsz (r_fs s') j (cf_name f) <= N.max (ff_size (opened_file s j f)) (N.of_nat idx * bs + block_len bs (cf_size f) idx))%N))
      (* the FIXED and DAMAGED flags of the other files *)
      /\ (forall j n, (forall f idx b, slot_of c pos j = SFile f idx b -> cf_name f <> n) ->
                      fl_fixed (get_fl (r_flags s') (j, n)) = fl_fixed (get_fl (r_flags s) (j, n))
                      /\ fl_damaged (get_fl (r_flags s') (j, n)) = fl_damaged (get_fl (r_flags s) (j, n)))
      (* a file of the stripe whose block reads (and, unless CHG, hashes to the recorded hash), that open does not cut, and that is
         neither FIXED nor DAMAGED: not touched *)
      /\ (forall j f idx b, slot_of c pos j = SFile f idx b ->
            (exists y, read_block bs s j f idx = Some y /\ (fb_state b <> SChg -> hash_ok hashf bs f idx b y = true)) ->
            (forall g, fs_find (r_fs s) j (cf_name f) = Some g -> cut_cond s j f g = false) ->
            fl_fixed (get_fl (r_flags s) (j, cf_name f)) = false -> dam s j f = false ->
            fs_find (r_fs s') j (cf_name f) = fs_find (r_fs s) j (cf_name f)
            /\ fl_fixed (get_fl (r_flags s') (j, cf_name f)) = false /\ dam s' j f = false)
      (* a file flagged DAMAGED is reported (status:unrecoverable) and renamed away at its last block *)
      /\ (forall j f idx b, slot_of c pos j = SFile f idx b -> dam s' j f = true -> S idx = length (cf_blocks f) ->
            fs_find (r_fs s') j (cf_name f) = None /\ In (K_ST_UNREC, [N.of_nat j; cf_name f]) (r_tags s'))
      (* the block of the stripe of a file not flagged DAMAGED lies inside the file *)
      /\ (forall j f idx b, slot_of c pos j = SFile f idx b ->
            dam s' j f = true \/ (N.of_nat idx * bs + block_len bs (cf_size f) idx <= fsz (r_fs s') j (cf_name f))%N).
    Proof.
      pose proof (data_phase_P o c pos s Hplain Hfix Hlenfs) as DP.
      set (a := data_phase o c pos s) in *.
      destruct DP as [Dlen Dbl Dpar Dunrec Ddam Dfs Dhi Doth Dent Dgood Dreadable Dnobad Dnofix Dnd].
      pose proof (parity_phase_spec nlev o pos (da_st a) (pl_popen nlev o Hplain)) as Epp.
      set (rec := map (prow (r_par (da_st a)) pos) (seq 0 nlev)) in *.
      destruct (repair hashf padz bs nlev false pos (co_nosearch o) (search_view fs0 (r_fs (da_st a))) (da_failed a) rec (da_buf a) (r_jn (da_st a)))
        as [[[[res failed'] buf] jn'] rtags] eqn:Erep.
      destruct (repair_maps hashf padz bs nlev pos _ _ _ _ _ _ _ _ _ _ _ Erep) as [gm [Egm Hgm]].
      assert (Hnd' : NoDup (map fe_idx failed')).
      { rewrite Egm, map_map. erewrite map_ext; [exact Dnd|]. intro e. destruct (Hgm e) as [_ [X _]]. exact X. }
      (* a bad entry of failed' is the entry of the block of its disk *)
      assert (Hbadent : forall e', In e' failed' -> fe_bad e' = true ->
                 exists f idx b, slot_of c pos (fe_idx e') = SFile f idx b /\ fe_file e' = Some (f, idx)
                                 /\ fe_state e' = Some (fb_state b) /\ fe_hash e' = fb_hash b).
      { intros e' He' Hb. rewrite Egm in He'. apply in_map_iff in He'. destruct He' as [e [Ee He]]. subst e'.
        destruct (Hgm e) as [G1 [G2 [G3 [G4 G5]]]]. rewrite G1 in Hb. rewrite G2, G3, G4, G5.
        destruct (Dent e He) as [_ [_ [[_ X]|[f [idx [b [Es Ee]]]]]]]; [rewrite Hb in X; discriminate X|].
        exists f, idx, b. split; [exact Es|]. rewrite Ee. cbn. auto. }
      assert (Hslotfs : forall j f idx b, slot_of c pos j = SFile f idx b -> fs_find (r_fs (da_st a)) j (cf_name f) = Some (opened_file s j f)).
      { intros j f idx b Es. rewrite Dfs. assert (E : (j <? length (c_disks c)) = true) by (apply Nat.ltb_lt; apply (slot_lt c pos j f idx b Es)).
        rewrite E. unfold fs_afterP. rewrite Es, N.eqb_refl. reflexivity. }
      assert (Hothfs : forall j n, (forall f idx b, slot_of c pos j = SFile f idx b -> cf_name f <> n) -> fs_find (r_fs (da_st a)) j n = fs_find (r_fs s) j n).
      { intros j n Hno. rewrite Dfs. destruct (j <? length (c_disks c)); [|reflexivity]. unfold fs_afterP.
        destruct (slot_of c pos j) as [|f idx b|h] eqn:Es; try reflexivity.
        assert (En : N.eqb (cf_name f) n = false) by (apply N.eqb_neq; apply (Hno f idx b eq_refl)). rewrite En. reflexivity. }
      (* the state before the loop of file_post *)
      assert (HU : exists s7, stripe_step o c fs0 s pos = fold_left (file_post o c pos) (seq 0 (length (c_disks c))) s7
        /\ length (r_fs s7) = length (r_fs s)
        /\ (forall j n, (forall f idx b, slot_of c pos j = SFile f idx b -> cf_name f <> n) -> fs_find (r_fs s7) j n = fs_find (r_fs s) j n)
        /\ (forall j f idx b, slot_of c pos j = SFile f idx b ->
              exists g7, fs_find (r_fs s7) j (cf_name f) = Some g7
                /\ (forall i, i <> idx -> nth i (ff_blocks g7) 0%N = nth i (ff_blocks (opened_file s j f)) 0%N)
                /\ ((nth idx (ff_blocks g7) 0%N = nth idx (ff_blocks (opened_file s j f)) 0%N
                        /\ (fb_state b <> SChg -> dam s7 j f = true \/ hash_ok hashf bs f idx b (nth idx (ff_blocks (opened_file s j f)) 0%N) = true))
                    \/ exists x, nth idx (ff_blocks g7) 0%N = wbv f idx x /\ (fb_state b = SChg -> dam s7 j f = true \/ NotOld j f idx b x)
                                 /\ (fb_state b <> SChg -> dam s7 j f = true \/ hash_ok hashf bs f idx b x = true))
                /\ ((ff_size (opened_file s j f) <= ff_size g7)%N
                    /\ (ff_size g7 <= N.max (ff_size (opened_file s j f)) (N.of_nat idx * bs + block_len bs (cf_size f) idx))%N))
        /\ (r_unrec s <= r_unrec s7 /\ (r_unrec s7 = r_unrec s -> forall k, fl_damaged (get_fl (r_flags s7) k) = fl_damaged (get_fl (r_flags s) k)))
        /\ (length (r_par s7) = length (r_par s) /\ (forall l p, p <> pos -> nth p (nth l (r_par s7) []) PNone = nth p (nth l (r_par s) []) PNone)
            /\ forall k, fl_opened (get_fl (r_flags s7) k) = fl_opened (get_fl (r_flags (da_st a)) k))
        /\ (forall key, not_target failed' key ->
              fl_fixed (get_fl (r_flags s7) key) = fl_fixed (get_fl (r_flags (da_st a)) key)
              /\ fl_damaged (get_fl (r_flags s7) key) = fl_damaged (get_fl (r_flags (da_st a)) key))
        /\ (forall j f idx b, slot_of c pos j = SFile f idx b -> not_target failed' (j, cf_name f) ->
              fs_find (r_fs s7) j (cf_name f) = Some (opened_file s j f))
        /\ (forall j f idx b, slot_of c pos j = SFile f idx b ->
              dam s7 j f = true
              \/ exists g7, fs_find (r_fs s7) j (cf_name f) = Some g7 /\ (N.of_nat idx * bs + block_len bs (cf_size f) idx <= ff_size g7)%N)).
      { assert (Hnobad : forall j, find (fun e => Nat.eqb (fe_idx e) j && fe_bad e) failed' = None ->
                   (forall e, In e (da_failed a) -> fe_idx e = j -> fe_bad e = false) /\ (forall f, not_target failed' (j, cf_name f))).
        { intros j Efind. split.
          - intros e He Hi. pose proof (find_none _ _ Efind (gm e) ltac:(rewrite Egm; apply in_map; exact He)) as Y. cbn beta in Y.
            destruct (Hgm e) as [G1 [G2 _]]. rewrite G1, G2, Hi, Nat.eqb_refl in Y. exact Y.
          - intros f e' f0 i0 He' Hb' _ X. injection X as X1 _.
            pose proof (find_none _ _ Efind e' He') as Y. cbn beta in Y. rewrite Hb', <- X1, Nat.eqb_refl in Y. discriminate Y. }
        assert (Hcase : res = ROk \/ res <> ROk) by (destruct res; [left; reflexivity | right; discriminate | right; discriminate]).
        destruct Hcase as [Eres|Nres].
        - subst res.
          erewrite (stripe_step_ok hashf padz truncf bs nlev false newino now o c fs0 pos s rec _ failed' buf jn' rtags);
            [| exact (pl_audit nlev o Hplain) | fold a; exact Epp | fold a; cbn [r_jn r_fs]; exact Erep].
          fold a.
          match goal with |- context [ok_body padz truncf bs nlev now o pos failed' rec buf ?cp ?st] => set (s1b := st); set (cpv := cp) end.
          destruct (ok_body_frame o pos failed' rec buf cpv s1b Hplain Hfix Hnd') as [K1 [K2 [[Ku Kd] [[Kp1 [Kp2 Kop]] [K3 K4]]]]]. cbn zeta in K1, K2, Ku, Kd, Kp1, Kp2, Kop, K3, K4.
          set (s7 := ok_body padz truncf bs nlev now o pos failed' rec buf cpv s1b) in *.
          change (r_fs s1b) with (r_fs (da_st a)) in K1, K3, K4.
          change (r_unrec s1b) with (r_unrec (da_st a)) in Ku, Kd. change (r_flags s1b) with (r_flags (da_st a)) in Kd, Kop.
          change (r_par s1b) with (r_par (da_st a)) in Kp1, Kp2.
          exists s7. split; [reflexivity|]. split; [rewrite K1; exact Dlen|].
          cut ((forall j n, (forall f idx b, slot_of c pos j = SFile f idx b -> cf_name f <> n) -> fs_find (r_fs s7) j n = fs_find (r_fs s) j n)
               /\ (forall j f idx b, slot_of c pos j = SFile f idx b ->
                     exists g7, fs_find (r_fs s7) j (cf_name f) = Some g7
                       /\ (forall i, i <> idx -> nth i (ff_blocks g7) 0%N = nth i (ff_blocks (opened_file s j f)) 0%N)
                       /\ ((nth idx (ff_blocks g7) 0%N = nth idx (ff_blocks (opened_file s j f)) 0%N
                               /\ (fb_state b <> SChg -> dam s7 j f = true \/ hash_ok hashf bs f idx b (nth idx (ff_blocks (opened_file s j f)) 0%N) = true))
                           \/ exists x, nth idx (ff_blocks g7) 0%N = wbv f idx x /\ (fb_state b = SChg -> dam s7 j f = true \/ NotOld j f idx b x)
                                 /\ (fb_state b <> SChg -> dam s7 j f = true \/ hash_ok hashf bs f idx b x = true))
                       /\ ((ff_size (opened_file s j f) <= ff_size g7)%N
                           /\ (ff_size g7 <= N.max (ff_size (opened_file s j f)) (N.of_nat idx * bs + block_len bs (cf_size f) idx))%N))).
          { intros [X1 X2]. split; [exact X1|]. split; [exact X2|]. split; [|split; [|split; [|split]]].
            5: { intros j f idx b Es. pose proof (Hslotfs j f idx b Es) as Hg1.
                 destruct (find (fun e => Nat.eqb (fe_idx e) j && fe_bad e) failed') as [e'|] eqn:Efind.
                 - apply find_some in Efind. destruct Efind as [He' Hp']. apply andb_true_iff in Hp'. destruct Hp' as [Hi' Hb']. apply Nat.eqb_eq in Hi'.
                   destruct (Hbadent e' He' Hb') as [f1 [idx1 [b1 [Es1 [Ef1 _]]]]]. rewrite Hi', Es in Es1. injection Es1 as Y1 Y2 Y3. subst f1 idx1 b1.
                   rewrite <- Hi' in Hg1. destruct (K4 e' f idx _ He' Hb' Ef1 Hg1) as [Kw _]. rewrite Hi' in Kw.
                   right. eexists. split; [exact Kw|]. destruct (write_block_size (opened_file s (fe_idx e') f) f idx (vnth buf j)) as [_ [_ Wz]]. rewrite Hi' in Wz. exact Wz.
                 - destruct (Hnobad j Efind) as [N1 N2]. right. exists (opened_file s j f). split.
                   + rewrite K3; [exact Hg1|]. intros e' f0 i0 He' Hb' Hf'. apply (N2 f e' f0 i0 He' Hb' Hf').
                   + apply (Dreadable j f idx b Es (slot_lt c pos j f idx b Es) N1). }
            - rewrite <- Dunrec. split; [exact Ku|]. intros Hu k. rewrite (Kd Hu k). apply Ddam.
            - rewrite <- Dpar. split; [exact Kp1|]. split; [exact Kp2 | exact Kop].
            - intros key Hnt. unfold s7. rewrite (ok_body_flags_other o pos failed' rec buf cpv s1b key Hplain Hfix Hnt). split; reflexivity.
            - intros j f idx b Es Hnt. rewrite K3; [apply (Hslotfs j f idx b Es)|]. intros e' f0 i0 He' Hb' Hf'. apply (Hnt e' f0 i0 He' Hb' Hf'). }
          split.
          + intros j n Hno. rewrite K3; [apply Hothfs; exact Hno|].
            intros e' f0 i0 He' Hb Hf X. injection X as X1 X2. destruct (Hbadent e' He' Hb) as [f1 [idx1 [b1 [Es1 [Ef1 _]]]]].
            rewrite Hf in Ef1. injection Ef1 as Y1 Y2. subst f1 idx1. rewrite <- X1 in Es1. apply (Hno f0 i0 b1 Es1). symmetry. exact X2.
          + intros j f idx b Es. pose proof (Hslotfs j f idx b Es) as Hg1.
            destruct (find (fun e => Nat.eqb (fe_idx e) j && fe_bad e) failed') as [e'|] eqn:Efind.
            * apply find_some in Efind. destruct Efind as [He' Hp']. apply andb_true_iff in Hp'. destruct Hp' as [Hi' Hb']. apply Nat.eqb_eq in Hi'.
              destruct (Hbadent e' He' Hb') as [f1 [idx1 [b1 [Es1 [Ef1 [Est1 Eh1]]]]]]. rewrite Hi', Es in Es1. injection Es1 as Y1 Y2 Y3. subst f1 idx1 b1.
              rewrite <- Hi' in Hg1. destruct (K4 e' f idx _ He' Hb' Ef1 Hg1) as [Kw Ko]. rewrite Hi' in Kw, Ko.
              destruct (write_block_blocks (opened_file s (fe_idx e') f) f idx (vnth buf j)) as [Wb1 Wb2]. rewrite Hi' in Wb1, Wb2.
              pose proof (write_block_size (opened_file s (fe_idx e') f) f idx (vnth buf j)) as [Wsz1 [Wsz2 _]]. rewrite Hi' in Wsz1, Wsz2.
              pose proof (conj Wsz1 Wsz2) as Wsz.
              eexists. split; [exact Kw|]. split; [exact Wb2|]. split; [|exact Wsz]. right. exists (vnth buf j). split; [exact Wb1|]. split.
              { intro Hchg. destruct (fe_ood e') eqn:Eo; [left; apply Ko; reflexivity | right].
                intros ob Hob. rewrite <- Hi'.
                apply (repair_never_accepts_old hashf padz bs nlev pos _ _ _ _ _ _ _ _ _ _ Erep e' He' Hb'); [unfold fe_is; rewrite Est1, Hchg; reflexivity | exact Eo |].
                unfold past_hash_inv, FixModel.fe_len in *. rewrite Eh1, Ef1. cbn [fe_hash fe_file ent] in Hob. exact Hob. }
              intro Hnc. destruct (fe_ood e') eqn:Eo; [left; apply Ko; reflexivity | right].
              assert (Hup : fe_updated_hash e' = true) by (unfold fe_updated_hash; rewrite Est1; destruct (fb_state b); [reflexivity | exfalso; apply Hnc; reflexivity | reflexivity]).
              assert (Hidxlt : forall e, In e (da_failed a) -> fe_idx e < length (da_buf a)) by (intros e He; rewrite Dbl; apply (Dent e He)).
              pose proof (repair_ok_hash_verified hashf padz bs nlev pos _ _ _ _ _ _ _ _ _ _ Dnd Hidxlt Erep e' He' Hb' Eo Hup) as Hv.
              unfold hash_passes, FixModel.fe_len in Hv. rewrite Eh1, Ef1, Hi' in Hv. exact Hv.
            * exists (opened_file s j f). split; [|split; [reflexivity | split; [left; split; [reflexivity|] | split; lia]]].
              2: { intro Hnc. right. apply (Dgood j f idx b Es (slot_lt c pos j f idx b Es) Hnc).
                   intros e He Hi. pose proof (find_none _ _ Efind (gm e) ltac:(rewrite Egm; apply in_map; exact He)) as Y. cbn beta in Y.
                   destruct (Hgm e) as [G1 [G2 _]]. rewrite G1, G2, Hi, Nat.eqb_refl in Y. exact Y. }
              rewrite K3; [exact Hg1|]. intros e' f0 i0 He' Hb' _ X. injection X as X1 _.
              pose proof (find_none _ _ Efind e' He') as Y. cbn beta in Y. rewrite Hb', <- X1, Nat.eqb_refl in Y. discriminate Y.
        - erewrite (stripe_step_fail hashf padz truncf bs nlev false newino now o c fs0 pos s rec _ res failed' buf jn' rtags);
            [| exact (pl_audit nlev o Hplain) | exact Nres | fold a; exact Epp | fold a; cbn [r_jn r_fs]; exact Erep].
          unfold fail_body. cbv zeta.
          match goal with |- context [fold_left _ (bad_files failed') (fold_left _ (bad_files failed') ?st)] => set (s3 := st) end.
          destruct (fold_unrec_tags pos (bad_files failed') s3) as [T1 [T2 [T3 [T4 _]]]]. cbn zeta in T1, T2, T3, T4.
          set (s4 := fold_left (fun s x => let '(j, f, i) := x in rs_tag s [tg K_UNREC [pos; j] [cf_name f; N.of_nat i]]) (bad_files failed') s3) in *.
          destruct (fold_damaged (bad_files failed') s4) as [D1 [D2 [D3 [_ [D5 D6]]]]]. cbn zeta in D1, D2, D3, D5, D6.
          set (s7 := fold_left (fun s x => let '(j, f, i) := x in rs_flag s (j, cf_name f) fl_set_damaged) (bad_files failed') s4) in *.
          assert (E7 : r_fs s7 = r_fs (da_st a)) by (rewrite D1, T1; reflexivity).
          assert (Eu7 : r_unrec s7 = r_unrec s + 1).
          { rewrite D3, T3. unfold s3. cbn [r_unrec rs_unrec rs_err rs_tag rs_setjn]. rewrite Dunrec. reflexivity. }
          exists s7. split; [reflexivity|]. rewrite E7. split; [exact Dlen|]. split; [exact Hothfs|]. split.
          + intros j f idx b Es. exists (opened_file s j f). split; [apply (Hslotfs j f idx b Es) | split; [reflexivity | split; [left; split; [reflexivity|] | split; lia]]].
            intro Hnc. destruct (find (fun e => Nat.eqb (fe_idx e) j && fe_bad e) failed') as [e'|] eqn:Efind.
            * left. apply find_some in Efind. destruct Efind as [He' Hp']. apply andb_true_iff in Hp'. destruct Hp' as [Hi' Hb']. apply Nat.eqb_eq in Hi'.
              destruct (Hbadent e' He' Hb') as [f1 [idx1 [b1 [Es1 [Ef1 _]]]]]. rewrite Hi', Es in Es1. injection Es1 as Y1 Y2 Y3. subst f1 idx1 b1.
              apply D6. right. exists (j, f, idx). split; [|reflexivity].
              unfold bad_files. apply in_flat_map. exists e'. split; [exact He'|]. rewrite Hb', Ef1, Hi'. left. reflexivity.
            * right. apply (Dgood j f idx b Es (slot_lt c pos j f idx b Es) Hnc).
              intros e He Hi. pose proof (find_none _ _ Efind (gm e) ltac:(rewrite Egm; apply in_map; exact He)) as Y. cbn beta in Y.
              destruct (Hgm e) as [G1 [G2 _]]. rewrite G1, G2, Hi, Nat.eqb_refl in Y. exact Y.
          + split; [split; [lia | intro X; lia]|].
            assert (Ep7 : r_par s7 = r_par s) by (rewrite D2, T2; unfold s3; cbn [r_par rs_unrec rs_err rs_tag rs_setjn]; exact Dpar).
            rewrite Ep7. split; [split; [reflexivity|]; split; [reflexivity|]; intro k; destruct (D5 k) as [_ X]; rewrite X, T4; reflexivity|].
            split.
            * intros key Hnt. destruct (D5 key) as [X _]. rewrite X, T4. split; [reflexivity|].
              apply Bool.eq_true_iff_eq. rewrite (D6 key), T4. split; [|intro Y; left; exact Y].
              intros [Y|[x [Hx Hk]]]; [exact Y|]. exfalso. unfold bad_files in Hx. apply in_flat_map in Hx. destruct Hx as [e' [He' Hx]].
              destruct (fe_bad e') eqn:Eb'; [|contradiction]. destruct (fe_file e') as [[f0 i0]|] eqn:Ef'; [|contradiction].
              destruct Hx as [Hx|[]]. subst x. apply (Hnt e' f0 i0 He' Eb' Ef'). exact Hk.
            * split; [intros j f idx b Es _; apply (Hslotfs j f idx b Es)|].
              intros j f idx b Es. destruct (find (fun e => Nat.eqb (fe_idx e) j && fe_bad e) failed') as [e'|] eqn:Efind.
              -- left. apply find_some in Efind. destruct Efind as [He' Hp']. apply andb_true_iff in Hp'. destruct Hp' as [Hi' Hb']. apply Nat.eqb_eq in Hi'.
                 destruct (Hbadent e' He' Hb') as [f1 [idx1 [b1 [Es1 [Ef1 _]]]]]. rewrite Hi', Es in Es1. injection Es1 as Y1 Y2 Y3. subst f1 idx1 b1.
                 apply D6. right. exists (j, f, idx). split; [|reflexivity].
                 unfold bad_files. apply in_flat_map. exists e'. split; [exact He'|]. rewrite Hb', Ef1, Hi'. left. reflexivity.
              -- destruct (Hnobad j Efind) as [N1 _]. right. exists (opened_file s j f). split; [apply (Hslotfs j f idx b Es)|].
                 apply (Dreadable j f idx b Es (slot_lt c pos j f idx b Es) N1). }
      destruct HU as [s7 [E7 [U1 [U2 [U3 [[U4a U4b] [[U5a [U5b U5c]] [U7 [U8 U9]]]]]]]]].
      cbn zeta. rewrite E7.
      destruct (post_general hashf padz truncf bs nlev newino o c pos Hplain Hfix (seq 0 (length (c_disks c))) s7 (seq_NoDup _ 0)) as [P1 [P2 [P3 [P4 [_ [P6 P7]]]]]].
      cbn zeta in P1, P2, P3, P4, P6, P7.
      set (s' := fold_left (file_post o c pos) (seq 0 (length (c_disks c))) s7) in *.
      assert (Hsd : forall j f idx b, slot_of c pos j = SFile f idx b -> forall g7, fs_find (r_fs s7) j (cf_name f) = Some g7 ->
                      (fs_find (r_fs s') j (cf_name f) = None /\ dam s' j f = true /\ S idx = length (cf_blocks f))
                      \/ exists g, fs_find (r_fs s') j (cf_name f) = Some g /\ ff_blocks g = ff_blocks g7 /\ ff_size g = ff_size g7).
      { intros j f idx b Es g7 G1.
        assert (Hjn : In j (seq 0 (length (c_disks c)))) by (apply in_seq; pose proof (slot_lt c pos j f idx b Es); lia).
        destruct (P7 j f idx b Hjn Es) as [Pd Pg]. destruct (P3 (j, cf_name f)) as [Yd _].
        destruct (dam s7 j f) eqn:Ed.
        - destruct (Pd eq_refl) as [Pd1 Pd2]. destruct (Nat.eq_dec (S idx) (length (cf_blocks f))) as [El|El].
          + left. destruct (Pd1 El) as [X _]. rewrite Yd. auto.
          + right. exists g7. rewrite (Pd2 El). auto.
        - right. destruct (Pg eq_refl) as [Q _]. rewrite G1 in Q. destruct (fs_find (r_fs s') j (cf_name f)) as [g|]; [|contradiction].
          exists g. destruct Q as [Q1 Q2]. auto. }
      (* a bad entry is the entry of the block of its disk: the keys it can target *)
      assert (Hnt_other : forall j n, (forall f idx b, slot_of c pos j = SFile f idx b -> cf_name f <> n) -> not_target failed' (j, n)).
      { intros j n Hno e' f0 i0 He' Hb' Hf' X. injection X as X1 X2. destruct (Hbadent e' He' Hb') as [f1 [idx1 [b1 [Es1 [Ef1 _]]]]].
        rewrite Hf' in Ef1. injection Ef1 as Y1 Y2. subst f1 idx1. rewrite <- X1 in Es1. apply (Hno f0 i0 b1 Es1). symmetry. exact X2. }
      split; [congruence|]. split; [|split; [|split; [|split; [|split; [|split; [|split; [|split; [|split]]]]]]]].
      10: { intros j f idx b Es. destruct (P3 (j, cf_name f)) as [Yd _].
            destruct (U9 j f idx b Es) as [X|[g7 [G1 Gz]]]; [left; rewrite Yd; exact X|].
            destruct (Hsd j f idx b Es g7 G1) as [[_ [X _]]|[g [Hg [_ Hz]]]]; [left; exact X | right]. unfold fsz. rewrite Hg, Hz. exact Gz. }
      9: { intros j f idx b Es Hd Hl.
           assert (Hjn : In j (seq 0 (length (c_disks c)))) by (apply in_seq; pose proof (slot_lt c pos j f idx b Es); lia).
           destruct (P7 j f idx b Hjn Es) as [Pd _]. destruct (P3 (j, cf_name f)) as [Yd _]. rewrite Yd in Hd.
           destruct (Pd Hd) as [Pd1 _]. apply (Pd1 Hl). }
      7: { intros j n Hno. destruct (U7 (j, n) (Hnt_other j n Hno)) as [X1 X2]. destruct (P3 (j, n)) as [Y1 [Y2 _]].
           rewrite Y1, Y2, X1, X2, (Doth (j, n) Hno). split; reflexivity. }
      7: { intros j f idx b Es Hrd Hnc Hfx Hdm.
           assert (Hnb : forall e, In e (da_failed a) -> fe_idx e = j -> fe_bad e = false)
             by (apply (Dnobad j f idx b Es (slot_lt c pos j f idx b Es) Hrd Hnc)).
           assert (Hnt : not_target failed' (j, cf_name f)).
           { intros e' f0 i0 He' Hb' _ X. injection X as X1 _. rewrite Egm in He'. apply in_map_iff in He'. destruct He' as [e [Ee He]]. subst e'.
             destruct (Hgm e) as [G1 [G2 _]]. rewrite G1 in Hb'. rewrite G2 in X1. rewrite (Hnb e He (eq_sym X1)) in Hb'. discriminate Hb'. }
           destruct (U7 _ Hnt) as [X1 X2]. pose proof (U8 j f idx b Es Hnt) as X3.
           assert (Hjn : In j (seq 0 (length (c_disks c)))) by (apply in_seq; pose proof (slot_lt c pos j f idx b Es); lia).
           destruct (P7 j f idx b Hjn Es) as [_ Pg]. destruct (P3 (j, cf_name f)) as [Yd [Yf _]].
           assert (Ed7 : dam s7 j f = false) by (rewrite X2, Ddam; exact Hdm).
           assert (Ef7 : fl_fixed (get_fl (r_flags s7) (j, cf_name f)) = false) by (rewrite X1, (Dnofix j f idx b Es (slot_lt c pos j f idx b Es) Hnc); exact Hfx).
           destruct (Pg Ed7) as [_ [Q _]]. rewrite (Q Ef7), X3, Yd, Yf, Ed7, Ef7.
           destruct Hrd as [y [Hry _]]. destruct (read_block_some bs s j f idx y Hry) as [g [Hg _]].
           unfold opened_file. rewrite Hg, (Hnc g Hg). auto. }
      3: { rewrite P2. split; [exact U4a|]. intros Hu k. destruct (P3 k) as [Y _]. rewrite Y. apply (U4b Hu). }
      3: { rewrite P1. split; [exact U5a | exact U5b]. }
      3: { intros j n Hno. destruct (P3 (j, n)) as [_ [_ Y]]. rewrite Y, U5c. f_equal. apply (Doth (j, n)). exact Hno. }
      3: { intros j f idx b Es. destruct (U3 j f idx b Es) as [g7 [G1 [_ [_ [G4 G5]]]]].
           destruct (Hsd j f idx b Es g7 G1) as [[X [_ Y]]|[g [Hg [_ Hz]]]]; [left; auto | right]. unfold fsz. rewrite Hg, Hz. split; assumption. }
      - intros j n Hno. rewrite P6; [apply U2; exact Hno|]. intros f idx b _ Es. apply (Hno f idx b Es).
      - intros j f idx b Es. destruct (U3 j f idx b Es) as [g7 [G1 [G2 [G3 _]]]].
        destruct (P3 (j, cf_name f)) as [Yd _].
        destruct (Hsd j f idx b Es g7 G1) as [X|[g [Hg [Hb _]]]]; [left; exact X | right].
        assert (Hblk' : forall i, fblk (r_fs s') j (cf_name f) i = nth i (ff_blocks g7) 0%N) by (intro i; unfold fblk; rewrite Hg, Hb; reflexivity).
        split.
        + intros i Hi Hin. rewrite Hblk', (G2 i Hi). apply opened_file_blk. exact Hin.
        + intro Hin. rewrite Hblk'. destruct G3 as [[G3 G3h]|[x [G3 G4]]]; [left | right].
          { rewrite (opened_file_blk s j f idx Hin) in G3, G3h. split; [exact G3|]. intro Hnc. destruct (G3h Hnc) as [Y|Y]; [left; rewrite Yd; exact Y | right; exact Y]. }
          destruct G4 as [G4a G4b]. exists x. split; [exact G3|]. split.
          * intro Hc. destruct (G4a Hc) as [Y|Y]; [left; rewrite Yd; exact Y | right; exact Y].
          * intro Hc. destruct (G4b Hc) as [Y|Y]; [left; rewrite Yd; exact Y | right; exact Y].
    Qed.

    Theorem fix_step_pending :
      let s' := stripe_step o c fs0 s pos in
      length (r_fs s') = length (r_fs s)
      /\ (forall j n, (forall f idx b, slot_of c pos j = SFile f idx b -> cf_name f <> n) -> fs_find (r_fs s') j n = fs_find (r_fs s) j n)
      /\ (forall j f idx b, slot_of c pos j = SFile f idx b ->
            (fs_find (r_fs s') j (cf_name f) = None /\ dam s' j f = true /\ S idx = length (cf_blocks f))
            \/ ((forall i, i <> idx -> i < nblocks bs (cf_size f) -> fblk (r_fs s') j (cf_name f) i = fblk (r_fs s) j (cf_name f) i)
                /\ (idx < nblocks bs (cf_size f) ->
                      (fblk (r_fs s') j (cf_name f) idx = fblk (r_fs s) j (cf_name f) idx
                         /\ (fb_state b <> SChg -> dam s' j f = true \/ hash_ok hashf bs f idx b (fblk (r_fs s) j (cf_name f) idx) = true))
                      \/ exists x, fblk (r_fs s') j (cf_name f) idx = wbv f idx x
                                   /\ (fb_state b = SChg -> dam s' j f = true \/ NotOld j f idx b x)
                                   /\ (fb_state b <> SChg -> dam s' j f = true \/ hash_ok hashf bs f idx b x = true))))
      /\ (r_unrec s <= r_unrec s' /\ (r_unrec s' = r_unrec s -> forall k, fl_damaged (get_fl (r_flags s') k) = fl_damaged (get_fl (r_flags s) k))).
    Proof. destruct fix_step_pending_full as [A [B [C [D _]]]]. cbn zeta. auto. Qed.
  End StepP.

  (* ---- status:recovered: said by file_post, at the last block of a file flagged FIXED and not DAMAGED, and by nothing else ------ *)
  Definition rec_tag (j : nat) (f : cfile) : N * list N := (K_ST_RECOVERED, [N.of_nat j; cf_name f]).

  Lemma in_app1 {A} (x : A) l y : In x (l ++ [y]) <-> In x l \/ x = y.
  Proof. split; [intro H; apply in_app_or in H; destruct H as [H|[H|[]]]; auto | intros [H|H]; apply in_or_app; [left; exact H | right; left; auto]]. Qed.

  Lemma file_post_rec o c pos st j t :
    plain nlev o -> co_fix o = true -> fst t = K_ST_RECOVERED ->
    (In t (r_tags (file_post o c pos st j)) <->
     In t (r_tags st) \/ exists f idx b, slot_of c pos j = SFile f idx b /\ S idx = length (cf_blocks f)
                                       /\ fl_damaged (get_fl (r_flags st) (j, cf_name f)) = false
                                       /\ fl_fixed (get_fl (r_flags st) (j, cf_name f)) = true /\ t = rec_tag j f).
  Proof.
    intros Hp Hfix Hk. unfold file_post. pose proof (slot_of_nth c pos j) as Hs.
    destruct (nth j (c_disks c) None) as [d|].
    2: { split; [auto | intros [H|[f [idx [b [X _]]]]]; [exact H | rewrite Hs in X; discriminate X]]. }
    destruct (slot_at d pos) as [|f idx b|h] eqn:Es.
    1,3: (split; [auto | intros [H|[f0 [idx0 [b0 [X _]]]]]; [exact H | rewrite Hs in X; discriminate X]]).
    assert (Hex : forall P : Prop, (exists f0 idx0 b0, slot_of c pos j = SFile f0 idx0 b0 /\ S idx0 = length (cf_blocks f0)
                    /\ fl_damaged (get_fl (r_flags st) (j, cf_name f0)) = false /\ fl_fixed (get_fl (r_flags st) (j, cf_name f0)) = true /\ t = rec_tag j f0) ->
                  (S idx = length (cf_blocks f) -> fl_damaged (get_fl (r_flags st) (j, cf_name f)) = false ->
                   fl_fixed (get_fl (r_flags st) (j, cf_name f)) = true -> t = rec_tag j f -> P) -> P).
    { intros P [f0 [idx0 [b0 [X [X1 [X2 [X3 X4]]]]]]] H. rewrite Hs in X. injection X as Y1 Y2 Y3. subst f0 idx0 b0. auto. }
    destruct (Nat.eqb (S idx) (length (cf_blocks f))) eqn:El; cbn [negb].
    - apply Nat.eqb_eq in El. rewrite (plain_not_excl nlev o j _ Hp), (pl_synced nlev o Hp), Hfix. cbn [orb andb].
      destruct (fl_damaged (get_fl (r_flags st) (j, cf_name f))) eqn:Ed.
      + cbn [r_tags rs_tag rs_setfs rs_flag rs_setfl]. rewrite in_app1. split.
        * intros [H|H]; [left; exact H | subst t; cbn in Hk; discriminate Hk].
        * intros [H|H]; [left; exact H | apply (Hex _ H); intros _ X; discriminate X].
      + destruct (fl_fixed (get_fl (r_flags st) (j, cf_name f))) eqn:Ef; cbn [negb].
        2: { cbn [r_tags rs_flag rs_setfl]. split; [auto | intros [H|H]; [exact H | apply (Hex _ H); intros _ _ X; discriminate X]]. }
        cbv zeta. cbn [r_fs rs_tag rs_flag rs_setfl].
        assert (Hmain : forall s2 : rstate, (r_tags s2 = r_tags st ++ [rec_tag j f] \/ exists y, fst y <> K_ST_RECOVERED /\ r_tags s2 = (r_tags st ++ [rec_tag j f]) ++ [y]) ->
                  (In t (r_tags s2) <-> In t (r_tags st) \/ exists f0 idx0 b0, slot_of c pos j = SFile f0 idx0 b0 /\ S idx0 = length (cf_blocks f0)
                       /\ fl_damaged (get_fl (r_flags st) (j, cf_name f0)) = false /\ fl_fixed (get_fl (r_flags st) (j, cf_name f0)) = true /\ t = rec_tag j f0)).
        { intros s2 Hs2. assert (Hin : In t (r_tags s2) <-> In t (r_tags st) \/ t = rec_tag j f).
          { destruct Hs2 as [E|[y [Hy E]]]; rewrite E; [apply in_app1|]. rewrite !in_app1. split; [intros [H|H]; [exact H | subst t; contradiction] | auto]. }
          rewrite Hin. split; intros [H|H]; auto; [right; exists f, idx, b; auto | right; apply (Hex _ H); auto]. }
        destruct (fs_find (r_fs st) j (cf_name f)) as [g|]; [|apply Hmain; left; reflexivity].
        match goal with |- context [if ?b0 then _ else _] => destruct b0 end; apply Hmain; [left; reflexivity|].
        right. eexists. split; [|reflexivity]. cbn. discriminate.
    - apply Nat.eqb_neq in El. split; [auto | intros [H|H]; [exact H | apply (Hex _ H); intros X; contradiction]].
  Qed.

  Lemma fold_file_post_rec o c pos t : plain nlev o -> co_fix o = true -> fst t = K_ST_RECOVERED -> forall js st,
    (In t (r_tags (fold_left (file_post o c pos) js st)) <->
     In t (r_tags st) \/ exists j f idx b, In j js /\ slot_of c pos j = SFile f idx b /\ S idx = length (cf_blocks f)
                                         /\ fl_damaged (get_fl (r_flags st) (j, cf_name f)) = false
                                         /\ fl_fixed (get_fl (r_flags st) (j, cf_name f)) = true /\ t = rec_tag j f).
  Proof.
    intros Hp Hfix Hk. induction js as [|j0 js IH]; intro st; cbn [fold_left].
    - split; [auto | intros [H|[j [f [idx [b [[] _]]]]]]; exact H].
    - destruct (file_post_frame o c pos st j0) as [_ [_ [B3 _]]].
      pose proof (file_post_rec o c pos st j0 t Hp Hfix Hk) as F0.
      pose proof (IH (file_post o c pos st j0)) as F1.
      split.
      + intro H. apply (proj1 F1) in H. destruct H as [H|[j [f [idx [b [Hj [X1 [X2 [X3 [X4 X5]]]]]]]]]].
        * apply (proj1 F0) in H. destruct H as [H|[f [idx [b [X1 [X2 [X3 [X4 X5]]]]]]]]; [left; exact H | right].
          exists j0, f, idx, b. split; [left; reflexivity|]. split; [exact X1|]. split; [exact X2|]. split; [exact X3|]. split; [exact X4 | exact X5].
        * right. exists j, f, idx, b. destruct (B3 (j, cf_name f)) as [Y1 [Y2 _]]. rewrite Y1 in X3. rewrite Y2 in X4.
          split; [right; exact Hj|]. split; [exact X1|]. split; [exact X2|]. split; [exact X3|]. split; [exact X4 | exact X5].
      + intro H. apply (proj2 F1). destruct H as [H|[j [f [idx [b [[Hj|Hj] [X1 [X2 [X3 [X4 X5]]]]]]]]]].
        * left. apply (proj2 F0). left. exact H.
        * subst j0. left. apply (proj2 F0). right. exists f, idx, b. split; [exact X1|]. split; [exact X2|]. split; [exact X3|]. split; [exact X4 | exact X5].
        * right. exists j, f, idx, b. destruct (B3 (j, cf_name f)) as [Y1 [Y2 _]]. rewrite Y1, Y2.
          split; [exact Hj|]. split; [exact X1|]. split; [exact X2|]. split; [exact X3|]. split; [exact X4 | exact X5].
  Qed.

  (* the stripe step: status:recovered:<disk>:<file> is added exactly for the files whose last block is in the stripe and that are
     flagged FIXED and not DAMAGED when the step ends *)
  Theorem fix_step_recovered o c fs0 pos s t :
    plain nlev o -> co_fix o = true -> fst t = K_ST_RECOVERED ->
    let s' := stripe_step o c fs0 s pos in
    (In t (r_tags s') <->
     In t (r_tags s) \/ exists j f idx b, slot_of c pos j = SFile f idx b /\ S idx = length (cf_blocks f)
                                        /\ fl_damaged (get_fl (r_flags s') (j, cf_name f)) = false
                                        /\ fl_fixed (get_fl (r_flags s') (j, cf_name f)) = true /\ t = rec_tag j f).
  Proof.
    intros Hp Hfix Hk. cbn zeta.
    (* the state before the loop of file_post: no status:recovered line was added *)
    assert (HU : exists s7, stripe_step o c fs0 s pos = fold_left (file_post o c pos) (seq 0 (length (c_disks c))) s7 /\ Rn s s7).
    { pose proof (data_phase_Rn o c pos s) as D1.
      set (a := data_phase o c pos s) in *.
      pose proof (parity_phase_spec nlev o pos (da_st a) (pl_popen nlev o Hp)) as Epp.
      set (rec := map (prow (r_par (da_st a)) pos) (seq 0 nlev)) in *.
      match type of Epp with _ = (_, ?x) => set (s1a := x) in * end.
      assert (N1 : Rn (da_st a) s1a).
      { apply (Rn_ext (da_st a) s1a _ eq_refl). apply Forall_forall. intros x Hx. apply in_map_iff in Hx. destruct Hx as [l [Hx _]]. subst x. cbn. discriminate. }
      pose proof (repair_tags hashf padz bs nlev false pos (co_nosearch o) (search_view fs0 (r_fs (da_st a))) (da_failed a) rec (da_buf a) (r_jn (da_st a))) as Hrt.
      destruct (repair hashf padz bs nlev false pos (co_nosearch o) (search_view fs0 (r_fs (da_st a))) (da_failed a) rec (da_buf a) (r_jn (da_st a)))
        as [[[[res failed'] buf] jn'] rtags] eqn:Erep. cbn [snd] in Hrt.
      set (s1b := rs_tag (rs_setjn s1a jn') rtags).
      assert (N2 : Rn s1a s1b).
      { apply (Rn_ext s1a s1b rtags eq_refl). rewrite Forall_forall in *. intros x Hx Hkx. destruct (Hrt x Hx) as [Y|Y]; rewrite Y in Hkx; discriminate Hkx. }
      assert (Hcase : res = ROk \/ res <> ROk) by (destruct res; [left; reflexivity | right; discriminate | right; discriminate]).
      destruct Hcase as [Eres|Nres].
      - subst res.
        erewrite (stripe_step_ok hashf padz truncf bs nlev false newino now o c fs0 pos s rec _ failed' buf jn' rtags);
          [| exact (pl_audit nlev o Hp) | fold a; exact Epp | fold a; cbn [r_jn r_fs]; exact Erep].
        fold a. fold s1b. eexists. split; [reflexivity|].
        apply (Rn_trans _ (da_st a)); [exact D1|]. apply (Rn_trans _ s1a); [exact N1|]. apply (Rn_trans _ s1b); [exact N2|]. apply ok_body_Rn. exact Hfix.
      - erewrite (stripe_step_fail hashf padz truncf bs nlev false newino now o c fs0 pos s rec _ res failed' buf jn' rtags);
          [| exact (pl_audit nlev o Hp) | exact Nres | fold a; exact Epp | fold a; cbn [r_jn r_fs]; exact Erep].
        fold s1b. eexists. split; [reflexivity|].
        apply (Rn_trans _ (da_st a)); [exact D1|]. apply (Rn_trans _ s1a); [exact N1|]. apply (Rn_trans _ s1b); [exact N2|]. apply fail_body_Rn. }
    destruct HU as [s7 [E7 N7]].
    pose proof (stripe_step_Rt hashf padz truncf bs nlev false newino now o c pos fs0 s) as TT.
    rewrite E7 in *.
    pose proof (fold_file_post_rec o c pos t Hp Hfix Hk (seq 0 (length (c_disks c))) s7) as FF.
    destruct (post_general hashf padz truncf bs nlev newino o c pos Hp Hfix (seq 0 (length (c_disks c))) s7 (seq_NoDup _ 0)) as [_ [_ [P3 _]]].
    cbn zeta in P3. split.
    - intro H0. apply FF in H0. destruct H0 as [H|[j [f [idx [b [_ [X1 [X2 [X3 [X4 X5]]]]]]]]]]; [left; apply (N7 t H Hk) | right].
      exists j, f, idx, b. destruct (P3 (j, cf_name f)) as [Y1 [Y2 _]]. rewrite Y1, Y2. auto.
    - intros [H|[j [f [idx [b [X1 [X2 [X3 [X4 X5]]]]]]]]]; [apply TT; exact H|]. apply FF. right.
      exists j, f, idx, b. destruct (P3 (j, cf_name f)) as [Y1 [Y2 _]]. rewrite Y1 in X3. rewrite Y2 in X4.
      split; [apply in_seq; pose proof (slot_lt c pos j f idx b X1); lia | auto].
  Qed.


  (* ---- status:unrecoverable is only said by file_post, for a file flagged DAMAGED: the same walk for that tag ------------------ *)
  Definition Ru (s s' : rstate) : Prop := forall t, In t (r_tags s') -> fst t = K_ST_UNREC -> In t (r_tags s).
  Lemma Ru_refl s : Ru s s.
  Proof. intros t H _. exact H. Qed.
  Lemma Ru_trans a b d : Ru a b -> Ru b d -> Ru a d.
  Proof. intros H1 H2 t H Hk. apply (H1 t (H2 t H Hk) Hk). Qed.
  Lemma Ru_ext s s' ext : r_tags s' = r_tags s ++ ext -> Forall (fun t => fst t <> K_ST_UNREC) ext -> Ru s s'.
  Proof.
    intros E Hf t Ht Hk. rewrite E in Ht. apply in_app_or in Ht. destruct Ht as [Ht|Ht]; [exact Ht|].
    rewrite Forall_forall in Hf. exfalso. apply (Hf t Ht Hk).
  Qed.
  Ltac solve_ru :=
    intros ?t ?Ht ?Hk; cbn [r_tags rs_tag rs_err rs_recov rs_unrec rs_setfs rs_setjn rs_setpar rs_flag rs_setfl] in *;
    first [assumption
          | match goal with H : In _ (_ ++ _) |- _ =>
              apply in_app_or in H; destruct H as [H|H]; [exact H | exfalso; cbn in H;
                repeat (match goal with H0 : _ \/ _ |- _ => destruct H0 as [H0|H0] end);
                try contradiction; subst; cbn in *; discriminate] end].

  Section UnrWalk.
    Variable o : copts.
    Variable c : content.
    Variable pos : nat.

  Ltac walku :=
    repeat match goal with
    | |- Ru _ _ => assumption
    | |- Ru ?a ?a => apply Ru_refl
    | |- Ru _ (rs_flag ?x _ _) => apply (Ru_trans _ x); [| solve_ru]
    | |- Ru _ (rs_tag ?x _) => apply (Ru_trans _ x); [| solve_ru]
    | |- Ru _ (rs_err ?x _) => apply (Ru_trans _ x); [| solve_ru]
    | |- Ru _ (rs_recov ?x _) => apply (Ru_trans _ x); [| solve_ru]
    | |- Ru _ (rs_unrec ?x _) => apply (Ru_trans _ x); [| solve_ru]
    | |- Ru _ (rs_setfs ?x _) => apply (Ru_trans _ x); [| solve_ru]
    | |- Ru _ (rs_setjn ?x _) => apply (Ru_trans _ x); [| solve_ru]
    | |- Ru _ (rs_setpar ?x _) => apply (Ru_trans _ x); [| solve_ru]
    | |- Ru _ (if ?b then _ else _) => destruct b
    | |- Ru _ (match ?x with Some _ => _ | None => _ end) => destruct x
    end.

  Lemma fold_Ru {A} (f : rstate -> A -> rstate) : (forall s x, Ru s (f s x)) -> forall l s, Ru s (fold_left f l s).
  Proof.
    intro H. induction l as [|x t IH]; intro s; [apply Ru_refl|]. cbn [fold_left].
    apply (Ru_trans _ (f s x)); [apply H | apply IH].
  Qed.
  Lemma fold_pair_Ru {A B} (f : B * rstate -> A -> B * rstate) :
    (forall acc x, Ru (snd acc) (snd (f acc x))) -> forall l acc, Ru (snd acc) (snd (fold_left f l acc)).
  Proof.
    intro H. induction l as [|x t IH]; intro acc; [apply Ru_refl|]. cbn [fold_left].
    apply (Ru_trans _ (snd (f acc x))); [apply H | apply IH].
  Qed.

  Lemma open_Ru j f s0 s4 : Kpos c pos (j, cf_name f) -> open_step bs newino now o pos j f s0 = Some s4 -> Ru s0 s4.
  Proof.
    intros HK H. unfold open_step in H.
    destruct (bool_dec (co_fix o) true) as [Efix|Efix].
    - destruct (negb (co_fix o && negb (is_excl o j (cf_name f))) && _) in H; [discriminate|].
      match type of H with match ?x with Some _ => _ | None => _ end = _ => destruct x as [g0|]; [|discriminate] end.
      injection H as H. subst s4. walku.
    - apply not_true_is_false in Efix. rewrite Efix in H. destruct (fs_find (r_fs s0) j (cf_name f)) as [g|] eqn:Ep.
      + cbn [andb negb orb] in H. destruct (fl_missing _) in H; [discriminate|]. cbv beta iota in H. rewrite Ep in H.
        injection H as H. subst s4. walku.
      + cbn [andb negb orb] in H. rewrite orb_true_r in H. discriminate.
  Qed.

  Lemma data_step_Ru a j : Ru (da_st a) (da_st (data_step o c pos a j)).
  Proof.
    unfold data_step. destruct (nth j (c_disks c) None) as [d|] eqn:En; [|apply Ru_refl].
    destruct (slot_at d pos) as [|f idx b|h] eqn:Es; try (apply Ru_refl).
    assert (HK : Kpos c pos (j, cf_name f)).
    { exists f, idx, b. cbn [fst snd]. rewrite slot_of_nth, En, Es. auto. }
    destruct (co_audit o && is_excl o j (cf_name f)); [apply Ru_refl|].
    destruct (open_step bs newino now o pos j f (da_st a)) as [s4|] eqn:Eo.
    - pose proof (open_Ru j f (da_st a) s4 HK Eo) as X.
      destruct (read_block bs s4 j f idx); [|cbn [da_st]; walku].
      destruct (fb_state b); try (destruct (hval_eqb _ _)); cbn [da_st]; walku.
    - cbn [da_st]. walku.
  Qed.

  Lemma data_phase_Ru s : Ru s (da_st (data_phase o c pos s)).
  Proof.
    unfold data_phase.
    assert (H : forall l a, Ru (da_st a) (da_st (fold_left (data_step o c pos) l a))).
    { induction l as [|x t IH]; intro a; [apply Ru_refl|]. cbn [fold_left].
      apply (Ru_trans _ (da_st (data_step o c pos a x))); [apply data_step_Ru | apply IH]. }
    apply (H _ (mkDA [] [] true false s)).
  Qed.

  Lemma parity_phase_Ru s : Ru s (snd (parity_phase nlev o pos s)).
  Proof.
    unfold parity_phase. refine (fold_pair_Ru _ _ _ ([], s)). intros [r st] l. cbn beta iota.
    destruct (nth l (co_popen o) false); [destruct (nth pos (nth l (r_par st) []) PNone)|]; cbn [snd]; walku.
  Qed.
  Lemma compare_phase_Ru rec buf s : Ru s (snd (compare_phase nlev pos rec buf s)).
  Proof.
    unfold compare_phase. refine (fold_pair_Ru _ _ _ ([], s)). intros [r st] l. cbn beta iota zeta.
    destruct (negb _ && negb _); cbn [snd]; walku.
  Qed.
  Lemma write_phase_Ru failed buf s : co_fix o = true -> Ru s (write_phase padz truncf bs now o pos failed buf s).
  Proof.
    intro Efix. unfold write_phase. apply fold_Ru. intros st e.
    destruct (negb (fe_bad e)); [walku|]. destruct (fe_file e) as [[f i]|]; [|walku].
    destruct (is_excl o (fe_idx e) (cf_name f) || _); [walku|]. walku.
  Qed.
  Lemma parity_write_Ru rec2 buf s : co_fix o = true -> Ru s (parity_write_phase nlev o pos rec2 buf s).
  Proof. intro Efix. unfold parity_write_phase. apply fold_Ru. intros st l. walku. Qed.

  Lemma ok_body_Ru failed' rec buf cp s1b : co_fix o = true -> Ru s1b (ok_body padz truncf bs nlev now o pos failed' rec buf cp s1b).
  Proof.
    intro Hfix. unfold ok_body. cbv zeta.
    set (partial := filter (fun e => fe_bad e && fe_ood e) failed').
    set (s3 := fold_left _ partial s1b).
    assert (X3 : Ru s1b s3) by (apply fold_Ru; intros st e; destruct (fe_file e) as [[f i]|]; walku).
    set (s4 := match partial with [] => s3 | _ => rs_unrec (rs_err s3 (length partial)) 1 end).
    assert (X4 : Ru s1b s4) by (unfold s4; destruct partial; walku).
    destruct cp.
    - pose proof (compare_phase_Ru rec buf s4) as Cp. destruct (compare_phase nlev pos rec buf s4) as [rec2 s5]. cbn [snd] in Cp.
      rewrite Hfix. apply (Ru_trans _ (write_phase padz truncf bs now o pos failed' buf s5)); [|apply parity_write_Ru; exact Hfix].
      apply (Ru_trans _ s5); [apply (Ru_trans _ s4); assumption | apply write_phase_Ru; exact Hfix].
    - rewrite Hfix. apply (Ru_trans _ s4); [exact X4 | apply write_phase_Ru; exact Hfix].
  Qed.

  Lemma fail_body_Ru res failed' s1b : Ru s1b (fail_body pos res failed' s1b).
  Proof.
    unfold fail_body. cbv zeta.
    match goal with |- Ru _ (fold_left _ _ (fold_left _ _ ?s3)) => assert (X3 : Ru s1b s3) by walku end.
    match goal with |- Ru _ (fold_left _ _ ?s4) => apply (Ru_trans _ s4) end.
    - match goal with |- Ru _ (fold_left _ _ ?s3) => apply (Ru_trans _ s3); [exact X3|] end. apply fold_Ru. intros st [[j f] i]. walku.
    - apply fold_Ru. intros st [[j f] i]. walku.
  Qed.

  End UnrWalk.

  Definition unr_tag (j : nat) (f : cfile) : N * list N := (K_ST_UNREC, [N.of_nat j; cf_name f]).

  Lemma file_post_unr o c pos st j t :
    plain nlev o -> co_fix o = true -> fst t = K_ST_UNREC -> In t (r_tags (file_post o c pos st j)) ->
    In t (r_tags st) \/ exists f idx b, slot_of c pos j = SFile f idx b /\ S idx = length (cf_blocks f)
                                       /\ fl_damaged (get_fl (r_flags st) (j, cf_name f)) = true /\ t = unr_tag j f.
  Proof.
    intros Hp Hfix Hk. unfold file_post. pose proof (slot_of_nth c pos j) as Hs.
    destruct (nth j (c_disks c) None) as [d|]; [|auto].
    destruct (slot_at d pos) as [|f idx b|h] eqn:Es; auto.
    destruct (Nat.eqb (S idx) (length (cf_blocks f))) eqn:El; cbn [negb]; [|auto].
    apply Nat.eqb_eq in El. rewrite (plain_not_excl nlev o j _ Hp), (pl_synced nlev o Hp), Hfix. cbn [orb andb].
    destruct (fl_damaged (get_fl (r_flags st) (j, cf_name f))) eqn:Ed.
    - cbn [r_tags rs_tag rs_setfs rs_flag rs_setfl]. rewrite in_app1. intros [H|H]; [left; exact H | right].
      exists f, idx, b. auto.
    - destruct (fl_fixed (get_fl (r_flags st) (j, cf_name f))); cbn [negb]; [|cbn [r_tags rs_flag rs_setfl]; auto].
      cbv zeta. cbn [r_fs rs_tag rs_flag rs_setfl].
      destruct (fs_find (r_fs st) j (cf_name f)) as [g|]; [match goal with |- context [if ?b0 then _ else _] => destruct b0 end|];
        intro H; cbn [r_tags rs_tag rs_setfs rs_flag rs_setfl] in H; repeat rewrite in_app1 in H;
        repeat (match goal with H0 : _ \/ _ |- _ => destruct H0 as [H0|H0] end);
        first [left; assumption | subst t; cbn in Hk; discriminate Hk].
  Qed.

  Lemma fold_file_post_unr o c pos t : plain nlev o -> co_fix o = true -> fst t = K_ST_UNREC -> forall js st,
    In t (r_tags (fold_left (file_post o c pos) js st)) ->
    In t (r_tags st) \/ exists j f idx b, In j js /\ slot_of c pos j = SFile f idx b
                                         /\ fl_damaged (get_fl (r_flags st) (j, cf_name f)) = true /\ t = unr_tag j f.
  Proof.
    intros Hp Hfix Hk. induction js as [|j0 js IH]; intro st; cbn [fold_left]; [auto|].
    destruct (file_post_frame o c pos st j0) as [_ [_ [B3 _]]].
    intro H. apply IH in H. destruct H as [H|[j [f [idx [b [Hj [X1 [X2 X3]]]]]]]].
    - apply (file_post_unr o c pos st j0 t Hp Hfix Hk) in H. destruct H as [H|[f [idx [b [X1 [_ [X2 X3]]]]]]]; [left; exact H | right].
      exists j0, f, idx, b. split; [left; reflexivity | auto].
    - right. exists j, f, idx, b. destruct (B3 (j, cf_name f)) as [Y1 _]. rewrite Y1 in X2. split; [right; exact Hj | auto].
  Qed.

  (* the stripe step: a new status:unrecoverable:<disk>:<file> line is for a file of the stripe flagged DAMAGED when the step ends *)
  Theorem fix_step_unrec_tag o c fs0 pos s t :
    plain nlev o -> co_fix o = true -> fst t = K_ST_UNREC ->
    let s' := stripe_step o c fs0 s pos in
    In t (r_tags s') ->
    In t (r_tags s) \/ exists j f idx b, slot_of c pos j = SFile f idx b
                                        /\ fl_damaged (get_fl (r_flags s') (j, cf_name f)) = true /\ t = unr_tag j f.
  Proof.
    intros Hp Hfix Hk. cbn zeta.
    assert (HU : exists s7, stripe_step o c fs0 s pos = fold_left (file_post o c pos) (seq 0 (length (c_disks c))) s7 /\ Ru s s7).
    { pose proof (data_phase_Ru o c pos s) as D1.
      set (a := data_phase o c pos s) in *.
      pose proof (parity_phase_spec nlev o pos (da_st a) (pl_popen nlev o Hp)) as Epp.
      set (rec := map (prow (r_par (da_st a)) pos) (seq 0 nlev)) in *.
      match type of Epp with _ = (_, ?x) => set (s1a := x) in * end.
      assert (N1 : Ru (da_st a) s1a).
      { apply (Ru_ext (da_st a) s1a _ eq_refl). apply Forall_forall. intros x Hx. apply in_map_iff in Hx. destruct Hx as [l [Hx _]]. subst x. cbn. discriminate. }
      pose proof (repair_tags hashf padz bs nlev false pos (co_nosearch o) (search_view fs0 (r_fs (da_st a))) (da_failed a) rec (da_buf a) (r_jn (da_st a))) as Hrt.
      destruct (repair hashf padz bs nlev false pos (co_nosearch o) (search_view fs0 (r_fs (da_st a))) (da_failed a) rec (da_buf a) (r_jn (da_st a)))
        as [[[[res failed'] buf] jn'] rtags] eqn:Erep. cbn [snd] in Hrt.
      set (s1b := rs_tag (rs_setjn s1a jn') rtags).
      assert (N2 : Ru s1a s1b).
      { apply (Ru_ext s1a s1b rtags eq_refl). rewrite Forall_forall in *. intros x Hx Hkx. destruct (Hrt x Hx) as [Y|Y]; rewrite Y in Hkx; discriminate Hkx. }
      assert (Hcase : res = ROk \/ res <> ROk) by (destruct res; [left; reflexivity | right; discriminate | right; discriminate]).
      destruct Hcase as [Eres|Nres].
      - subst res.
        erewrite (stripe_step_ok hashf padz truncf bs nlev false newino now o c fs0 pos s rec _ failed' buf jn' rtags);
          [| exact (pl_audit nlev o Hp) | fold a; exact Epp | fold a; cbn [r_jn r_fs]; exact Erep].
        fold a. fold s1b. eexists. split; [reflexivity|].
        apply (Ru_trans _ (da_st a)); [exact D1|]. apply (Ru_trans _ s1a); [exact N1|]. apply (Ru_trans _ s1b); [exact N2|]. apply ok_body_Ru. exact Hfix.
      - erewrite (stripe_step_fail hashf padz truncf bs nlev false newino now o c fs0 pos s rec _ res failed' buf jn' rtags);
          [| exact (pl_audit nlev o Hp) | exact Nres | fold a; exact Epp | fold a; cbn [r_jn r_fs]; exact Erep].
        fold s1b. eexists. split; [reflexivity|].
        apply (Ru_trans _ (da_st a)); [exact D1|]. apply (Ru_trans _ s1a); [exact N1|]. apply (Ru_trans _ s1b); [exact N2|]. apply fail_body_Ru. }
    destruct HU as [s7 [E7 N7]]. rewrite E7.
    destruct (post_general hashf padz truncf bs nlev newino o c pos Hp Hfix (seq 0 (length (c_disks c))) s7 (seq_NoDup _ 0)) as [_ [_ [P3 _]]].
    cbn zeta in P3.
    intro H0. apply (fold_file_post_unr o c pos t Hp Hfix Hk) in H0.
    destruct H0 as [H|[j [f [idx [b [_ [X1 [X2 X3]]]]]]]]; [left; apply (N7 t H Hk) | right].
    exists j, f, idx, b. destruct (P3 (j, cf_name f)) as [Y1 _]. rewrite Y1. auto.
  Qed.

  Lemma obj_step_unr o c s ob t :
    fst t = K_ST_UNREC -> In t (r_tags (obj_step newino now o c s ob)) -> In t (r_tags s).
  Proof.
    intro Hk. unfold obj_step. destruct (ob_excl ob); [auto|].
    destruct (ob_kind ob);
      repeat (match goal with
              | |- context [if ?b then _ else _] => destruct b
              | |- context [match ?x with Some _ => _ | None => _ end] => destruct x
              | |- context [match ?x with OOk => _ | OBad => _ end] => destruct x
              end);
      intro Ht; cbn [r_tags rs_tag rs_err rs_recov rs_unrec rs_setfs] in Ht;
      repeat (match goal with H : In _ (_ ++ _) |- _ => apply in_app_or in H; destruct H as [H|H] end);
      repeat (match goal with H : In _ (_ :: _) |- _ => destruct H as [H|H] end);
      try assumption; try contradiction;
      subst t; cbn in Hk; discriminate Hk.
  Qed.

  (* ---- the whole run ------------------------------------------------------------------------------------------------------ *)
  Lemma block_disabled_no_file o c pos :
    plain nlev o -> block_enabled nlev o c pos = false -> forall j f i b, slot_of c pos j <> SFile f i b.
  Proof.
    intros Hp H j f i b Hs. unfold block_enabled in H. apply orb_false_iff in H. destruct H as [_ H].
    assert (X : existsb (fun j => match nth j (c_disks c) None with
                                  | Some d => match slot_at d pos with SFile f _ _ => negb (is_excl o j (cf_name f)) | _ => false end
                                  | None => false end) (seq 0 (length (c_disks c))) = true); [|rewrite X in H; discriminate H].
    apply existsb_exists. exists j. split; [apply in_seq; pose proof (slot_lt c pos j f i b Hs); lia|].
    rewrite slot_of_nth in Hs. destruct (nth j (c_disks c) None) as [d|]; [|discriminate]. rewrite Hs.
    rewrite (plain_not_excl nlev o j _ Hp). reflexivity.
  Qed.

  Lemma obj_step_rec o c s ob t :
    fst t = K_ST_RECOVERED -> In t (r_tags (obj_step newino now o c s ob)) ->
    In t (r_tags s) \/ t = (K_ST_RECOVERED, [N.of_nat (ob_disk ob); ob_name ob]).
  Proof.
    intro Hk. unfold obj_step. destruct (ob_excl ob); [auto|].
    destruct (ob_kind ob);
      repeat (match goal with
              | |- context [if ?b then _ else _] => destruct b
              | |- context [match ?x with Some _ => _ | None => _ end] => destruct x
              | |- context [match ?x with OOk => _ | OBad => _ end] => destruct x
              end);
      intro Ht; cbn [r_tags rs_tag rs_err rs_recov rs_unrec rs_setfs] in Ht;
      repeat (match goal with H : In _ (_ ++ _) |- _ => apply in_app_or in H; destruct H as [H|H] end);
      repeat (match goal with H : In _ (_ :: _) |- _ => destruct H as [H|H] end);
      try (left; assumption); try contradiction;
      subst t; first [right; reflexivity | cbn in Hk; discriminate Hk].
  Qed.

  Section RunP.
    Variable o : copts.
    Variable c : content.
    Variable bm : nat.
    Variable fs0 : list (option fsdisk).
    Variable par : parity.
    Hypothesis Hplain : plain nlev o.
    Hypothesis Hfix : co_fix o = true.
    Hypothesis Hgeom : geom bs c bm.
    Hypothesis Hlen : length fs0 = length (c_disks c).
    Hypothesis Hparlen : nlev <= length par.

    Let s0 : rstate := mkRS fs0 [] par 0 0 0 [] 0%N.
    Notation dam st j f := (fl_damaged (get_fl (r_flags st) (j, cf_name f))).
    Notation step := (fun s pos => if block_enabled nlev o c pos then stripe_step o c fs0 s pos else s).

    (* the file f of disk j is intact in the damaged array as far as the positions < k go: not larger than recorded, every mapped
       block reads and, unless it is a CHG block (no recorded hash), hashes to the recorded hash *)
    Definition intactP (k j : nat) (f : cfile) : Prop :=
      (fsz fs0 j (cf_name f) <= cf_size f)%N
      /\ forall p i b, p < k -> slot_of c p j = SFile f i b ->
           exists y, read_block bs s0 j f i = Some y /\ (fb_state b <> SChg -> hash_ok hashf bs f i b y = true).

    Record rinvP (k : nat) (s : rstate) : Prop := {
      rp_len : length (r_fs s) = length (c_disks c);
      (* the blocks at positions not yet visited are those of the damaged array *)
      rp_later : forall p j f i b, slot_of c p j = SFile f i b -> k <= p -> fblk (r_fs s) j (cf_name f) i = fblk fs0 j (cf_name f) i;
      (* a block at a position already visited: the file is flagged, or the block was not rewritten, or it is a rebuilt block x
         (written zero padded), which for a CHG block is not the stale old block *)
      rp_done : forall p j f i b, slot_of c p j = SFile f i b -> p < k ->
                  dam s j f = true
                  \/ (fblk (r_fs s) j (cf_name f) i = fblk fs0 j (cf_name f) i
                      /\ (fb_state b <> SChg -> hash_ok hashf bs f i b (fblk fs0 j (cf_name f) i) = true))
                  \/ exists x, fblk (r_fs s) j (cf_name f) i = wbv f i x /\ (fb_state b = SChg -> NotOld j f i b x)
                               /\ (fb_state b <> SChg -> hash_ok hashf bs f i b x = true);
      (* nothing counted unrecoverable: no file flagged DAMAGED *)
      rp_clean : r_unrec s = 0 -> forall key, fl_damaged (get_fl (r_flags s) key) = false;
      (* a file flagged DAMAGED whose last block is passed: reported unrecoverable and renamed away *)
      rp_gone : forall p j f i b, slot_of c p j = SFile f i b -> p < k -> S i = length (cf_blocks f) -> dam s j f = true ->
                  fs_find (r_fs s) j (cf_name f) = None /\ In (K_ST_UNREC, [N.of_nat j; cf_name f]) (r_tags s);
      (* a file larger than recorded was never opened; a visited block of a file not flagged DAMAGED lies inside the file, which
         is not larger than recorded *)
      rp_grown : forall p j f i b, slot_of c p j = SFile f i b -> (cf_size f < fsz (r_fs s) j (cf_name f))%N ->
                   fl_opened (get_fl (r_flags s) (j, cf_name f)) = false;
      rp_size : forall p j f i b, slot_of c p j = SFile f i b -> p < k -> dam s j f = false ->
                  (N.of_nat i * bs + block_len bs (cf_size f) i <= fsz (r_fs s) j (cf_name f))%N /\ (fsz (r_fs s) j (cf_name f) <= cf_size f)%N;
      (* an intact file is not touched *)
      rp_intact : forall p j f i b, slot_of c p j = SFile f i b -> intactP k j f ->
                    fs_find (r_fs s) j (cf_name f) = fs_find fs0 j (cf_name f)
                    /\ fl_fixed (get_fl (r_flags s) (j, cf_name f)) = false /\ dam s j f = false
    }.

    Lemma rinvP_0 : rinvP 0 s0.
    Proof. constructor; cbn; auto; intros; lia. Qed.

    Lemma rinvP_step k s : rinvP k s -> k < bm -> rinvP (S k) (step s k).
    Proof.
      intros I Hk. cbv beta.
      destruct (block_enabled nlev o c k) eqn:Een.
      2: { pose proof (block_disabled_no_file o c k Hplain Een) as Hno. constructor.
           - apply (rp_len k s I).
           - intros p j f i b Hs Hp. apply (rp_later k s I p j f i b Hs). lia.
           - intros p j f i b Hs Hp. destruct (Nat.eq_dec p k) as [E|E]; [subst p; exfalso; apply (Hno j f i b Hs)|].
             apply (rp_done k s I p j f i b Hs ltac:(lia)).
           - apply (rp_clean k s I).
           - intros p j f i b Hs Hp. destruct (Nat.eq_dec p k) as [E|E]; [subst p; exfalso; apply (Hno j f i b Hs)|].
             apply (rp_gone k s I p j f i b Hs). lia.
           - apply (rp_grown k s I).
           - intros p j f i b Hs Hp. destruct (Nat.eq_dec p k) as [E|E]; [subst p; exfalso; apply (Hno j f i b Hs)|].
             apply (rp_size k s I p j f i b Hs). lia.
           - intros p j f i b Hs [Hi1 Hi2]. apply (rp_intact k s I p j f i b Hs). split; [exact Hi1 | intros p' i' b' Hp'; apply Hi2; lia]. }
      destruct (fix_step_pending_full o c fs0 k s Hplain Hfix (rp_len k s I)) as [K1 [K2 [K3 [[K4a K4b] [_ [K6 [K7 [K8 [K9 [K10 K11]]]]]]]]]].
      pose proof (stripe_step_dam_mono false o c k fs0 s) as Kd.
      set (s' := stripe_step o c fs0 s k) in *.
      (* the block i of the file of a slot (p, j, f, i, b) with p <> k: untouched, or the file is flagged *)
      assert (Hfr : forall p j f i b, slot_of c p j = SFile f i b -> p <> k ->
                 fblk (r_fs s') j (cf_name f) i = fblk (r_fs s) j (cf_name f) i
                 \/ (dam s' j f = true /\ exists ik bk, slot_of c k j = SFile f ik bk /\ S ik = length (cf_blocks f))).
      { intros p j f i b Hs Hpk.
        destruct (g_wf bs c bm Hgeom p j f i b Hs) as [Hl Hw]. pose proof (idx_lt_nblocks bs (cf_size f) i Hl Hw) as Hin.
        assert (Hoth : (forall f' i' b', slot_of c k j = SFile f' i' b' -> cf_name f' <> cf_name f) ->
                       fblk (r_fs s') j (cf_name f) i = fblk (r_fs s) j (cf_name f) i).
        { intro Hno. unfold fblk. rewrite (K2 j (cf_name f) Hno). reflexivity. }
        destruct (slot_of c k j) as [|fk ik bk|h] eqn:Ek.
        - left. apply Hoth. intros f' i' b' X. discriminate X.
        - destruct (N.eq_dec (cf_name fk) (cf_name f)) as [En|En].
          + destruct (g_same bs c bm Hgeom k p j fk ik bk f i b Ek Hs En) as [Ef H1]. subst fk.
            destruct (g_same bs c bm Hgeom p k j f i b f ik bk Hs Ek eq_refl) as [_ H2].
            assert (Hne : i <> ik) by (destruct (Nat.lt_ge_cases p k) as [X|X]; [specialize (H2 X); lia | specialize (H1 ltac:(lia)); lia]).
            destruct (K3 j f ik bk Ek) as [[_ [Kd' Kl]]|[Kb _]].
            * right. split; [exact Kd'|]. exists ik, bk. auto.
            * left. apply (Kb i Hne Hin).
          + left. apply Hoth. intros f' i' b' X. injection X as X1 X2 X3. subst f'. exact En.
        - left. apply Hoth. intros f' i' b' X. discriminate X. }
      constructor.
      - rewrite K1. apply (rp_len k s I).
      - intros p j f i b Hs Hp. rewrite <- (rp_later k s I p j f i b Hs ltac:(lia)).
        destruct (Hfr p j f i b Hs ltac:(lia)) as [X|[_ [ik [bk [Ek El]]]]]; [exact X|]. exfalso.
        destruct (g_same bs c bm Hgeom k p j f ik bk f i b Ek Hs eq_refl) as [_ H1]. specialize (H1 ltac:(lia)).
        pose proof (g_idx bs c bm Hgeom p j f i b Hs). lia.
      - intros p j f i b Hs Hp. destruct (Nat.eq_dec p k) as [E|E].
        + subst p. destruct (g_wf bs c bm Hgeom k j f i b Hs) as [Hl Hw]. pose proof (idx_lt_nblocks bs (cf_size f) i Hl Hw) as Hin.
          destruct (K3 j f i b Hs) as [[_ [Kd' _]]|[_ Kw]]; [left; exact Kd'|].
          destruct (Kw Hin) as [[X Xh]|[x [X1 [X2 X3]]]].
          * rewrite (rp_later k s I k j f i b Hs (le_n k)) in X, Xh.
            destruct (fb_state b) eqn:Est.
            -- destruct (Xh ltac:(discriminate)) as [Y|Y]; [left; exact Y | right; left; split; [exact X | intros _; exact Y]].
            -- right. left. split; [exact X | intro Z; exfalso; apply Z; reflexivity].
            -- destruct (Xh ltac:(discriminate)) as [Y|Y]; [left; exact Y | right; left; split; [exact X | intros _; exact Y]].
          * destruct (fb_state b) eqn:Est.
            -- destruct (X3 ltac:(discriminate)) as [Y|Y]; [left; exact Y | right; right; exists x; split; [exact X1 | split; [intro Z; discriminate Z | intros _; exact Y]]].
            -- destruct (X2 eq_refl) as [Y|Y]; [left; exact Y | right; right; exists x; split; [exact X1 | split; [intros _; exact Y | intro Z; exfalso; apply Z; reflexivity]]].
            -- destruct (X3 ltac:(discriminate)) as [Y|Y]; [left; exact Y | right; right; exists x; split; [exact X1 | split; [intro Z; discriminate Z | intros _; exact Y]]].
        + destruct (rp_done k s I p j f i b Hs ltac:(lia)) as [X|X]; [left; apply Kd; exact X|].
          destruct (Hfr p j f i b Hs E) as [Y|[Y _]]; [|left; exact Y]. right. rewrite Y. exact X.
      - intros Hu key. assert (Hu0 : r_unrec s = 0) by lia. rewrite (K4b ltac:(lia) key). apply (rp_clean k s I Hu0).
      - (* flagged files are reported and renamed away at their last block *)
        intros p j f i b Hs Hp Hl Hd.
        pose proof (stripe_step_Rt hashf padz truncf bs nlev false newino now o c k fs0 s) as Mono. fold s' in Mono.
        assert (Hoth : (forall f' i' b', slot_of c k j = SFile f' i' b' -> cf_name f' <> cf_name f) -> p <> k ->
                       fs_find (r_fs s') j (cf_name f) = None /\ In (K_ST_UNREC, [N.of_nat j; cf_name f]) (r_tags s')).
        { intros Hno Hpk. destruct (K8 j (cf_name f) Hno) as [_ X2]. rewrite X2 in Hd.
          destruct (rp_gone k s I p j f i b Hs ltac:(lia) Hl Hd) as [Y1 Y2]. rewrite (K2 j (cf_name f) Hno). split; [exact Y1 | apply Mono; exact Y2]. }
        destruct (slot_of c k j) as [|fk ik bk|h] eqn:Ek.
        + apply Hoth; [intros f' i' b' X; discriminate X | intro X; subst p; rewrite Ek in Hs; discriminate Hs].
        + destruct (N.eq_dec (cf_name fk) (cf_name f)) as [En|En].
          * destruct (g_same bs c bm Hgeom k p j fk ik bk f i b Ek Hs En) as [Ef _]. subst fk.
            destruct (g_same bs c bm Hgeom p k j f i b f ik bk Hs Ek eq_refl) as [_ H2].
            destruct (Nat.eq_dec p k) as [Epk|Epk].
            -- subst p. rewrite Ek in Hs. injection Hs as Hi Hb. subst ik bk. apply (K10 j f i b); [rewrite Ek; reflexivity | exact Hd | exact Hl].
            -- exfalso. pose proof (g_idx bs c bm Hgeom k j f ik bk Ek). specialize (H2 ltac:(lia)). lia.
          * apply Hoth; [intros f' i' b' X; injection X as X1 X2 X3; subst f'; exact En|].
            intro X. subst p. rewrite Ek in Hs. injection Hs as X1 X2 X3. subst fk. apply En. reflexivity.
        + apply Hoth; [intros f' i' b' X; discriminate X | intro X; subst p; rewrite Ek in Hs; discriminate Hs].
      - (* larger than recorded: never opened *)
        intros p j f i b Hs Hgr.
        assert (Hoth : (forall f' i' b', slot_of c k j = SFile f' i' b' -> cf_name f' <> cf_name f) ->
                       fl_opened (get_fl (r_flags s') (j, cf_name f)) = false).
        { intro Hno. rewrite (K6 j (cf_name f) Hno). apply (rp_grown k s I p j f i b Hs). unfold fsz in *. rewrite <- (K2 j (cf_name f) Hno). exact Hgr. }
        destruct (slot_of c k j) as [|fk ik bk|h] eqn:Ek.
        + apply Hoth. intros f' i' b' X. discriminate X.
        + destruct (N.eq_dec (cf_name fk) (cf_name f)) as [En|En].
          * destruct (g_same bs c bm Hgeom k p j fk ik bk f i b Ek Hs En) as [Ef _]. subst fk. exfalso.
            destruct (g_wf bs c bm Hgeom k j f ik bk) as [_ Hwk]; [rewrite Ek; reflexivity|].
            destruct (K7 j f ik bk) as [[X _]|[Z1 Z2]]; [rewrite Ek; reflexivity | unfold fsz in Hgr; rewrite X in Hgr; lia|].
            destruct (opened_size_cases s j f) as [[Y Yo]|[Y1 Y2]]; [|lia].
            assert (Hg : (cf_size f < fsz (r_fs s) j (cf_name f))%N) by lia.
            rewrite (rp_grown k s I p j f i b Hs Hg) in Yo. specialize (Yo Hg). discriminate Yo.
          * apply Hoth. intros f' i' b' X. injection X as X1 X2 X3. subst f'. exact En.
        + apply Hoth. intros f' i' b' X. discriminate X.
      - (* visited blocks of files not flagged lie inside the file *)
        intros p j f i b Hs Hp Hd.
        assert (Hd0 : dam s j f = false) by (destruct (dam s j f) eqn:Y; [rewrite (Kd _ Y) in Hd; discriminate Hd | reflexivity]).
        destruct (g_wf bs c bm Hgeom p j f i b Hs) as [Hl Hw].
        assert (Hoth : (forall f' i' b', slot_of c k j = SFile f' i' b' -> cf_name f' <> cf_name f) -> p <> k ->
                       (N.of_nat i * bs + block_len bs (cf_size f) i <= fsz (r_fs s') j (cf_name f))%N /\ (fsz (r_fs s') j (cf_name f) <= cf_size f)%N).
        { intros Hno Hpk. unfold fsz. rewrite (K2 j (cf_name f) Hno). apply (rp_size k s I p j f i b Hs ltac:(lia) Hd0). }
        destruct (slot_of c k j) as [|fk ik bk|h] eqn:Ek.
        + apply Hoth; [intros f' i' b' X; discriminate X | intro X; subst p; rewrite Ek in Hs; discriminate Hs].
        + destruct (N.eq_dec (cf_name fk) (cf_name f)) as [En|En].
          * destruct (g_same bs c bm Hgeom k p j fk ik bk f i b Ek Hs En) as [Ef _]. subst fk.
            destruct (g_same bs c bm Hgeom p k j f i b f ik bk Hs) as [_ H2]; [rewrite Ek; reflexivity | reflexivity|].
            destruct (g_wf bs c bm Hgeom k j f ik bk) as [Hlk Hwk]; [rewrite Ek; reflexivity|].
            destruct (K11 j f ik bk) as [X|Hin']; [rewrite Ek; reflexivity | rewrite Hd in X; discriminate X|].
            destruct (K7 j f ik bk) as [[X _]|[Z1 Z2]]; [rewrite Ek; reflexivity | unfold fsz in Hin'; rewrite X in Hin'; lia|].
            (* the size of the file when opened: not larger than recorded *)
            assert (Hz1 : (ff_size (opened_file s j f) <= cf_size f)%N
                          /\ ((cf_size f < fsz (r_fs s) j (cf_name f))%N \/ ff_size (opened_file s j f) = fsz (r_fs s) j (cf_name f))).
            { destruct (opened_size_cases s j f) as [[Y Yo]|[Y1 Y2]]; [|split; [lia | left; exact Y2]].
              split; [|right; exact Y]. destruct (N.le_gt_cases (fsz (r_fs s) j (cf_name f)) (cf_size f)) as [X|X]; [lia|].
              rewrite (rp_grown k s I p j f i b Hs X) in Yo. specialize (Yo X). discriminate Yo. }
            destruct Hz1 as [Hz1 Hz2].
            destruct (Nat.eq_dec p k) as [Epk|Epk].
            -- subst p. rewrite Ek in Hs. injection Hs as Hi Hb. subst ik bk. split; [exact Hin' | lia].
            -- destruct (rp_size k s I p j f i b Hs ltac:(lia) Hd0) as [R1 R2]. split; [|lia].
               destruct Hz2 as [Y|Y]; lia.
          * apply Hoth; [intros f' i' b' X; injection X as X1 X2 X3; subst f'; exact En|].
            intro X. subst p. rewrite Ek in Hs. injection Hs as X1 X2 X3. subst fk. apply En. reflexivity.
        + apply Hoth; [intros f' i' b' X; discriminate X | intro X; subst p; rewrite Ek in Hs; discriminate Hs].
      - intros p j f i b Hs [Hi1 Hi2].
        destruct (rp_intact k s I p j f i b Hs) as [R1 [R2 R3]]; [split; [exact Hi1 | intros p' i' b' Hp'; apply Hi2; lia]|].
        assert (Hoth : (forall f' i' b', slot_of c k j = SFile f' i' b' -> cf_name f' <> cf_name f) ->
                       fs_find (r_fs s') j (cf_name f) = fs_find fs0 j (cf_name f)
                       /\ fl_fixed (get_fl (r_flags s') (j, cf_name f)) = false /\ dam s' j f = false).
        { intro Hno. destruct (K8 j (cf_name f) Hno) as [X1 X2]. rewrite (K2 j (cf_name f) Hno), X1, X2. auto. }
        destruct (slot_of c k j) as [|fk ik bk|h] eqn:Ek.
        + apply Hoth. intros f' i' b' X. discriminate X.
        + destruct (N.eq_dec (cf_name fk) (cf_name f)) as [En|En].
          * destruct (g_same bs c bm Hgeom k p j fk ik bk f i b Ek Hs En) as [Ef _]. subst fk.
            destruct (Hi2 k ik bk (Nat.lt_succ_diag_r k) Ek) as [y [Hry Hhy]].
            destruct (K9 j f ik bk) as [X1 [X2 X3]]; [rewrite Ek; reflexivity | | | exact R2 | exact R3 |].
            -- exists y. split; [|exact Hhy]. unfold read_block in *. rewrite R1. exact Hry.
            -- intros g Hg. rewrite R1 in Hg. unfold cut_cond. unfold fsz in Hi1. rewrite Hg in Hi1.
               assert (Y : (cf_size f <? ff_size g)%N = false) by (apply N.ltb_ge; exact Hi1). rewrite Y. reflexivity.
            -- rewrite X1. auto.
          * apply Hoth. intros f' i' b' X. injection X as X1 X2 X3. subst f'. exact En.
        + apply Hoth. intros f' i' b' X. discriminate X.
    Qed.

    Lemma rinvP_loop : forall k, k <= bm -> rinvP k (fold_left step (seq 0 k) s0).
    Proof.
      induction k as [|k IH]; intro Hk; [apply rinvP_0|].
      rewrite seq_S, fold_left_app. cbn [fold_left plus]. apply (rinvP_step k _ (IH ltac:(lia)) ltac:(lia)).
    Qed.

    Lemma finvP_loop : forall k, k <= bm -> finv c k (fold_left step (seq 0 k) s0).
    Proof.
      induction k as [|k IH]; intro Hk; [apply finv_0|].
      rewrite seq_S, fold_left_app. cbn [fold_left plus]. specialize (IH ltac:(lia)).
      set (sk := fold_left step (seq 0 k) s0) in *. cbv beta.
      destruct (block_enabled nlev o c k) eqn:Een.
      - apply (finv_step hashf padz truncf bs nlev false newino now o c bm fs0 par Hplain Hfix Hgeom Hlen Hparlen k sk IH ltac:(lia)).
      - pose proof (block_disabled_no_file o c k Hplain Een) as Hno. destruct IH as [Hnd Hcr]. constructor; [exact Hnd|].
        intros key H. destruct (Hcr key H) as [X|[p [j [f [i [b [Hp [Hs Hkey]]]]]]]]; [left; exact X | right].
        exists p, j, f, i, b. split; [|auto]. destruct (Nat.eq_dec p k) as [E|E]; [subst p; exfalso; apply (Hno j f i b Hs) | lia].
    Qed.

    (* status:recovered:<disk>:<file> is in the log exactly for the files whose last block is passed and that are flagged FIXED and
       not DAMAGED *)
    Definition recP (k : nat) (s : rstate) : Prop :=
      forall p0 j f i0 b0, slot_of c p0 j = SFile f i0 b0 ->
        (In (rec_tag j f) (r_tags s) <->
         exists p i b, slot_of c p j = SFile f i b /\ p < k /\ S i = length (cf_blocks f)
                       /\ fl_fixed (get_fl (r_flags s) (j, cf_name f)) = true /\ dam s j f = false).

    Lemma recP_0 : recP 0 s0.
    Proof. intros p0 j f i0 b0 _. cbn. split; [intros [] | intros [p [i [b [_ [X _]]]]]; lia]. Qed.

    Lemma recP_step k s : rinvP k s -> recP k s -> k < bm -> recP (S k) (step s k).
    Proof.
      intros I R Hk. cbv beta.
      destruct (block_enabled nlev o c k) eqn:Een.
      2: { pose proof (block_disabled_no_file o c k Hplain Een) as Hno. intros p0 j f i0 b0 Hs0. rewrite (R p0 j f i0 b0 Hs0). split.
           - intros [p [i [b [X1 [X2 X3]]]]]. exists p, i, b. split; [exact X1|]. split; [lia | exact X3].
           - intros [p [i [b [X1 [X2 X3]]]]]. exists p, i, b. split; [exact X1|]. split; [|exact X3].
             destruct (Nat.eq_dec p k) as [E|E]; [subst p; exfalso; apply (Hno j f i b X1) | lia]. }
      destruct (fix_step_pending_full o c fs0 k s Hplain Hfix (rp_len k s I)) as [_ [_ [_ [_ [_ [_ [_ [K8 _]]]]]]]].
      pose proof (stripe_step_Rt hashf padz truncf bs nlev false newino now o c k fs0 s) as Mono.
      set (s' := stripe_step o c fs0 s k) in *.
      intros p0 j f i0 b0 Hs0.
      pose proof (fix_step_recovered o c fs0 k s (rec_tag j f) Hplain Hfix eq_refl) as FR. cbn zeta in FR. fold s' in FR.
      (* the bits of a file whose last block lies before k *)
      assert (Hpast : forall p i b, slot_of c p j = SFile f i b -> p < k -> S i = length (cf_blocks f) ->
                 fl_fixed (get_fl (r_flags s') (j, cf_name f)) = fl_fixed (get_fl (r_flags s) (j, cf_name f)) /\ dam s' j f = dam s j f).
      { intros p i b Hs Hp Hl. apply (K8 j (cf_name f)). intros f' i' b' Ek En.
        destruct (g_same bs c bm Hgeom p k j f i b f' i' b' Hs Ek (eq_sym En)) as [Ef H1]. subst f'.
        pose proof (g_idx bs c bm Hgeom k j f i' b' Ek). specialize (H1 Hp). lia. }
      split.
      - intro H. apply (proj1 FR) in H. destruct H as [H|[j' [f' [idx [b [X1 [X2 [X3 [X4 X5]]]]]]]]].
        + apply (proj1 (R p0 j f i0 b0 Hs0)) in H. destruct H as [p [i [b [Y1 [Y2 [Y3 [Y4 Y5]]]]]]].
          destruct (Hpast p i b Y1 Y2 Y3) as [Z1 Z2]. exists p, i, b. split; [exact Y1|]. split; [lia|]. split; [exact Y3|]. split; congruence.
        + unfold rec_tag in X5. injection X5 as E1 E2. apply Nat2N.inj in E1. subst j'.
          destruct (g_same bs c bm Hgeom p0 k j f i0 b0 f' idx b Hs0 X1 E2) as [Ef _]. subst f'.
          exists k, idx, b. split; [exact X1|]. split; [lia|]. split; [exact X2|]. split; assumption.
      - intros [p [i [b [Y1 [Y2 [Y3 [Y4 Y5]]]]]]]. apply (proj2 FR). destruct (Nat.eq_dec p k) as [E|E].
        + subst p. right. exists j, f, i, b. split; [exact Y1|]. split; [exact Y3|]. split; [exact Y5|]. split; [exact Y4 | reflexivity].
        + left. apply (proj2 (R p0 j f i0 b0 Hs0)). assert (Hp : p < k) by lia. destruct (Hpast p i b Y1 Hp Y3) as [Z1 Z2].
          exists p, i, b. split; [exact Y1|]. split; [exact Hp|]. split; [exact Y3|]. split; congruence.
    Qed.

    Lemma recP_loop : forall k, k <= bm -> recP k (fold_left step (seq 0 k) s0).
    Proof.
      induction k as [|k IH]; intro Hk; [apply recP_0|].
      rewrite seq_S, fold_left_app. cbn [fold_left plus]. apply (recP_step k _ (rinvP_loop k ltac:(lia)) (IH ltac:(lia)) ltac:(lia)).
    Qed.

    Variable objs : list obj.
    Hypothesis Hobj_names : forall ob p f i b, In ob objs -> slot_of c p (ob_disk ob) = SFile f i b -> cf_name f <> ob_name ob.
    Hypothesis Hbm : c_blockmax c = bm.

    Lemma recP_objs : forall l s, incl l objs -> recP bm s -> recP bm (fold_left (obj_step newino now o c) l s).
    Proof.
      induction l as [|ob t IH]; intros s Hin R; [exact R|]. cbn [fold_left].
      assert (Hob : In ob objs) by (apply Hin; left; reflexivity).
      apply IH; [intros x Hx; apply Hin; right; exact Hx|].
      destruct (obj_step_frame newino now o c Hfix s ob) as [_ [F2 _]].
      pose proof (obj_step_Rt newino now o c s ob) as F6.
      intros p0 j f i0 b0 Hs0. rewrite F2. rewrite <- (R p0 j f i0 b0 Hs0). split; [|apply F6].
      intro H. destruct (obj_step_rec o c s ob (rec_tag j f) eq_refl H) as [X|X]; [exact X|]. exfalso.
      unfold rec_tag in X. injection X as E1 E2. apply Nat2N.inj in E1. apply (Hobj_names ob p0 f i0 b0 Hob); [rewrite <- E1; exact Hs0 | exact E2].
    Qed.

    Lemma rinvP_objs : forall l s, incl l objs -> rinvP bm s ->
      rinvP bm (fold_left (obj_step newino now o c) l s) /\ r_flags (fold_left (obj_step newino now o c) l s) = r_flags s.
    Proof.
      induction l as [|ob t IH]; intros s Hin I; [split; [exact I | reflexivity]|]. cbn [fold_left].
      assert (Hob : In ob objs) by (apply Hin; left; reflexivity).
      destruct (obj_step_frame newino now o c Hfix s ob) as [_ [F2 [F3 [F4 _]]]].
      pose proof (obj_step_unrec_le newino now o c s ob) as F5.
      pose proof (obj_step_Rt newino now o c s ob) as F6.
      set (s1 := obj_step newino now o c s ob) in *.
      assert (Efs : forall p j f i b, slot_of c p j = SFile f i b -> fs_find (r_fs s1) j (cf_name f) = fs_find (r_fs s) j (cf_name f)).
      { intros p j f i b Hs. apply F4. intro X. injection X as X1 X2. subst j. apply (Hobj_names ob p f i b Hob Hs). exact X2. }
      assert (I1 : rinvP bm s1).
      { constructor.
        - rewrite F3. apply (rp_len bm s I).
        - intros p j f i b Hs. unfold fblk. rewrite (Efs p j f i b Hs). apply (rp_later bm s I p j f i b Hs).
        - intros p j f i b Hs. unfold fblk. rewrite F2, (Efs p j f i b Hs). apply (rp_done bm s I p j f i b Hs).
        - intro Hu. rewrite F2. apply (rp_clean bm s I). lia.
        - intros p j f i b Hs Hp Hl Hd. rewrite F2 in Hd. rewrite (Efs p j f i b Hs).
          destruct (rp_gone bm s I p j f i b Hs Hp Hl Hd) as [Y1 Y2]. split; [exact Y1 | apply F6; exact Y2].
        - intros p j f i b Hs. unfold fsz. rewrite F2, (Efs p j f i b Hs). apply (rp_grown bm s I p j f i b Hs).
        - intros p j f i b Hs. unfold fsz. rewrite F2, (Efs p j f i b Hs). apply (rp_size bm s I p j f i b Hs).
        - intros p j f i b Hs. rewrite F2, (Efs p j f i b Hs). apply (rp_intact bm s I p j f i b Hs). }
      destruct (IH s1 (fun x Hx => Hin x (or_intror Hx)) I1) as [I2 E2]. split; [exact I2 | congruence].
    Qed.

    Lemma fix_run_rinvP :
      let out := check_run hashf padz truncf bs nlev false newino now o c par fs0 objs (seq 0 bm) in
      rinvP bm (out_st out) /\ out_fail out = negb (Nat.eqb (r_unrec (out_st out)) 0).
    Proof.
      cbn zeta. rewrite (check_run_unfold hashf padz truncf bs nlev false newino now o c par fs0 objs bm Hbm). cbv zeta. fold s0.
      pose proof (rinvP_loop bm (le_n bm)) as I1. pose proof (finvP_loop bm (le_n bm)) as J1.
      set (s1 := fold_left step (seq 0 bm) s0) in *.
      destruct (rinvP_objs objs s1 (fun x H => H) I1) as [I2 E2].
      set (s2 := fold_left (obj_step newino now o c) objs s1) in *.
      assert (Ec : cleanup o s2 = s2).
      { apply cleanup_noop. intros k f Hin. rewrite E2 in Hin. destruct J1 as [Hnd Hcr].
        pose proof (get_fl_in (r_flags s1) k f Hnd Hin) as Eg.
        destruct (fl_created f) eqn:Ecr; [|reflexivity]. cbn [andb].
        destruct (Hcr k ltac:(rewrite Eg; exact Ecr)) as [Hf|[p [j [f' [i [b [Hp [Hs _]]]]]]]].
        - rewrite Eg in Hf. rewrite Hf. reflexivity.
        - pose proof (g_bm bs c bm Hgeom p j f' i b Hs). lia. }
      rewrite Ec. cbn [out_st out_fail]. rewrite Hfix. split; [exact I2 | reflexivity].
    Qed.

    (* the whole run, any block map: a CHG block of a file not flagged DAMAGED is, at the end of the run, the block that was on the
       disk before the run (0 when the file was absent), or a rebuilt block (written zero padded) that is NOT the stale old block *)
    Theorem fix_run_chg_pending :
      let out := check_run hashf padz truncf bs nlev false newino now o c par fs0 objs (seq 0 bm) in
      (out_fail out = true <-> r_unrec (out_st out) <> 0)
      /\ (forall key, fl_damaged (get_fl (r_flags (out_st out)) key) = true -> r_unrec (out_st out) <> 0 /\ out_fail out = true)
      /\ forall p j f i b, slot_of c p j = SFile f i b ->
           dam (out_st out) j f = true
           \/ (fblk (r_fs (out_st out)) j (cf_name f) i = fblk fs0 j (cf_name f) i
               /\ (fb_state b <> SChg -> hash_ok hashf bs f i b (fblk fs0 j (cf_name f) i) = true))
           \/ exists x, fblk (r_fs (out_st out)) j (cf_name f) i = wbv f i x /\ (fb_state b = SChg -> NotOld j f i b x)
                        /\ (fb_state b <> SChg -> hash_ok hashf bs f i b x = true).
    Proof.
      cbn zeta. destruct fix_run_rinvP as [I Ef]. cbn zeta in I, Ef.
      assert (Hst : out_fail (check_run hashf padz truncf bs nlev false newino now o c par fs0 objs (seq 0 bm)) = true
                    <-> r_unrec (out_st (check_run hashf padz truncf bs nlev false newino now o c par fs0 objs (seq 0 bm))) <> 0).
      { rewrite Ef. destruct (Nat.eqb _ 0) eqn:E; cbn [negb]; [apply Nat.eqb_eq in E | apply Nat.eqb_neq in E]; split; intro X; try discriminate X; try reflexivity; congruence. }
      split; [exact Hst|]. split.
      - intros key Hd. assert (Hu : r_unrec (out_st (check_run hashf padz truncf bs nlev false newino now o c par fs0 objs (seq 0 bm))) <> 0).
        { intro X. rewrite (rp_clean bm _ I X key) in Hd. discriminate Hd. }
        split; [exact Hu | apply Hst; exact Hu].
      - intros p j f i b Hs. apply (rp_done bm _ I p j f i b Hs (g_bm bs c bm Hgeom p j f i b Hs)).
    Qed.

    (* a file not flagged DAMAGED has exactly its recorded size at the end of the run *)
    Theorem fix_run_size_exact :
      let out := check_run hashf padz truncf bs nlev false newino now o c par fs0 objs (seq 0 bm) in
      forall p j f i b, slot_of c p j = SFile f i b -> dam (out_st out) j f = false ->
        exists g, fs_find (r_fs (out_st out)) j (cf_name f) = Some g /\ ff_size g = cf_size f.
    Proof.
      cbn zeta. intros p j f i b Hs Hd. destruct fix_run_rinvP as [I _]. cbn zeta in I.
      destruct (g_last bs c bm Hgeom p j f i b Hs) as [pl [il [bl [Hsl [_ Hend]]]]].
      destruct (rp_size bm _ I pl j f il bl Hsl (g_bm bs c bm Hgeom pl j f il bl Hsl) Hd) as [Z1 Z2].
      destruct (g_wf bs c bm Hgeom pl j f il bl Hsl) as [Hl _].
      unfold fsz in Z1, Z2. destruct (fs_find (r_fs (out_st (check_run hashf padz truncf bs nlev false newino now o c par fs0 objs (seq 0 bm)))) j (cf_name f)) as [g|]; [|lia].
      exists g. split; [reflexivity | lia].
    Qed.

    (* "reported recovered": status:recovered:<disk>:<file> is in the log of the run exactly when, at the end, the file is flagged
       FIXED (the run rewrote a block of it or cut it back to its recorded size) and not DAMAGED *)
    Theorem fix_run_recovered_iff :
      let out := check_run hashf padz truncf bs nlev false newino now o c par fs0 objs (seq 0 bm) in
      forall p j f i b, slot_of c p j = SFile f i b ->
        (In (rec_tag j f) (r_tags (out_st out)) <->
         fl_fixed (get_fl (r_flags (out_st out)) (j, cf_name f)) = true /\ dam (out_st out) j f = false).
    Proof.
      cbn zeta. rewrite (check_run_unfold hashf padz truncf bs nlev false newino now o c par fs0 objs bm Hbm). cbv zeta. fold s0.
      pose proof (recP_loop bm (le_n bm)) as R1. pose proof (finvP_loop bm (le_n bm)) as J1.
      set (s1 := fold_left step (seq 0 bm) s0) in *.
      pose proof (recP_objs objs s1 (fun x H => H) R1) as R2.
      destruct (rinvP_objs objs s1 (fun x H => H) (rinvP_loop bm (le_n bm))) as [_ E2]. fold s1 in E2.
      set (s2 := fold_left (obj_step newino now o c) objs s1) in *.
      assert (Ec : cleanup o s2 = s2).
      { apply cleanup_noop. intros k f Hin. rewrite E2 in Hin. destruct J1 as [Hnd Hcr].
        pose proof (get_fl_in (r_flags s1) k f Hnd Hin) as Eg.
        destruct (fl_created f) eqn:Ecr; [|reflexivity]. cbn [andb].
        destruct (Hcr k ltac:(rewrite Eg; exact Ecr)) as [Hf|[p [j [f' [i [b [Hp [Hs _]]]]]]]].
        - rewrite Eg in Hf. rewrite Hf. reflexivity.
        - pose proof (g_bm bs c bm Hgeom p j f' i b Hs). lia. }
      rewrite Ec. cbn [out_st]. intros p j f i b Hs. rewrite (R2 p j f i b Hs). split.
      - intros [p' [i' [b' [_ [_ [_ X]]]]]]. exact X.
      - intros [X1 X2]. destruct (g_last bs c bm Hgeom p j f i b Hs) as [pl [il [bl [Hsl [Hll _]]]]].
        exists pl, il, bl. split; [exact Hsl|]. split; [apply (g_bm bs c bm Hgeom pl j f il bl Hsl)|]. split; [exact Hll | auto].
    Qed.

    (* a file flagged DAMAGED: status:unrecoverable in the log, renamed away, counted, failing exit status *)
    Theorem fix_run_damaged_reported :
      let out := check_run hashf padz truncf bs nlev false newino now o c par fs0 objs (seq 0 bm) in
      forall p j f i b, slot_of c p j = SFile f i b -> dam (out_st out) j f = true ->
        fs_find (r_fs (out_st out)) j (cf_name f) = None /\ In (K_ST_UNREC, [N.of_nat j; cf_name f]) (r_tags (out_st out))
        /\ r_unrec (out_st out) <> 0 /\ out_fail out = true.
    Proof.
      cbn zeta. intros p j f i b Hs Hd. destruct fix_run_rinvP as [I _]. cbn zeta in I.
      destruct fix_run_chg_pending as [_ [Hc _]]. cbn zeta in Hc.
      destruct (g_last bs c bm Hgeom p j f i b Hs) as [pl [il [bl [Hsl [Hll _]]]]].
      destruct (rp_gone bm _ I pl j f il bl Hsl (g_bm bs c bm Hgeom pl j f il bl Hsl) Hll Hd) as [X1 X2].
      destruct (Hc _ Hd) as [X3 X4]. auto.
    Qed.

    (* the converse: every status:unrecoverable line of the log is for a file of the content file flagged DAMAGED at the end *)
    Definition unrP (s : rstate) : Prop :=
      forall t, fst t = K_ST_UNREC -> In t (r_tags s) ->
        exists p j f i b, slot_of c p j = SFile f i b /\ t = unr_tag j f /\ dam s j f = true.

    Lemma unrP_loop : forall k, unrP (fold_left step (seq 0 k) s0).
    Proof.
      induction k as [|k IH]; [intros t _ []|].
      rewrite seq_S, fold_left_app. cbn [fold_left plus]. set (s := fold_left step (seq 0 k) s0) in *.
      destruct (block_enabled nlev o c k); [|exact IH].
      intros t Hk Ht. pose proof (stripe_step_dam_mono false o c k fs0 s) as Mono.
      destruct (fix_step_unrec_tag o c fs0 k s t Hplain Hfix Hk Ht) as [H|[j [f [idx [b [X1 [X2 X3]]]]]]].
      - destruct (IH t Hk H) as [p [j [f [i [b [Y1 [Y2 Y3]]]]]]]. exists p, j, f, i, b. split; [exact Y1|]. split; [exact Y2 | apply Mono; exact Y3].
      - exists k, j, f, idx, b. auto.
    Qed.

    Lemma unrP_objs : forall l s, unrP s -> unrP (fold_left (obj_step newino now o c) l s).
    Proof.
      induction l as [|ob t IH]; intros s R; [exact R|]. cbn [fold_left]. apply IH.
      destruct (obj_step_frame newino now o c Hfix s ob) as [_ [F2 _]].
      intros x Hk Hx. rewrite F2. apply (R x Hk). apply (obj_step_unr o c s ob x Hk Hx).
    Qed.

    Theorem fix_run_unrec_only :
      let out := check_run hashf padz truncf bs nlev false newino now o c par fs0 objs (seq 0 bm) in
      forall t, fst t = K_ST_UNREC -> In t (r_tags (out_st out)) ->
        exists p j f i b, slot_of c p j = SFile f i b /\ t = unr_tag j f /\ dam (out_st out) j f = true.
    Proof.
      cbn zeta. rewrite (check_run_unfold hashf padz truncf bs nlev false newino now o c par fs0 objs bm Hbm). cbv zeta. fold s0.
      pose proof (unrP_loop bm) as R1. pose proof (finvP_loop bm (le_n bm)) as J1.
      set (s1 := fold_left step (seq 0 bm) s0) in *.
      pose proof (unrP_objs objs s1 R1) as R2.
      destruct (rinvP_objs objs s1 (fun x H => H) (rinvP_loop bm (le_n bm))) as [_ E2]. fold s1 in E2.
      set (s2 := fold_left (obj_step newino now o c) objs s1) in *.
      assert (Ec : cleanup o s2 = s2).
      { apply cleanup_noop. intros k f Hin. rewrite E2 in Hin. destruct J1 as [Hnd Hcr].
        pose proof (get_fl_in (r_flags s1) k f Hnd Hin) as Eg.
        destruct (fl_created f) eqn:Ecr; [|reflexivity]. cbn [andb].
        destruct (Hcr k ltac:(rewrite Eg; exact Ecr)) as [Hf|[p [j [f' [i [b [Hp [Hs _]]]]]]]].
        - rewrite Eg in Hf. rewrite Hf. reflexivity.
        - pose proof (g_bm bs c bm Hgeom p j f' i b Hs). lia. }
      rewrite Ec. cbn [out_st]. exact R2.
    Qed.

    (* "reported unrecoverable": status:unrecoverable:<disk>:<file> is in the log of the run exactly when the file is flagged DAMAGED
       at the end *)
    Theorem fix_run_unrec_iff :
      let out := check_run hashf padz truncf bs nlev false newino now o c par fs0 objs (seq 0 bm) in
      forall p j f i b, slot_of c p j = SFile f i b ->
        (In (unr_tag j f) (r_tags (out_st out)) <-> dam (out_st out) j f = true).
    Proof.
      cbn zeta. intros p j f i b Hs. split.
      - intro H. destruct (fix_run_unrec_only (unr_tag j f) eq_refl H) as [p' [j' [f' [i' [b' [_ [X2 X3]]]]]]].
        unfold unr_tag in X2. injection X2 as E1 E2. apply Nat2N.inj in E1. subst j'. rewrite E2. exact X3.
      - intro Hd. apply (fix_run_damaged_reported p j f i b Hs Hd).
    Qed.

    (* a file that was intact in the damaged array -- not larger than recorded, every mapped block readable and, when it has a
       recorded hash, hashing to it -- is not touched (content, size, time-stamp, inode) and not flagged *)
    Theorem fix_run_intact_untouched :
      let out := check_run hashf padz truncf bs nlev false newino now o c par fs0 objs (seq 0 bm) in
      forall p j f i b, slot_of c p j = SFile f i b -> intactP bm j f ->
        fs_find (r_fs (out_st out)) j (cf_name f) = fs_find fs0 j (cf_name f) /\ dam (out_st out) j f = false.
    Proof.
      cbn zeta. destruct fix_run_rinvP as [I _]. cbn zeta in I. intros p j f i b Hs Hi.
      destruct (rp_intact bm _ I p j f i b Hs Hi) as [X1 [_ X3]]. auto.
    Qed.

    (* the blocks WITH a recorded hash (BLK, REP), any stripe: at the end of the run the file is flagged DAMAGED, or the block is a
       block x that hashes to the recorded hash -- read from the disk and left as it was, or rebuilt and written zero padded *)
    Theorem fix_run_blk_verified :
      let out := check_run hashf padz truncf bs nlev false newino now o c par fs0 objs (seq 0 bm) in
      forall p j f i b, slot_of c p j = SFile f i b -> fb_state b <> SChg ->
        dam (out_st out) j f = true
        \/ exists x, (fblk (r_fs (out_st out)) j (cf_name f) i = x \/ fblk (r_fs (out_st out)) j (cf_name f) i = wbv f i x)
                     /\ hash_ok hashf bs f i b x = true.
    Proof.
      cbn zeta. intros p j f i b Hs Hnc. destruct fix_run_chg_pending as [_ [_ H]]. cbn zeta in H.
      destruct (H p j f i b Hs) as [X|[[X Xh]|[x [X1 [_ X3]]]]]; [left; exact X | right | right].
      - exists (fblk fs0 j (cf_name f) i). split; [left; exact X | exact (Xh Hnc)].
      - exists x. split; [right; exact X1 | exact (X3 Hnc)].
    Qed.

    (* ... under PastHashInvAll: not the block that any parity level encoded at that position *)
    Theorem fix_run_chg_not_old :
      PastHashInvAll hashf padz bs c par ->
      let out := check_run hashf padz truncf bs nlev false newino now o c par fs0 objs (seq 0 bm) in
      forall p j f i b, slot_of c p j = SFile f i b -> fb_state b = SChg ->
        dam (out_st out) j f = true
        \/ fblk (r_fs (out_st out)) j (cf_name f) i = fblk fs0 j (cf_name f) i
        \/ exists x, fblk (r_fs (out_st out)) j (cf_name f) i = wbv f i x
                     /\ forall l v, nth p (nth l par []) PNone = PEnc v -> x <> vnth v j.
    Proof.
      intro PHI. cbn zeta. intros p j f i b Hs Hc. destruct fix_run_chg_pending as [_ [_ H]]. cbn zeta in H.
      destruct (H p j f i b Hs) as [X|[[X _]|[x [X1 [X2 _]]]]]; [left; exact X | right; left; exact X | right; right].
      exists x. split; [exact X1|]. intros l v Hl. apply (X2 Hc).
      apply (PHI p j f i b ltac:(rewrite Hbm; apply (g_bm bs c bm Hgeom p j f i b Hs)) Hs Hc l v Hl).
    Qed.

    (* exit status 0: no file is flagged, so every CHG block is the block that was on the disk or a rebuilt block that is not the
       stale old one *)
    Theorem fix_run_exit0_chg_not_old :
      PastHashInvAll hashf padz bs c par ->
      let out := check_run hashf padz truncf bs nlev false newino now o c par fs0 objs (seq 0 bm) in
      out_fail out = false ->
      forall p j f i b, slot_of c p j = SFile f i b -> fb_state b = SChg ->
        fblk (r_fs (out_st out)) j (cf_name f) i = fblk fs0 j (cf_name f) i
        \/ exists x, fblk (r_fs (out_st out)) j (cf_name f) i = wbv f i x
                     /\ forall l v, nth p (nth l par []) PNone = PEnc v -> x <> vnth v j.
    Proof.
      intro PHI. cbn zeta. intros Hok p j f i b Hs Hc. destruct fix_run_chg_pending as [_ [Hd _]]. cbn zeta in Hd.
      destruct (fix_run_chg_not_old PHI p j f i b Hs Hc) as [X|X]; [|exact X].
      destruct (Hd _ X) as [_ Y]. rewrite Hok in Y. discriminate Y.
    Qed.
  End RunP.

  (* ---- mixed arrays: the BLK blocks of the stripes that are entirely synced, in an array that also has pending stripes ------- *)
  Section RunM.
    Variable o : copts.
    Variable c : content.
    Variable bm : nat.
    Variable fs0 : list (option fsdisk).
    Variable par : parity.
    Variable vs : nat -> list bid.
    Hypothesis Hplain : plain nlev o.
    Hypothesis Hfix : co_fix o = true.
    Hypothesis Hgeom : geom bs c bm.
    Hypothesis Hlen : length fs0 = length (c_disks c).
    Hypothesis Hparlen : nlev <= length par.
    (* the recorded vectors, the padding and the collision freedom are asked of the SYNCED stripes only *)
    Hypothesis Henc : forall p, p < bm -> stripe_synced c p -> enc_ok hashf bs c p (vs p).
    Hypothesis Hpad : forall p j f i b, stripe_synced c p -> slot_of c p j = SFile f i b -> pad_ok padz bs (vnth (vs p) j) (block_len bs (cf_size f) i) = true.

    Let s0 : rstate := mkRS fs0 [] par 0 0 0 [] 0%N.
    Hypothesis CFdata : forall p j f i b y, stripe_synced c p -> slot_of c p j = SFile f i b -> read_block bs s0 j f i = Some y ->
                                          hash_ok hashf bs f i b y = true -> y = vnth (vs p) j.
    Let failed0 (p : nat) := flat_map (fent_of hashf bs c p s0) (seq 0 (length (c_disks c))).
    Let rec0 (p : nat) := map (prow par p) (seq 0 nlev).
    Hypothesis CFj : forall p, p < bm -> stripe_synced c p -> cf_junk hashf padz bs (failed0 p).
    Hypothesis CFr : forall p, p < bm -> stripe_synced c p -> cf_rec hashf padz bs (failed0 p) (rec0 p) (vs p).
    Hypothesis CFv : forall p, p < bm -> stripe_synced c p -> cf_vec hashf padz bs (failed0 p) (vs p).
    Hypothesis CFs : forall p, p < bm -> stripe_synced c p -> forall fsx, cf_search hashf bs (co_nosearch o) fsx (failed0 p) (vs p).

    Notation blkend f i := (N.of_nat i * bs + block_len bs (cf_size f) i)%N.
    Notation dam st j f := (fl_damaged (get_fl (r_flags st) (j, cf_name f))).
    Notation step := (fun s pos => if block_enabled nlev o c pos then stripe_step o c fs0 s pos else s).

    Record rinvM (k : nat) (s : rstate) : Prop := {
      rm_len : length (r_fs s) = length (c_disks c);
      rm_parlen : length (r_par s) = length par;
      rm_later : forall p j f i b, slot_of c p j = SFile f i b -> k <= p ->
          fblk (r_fs s) j (cf_name f) i = fblk fs0 j (cf_name f) i
          /\ ((blkend f i <= fsz (r_fs s) j (cf_name f))%N <-> (blkend f i <= fsz fs0 j (cf_name f))%N);
      rm_grown : forall p j f i b, slot_of c p j = SFile f i b -> (cf_size f < fsz (r_fs s) j (cf_name f))%N ->
                                   fl_opened (get_fl (r_flags s) (j, cf_name f)) = false;
      rm_parlater : forall p l, k <= p -> nth p (nth l (r_par s) []) PNone = nth p (nth l par []) PNone;
      (* a block of a synced stripe already visited, of a file not flagged DAMAGED: the recorded block *)
      rm_good : forall p j f i b, slot_of c p j = SFile f i b -> p < k -> stripe_synced c p -> dam s j f = false ->
          fblk (r_fs s) j (cf_name f) i = vnth (vs p) j
    }.

    Lemma rinvM_0 : rinvM 0 s0.
    Proof.
      constructor; cbn; auto.
      - intros p j f i b _ _. split; [reflexivity | tauto].
      - intros; lia.
    Qed.

    Lemma rinvM_read k s p j f i b : rinvM k s -> k <= p -> slot_of c p j = SFile f i b -> read_block bs s j f i = read_block bs s0 j f i.
    Proof.
      intros I Hk Hs. destruct (g_wf bs c bm Hgeom p j f i b Hs) as [Hl _].
      rewrite !read_block_fsz by exact Hl.
      destruct (rm_later k s I p j f i b Hs Hk) as [Hb Hz]. change (r_fs s0) with fs0.
      rewrite Hb.
      destruct (fsz (r_fs s) j (cf_name f) <? N.of_nat i * bs + block_len bs (cf_size f) i)%N eqn:E1,
               (fsz fs0 j (cf_name f) <? N.of_nat i * bs + block_len bs (cf_size f) i)%N eqn:E2; try reflexivity.
      - apply N.ltb_lt in E1. apply N.ltb_ge in E2. apply Hz in E2. lia.
      - apply N.ltb_ge in E1. apply N.ltb_lt in E2. apply Hz in E1. lia.
    Qed.

    Lemma rinvM_step k s : rinvM k s -> k < bm -> rinvM (S k) (step s k).
    Proof.
      intros I Hk. cbv beta.
      destruct (block_enabled nlev o c k) eqn:Een.
      2: { pose proof (block_disabled_no_file o c k Hplain Een) as Hno. constructor.
           - apply (rm_len k s I).
           - apply (rm_parlen k s I).
           - intros p j f i b Hs Hp. apply (rm_later k s I p j f i b Hs). lia.
           - apply (rm_grown k s I).
           - intros p l Hp. apply (rm_parlater k s I). lia.
           - intros p j f i b Hs Hp. destruct (Nat.eq_dec p k) as [E|E]; [subst p; exfalso; apply (Hno j f i b Hs)|].
             apply (rm_good k s I p j f i b Hs). lia. }
      destruct (fix_step_pending_full o c fs0 k s Hplain Hfix (rm_len k s I)) as [F1 [F2 [F3 [_ [[F5a F5b] [F6 [F7 _]]]]]]].
      pose proof (stripe_step_dam_mono false o c k fs0 s) as Kd.
      set (s' := stripe_step o c fs0 s k) in *.
      (* the slot (p, j, f, i, b) against the file of disk j in stripe k *)
      assert (Hcase : forall p j f i b, slot_of c p j = SFile f i b ->
                (exists ik bk, slot_of c k j = SFile f ik bk /\ (p < k -> i < ik) /\ (k < p -> ik < i) /\ (p = k -> i = ik /\ b = bk))
                \/ (p <> k /\ fs_find (r_fs s') j (cf_name f) = fs_find (r_fs s) j (cf_name f)
                    /\ fl_opened (get_fl (r_flags s') (j, cf_name f)) = fl_opened (get_fl (r_flags s) (j, cf_name f)))).
      { intros p j f i b Hs. destruct (slot_of c k j) as [|fk ik bk|h] eqn:Ek.
        - right. split; [intro X; subst p; rewrite Ek in Hs; discriminate Hs|].
          assert (Hno : forall f' i' b', slot_of c k j = SFile f' i' b' -> cf_name f' <> cf_name f) by (intros f' i' b' X; rewrite Ek in X; discriminate X).
          split; [apply (F2 j (cf_name f) Hno) | apply (F6 j (cf_name f) Hno)].
        - destruct (N.eq_dec (cf_name fk) (cf_name f)) as [En|En].
          + left. destruct (g_same bs c bm Hgeom k p j fk ik bk f i b Ek Hs En) as [Ef H1]. subst fk.
            destruct (g_same bs c bm Hgeom p k j f i b f ik bk Hs Ek eq_refl) as [_ H2].
            exists ik, bk. split; [reflexivity|]. split; [exact H2|]. split; [exact H1|]. intro X. subst p. rewrite Ek in Hs. injection Hs as Hi Hb. auto.
          + right. split; [intro X; subst p; rewrite Ek in Hs; injection Hs as X1 X2 X3; subst fk; apply En; reflexivity|].
            assert (Hno : forall f' i' b', slot_of c k j = SFile f' i' b' -> cf_name f' <> cf_name f) by (intros f' i' b' X; rewrite Ek in X; injection X as X1 X2 X3; subst f'; exact En).
            split; [apply (F2 j (cf_name f) Hno) | apply (F6 j (cf_name f) Hno)].
        - right. split; [intro X; subst p; rewrite Ek in Hs; discriminate Hs|].
          assert (Hno : forall f' i' b', slot_of c k j = SFile f' i' b' -> cf_name f' <> cf_name f) by (intros f' i' b' X; rewrite Ek in X; discriminate X).
          split; [apply (F2 j (cf_name f) Hno) | apply (F6 j (cf_name f) Hno)]. }
      constructor.
      - rewrite F1. apply (rm_len k s I).
      - rewrite F5a. apply (rm_parlen k s I).
      - (* later blocks *)
        intros p j f i b Hs Hp. destruct (rm_later k s I p j f i b Hs ltac:(lia)) as [R1 R2].
        destruct (g_wf bs c bm Hgeom p j f i b Hs) as [Hl Hw]. pose proof (idx_lt_nblocks bs (cf_size f) i Hl Hw) as Hin.
        destruct (Hcase p j f i b Hs) as [[ik [bk [Ek [_ [Hgt _]]]]]|[_ [Efs _]]].
        + specialize (Hgt ltac:(lia)). pose proof (g_idx bs c bm Hgeom p j f i b Hs) as Hil.
          destruct (F3 j f ik bk Ek) as [[_ [_ Kl]]|[S1 _]]; [lia|].
          destruct (F7 j f ik bk Ek) as [[_ Kl]|[Z1 Z2]]; [lia|].
          destruct (g_wf bs c bm Hgeom k j f ik bk Ek) as [Hlk Hwk]. pose proof (block_len_le bs (cf_size f) ik) as Hbl.
          rewrite S1 by (try exact Hin; lia). split; [exact R1|]. rewrite <- R2.
          assert (Hoff : (N.of_nat ik * bs + block_len bs (cf_size f) ik <= N.of_nat i * bs)%N) by nia.
          destruct (opened_size_cases s j f) as [[Y _]|[Y1 Y2]]; split; intro X; lia.
        + unfold fsz, fblk. rewrite Efs. fold (fsz (r_fs s) j (cf_name f)). fold (fblk (r_fs s) j (cf_name f) i). split; [exact R1 | exact R2].
      - (* larger than recorded: never opened *)
        intros p j f i b Hs Hgr.
        destruct (Hcase p j f i b Hs) as [[ik [bk [Ek _]]]|[_ [Efs Eop]]].
        + exfalso. destruct (g_wf bs c bm Hgeom k j f ik bk Ek) as [_ Hwk].
          destruct (F7 j f ik bk Ek) as [[X _]|[Z1 Z2]]; [unfold fsz in Hgr; rewrite X in Hgr; lia|].
          destruct (opened_size_cases s j f) as [[Y Yo]|[Y1 Y2]]; [|lia].
          assert (Hg : (cf_size f < fsz (r_fs s) j (cf_name f))%N) by lia.
          rewrite (rm_grown k s I k j f ik bk Ek Hg) in Yo. specialize (Yo Hg). discriminate Yo.
        + rewrite Eop. apply (rm_grown k s I p j f i b Hs). unfold fsz in *. rewrite <- Efs. exact Hgr.
      - intros p l Hp. rewrite (F5b l p ltac:(lia)). apply (rm_parlater k s I). lia.
      - (* the blocks of the synced stripes *)
        intros p j f i b Hs Hp Hsy Hd.
        assert (Hd0 : dam s j f = false) by (destruct (dam s j f) eqn:Y; [rewrite (Kd _ Y) in Hd; discriminate Hd | reflexivity]).
        destruct (g_wf bs c bm Hgeom p j f i b Hs) as [Hl Hw]. pose proof (idx_lt_nblocks bs (cf_size f) i Hl Hw) as Hin.
        destruct (Hcase p j f i b Hs) as [[ik [bk [Ek [Hlt [_ Heq]]]]]|[Hpk [Efs _]]].
        + destruct (Nat.eq_dec p k) as [Epk|Epk].
          * (* the stripe just processed is synced: SoundProofs.v fix_step_sound *)
            destruct (Heq Epk) as [X1 X2]. subst ik bk. subst p.
            assert (Ebad : forall j0, is_bad hashf bs c k s j0 = is_bad hashf bs c k s0 j0).
            { intro j0. unfold is_bad. destruct (slot_of c k j0) as [|f0 i0 b0|h] eqn:Es0; try reflexivity.
              rewrite (rinvM_read k s k j0 f0 i0 b0 I (le_n k) Es0). reflexivity. }
            assert (Efailed : flat_map (fent_of hashf bs c k s) (seq 0 (length (c_disks c))) = failed0 k).
            { unfold failed0. apply flat_map_ext_in2. intros j0 _. unfold fent_of. rewrite Ebad. reflexivity. }
            assert (Erec : map (prow (r_par s) k) (seq 0 nlev) = rec0 k).
            { unfold rec0. apply map_ext. intro l. unfold prow. apply (rm_parlater k s I k l). lia. }
            assert (HfileG : forall j0 f0 i0 b0, slot_of c k j0 = SFile f0 i0 b0 ->
                      (0 < block_len bs (cf_size f0) i0)%N /\ (blkend f0 i0 <= cf_size f0)%N
                      /\ (forall g, fs_find (r_fs s) j0 (cf_name f0) = Some g -> (cf_size f0 < ff_size g)%N ->
                                    fl_opened (get_fl (r_flags s) (j0, cf_name f0)) = false)).
            { intros j0 f0 i0 b0 Hs0. destruct (g_wf bs c bm Hgeom k j0 f0 i0 b0 Hs0) as [Hl0 Hw0]. split; [exact Hl0|]. split; [exact Hw0|].
              intros g Hg Hgr. apply (rm_grown k s I k j0 f0 i0 b0 Hs0). rewrite (fsz_some _ _ _ _ Hg). exact Hgr. }
            assert (CFd : forall j0 f0 i0 b0 y, slot_of c k j0 = SFile f0 i0 b0 -> read_block bs s j0 f0 i0 = Some y -> hash_ok hashf bs f0 i0 b0 y = true -> y = vnth (vs k) j0).
            { intros j0 f0 i0 b0 y Hs0 Hr. rewrite (rinvM_read k s k j0 f0 i0 b0 I (le_n k) Hs0) in Hr. apply (CFdata k j0 f0 i0 b0 y Hsy Hs0 Hr). }
            destruct (fix_step_sound hashf padz truncf bs nlev false newino now o c fs0 k s (vs k) Hplain Hfix Hsy (rm_len k s I)
                        HfileG (Henc k Hk Hsy) (fun j0 f0 i0 b0 Hs0 => Hpad k j0 f0 i0 b0 Hsy Hs0) CFd)
              as [_ [_ [_ [_ [_ [K6 _]]]]]].
            -- rewrite Efailed. apply (CFj k Hk Hsy).
            -- rewrite Efailed, Erec. apply (CFr k Hk Hsy).
            -- rewrite Efailed. apply (CFv k Hk Hsy).
            -- intro fsx. rewrite Efailed. apply (CFs k Hk Hsy).
            -- rewrite (rm_parlen k s I). exact Hparlen.
            -- destruct (K6 j f i b Ek) as [Ka _]. destruct (Ka Hd) as [g [Hg [Hn _]]]. rewrite (fblk_some _ _ _ _ _ Hg). exact Hn.
          * assert (Hpk : p < k) by lia.
            destruct (F3 j f ik bk Ek) as [[_ [Kd' _]]|[S1 _]]; [rewrite Kd' in Hd; discriminate Hd|].
            rewrite S1 by (try exact Hin; specialize (Hlt Hpk); lia). apply (rm_good k s I p j f i b Hs Hpk Hsy Hd0).
        + unfold fblk. rewrite Efs. fold (fblk (r_fs s) j (cf_name f) i). apply (rm_good k s I p j f i b Hs ltac:(lia) Hsy Hd0).
    Qed.

    Lemma rinvM_loop : forall k, k <= bm -> rinvM k (fold_left step (seq 0 k) s0).
    Proof.
      induction k as [|k IH]; intro Hk; [apply rinvM_0|].
      rewrite seq_S, fold_left_app. cbn [fold_left plus]. apply (rinvM_step k _ (IH ltac:(lia)) ltac:(lia)).
    Qed.

    Variable objs : list obj.
    Hypothesis Hobj_names : forall ob p f i b, In ob objs -> slot_of c p (ob_disk ob) = SFile f i b -> cf_name f <> ob_name ob.
    Hypothesis Hbm : c_blockmax c = bm.

    (* mixed arrays: a block of an entirely synced stripe, of a file not flagged DAMAGED, is the recorded block at the end of the
       run -- whatever the other stripes hold (CHG, REP, DELETED entries) and whatever the damage *)
    Theorem fix_run_synced_stripes :
      let out := check_run hashf padz truncf bs nlev false newino now o c par fs0 objs (seq 0 bm) in
      forall p j f i b, slot_of c p j = SFile f i b -> stripe_synced c p ->
        dam (out_st out) j f = true \/ fblk (r_fs (out_st out)) j (cf_name f) i = vnth (vs p) j.
    Proof.
      cbn zeta. rewrite (check_run_unfold hashf padz truncf bs nlev false newino now o c par fs0 objs bm Hbm). cbv zeta. fold s0.
      pose proof (rinvM_loop bm (le_n bm)) as I1.
      pose proof (finvP_loop o c bm fs0 par Hplain Hfix Hgeom Hlen Hparlen bm (le_n bm)) as J1. fold s0 in J1.
      set (s1 := fold_left step (seq 0 bm) s0) in *.
      assert (Hobjs : forall l st, incl l objs ->
                 r_flags (fold_left (obj_step newino now o c) l st) = r_flags st
                 /\ forall p j f i b, slot_of c p j = SFile f i b ->
                      fs_find (r_fs (fold_left (obj_step newino now o c) l st)) j (cf_name f) = fs_find (r_fs st) j (cf_name f)).
      { induction l as [|ob t IH]; intros st Hin; [split; [reflexivity | intros; reflexivity]|]. cbn [fold_left].
        assert (Hob : In ob objs) by (apply Hin; left; reflexivity).
        destruct (obj_step_frame newino now o c Hfix st ob) as [_ [F2 [_ [F4 _]]]].
        destruct (IH (obj_step newino now o c st ob) (fun x Hx => Hin x (or_intror Hx))) as [A B]. split; [congruence|].
        intros p j f i b Hs. rewrite (B p j f i b Hs). apply F4. intro X. injection X as X1 X2. subst j. apply (Hobj_names ob p f i b Hob Hs). exact X2. }
      destruct (Hobjs objs s1 (fun x H => H)) as [E2 Efs].
      set (s2 := fold_left (obj_step newino now o c) objs s1) in *.
      assert (Ec : cleanup o s2 = s2).
      { apply cleanup_noop. intros k f Hin. rewrite E2 in Hin. destruct J1 as [Hnd Hcr].
        pose proof (get_fl_in (r_flags s1) k f Hnd Hin) as Eg.
        destruct (fl_created f) eqn:Ecr; [|reflexivity]. cbn [andb].
        destruct (Hcr k ltac:(rewrite Eg; exact Ecr)) as [Hf|[p [j [f' [i [b [Hp [Hs _]]]]]]]].
        - rewrite Eg in Hf. rewrite Hf. reflexivity.
        - pose proof (g_bm bs c bm Hgeom p j f' i b Hs). lia. }
      rewrite Ec. cbn [out_st].
      intros p j f i b Hs Hsy. rewrite E2. unfold fblk. rewrite (Efs p j f i b Hs). fold (fblk (r_fs s1) j (cf_name f) i).
      destruct (dam s1 j f) eqn:Hd; [left; reflexivity | right].
      apply (rm_good bm s1 I1 p j f i b Hs (g_bm bs c bm Hgeom p j f i b Hs) Hsy Hd).
    Qed.
  End RunM.
End Pending.

(* ---------------------------------------------------------------------------------------------------------- *)
(* the statements                                                                                               *)
(* ---------------------------------------------------------------------------------------------------------- *)
(* the recorded vectors of the SYNCED stripes of an array that may also have pending stripes, and collision freedom on them *)
Record synced_part (hashf : bid -> N -> hval) (padz : bid -> N -> bool) (bs : N) (c : content) (bm : nat) (vs : nat -> list bid) : Prop := {
  sp_enc : forall p, p < bm -> stripe_synced c p -> enc_ok hashf bs c p (vs p);
  sp_pad : forall p j f i b, stripe_synced c p -> slot_of c p j = SFile f i b -> pad_ok padz bs (vnth (vs p) j) (block_len bs (cf_size f) i) = true
}.
Record collision_free_synced (hashf : bid -> N -> hval) (padz : bid -> N -> bool) (bs : N) (nlev : nat) (nosearch : bool)
       (c : content) (bm : nat) (fs : list (option fsdisk)) (par : parity) (vs : nat -> list bid) : Prop := {
  cfs_data : forall p j f i b y, stripe_synced c p -> slot_of c p j = SFile f i b -> read_block bs (st0 fs par) j f i = Some y ->
                                 hash_ok hashf bs f i b y = true -> y = vnth (vs p) j;
  cfs_junk : forall p, p < bm -> stripe_synced c p -> cf_junk hashf padz bs (flat_map (fent_of hashf bs c p (st0 fs par)) (seq 0 (length (c_disks c))));
  cfs_rec : forall p, p < bm -> stripe_synced c p -> cf_rec hashf padz bs (flat_map (fent_of hashf bs c p (st0 fs par)) (seq 0 (length (c_disks c))))
                                       (map (prow par p) (seq 0 nlev)) (vs p);
  cfs_vec : forall p, p < bm -> stripe_synced c p -> cf_vec hashf padz bs (flat_map (fent_of hashf bs c p (st0 fs par)) (seq 0 (length (c_disks c)))) (vs p);
  cfs_search : forall p, p < bm -> stripe_synced c p -> forall fsx,
      cf_search hashf bs nosearch fsx (flat_map (fent_of hashf bs c p (st0 fs par)) (seq 0 (length (c_disks c)))) (vs p)
}.

(* the file f of disk j is intact in the damaged array (fs, par) of an array with pending changes *)
Definition intact_pending (hashf : bid -> N -> hval) (bs : N) (c : content) (fs : list (option fsdisk)) (par : parity) (j : nat) (f : cfile) : Prop :=
  (fsz fs j (cf_name f) <= cf_size f)%N
  /\ forall p i b, slot_of c p j = SFile f i b ->
       exists y, read_block bs (st0 fs par) j f i = Some y /\ (fb_state b <> SChg -> hash_ok hashf bs f i b y = true).

(* the recorded block rb p j of every block WITH a recorded hash (BLK: the hash sync took of the block it protected; REP: the hash
   inherited from the file the block was copied from), and collision freedom of the hash AT the recorded hashes: a block that hashes
   (over the length of the block) to the recorded hash of the slot IS the recorded block.  (RunProofs.v asks the same of the damaged
   blocks of a synced array through cf_search, which quantifies over every file system; here an undamaged block is also concluded to
   be the recorded block, so it is asked of every BLK / REP slot.)  The recorded blocks are zero padded. *)
Record collision_free_blk (hashf : bid -> N -> hval) (padz : bid -> N -> bool) (bs : N) (c : content) (bm : nat) (rb : nat -> nat -> bid) : Prop := {
  cb_rec : forall p j f i b, p < bm -> slot_of c p j = SFile f i b -> fb_state b <> SChg -> hash_ok hashf bs f i b (rb p j) = true;
  cb_inj : forall p j f i b x, p < bm -> slot_of c p j = SFile f i b -> fb_state b <> SChg -> hash_ok hashf bs f i b x = true -> x = rb p j;
  cb_pad : forall p j f i b, p < bm -> slot_of c p j = SFile f i b -> fb_state b <> SChg -> pad_ok padz bs (rb p j) (block_len bs (cf_size f) i) = true
}.

Section StatementsP.
  Variable hashf : bid -> N -> hval.
  Variable padz : bid -> N -> bool.
  Variable truncf : bid -> N -> bid.
  Variable bs : N.
  Variable nlev : nat.
  Variable newino : nat -> N -> N.
  Variable now : Z.
  Notation check_run := (check_run hashf padz truncf bs nlev false newino now).

  (* the literal lifting of repair_never_accepts_old: EVERY call of repair made by the run (any options, any block map, any
     damage, any position), when it answers ROk, never accepts the old block for a bad CHG entry *)
  Theorem run_repair_calls_never_accept_old o c par fs k :
    let s := fold_left (fun s pos => if block_enabled nlev o c pos then stripe_step hashf padz truncf bs nlev false newino now o c fs s pos else s)
                       (seq 0 k) (mkRS fs [] par 0 0 0 [] 0%N) in
    let a := data_phase hashf bs newino now o c k s in
    let rec := fst (parity_phase nlev o k (da_st a)) in
    let s1a := snd (parity_phase nlev o k (da_st a)) in
    forall failed' buf jn' rtags,
      repair hashf padz bs nlev false k (co_nosearch o) (search_view fs (r_fs s1a)) (da_failed a) rec (da_buf a) (r_jn s1a) = (ROk, failed', buf, jn', rtags) ->
      forall e', In e' failed' -> fe_bad e' = true -> fe_is SChg e' = true -> fe_ood e' = false ->
      forall ob, past_hash_inv hashf padz bs e' ob -> vnth buf (fe_idx e') <> ob.
  Proof. cbn zeta. intros failed' buf jn' rtags H. exact (repair_never_accepts_old hashf padz bs nlev k _ _ _ _ _ _ _ _ _ _ H). Qed.

  Theorem run_fix_chg_pending o c bm fs par objs :
    plain nlev o -> co_fix o = true -> geom bs c bm -> c_blockmax c = bm ->
    length fs = length (c_disks c) -> nlev <= length par -> objs_ok c objs ->
    let out := check_run o c par fs objs (seq 0 bm) in
    (out_fail out = true <-> r_unrec (out_st out) <> 0)
    /\ (forall key, fl_damaged (get_fl (r_flags (out_st out)) key) = true -> r_unrec (out_st out) <> 0 /\ out_fail out = true)
    /\ forall p j f i b, slot_of c p j = SFile f i b ->
         fl_damaged (get_fl (r_flags (out_st out)) (j, cf_name f)) = true
         \/ (fblk (r_fs (out_st out)) j (cf_name f) i = fblk fs j (cf_name f) i
             /\ (fb_state b <> SChg -> hash_ok hashf bs f i b (fblk fs j (cf_name f) i) = true))
         \/ exists x, fblk (r_fs (out_st out)) j (cf_name f) i = wbv padz truncf bs f i x /\ (fb_state b = SChg -> NotOld hashf padz bs j f i b x)
                      /\ (fb_state b <> SChg -> hash_ok hashf bs f i b x = true).
  Proof.
    intros Hp Hf Hg Hbm Hl Hpl [O1 _].
    exact (fix_run_chg_pending hashf padz truncf bs nlev newino now o c bm fs par Hp Hf Hg Hl Hpl objs O1 Hbm).
  Qed.

  Theorem run_fix_chg_not_old_partial o c bm fs par objs :
    plain nlev o -> co_fix o = true -> geom bs c bm -> c_blockmax c = bm ->
    length fs = length (c_disks c) -> nlev <= length par -> objs_ok c objs ->
    PastHashInvAll hashf padz bs c par ->
    let out := check_run o c par fs objs (seq 0 bm) in
    forall p j f i b, slot_of c p j = SFile f i b -> fb_state b = SChg ->
      fl_damaged (get_fl (r_flags (out_st out)) (j, cf_name f)) = true
      \/ fblk (r_fs (out_st out)) j (cf_name f) i = fblk fs j (cf_name f) i
      \/ exists x, fblk (r_fs (out_st out)) j (cf_name f) i = wbv padz truncf bs f i x
                   /\ forall l v, nth p (nth l par []) PNone = PEnc v -> x <> vnth v j.
  Proof.
    intros Hp Hf Hg Hbm Hl Hpl [O1 _] PHI.
    exact (fix_run_chg_not_old hashf padz truncf bs nlev newino now o c bm fs par Hp Hf Hg Hl Hpl objs O1 Hbm PHI).
  Qed.

  Theorem run_fix_exit0_chg_not_old_partial o c bm fs par objs :
    plain nlev o -> co_fix o = true -> geom bs c bm -> c_blockmax c = bm ->
    length fs = length (c_disks c) -> nlev <= length par -> objs_ok c objs ->
    PastHashInvAll hashf padz bs c par ->
    let out := check_run o c par fs objs (seq 0 bm) in
    out_fail out = false ->
    forall p j f i b, slot_of c p j = SFile f i b -> fb_state b = SChg ->
      fblk (r_fs (out_st out)) j (cf_name f) i = fblk fs j (cf_name f) i
      \/ exists x, fblk (r_fs (out_st out)) j (cf_name f) i = wbv padz truncf bs f i x
                   /\ forall l v, nth p (nth l par []) PNone = PEnc v -> x <> vnth v j.
  Proof.
    intros Hp Hf Hg Hbm Hl Hpl [O1 _] PHI.
    exact (fix_run_exit0_chg_not_old hashf padz truncf bs nlev newino now o c bm fs par Hp Hf Hg Hl Hpl objs O1 Hbm PHI).
  Qed.

  Theorem run_fix_intact_untouched o c bm fs par objs :
    plain nlev o -> co_fix o = true -> geom bs c bm -> c_blockmax c = bm ->
    length fs = length (c_disks c) -> nlev <= length par -> objs_ok c objs ->
    let out := check_run o c par fs objs (seq 0 bm) in
    forall p j f i b, slot_of c p j = SFile f i b -> intact_pending hashf bs c fs par j f ->
      fs_find (r_fs (out_st out)) j (cf_name f) = fs_find fs j (cf_name f)
      /\ fl_damaged (get_fl (r_flags (out_st out)) (j, cf_name f)) = false.
  Proof.
    intros Hp Hf Hg Hbm Hl Hpl [O1 _]. cbn zeta. intros p j f i b Hs [Hi1 Hi2].
    apply (fix_run_intact_untouched hashf padz truncf bs nlev newino now o c bm fs par Hp Hf Hg Hl Hpl objs O1 Hbm p j f i b Hs).
    split; [exact Hi1|]. intros p' i' b' _ Hs'. apply (Hi2 p' i' b' Hs').
  Qed.

  Theorem run_fix_blk_verified o c bm fs par objs :
    plain nlev o -> co_fix o = true -> geom bs c bm -> c_blockmax c = bm ->
    length fs = length (c_disks c) -> nlev <= length par -> objs_ok c objs ->
    let out := check_run o c par fs objs (seq 0 bm) in
    forall p j f i b, slot_of c p j = SFile f i b -> fb_state b <> SChg ->
      fl_damaged (get_fl (r_flags (out_st out)) (j, cf_name f)) = true
      \/ exists x, (fblk (r_fs (out_st out)) j (cf_name f) i = x \/ fblk (r_fs (out_st out)) j (cf_name f) i = wbv padz truncf bs f i x)
                   /\ hash_ok hashf bs f i b x = true.
  Proof.
    intros Hp Hf Hg Hbm Hl Hpl [O1 _].
    exact (fix_run_blk_verified hashf padz truncf bs nlev newino now o c bm fs par Hp Hf Hg Hl Hpl objs O1 Hbm).
  Qed.

  Theorem run_fix_damaged_reported o c bm fs par objs :
    plain nlev o -> co_fix o = true -> geom bs c bm -> c_blockmax c = bm ->
    length fs = length (c_disks c) -> nlev <= length par -> objs_ok c objs ->
    let out := check_run o c par fs objs (seq 0 bm) in
    forall p j f i b, slot_of c p j = SFile f i b -> fl_damaged (get_fl (r_flags (out_st out)) (j, cf_name f)) = true ->
      fs_find (r_fs (out_st out)) j (cf_name f) = None /\ In (K_ST_UNREC, [N.of_nat j; cf_name f]) (r_tags (out_st out))
      /\ r_unrec (out_st out) <> 0 /\ out_fail out = true.
  Proof.
    intros Hp Hf Hg Hbm Hl Hpl [O1 _].
    exact (fix_run_damaged_reported hashf padz truncf bs nlev newino now o c bm fs par Hp Hf Hg Hl Hpl objs O1 Hbm).
  Qed.

  (* "reported unrecoverable": the line is in the log exactly for the files flagged DAMAGED at the end, and for no other name *)
  Theorem run_fix_unrec_iff o c bm fs par objs :
    plain nlev o -> co_fix o = true -> geom bs c bm -> c_blockmax c = bm ->
    length fs = length (c_disks c) -> nlev <= length par -> objs_ok c objs ->
    let out := check_run o c par fs objs (seq 0 bm) in
    forall p j f i b, slot_of c p j = SFile f i b ->
      (In (K_ST_UNREC, [N.of_nat j; cf_name f]) (r_tags (out_st out)) <-> fl_damaged (get_fl (r_flags (out_st out)) (j, cf_name f)) = true).
  Proof.
    intros Hp Hf Hg Hbm Hl Hpl [O1 _].
    exact (fix_run_unrec_iff hashf padz truncf bs nlev newino now o c bm fs par Hp Hf Hg Hl Hpl objs O1 Hbm).
  Qed.
  Theorem run_fix_unrec_only o c bm fs par objs :
    plain nlev o -> co_fix o = true -> geom bs c bm -> c_blockmax c = bm ->
    length fs = length (c_disks c) -> nlev <= length par -> objs_ok c objs ->
    let out := check_run o c par fs objs (seq 0 bm) in
    forall t, fst t = K_ST_UNREC -> In t (r_tags (out_st out)) ->
      exists p j f i b, slot_of c p j = SFile f i b /\ t = (K_ST_UNREC, [N.of_nat j; cf_name f])
                        /\ fl_damaged (get_fl (r_flags (out_st out)) (j, cf_name f)) = true.
  Proof.
    intros Hp Hf Hg Hbm Hl Hpl [O1 _].
    exact (fix_run_unrec_only hashf padz truncf bs nlev newino now o c bm fs par Hp Hf Hg Hl Hpl objs O1 Hbm).
  Qed.

  (* every block with a recorded hash, in ANY stripe: in a file flagged DAMAGED, or exactly the recorded block *)
  Theorem run_fix_blk_exact o c bm fs par objs rb :
    plain nlev o -> co_fix o = true -> geom bs c bm -> c_blockmax c = bm ->
    length fs = length (c_disks c) -> nlev <= length par -> objs_ok c objs ->
    collision_free_blk hashf padz bs c bm rb ->
    let out := check_run o c par fs objs (seq 0 bm) in
    forall p j f i b, slot_of c p j = SFile f i b -> fb_state b <> SChg ->
      fl_damaged (get_fl (r_flags (out_st out)) (j, cf_name f)) = true
      \/ fblk (r_fs (out_st out)) j (cf_name f) i = rb p j.
  Proof.
    intros Hp Hf Hg Hbm Hl Hpl Ho [C1 C2 C3]. cbn zeta. intros p j f i b Hs Hnc.
    assert (Hpb : p < bm) by (apply (g_bm bs c bm Hg p j f i b Hs)).
    destruct (run_fix_blk_verified o c bm fs par objs Hp Hf Hg Hbm Hl Hpl Ho p j f i b Hs Hnc) as [X|[x [Hx Hh]]]; [left; exact X | right].
    pose proof (C2 p j f i b x Hpb Hs Hnc Hh) as Ex. subst x.
    destruct Hx as [Hx|Hx]; [exact Hx|]. rewrite Hx. unfold wbv. rewrite (C3 p j f i b Hpb Hs Hnc). reflexivity.
  Qed.

  (* the recorded SIZE: a file not flagged DAMAGED is present at the end of the run, under its name, with exactly its recorded size
     (whatever its size in the damaged array: larger files are cut back when first opened, shorter or missing ones grow by the
     writes of the rebuilt blocks; the last block of a file not flagged was read or written) *)
  Theorem run_fix_size_exact o c bm fs par objs :
    plain nlev o -> co_fix o = true -> geom bs c bm -> c_blockmax c = bm ->
    length fs = length (c_disks c) -> nlev <= length par -> objs_ok c objs ->
    let out := check_run o c par fs objs (seq 0 bm) in
    forall p j f i b, slot_of c p j = SFile f i b ->
      fl_damaged (get_fl (r_flags (out_st out)) (j, cf_name f)) = false ->
      exists g, fs_find (r_fs (out_st out)) j (cf_name f) = Some g /\ ff_size g = cf_size f.
  Proof.
    intros Hp Hf Hg Hbm Hl Hpl [O1 _].
    exact (fix_run_size_exact hashf padz truncf bs nlev newino now o c bm fs par Hp Hf Hg Hl Hpl objs O1 Hbm).
  Qed.

  (* C05 on the model, full hash size, arrays with pending changes: every file recorded in the content file is, at the end of fix,
     either reported unrecoverable (flag, status line, renamed away, counted, failing exit status) or left under its name with:
     at every block with a recorded hash exactly the recorded block, at every CHG block the block of the disk or a rebuilt block
     that is not the stale old block the parity encoded *)
  Theorem run_fix_never_wrong o c bm fs par objs rb :
    plain nlev o -> co_fix o = true -> geom bs c bm -> c_blockmax c = bm ->
    length fs = length (c_disks c) -> nlev <= length par -> objs_ok c objs ->
    PastHashInvAll hashf padz bs c par -> collision_free_blk hashf padz bs c bm rb ->
    let out := check_run o c par fs objs (seq 0 bm) in
    (out_fail out = true <-> r_unrec (out_st out) <> 0)
    /\ forall p j f i b, slot_of c p j = SFile f i b ->
         (fl_damaged (get_fl (r_flags (out_st out)) (j, cf_name f)) = true
          /\ fs_find (r_fs (out_st out)) j (cf_name f) = None /\ In (K_ST_UNREC, [N.of_nat j; cf_name f]) (r_tags (out_st out))
          /\ r_unrec (out_st out) <> 0 /\ out_fail out = true)
         \/ (fl_damaged (get_fl (r_flags (out_st out)) (j, cf_name f)) = false
             /\ (exists g, fs_find (r_fs (out_st out)) j (cf_name f) = Some g /\ ff_size g = cf_size f)
             /\ (fb_state b <> SChg -> fblk (r_fs (out_st out)) j (cf_name f) i = rb p j)
             /\ (fb_state b = SChg ->
                   fblk (r_fs (out_st out)) j (cf_name f) i = fblk fs j (cf_name f) i
                   \/ exists x, fblk (r_fs (out_st out)) j (cf_name f) i = wbv padz truncf bs f i x
                                /\ forall l v, nth p (nth l par []) PNone = PEnc v -> x <> vnth v j)).
  Proof.
    intros Hp Hf Hg Hbm Hl Hpl Ho PHI CB. cbn zeta.
    destruct (run_fix_chg_pending o c bm fs par objs Hp Hf Hg Hbm Hl Hpl Ho) as [A _]. split; [exact A|].
    intros p j f i b Hs.
    destruct (fl_damaged (get_fl (r_flags (out_st (check_run o c par fs objs (seq 0 bm)))) (j, cf_name f))) eqn:Hd.
    - left. split; [reflexivity|]. apply (run_fix_damaged_reported o c bm fs par objs Hp Hf Hg Hbm Hl Hpl Ho p j f i b Hs Hd).
    - right. split; [reflexivity|]. split; [exact (run_fix_size_exact o c bm fs par objs Hp Hf Hg Hbm Hl Hpl Ho p j f i b Hs Hd)|]. split.
      + intro Hnc. destruct (run_fix_blk_exact o c bm fs par objs rb Hp Hf Hg Hbm Hl Hpl Ho CB p j f i b Hs Hnc) as [X|X]; [|exact X].
        cbn zeta in X. rewrite Hd in X. discriminate X.
      + intro Hc. destruct (run_fix_chg_not_old_partial o c bm fs par objs Hp Hf Hg Hbm Hl Hpl Ho PHI p j f i b Hs Hc) as [X|X]; [|exact X].
        cbn zeta in X. rewrite Hd in X. discriminate X.
  Qed.

  (* "reported recovered" *)
  Theorem run_fix_recovered_iff o c bm fs par objs :
    plain nlev o -> co_fix o = true -> geom bs c bm -> c_blockmax c = bm ->
    length fs = length (c_disks c) -> nlev <= length par -> objs_ok c objs ->
    let out := check_run o c par fs objs (seq 0 bm) in
    forall p j f i b, slot_of c p j = SFile f i b ->
      (In (K_ST_RECOVERED, [N.of_nat j; cf_name f]) (r_tags (out_st out)) <->
       fl_fixed (get_fl (r_flags (out_st out)) (j, cf_name f)) = true /\ fl_damaged (get_fl (r_flags (out_st out)) (j, cf_name f)) = false).
  Proof.
    intros Hp Hf Hg Hbm Hl Hpl [O1 _].
    exact (fix_run_recovered_iff hashf padz truncf bs nlev newino now o c bm fs par Hp Hf Hg Hl Hpl objs O1 Hbm).
  Qed.

  (* ... hence the property phrased with the tag: a file REPORTED RECOVERED holds, at every block with a recorded hash, the recorded
     block, and at every CHG block the block of the disk or a rebuilt block that is not the stale old one *)
  Theorem run_fix_recovered_never_wrong o c bm fs par objs rb :
    plain nlev o -> co_fix o = true -> geom bs c bm -> c_blockmax c = bm ->
    length fs = length (c_disks c) -> nlev <= length par -> objs_ok c objs ->
    PastHashInvAll hashf padz bs c par -> collision_free_blk hashf padz bs c bm rb ->
    let out := check_run o c par fs objs (seq 0 bm) in
    forall p j f i b, slot_of c p j = SFile f i b -> In (K_ST_RECOVERED, [N.of_nat j; cf_name f]) (r_tags (out_st out)) ->
      (exists g, fs_find (r_fs (out_st out)) j (cf_name f) = Some g /\ ff_size g = cf_size f)
      /\ (fb_state b <> SChg -> fblk (r_fs (out_st out)) j (cf_name f) i = rb p j)
      /\ (fb_state b = SChg ->
            fblk (r_fs (out_st out)) j (cf_name f) i = fblk fs j (cf_name f) i
            \/ exists x, fblk (r_fs (out_st out)) j (cf_name f) i = wbv padz truncf bs f i x
                         /\ forall l v, nth p (nth l par []) PNone = PEnc v -> x <> vnth v j).
  Proof.
    intros Hp Hf Hg Hbm Hl Hpl Ho PHI CB. cbn zeta. intros p j f i b Hs Ht.
    destruct (proj1 (run_fix_recovered_iff o c bm fs par objs Hp Hf Hg Hbm Hl Hpl Ho p j f i b Hs) Ht) as [_ Hd].
    destruct (run_fix_never_wrong o c bm fs par objs rb Hp Hf Hg Hbm Hl Hpl Ho PHI CB) as [_ H]. cbn zeta in H.
    destruct (H p j f i b Hs) as [[X _]|[_ X]]; [cbn zeta in Hd; rewrite Hd in X; discriminate X | exact X].
  Qed.

  (* mixed arrays: the blocks of the entirely synced stripes *)
  Theorem run_fix_synced_stripes o c bm fs par vs objs :
    plain nlev o -> co_fix o = true -> geom bs c bm -> c_blockmax c = bm ->
    length fs = length (c_disks c) -> nlev <= length par -> objs_ok c objs ->
    synced_part hashf padz bs c bm vs ->
    collision_free_synced hashf padz bs nlev (co_nosearch o) c bm fs par vs ->
    let out := check_run o c par fs objs (seq 0 bm) in
    forall p j f i b, slot_of c p j = SFile f i b -> stripe_synced c p ->
      fl_damaged (get_fl (r_flags (out_st out)) (j, cf_name f)) = true
      \/ fblk (r_fs (out_st out)) j (cf_name f) i = vnth (vs p) j.
  Proof.
    intros Hp Hf Hg Hbm Hl Hpl [O1 _] [S1 S2] [R1 R2 R3 Rv R4].
    exact (fix_run_synced_stripes hashf padz truncf bs nlev newino now o c bm fs par vs Hp Hf Hg Hl Hpl S1 S2 R1 R2 R3 Rv R4 objs O1 Hbm).
  Qed.
End StatementsP.
