(* Proofs about repair_step / repair of FixModel.v: the enumeration of the parity combinations finds an intact one,
   every combination containing a damaged level is rejected by the hash test, the result is the recorded vector. *)
From Coq Require Import NArith ZArith List Bool Arith Lia.
From Snap.Array Require Import ArrayDefs.
From Snap.Fix Require Import FixModel.
Import ListNotations.
Local Opaque JBASE.

(* ---------------------------------------------------------------------------------------------------------- *)
(* vectors                                                                                                      *)
(* ---------------------------------------------------------------------------------------------------------- *)
Lemma vnth_out v i : length v <= i -> vnth v i = 0%N.
Proof. intro H. unfold vnth. apply nth_overflow. exact H. Qed.

Lemma veq_spec a b : veq a b = true <-> forall i, vnth a i = vnth b i.
Proof.
  unfold veq. rewrite forallb_forall. split.
  - intros H i. destruct (Nat.lt_ge_cases i (Nat.max (length a) (length b))) as [Hi|Hi].
    + apply N.eqb_eq. apply H. apply in_seq. lia.
    + rewrite !vnth_out by lia. reflexivity.
  - intros H i _. apply N.eqb_eq. apply H.
Qed.
Lemma veq_refl a : veq a a = true.
Proof. apply veq_spec. reflexivity. Qed.
Lemma veq_sym a b : veq a b = true -> veq b a = true.
Proof. rewrite !veq_spec. intros H i. symmetry. apply H. Qed.
Lemma veq_trans a b c : veq a b = true -> veq b c = true -> veq a c = true.
Proof. rewrite !veq_spec. intros H1 H2 i. rewrite H1. apply H2. Qed.

Lemma memn_spec i l : memn i l = true <-> In i l.
Proof.
  unfold memn. rewrite existsb_exists. split.
  - intros [x [Hx E]]. apply Nat.eqb_eq in E. subst. exact Hx.
  - intro H. exists i. split; [exact H | apply Nat.eqb_refl].
Qed.
Lemma memn_false i l : memn i l = false <-> ~ In i l.
Proof. rewrite <- memn_spec. destruct (memn i l); split; intro H; congruence. Qed.

Lemma agree_out_spec F v d : agree_out F v d = true <-> forall i, ~ In i F -> vnth v i = vnth d i.
Proof.
  unfold agree_out. rewrite forallb_forall. split.
  - intros H i Hi. destruct (Nat.lt_ge_cases i (Nat.max (length v) (length d))) as [Hl|Hl].
    + assert (Hin : In i (seq 0 (Nat.max (length v) (length d)))) by (apply in_seq; lia).
      specialize (H i Hin). apply orb_true_iff in H. destruct H as [H|H].
      * apply memn_spec in H. contradiction.
      * apply N.eqb_eq. exact H.
    + rewrite !vnth_out by lia. reflexivity.
  - intros H i _. destruct (memn i F) eqn:E; [reflexivity|]. simpl. apply N.eqb_eq. apply H. apply memn_false. exact E.
Qed.

Lemma mapi_length {A B} (f : nat -> A -> B) l : length (mapi f l) = length l.
Proof. unfold mapi. rewrite map_length, combine_length, seq_length. apply Nat.min_id. Qed.

Lemma combine_seq_nth {A} (l : list A) s i (d : A) :
  i < length l -> nth i (combine (seq s (length l)) l) (0, d) = (s + i, nth i l d).
Proof.
  revert s i. induction l as [|a t IH]; intros s i Hi; simpl in *; [lia|].
  destruct i as [|i]; [f_equal; lia|]. rewrite IH by lia. f_equal. lia.
Qed.

Lemma mapi_nth {A B} (f : nat -> A -> B) l i (da : A) (db : B) :
  i < length l -> nth i (mapi f l) db = f i (nth i l da).
Proof.
  intro Hi. unfold mapi.
  rewrite (nth_indep _ db (f (fst (0, da)) (snd (0, da)))) by (rewrite map_length, combine_length, seq_length; lia).
  rewrite (map_nth (fun ix : nat * A => f (fst ix) (snd ix))).
  rewrite combine_seq_nth by exact Hi. reflexivity.
Qed.

Lemma vnth_mapi (f : nat -> bid -> bid) d i : i < length d -> vnth (mapi f d) i = f i (vnth d i).
Proof. intro Hi. unfold vnth. apply mapi_nth. exact Hi. Qed.
Lemma vnth_mapi_out (f : nat -> bid -> bid) d i : length d <= i -> vnth (mapi f d) i = 0%N.
Proof. intro Hi. apply vnth_out. rewrite mapi_length. exact Hi. Qed.

(* ---------------------------------------------------------------------------------------------------------- *)
(* reconstruct                                                                                                  *)
(* ---------------------------------------------------------------------------------------------------------- *)
Definition is_junk (x : bid) : Prop := (JBASE <= x)%N.

Lemma set1_length (d : list bid) j x : length (mapi (fun k y => if Nat.eqb k j then x else y) d) = length d.
Proof. apply mapi_length. Qed.

Lemma xor_toggle_in x m y : In y (xor_toggle x m) -> y = x \/ In y m.
Proof.
  induction m as [|z t IH]; cbn; [intros [E|[]]; auto|].
  destruct (N.eqb x z); [intro H; right; right; exact H|]. intros [E|H]; [right; left; exact E|].
  destruct (IH H) as [E|E]; [left; exact E | right; right; exact E].
Qed.
Lemma xor_ids_in l y : In y (xor_ids l) -> In y l.
Proof.
  unfold xor_ids. assert (G : forall l m, In y (fold_left (fun m x => if N.eqb x 0 then m else xor_toggle x m) l m) -> In y l \/ In y m).
  { induction l0 as [|x t IH]; intros m H; [right; exact H|]. cbn [fold_left] in H. destruct (IH _ H) as [E|E]; [left; right; exact E|].
    destruct (N.eqb x 0); [right; exact E|]. destruct (xor_toggle_in x m y E) as [E2|E2]; [left; left; auto | right; exact E2]. }
  intro H. destruct (G l [] H) as [E|[]]. exact E.
Qed.

(* the three possible results at a failed position: the common encoded vector, a block of the encoded vector that sits at
   another position (xor parity, moved block), or junk *)
Lemma reconstruct_cases xor1 F used d jn :
  let r := fst (reconstruct xor1 F used d jn) in
  length r = length d
  /\ (forall i, ~ In i F -> vnth r i = vnth d i)
  /\ ((exists v rest, used = PEnc v :: rest /\ (forall p, In p rest -> exists v', p = PEnc v' /\ veq v v' = true)
                      /\ agree_out F v d = true
                      /\ forall i, In i F -> i < length d -> vnth r i = vnth v i)
      \/ (exists v j i, used = [PEnc v] /\ F = [j] /\ (j < length d -> vnth r j = vnth v i))
      \/ (exists j i, F = [j] /\ i <> j /\ (j < length d -> vnth r j = vnth d i))
      \/ (forall i, In i F -> i < length d -> is_junk (vnth r i))).
Proof.
  cbn zeta.
  assert (J : let r := mapi (fun i x => if memn i F then (JBASE + jn + N.of_nat i)%N else x) d in
              length r = length d /\ (forall i, ~ In i F -> vnth r i = vnth d i)
              /\ (forall i, In i F -> i < length d -> is_junk (vnth r i))).
  { cbn zeta. split; [apply mapi_length|]. split.
    - intros i Hi. apply memn_false in Hi. destruct (Nat.lt_ge_cases i (length d)) as [Hl|Hl].
      + rewrite vnth_mapi by exact Hl. rewrite Hi. reflexivity.
      + rewrite vnth_mapi_out by exact Hl. rewrite vnth_out by exact Hl. reflexivity.
    - intros i Hi Hl. rewrite vnth_mapi by exact Hl. apply memn_spec in Hi. rewrite Hi. unfold is_junk. lia. }
  cbn zeta in J. destruct J as [J1 [J2 J3]].
  assert (JJ : length (mapi (fun i x => if memn i F then (JBASE + jn + N.of_nat i)%N else x) d) = length d
               /\ (forall i, ~ In i F -> vnth (mapi (fun i x => if memn i F then (JBASE + jn + N.of_nat i)%N else x) d) i = vnth d i)
               /\ ((exists v rest, used = PEnc v :: rest /\ (forall p, In p rest -> exists v', p = PEnc v' /\ veq v v' = true)
                      /\ agree_out F v d = true
                      /\ forall i, In i F -> i < length d -> vnth (mapi (fun i x => if memn i F then (JBASE + jn + N.of_nat i)%N else x) d) i = vnth v i)
                   \/ (exists v j i, used = [PEnc v] /\ F = [j] /\ (j < length d -> vnth (mapi (fun i x => if memn i F then (JBASE + jn + N.of_nat i)%N else x) d) j = vnth v i))
                   \/ (exists j i, F = [j] /\ i <> j /\ (j < length d -> vnth (mapi (fun i x => if memn i F then (JBASE + jn + N.of_nat i)%N else x) d) j = vnth d i))
                   \/ (forall i, In i F -> i < length d -> is_junk (vnth (mapi (fun i x => if memn i F then (JBASE + jn + N.of_nat i)%N else x) d) i)))).
  { split; [exact J1|]. split; [exact J2|]. right. right. right. exact J3. }
  unfold reconstruct. destruct used as [|[v|t|] rest]; cbn [fst]; try exact JJ.
  destruct (forallb (fun p => match p with PEnc v' => veq v v' | _ => false end) rest) eqn:E1; cbn [andb]; [destruct (agree_out F v d) eqn:E2|].
  - (* the good case *)
    cbn [fst]. split; [apply mapi_length|]. split.
    + intros i Hi. apply memn_false in Hi. destruct (Nat.lt_ge_cases i (length d)) as [Hl|Hl].
      * rewrite vnth_mapi by exact Hl. rewrite Hi. reflexivity.
      * rewrite vnth_mapi_out by exact Hl. rewrite vnth_out by exact Hl. reflexivity.
    + left. exists v, rest. repeat split; auto.
      * intros p Hp. rewrite forallb_forall in E1. specialize (E1 p Hp). destruct p as [v'|t|]; try discriminate. exists v'. auto.
      * intros i Hi Hl. rewrite vnth_mapi by exact Hl. apply memn_spec in Hi. rewrite Hi. reflexivity.
  - (* disagreement outside F *)
    destruct xor1; [|exact JJ].
    destruct F as [|j [|j2 F2]]; try exact JJ. destruct rest as [|p rest]; try exact JJ.
    set (others := filter (fun i => negb (Nat.eqb i j)) (seq 0 (Nat.max (length v) (length d)))).
    assert (Hset : forall x, length (mapi (fun k x0 => if Nat.eqb k j then x else x0) d) = length d
                             /\ (forall i, ~ In i [j] -> vnth (mapi (fun k x0 => if Nat.eqb k j then x else x0) d) i = vnth d i)
                             /\ (j < length d -> vnth (mapi (fun k x0 => if Nat.eqb k j then x else x0) d) j = x)).
    { intro x. split; [apply mapi_length|]. split.
      - intros k Hk. assert (Hkj : k <> j) by (intro X; apply Hk; left; auto).
        destruct (Nat.lt_ge_cases k (length d)) as [Hl|Hl].
        + rewrite vnth_mapi by exact Hl. apply Nat.eqb_neq in Hkj. rewrite Hkj. reflexivity.
        + rewrite vnth_mapi_out by exact Hl. rewrite vnth_out by exact Hl. reflexivity.
      - intro Hl. rewrite vnth_mapi by exact Hl. rewrite Nat.eqb_refl. reflexivity. }
    destruct (xor_ids (vnth v j :: flat_map (fun i => [vnth v i; vnth d i]) others)) as [|x [|x2 t]] eqn:EX; try exact JJ.
    + (* everything cancels: the zero block *)
      cbn [fst]. destruct (Hset 0%N) as [S1 [S2 S3]]. split; [exact S1|]. split; [exact S2|].
      right. left. exists v, j, (length v). split; [reflexivity|]. split; [reflexivity|]. intro Hl. etransitivity; [apply (S3 Hl)|]. symmetry. apply vnth_out. lia.
    + (* one block is left *)
      cbn [fst]. destruct (Hset x) as [S1 [S2 S3]]. split; [exact S1|]. split; [exact S2|].
      assert (Hin : In x (vnth v j :: flat_map (fun i => [vnth v i; vnth d i]) others)).
      { apply xor_ids_in. rewrite EX. left. reflexivity. }
      destruct Hin as [E|Hin].
      * right. left. exists v, j, j. split; [reflexivity|]. split; [reflexivity|]. intro Hl. etransitivity; [apply (S3 Hl)|]. symmetry. exact E.
      * apply in_flat_map in Hin. destruct Hin as [i [Hi [E|[E|[]]]]].
        -- right. left. exists v, j, i. split; [reflexivity|]. split; [reflexivity|]. intro Hl. etransitivity; [apply (S3 Hl)|]. symmetry. exact E.
        -- right. right. left. exists j, i. split; [reflexivity|]. split.
           ++ unfold others in Hi. apply filter_In in Hi. destruct Hi as [_ Hi]. apply negb_true_iff in Hi. apply Nat.eqb_neq in Hi. exact Hi.
           ++ intro Hl. etransitivity; [apply (S3 Hl)|]. symmetry. exact E.
  - destruct xor1; [|exact JJ].
    destruct F as [|j [|j2 F2]]; try exact JJ. destruct rest as [|p rest]; [|exact JJ]. cbn in E1. discriminate.
Qed.

Lemma reconstruct_length xor1 F used d jn : length (fst (reconstruct xor1 F used d jn)) = length d.
Proof. apply (reconstruct_cases xor1 F used d jn). Qed.
Lemma reconstruct_outside xor1 F used d jn i : ~ In i F -> vnth (fst (reconstruct xor1 F used d jn)) i = vnth d i.
Proof. apply (reconstruct_cases xor1 F used d jn). Qed.

(* all used levels encode v and the buffer agrees with v outside F: the result is v on F *)
Lemma reconstruct_good xor1 F used d jn v :
  used <> [] -> (forall p, In p used -> exists v', p = PEnc v' /\ veq v v' = true) ->
  agree_out F v d = true ->
  snd (reconstruct xor1 F used d jn) = jn /\
  forall i, i < length d -> vnth (fst (reconstruct xor1 F used d jn)) i = if memn i F then vnth v i else vnth d i.
Proof.
  intros Hne Hall Hag. destruct used as [|p rest]; [congruence|].
  destruct (Hall p (or_introl eq_refl)) as [v0 [E0 Hv0]]. subst p.
  unfold reconstruct.
  assert (E1 : forallb (fun p => match p with PEnc v' => veq v0 v' | _ => false end) rest = true).
  { apply forallb_forall. intros p Hp. destruct (Hall p (or_intror Hp)) as [v' [E Hv']]. subst p.
    eapply veq_trans; [apply veq_sym; exact Hv0 | exact Hv']. }
  assert (E2 : agree_out F v0 d = true).
  { apply agree_out_spec. intros i Hi. rewrite agree_out_spec in Hag. rewrite <- (Hag i Hi).
    symmetry. apply veq_spec. exact Hv0. }
  rewrite E1, E2. simpl. split; [reflexivity|].
  intros i Hl. rewrite vnth_mapi by exact Hl. destruct (memn i F); [|reflexivity].
  symmetry. apply veq_spec. exact Hv0.
Qed.

(* ---------------------------------------------------------------------------------------------------------- *)
(* combinations                                                                                                 *)
(* ---------------------------------------------------------------------------------------------------------- *)
(* sub l' l : l' is a subsequence of l *)
Inductive subseq {A} : list A -> list A -> Prop :=
| sub_nil l : subseq [] l
| sub_take x l' l : subseq l' l -> subseq (x :: l') (x :: l)
| sub_skip x l' l : subseq l' l -> subseq l' (x :: l).

Lemma combos_complete l : forall r s, subseq s l -> length s = r -> In s (combos l r).
Proof.
  induction l as [|x t IH]; intros r s Hs Hr.
  - inversion Hs; subst. simpl. left. reflexivity.
  - simpl. destruct r as [|r'].
    + destruct s; [left; reflexivity | discriminate].
    + inversion Hs; subst.
      * discriminate.
      * apply in_or_app. left. apply in_map. apply IH; [assumption | simpl in Hr; lia].
      * apply in_or_app. right. apply IH; assumption.
Qed.
Lemma combos_sound l : forall r s, In s (combos l r) -> subseq s l /\ length s = r.
Proof.
  induction l as [|x t IH]; intros r s Hin.
  - destruct r; simpl in Hin; [|contradiction]. destruct Hin as [E|[]]. subst. split; [constructor | reflexivity].
  - simpl in Hin. destruct r as [|r'].
    + destruct Hin as [E|[]]. subst. split; [constructor | reflexivity].
    + apply in_app_or in Hin. destruct Hin as [Hin|Hin].
      * apply in_map_iff in Hin. destruct Hin as [s' [E Hs']]. subst. destruct (IH _ _ Hs') as [H1 H2].
        split; [constructor; exact H1 | simpl; lia].
      * destruct (IH _ _ Hin) as [H1 H2]. split; [constructor; exact H1 | exact H2].
Qed.
Lemma filter_len_le {A} (P : A -> bool) l : length (filter P l) <= length l.
Proof. induction l as [|x t IH]; simpl; [lia|]. destruct (P x); simpl; lia. Qed.
Lemma subseq_In {A} (s l : list A) x : subseq s l -> In x s -> In x l.
Proof. induction 1; simpl; intros; try contradiction; intuition. Qed.
Lemma subseq_filter {A} (P : A -> bool) l : subseq (filter P l) l.
Proof. induction l as [|x t IH]; simpl; [constructor|]. destruct (P x); constructor; exact IH. Qed.
Lemma subseq_firstn {A} n (l : list A) : subseq (firstn n l) l.
Proof. revert n. induction l as [|x t IH]; intro n; destruct n; simpl; constructor. apply IH. Qed.
Lemma subseq_trans {A} (a b c : list A) : subseq a b -> subseq b c -> subseq a c.
Proof.
  intros H1 H2. revert a H1. induction H2; intros a H1.
  - inversion H1; subst. constructor.
  - inversion H1; subst; [constructor | constructor; auto | apply sub_skip; auto].
  - apply sub_skip. auto.
Qed.

(* ---------------------------------------------------------------------------------------------------------- *)
(* strategy 1 on a failed set of hashed blocks                                                                  *)
(* ---------------------------------------------------------------------------------------------------------- *)
Section Repair.
  Variable hashf : bid -> N -> hval.
  Variable padz : bid -> N -> bool.
  Variable bs : N.

  Notation blockcmp := (blockcmp hashf padz bs).
  Notation fe_len := (fe_len bs).

  (* the level l holds the encoding of v *)
  Definition good_level (v : list bid) (rec : list penc) (l : nat) : bool := par_matches v (nth l rec PNone).

  Record fm_ok (fm : list fent) (buf : list bid) : Prop := {
    fo_ne : fm <> [];
    fo_flags : forall e, In e fm -> fe_ood e = false /\ fe_updated_hash e = true;
    fo_idx : forall e, In e fm -> fe_idx e < length buf
  }.

  (* collision freedom on the blocks involved: junk never passes a hash test; a block (at ANY position: with plain xor
     parity a block of another position can come out, see FixModel.reconstruct) of a vector encoded by some parity block
     read passes the hash test of entry e only if it is the recorded block of e *)
  Definition cf_junk (fm : list fent) : Prop :=
    forall e x, In e fm -> is_junk x -> blockcmp (fe_hash e) (fe_len e) x = false.
  Definition cf_rec (fm : list fent) (rec : list penc) (v : list bid) : Prop :=
    forall l w i e, nth l rec PNone = PEnc w -> In e fm ->
                    blockcmp (fe_hash e) (fe_len e) (vnth w i) = true -> vnth w i = vnth v (fe_idx e).
  (* ... and a block of the recorded vector itself, at ANOTHER disk position (with plain xor parity and a stale parity block the
     data read from another disk can come out, see FixModel.reconstruct), passes the hash test of e only if it is the block of e *)
  Definition cf_vec (fm : list fent) (v : list bid) : Prop :=
    forall i e, In e fm -> blockcmp (fe_hash e) (fe_len e) (vnth v i) = true -> vnth v i = vnth v (fe_idx e).
  Definition hv_ok (fm : list fent) (v : list bid) : Prop :=
    forall e, In e fm -> blockcmp (fe_hash e) (fe_len e) (vnth v (fe_idx e)) = true.

  Lemma has_hash_ok fm buf : fm_ok fm buf -> has_hash fm = true.
  Proof.
    intros [Hne Hfl _]. destruct fm as [|e t]; [congruence|].
    unfold has_hash. simpl. destruct (Hfl e (or_introl eq_refl)) as [H1 H2]. rewrite H1, H2. reflexivity.
  Qed.

  Lemma hash_matching_true fm buf b :
    fm_ok fm buf -> (hash_matching hashf padz bs fm b = true <-> forall e, In e fm -> blockcmp (fe_hash e) (fe_len e) (vnth b (fe_idx e)) = true).
  Proof.
    intro Hok. unfold hash_matching. rewrite (has_hash_ok _ _ Hok). simpl. rewrite forallb_forall. split.
    - intros H e He. specialize (H e He). destruct (fo_flags _ _ Hok e He) as [H1 H2]. rewrite H1, H2 in H. exact H.
    - intros H e He. destruct (fo_flags _ _ Hok e He) as [H1 H2]. rewrite H1, H2. simpl. apply H. exact He.
  Qed.

  Definition restored (F : list nat) (v buf buf' : list bid) : Prop :=
    length buf' = length buf /\ forall i, i < length buf -> vnth buf' i = if memn i F then vnth v i else vnth buf i.

  Lemma try_combos_good pos fm rec v :
    forall cs buf jn err tags,
      fm_ok fm buf -> hv_ok fm v -> cf_junk fm -> cf_rec fm rec v -> cf_vec fm v ->
      agree_out (map fe_idx fm) v buf = true ->
      (forall ip, In ip cs -> ip <> []) ->
      (exists ip, In ip cs /\ forall l, In l ip -> good_level v rec l = true) ->
      exists buf' jn' err' tags',
        try_combos hashf padz bs pos true (map fe_idx fm) fm rec cs buf jn err tags = (true, buf', jn', err', tags')
        /\ restored (map fe_idx fm) v buf buf'.
  Proof.
    set (F := map fe_idx fm).
    induction cs as [|ip rest IH]; intros buf jn err tags Hok Hhv Hj Hr Hv Hag Hne [gip [Hgin Hgood]].
    - contradiction.
    - simpl.
      assert (InF : forall e, In e fm -> In (fe_idx e) F) by (intros e He; apply in_map; exact He).
      destruct (existsb (fun l => is_pnone (nth l rec PNone)) ip) eqn:Epn.
      + (* skipped: the good combination is not this one *)
        apply IH; auto.
        * intros x Hx. apply Hne. right. exact Hx.
        * exists gip. split; [|exact Hgood]. destruct Hgin as [E|Hin]; [|exact Hin]. subst gip. exfalso.
          apply existsb_exists in Epn. destruct Epn as [l [Hl Hp]]. specialize (Hgood l Hl).
          unfold good_level in Hgood. destruct (nth l rec PNone); simpl in *; congruence.
      + set (x1 := match ip with [O] => true | _ => false end).
        destruct (reconstruct x1 F (map (fun l => nth l rec PNone) ip) buf jn) as [buf' jn'] eqn:ER.
        assert (Hlen : length buf' = length buf) by (pose proof (reconstruct_length x1 F (map (fun l => nth l rec PNone) ip) buf jn) as X; rewrite ER in X; exact X).
        assert (Hout : forall i, ~ In i F -> vnth buf' i = vnth buf i) by (intros i Hi; pose proof (reconstruct_outside x1 F (map (fun l => nth l rec PNone) ip) buf jn i Hi) as X; rewrite ER in X; exact X).
        assert (Hok' : fm_ok fm buf') by (destruct Hok as [A B C]; constructor; auto; intros e He; rewrite Hlen; auto).
        destruct (hash_matching hashf padz bs fm buf') eqn:EH.
        * (* accepted: it is the recorded vector *)
          exists buf', jn', err, tags. split; [reflexivity|]. split; [exact Hlen|].
          intros i Hi. destruct (memn i F) eqn:Em; [|apply Hout; apply memn_false; exact Em].
          apply memn_spec in Em. apply in_map_iff in Em. destruct Em as [e [Ee He]]. subst i.
          rewrite (hash_matching_true fm buf' buf' Hok') in EH.
          pose proof (reconstruct_cases x1 F (map (fun l => nth l rec PNone) ip) buf jn) as C; rewrite ER in C; cbn [fst] in C.
          destruct C as [_ [_ [C|[C|[C|C]]]]].
          -- destruct C as [w [rs [Eu [_ [_ Hw]]]]].
             rewrite Hw by (auto using InF).
             destruct ip as [|l0 ipt]; [discriminate|]. simpl in Eu. injection Eu as E0 _.
             apply (Hr l0 w (fe_idx e) e E0 He). rewrite <- Hw by (auto using InF). apply EH. exact He.
          -- destruct C as [w [j [i [Eu [EF Hw]]]]].
             assert (Ej : fe_idx e = j).
             { pose proof (InF e He) as X. rewrite EF in X. destruct X as [X|[]]. auto. }
             assert (Hi' : j < length buf) by (rewrite <- Ej; exact Hi).
             rewrite Ej, (Hw Hi'). rewrite <- Ej.
             destruct ip as [|l0 ipt]; [discriminate|]. simpl in Eu. injection Eu as E0 _.
             apply (Hr l0 w i e E0 He). specialize (EH e He). rewrite Ej, (Hw Hi') in EH. exact EH.
          -- destruct C as [j [i [EF [Hij Hw]]]].
             assert (Ej : fe_idx e = j).
             { pose proof (InF e He) as X. rewrite EF in X. destruct X as [X|[]]. auto. }
             assert (Hi' : j < length buf) by (rewrite <- Ej; exact Hi).
             assert (Hvi : vnth v i = vnth buf i).
             { rewrite agree_out_spec in Hag. apply Hag. rewrite EF. intros [X|[]]. apply Hij. symmetry. exact X. }
             rewrite Ej, (Hw Hi'), <- Hvi. rewrite <- Ej.
             apply (Hv i e He). specialize (EH e He). rewrite Ej, (Hw Hi'), <- Hvi in EH. exact EH.
          -- exfalso. specialize (C (fe_idx e) (InF e He) Hi).
             specialize (EH e He). rewrite (Hj e _ He C) in EH. discriminate.
        * (* rejected: it was not an all-good combination *)
          assert (Hag' : agree_out F v buf' = true).
          { apply agree_out_spec. intros i Hi. rewrite Hout by exact Hi. rewrite agree_out_spec in Hag. apply Hag. exact Hi. }
          assert (Hne' : forall x, In x rest -> x <> []) by (intros x Hx; apply Hne; right; exact Hx).
          assert (Hex : exists ip0, In ip0 rest /\ forall l, In l ip0 -> good_level v rec l = true).
          { exists gip. split; [|exact Hgood]. destruct Hgin as [E|Hin]; [|exact Hin]. subst gip. exfalso.
            assert (Hall : forall p, In p (map (fun l => nth l rec PNone) ip) -> exists v', p = PEnc v' /\ veq v v' = true).
            { intros p Hp. apply in_map_iff in Hp. destruct Hp as [l [El Hl]]. specialize (Hgood l Hl).
              unfold good_level, par_matches in Hgood. rewrite El in Hgood. destruct p as [v'|t|]; try discriminate. eauto. }
            assert (Hnn : map (fun l => nth l rec PNone) ip <> []).
            { specialize (Hne ip (or_introl eq_refl)). destruct ip; [congruence | discriminate]. }
            destruct (reconstruct_good x1 F _ buf jn v Hnn Hall Hag) as [_ Hres]. rewrite ER in Hres. simpl in Hres.
            assert (EH' : hash_matching hashf padz bs fm buf' = true).
            { apply (hash_matching_true fm buf' buf' Hok'). intros e He.
              rewrite Hres by (apply (fo_idx _ _ Hok); exact He).
              assert (Em : memn (fe_idx e) F = true) by (apply memn_spec; auto). rewrite Em. apply Hhv. exact He. }
            congruence. }
          destruct (IH buf' jn' (S err) (tags ++ [(K_PAR_TRY, N.of_nat pos :: 1%N :: map N.of_nat ip)]) Hok' Hhv Hj Hr Hv Hag' Hne' Hex)
            as [b2 [j2 [e2 [t2 [E2 [R1 R2]]]]]].
          exists b2, j2, e2, t2. split; [exact E2|]. split; [congruence|].
          intros i Hi. rewrite R2 by (rewrite Hlen; exact Hi).
          destruct (memn i F) eqn:Em; [reflexivity|]. apply Hout. apply memn_false. exact Em.
  Qed.

  Variable nlev : nat.

  Lemma good_combo_exists v rec n :
    n <= length (filter (good_level v rec) (seq 0 nlev)) ->
    exists ip, In ip (combos (seq 0 nlev) n) /\ forall l, In l ip -> good_level v rec l = true.
  Proof.
    intro H. exists (firstn n (filter (good_level v rec) (seq 0 nlev))). split.
    - apply combos_complete.
      + eapply subseq_trans; [apply subseq_firstn | apply subseq_filter].
      + apply firstn_length_le. exact H.
    - intros l Hl. assert (Hin : In l (filter (good_level v rec) (seq 0 nlev))).
      { eapply subseq_In; [apply subseq_firstn | exact Hl]. }
      apply filter_In in Hin. tauto.
  Qed.

  (* repair_step succeeds with the recorded vector when at least |fm| levels are intact *)
  Theorem repair_step_good pos fm rec v buf jn :
    fm_ok fm buf -> hv_ok fm v -> cf_junk fm -> cf_rec fm rec v -> cf_vec fm v ->
    agree_out (map fe_idx fm) v buf = true ->
    length fm <= length (filter (good_level v rec) (seq 0 nlev)) ->
    exists buf' jn' tags,
      repair_step hashf padz bs nlev pos fm rec buf jn = (ROk, buf', jn', tags)
      /\ restored (map fe_idx fm) v buf buf'.
  Proof.
    intros Hok Hhv Hj Hr Hv Hag Hn. unfold repair_step.
    destruct (Nat.eqb (length fm) 0) eqn:E0.
    { apply Nat.eqb_eq in E0. destruct fm; [destruct (fo_ne _ _ Hok); reflexivity | discriminate]. }
    rewrite (has_hash_ok _ _ Hok).
    assert (Hle : (length fm <=? nlev) = true).
    { apply Nat.leb_le. etransitivity; [exact Hn|]. etransitivity; [apply filter_len_le|]. rewrite seq_length. lia. }
    rewrite Hle. simpl.
    destruct (try_combos_good pos fm rec v (combos (seq 0 nlev) (length fm)) buf jn 0 [] Hok Hhv Hj Hr Hv Hag) as [buf' [jn' [err' [tags' [E R]]]]].
    - intros ip Hip. apply combos_sound in Hip. destruct Hip as [_ Hl]. apply Nat.eqb_neq in E0. destruct ip; [simpl in Hl; congruence | discriminate].
    - apply good_combo_exists. exact Hn.
    - rewrite E. exists buf', jn', tags'. split; [reflexivity | exact R].
  Qed.
End Repair.

(* ---------------------------------------------------------------------------------------------------------- *)
(* repair on a stripe whose blocks are all BLK                                                                  *)
(* ---------------------------------------------------------------------------------------------------------- *)
Lemma set_buf_length b i x : length (set_buf b i x) = length b.
Proof. apply mapi_length. Qed.
Lemma vnth_set_buf b i x k : k < length b -> vnth (set_buf b i x) k = if Nat.eqb k i then x else vnth b k.
Proof. intro H. unfold set_buf. rewrite vnth_mapi by exact H. reflexivity. Qed.

Section RepairAll.
  Variable hashf : bid -> N -> hval.
  Variable padz : bid -> N -> bool.
  Variable bs : N.
  Variable nlev : nat.
  Variable reduced : bool.

  Definition full (v buf buf' : list bid) : Prop :=
    length buf' = length buf /\ forall i, i < length buf -> vnth buf' i = vnth v i.

  Definition blk_failed (failed : list fent) (buf : list bid) : Prop :=
    forall e, In e failed -> fe_bad e = true /\ fe_ood e = false /\ fe_state e = Some SBlk /\ fe_idx e < length buf.

  Definition cf_search (nosearch : bool) (fs0 : list (option fsdisk)) (failed : list fent) (v : list bid) : Prop :=
    forall e b, In e failed -> search_fetch hashf bs nosearch fs0 e = Some b -> b = vnth v (fe_idx e).

  (* whatever the files searched: a block fetched by state_search_fetch hashes to the recorded hash of the entry *)
  Lemma search_fetch_hash nosearch fsx e b :
    search_fetch hashf bs nosearch fsx e = Some b ->
    exists f i, fe_file e = Some (f, i) /\ hval_eqb (hashf b (block_len bs (cf_size f) i)) (fe_hash e) = true.
  Proof.
    unfold search_fetch. destruct nosearch; [discriminate|]. destruct (fe_file e) as [[f i]|]; [|discriminate].
    match goal with |- context [find ?p ?l] => destruct (find p l) as [g|] eqn:E end; [|discriminate].
    intro H. injection H as H. subst b. apply find_some in E. destruct E as [_ E].
    apply andb_true_iff in E. destruct E as [_ E]. exists f, i. split; [reflexivity | exact E].
  Qed.

  Lemma chg_heuristic_blk pos buf e : fe_state e = Some SBlk -> chg_heuristic hashf padz bs reduced pos buf e = (e, []).
  Proof. intro H. unfold chg_heuristic, fe_is. rewrite H. simpl. rewrite andb_false_r. reflexivity. Qed.

  Theorem repair_restores pos nosearch fs0 failed rec v buf jn :
    blk_failed failed buf ->
    hv_ok hashf padz bs failed v -> cf_junk hashf padz bs failed -> cf_rec hashf padz bs failed rec v ->
    cf_vec hashf padz bs failed v ->
    cf_search nosearch fs0 failed v ->
    agree_out (map fe_idx failed) v buf = true ->
    length failed <= length (filter (good_level v rec) (seq 0 nlev)) ->
    exists buf' jn' tags,
      repair hashf padz bs nlev reduced pos nosearch fs0 failed rec buf jn = (ROk, failed, buf', jn', tags)
      /\ full v buf buf'.
  Proof.
    intros Hblk Hhv Hj Hr Hvec Hs Hag Hn.
    set (g := fun (acc : list fent * list bid) e =>
                if fe_bad e then
                  match (if fe_updated_hash e then search_fetch hashf bs nosearch fs0 e else None) with
                  | Some b => (fst acc, set_buf (snd acc) (fe_idx e) b)
                  | None => (fst acc ++ [e], snd acc)
                  end
                else acc).
    assert (Hfold : forall l fm0 b0,
               (forall e, In e l -> In e failed) -> (forall e, In e fm0 -> In e failed) ->
               length b0 = length buf ->
               agree_out (map fe_idx (fm0 ++ l)) v b0 = true ->
               (forall e, In e (fst (fold_left g l (fm0, b0))) -> In e failed) /\ length (snd (fold_left g l (fm0, b0))) = length buf
               /\ agree_out (map fe_idx (fst (fold_left g l (fm0, b0)))) v (snd (fold_left g l (fm0, b0))) = true
               /\ length (fst (fold_left g l (fm0, b0))) <= length fm0 + length l).
    { induction l as [|e t IH]; intros fm0 b0 Hl Hf0 Hlen Hag0; simpl.
      - rewrite app_nil_r in Hag0. repeat split; auto. lia.
      - assert (He : In e failed) by (apply Hl; left; reflexivity).
        destruct (Hblk e He) as [Hb [Ho [Hst Hidx]]].
        destruct (search_fetch hashf bs nosearch fs0 e) as [x|] eqn:Es.
        + assert (Ex : x = vnth v (fe_idx e)) by (apply (Hs e x He Es)). subst x.
          assert (Eg : g (fm0, b0) e = (fm0, set_buf b0 (fe_idx e) (vnth v (fe_idx e)))).
          { unfold g. rewrite Hb. unfold fe_updated_hash. rewrite Hst, Es. reflexivity. }
          rewrite Eg.
          edestruct (IH fm0 (set_buf b0 (fe_idx e) (vnth v (fe_idx e)))) as [A [B [C D]]].
          * intros e' He'. apply Hl. right. exact He'.
          * exact Hf0.
          * rewrite set_buf_length. exact Hlen.
          * apply agree_out_spec. intros i Hi.
            destruct (Nat.lt_ge_cases i (length b0)) as [Hil|Hil].
            -- rewrite vnth_set_buf by exact Hil. destruct (Nat.eqb i (fe_idx e)) eqn:Ei.
               ++ apply Nat.eqb_eq in Ei. subst i. reflexivity.
               ++ rewrite agree_out_spec in Hag0. apply Hag0. intro Hin. rewrite map_app in Hin. simpl in Hin.
                  apply in_app_or in Hin. destruct Hin as [Hin|[Hin|Hin]].
                  ** apply Hi. rewrite map_app. apply in_or_app. left. exact Hin.
                  ** apply Nat.eqb_neq in Ei. congruence.
                  ** apply Hi. rewrite map_app. apply in_or_app. right. exact Hin.
            -- rewrite (vnth_out (set_buf _ _ _)) by (rewrite set_buf_length; exact Hil).
               rewrite agree_out_spec in Hag0. rewrite <- (vnth_out b0 i Hil). apply Hag0.
               intro Hin. rewrite map_app in Hin. simpl in Hin. apply in_app_or in Hin. destruct Hin as [Hin|[Hin|Hin]].
               ++ apply Hi. rewrite map_app. apply in_or_app. left. exact Hin.
               ++ subst i. rewrite Hlen in Hil. lia.
               ++ apply Hi. rewrite map_app. apply in_or_app. right. exact Hin.
          * repeat split; auto. simpl length. lia.
        + assert (Eg : g (fm0, b0) e = (fm0 ++ [e], b0)).
          { unfold g. rewrite Hb. unfold fe_updated_hash. rewrite Hst, Es. reflexivity. }
          rewrite Eg.
          edestruct (IH (fm0 ++ [e]) b0) as [A [B [C D]]].
          * intros e' He'. apply Hl. right. exact He'.
          * intros e' He'. apply in_app_or in He'. destruct He' as [He'|[He'|[]]]; [auto | subst; auto].
          * exact Hlen.
          * rewrite <- app_assoc. exact Hag0.
          * repeat split; auto. rewrite app_length in D. simpl length in *. lia. }
    unfold repair. destruct failed as [|e1 ft'] eqn:Efailed2.
    { exists buf, jn, []. split; [reflexivity|]. split; [reflexivity|].
      intros i Hi. symmetry. rewrite agree_out_spec in Hag. apply Hag. simpl. tauto. }
    rewrite <- Efailed2 in *.
    fold g.
    specialize (Hfold failed [] buf (fun e H => H) (fun e H => match H with end) eq_refl Hag).
    destruct (fold_left g failed ([], buf)) as [fm1 buf1] eqn:Ef. simpl in Hfold.
    destruct Hfold as [Hsub [Hlen1 [Hag1 Hcnt]]].
    destruct fm1 as [|e2 fmt] eqn:Efm1.
    - exists buf1, jn, []. split; [reflexivity|]. split; [exact Hlen1|].
      intros i Hi. symmetry. rewrite agree_out_spec in Hag1. apply Hag1. simpl. tauto.
    - rewrite <- Efm1 in *.
      assert (Hok : fm_ok fm1 buf1).
      { constructor.
        - rewrite Efm1. discriminate.
        - intros e He. destruct (Hblk e (Hsub e He)) as [_ [Ho [Hst _]]]. split; [exact Ho|]. unfold fe_updated_hash. rewrite Hst. reflexivity.
        - intros e He. rewrite Hlen1. destruct (Hblk e (Hsub e He)) as [_ [_ [_ Hi]]]. exact Hi. }
      destruct (repair_step_good hashf padz bs nlev pos fm1 rec v buf1 jn Hok) as [buf2 [jn2 [tags2 [E R]]]].
      + intros e He. apply Hhv. auto.
      + intros e x He. apply Hj. auto.
      + intros l w i e El He. apply (Hr l w i e El). auto.
      + intros i e He. apply (Hvec i e). auto.
      + exact Hag1.
      + etransitivity; [exact Hcnt|]. simpl. exact Hn.
      + assert (Efm1' : match fm1 with [] => true | _ => false end = false) by (rewrite Efm1; reflexivity).
        destruct fm1 as [|e3 fm3]; [discriminate|]. rewrite E.
        exists buf2, jn2, (tags2 ++ flat_map snd (map (chg_heuristic hashf padz bs reduced pos buf2) failed)).
        split.
        * f_equal. f_equal. f_equal. f_equal.
          rewrite map_map. rewrite <- (map_id failed) at 2. apply map_ext_in. intros e He.
          destruct (Hblk e He) as [_ [_ [Hst _]]]. rewrite chg_heuristic_blk by exact Hst. reflexivity.
        * destruct R as [R1 R2]. split; [congruence|]. intros i Hi.
          rewrite R2 by (rewrite Hlen1; exact Hi).
          destruct (memn i (map fe_idx (e3 :: fm3))) eqn:Em; [reflexivity|].
          symmetry. rewrite agree_out_spec in Hag1. apply Hag1. apply memn_false. exact Em.
  Qed.
End RepairAll.
