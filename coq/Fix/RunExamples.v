(* Non-vacuity of the whole-run theorems of RunProofs.v: a two-disk, two-level, three-stripe array with two files that span
   several stripes.  Damage for fix: the file of disk 1 is deleted entirely (stripes 0 and 1) and level 1 is overwritten in
   stripe 2.  Damage for check: block 1 of the file of disk 0 silently corrupted (stripe 1), level 1 overwritten in stripe 2. *)
From Coq Require Import NArith ZArith List Bool Arith Lia.
From Snap.Array Require Import ArrayDefs SyncProofsDefs.
From Snap.Fix Require Import FixModel ScrubStep RepairProofs StripeProofs ScrubProofs FlagWalk RunProofs ScrubRun Examples.
Require Snap.Scrub.ScrubModel.
Import ListNotations.

(* disk 0: file 1, 2560 bytes = blocks 11, 12, 13 (the last one 512 bytes) at positions 0, 1, 2
   disk 1: file 2, 2048 bytes = blocks 21, 22 at positions 0, 1 *)
Definition rx_fA : cfile := mkCF 1 2560 100 0 1 false
  [mkFB SBlk 0 (x_hashf 11%N 1024%N); mkFB SBlk 1 (x_hashf 12%N 1024%N); mkFB SBlk 2 (x_hashf 13%N 512%N)].
Definition rx_fB : cfile := mkCF 2 2048 100 0 2 false [mkFB SBlk 0 (x_hashf 21%N 1024%N); mkFB SBlk 1 (x_hashf 22%N 1024%N)].
Definition rx_c : content := mkC [Some (mkCD [rx_fA] [] [] []); Some (mkCD [rx_fB] [] [] [])] [None; None; None] 3.
Definition rx_vs (p : nat) : list bid := match p with 0 => [11; 21]%N | 1 => [12; 22]%N | 2 => [13; 0]%N | _ => [] end.
Definition rx_par_ok : parity := [[PEnc [11; 21]; PEnc [12; 22]; PEnc [13; 0]]; [PEnc [11; 21]; PEnc [12; 22]; PEnc [13; 0]]]%N.
Definition rx_fs_ok : list (option fsdisk) := [Some [mkFF 1 2560 100 0 1 [11; 12; 13]%N]; Some [mkFF 2 2048 100 0 2 [21; 22]%N]].
(* the damage repaired by fix *)
Definition rx_fs : list (option fsdisk) := [Some [mkFF 1 2560 100 0 1 [11; 12; 13]%N]; Some []].
Definition rx_par : parity := [[PEnc [11; 21]; PEnc [12; 22]; PEnc [13; 0]]; [PEnc [11; 21]; PEnc [12; 22]; PJunk 7]]%N.
(* the damage located by check *)
Definition rx_fs2 : list (option fsdisk) := [Some [mkFF 1 2560 100 0 1 [11; 99; 13]%N]; Some [mkFF 2 2048 100 0 2 [21; 22]%N]].

Lemma rx_slot p j :
  slot_of rx_c p j =
  match j, p with
  | 0, 0 => SFile rx_fA 0 (mkFB SBlk 0 (x_hashf 11%N 1024%N))
  | 0, 1 => SFile rx_fA 1 (mkFB SBlk 1 (x_hashf 12%N 1024%N))
  | 0, 2 => SFile rx_fA 2 (mkFB SBlk 2 (x_hashf 13%N 512%N))
  | 1, 0 => SFile rx_fB 0 (mkFB SBlk 0 (x_hashf 21%N 1024%N))
  | 1, 1 => SFile rx_fB 1 (mkFB SBlk 1 (x_hashf 22%N 1024%N))
  | _, _ => SEmpty
  end.
Proof.
  destruct j as [|[|j]].
  - destruct p as [|[|[|p]]]; reflexivity.
  - destruct p as [|[|[|p]]]; reflexivity.
  - unfold slot_of, slots. cbn. destruct j; reflexivity.
Qed.

Ltac rx_inv H :=
  rewrite rx_slot in H;
  match type of H with match ?j with _ => _ end = _ => destruct j as [|[|?]] end;
  match type of H with match ?p with _ => _ end = _ => destruct p as [|[|[|?]]] | _ => idtac end;
  try discriminate H; inversion H; subst; clear H.

Lemma rx_geom : geom x_bs rx_c 3.
Proof.
  constructor.
  - intros p1 p2 j f1 i1 b1 f2 i2 b2 H1 H2 Hn. rx_inv H1; rx_inv H2; try discriminate Hn; split; auto; intro; lia.
  - intros p j f i b H. rx_inv H; vm_compute; split; congruence.
  - intros p j f i b H. rx_inv H; lia.
  - intros p j f i b H. rx_inv H; cbn; lia.
  - intros p j f i b H. rx_inv H.
    1-3: (exists 2, 2, (mkFB SBlk 2 (x_hashf 13%N 512%N)); split; [reflexivity | split; reflexivity]).
    1-2: (exists 1, 1, (mkFB SBlk 1 (x_hashf 22%N 1024%N)); split; [reflexivity | split; reflexivity]).
Qed.

Lemma rx_synced_array : synced_array x_hashf x_padz x_bs rx_c 3 rx_vs.
Proof.
  constructor.
  - reflexivity.
  - intros p Hp. split.
    + intro j. rewrite rx_slot. destruct j as [|[|j]]; destruct p as [|[|[|p]]]; cbn; auto.
    + exists 0. rewrite rx_slot. destruct p as [|[|[|p]]]; try reflexivity; lia.
  - exact rx_geom.
  - intros p Hp. destruct p as [|[|[|p]]]; try lia; (split; [reflexivity|]); intros j Hj; rewrite rx_slot;
      destruct j as [|[|j]]; cbn in *; try reflexivity; lia.
  - intros. unfold pad_ok, x_padz. apply orb_true_r.
Qed.

Definition rx_fix : copts := x_fix.
Definition rx_check : copts := x_check.

Lemma rx_recoverable_fix : recoverable x_hashf x_padz x_bs 2 (co_nosearch rx_fix) rx_c 3 rx_fs rx_par rx_vs.
Proof.
  constructor.
  - intros p j f i b y H Hr Hh. rx_inv H; cbn in Hr; try discriminate Hr; injection Hr as Hr; subst y; reflexivity.
  - intros p Hp e x He Hx. destruct p as [|[|[|p]]]; try lia; vm_compute in He; try contradiction; destruct He as [He|[]]; subst e;
      unfold blockcmp, x_hashf; cbn [fe_hash fe_len fe_file hval_eqb];
      unfold is_junk, JBASE in Hx; apply andb_false_iff; left; apply N.eqb_neq; cbn; lia.
  - intros p Hp l w i e Hl He Hb. destruct p as [|[|[|p]]]; try lia; vm_compute in He; try contradiction; destruct He as [He|[]]; subst e;
      (destruct l as [|[|l]]; cbn in Hl; try discriminate Hl; [| |destruct l; discriminate Hl]; injection Hl as Hl; subst w;
       (destruct i as [|[|i]]; [vm_compute in Hb; discriminate Hb | reflexivity | destruct i; vm_compute in Hb; discriminate Hb])).
  - intros p Hp i e He Hb. destruct p as [|[|[|p]]]; try lia; vm_compute in He; try contradiction; destruct He as [He|[]]; subst e;
      (destruct i as [|[|i]]; [vm_compute in Hb; discriminate Hb | reflexivity | destruct i; vm_compute in Hb; discriminate Hb]).
  - intros p Hp fsx e b He Hs. destruct p as [|[|[|p]]]; try lia; vm_compute in He; try contradiction; destruct He as [He|[]]; subst e;
      destruct (search_fetch_hash x_hashf x_bs _ fsx _ b Hs) as [f [i [Ef Eh]]]; cbn in Ef; injection Ef as Ef1 Ef2; subst f i;
      unfold x_hashf in Eh; cbn in Eh; apply N.eqb_eq in Eh; unfold x_bs in Eh; cbn; lia.
  - intros p Hp. destruct p as [|[|[|p]]]; try lia; vm_compute; lia.
Qed.

Lemma rx_no_larger : no_larger rx_c rx_fs.
Proof.
  intros p j f i b g H Hg. rx_inv H; unfold fs_find in Hg; cbn in Hg; try discriminate Hg; injection Hg as Hg; subst g; cbn; lia.
Qed.
Lemma rx_objs_ok : objs_ok rx_c [].
Proof. split; intros ob; intros; contradiction. Qed.

(* C01, whole run: every hypothesis holds ... *)
Example rx_fix_run_restores :
  let out := check_run x_hashf x_padz x_truncf x_bs 2 false x_newino 999 rx_fix rx_c rx_par rx_fs [] (seq 0 3) in
  restored 2 rx_c 3 rx_vs (r_fs (out_st out)) (r_par (out_st out))
  /\ out_fail out = false /\ r_unrec (out_st out) = 0
  /\ (forall key, fl_damaged (get_fl (r_flags (out_st out)) key) = false)
  /\ length (r_par (out_st out)) = length rx_par.
Proof.
  exact (run_fix_restores x_hashf x_padz x_truncf x_bs 2 false x_newino 999 rx_fix rx_c 3 rx_fs rx_par rx_vs []
           x_plain_fix eq_refl rx_synced_array eq_refl (le_n 2) rx_no_larger rx_recoverable_fix rx_objs_ok).
Qed.
(* ... and the run computed agrees: both blocks of the deleted file are back with the recorded time-stamp, the overwritten
   parity block is rewritten, nothing is unrecoverable, exit status 0 *)
Example rx_fix_run_computed :
  let out := check_run x_hashf x_padz x_truncf x_bs 2 false x_newino 999 rx_fix rx_c rx_par rx_fs [] (seq 0 3) in
  r_fs (out_st out) = [Some [mkFF 1 2560 100 0 1 [11; 12; 13]%N]; Some [mkFF 2 2048 100 0 902 [21; 22]%N]]
  /\ r_par (out_st out) = rx_par_ok /\ out_fail out = false /\ r_unrec (out_st out) = 0 /\ r_rec (out_st out) = 3.
Proof. vm_compute. repeat split; reflexivity. Qed.


(* the time-stamps: the two files of the example have no twin on their disk *)
Lemma rx_uniq j f p i b : slot_of rx_c p j = SFile f i b -> uniq_stamp rx_c j f.
Proof.
  intros H d h Hd Hin _ _ _. rx_inv H; cbn in Hd; injection Hd as Hd; subst d; destruct Hin as [E|[]]; subst h; reflexivity.
Qed.
Example rx_fix_run_stamps :
  let out := check_run x_hashf x_padz x_truncf x_bs 2 false x_newino 999 rx_fix rx_c rx_par rx_fs [] (seq 0 3) in
  forall p j f i b, slot_of rx_c p j = SFile f i b ->
    exists g, fs_find (r_fs (out_st out)) j (cf_name f) = Some g
              /\ ((ff_mtime g = cf_mtime f /\ ff_nsec g = cf_nsec f) \/ fs_find rx_fs j (cf_name f) = Some g).
Proof.
  cbn zeta. intros p j f i b H.
  apply (run_fix_stamps x_hashf x_padz x_truncf x_bs 2 false x_newino 999 rx_fix rx_c 3 rx_fs rx_par rx_vs []
           x_plain_fix eq_refl rx_synced_array eq_refl (le_n 2) rx_no_larger rx_recoverable_fix rx_objs_ok p j f i b H (rx_uniq j f p i b H)).
Qed.

(* ... and a following check is quiet *)
Example rx_fix_then_check_quiet :
  let out := check_run x_hashf x_padz x_truncf x_bs 2 false x_newino 999 rx_fix rx_c rx_par rx_fs [] (seq 0 3) in
  let out' := check_run x_hashf x_padz x_truncf x_bs 2 false x_newino 999 rx_check rx_c (r_par (out_st out)) (r_fs (out_st out)) [] (seq 0 3) in
  r_tags (out_st out') = [] /\ r_err (out_st out') = 0 /\ r_unrec (out_st out') = 0 /\ out_fail out' = false
  /\ r_fs (out_st out') = r_fs (out_st out) /\ r_par (out_st out') = r_par (out_st out).
Proof.
  apply (run_fix_then_check_quiet x_hashf x_padz x_truncf x_bs 2 false x_newino 999 rx_fix rx_check rx_c 3 rx_fs rx_par rx_vs [] []
           x_plain_fix eq_refl rx_synced_array eq_refl (le_n 2) rx_no_larger rx_recoverable_fix rx_objs_ok x_plain_check eq_refl).
  intros ob [].
Qed.

(* C04, whole run, check mode *)
Lemma rx_recoverable_check : recoverable x_hashf x_padz x_bs 2 (co_nosearch rx_check) rx_c 3 rx_fs2 rx_par rx_vs.
Proof.
  constructor.
  - intros p j f i b y H Hr Hh. rx_inv H; cbn in Hr; try discriminate Hr; injection Hr as Hr; subst y; try reflexivity.
    vm_compute in Hh. discriminate Hh.
  - intros p Hp e x He Hx. destruct p as [|[|[|p]]]; try lia; vm_compute in He; try contradiction; destruct He as [He|[]]; subst e;
      unfold blockcmp, x_hashf; cbn [fe_hash fe_len fe_file hval_eqb];
      unfold is_junk, JBASE in Hx; apply andb_false_iff; left; apply N.eqb_neq; cbn; lia.
  - intros p Hp l w i e Hl He Hb. destruct p as [|[|[|p]]]; try lia; vm_compute in He; try contradiction; destruct He as [He|[]]; subst e;
      (destruct l as [|[|l]]; cbn in Hl; try discriminate Hl; [| |destruct l; discriminate Hl]; injection Hl as Hl; subst w;
       (destruct i as [|[|i]]; [reflexivity | vm_compute in Hb; discriminate Hb | destruct i; vm_compute in Hb; discriminate Hb])).
  - intros p Hp i e He Hb. destruct p as [|[|[|p]]]; try lia; vm_compute in He; try contradiction; destruct He as [He|[]]; subst e;
      (destruct i as [|[|i]]; [reflexivity | vm_compute in Hb; discriminate Hb | destruct i; vm_compute in Hb; discriminate Hb]).
  - intros p Hp fsx e b He Hs. destruct p as [|[|[|p]]]; try lia; vm_compute in He; try contradiction; destruct He as [He|[]]; subst e;
      destruct (search_fetch_hash x_hashf x_bs _ fsx _ b Hs) as [f [i [Ef Eh]]]; cbn in Ef; injection Ef as Ef1 Ef2; subst f i;
      unfold x_hashf in Eh; cbn in Eh; apply N.eqb_eq in Eh; unfold x_bs in Eh; cbn; lia.
  - intros p Hp. destruct p as [|[|[|p]]]; try lia; vm_compute; lia.
Qed.
Lemma rx_no_larger2 : no_larger rx_c rx_fs2.
Proof.
  intros p j f i b g H Hg. rx_inv H; unfold fs_find in Hg; cbn in Hg; try discriminate Hg; injection Hg as Hg; subst g; cbn; lia.
Qed.

Example rx_check_run_exact :
  let out := check_run x_hashf x_padz x_truncf x_bs 2 false x_newino 999 rx_check rx_c rx_par rx_fs2 [] (seq 0 3) in
  let expected := flat_map (located_of x_hashf x_bs 2 rx_check rx_c rx_fs2 rx_par rx_vs) (seq 0 3) in
  filter is_located (r_tags (out_st out)) = expected
  /\ r_err (out_st out) = length expected /\ r_unrec (out_st out) = 0 /\ (out_fail out = true <-> expected <> [])
  /\ r_fs (out_st out) = rx_fs2 /\ r_par (out_st out) = rx_par.
Proof.
  apply (run_check_exact x_hashf x_padz x_truncf x_bs 2 false x_newino 999 rx_check rx_c 3 rx_fs2 rx_par rx_vs []
           x_plain_check eq_refl rx_synced_array eq_refl rx_no_larger2 rx_recoverable_check).
  intros ob [].
Qed.
(* the expected list is: one data error (stripe 1, disk 0, file 1, block 1), one parity error (stripe 2, level 1); the run
   computed emits exactly these two located tags (plus parity_error:...:mismatch try lines and status:recoverable), exit 1 *)
Example rx_check_run_computed :
  let out := check_run x_hashf x_padz x_truncf x_bs 2 false x_newino 999 rx_check rx_c rx_par rx_fs2 [] (seq 0 3) in
  flat_map (located_of x_hashf x_bs 2 rx_check rx_c rx_fs2 rx_par rx_vs) (seq 0 3) = [(K_ERR_DATA, [1; 0; 1; 1]%N); (K_PAR_DATA, [2; 1]%N)]
  /\ filter is_located (r_tags (out_st out)) = [(K_ERR_DATA, [1; 0; 1; 1]%N); (K_PAR_DATA, [2; 1]%N)]
  /\ out_fail out = true /\ r_err (out_st out) = 2.
Proof. vm_compute. repeat split; reflexivity. Qed.

(* the same for the damage repaired above (a file deleted entirely, a level overwritten elsewhere): check reports an open error
   for each of the two blocks of the deleted file and the overwritten parity block, and nothing else *)
Example rx_check_run_exact_deleted :
  let out := check_run x_hashf x_padz x_truncf x_bs 2 false x_newino 999 rx_check rx_c rx_par rx_fs [] (seq 0 3) in
  let expected := flat_map (located_of x_hashf x_bs 2 rx_check rx_c rx_fs rx_par rx_vs) (seq 0 3) in
  filter is_located (r_tags (out_st out)) = expected
  /\ r_err (out_st out) = length expected /\ r_unrec (out_st out) = 0 /\ (out_fail out = true <-> expected <> [])
  /\ r_fs (out_st out) = rx_fs /\ r_par (out_st out) = rx_par.
Proof.
  apply (run_check_exact x_hashf x_padz x_truncf x_bs 2 false x_newino 999 rx_check rx_c 3 rx_fs rx_par rx_vs []
           x_plain_check eq_refl rx_synced_array eq_refl rx_no_larger rx_recoverable_fix).
  intros ob [].
Qed.
Example rx_check_run_computed_deleted :
  let out := check_run x_hashf x_padz x_truncf x_bs 2 false x_newino 999 rx_check rx_c rx_par rx_fs [] (seq 0 3) in
  filter is_located (r_tags (out_st out)) = [(K_ERR_OPEN, [0; 1; 2; 0]%N); (K_ERR_OPEN, [1; 1; 2; 1]%N); (K_PAR_DATA, [2; 1]%N)]
  /\ flat_map (located_of x_hashf x_bs 2 rx_check rx_c rx_fs rx_par rx_vs) (seq 0 3)
     = [(K_ERR_OPEN, [0; 1; 2; 0]%N); (K_ERR_OPEN, [1; 1; 2; 1]%N); (K_PAR_DATA, [2; 1]%N)]
  /\ out_fail out = true /\ r_err (out_st out) = 3.
Proof. vm_compute. repeat split; reflexivity. Qed.

(* an array without any block (blockmax = 0) whose only entry, an empty file, is missing: fix recreates it (the case repaired
   by 1f26379), every hypothesis of the run theorems holds trivially *)
Definition rx_c0 : content := mkC [Some (mkCD [mkCF 5 0 100 0 7 false []] [] [] [])] [] 0.
Definition rx_ob0 : obj := mkObj 0 KEmpty 5 0 OBad false.
Lemma rx_slot0 p j : slot_of rx_c0 p j = SEmpty.
Proof. destruct j as [|j]; [reflexivity|]. unfold slot_of, slots. cbn. destruct j; reflexivity. Qed.
Example rx_fix_no_blocks :
  let out := check_run x_hashf x_padz x_truncf x_bs 2 false x_newino 999 rx_fix rx_c0 [[]; []] [Some []] [rx_ob0] (seq 0 0) in
  obj_good (r_fs (out_st out)) rx_ob0 /\ out_fail out = false.
Proof.
  split; [|vm_compute; reflexivity].
  apply (run_fix_objects x_hashf x_padz x_truncf x_bs 2 false x_newino 999 rx_fix rx_c0 0 [Some []] [[]; []] (fun _ => []) [rx_ob0] x_plain_fix eq_refl).
  - constructor; try reflexivity; try (intros; lia); try (intros p j f i b H; rewrite rx_slot0 in H; discriminate H).
    constructor; intros p; intros; match goal with H : slot_of _ _ _ = SFile _ _ _ |- _ => rewrite rx_slot0 in H; discriminate H end.
  - reflexivity.
  - cbn. lia.
  - intros p j f i b g H. rewrite rx_slot0 in H. discriminate H.
  - constructor; try (intros; lia). intros p j f i b y H. rewrite rx_slot0 in H. discriminate H.
  - split; [intros ob p f i b _ H; rewrite rx_slot0 in H; discriminate H | intros ob [E|[]] H; subst ob; discriminate H].
  - intros ob [E|[]]. subst ob. cbn. lia.
  - cbn. constructor; [intros [] | constructor].
  - left. reflexivity.
  - left. reflexivity.
Qed.

(* C04, whole scrub plan: the silent corruption of rx_fs2 and the overwritten parity block *)
Lemma rx_sc_ok p : p < 3 -> sc_ok x_bs 2 rx_c rx_par rx_fs2 p.
Proof.
  intro Hp. split; [apply (sa_syn _ _ _ _ _ _ rx_synced_array p Hp)|]. split.
  - intros j f idx b H. rx_inv H; eexists; (split; [reflexivity|]); cbn; repeat split; try reflexivity; vm_compute; congruence.
  - intros l Hl. destruct p as [|[|[|p]]]; try lia; destruct l as [|[|l]]; try lia; vm_compute; discriminate.
Qed.
Example rx_scrub_run_exact :
  let r := scrub_run x_hashf x_bs 2 100 rx_c rx_par rx_fs2 (seq 0 3) in
  sr_bailed r = false
  /\ sr_tags r = flat_map (sc_tags x_hashf x_bs 2 rx_c rx_par rx_fs2) (seq 0 3)
  /\ sr_bad r = filter (sc_bad x_hashf x_bs 2 rx_c rx_par rx_fs2) (seq 0 3)
  /\ sr_refreshed r = filter (fun p => negb (sc_bad x_hashf x_bs 2 rx_c rx_par rx_fs2 p)) (seq 0 3)
  /\ ScrubModel.c_error (sr_cnt r) = 0%N /\ ScrubModel.c_io (sr_cnt r) = 0%N
  /\ ScrubModel.c_silent (sr_cnt r) = fold_right (fun p a => (sc_silent x_hashf x_bs 2 rx_c rx_par rx_fs2 p + a)%N) 0%N (seq 0 3)
  /\ (scrub_fails r = true <-> exists p, In p (seq 0 3) /\ sc_bad x_hashf x_bs 2 rx_c rx_par rx_fs2 p = true).
Proof.
  apply (scrub_run_exact x_hashf x_bs 2 100 rx_c rx_par rx_fs2 (seq 0 3)).
  intros p Hp. apply rx_sc_ok. apply in_seq in Hp. lia.
Qed.
Example rx_scrub_run_computed :
  let r := scrub_run x_hashf x_bs 2 100 rx_c rx_par rx_fs2 (seq 0 3) in
  sr_tags r = [(K_SC_DATA, [1; 0; 1; 1]%N); (K_SC_PAR_DATA, [2; 1]%N)] /\ sr_bad r = [1; 2] /\ sr_refreshed r = [0] /\ scrub_fails r = true.
Proof. vm_compute. repeat split; reflexivity. Qed.

(* a file that grew (2048 bytes for 1024 recorded, newer time-stamp): outside `no_larger`, hence outside run_fix_restores, but
   handled by the tool and by the model (finding F-C01-grown-file-mtime-not-restored, repaired by 993feac): fix cuts it back to
   its recorded size and content (error: Size error / fixed: Fixed size), flags it FIXED (open_larger_fix), reports it recovered
   and gives it its recorded time-stamp back (file_post_at); exit status 0, and a following check says nothing *)
Example rx_grown_file_restored :
  let fs := [Some [mkFF 1 2048 200 0 1 [11; 55]%N]; Some [mkFF 2 1024 100 0 2 [12]%N]] in
  let out := check_run x_hashf x_padz x_truncf x_bs 2 false x_newino 999 x_fix x_c x_par_ok fs [] (seq 0 1) in
  let out' := check_run x_hashf x_padz x_truncf x_bs 2 false x_newino 999 x_check x_c (r_par (out_st out)) (r_fs (out_st out)) [] (seq 0 1) in
  ~ no_larger x_c fs
  /\ r_fs (out_st out) = x_fs_ok /\ r_par (out_st out) = x_par_ok
  /\ r_tags (out_st out) = [(K_ERR_SIZE, [0; 0; 1]%N); (K_FIXED_SIZE, [0; 0; 1]%N); (K_ST_RECOVERED, [0; 1]%N)]
  /\ out_fail out = false /\ r_err (out_st out) = 1 /\ r_rec (out_st out) = 1 /\ r_unrec (out_st out) = 0
  /\ r_tags (out_st out') = [] /\ out_fail out' = false.
Proof.
  cbn zeta. split.
  - intro H. specialize (H 0 0 x_f1 0 (mkFB SBlk 0 (x_hashf 11%N 1024%N)) (mkFF 1 2048 200 0 1 [11; 55]%N) eq_refl eq_refl). cbn in H. lia.
  - vm_compute. repeat split; reflexivity.
Qed.
(* check mode: the grown file gives exactly one Size error, nothing is touched *)
Example rx_grown_file_check :
  let fs := [Some [mkFF 1 2048 200 0 1 [11; 55]%N]; Some [mkFF 2 1024 100 0 2 [12]%N]] in
  let out := check_run x_hashf x_padz x_truncf x_bs 2 false x_newino 999 x_check x_c x_par_ok fs [] (seq 0 1) in
  r_tags (out_st out) = [(K_ERR_SIZE, [0; 0; 1]%N)] /\ out_fail out = true /\ r_err (out_st out) = 1 /\ r_fs (out_st out) = fs.
Proof. vm_compute. repeat split; reflexivity. Qed.

(* why `recoverable` stays a hypothesis of run_check_exact: check.c compares the parity with the data only after the data of the
   stripe has been repaired in memory.  Stripe 0 with BOTH data blocks damaged and level 1 overwritten is unrecoverable: check
   reports the two data errors, a recovery attempt (parity_error:0:0/1:...: mismatch) and two `unrecoverable` lines, but NOT
   the Data error of level 1 at stripe 0 that located_of lists; the other stripes are reported as usual *)
Definition rx_fs3 : list (option fsdisk) := [Some [mkFF 1 2560 100 0 1 [99; 12; 13]%N]; Some []].
Definition rx_par3 : parity := [[PEnc [11; 21]; PEnc [12; 22]; PEnc [13; 0]]; [PJunk 7; PEnc [12; 22]; PEnc [13; 0]]]%N.
Example rx_unrecoverable_stripe_no_parity_error :
  let out := check_run x_hashf x_padz x_truncf x_bs 2 false x_newino 999 rx_check rx_c rx_par3 rx_fs3 [] (seq 0 3) in
  flat_map (located_of x_hashf x_bs 2 rx_check rx_c rx_fs3 rx_par3 rx_vs) (seq 0 3)
  = [(K_ERR_DATA, [0; 0; 1; 0]%N); (K_ERR_OPEN, [0; 1; 2; 0]%N); (K_PAR_DATA, [0; 1]%N); (K_ERR_OPEN, [1; 1; 2; 1]%N)]
  /\ filter is_located (r_tags (out_st out)) = [(K_ERR_DATA, [0; 0; 1; 0]%N); (K_ERR_OPEN, [0; 1; 2; 0]%N); (K_ERR_OPEN, [1; 1; 2; 1]%N)]
  /\ r_unrec (out_st out) = 1 /\ out_fail out = true
  /\ ~ (length (filter (is_bad x_hashf x_bs rx_c 0 (st0 rx_fs3 rx_par3)) (seq 0 2))
        <= length (filter (good_level (rx_vs 0) (map (prow rx_par3 0) (seq 0 2))) (seq 0 2))).
Proof. vm_compute. repeat split; try reflexivity. intro H. lia. Qed.

(* OPEN finding F-C05-fix-start-range-recovers-file-with-hole: fix over the positions 1, 2 only (`fix -S 1`) on the array rx_c with
   file 1 (blocks 11 12 13 at positions 0 1 2) missing: the file is created at position 1, blocks 1 and 2 are rebuilt, its LAST
   block lies in the range, so it is FINISHED and FIXED: reported recovered, recorded time-stamp restored, exit status 0 -- with
   block 0 never written: the zero block (id 0) instead of the recorded block 11 *)
Example rx_fix_start_range_hole :
  let fs := [Some []; Some [mkFF 2 2048 100 0 2 [21; 22]%N]] in
  let out := check_run x_hashf x_padz x_truncf x_bs 2 false x_newino 999 rx_fix rx_c rx_par_ok fs [] [1; 2] in
  fs_find (r_fs (out_st out)) 0 1 = Some (mkFF 1 2560 100 0 901 [0; 12; 13]%N)
  /\ In (K_ST_RECOVERED, [0; 1]%N) (r_tags (out_st out))
  /\ out_fail out = false /\ r_unrec (out_st out) = 0
  /\ nth 0 [0; 12; 13]%N 0%N <> vnth (rx_vs 0) 0.
Proof. vm_compute. repeat split; try reflexivity; [auto 10 | discriminate]. Qed.
