(* The whole run: check_run of FixModel.v (the loop of stripe_step over all positions, then the empty files / links / dirs,
   then the clean-up and the exit status), lifted from the per-stripe theorems of StripeProofs.v. *)
From Coq Require Import NArith ZArith List Bool Arith Lia.
From Snap.Array Require Import ArrayDefs SyncProofsDefs.
From Snap.Fix Require Import FixModel RepairProofs StripeProofs FlagWalk.
Import ListNotations.
Local Opaque JBASE.

(* ---------------------------------------------------------------------------------------------------------- *)
(* small facts                                                                                                  *)
(* ---------------------------------------------------------------------------------------------------------- *)
Lemma block_len_le bs size idx : (block_len bs size idx <= bs)%N.
Proof.
  unfold block_len. destruct (N.succ (N.of_nat idx) * bs <=? size)%N eqn:E; [lia|].
  apply N.leb_gt in E. lia.
Qed.

Lemma fsz_some fs j n g : fs_find fs j n = Some g -> fsz fs j n = ff_size g.
Proof. intro H. unfold fsz. rewrite H. reflexivity. Qed.
Lemma fblk_some fs j n g i : fs_find fs j n = Some g -> fblk fs j n i = nth i (ff_blocks g) 0%N.
Proof. intro H. unfold fblk. rewrite H. reflexivity. Qed.

(* handle_read in terms of the size and the blocks of the file *)
Lemma read_block_fsz bs s j f idx :
  (0 < block_len bs (cf_size f) idx)%N ->
  read_block bs s j f idx
  = if (fsz (r_fs s) j (cf_name f) <? N.of_nat idx * bs + block_len bs (cf_size f) idx)%N then None
    else Some (fblk (r_fs s) j (cf_name f) idx).
Proof.
  intro H. unfold read_block, fsz, fblk. destruct (fs_find (r_fs s) j (cf_name f)); [reflexivity|].
  assert (E : (0 <? N.of_nat idx * bs + block_len bs (cf_size f) idx)%N = true) by (apply N.ltb_lt; lia).
  rewrite E. reflexivity.
Qed.

Lemma same_data_fsz' fs fs' j n : same_data (fs_find fs' j n) (fs_find fs j n) -> fsz fs' j n = fsz fs j n /\ forall i, fblk fs' j n i = fblk fs j n i.
Proof. unfold fsz, fblk. destruct (fs_find fs' j n), (fs_find fs j n); cbn; try tauto. intros [A B]. rewrite A, B. auto. Qed.

Lemma flat_map_ext_in2 {A B} (f g : A -> list B) l : (forall a, In a l -> f a = g a) -> flat_map f l = flat_map g l.
Proof.
  induction l as [|x t IH]; intro H; [reflexivity|]. cbn. rewrite (H x (or_introl eq_refl)). f_equal. apply IH. intros a Ha. apply H. right. exact Ha.
Qed.
Lemma filter_ext_in2 {A} (f g : A -> bool) l : (forall a, In a l -> f a = g a) -> filter f l = filter g l.
Proof.
  induction l as [|x t IH]; intro H; [reflexivity|]. cbn. rewrite (H x (or_introl eq_refl)). rewrite IH; [reflexivity|]. intros a Ha. apply H. right. exact Ha.
Qed.

(* ---------------------------------------------------------------------------------------------------------- *)
(* the shape of the content file that the run relies on (all consequences of C06's MapOK + distinct file names)  *)
(* ---------------------------------------------------------------------------------------------------------- *)
Record geom (bs : N) (c : content) (bm : nat) : Prop := {
  (* two slots of one disk that name the same file are blocks of that one file, in the order of their positions *)
  g_same : forall p1 p2 j f1 i1 b1 f2 i2 b2,
      slot_of c p1 j = SFile f1 i1 b1 -> slot_of c p2 j = SFile f2 i2 b2 -> cf_name f1 = cf_name f2 ->
      f1 = f2 /\ (p1 < p2 -> i1 < i2);
  (* a mapped block is a real block of its file *)
  g_wf : forall p j f i b, slot_of c p j = SFile f i b ->
      (0 < block_len bs (cf_size f) i)%N /\ (N.of_nat i * bs + block_len bs (cf_size f) i <= cf_size f)%N;
  (* nothing is mapped beyond the allocated size *)
  g_bm : forall p j f i b, slot_of c p j = SFile f i b -> p < bm;
  (* the index of a mapped block is an index of the block list of the file *)
  g_idx : forall p j f i b, slot_of c p j = SFile f i b -> i < length (cf_blocks f);
  (* the last block of every mapped file is mapped too, and ends at the recorded size *)
  g_last : forall p j f i b, slot_of c p j = SFile f i b ->
      exists p' i' b', slot_of c p' j = SFile f i' b' /\ S i' = length (cf_blocks f)
                       /\ (N.of_nat i' * bs + block_len bs (cf_size f) i' = cf_size f)%N
}.

Lemma fs_find_put_mk fs j nm sz mt ns ino bl :
  j < length fs -> fs_find (fs_put fs j (mkFF nm sz mt ns ino bl)) j nm = Some (mkFF nm sz mt ns ino bl).
Proof. intro H. apply (fs_find_put_same fs j (mkFF nm sz mt ns ino bl) H). Qed.

Lemma get_fl_in (fl : flags) k f : NoDup (map fst fl) -> In (k, f) fl -> get_fl fl k = f.
Proof.
  unfold get_fl. induction fl as [|[k0 f0] t IH]; intros Hnd Hin; [contradiction|]. cbn [find fst].
  cbn [map fst] in Hnd. apply NoDup_cons_iff in Hnd. destruct Hnd as [Hnin Hnd].
  destruct Hin as [E|Hin].
  - injection E as E1 E2. subst k0 f0. rewrite fkey_eqb_refl. reflexivity.
  - destruct (fkey_eqb k0 k) eqn:E.
    + apply fkey_eqb_eq in E. subst k0. exfalso. apply Hnin. apply in_map_iff. exists (k, f). auto.
    + apply IH; assumption.
Qed.


(* the array holds what the content file records: every file that has blocks exists with its recorded size and every one of
   its blocks is the recorded block (vs p = the recorded vector of stripe p); every parity row encodes the recorded vector *)
Definition restored (nlev : nat) (c : content) (bm : nat) (vs : nat -> list bid) (fs : list (option fsdisk)) (par : parity) : Prop :=
  length fs = length (c_disks c)
  /\ (forall p j f i b, slot_of c p j = SFile f i b ->
        exists g, fs_find fs j (cf_name f) = Some g /\ ff_size g = cf_size f /\ nth i (ff_blocks g) 0%N = vnth (vs p) j)
  /\ (forall p l, p < bm -> l < nlev -> par_matches (vs p) (prow par p l) = true).

Section Run.
  Variable hashf : bid -> N -> hval.
  Variable padz : bid -> N -> bool.
  Variable truncf : bid -> N -> bid.
  Variable bs : N.
  Variable nlev : nat.
  Variable reduced : bool.
  Variable newino : nat -> N -> N.
  Variable now : Z.

  Notation stripe_step := (stripe_step hashf padz truncf bs nlev reduced newino now).

  Lemma block_enabled_plain o c pos : plain nlev o -> stripe_synced c pos -> block_enabled nlev o c pos = true.
  Proof.
    intros Hp [_ [j Hj]]. unfold block_enabled. rewrite (pl_badfile nlev o Hp).
    apply orb_true_iff. right. apply existsb_exists. exists j.
    assert (Hjn : j < length (c_disks c)).
    { destruct (Nat.lt_ge_cases j (length (c_disks c))) as [H|H]; [exact H|]. rewrite slot_of_out in Hj by exact H. discriminate. }
    split; [apply in_seq; lia|]. rewrite slot_of_nth in Hj.
    destruct (nth j (c_disks c) None) as [d|]; [|discriminate]. destruct (slot_at d pos); try discriminate.
    rewrite (plain_not_excl nlev o j _ Hp). reflexivity.
  Qed.

  (* fix: the file whose last block lies in this stripe is FINISHED after the step *)
  Lemma fin_last o c fs0 s pos j f idx b :
    plain nlev o -> co_fix o = true -> slot_of c pos j = SFile f idx b -> S idx = length (cf_blocks f) ->
    fl_finished (get_fl (r_flags (stripe_step o c fs0 s pos)) (j, cf_name f)) = true.
  Proof.
    intros Hp Hf Hs Hl. unfold FixModel.stripe_step. cbv zeta.
    match goal with |- context [fold_left (file_post o c pos) (seq 0 ?n) ?s2] => generalize s2 end. intro s2.
    assert (Hj : j < length (c_disks c)).
    { destruct (Nat.lt_ge_cases j (length (c_disks c))) as [H|H]; [exact H|]. rewrite slot_of_out in Hs by exact H. discriminate. }
    replace (length (c_disks c)) with (j + S (length (c_disks c) - S j)) by lia.
    rewrite seq_app, fold_left_app. cbn [seq fold_left plus].
    set (st := fold_left (file_post o c pos) (seq 0 j) s2).
    assert (X : fl_finished (get_fl (r_flags (file_post o c pos st j)) (j, cf_name f)) = true).
    { unfold file_post. rewrite slot_of_nth in Hs. destruct (nth j (c_disks c) None) as [d|]; [|discriminate]. rewrite Hs.
      rewrite <- Hl, Nat.eqb_refl. cbn [negb]. rewrite (plain_not_excl nlev o j _ Hp), (pl_synced nlev o Hp). cbn [orb andb]. rewrite Hf.
      destruct (fl_damaged _); [cbn; rewrite get_set_same; reflexivity|]. destruct (negb (fl_fixed _)); [cbn; rewrite get_set_same; reflexivity|].
      cbv zeta. match goal with |- context [match ?x with Some _ => _ | None => _ end] => destruct x end; [|cbn; rewrite get_set_same; reflexivity].
      match goal with |- context [if ?b then _ else _] => destruct b end; cbn; rewrite get_set_same; reflexivity. }
    pose proof (fold_R (Rfl c pos) (Rfl_trans c pos) (fun s => Rfl_eq c pos s s eq_refl) (file_post o c pos)
                  (file_post_Rfl o c pos)
                  (seq (S j) (length (c_disks c) - S j)) (file_post o c pos st j)) as [_ [M _]].
    apply M. exact X.
  Qed.

  Lemma cleanup_noop o s : (forall k f, In (k, f) (r_flags s) -> fl_created f && negb (fl_finished f) = false) -> cleanup o s = s.
  Proof.
    intro H. unfold cleanup. destruct (co_fix o); [|reflexivity].
    generalize (r_flags s) H. intro l. generalize s. induction l as [|[k f] t IH]; intros st Hl; [reflexivity|].
    cbn [fold_left]. rewrite (Hl k f (or_introl eq_refl)). apply IH. intros k' f' Hin. apply (Hl k' f'). right. exact Hin.
  Qed.

  Lemma check_run_unfold o c par fs objs bm : c_blockmax c = bm ->
    check_run hashf padz truncf bs nlev reduced newino now o c par fs objs (seq 0 bm)
    = let s0 := mkRS fs [] par 0 0 0 [] 0%N in
      let s1 := fold_left (fun s pos => if block_enabled nlev o c pos then stripe_step o c fs s pos else s) (seq 0 bm) s0 in
      let s2 := fold_left (obj_step newino now o c) objs s1 in
      let s3 := cleanup o s2 in
      mkOut s3 (if co_fix o then negb (Nat.eqb (r_unrec s3) 0) else negb (Nat.eqb (r_err s3) 0) || negb (Nat.eqb (r_unrec s3) 0)).
  Proof. intro H. unfold check_run. rewrite H. destruct bm; reflexivity. Qed.

  (* ---- an undamaged array: check says nothing ------------------------------------------------------------------------ *)
  (* an empty file / link / dir that is in order *)
  Definition obj_good (fs : list (option fsdisk)) (ob : obj) : Prop :=
    ob_excl ob = true \/
    match ob_kind ob with
    | KEmpty => exists g, fs_find fs (ob_disk ob) (ob_name ob) = Some g /\ ff_size g = 0%N
    | KHard => exists l t, fs_find fs (ob_disk ob) (ob_name ob) = Some l /\ fs_find fs (ob_disk ob) (ob_to ob) = Some t /\ ff_inode l = ff_inode t
    | KSym | KDir => ob_stat ob = OOk
    end.
  Lemma obj_good_step o c s ob : obj_good (r_fs s) ob -> obj_step newino now o c s ob = s.
  Proof.
    intros [H|H]; unfold obj_step; [rewrite H; reflexivity|]. destruct (ob_excl ob); [reflexivity|].
    destruct (ob_kind ob).
    - destruct H as [g [H1 H2]]. rewrite H1, H2. reflexivity.
    - destruct H as [l [t [H1 [H2 H3]]]]. rewrite H1, H2, H3, N.eqb_refl. cbn. rewrite andb_false_r. reflexivity.
    - rewrite H. reflexivity.
    - rewrite H. reflexivity.
  Qed.

  Lemma par_matches_veq2 x y p : veq x y = true -> par_matches x p = par_matches y p.
  Proof.
    intro H. destruct p as [w|t|]; cbn; try reflexivity.
    destruct (veq x w) eqn:E1, (veq y w) eqn:E2; try reflexivity.
    - rewrite (veq_trans y x w (veq_sym _ _ H) E1) in E2. discriminate.
    - rewrite (veq_trans x y w H E2) in E1. discriminate.
  Qed.

  Section QuietLoop.
    Variable o : copts.
    Variable c : content.
    Variable bm : nat.
    Variable fs : list (option fsdisk).
    Variable par : parity.
    Variable vs : nat -> list bid.
    Hypothesis Hplain : plain nlev o.
    Hypothesis Hcheck : co_fix o = false.
    Hypothesis Hsyn : forall p, p < bm -> stripe_synced c p.
    Hypothesis Hgeom : geom bs c bm.
    Hypothesis Henc : forall p, p < bm -> enc_ok hashf bs c p (vs p).
    Hypothesis Hres : restored nlev c bm vs fs par.

    Record qinv (s : rstate) : Prop := {
      q_fs : r_fs s = fs; q_par : r_par s = par; q_tags : r_tags s = []; q_err : r_err s = 0; q_rec : r_rec s = 0; q_unrec : r_unrec s = 0;
      q_df : forall k, fl_damaged (get_fl (r_flags s) k) = false /\ fl_fixed (get_fl (r_flags s) k) = false;
      q_miss : forall p j f i b, slot_of c p j = SFile f i b -> fl_missing (get_fl (r_flags s) (j, cf_name f)) = false }.

    Lemma qinv_step s k : qinv s -> k < bm -> qinv (stripe_step o c fs s k).
    Proof.
      intros [Qfs Qpar Qtags Qerr Qrec Qunrec Qdf Qmiss] Hk. destruct Hres as [Rlen [Rfiles Rpar]].
      destruct (Henc k Hk) as [Hvlen Hvenc].
      assert (Hrd : forall j f idx b, slot_of c k j = SFile f idx b -> read_block bs s j f idx = Some (vnth (vs k) j)).
      { intros j f idx b Es. destruct (Rfiles k j f idx b Es) as [g [Hg [Hsz Hb]]].
        destruct (g_wf bs c bm Hgeom k j f idx b Es) as [_ Hw].
        unfold read_block. rewrite Qfs, Hg.
        assert (E : (ff_size g <? N.of_nat idx * bs + block_len bs (cf_size f) idx)%N = false) by (apply N.ltb_ge; lia).
        rewrite E, Hb. reflexivity. }
      assert (Hbv : forall j, j < length (c_disks c) -> bufval bs c k s j = vnth (vs k) j).
      { intros j Hj. unfold bufval. specialize (Hvenc j Hj).
        destruct (slot_of c k j) as [|f idx b|h] eqn:Es.
        - cbn in Hvenc. symmetry. exact Hvenc.
        - rewrite (Hrd j f idx b Es). reflexivity.
        - destruct (Hsyn k Hk) as [Hs _]. specialize (Hs j). rewrite Es in Hs. contradiction. }
      destruct (check_step_quiet_full hashf padz truncf bs nlev reduced newino now o c fs k s Hplain Hcheck (Hsyn k Hk))
        as [T1 [T2 [T3 [T4 [T5 [T6 T7]]]]]].
      - rewrite Qfs. exact Rlen.
      - intros j f idx b Es. split; [apply (g_wf bs c bm Hgeom k j f idx b Es)|]. split.
        + intros g Hg. destruct (Rfiles k j f idx b Es) as [g' [Hg' [Hsz _]]]. rewrite Qfs, Hg' in Hg. injection Hg as Hg. subst g'. lia.
        + right. left. apply (Qmiss k j f idx b Es).
      - intro j. unfold is_bad. destruct (slot_of c k j) as [|f idx b|h] eqn:Es; try reflexivity.
        rewrite (Hrd j f idx b Es). unfold hash_ok.
        assert (Hj : j < length (c_disks c)) by (destruct (Nat.lt_ge_cases j (length (c_disks c))) as [H|H]; [exact H | rewrite slot_of_out in Es by exact H; discriminate]).
        specialize (Hvenc j Hj). rewrite Es in Hvenc. cbn in Hvenc. unfold vnth. rewrite Hvenc, hval_eqb_refl. reflexivity.
      - intros l Hl. rewrite Qpar. rewrite <- (Rpar k l Hk Hl). apply par_matches_veq2. apply veq_spec. intro i.
        destruct (Nat.lt_ge_cases i (length (c_disks c))) as [H|H].
        + unfold vnth at 1. rewrite nth_map_seq by exact H. apply Hbv. exact H.
        + rewrite !vnth_out; [reflexivity | lia | rewrite map_length, seq_length; exact H].
      - intros j f idx b _. apply Qdf.
      - destruct (stripe_step_Rchk hashf padz truncf bs nlev reduced newino now o c k fs s Hcheck) as [_ [_ M]].
        set (s' := stripe_step o c fs s k) in *.
        constructor; try congruence.
        + intro key. destruct (T7 key) as [D1 D2]. rewrite D1, D2. apply Qdf.
        + intros p j f i b Es. destruct (fl_missing (get_fl (r_flags s') (j, cf_name f))) eqn:Em; [|reflexivity].
          destruct (M _ Em) as [X|X].
          * rewrite (Qmiss p j f i b Es) in X. discriminate.
          * cbn [fst snd] in X. destruct (Rfiles p j f i b Es) as [g [Hg _]]. rewrite Qfs, Hg in X. discriminate.
    Qed.

    Variable objs : list obj.
    Hypothesis Hobjs : forall ob, In ob objs -> obj_good fs ob.
    Hypothesis Hbm : c_blockmax c = bm.

    Theorem check_run_quiet :
      let out := check_run hashf padz truncf bs nlev reduced newino now o c par fs objs (seq 0 bm) in
      r_tags (out_st out) = [] /\ r_err (out_st out) = 0 /\ r_unrec (out_st out) = 0 /\ out_fail out = false
      /\ r_fs (out_st out) = fs /\ r_par (out_st out) = par.
    Proof.
      cbn zeta. rewrite (check_run_unfold o c par fs objs bm Hbm). cbv zeta.
      assert (L : forall k, k <= bm -> qinv (fold_left (fun s pos => if block_enabled nlev o c pos then stripe_step o c fs s pos else s) (seq 0 k)
                                                     (mkRS fs [] par 0 0 0 [] 0%N))).
      { induction k as [|k IH]; intro Hk.
        - constructor; cbn; auto.
        - rewrite seq_S, fold_left_app. cbn [fold_left plus].
          rewrite (block_enabled_plain o c k Hplain (Hsyn k ltac:(lia))). apply qinv_step; [apply IH; lia | lia]. }
      specialize (L bm (le_n bm)).
      set (s1 := fold_left (fun s pos => if block_enabled nlev o c pos then stripe_step o c fs s pos else s) (seq 0 bm) (mkRS fs [] par 0 0 0 [] 0%N)) in *.
      assert (E2 : fold_left (obj_step newino now o c) objs s1 = s1).
      { assert (G : forall l, incl l objs -> fold_left (obj_step newino now o c) l s1 = s1).
        { induction l as [|ob t IH]; intro Hin; [reflexivity|]. cbn [fold_left].
          rewrite obj_good_step; [apply IH; intros x Hx; apply Hin; right; exact Hx|].
          rewrite (q_fs s1 L). apply Hobjs. apply Hin. left. reflexivity. }
        apply G. intros x H. exact H. }
      rewrite E2. unfold cleanup. rewrite Hcheck. cbn [out_st out_fail].
      destruct L as [Qfs Qpar Qtags Qerr Qrec Qunrec _ _]. rewrite Qerr, Qunrec. repeat split; auto.
    Qed.
  End QuietLoop.

  (* ---- the loop over the stripes, fix mode --------------------------------------------------------------------- *)
  Section FixLoop.
    Variable o : copts.
    Variable c : content.
    Variable bm : nat.
    Variable fs0 : list (option fsdisk).     (* the damaged data disks *)
    Variable par : parity.                   (* the damaged parity *)
    Variable vs : nat -> list bid.           (* the recorded vector of every stripe *)
    Hypothesis Hplain : plain nlev o.
    Hypothesis Hfix : co_fix o = true.
    Hypothesis Hsyn : forall p, p < bm -> stripe_synced c p.
    Hypothesis Hgeom : geom bs c bm.
    Hypothesis Hlen : length fs0 = length (c_disks c).
    Hypothesis Hparlen : nlev <= length par.
    Hypothesis Henc : forall p, p < bm -> enc_ok hashf bs c p (vs p).
    Hypothesis Hpad : forall p j f i b, slot_of c p j = SFile f i b -> pad_ok padz bs (vnth (vs p) j) (block_len bs (cf_size f) i) = true.
    (* no file is larger than recorded *)
    Hypothesis Hnl : forall p j f i b g, slot_of c p j = SFile f i b -> fs_find fs0 j (cf_name f) = Some g -> (ff_size g <= cf_size f)%N.

    Let s0 : rstate := mkRS fs0 [] par 0 0 0 [] 0%N.
    (* collision freedom, for every stripe, on the blocks of the damaged array *)
    Hypothesis CFdata : forall p j f i b y, slot_of c p j = SFile f i b -> read_block bs s0 j f i = Some y ->
                                          hash_ok hashf bs f i b y = true -> y = vnth (vs p) j.
    Let failed0 (p : nat) := flat_map (fent_of hashf bs c p s0) (seq 0 (length (c_disks c))).
    Let rec0 (p : nat) := map (prow par p) (seq 0 nlev).
    Hypothesis CFj : forall p, p < bm -> cf_junk hashf padz bs (failed0 p).
    Hypothesis CFr : forall p, p < bm -> cf_rec hashf padz bs (failed0 p) (rec0 p) (vs p).
    Hypothesis CFv : forall p, p < bm -> cf_vec hashf padz bs (failed0 p) (vs p).
    Hypothesis CFs : forall p, p < bm -> forall fsx, cf_search hashf bs (co_nosearch o) fsx (failed0 p) (vs p).
    (* in every stripe: at most as many damaged data blocks as intact parity levels *)
    Hypothesis Hcount : forall p, p < bm ->
        length (filter (is_bad hashf bs c p s0) (seq 0 (length (c_disks c)))) <= length (filter (good_level (vs p) (rec0 p)) (seq 0 nlev)).

    Record rinv (k : nat) (s : rstate) : Prop := {
      ri_len : length (r_fs s) = length (c_disks c);
      ri_parlen : length (r_par s) = length par;
      ri_unrec : r_unrec s = 0;
      ri_dam : forall key, fl_damaged (get_fl (r_flags s) key) = false;
      ri_files : forall p j f i b, slot_of c p j = SFile f i b ->
          (fsz (r_fs s) j (cf_name f) <= cf_size f)%N
          /\ (p < k -> fblk (r_fs s) j (cf_name f) i = vnth (vs p) j
                       /\ (N.of_nat i * bs + block_len bs (cf_size f) i <= fsz (r_fs s) j (cf_name f))%N)
          /\ (k <= p -> fblk (r_fs s) j (cf_name f) i = fblk fs0 j (cf_name f) i
                        /\ ((N.of_nat i * bs + block_len bs (cf_size f) i <= fsz (r_fs s) j (cf_name f))%N
                            <-> (N.of_nat i * bs + block_len bs (cf_size f) i <= fsz fs0 j (cf_name f))%N));
      ri_par : forall p l, (p < k -> l < nlev -> par_matches (vs p) (prow (r_par s) p l) = true)
                           /\ (k <= p -> nth p (nth l (r_par s) []) PNone = nth p (nth l par []) PNone);
      (* a file never flagged FIXED is exactly what it was; a FIXED file has its recorded time-stamp once its last block is passed *)
      ri_nofix : forall p j f i b, slot_of c p j = SFile f i b -> fl_fixed (get_fl (r_flags s) (j, cf_name f)) = false ->
                                   fs_find (r_fs s) j (cf_name f) = fs_find fs0 j (cf_name f);
      ri_stamp : forall p j f i b, slot_of c p j = SFile f i b -> uniq_stamp c j f -> S i = length (cf_blocks f) -> p < k ->
                                   fl_fixed (get_fl (r_flags s) (j, cf_name f)) = true ->
                                   exists g, fs_find (r_fs s) j (cf_name f) = Some g /\ ff_mtime g = cf_mtime f /\ ff_nsec g = cf_nsec f
    }.

    Lemma rinv_0 : rinv 0 s0.
    Proof.
      constructor; cbn; auto.
      - intros p j f i b Hs. split.
        + unfold fsz. destruct (fs_find fs0 j (cf_name f)) as [g|] eqn:E; [apply (Hnl p j f i b g Hs E) | lia].
        + split; [intro X; lia | intros _; split; [reflexivity | tauto]].
      - intros p l. split; [intros X; lia | reflexivity].
      - intros p j f i b _ _ _ X. lia.
    Qed.

    (* reading an unprocessed block gives what it gave in the damaged array *)
    Lemma rinv_read k s p j f i b : rinv k s -> k <= p -> slot_of c p j = SFile f i b -> read_block bs s j f i = read_block bs s0 j f i.
    Proof.
      intros I Hk Hs. destruct (g_wf bs c bm Hgeom p j f i b Hs) as [Hl _].
      rewrite !read_block_fsz by exact Hl.
      destruct (ri_files k s I p j f i b Hs) as [_ [_ H]]. destruct (H Hk) as [Hb Hz]. change (r_fs s0) with fs0.
      rewrite Hb.
      destruct (fsz (r_fs s) j (cf_name f) <? N.of_nat i * bs + block_len bs (cf_size f) i)%N eqn:E1,
               (fsz fs0 j (cf_name f) <? N.of_nat i * bs + block_len bs (cf_size f) i)%N eqn:E2; try reflexivity.
      - apply N.ltb_lt in E1. apply N.ltb_ge in E2. apply Hz in E2. lia.
      - apply N.ltb_ge in E1. apply N.ltb_lt in E2. apply Hz in E1. lia.
    Qed.

    Lemma rinv_is_bad k s j : rinv k s -> k < bm -> is_bad hashf bs c k s j = is_bad hashf bs c k s0 j.
    Proof.
      intros I Hk. unfold is_bad. destruct (slot_of c k j) as [|f i b|h] eqn:Es; try reflexivity.
      rewrite (rinv_read k s k j f i b I (le_n k) Es). reflexivity.
    Qed.

    Lemma rinv_step k s : rinv k s -> k < bm -> rinv (S k) (stripe_step o c fs0 s k).
    Proof.
      intros I Hk.
      assert (Ebad : forall j, is_bad hashf bs c k s j = is_bad hashf bs c k s0 j) by (intro j; apply (rinv_is_bad k s j I Hk)).
      assert (Efailed : flat_map (fent_of hashf bs c k s) (seq 0 (length (c_disks c))) = failed0 k).
      { unfold failed0. apply flat_map_ext_in2. intros j _. unfold fent_of. rewrite Ebad. reflexivity. }
      assert (Erec : map (prow (r_par s) k) (seq 0 nlev) = rec0 k).
      { unfold rec0. apply map_ext. intro l. unfold prow. apply (ri_par k s I k l). lia. }
      assert (Hfile : forall j f i b, slot_of c k j = SFile f i b ->
                (0 < block_len bs (cf_size f) i)%N
                /\ (forall g, fs_find (r_fs s) j (cf_name f) = Some g -> (ff_size g <= cf_size f)%N)
                /\ (co_fix o = true \/ fl_missing (get_fl (r_flags s) (j, cf_name f)) = false \/ fs_find (r_fs s) j (cf_name f) = None)).
      { intros j f i b Hs. destruct (g_wf bs c bm Hgeom k j f i b Hs) as [Hl _]. split; [exact Hl|]. split; [|left; exact Hfix].
        intros g Hg. destruct (ri_files k s I k j f i b Hs) as [Hz _]. rewrite (fsz_some _ _ _ _ Hg) in Hz. exact Hz. }
      assert (CFd : forall j f i b y, slot_of c k j = SFile f i b -> read_block bs s j f i = Some y -> hash_ok hashf bs f i b y = true -> y = vnth (vs k) j).
      { intros j f i b y Hs Hr. rewrite (rinv_read k s k j f i b I (le_n k) Hs) in Hr. apply (CFdata k j f i b y Hs Hr). }
      assert (CFj' : cf_junk hashf padz bs (flat_map (fent_of hashf bs c k s) (seq 0 (length (c_disks c))))) by (rewrite Efailed; apply CFj; exact Hk).
      assert (CFr' : cf_rec hashf padz bs (flat_map (fent_of hashf bs c k s) (seq 0 (length (c_disks c)))) (map (prow (r_par s) k) (seq 0 nlev)) (vs k)) by (rewrite Efailed, Erec; apply CFr; exact Hk).
      assert (CFv' : cf_vec hashf padz bs (flat_map (fent_of hashf bs c k s) (seq 0 (length (c_disks c)))) (vs k)) by (rewrite Efailed; apply CFv; exact Hk).
      assert (CFs' : forall fsx, cf_search hashf bs (co_nosearch o) fsx (flat_map (fent_of hashf bs c k s) (seq 0 (length (c_disks c)))) (vs k)) by (intro fsx; rewrite Efailed; apply CFs; exact Hk).
      assert (Hcnt : length (filter (is_bad hashf bs c k s) (seq 0 (length (c_disks c)))) <= length (filter (good_level (vs k) (map (prow (r_par s) k) (seq 0 nlev))) (seq 0 nlev))).
      { rewrite (filter_ext_in2 _ _ _ (fun j _ => Ebad j)), Erec. apply Hcount. exact Hk. }
      assert (Hpl : nlev <= length (r_par s)) by (rewrite (ri_parlen k s I); exact Hparlen).
      assert (Hdm : forall j f i b, slot_of c k j = SFile f i b -> fl_damaged (get_fl (r_flags s) (j, cf_name f)) = false) by (intros; apply (ri_dam k s I)).
      assert (Hwf : forall j f i b, slot_of c k j = SFile f i b -> (N.of_nat i * bs + block_len bs (cf_size f) i <= cf_size f)%N).
      { intros j f i b Hs. apply (g_wf bs c bm Hgeom k j f i b Hs). }
      destruct (fix_step_full hashf padz truncf bs nlev reduced newino now o c fs0 k s (vs k) Hplain Hfix (Hsyn k Hk) (ri_len k s I)
                  Hfile (Henc k Hk) (fun j f i b Hs => Hpad k j f i b Hs) CFd CFj' CFr' CFv' CFs' Hcnt Hpl Hdm Hwf)
        as [A [B [C [D [E [F1 [F2 [F3 [F4 [HG1 HG2]]]]]]]]]].
      set (s' := stripe_step o c fs0 s k) in *.
      (* what the step does to the file named by an arbitrary slot (p, j, f, i, b) *)
      assert (Hcase : forall p j f i b, slot_of c p j = SFile f i b ->
                (exists ik bk, slot_of c k j = SFile f ik bk /\ (p < k -> i < ik) /\ (k < p -> ik < i) /\ (p = k -> i = ik))
                \/ (fsz (r_fs s') j (cf_name f) = fsz (r_fs s) j (cf_name f) /\ forall x, fblk (r_fs s') j (cf_name f) x = fblk (r_fs s) j (cf_name f) x)).
      { intros p j f i b Hs. destruct (slot_of c k j) as [|fk ik bk|h] eqn:Ek.
        - right. apply same_data_fsz'. apply (F3 j (cf_name f)). intros f' i' b' X. rewrite Ek in X. discriminate X.
        - destruct (N.eq_dec (cf_name fk) (cf_name f)) as [En|En].
          + left. destruct (g_same bs c bm Hgeom k p j fk ik bk f i b Ek Hs En) as [Ef H1]. subst fk.
            destruct (g_same bs c bm Hgeom p k j f i b f ik bk Hs Ek eq_refl) as [_ H2].
            exists ik, bk. repeat split; auto. intro X. subst p. rewrite Ek in Hs. injection Hs as Hi _. auto.
          + right. apply same_data_fsz'. apply (F3 j (cf_name f)). intros f' i' b' X. rewrite Ek in X. injection X as X1 X2 X3. subst f'. exact En.
        - right. apply same_data_fsz'. apply (F3 j (cf_name f)). intros f' i' b' X. rewrite Ek in X. discriminate X. }
      constructor.
      - rewrite E. apply (ri_len k s I).
      - rewrite F2. apply (ri_parlen k s I).
      - rewrite C. apply (ri_unrec k s I).
      - intro key. rewrite (D key). apply (ri_dam k s I).
      - intros p j f i b Hs. destruct (ri_files k s I p j f i b Hs) as [Rz [Rlt Rge]].
        destruct (g_wf bs c bm Hgeom p j f i b Hs) as [Hl Hw].
        destruct (Hcase p j f i b Hs) as [[ik [bk [Ek [Hlt [Hgt Heq]]]]]|[Ez Eb]].
        + (* the file has a block in this stripe *)
          destruct (F4 j f ik bk Ek) as [G1 [G2 G3]].
          destruct (g_wf bs c bm Hgeom k j f ik bk Ek) as [Hlk Hwk].
          pose proof (block_len_le bs (cf_size f) ik) as Hbl.
          split; [lia|]. split.
          * intro Hp. destruct (Nat.eq_dec p k) as [Epk|Epk].
            -- subst p. rewrite Ek in Hs. injection Hs as Hi Hb'. subst ik bk.
               destruct (A j f i b Ek) as [g [Hg [Hn [Hs1 Hs2]]]].
               rewrite (fblk_some _ _ _ _ _ Hg), (fsz_some _ _ _ _ Hg). auto.
            -- assert (Hpk : p < k) by lia. destruct (Rlt Hpk) as [R1 R2].
               rewrite G1 by (specialize (Hlt Hpk); lia). split; [exact R1 | lia].
          * intro Hp. assert (Hkp : k < p) by lia. specialize (Hgt Hkp). destruct (Rge ltac:(lia)) as [R1 R2].
            rewrite G1 by lia. split; [exact R1|]. rewrite <- R2.
            assert (Hoff : (N.of_nat ik * bs + block_len bs (cf_size f) ik <= N.of_nat i * bs)%N) by nia.
            split; intro X; lia.
        + rewrite Ez, Eb. split; [exact Rz|]. split.
          * intro Hp. destruct (Nat.eq_dec p k) as [Epk|Epk].
            -- subst p. destruct (A j f i b Hs) as [g [Hg [Hn [Hs1 Hs2]]]].
               rewrite <- Eb, <- Ez, (fblk_some _ _ _ _ _ Hg), (fsz_some _ _ _ _ Hg). auto.
            -- apply Rlt. lia.
          * intro Hp. apply Rge. lia.
      - intros p l. destruct (ri_par k s I p l) as [R1 R2]. split.
        + intros Hp Hl. destruct (Nat.eq_dec p k) as [Epk|Epk]; [subst p; apply B; exact Hl|].
          unfold prow. rewrite (F1 l p Epk). apply R1; [lia | exact Hl].
        + intro Hp. rewrite (F1 l p ltac:(lia)). apply R2. lia.
      - (* never FIXED: untouched *)
        intros p j f i b Hs Hnf.
        assert (Hout : (forall f' idx' b', slot_of c k j = SFile f' idx' b' -> cf_name f' <> cf_name f) ->
                       fs_find (r_fs s') j (cf_name f) = fs_find fs0 j (cf_name f)).
        { intro Hno. destruct (HG1 j (cf_name f) Hno) as [G1a G1b]. rewrite G1a. rewrite G1b in Hnf. apply (ri_nofix k s I p j f i b Hs Hnf). }
        destruct (slot_of c k j) as [|fk ik bk|h] eqn:Ek.
        + apply Hout. intros f' idx' b' X. discriminate X.
        + destruct (N.eq_dec (cf_name fk) (cf_name f)) as [En|En].
          * destruct (g_same bs c bm Hgeom k p j fk ik bk f i b Ek Hs En) as [Ef _]. subst fk.
            destruct (HG2 j f ik bk Ek) as [Ga [Gb _]]. rewrite Hnf in Ga. symmetry in Ga. apply orb_false_iff in Ga. destruct Ga as [Ga1 Ga2].
            rewrite (Gb Ga2 Ga1). apply (ri_nofix k s I p j f i b Hs Ga1).
          * apply Hout. intros f' idx' b' X. injection X as X1 X2 X3. subst f'. exact En.
        + apply Hout. intros f' idx' b' X. discriminate X.
      - (* FIXED and past the last block: the recorded time-stamp *)
        intros p j f i b Hs Hu Hl Hp Hfx.
        destruct (slot_of c k j) as [|fk ik bk|h] eqn:Ek.
        + assert (Hno : forall f' idx' b', slot_of c k j = SFile f' idx' b' -> cf_name f' <> cf_name f) by (intros f' idx' b' X; rewrite Ek in X; discriminate X).
          destruct (HG1 j (cf_name f) Hno) as [G1a G1b]. rewrite G1a. rewrite G1b in Hfx.
          assert (Hpk : p <> k) by (intro X; subst p; rewrite Ek in Hs; discriminate Hs).
          apply (ri_stamp k s I p j f i b Hs Hu Hl ltac:(lia) Hfx).
        + destruct (N.eq_dec (cf_name fk) (cf_name f)) as [En|En].
          * destruct (g_same bs c bm Hgeom k p j fk ik bk f i b Ek Hs En) as [Ef Hord]. subst fk.
            destruct (Nat.eq_dec p k) as [Epk|Epk].
            -- subst p. rewrite Ek in Hs. injection Hs as Hi Hb'. subst ik bk.
               destruct (HG2 j f i b Ek) as [_ [_ Gc]]. apply (Gc Hu Hl Hfx).
            -- exfalso. destruct (g_same bs c bm Hgeom p k j f i b f ik bk Hs Ek eq_refl) as [_ Hord2].
               pose proof (g_idx bs c bm Hgeom k j f ik bk Ek). specialize (Hord2 ltac:(lia)). lia.
          * assert (Hno : forall f' idx' b', slot_of c k j = SFile f' idx' b' -> cf_name f' <> cf_name f).
            { intros f' idx' b' X. rewrite Ek in X. injection X as X1 X2 X3. subst f'. exact En. }
            destruct (HG1 j (cf_name f) Hno) as [G1a G1b]. rewrite G1a. rewrite G1b in Hfx.
            assert (Hpk : p <> k) by (intro X; subst p; rewrite Ek in Hs; injection Hs as X1 X2 X3; subst fk; apply En; reflexivity).
            apply (ri_stamp k s I p j f i b Hs Hu Hl ltac:(lia) Hfx).
        + assert (Hno : forall f' idx' b', slot_of c k j = SFile f' idx' b' -> cf_name f' <> cf_name f) by (intros f' idx' b' X; rewrite Ek in X; discriminate X).
          destruct (HG1 j (cf_name f) Hno) as [G1a G1b]. rewrite G1a. rewrite G1b in Hfx.
          assert (Hpk : p <> k) by (intro X; subst p; rewrite Ek in Hs; discriminate Hs).
          apply (ri_stamp k s I p j f i b Hs Hu Hl ltac:(lia) Hfx).
    Qed.

    Lemma rinv_loop : forall k, k <= bm ->
      rinv k (fold_left (fun s pos => if block_enabled nlev o c pos then stripe_step o c fs0 s pos else s) (seq 0 k) s0).
    Proof.
      induction k as [|k IH]; intro Hk; [apply rinv_0|].
      rewrite seq_S, fold_left_app. cbn [fold_left plus].
      rewrite (block_enabled_plain o c k Hplain (Hsyn k ltac:(lia))). apply rinv_step; [apply IH; lia | lia].
    Qed.

    (* ---- the flags: a file created by fix is FINISHED once the loop has passed its last block ------------------------ *)
    Record finv (k : nat) (s : rstate) : Prop := {
      fi_nd : NoDup (map fst (r_flags s));
      fi_cr : forall key, fl_created (get_fl (r_flags s) key) = true ->
              fl_finished (get_fl (r_flags s) key) = true
              \/ exists p j f i b, k <= p /\ slot_of c p j = SFile f i b /\ key = (j, cf_name f) }.
    Lemma finv_0 : finv 0 s0.
    Proof. constructor; cbn; [constructor | intros key H; discriminate]. Qed.

    Lemma finv_step k s : finv k s -> k < bm -> finv (S k) (stripe_step o c fs0 s k).
    Proof.
      intros [Hnd Hcr] Hk.
      destruct (stripe_step_Rfl hashf padz truncf bs nlev reduced newino now o c k fs0 s) as [R1 [R2 [R3 _]]].
      set (s' := stripe_step o c fs0 s k) in *.
      assert (Hnew : forall j f i b, slot_of c k j = SFile f i b ->
                fl_finished (get_fl (r_flags s') (j, cf_name f)) = true
                \/ exists p j' f' i' b', S k <= p /\ slot_of c p j' = SFile f' i' b' /\ (j, cf_name f) = (j', cf_name f')).
      { intros j f i b Hs. destruct (g_last bs c bm Hgeom k j f i b Hs) as [p' [i' [b' [Hs' [Hl _]]]]].
        destruct (lt_eq_lt_dec p' k) as [[Hlt|Heq]|Hgt].
        - exfalso. destruct (g_same bs c bm Hgeom p' k j f i' b' f i b Hs' Hs eq_refl) as [_ H]. specialize (H Hlt).
          pose proof (g_idx bs c bm Hgeom k j f i b Hs). lia.
        - subst p'. left. rewrite Hs in Hs'. injection Hs' as E1 E2. subst i' b'. apply (fin_last o c fs0 s k j f i b Hplain Hfix Hs Hl).
        - right. exists p', j, f, i', b'. repeat split; auto. }
      constructor; [apply R1; exact Hnd|].
      intros key H. destruct (R3 key H) as [H'|[f [i [b [Hs En]]]]].
      - destruct (Hcr key H') as [Hfin|[p [j [f [i [b [Hp [Hs Ek]]]]]]]].
        + left. apply R2. exact Hfin.
        + destruct (Nat.eq_dec p k) as [E|E].
          * subst p key. apply (Hnew j f i b Hs).
          * right. exists p, j, f, i, b. repeat split; auto. lia.
      - destruct key as [j n]. cbn [fst snd] in Hs, En. subst n. apply (Hnew j f i b Hs).
    Qed.

    Lemma finv_loop : forall k, k <= bm ->
      finv k (fold_left (fun s pos => if block_enabled nlev o c pos then stripe_step o c fs0 s pos else s) (seq 0 k) s0).
    Proof.
      induction k as [|k IH]; intro Hk; [apply finv_0|].
      rewrite seq_S, fold_left_app. cbn [fold_left plus].
      rewrite (block_enabled_plain o c k Hplain (Hsyn k ltac:(lia))). apply finv_step; [apply IH; lia | lia].
    Qed.

    (* ---- the empty files, links and dirs ---------------------------------------------------------------------------- *)
    Lemma obj_step_frame s ob :
      let s' := obj_step newino now o c s ob in
      r_par s' = r_par s /\ r_flags s' = r_flags s /\ length (r_fs s') = length (r_fs s)
      /\ (forall j n, (j, n) <> (ob_disk ob, ob_name ob) -> fs_find (r_fs s') j n = fs_find (r_fs s) j n)
      /\ ((ob_kind ob = KHard -> fs_find (r_fs s) (ob_disk ob) (ob_to ob) <> None) -> r_unrec s' = r_unrec s).
    Proof.
      cbn zeta. unfold obj_step. destruct (ob_excl ob); [repeat split; auto|].
      destruct (ob_kind ob) eqn:Ek.
      - destruct (negb _); [repeat split; auto|]. rewrite Hfix.
        destruct (find_cfile c (ob_disk ob) (ob_name ob)); cbn; (repeat split; auto; try apply fs_put_length; try (intros j n Hne; apply fs_find_put_other; exact Hne)).
      - rewrite Hfix. destruct (fs_find (r_fs s) (ob_disk ob) (ob_to ob)) as [t|].
        + destruct (fs_find (r_fs s) (ob_disk ob) (ob_name ob)) as [l|].
          * destruct (negb (N.eqb (ff_inode l) (ff_inode t))); cbn; (repeat split; auto; try apply fs_put_length; try (intros j n Hne; apply fs_find_put_other; exact Hne)).
          * cbn; (repeat split; auto; try apply fs_put_length; try (intros j n Hne; apply fs_find_put_other; exact Hne)).
        + destruct (fs_find (r_fs s) (ob_disk ob) (ob_name ob)); cbn; (split; [reflexivity|]; split; [reflexivity|]; split; [reflexivity|]; split; [auto|]; intro H; exfalso; apply (H eq_refl); reflexivity).
      - destruct (ob_stat ob); [repeat split; auto|]. rewrite Hfix. cbn. repeat split; auto.
      - destruct (ob_stat ob); [repeat split; auto|]. rewrite Hfix. cbn. repeat split; auto.
    Qed.

    Lemma rinv_obj s ob :
      rinv bm s ->
      (forall p f i b, slot_of c p (ob_disk ob) = SFile f i b -> cf_name f <> ob_name ob) ->
      (ob_kind ob = KHard -> exists p f i b, slot_of c p (ob_disk ob) = SFile f i b /\ cf_name f = ob_to ob) ->
      rinv bm (obj_step newino now o c s ob) /\ r_flags (obj_step newino now o c s ob) = r_flags s.
    Proof.
      intros I Hnames Hhard. destruct (obj_step_frame s ob) as [F1 [F2 [F3 [F4 F5]]]].
      set (s' := obj_step newino now o c s ob) in *. split; [|exact F2].
      constructor.
      - rewrite F3. apply (ri_len bm s I).
      - rewrite F1. apply (ri_parlen bm s I).
      - rewrite F5; [apply (ri_unrec bm s I)|]. intro Hk. destruct (Hhard Hk) as [p [f [i [b [Hs En]]]]].
        destruct (ri_files bm s I p (ob_disk ob) f i b Hs) as [_ [Hlt _]].
        destruct (Hlt (g_bm bs c bm Hgeom p _ f i b Hs)) as [_ Hsz].
        destruct (g_wf bs c bm Hgeom p _ f i b Hs) as [Hl _].
        unfold fsz in Hsz. rewrite En in Hsz. destruct (fs_find (r_fs s) (ob_disk ob) (ob_to ob)); [discriminate | lia].
      - intro key. rewrite F2. apply (ri_dam bm s I).
      - intros p j f i b Hs.
        assert (E : fs_find (r_fs s') j (cf_name f) = fs_find (r_fs s) j (cf_name f)).
        { apply F4. intro X. injection X as X1 X2. subst j. apply (Hnames p f i b Hs). exact X2. }
        unfold fsz, fblk. rewrite E. apply (ri_files bm s I p j f i b Hs).
      - intros p l. rewrite F1. apply (ri_par bm s I).
      - intros p j f i b Hs. rewrite F2, F4; [apply (ri_nofix bm s I p j f i b Hs)|].
        intro X. injection X as X1 X2. subst j. apply (Hnames p f i b Hs). exact X2.
      - intros p j f i b Hs. rewrite F2, F4; [apply (ri_stamp bm s I p j f i b Hs)|].
        intro X. injection X as X1 X2. subst j. apply (Hnames p f i b Hs). exact X2.
    Qed.

    Variable objs : list obj.
    (* the empty files / links do not bear the name of a file with blocks of the same disk; a hard link points to a file with blocks *)
    Hypothesis Hobj_names : forall ob p f i b, In ob objs -> slot_of c p (ob_disk ob) = SFile f i b -> cf_name f <> ob_name ob.
    Hypothesis Hobj_hard : forall ob, In ob objs -> ob_kind ob = KHard ->
                                      exists p f i b, slot_of c p (ob_disk ob) = SFile f i b /\ cf_name f = ob_to ob.

    Lemma rinv_objs : forall l s, incl l objs -> rinv bm s ->
      rinv bm (fold_left (obj_step newino now o c) l s) /\ r_flags (fold_left (obj_step newino now o c) l s) = r_flags s.
    Proof.
      induction l as [|ob t IH]; intros s Hin I; [split; [exact I | reflexivity]|]. cbn [fold_left].
      assert (Hob : In ob objs) by (apply Hin; left; reflexivity).
      destruct (rinv_obj s ob I (fun p f i b => Hobj_names ob p f i b Hob) (Hobj_hard ob Hob)) as [I' E'].
      destruct (IH _ (fun x Hx => Hin x (or_intror Hx)) I') as [I'' E'']. split; [exact I'' | congruence].
    Qed.

    Lemma rinv_restored s : rinv bm s -> restored nlev c bm vs (r_fs s) (r_par s).
    Proof.
      intro I. split; [apply (ri_len bm s I)|]. split.
      - intros p j f i b Hs. destruct (ri_files bm s I p j f i b Hs) as [Hz [Hlt _]].
        destruct (Hlt (g_bm bs c bm Hgeom p j f i b Hs)) as [Hb Hsz].
        destruct (g_wf bs c bm Hgeom p j f i b Hs) as [Hl _].
        destruct (g_last bs c bm Hgeom p j f i b Hs) as [p' [i' [b' [Hs' [_ Hend]]]]].
        destruct (ri_files bm s I p' j f i' b' Hs') as [_ [Hlt' _]].
        destruct (Hlt' (g_bm bs c bm Hgeom p' j f i' b' Hs')) as [_ Hsz'].
        unfold fsz, fblk in *. destruct (fs_find (r_fs s) j (cf_name f)) as [g|]; [|lia].
        exists g. repeat split; auto. lia.
      - intros p l Hp Hl. apply (ri_par bm s I p l); assumption.
    Qed.


    (* ---- the empty files and the hard links are in order after the run ------------------------------------------------ *)
    Definition okey (ob : obj) : nat * N := (ob_disk ob, ob_name ob).
    Hypothesis Hobj_disk : forall ob, In ob objs -> ob_disk ob < length (c_disks c).
    Hypothesis Hobj_nd : NoDup (map okey objs).

    Lemma objs_fold_other : forall l s j n, (forall ob, In ob l -> (j, n) <> okey ob) ->
      fs_find (r_fs (fold_left (obj_step newino now o c) l s)) j n = fs_find (r_fs s) j n.
    Proof.
      induction l as [|ob t IH]; intros s j n H; [reflexivity|]. cbn [fold_left].
      rewrite IH by (intros ob' Hin; apply H; right; exact Hin).
      destruct (obj_step_frame s ob) as [_ [_ [_ [F4 _]]]]. apply F4. apply (H ob). left. reflexivity.
    Qed.

    Lemma obj_step_makes_good s ob :
      rinv bm s -> In ob objs -> ob_kind ob = KEmpty \/ ob_kind ob = KHard -> obj_good (r_fs (obj_step newino now o c s ob)) ob.
    Proof.
      intros I Hin Hk. unfold obj_good. destruct (ob_excl ob) eqn:Ex; [left; reflexivity | right].
      assert (Hj : ob_disk ob < length (r_fs s)) by (rewrite (ri_len bm s I); apply Hobj_disk; exact Hin).
      unfold obj_step. rewrite Ex. destruct (ob_kind ob) eqn:Ek; try (destruct Hk; discriminate).
      - (* empty file *)
        destruct (fs_find (r_fs s) (ob_disk ob) (ob_name ob)) as [g|] eqn:Eg.
        + destruct (N.eqb (ff_size g) 0) eqn:Ez; cbn [negb].
          * exists g. split; [exact Eg | apply N.eqb_eq; exact Ez].
          * rewrite Hfix. destruct (find_cfile c (ob_disk ob) (ob_name ob)); cbn [r_fs rs_recov rs_tag rs_setfs rs_err];
              (eexists; split; [apply fs_find_put_mk; exact Hj | reflexivity]).
        + cbn [negb]. rewrite Hfix. destruct (find_cfile c (ob_disk ob) (ob_name ob)); cbn [r_fs rs_recov rs_tag rs_setfs rs_err];
            (eexists; split; [apply fs_find_put_mk; exact Hj | reflexivity]).
      - (* hard link *)
        destruct (Hobj_hard ob Hin Ek) as [p [f [i [b [Hs En]]]]].
        assert (Hto : exists t, fs_find (r_fs s) (ob_disk ob) (ob_to ob) = Some t).
        { destruct (ri_files bm s I p (ob_disk ob) f i b Hs) as [_ [Hlt _]].
          destruct (Hlt (g_bm bs c bm Hgeom p _ f i b Hs)) as [_ Hsz].
          destruct (g_wf bs c bm Hgeom p _ f i b Hs) as [Hl _].
          unfold fsz in Hsz. rewrite En in Hsz. destruct (fs_find (r_fs s) (ob_disk ob) (ob_to ob)) as [t|]; [exists t; reflexivity | lia]. }
        destruct Hto as [t Ht]. rewrite Ht, Hfix.
        assert (Hne : (ob_disk ob, ob_to ob) <> (ob_disk ob, ob_name ob)).
        { intro X. injection X as X. apply (Hobj_names ob p f i b Hin Hs). congruence. }
        destruct (fs_find (r_fs s) (ob_disk ob) (ob_name ob)) as [l|] eqn:El.
        + destruct (N.eqb (ff_inode l) (ff_inode t)) eqn:Ei; cbn [negb andb].
          * exists l, t. split; [exact El|]. split; [exact Ht | apply N.eqb_eq; exact Ei].
          * cbn [r_fs rs_recov rs_tag rs_setfs rs_err]. eexists. exists t.
            split; [apply fs_find_put_mk; exact Hj|]. split; [|reflexivity].
            rewrite fs_find_put_other; [exact Ht | exact Hne].
        + cbn [negb andb r_fs rs_recov rs_tag rs_setfs rs_err]. eexists. exists t.
          split; [apply fs_find_put_mk; exact Hj|]. split; [|reflexivity].
          rewrite fs_find_put_other; [exact Ht | exact Hne].
    Qed.

    Lemma objs_fold_good : forall l s, incl l objs -> NoDup (map okey l) -> rinv bm s ->
      forall ob, In ob l -> ob_kind ob = KEmpty \/ ob_kind ob = KHard -> obj_good (r_fs (fold_left (obj_step newino now o c) l s)) ob.
    Proof.
      induction l as [|ob0 t IH]; intros s Hin Hnd I ob Hob Hk; [contradiction|]. cbn [fold_left].
      cbn [map] in Hnd. apply NoDup_cons_iff in Hnd. destruct Hnd as [Hnin Hnd].
      assert (Hob0 : In ob0 objs) by (apply Hin; left; reflexivity).
      destruct (rinv_obj s ob0 I (fun p f i b => Hobj_names ob0 p f i b Hob0) (Hobj_hard ob0 Hob0)) as [I' _].
      destruct Hob as [E|Hob]; [subst ob0 | apply (IH _ (fun x Hx => Hin x (or_intror Hx)) Hnd I' ob Hob Hk)].
      pose proof (obj_step_makes_good s ob I Hob0 Hk) as G.
      set (s1 := obj_step newino now o c s ob) in *.
      assert (Hnm : fs_find (r_fs (fold_left (obj_step newino now o c) t s1)) (ob_disk ob) (ob_name ob) = fs_find (r_fs s1) (ob_disk ob) (ob_name ob)).
      { apply objs_fold_other. intros ob' Hin' X. apply Hnin. rewrite in_map_iff. exists ob'. split; [symmetry; exact X | exact Hin']. }
      destruct G as [G|G]; [left; exact G | right]. destruct Hk as [Hk|Hk]; rewrite Hk in *.
      - rewrite Hnm. exact G.
      - rewrite Hnm.
        assert (Hto : fs_find (r_fs (fold_left (obj_step newino now o c) t s1)) (ob_disk ob) (ob_to ob) = fs_find (r_fs s1) (ob_disk ob) (ob_to ob)).
        { apply objs_fold_other. intros ob' Hin' X. unfold okey in X. injection X as X1 X2.
          destruct (Hobj_hard ob Hob0 Hk) as [p [f [i [b [Hs En]]]]].
          apply (Hobj_names ob' p f i b (Hin ob' (or_intror Hin'))); [rewrite <- X1; exact Hs | congruence]. }
        rewrite Hto. exact G.
    Qed.

    Hypothesis Hbm : c_blockmax c = bm.

    (* C01 for the whole run *)
    Theorem fix_run_restores :
      let out := check_run hashf padz truncf bs nlev reduced newino now o c par fs0 objs (seq 0 bm) in
      restored nlev c bm vs (r_fs (out_st out)) (r_par (out_st out))
      /\ out_fail out = false
      /\ r_unrec (out_st out) = 0
      /\ (forall key, fl_damaged (get_fl (r_flags (out_st out)) key) = false)
      /\ length (r_par (out_st out)) = length par.
    Proof.
      cbn zeta. rewrite (check_run_unfold o c par fs0 objs bm Hbm). cbv zeta. fold s0.
      pose proof (rinv_loop bm (le_n bm)) as I1. pose proof (finv_loop bm (le_n bm)) as J1.
      set (s1 := fold_left (fun s pos => if block_enabled nlev o c pos then stripe_step o c fs0 s pos else s) (seq 0 bm) s0) in *.
      destruct (rinv_objs objs s1 (fun x H => H) I1) as [I2 E2].
      set (s2 := fold_left (obj_step newino now o c) objs s1) in *.
      assert (Ec : cleanup o s2 = s2).
      { apply cleanup_noop. intros k f Hin. rewrite E2 in Hin. destruct J1 as [Hnd Hcr].
        pose proof (get_fl_in (r_flags s1) k f Hnd Hin) as Eg.
        destruct (fl_created f) eqn:Ecr; [|reflexivity]. cbn [andb].
        destruct (Hcr k ltac:(rewrite Eg; exact Ecr)) as [Hf|[p [j [f' [i [b [Hp [Hs _]]]]]]]].
        - rewrite Eg in Hf. rewrite Hf. reflexivity.
        - pose proof (g_bm bs c bm Hgeom p j f' i b Hs). lia. }
      rewrite Ec. cbn [out_st out_fail]. rewrite Hfix.
      split; [apply rinv_restored; exact I2|]. rewrite (ri_unrec bm s2 I2). split; [reflexivity|]. split; [reflexivity|].
      split; [apply (ri_dam bm s2 I2) | apply (ri_parlen bm s2 I2)].
    Qed.



    Lemma fix_run_rinv : rinv bm (out_st (check_run hashf padz truncf bs nlev reduced newino now o c par fs0 objs (seq 0 bm))).
    Proof.
      rewrite (check_run_unfold o c par fs0 objs bm Hbm). cbv zeta. fold s0.
      pose proof (rinv_loop bm (le_n bm)) as I1. pose proof (finv_loop bm (le_n bm)) as J1.
      set (s1 := fold_left (fun s pos => if block_enabled nlev o c pos then stripe_step o c fs0 s pos else s) (seq 0 bm) s0) in *.
      destruct (rinv_objs objs s1 (fun x H => H) I1) as [I2 E2].
      set (s2 := fold_left (obj_step newino now o c) objs s1) in *.
      assert (Ec : cleanup o s2 = s2).
      { apply cleanup_noop. intros k f Hin. rewrite E2 in Hin. destruct J1 as [Hnd Hcr].
        pose proof (get_fl_in (r_flags s1) k f Hnd Hin) as Eg.
        destruct (fl_created f) eqn:Ecr; [|reflexivity]. cbn [andb].
        destruct (Hcr k ltac:(rewrite Eg; exact Ecr)) as [Hf|[p [j [f' [i [b [Hp [Hs _]]]]]]]].
        - rewrite Eg in Hf. rewrite Hf. reflexivity.
        - pose proof (g_bm bs c bm Hgeom p j f' i b Hs). lia. }
      rewrite Ec. cbn [out_st]. exact I2.
    Qed.

    (* the time-stamps: after the run every file with blocks is either exactly the file it was before the run (never written:
       none of its blocks was damaged) or carries its recorded time-stamp.  uniq_stamp: no other file of the disk has the same
       size and time-stamp (else fix does not set the time and reports `collision:`) *)
    Theorem fix_run_stamps :
      let out := check_run hashf padz truncf bs nlev reduced newino now o c par fs0 objs (seq 0 bm) in
      forall p j f i b, slot_of c p j = SFile f i b -> uniq_stamp c j f ->
        exists g, fs_find (r_fs (out_st out)) j (cf_name f) = Some g
                  /\ ((ff_mtime g = cf_mtime f /\ ff_nsec g = cf_nsec f) \/ fs_find fs0 j (cf_name f) = Some g).
    Proof.
      cbn zeta. intros p j f i b Hs Hu. pose proof fix_run_rinv as I.
      set (s2 := out_st (check_run hashf padz truncf bs nlev reduced newino now o c par fs0 objs (seq 0 bm))) in *.
      destruct (fl_fixed (get_fl (r_flags s2) (j, cf_name f))) eqn:Efx.
      - destruct (g_last bs c bm Hgeom p j f i b Hs) as [p' [i' [b' [Hs' [Hl _]]]]].
        destruct (ri_stamp bm s2 I p' j f i' b' Hs' Hu Hl (g_bm bs c bm Hgeom p' j f i' b' Hs') Efx) as [g [Hg [H1 H2]]].
        exists g. split; [exact Hg | left; split; assumption].
      - destruct (rinv_restored s2 I) as [_ [Hfiles _]]. destruct (Hfiles p j f i b Hs) as [g [Hg _]].
        exists g. split; [exact Hg | right]. rewrite <- (ri_nofix bm s2 I p j f i b Hs Efx). exact Hg.
    Qed.

    Theorem fix_run_objects :
      let out := check_run hashf padz truncf bs nlev reduced newino now o c par fs0 objs (seq 0 bm) in
      forall ob, In ob objs -> ob_kind ob = KEmpty \/ ob_kind ob = KHard -> obj_good (r_fs (out_st out)) ob.
    Proof.
      cbn zeta. rewrite (check_run_unfold o c par fs0 objs bm Hbm). cbv zeta. fold s0.
      pose proof (rinv_loop bm (le_n bm)) as I1. pose proof (finv_loop bm (le_n bm)) as J1.
      set (s1 := fold_left (fun s pos => if block_enabled nlev o c pos then stripe_step o c fs0 s pos else s) (seq 0 bm) s0) in *.
      destruct (rinv_objs objs s1 (fun x H => H) I1) as [I2 E2].
      pose proof (objs_fold_good objs s1 (fun x H => H) Hobj_nd I1) as G.
      set (s2 := fold_left (obj_step newino now o c) objs s1) in *.
      assert (Ec : cleanup o s2 = s2).
      { apply cleanup_noop. intros k f Hin. rewrite E2 in Hin. destruct J1 as [Hnd Hcr].
        pose proof (get_fl_in (r_flags s1) k f Hnd Hin) as Eg.
        destruct (fl_created f) eqn:Ecr; [|reflexivity]. cbn [andb].
        destruct (Hcr k ltac:(rewrite Eg; exact Ecr)) as [Hf|[p [j [f' [i [b [Hp [Hs _]]]]]]]].
        - rewrite Eg in Hf. rewrite Hf. reflexivity.
        - pose proof (g_bm bs c bm Hgeom p j f' i b Hs). lia. }
      rewrite Ec. cbn [out_st]. exact G.
    Qed.

    (* ... and a following check of the whole array (a new run: fresh flags and counters) reports nothing and changes nothing *)
    Variable o' : copts.
    Variable objs' : list obj.
    Hypothesis Hplain' : plain nlev o'.
    Hypothesis Hcheck' : co_fix o' = false.
    Theorem fix_run_then_check_quiet :
      let out := check_run hashf padz truncf bs nlev reduced newino now o c par fs0 objs (seq 0 bm) in
      (forall ob, In ob objs' -> obj_good (r_fs (out_st out)) ob) ->
      let out' := check_run hashf padz truncf bs nlev reduced newino now o' c (r_par (out_st out)) (r_fs (out_st out)) objs' (seq 0 bm) in
      r_tags (out_st out') = [] /\ r_err (out_st out') = 0 /\ r_unrec (out_st out') = 0 /\ out_fail out' = false
      /\ r_fs (out_st out') = r_fs (out_st out) /\ r_par (out_st out') = r_par (out_st out).
    Proof.
      cbn zeta. intro Hg. destruct fix_run_restores as [Hr _].
      apply (check_run_quiet o' c bm _ _ vs Hplain' Hcheck' Hsyn Hgeom Henc Hr objs' Hg Hbm).
    Qed.
  End FixLoop.


  (* ---- check locates, whole run -------------------------------------------------------------------------------------- *)
  (* the "located error" tags: error:<pos>:<disk>:<file>:... (open / read / data) and parity_error:<pos>:<level>: (read / data) *)
  Definition is_located (t : tag) : bool :=
    existsb (N.eqb (fst t)) [K_ERR_OPEN; K_ERR_READ; K_ERR_DATA; K_PAR_READ; K_PAR_DATA].
  Lemma filter_located_aux l : Forall aux_tag l -> filter is_located l = [].
  Proof.
    induction 1 as [|t l Ht _ IH]; [reflexivity|]. cbn [filter]. rewrite IH.
    unfold is_located. destruct Ht as [Ht|Ht]; rewrite Ht; reflexivity.
  Qed.
  Lemma filter_located_status l : Forall status_tag l -> filter is_located l = [].
  Proof.
    induction 1 as [|t l Ht _ IH]; [reflexivity|]. cbn [filter]. rewrite IH.
    unfold is_located. destruct Ht as [Ht|[Ht|Ht]]; rewrite Ht; reflexivity.
  Qed.
  Lemma filter_located_map (k : N) (f : nat -> list nat) (l : list nat) : is_located (k, []) = true ->
    filter is_located (map (fun x => tg k (f x) []) l) = map (fun x => tg k (f x) []) l.
  Proof. intro H. induction l as [|x t IH]; [reflexivity|]. cbn [map filter]. unfold is_located in *. cbn [fst tg] in *. rewrite H, IH. reflexivity. Qed.
  Lemma tag_of_located o c p s j : filter is_located (tag_of hashf bs o c p s j) = tag_of hashf bs o c p s j.
  Proof.
    unfold tag_of. destruct (slot_of c p j); try reflexivity.
    destruct (read_block bs s j f idx); [destruct (hash_ok hashf bs f idx b b0); reflexivity|].
    destruct (co_fix o || _); reflexivity.
  Qed.
  Lemma flat_tag_of_located o c p s l : filter is_located (flat_map (tag_of hashf bs o c p s) l) = flat_map (tag_of hashf bs o c p s) l.
  Proof. induction l as [|x t IH]; [reflexivity|]. cbn [flat_map]. rewrite filter_app, tag_of_located, IH. reflexivity. Qed.
  Lemma tag_of_count o c p s l : length (flat_map (tag_of hashf bs o c p s) l) = length (filter (is_bad hashf bs c p s) l).
  Proof.
    induction l as [|x t IH]; [reflexivity|]. cbn [flat_map filter]. rewrite app_length, IH. unfold tag_of, is_bad.
    destruct (slot_of c p x); try reflexivity.
    destruct (read_block bs s x f idx); [destruct (hash_ok hashf bs f idx b b0); reflexivity | reflexivity].
  Qed.

  Section CheckLoop.
    Variable o : copts.
    Variable c : content.
    Variable bm : nat.
    Variable fs : list (option fsdisk).      (* the damaged data disks *)
    Variable par : parity.                   (* the damaged parity *)
    Variable vs : nat -> list bid.           (* the recorded vector of every stripe *)
    Hypothesis Hplain : plain nlev o.
    Hypothesis Hcheck : co_fix o = false.
    Hypothesis Hsyn : forall p, p < bm -> stripe_synced c p.
    Hypothesis Hgeom : geom bs c bm.
    Hypothesis Hlen : length fs = length (c_disks c).
    Hypothesis Henc : forall p, p < bm -> enc_ok hashf bs c p (vs p).
    Hypothesis Hpad : forall p j f i b, slot_of c p j = SFile f i b -> pad_ok padz bs (vnth (vs p) j) (block_len bs (cf_size f) i) = true.
    (* any damage except growth: files may be missing, truncated, corrupted; none is larger than recorded *)
    Hypothesis Hnl : forall p j f i b g, slot_of c p j = SFile f i b -> fs_find fs j (cf_name f) = Some g -> (ff_size g <= cf_size f)%N.

    Let s0 : rstate := mkRS fs [] par 0 0 0 [] 0%N.
    Hypothesis CFdata : forall p j f i b y, slot_of c p j = SFile f i b -> read_block bs s0 j f i = Some y ->
                                          hash_ok hashf bs f i b y = true -> y = vnth (vs p) j.
    Let failed0 (p : nat) := flat_map (fent_of hashf bs c p s0) (seq 0 (length (c_disks c))).
    Let rec0 (p : nat) := map (prow par p) (seq 0 nlev).
    Hypothesis CFj : forall p, p < bm -> cf_junk hashf padz bs (failed0 p).
    Hypothesis CFr : forall p, p < bm -> cf_rec hashf padz bs (failed0 p) (rec0 p) (vs p).
    Hypothesis CFv : forall p, p < bm -> cf_vec hashf padz bs (failed0 p) (vs p).
    Hypothesis CFs : forall p, p < bm -> forall fsx, cf_search hashf bs (co_nosearch o) fsx (failed0 p) (vs p).
    Hypothesis Hcount : forall p, p < bm ->
        length (filter (is_bad hashf bs c p s0) (seq 0 (length (c_disks c)))) <= length (filter (good_level (vs p) (rec0 p)) (seq 0 nlev)).

    (* what check must report for stripe p: one tag per damaged data block (disk order), one per level without a block,
       one per level whose block does not encode the recorded vector *)
    Definition located_of (p : nat) : list tag :=
      flat_map (tag_of hashf bs o c p s0) (seq 0 (length (c_disks c)))
      ++ map (fun l => tg K_PAR_READ [p; l] []) (filter (fun l => is_pnone (prow par p l)) (seq 0 nlev))
      ++ map (fun l => tg K_PAR_DATA [p; l] []) (filter (wrong_level (rec0 p) (vs p)) (seq 0 nlev)).

    Record cinv (k : nat) (s : rstate) : Prop := {
      ci_fs : r_fs s = fs; ci_par : r_par s = par; ci_unrec : r_unrec s = 0;
      ci_err : r_err s = length (flat_map located_of (seq 0 k));
      ci_tags : filter is_located (r_tags s) = flat_map located_of (seq 0 k);
      ci_miss : forall key, fl_missing (get_fl (r_flags s) key) = true -> fs_find fs (fst key) (snd key) = None }.

    Lemma is_bad_fs s p j : r_fs s = fs -> is_bad hashf bs c p s j = is_bad hashf bs c p s0 j.
    Proof. intro E. unfold is_bad. destruct (slot_of c p j); try reflexivity. rewrite (read_block_same_fs bs s0 s j f idx); [reflexivity | exact E]. Qed.
    Lemma tag_of_fs s p j : r_fs s = fs -> tag_of hashf bs o c p s j = tag_of hashf bs o c p s0 j.
    Proof.
      intro E. unfold tag_of. destruct (slot_of c p j); try reflexivity.
      rewrite (read_block_same_fs bs s0 s j f idx) by exact E. rewrite E. reflexivity.
    Qed.

    Lemma cinv_step k s : cinv k s -> k < bm -> cinv (S k) (stripe_step o c fs s k).
    Proof.
      intros [Qfs Qpar Qunrec Qerr Qtags Qmiss] Hk.
      assert (Ebad : forall j, is_bad hashf bs c k s j = is_bad hashf bs c k s0 j) by (intro j; apply is_bad_fs; exact Qfs).
      assert (Efailed : flat_map (fent_of hashf bs c k s) (seq 0 (length (c_disks c))) = failed0 k).
      { unfold failed0. apply flat_map_ext_in2. intros j _. unfold fent_of. rewrite Ebad. reflexivity. }
      assert (Erec : map (prow (r_par s) k) (seq 0 nlev) = rec0 k) by (unfold rec0; rewrite Qpar; reflexivity).
      assert (Hfile : forall j f i b, slot_of c k j = SFile f i b ->
                (0 < block_len bs (cf_size f) i)%N
                /\ (forall g, fs_find (r_fs s) j (cf_name f) = Some g -> (ff_size g <= cf_size f)%N)
                /\ (co_fix o = true \/ fl_missing (get_fl (r_flags s) (j, cf_name f)) = false \/ fs_find (r_fs s) j (cf_name f) = None)).
      { intros j f i b Hs. split; [apply (g_wf bs c bm Hgeom k j f i b Hs)|]. split.
        - intros g Hg. rewrite Qfs in Hg. apply (Hnl k j f i b g Hs Hg).
        - right. destruct (fl_missing (get_fl (r_flags s) (j, cf_name f))) eqn:Em; [right | left; reflexivity].
          rewrite Qfs. apply (Qmiss (j, cf_name f) Em). }
      assert (CFd : forall j f i b y, slot_of c k j = SFile f i b -> read_block bs s j f i = Some y -> hash_ok hashf bs f i b y = true -> y = vnth (vs k) j).
      { intros j f i b y Hs Hr. rewrite (read_block_same_fs bs s0 s j f i Qfs) in Hr. apply (CFdata k j f i b y Hs Hr). }
      assert (CFj' : cf_junk hashf padz bs (flat_map (fent_of hashf bs c k s) (seq 0 (length (c_disks c))))) by (rewrite Efailed; apply CFj; exact Hk).
      assert (CFr' : cf_rec hashf padz bs (flat_map (fent_of hashf bs c k s) (seq 0 (length (c_disks c)))) (map (prow (r_par s) k) (seq 0 nlev)) (vs k)) by (rewrite Efailed, Erec; apply CFr; exact Hk).
      assert (CFv' : cf_vec hashf padz bs (flat_map (fent_of hashf bs c k s) (seq 0 (length (c_disks c)))) (vs k)) by (rewrite Efailed; apply CFv; exact Hk).
      assert (CFs' : forall fsx, cf_search hashf bs (co_nosearch o) fsx (flat_map (fent_of hashf bs c k s) (seq 0 (length (c_disks c)))) (vs k)) by (intro fsx; rewrite Efailed; apply CFs; exact Hk).
      assert (Hcnt : length (filter (is_bad hashf bs c k s) (seq 0 (length (c_disks c)))) <= length (filter (good_level (vs k) (map (prow (r_par s) k) (seq 0 nlev))) (seq 0 nlev))).
      { rewrite (filter_ext_in2 _ _ _ (fun j _ => Ebad j)), Erec. apply Hcount. exact Hk. }
      destruct (check_step_full hashf padz truncf bs nlev reduced newino now o c fs k s (vs k) Hplain Hcheck (Hsyn k Hk)
                  ltac:(rewrite Qfs; exact Hlen) Hfile (Henc k Hk) (fun j f i b Hs => Hpad k j f i b Hs) CFd CFj' CFr' CFv' CFs' Hcnt)
        as [A [B [C [D [_ [rtags [ptags [T [Tr Tp]]]]]]]]].
      destruct (stripe_step_Rchk hashf padz truncf bs nlev reduced newino now o c k fs s Hcheck) as [_ [_ M]].
      set (s' := stripe_step o c fs s k) in *.
      rewrite Erec, Qpar in D, T. rewrite (filter_ext_in2 _ _ _ (fun j _ => Ebad j)) in D.
      rewrite (flat_map_ext_in2 _ _ _ (fun j _ => tag_of_fs s k j Qfs)) in T.
      assert (Elo : length (located_of k) = length (filter (is_bad hashf bs c k s0) (seq 0 (length (c_disks c))))
                                             + length (filter (fun l => is_pnone (prow par k l)) (seq 0 nlev))
                                             + length (filter (wrong_level (rec0 k) (vs k)) (seq 0 nlev))).
      { unfold located_of. rewrite !app_length, !map_length, tag_of_count. lia. }
      constructor.
      - congruence.
      - congruence.
      - congruence.
      - rewrite seq_S, flat_map_app, app_length. cbn [flat_map plus]. rewrite app_nil_r, <- Qerr, Elo, D. lia.
      - rewrite seq_S, flat_map_app. cbn [flat_map plus]. rewrite app_nil_r, <- Qtags, T. unfold located_of.
        rewrite !filter_app, flat_tag_of_located, (filter_located_aux rtags Tr), (filter_located_status ptags Tp).
        rewrite !filter_located_map by reflexivity. rewrite !app_nil_r. cbn [app]. reflexivity.
      - intros key Em. destruct (M _ Em) as [X|X]; [apply (Qmiss key X) | rewrite <- Qfs; exact X].
    Qed.

    Variable objs : list obj.
    Hypothesis Hobjs : forall ob, In ob objs -> obj_good fs ob.
    Hypothesis Hbm : c_blockmax c = bm.

    (* C04 for the whole run, check mode *)
    Theorem check_run_exact :
      let out := check_run hashf padz truncf bs nlev reduced newino now o c par fs objs (seq 0 bm) in
      filter is_located (r_tags (out_st out)) = flat_map located_of (seq 0 bm)
      /\ r_err (out_st out) = length (flat_map located_of (seq 0 bm))
      /\ r_unrec (out_st out) = 0
      /\ (out_fail out = true <-> flat_map located_of (seq 0 bm) <> [])
      /\ r_fs (out_st out) = fs /\ r_par (out_st out) = par.
    Proof.
      cbn zeta. rewrite (check_run_unfold o c par fs objs bm Hbm). cbv zeta. fold s0.
      assert (L : forall k, k <= bm -> cinv k (fold_left (fun s pos => if block_enabled nlev o c pos then stripe_step o c fs s pos else s) (seq 0 k) s0)).
      { induction k as [|k IH]; intro Hk.
        - constructor; cbn; auto. intros key H. discriminate H.
        - rewrite seq_S, fold_left_app. cbn [fold_left plus].
          rewrite (block_enabled_plain o c k Hplain (Hsyn k ltac:(lia))). apply cinv_step; [apply IH; lia | lia]. }
      specialize (L bm (le_n bm)).
      set (s1 := fold_left (fun s pos => if block_enabled nlev o c pos then stripe_step o c fs s pos else s) (seq 0 bm) s0) in *.
      assert (E2 : fold_left (obj_step newino now o c) objs s1 = s1).
      { assert (G : forall l, incl l objs -> fold_left (obj_step newino now o c) l s1 = s1).
        { induction l as [|ob t IH]; intro Hin; [reflexivity|]. cbn [fold_left].
          rewrite obj_good_step; [apply IH; intros x Hx; apply Hin; right; exact Hx|].
          rewrite (ci_fs bm s1 L). apply Hobjs. apply Hin. left. reflexivity. }
        apply G. intros x H. exact H. }
      rewrite E2. unfold cleanup. rewrite Hcheck. cbn [out_st out_fail].
      destruct L as [Qfs Qpar Qunrec Qerr Qtags _]. rewrite Qunrec, Qerr.
      split; [exact Qtags|]. split; [reflexivity|]. split; [reflexivity|]. split; [|split; assumption].
      destruct (flat_map located_of (seq 0 bm)); cbn; split; intro H; try discriminate; try congruence.
    Qed.

    (* nothing on an undamaged stripe *)
    Lemma located_of_quiet p :
      (forall j, is_bad hashf bs c p s0 j = false) ->
      (forall l, l < nlev -> par_matches (vs p) (prow par p l) = true) ->
      located_of p = [].
    Proof.
      clear Hlen Hbm. intros Hg Hp. unfold located_of.
      assert (E1 : flat_map (tag_of hashf bs o c p s0) (seq 0 (length (c_disks c))) = []).
      { apply flat_map_nil. intros j _. unfold tag_of. specialize (Hg j). unfold is_bad in Hg.
        destruct (slot_of c p j); try reflexivity. destruct (read_block bs s0 j f idx); [|discriminate].
        destruct (hash_ok hashf bs f idx b b0); [reflexivity | discriminate]. }
      assert (E2 : filter (fun l => is_pnone (prow par p l)) (seq 0 nlev) = []).
      { apply filter_nil. intros l Hl. apply in_seq in Hl. specialize (Hp l ltac:(lia)). destruct (prow par p l); [reflexivity | discriminate | discriminate]. }
      assert (E3 : filter (wrong_level (rec0 p) (vs p)) (seq 0 nlev) = []).
      { apply filter_nil. intros l Hl. apply in_seq in Hl. unfold wrong_level, rec0. rewrite nth_map_seq by lia. rewrite (Hp l ltac:(lia)). apply andb_false_r. }
      rewrite E1, E2, E3. reflexivity.
    Qed.
  End CheckLoop.
End Run.

(* ---------------------------------------------------------------------------------------------------------- *)
(* the statements, with the per-stripe side conditions gathered in one record                                   *)
(* ---------------------------------------------------------------------------------------------------------- *)

(* where vs comes from: C06 (Array/ReachAll.v, C06_synced_parity_valid_all) gives ParOK for the parity par0 that sync wrote; on an
   entirely synced array level 0 of par0 then holds, stripe by stripe, a vector that fits the recorded hashes: that is vs *)
Lemma vs_of_ParOK hashf bs c (par0 : parity) bm :
  ParOK hashf bs c par0 -> par0 <> [] -> (forall p, p < bm -> stripe_synced c p) ->
  exists vs, forall p, p < bm -> enc_ok hashf bs c p (vs p) /\ nth p (nth 0 par0 []) PNone = PEnc (vs p).
Proof.
  intros Hpar Hne. induction bm as [|bm IH]; intro Hsyn.
  - exists (fun _ => []). intros p Hp. lia.
  - destruct (IH (fun p Hp => Hsyn p ltac:(lia))) as [vs Hvs].
    assert (Hin : In (nth 0 par0 []) par0) by (destruct par0; [congruence | left; reflexivity]).
    destruct (Hpar bm (Hsyn bm ltac:(lia)) _ Hin) as [v [Hv1 Hv2]].
    exists (fun p => if Nat.eqb p bm then v else vs p). intros p Hp.
    destruct (Nat.eqb p bm) eqn:E.
    + apply Nat.eqb_eq in E. subst p. auto.
    + apply Nat.eqb_neq in E. apply Hvs. lia.
Qed.

(* the state at the start of a run *)
Definition st0 (fs : list (option fsdisk)) (par : parity) : rstate := mkRS fs [] par 0 0 0 [] 0%N.

(* the damage (fs, par) to the array recorded by c (vs p = recorded vector of stripe p) is recoverable, stripe by stripe:
   collision freedom of the hash on the blocks involved (a block that passes the hash test of a slot IS the recorded block:
   for the blocks read, the junk produced by a wrong combination, the blocks of the vectors the parity encodes, the
   blocks fetched from files with the same stamp), and at most as many damaged data blocks as intact parity levels *)
Record recoverable (hashf : bid -> N -> hval) (padz : bid -> N -> bool) (bs : N) (nlev : nat) (nosearch : bool)
       (c : content) (bm : nat) (fs : list (option fsdisk)) (par : parity) (vs : nat -> list bid) : Prop := {
  rc_data : forall p j f i b y, slot_of c p j = SFile f i b -> read_block bs (st0 fs par) j f i = Some y ->
                                hash_ok hashf bs f i b y = true -> y = vnth (vs p) j;
  rc_junk : forall p, p < bm -> cf_junk hashf padz bs (flat_map (fent_of hashf bs c p (st0 fs par)) (seq 0 (length (c_disks c))));
  rc_rec : forall p, p < bm -> cf_rec hashf padz bs (flat_map (fent_of hashf bs c p (st0 fs par)) (seq 0 (length (c_disks c))))
                                      (map (prow par p) (seq 0 nlev)) (vs p);
  rc_vec : forall p, p < bm -> cf_vec hashf padz bs (flat_map (fent_of hashf bs c p (st0 fs par)) (seq 0 (length (c_disks c)))) (vs p);
  rc_search : forall p, p < bm -> forall fsx, cf_search hashf bs nosearch fsx (flat_map (fent_of hashf bs c p (st0 fs par)) (seq 0 (length (c_disks c)))) (vs p);
  rc_count : forall p, p < bm ->
      length (filter (is_bad hashf bs c p (st0 fs par)) (seq 0 (length (c_disks c))))
      <= length (filter (good_level (vs p) (map (prow par p) (seq 0 nlev))) (seq 0 nlev))
}.

(* the array is well formed and entirely synced; vs is the recorded content *)
Record synced_array (hashf : bid -> N -> hval) (padz : bid -> N -> bool) (bs : N) (c : content) (bm : nat) (vs : nat -> list bid) : Prop := {
  sa_bm : c_blockmax c = bm;
  sa_syn : forall p, p < bm -> stripe_synced c p;
  sa_geom : geom bs c bm;
  sa_enc : forall p, p < bm -> enc_ok hashf bs c p (vs p);
  sa_pad : forall p j f i b, slot_of c p j = SFile f i b -> pad_ok padz bs (vnth (vs p) j) (block_len bs (cf_size f) i) = true
}.

(* the empty files / links of the run do not bear the name of a file with blocks of the same disk; hard links point to files with blocks *)
Definition objs_ok (c : content) (objs : list obj) : Prop :=
  (forall ob p f i b, In ob objs -> slot_of c p (ob_disk ob) = SFile f i b -> cf_name f <> ob_name ob)
  /\ (forall ob, In ob objs -> ob_kind ob = KHard -> exists p f i b, slot_of c p (ob_disk ob) = SFile f i b /\ cf_name f = ob_to ob).

Definition no_larger (c : content) (fs : list (option fsdisk)) : Prop :=
  forall p j f i b g, slot_of c p j = SFile f i b -> fs_find fs j (cf_name f) = Some g -> (ff_size g <= cf_size f)%N.

Section Statements.
  Variable hashf : bid -> N -> hval.
  Variable padz : bid -> N -> bool.
  Variable truncf : bid -> N -> bid.
  Variable bs : N.
  Variable nlev : nat.
  Variable reduced : bool.
  Variable newino : nat -> N -> N.
  Variable now : Z.
  Notation check_run := (check_run hashf padz truncf bs nlev reduced newino now).

  Theorem run_fix_restores o c bm fs par vs objs :
    plain nlev o -> co_fix o = true -> synced_array hashf padz bs c bm vs ->
    length fs = length (c_disks c) -> nlev <= length par -> no_larger c fs ->
    recoverable hashf padz bs nlev (co_nosearch o) c bm fs par vs -> objs_ok c objs ->
    let out := check_run o c par fs objs (seq 0 bm) in
    restored nlev c bm vs (r_fs (out_st out)) (r_par (out_st out))
    /\ out_fail out = false /\ r_unrec (out_st out) = 0
    /\ (forall key, fl_damaged (get_fl (r_flags (out_st out)) key) = false)
    /\ length (r_par (out_st out)) = length par.
  Proof.
    intros Hp Hf [S1 S2 S3 S4 S5] Hl Hpl Hnl [R1 R2 R3 Rv R4 R5] [O1 O2].
    exact (fix_run_restores hashf padz truncf bs nlev reduced newino now o c bm fs par vs Hp Hf S2 S3 Hl Hpl S4 S5 Hnl R1 R2 R3 Rv R4 R5 objs O1 O2 S1).
  Qed.



  (* the time-stamps after fix: every file with blocks is either exactly the file it was before the run (never written) or
     carries its recorded time-stamp *)
  Theorem run_fix_stamps o c bm fs par vs objs :
    plain nlev o -> co_fix o = true -> synced_array hashf padz bs c bm vs ->
    length fs = length (c_disks c) -> nlev <= length par -> no_larger c fs ->
    recoverable hashf padz bs nlev (co_nosearch o) c bm fs par vs -> objs_ok c objs ->
    let out := check_run o c par fs objs (seq 0 bm) in
    forall p j f i b, slot_of c p j = SFile f i b -> uniq_stamp c j f ->
      exists g, fs_find (r_fs (out_st out)) j (cf_name f) = Some g
                /\ ((ff_mtime g = cf_mtime f /\ ff_nsec g = cf_nsec f) \/ fs_find fs j (cf_name f) = Some g).
  Proof.
    intros Hp Hf [S1 S2 S3 S4 S5] Hl Hpl Hnl [R1 R2 R3 Rv R4 R5] [O1 O2].
    exact (fix_run_stamps hashf padz truncf bs nlev reduced newino now o c bm fs par vs Hp Hf S2 S3 Hl Hpl S4 S5 Hnl R1 R2 R3 Rv R4 R5 objs O1 O2 S1).
  Qed.

  (* the empty files and the hard links of the run are in order afterwards (also when the array has no block at all, bm = 0:
     the case repaired by 1f26379) *)
  Theorem run_fix_objects o c bm fs par vs objs :
    plain nlev o -> co_fix o = true -> synced_array hashf padz bs c bm vs ->
    length fs = length (c_disks c) -> nlev <= length par -> no_larger c fs ->
    recoverable hashf padz bs nlev (co_nosearch o) c bm fs par vs -> objs_ok c objs ->
    (forall ob, In ob objs -> ob_disk ob < length (c_disks c)) -> NoDup (map okey objs) ->
    let out := check_run o c par fs objs (seq 0 bm) in
    forall ob, In ob objs -> ob_kind ob = KEmpty \/ ob_kind ob = KHard -> obj_good (r_fs (out_st out)) ob.
  Proof.
    intros Hp Hf [S1 S2 S3 S4 S5] Hl Hpl Hnl [R1 R2 R3 Rv R4 R5] [O1 O2] Hd Hnd.
    exact (fix_run_objects hashf padz truncf bs nlev reduced newino now o c bm fs par vs Hp Hf S2 S3 Hl Hpl S4 S5 Hnl R1 R2 R3 Rv R4 R5 objs O1 O2 Hd Hnd S1).
  Qed.

  Theorem run_check_quiet o c bm fs par vs objs :
    plain nlev o -> co_fix o = false -> synced_array hashf padz bs c bm vs ->
    restored nlev c bm vs fs par -> (forall ob, In ob objs -> obj_good fs ob) ->
    let out := check_run o c par fs objs (seq 0 bm) in
    r_tags (out_st out) = [] /\ r_err (out_st out) = 0 /\ r_unrec (out_st out) = 0 /\ out_fail out = false
    /\ r_fs (out_st out) = fs /\ r_par (out_st out) = par.
  Proof.
    intros Hp Hc [S1 S2 S3 S4 S5] Hr Ho.
    exact (check_run_quiet hashf padz truncf bs nlev reduced newino now o c bm fs par vs Hp Hc S2 S3 S4 Hr objs Ho S1).
  Qed.

  Theorem run_fix_then_check_quiet o o' c bm fs par vs objs objs' :
    plain nlev o -> co_fix o = true -> synced_array hashf padz bs c bm vs ->
    length fs = length (c_disks c) -> nlev <= length par -> no_larger c fs ->
    recoverable hashf padz bs nlev (co_nosearch o) c bm fs par vs -> objs_ok c objs ->
    plain nlev o' -> co_fix o' = false ->
    let out := check_run o c par fs objs (seq 0 bm) in
    (forall ob, In ob objs' -> obj_good (r_fs (out_st out)) ob) ->
    let out' := check_run o' c (r_par (out_st out)) (r_fs (out_st out)) objs' (seq 0 bm) in
    r_tags (out_st out') = [] /\ r_err (out_st out') = 0 /\ r_unrec (out_st out') = 0 /\ out_fail out' = false
    /\ r_fs (out_st out') = r_fs (out_st out) /\ r_par (out_st out') = r_par (out_st out).
  Proof.
    intros Hp Hf Hs Hl Hpl Hnl Hr Ho Hp' Hc'. cbn zeta. intro Hg.
    destruct (run_fix_restores o c bm fs par vs objs Hp Hf Hs Hl Hpl Hnl Hr Ho) as [Hres _].
    exact (run_check_quiet o' c bm _ _ vs objs' Hp' Hc' Hs Hres Hg).
  Qed.

  Theorem run_check_exact o c bm fs par vs objs :
    plain nlev o -> co_fix o = false -> synced_array hashf padz bs c bm vs ->
    length fs = length (c_disks c) -> no_larger c fs ->
    recoverable hashf padz bs nlev (co_nosearch o) c bm fs par vs -> (forall ob, In ob objs -> obj_good fs ob) ->
    let out := check_run o c par fs objs (seq 0 bm) in
    let expected := flat_map (located_of hashf bs nlev o c fs par vs) (seq 0 bm) in
    filter is_located (r_tags (out_st out)) = expected
    /\ r_err (out_st out) = length expected
    /\ r_unrec (out_st out) = 0
    /\ (out_fail out = true <-> expected <> [])
    /\ r_fs (out_st out) = fs /\ r_par (out_st out) = par.
  Proof.
    intros Hp Hc [S1 S2 S3 S4 S5] Hl Hpr [R1 R2 R3 Rv R4 R5] Ho.
    exact (check_run_exact hashf padz truncf bs nlev reduced newino now o c bm fs par vs Hp Hc S2 S3 Hl S4 S5 Hpr R1 R2 R3 Rv R4 R5 objs Ho S1).
  Qed.
End Statements.
