(* The whole run: check_run of FixModel.v (the loop of stripe_step over all positions, then the empty files / links / dirs,
   then the clean-up and the exit status), lifted from the per-stripe theorems of StripeProofs.v. *)
From Coq Require Import NArith ZArith List Bool Arith Lia.
From Snap.Array Require Import ArrayDefs SyncProofsDefs.
From Snap.Fix Require Import FixModel RepairProofs StripeProofs.
Import ListNotations.
Local Opaque JBASE.

(* ---------------------------------------------------------------------------------------------------------- *)
(* small facts                                                                                                  *)
(* ---------------------------------------------------------------------------------------------------------- *)
Lemma block_len_le bs size idx : (block_len bs size idx <= bs)%N.
Proof.
  unfold block_len. destruct (N.succ (N.of_nat idx) * bs <=? size)%N eqn:E; [lia|].
  apply N.leb_gt in E. lia.
Qed.

Lemma fsz_some fs j n g : fs_find fs j n = Some g -> fsz fs j n = ff_size g.
Proof. intro H. unfold fsz. rewrite H. reflexivity. Qed.
Lemma fblk_some fs j n g i : fs_find fs j n = Some g -> fblk fs j n i = nth i (ff_blocks g) 0%N.
Proof. intro H. unfold fblk. rewrite H. reflexivity. Qed.

(* handle_read in terms of the size and the blocks of the file *)
Lemma read_block_fsz bs s j f idx :
  (0 < block_len bs (cf_size f) idx)%N ->
  read_block bs s j f idx
  = if (fsz (r_fs s) j (cf_name f) <? N.of_nat idx * bs + block_len bs (cf_size f) idx)%N then None
    else Some (fblk (r_fs s) j (cf_name f) idx).
Proof.
  intro H. unfold read_block, fsz, fblk. destruct (fs_find (r_fs s) j (cf_name f)); [reflexivity|].
  assert (E : (0 <? N.of_nat idx * bs + block_len bs (cf_size f) idx)%N = true) by (apply N.ltb_lt; lia).
  rewrite E. reflexivity.
Qed.

Lemma same_data_fsz' fs fs' j n : same_data (fs_find fs' j n) (fs_find fs j n) -> fsz fs' j n = fsz fs j n /\ forall i, fblk fs' j n i = fblk fs j n i.
Proof. unfold fsz, fblk. destruct (fs_find fs' j n), (fs_find fs j n); cbn; try tauto. intros [A B]. rewrite A, B. auto. Qed.

Lemma flat_map_ext_in2 {A B} (f g : A -> list B) l : (forall a, In a l -> f a = g a) -> flat_map f l = flat_map g l.
Proof.
  induction l as [|x t IH]; intro H; [reflexivity|]. cbn. rewrite (H x (or_introl eq_refl)). f_equal. apply IH. intros a Ha. apply H. right. exact Ha.
Qed.
Lemma filter_ext_in2 {A} (f g : A -> bool) l : (forall a, In a l -> f a = g a) -> filter f l = filter g l.
Proof.
  induction l as [|x t IH]; intro H; [reflexivity|]. cbn. rewrite (H x (or_introl eq_refl)). rewrite IH; [reflexivity|]. intros a Ha. apply H. right. exact Ha.
Qed.

(* ---------------------------------------------------------------------------------------------------------- *)
(* the shape of the content file that the run relies on (all consequences of C06's MapOK + distinct file names)  *)
(* ---------------------------------------------------------------------------------------------------------- *)
Record geom (bs : N) (c : content) (bm : nat) : Prop := {
  (* two slots of one disk that name the same file are blocks of that one file, in the order of their positions *)
  g_same : forall p1 p2 j f1 i1 b1 f2 i2 b2,
      slot_of c p1 j = SFile f1 i1 b1 -> slot_of c p2 j = SFile f2 i2 b2 -> cf_name f1 = cf_name f2 ->
      f1 = f2 /\ (p1 < p2 -> i1 < i2);
  (* a mapped block is a real block of its file *)
  g_wf : forall p j f i b, slot_of c p j = SFile f i b ->
      (0 < block_len bs (cf_size f) i)%N /\ (N.of_nat i * bs + block_len bs (cf_size f) i <= cf_size f)%N;
  (* nothing is mapped beyond the allocated size *)
  g_bm : forall p j f i b, slot_of c p j = SFile f i b -> p < bm
}.

Section Run.
  Variable hashf : bid -> N -> hval.
  Variable padz : bid -> N -> bool.
  Variable truncf : bid -> N -> bid.
  Variable bs : N.
  Variable nlev : nat.
  Variable reduced : bool.
  Variable newino : nat -> N -> N.
  Variable now : Z.

  Notation stripe_step := (stripe_step hashf padz truncf bs nlev reduced newino now).

  Lemma block_enabled_plain o c pos : plain nlev o -> stripe_synced c pos -> block_enabled nlev o c pos = true.
  Proof.
    intros Hp [_ [j Hj]]. unfold block_enabled. rewrite (pl_badfile nlev o Hp).
    apply orb_true_iff. right. apply existsb_exists. exists j.
    assert (Hjn : j < length (c_disks c)).
    { destruct (Nat.lt_ge_cases j (length (c_disks c))) as [H|H]; [exact H|]. rewrite slot_of_out in Hj by exact H. discriminate. }
    split; [apply in_seq; lia|]. rewrite slot_of_nth in Hj.
    destruct (nth j (c_disks c) None) as [d|]; [|discriminate]. destruct (slot_at d pos); try discriminate.
    rewrite (plain_not_excl nlev o j _ Hp). reflexivity.
  Qed.

  (* ---- the loop over the stripes, fix mode --------------------------------------------------------------------- *)
  Section FixLoop.
    Variable o : copts.
    Variable c : content.
    Variable bm : nat.
    Variable fs0 : list (option fsdisk).     (* the damaged data disks *)
    Variable par : parity.                   (* the damaged parity *)
    Variable vs : nat -> list bid.           (* the recorded vector of every stripe *)
    Hypothesis Hplain : plain nlev o.
    Hypothesis Hfix : co_fix o = true.
    Hypothesis Hsyn : forall p, p < bm -> stripe_synced c p.
    Hypothesis Hgeom : geom bs c bm.
    Hypothesis Hlen : length fs0 = length (c_disks c).
    Hypothesis Hparlen : nlev <= length par.
    Hypothesis Henc : forall p, p < bm -> enc_ok hashf bs c p (vs p).
    Hypothesis Hpad : forall p j f i b, slot_of c p j = SFile f i b -> pad_ok padz bs (vnth (vs p) j) (block_len bs (cf_size f) i) = true.
    (* no file is larger than recorded *)
    Hypothesis Hnl : forall p j f i b g, slot_of c p j = SFile f i b -> fs_find fs0 j (cf_name f) = Some g -> (ff_size g <= cf_size f)%N.

    Let s0 : rstate := mkRS fs0 [] par 0 0 0 [] 0%N.
    (* collision freedom, for every stripe, on the blocks of the damaged array *)
    Hypothesis CFdata : forall p j f i b y, slot_of c p j = SFile f i b -> read_block bs s0 j f i = Some y ->
                                          hash_ok hashf bs f i b y = true -> y = vnth (vs p) j.
    Let failed0 (p : nat) := flat_map (fent_of hashf bs c p s0) (seq 0 (length (c_disks c))).
    Let rec0 (p : nat) := map (prow par p) (seq 0 nlev).
    Hypothesis CFj : forall p, p < bm -> cf_junk hashf padz bs (failed0 p).
    Hypothesis CFr : forall p, p < bm -> cf_rec hashf padz bs (failed0 p) (rec0 p) (vs p).
    Hypothesis CFs : forall p, p < bm -> cf_search hashf bs (co_nosearch o) fs0 (failed0 p) (vs p).
    (* in every stripe: at most as many damaged data blocks as intact parity levels *)
    Hypothesis Hcount : forall p, p < bm ->
        length (filter (is_bad hashf bs c p s0) (seq 0 (length (c_disks c)))) <= length (filter (good_level (vs p) (rec0 p)) (seq 0 nlev)).

    Record rinv (k : nat) (s : rstate) : Prop := {
      ri_len : length (r_fs s) = length (c_disks c);
      ri_parlen : length (r_par s) = length par;
      ri_unrec : r_unrec s = 0;
      ri_dam : forall key, fl_damaged (get_fl (r_flags s) key) = false;
      ri_files : forall p j f i b, slot_of c p j = SFile f i b ->
          (fsz (r_fs s) j (cf_name f) <= cf_size f)%N
          /\ (p < k -> fblk (r_fs s) j (cf_name f) i = vnth (vs p) j
                       /\ (N.of_nat i * bs + block_len bs (cf_size f) i <= fsz (r_fs s) j (cf_name f))%N)
          /\ (k <= p -> fblk (r_fs s) j (cf_name f) i = fblk fs0 j (cf_name f) i
                        /\ ((N.of_nat i * bs + block_len bs (cf_size f) i <= fsz (r_fs s) j (cf_name f))%N
                            <-> (N.of_nat i * bs + block_len bs (cf_size f) i <= fsz fs0 j (cf_name f))%N));
      ri_par : forall p l, (p < k -> l < nlev -> par_matches (vs p) (prow (r_par s) p l) = true)
                           /\ (k <= p -> nth p (nth l (r_par s) []) PNone = nth p (nth l par []) PNone)
    }.

    Lemma rinv_0 : rinv 0 s0.
    Proof.
      constructor; cbn; auto.
      - intros p j f i b Hs. split.
        + unfold fsz. destruct (fs_find fs0 j (cf_name f)) as [g|] eqn:E; [apply (Hnl p j f i b g Hs E) | lia].
        + split; [intro X; lia | intros _; split; [reflexivity | tauto]].
      - intros p l. split; [intros X; lia | reflexivity].
    Qed.

    (* reading an unprocessed block gives what it gave in the damaged array *)
    Lemma rinv_read k s p j f i b : rinv k s -> k <= p -> slot_of c p j = SFile f i b -> read_block bs s j f i = read_block bs s0 j f i.
    Proof.
      intros I Hk Hs. destruct (g_wf bs c bm Hgeom p j f i b Hs) as [Hl _].
      rewrite !read_block_fsz by exact Hl.
      destruct (ri_files k s I p j f i b Hs) as [_ [_ H]]. destruct (H Hk) as [Hb Hz]. change (r_fs s0) with fs0.
      rewrite Hb.
      destruct (fsz (r_fs s) j (cf_name f) <? N.of_nat i * bs + block_len bs (cf_size f) i)%N eqn:E1,
               (fsz fs0 j (cf_name f) <? N.of_nat i * bs + block_len bs (cf_size f) i)%N eqn:E2; try reflexivity.
      - apply N.ltb_lt in E1. apply N.ltb_ge in E2. apply Hz in E2. lia.
      - apply N.ltb_ge in E1. apply N.ltb_lt in E2. apply Hz in E1. lia.
    Qed.

    Lemma rinv_is_bad k s j : rinv k s -> k < bm -> is_bad hashf bs c k s j = is_bad hashf bs c k s0 j.
    Proof.
      intros I Hk. unfold is_bad. destruct (slot_of c k j) as [|f i b|h] eqn:Es; try reflexivity.
      rewrite (rinv_read k s k j f i b I (le_n k) Es). reflexivity.
    Qed.

    Lemma rinv_step k s : rinv k s -> k < bm -> rinv (S k) (stripe_step o c fs0 s k).
    Proof.
      intros I Hk.
      assert (Ebad : forall j, is_bad hashf bs c k s j = is_bad hashf bs c k s0 j) by (intro j; apply (rinv_is_bad k s j I Hk)).
      assert (Efailed : flat_map (fent_of hashf bs c k s) (seq 0 (length (c_disks c))) = failed0 k).
      { unfold failed0. apply flat_map_ext_in2. intros j _. unfold fent_of. rewrite Ebad. reflexivity. }
      assert (Erec : map (prow (r_par s) k) (seq 0 nlev) = rec0 k).
      { unfold rec0. apply map_ext. intro l. unfold prow. apply (ri_par k s I k l). lia. }
      assert (Hfile : forall j f i b, slot_of c k j = SFile f i b ->
                (0 < block_len bs (cf_size f) i)%N
                /\ (forall g, fs_find (r_fs s) j (cf_name f) = Some g -> (ff_size g <= cf_size f)%N)
                /\ (co_fix o = true \/ fl_missing (get_fl (r_flags s) (j, cf_name f)) = false)).
      { intros j f i b Hs. destruct (g_wf bs c bm Hgeom k j f i b Hs) as [Hl _]. split; [exact Hl|]. split; [|left; exact Hfix].
        intros g Hg. destruct (ri_files k s I k j f i b Hs) as [Hz _]. rewrite (fsz_some _ _ _ _ Hg) in Hz. exact Hz. }
      assert (CFd : forall j f i b y, slot_of c k j = SFile f i b -> read_block bs s j f i = Some y -> hash_ok hashf bs f i b y = true -> y = vnth (vs k) j).
      { intros j f i b y Hs Hr. rewrite (rinv_read k s k j f i b I (le_n k) Hs) in Hr. apply (CFdata k j f i b y Hs Hr). }
      assert (CFj' : cf_junk hashf padz bs (flat_map (fent_of hashf bs c k s) (seq 0 (length (c_disks c))))) by (rewrite Efailed; apply CFj; exact Hk).
      assert (CFr' : cf_rec hashf padz bs (flat_map (fent_of hashf bs c k s) (seq 0 (length (c_disks c)))) (map (prow (r_par s) k) (seq 0 nlev)) (vs k)) by (rewrite Efailed, Erec; apply CFr; exact Hk).
      assert (CFs' : cf_search hashf bs (co_nosearch o) fs0 (flat_map (fent_of hashf bs c k s) (seq 0 (length (c_disks c)))) (vs k)) by (rewrite Efailed; apply CFs; exact Hk).
      assert (Hcnt : length (filter (is_bad hashf bs c k s) (seq 0 (length (c_disks c)))) <= length (filter (good_level (vs k) (map (prow (r_par s) k) (seq 0 nlev))) (seq 0 nlev))).
      { rewrite (filter_ext_in2 _ _ _ (fun j _ => Ebad j)), Erec. apply Hcount. exact Hk. }
      assert (Hpl : nlev <= length (r_par s)) by (rewrite (ri_parlen k s I); exact Hparlen).
      assert (Hdm : forall j f i b, slot_of c k j = SFile f i b -> fl_damaged (get_fl (r_flags s) (j, cf_name f)) = false) by (intros; apply (ri_dam k s I)).
      assert (Hwf : forall j f i b, slot_of c k j = SFile f i b -> (N.of_nat i * bs + block_len bs (cf_size f) i <= cf_size f)%N).
      { intros j f i b Hs. apply (g_wf bs c bm Hgeom k j f i b Hs). }
      destruct (fix_step_full hashf padz truncf bs nlev reduced newino now o c fs0 k s (vs k) Hplain Hfix (Hsyn k Hk) (ri_len k s I)
                  Hfile (Henc k Hk) (fun j f i b Hs => Hpad k j f i b Hs) CFd CFj' CFr' CFs' Hcnt Hpl Hdm Hwf)
        as [A [B [C [D [E [F1 [F2 [F3 F4]]]]]]]].
      set (s' := stripe_step o c fs0 s k) in *.
      (* what the step does to the file named by an arbitrary slot (p, j, f, i, b) *)
      assert (Hcase : forall p j f i b, slot_of c p j = SFile f i b ->
                (exists ik bk, slot_of c k j = SFile f ik bk /\ (p < k -> i < ik) /\ (k < p -> ik < i) /\ (p = k -> i = ik))
                \/ (fsz (r_fs s') j (cf_name f) = fsz (r_fs s) j (cf_name f) /\ forall x, fblk (r_fs s') j (cf_name f) x = fblk (r_fs s) j (cf_name f) x)).
      { intros p j f i b Hs. destruct (slot_of c k j) as [|fk ik bk|h] eqn:Ek.
        - right. apply same_data_fsz'. apply (F3 j (cf_name f)). intros f' i' b' X. rewrite Ek in X. discriminate X.
        - destruct (N.eq_dec (cf_name fk) (cf_name f)) as [En|En].
          + left. destruct (g_same bs c bm Hgeom k p j fk ik bk f i b Ek Hs En) as [Ef H1]. subst fk.
            destruct (g_same bs c bm Hgeom p k j f i b f ik bk Hs Ek eq_refl) as [_ H2].
            exists ik, bk. repeat split; auto. intro X. subst p. rewrite Ek in Hs. injection Hs as Hi _. auto.
          + right. apply same_data_fsz'. apply (F3 j (cf_name f)). intros f' i' b' X. rewrite Ek in X. injection X as X1 X2 X3. subst f'. exact En.
        - right. apply same_data_fsz'. apply (F3 j (cf_name f)). intros f' i' b' X. rewrite Ek in X. discriminate X. }
      constructor.
      - rewrite E. apply (ri_len k s I).
      - rewrite F2. apply (ri_parlen k s I).
      - rewrite C. apply (ri_unrec k s I).
      - intro key. rewrite (D key). apply (ri_dam k s I).
      - intros p j f i b Hs. destruct (ri_files k s I p j f i b Hs) as [Rz [Rlt Rge]].
        destruct (g_wf bs c bm Hgeom p j f i b Hs) as [Hl Hw].
        destruct (Hcase p j f i b Hs) as [[ik [bk [Ek [Hlt [Hgt Heq]]]]]|[Ez Eb]].
        + (* the file has a block in this stripe *)
          destruct (F4 j f ik bk Ek) as [G1 [G2 G3]].
          destruct (g_wf bs c bm Hgeom k j f ik bk Ek) as [Hlk Hwk].
          pose proof (block_len_le bs (cf_size f) ik) as Hbl.
          split; [lia|]. split.
          * intro Hp. destruct (Nat.eq_dec p k) as [Epk|Epk].
            -- subst p. rewrite Ek in Hs. injection Hs as Hi Hb'. subst ik bk.
               destruct (A j f i b Ek) as [g [Hg [Hn [Hs1 Hs2]]]].
               rewrite (fblk_some _ _ _ _ _ Hg), (fsz_some _ _ _ _ Hg). auto.
            -- assert (Hpk : p < k) by lia. destruct (Rlt Hpk) as [R1 R2].
               rewrite G1 by (specialize (Hlt Hpk); lia). split; [exact R1 | lia].
          * intro Hp. assert (Hkp : k < p) by lia. specialize (Hgt Hkp). destruct (Rge ltac:(lia)) as [R1 R2].
            rewrite G1 by lia. split; [exact R1|]. rewrite <- R2.
            assert (Hoff : (N.of_nat ik * bs + block_len bs (cf_size f) ik <= N.of_nat i * bs)%N) by nia.
            split; intro X; lia.
        + rewrite Ez, Eb. split; [exact Rz|]. split.
          * intro Hp. destruct (Nat.eq_dec p k) as [Epk|Epk].
            -- subst p. destruct (A j f i b Hs) as [g [Hg [Hn [Hs1 Hs2]]]].
               rewrite <- Eb, <- Ez, (fblk_some _ _ _ _ _ Hg), (fsz_some _ _ _ _ Hg). auto.
            -- apply Rlt. lia.
          * intro Hp. apply Rge. lia.
      - intros p l. destruct (ri_par k s I p l) as [R1 R2]. split.
        + intros Hp Hl. destruct (Nat.eq_dec p k) as [Epk|Epk]; [subst p; apply B; exact Hl|].
          unfold prow. rewrite (F1 l p Epk). apply R1; [lia | exact Hl].
        + intro Hp. rewrite (F1 l p ltac:(lia)). apply R2. lia.
    Qed.

    Lemma rinv_loop : forall k, k <= bm ->
      rinv k (fold_left (fun s pos => if block_enabled nlev o c pos then stripe_step o c fs0 s pos else s) (seq 0 k) s0).
    Proof.
      induction k as [|k IH]; intro Hk; [apply rinv_0|].
      rewrite seq_S, fold_left_app. cbn [fold_left plus].
      rewrite (block_enabled_plain o c k Hplain (Hsyn k ltac:(lia))). apply rinv_step; [apply IH; lia | lia].
    Qed.
  End FixLoop.
End Run.
