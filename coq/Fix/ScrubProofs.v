(* Proofs about the scrub detection step (Fix/ScrubStep.v over C15's Scrub/ScrubModel.v): on a synced stripe whose files
   keep size and time-stamp, the stripe is marked bad exactly when a data block or a parity block differs from the
   recorded one; nothing is reported or marked on an undamaged stripe. *)
From Coq Require Import NArith ZArith List Bool Arith Lia.
From Snap.Array Require Import ArrayDefs SyncProofsDefs.
From Snap.Fix Require Import FixModel ScrubStep RepairProofs StripeProofs.
Require Snap.Scrub.ScrubModel.
Import ListNotations.

Module SM := Snap.Scrub.ScrubModel.

Lemma flat_map_ext_in' {A B} (f g : A -> list B) l : (forall a, In a l -> f a = g a) -> flat_map f l = flat_map g l.
Proof.
  induction l as [|x t IH]; intro H; [reflexivity|]. cbn. rewrite (H x (or_introl eq_refl)). f_equal. apply IH. intros a Ha. apply H. right. exact Ha.
Qed.

Section ScrubP.
  Variable hashf : bid -> N -> hval.
  Variable bs : N.
  Variable nlev : nat.
  Variable io_limit : N.
  Variable c : content.
  Variable par : parity.
  Variable fs : list (option fsdisk).
  Variable pos : nat.
  Hypothesis Hsync : stripe_synced c pos.
  (* silent corruption only: every file of the stripe is there with its recorded size and time-stamp *)
  Hypothesis Hmeta : forall j f idx b, slot_of c pos j = SFile f idx b ->
      exists g, fs_find fs j (cf_name f) = Some g /\ ff_size g = cf_size f /\ ff_mtime g = cf_mtime f /\ ff_nsec g = cf_nsec f
                /\ (N.of_nat idx * bs + block_len bs (cf_size f) idx <= cf_size f)%N.
  (* every level has a block at this position *)
  Hypothesis Hpar : forall l, l < nlev -> prow par pos l <> PNone.

  Let n := length (c_disks c).
  (* the block on disk *)
  Definition sblock (j : nat) : bid :=
    match slot_of c pos j with
    | SFile f idx b => match fs_find fs j (cf_name f) with Some g => nth idx (ff_blocks g) 0%N | None => 0%N end
    | _ => 0%N end.
  Definition sbad (j : nat) : bool :=
    match slot_of c pos j with
    | SFile f idx b => negb (hval_eqb (hashf (sblock j) (block_len bs (cf_size f) idx)) (fb_hash b))
    | _ => false end.
  Definition sbuf : list bid := map sblock (seq 0 n).
  Definition pbad (l : nat) : bool := negb (par_matches sbuf (prow par pos l)).

  Lemma sc_data_spec j : j < n ->
    sc_data hashf bs c fs pos j =
    match slot_of c pos j with
    | SFile f idx b =>
        (mk_task true SM.BLOCK_BLK false SM.TASK_DONE (negb (sbad j)), sblock j,
         if sbad j then [(K_SC_DATA, [N.of_nat pos; N.of_nat j; cf_name f; N.of_nat idx])] else [])
    | _ => (mk_task (match nth j (c_disks c) None with Some _ => true | None => false end) SM.BLOCK_EMPTY false SM.TASK_DONE true, 0%N, [])
    end.
  Proof.
    intro Hj. unfold sc_data. pose proof (slot_of_nth c pos j) as Hs.
    destruct (nth j (c_disks c) None) as [d|] eqn:Ed.
    - destruct (slot_at d pos) as [|f idx b|h] eqn:Es.
      + rewrite Hs. reflexivity.
      + rewrite Hs. destruct (Hmeta j f idx b Hs) as [g [Hg [H1 [H2 [H3 H4]]]]].
        unfold fs_find in Hg. rewrite Hg. rewrite H1, H2, H3, !N.eqb_refl, !Z.eqb_refl. cbn [negb orb].
        assert (E : (cf_size f <? N.of_nat idx * bs + block_len bs (cf_size f) idx)%N = false) by (apply N.ltb_ge; exact H4).
        rewrite E.
        assert (Hst : fb_state b = SBlk).
        { destruct Hsync as [X _]. specialize (X j). rewrite Hs in X. exact X. }
        unfold sc_block. rewrite Hst. unfold sbad, sblock. rewrite Hs. unfold fs_find. rewrite Hg.
        cbn [SM.block_has_updated_hash andb]. rewrite negb_involutive.
        destruct (hval_eqb (hashf (nth idx (ff_blocks g) 0%N) (block_len bs (cf_size f) idx)) (fb_hash b)); reflexivity.
      + destruct Hsync as [X _]. specialize (X j). rewrite Hs in X. contradiction.
    - rewrite Hs. reflexivity.
  Qed.

  (* ---- C15's stripe book-keeping on tasks that are all DONE and synced ---------------------------------------------- *)
  Definition dtask (j : nat) : SM.data_task := fst (fst (sc_data hashf bs c fs pos j)).

  Record fl_rel (f0 f : SM.stripe_flags) (extra_silent : bool) : Prop := {
    fr_err : SM.error_on_this_block f = SM.error_on_this_block f0;
    fr_io : SM.io_error_on_this_block f = SM.io_error_on_this_block f0;
    fr_uns : SM.block_is_unsynced f = SM.block_is_unsynced f0;
    fr_sil : SM.silent_error_on_this_block f = SM.silent_error_on_this_block f0 || extra_silent
  }.

  Lemma data_fold : forall js f0 c0, (forall j, In j js -> j < n) ->
    exists f c', SM.fold_opt (SM.data_step io_limit) (f0, c0) (map dtask js) = Some (f, c')
                 /\ fl_rel f0 f (existsb sbad js)
                 /\ SM.c_silent c' = (SM.c_silent c0 + N.of_nat (length (filter sbad js)))%N
                 /\ SM.c_error c' = SM.c_error c0 /\ SM.c_io c' = SM.c_io c0.
  Proof.
    induction js as [|j t IH]; intros f0 c0 Hjs.
    - exists f0, c0. cbn. split; [reflexivity|]. split; [constructor; auto; rewrite orb_false_r; reflexivity|]. repeat split; lia.
    - cbn [map SM.fold_opt]. unfold dtask at 1. rewrite sc_data_spec by (apply Hjs; left; reflexivity).
      assert (Ht : forall j', In j' t -> j' < n) by (intros; apply Hjs; right; assumption).
      destruct (slot_of c pos j) as [|f idx b|h] eqn:Es.
      + (* empty slot *)
        cbn [fst]. unfold SM.data_step, mk_task. cbn.
        destruct (nth j (c_disks c) None) as [d|]; cbn.
        * destruct (IH (SM.or_unsynced f0 false) c0 Ht) as [f [c' [E [R [A [B C]]]]]].
          exists f, c'. split; [exact E|]. destruct R as [R1 R2 R3 R4]. cbn in *.
          split; [constructor; cbn; auto; try (rewrite R3; apply orb_false_r)|].
          -- unfold sbad at 1. rewrite Es. cbn. exact R4.
          -- unfold sbad at 1. rewrite Es. cbn. auto.
        * destruct (IH f0 c0 Ht) as [f [c' [E [R [A [B C]]]]]].
          exists f, c'. split; [exact E|]. unfold sbad at 1 3. rewrite Es. cbn. auto.
      + cbn [fst]. unfold SM.data_step, mk_task. cbn.
        destruct (sbad j) eqn:Eb; cbn.
        * destruct (IH (SM.set_silent (SM.or_unsynced (SM.or_unsynced f0 false) false)) (SM.inc_silent c0) Ht) as [f' [c' [E [R [A [B C]]]]]].
          exists f', c'. split; [exact E|]. destruct R as [R1 R2 R3 R4]. cbn in *.
          split; [constructor; cbn; auto; try (rewrite R3, !orb_false_r; reflexivity)|].
          -- rewrite R4. rewrite orb_true_r. reflexivity.
          -- repeat split; auto. rewrite A. lia.
        * destruct (IH (SM.or_unsynced (SM.or_unsynced f0 false) false) c0 Ht) as [f' [c' [E [R [A [B C]]]]]].
          exists f', c'. split; [exact E|]. destruct R as [R1 R2 R3 R4]. cbn in *.
          split; [constructor; cbn; auto; try (rewrite R3, !orb_false_r; reflexivity)|]. auto.
      + destruct Hsync as [X _]. specialize (X j). rewrite Es in X. contradiction.
  Qed.

  Definition ptask (l : nat) : SM.parity_task * list tag :=
    match nth pos (nth l par []) PNone with
    | PNone => ({| SM.pt_state := SM.TASK_ERROR_CONTINUE; SM.pt_equal := true |}, [(K_SC_PAR_READ, [N.of_nat pos; N.of_nat l])])
    | p => ({| SM.pt_state := SM.TASK_DONE; SM.pt_equal := par_matches (map (fun x => snd (fst x)) (map (sc_data hashf bs c fs pos) (seq 0 n))) p |}, [])
    end.

  Lemma sbuf_eq : map (fun x => snd (fst x)) (map (sc_data hashf bs c fs pos) (seq 0 n)) = sbuf.
  Proof.
    unfold sbuf. rewrite map_map. apply map_ext_in. intros j Hj. apply in_seq in Hj.
    rewrite sc_data_spec by lia. unfold sblock. destruct (slot_of c pos j); reflexivity.
  Qed.

  Lemma ptask_spec l : l < nlev -> ptask l = ({| SM.pt_state := SM.TASK_DONE; SM.pt_equal := negb (pbad l) |}, []).
  Proof.
    intro Hl. unfold ptask, pbad. rewrite sbuf_eq. specialize (Hpar l Hl). unfold prow in *.
    destruct (nth pos (nth l par []) PNone); [| |congruence]; rewrite negb_involutive; reflexivity.
  Qed.

  Lemma parity_fold_done : forall ls st, (forall l, In l ls -> l < nlev) ->
    SM.fold_opt (SM.parity_step io_limit) st (map (fun l => fst (ptask l)) ls) = Some st.
  Proof.
    induction ls as [|l t IH]; intros st H; [reflexivity|].
    cbn [map SM.fold_opt]. rewrite ptask_spec by (apply H; left; reflexivity). destruct st as [f c0]. cbn. apply IH. intros; apply H; right; assumption.
  Qed.

  Lemma compare_fold_done : forall ls f0 c0, (forall l, In l ls -> l < nlev) -> SM.block_is_unsynced f0 = false ->
    let r := fold_left SM.compare_step (map (fun l => fst (ptask l)) ls) (f0, c0) in
    fl_rel f0 (fst r) (existsb pbad ls)
    /\ SM.c_silent (snd r) = (SM.c_silent c0 + N.of_nat (length (filter pbad ls)))%N
    /\ SM.c_error (snd r) = SM.c_error c0 /\ SM.c_io (snd r) = SM.c_io c0.
  Proof.
    induction ls as [|l t IH]; intros f0 c0 H Hu; cbn zeta.
    - cbn. split; [constructor; auto; rewrite orb_false_r; reflexivity|]. repeat split; lia.
    - cbn [map fold_left]. rewrite ptask_spec by (apply H; left; reflexivity). cbn [fst SM.compare_step SM.pt_state SM.pt_equal].
      assert (Ht : forall l', In l' t -> l' < nlev) by (intros; apply H; right; assumption).
      rewrite negb_involutive. cbn [existsb filter]. destruct (pbad l) eqn:Eb; cbn [orb negb].
      + rewrite Hu. specialize (IH (SM.set_silent f0) (SM.inc_silent c0) Ht Hu). cbn zeta in IH.
        destruct IH as [[R1 R2 R3 R4] [A [B C]]]. cbn in *.
        split; [constructor; auto; rewrite R4; cbn; destruct (SM.silent_error_on_this_block f0); reflexivity|]. repeat split; auto. rewrite A. lia.
      + specialize (IH f0 c0 Ht Hu). cbn zeta in IH. exact IH.
  Qed.

  (* the tags of the data loop *)
  Definition dtags (j : nat) : list tag :=
    match slot_of c pos j with
    | SFile f idx b => if sbad j then [(K_SC_DATA, [N.of_nat pos; N.of_nat j; cf_name f; N.of_nat idx])] else []
    | _ => [] end.

  Theorem scrub_stripe_spec cnt :
    exists o, scrub_stripe hashf bs nlev io_limit cnt c par fs pos = Some o
      /\ so_bad o = existsb sbad (seq 0 n) || existsb pbad (seq 0 nlev)
      /\ so_refreshed o = negb (so_bad o)
      /\ so_tags o = flat_map dtags (seq 0 n)
                     ++ (if existsb sbad (seq 0 n) then [] else map (fun l => (K_SC_PAR_DATA, [N.of_nat pos; N.of_nat l])) (filter pbad (seq 0 nlev)))
      /\ SM.c_error (so_cnt o) = SM.c_error cnt /\ SM.c_io (so_cnt o) = SM.c_io cnt
      /\ SM.c_silent (so_cnt o) = (SM.c_silent cnt + N.of_nat (length (filter sbad (seq 0 n)))
                                   + (if existsb sbad (seq 0 n) then 0 else N.of_nat (length (filter pbad (seq 0 nlev)))))%N.
  Proof.
    unfold scrub_stripe. fold n.
    match goal with |- context [map ?f (seq 0 nlev)] => set (pt := f) end.
    assert (Hpt : pt = ptask) by reflexivity. rewrite Hpt. clear Hpt pt.
    set (ds := map (sc_data hashf bs c fs pos) (seq 0 n)).
    assert (Edt : map (fun x : SM.data_task * bid * list tag => fst (fst x)) ds = map dtask (seq 0 n)) by (unfold ds; rewrite map_map; reflexivity).
    assert (Ept : map fst (map ptask (seq 0 nlev)) = map (fun l => fst (ptask l)) (seq 0 nlev)) by (rewrite map_map; reflexivity).
    rewrite Edt, Ept.
    assert (Hin : forall j, In j (seq 0 n) -> j < n) by (intros j H; apply in_seq in H; lia).
    assert (Hil : forall l, In l (seq 0 nlev) -> l < nlev) by (intros l H; apply in_seq in H; lia).
    destruct (data_fold (seq 0 n) SM.no_flags cnt Hin) as [f1 [c1 [E1 [[R1 R2 R3 R4] [A1 [B1 C1]]]]]].
    unfold SM.stripe_outcome. rewrite E1. rewrite (parity_fold_done (seq 0 nlev) (f1, c1) Hil).
    cbn in R1, R2, R3, R4.
    assert (Etags : flat_map (fun x : SM.data_task * bid * list tag => snd x) ds = flat_map dtags (seq 0 n)).
    { unfold ds. rewrite flat_map_concat_map, map_map, <- flat_map_concat_map. apply flat_map_ext_in'.
      intros j Hj. rewrite sc_data_spec by (apply Hin; exact Hj). unfold dtags. destruct (slot_of c pos j); reflexivity. }
    assert (Eptags : flat_map snd (map ptask (seq 0 nlev)) = []).
    { rewrite flat_map_concat_map, map_map, <- flat_map_concat_map. apply flat_map_nil.
      intros l Hl. rewrite ptask_spec by (apply Hil; exact Hl). reflexivity. }
    rewrite Etags, Eptags, app_nil_l.
    assert (Ee : SM.error_on_this_block f1 = false) by exact R1.
    assert (Ei : SM.io_error_on_this_block f1 = false) by exact R2.
    destruct (existsb sbad (seq 0 n)) eqn:Esb.
    - (* a data block is bad: the parity is not compared *)
      assert (Es1 : SM.silent_error_on_this_block f1 = true) by exact R4.
      rewrite Ee, Es1, Ei. cbn [negb andb orb].
      eexists. split; [reflexivity|]. cbn [so_bad so_refreshed so_tags so_cnt]. rewrite Ee, Es1, Ei. cbn [negb andb orb].
      rewrite app_nil_r. split; [reflexivity|]. split; [reflexivity|]. split; [reflexivity|].
      split; [exact B1|]. split; [exact C1|]. rewrite A1. lia.
    - (* the data is fine: the parity is compared *)
      assert (Es1 : SM.silent_error_on_this_block f1 = false) by exact R4.
      rewrite Ee, Es1, Ei. cbn [negb andb orb].
      destruct (compare_fold_done (seq 0 nlev) f1 c1 Hil R3) as [[Q1 Q2 Q3 Q4] [A2 [B2 C2]]].
      destruct (fold_left SM.compare_step (map (fun l => fst (ptask l)) (seq 0 nlev)) (f1, c1)) as [f2 c2] eqn:Ec. cbn [fst snd] in *.
      eexists. split; [reflexivity|]. cbn [so_bad so_refreshed so_tags so_cnt].
      rewrite Q1, Q2, Q4, Ee, Es1, Ei. cbn [negb andb orb]. rewrite !orb_false_r.
      split; [reflexivity|]. split; [rewrite andb_true_r; reflexivity|].
      split.
      + f_equal. clear - Hil Hpar Hmeta Hsync.
        induction (seq 0 nlev) as [|l t IH]; [reflexivity|].
        cbn [map combine flat_map filter]. rewrite ptask_spec by (apply Hil; left; reflexivity).
        cbn [SM.pt_state SM.pt_equal]. rewrite negb_involutive.
        rewrite IH by (intros l' Hl'; apply Hil; right; exact Hl').
        destruct (pbad l); reflexivity.
      + split; [congruence|]. split; [congruence|]. rewrite A2, A1. lia.
  Qed.

  (* nothing damaged: nothing is reported, nothing is marked, the time-stamp of the stripe is refreshed *)
  Corollary scrub_stripe_quiet cnt :
    (forall j, sbad j = false) -> (forall l, l < nlev -> pbad l = false) ->
    exists o, scrub_stripe hashf bs nlev io_limit cnt c par fs pos = Some o
              /\ so_bad o = false /\ so_refreshed o = true /\ so_tags o = []
              /\ SM.c_error (so_cnt o) = SM.c_error cnt /\ SM.c_io (so_cnt o) = SM.c_io cnt /\ SM.c_silent (so_cnt o) = SM.c_silent cnt.
  Proof.
    intros Hd Hp. destruct (scrub_stripe_spec cnt) as [o [E [B [R [T [C1 [C2 C3]]]]]]].
    assert (E1 : existsb sbad (seq 0 n) = false).
    { destruct (existsb sbad (seq 0 n)) eqn:X; [|reflexivity]. apply existsb_exists in X. destruct X as [j [_ X]]. rewrite Hd in X. discriminate. }
    assert (E2 : existsb pbad (seq 0 nlev) = false).
    { destruct (existsb pbad (seq 0 nlev)) eqn:X; [|reflexivity]. apply existsb_exists in X. destruct X as [l [Hl X]]. apply in_seq in Hl. rewrite Hp in X by lia. discriminate. }
    assert (F1 : filter sbad (seq 0 n) = []) by (apply filter_nil; intros; apply Hd).
    assert (F2 : filter pbad (seq 0 nlev) = []) by (apply filter_nil; intros l Hl; apply in_seq in Hl; apply Hp; lia).
    assert (T0 : flat_map dtags (seq 0 n) = []).
    { apply flat_map_nil. intros j _. unfold dtags. destruct (slot_of c pos j); try reflexivity. rewrite Hd. reflexivity. }
    exists o. rewrite E1, E2 in *. rewrite F1, F2, T0 in *. cbn in *. rewrite B in R. cbn in R.
    repeat split; auto. rewrite C3. lia.
  Qed.

End ScrubP.
