(* scrub over a whole plan (scrub_run of ScrubStep.v), lifted from the per-stripe theorem scrub_stripe_spec of ScrubProofs.v *)
From Coq Require Import NArith ZArith List Bool Arith Lia.
From Snap.Array Require Import ArrayDefs SyncProofsDefs.
From Snap.Fix Require Import FixModel ScrubStep RepairProofs StripeProofs ScrubProofs.
Require Snap.Scrub.ScrubModel.
Import ListNotations.
Local Open Scope N_scope.

Section ScrubRun.
  Variable hashf : bid -> N -> hval.
  Variable bs : N.
  Variable nlev : nat.
  Variable io_limit : N.
  Variable c : content.
  Variable par : parity.
  Variable fs : list (option fsdisk).

  (* what scrub must do at a selected stripe: is it damaged, what is reported, how many silent errors *)
  Definition sc_bad (pos : nat) : bool :=
    existsb (sbad hashf bs c fs pos) (seq 0 (length (c_disks c))) || existsb (pbad c par fs pos) (seq 0 nlev).
  Definition sc_tags (pos : nat) : list tag :=
    flat_map (dtags hashf bs c fs pos) (seq 0 (length (c_disks c)))
    ++ (if existsb (sbad hashf bs c fs pos) (seq 0 (length (c_disks c))) then []
        else map (fun l => (K_SC_PAR_DATA, [N.of_nat pos; N.of_nat l])) (filter (pbad c par fs pos) (seq 0 nlev))).
  Definition sc_silent (pos : nat) : N :=
    N.of_nat (length (filter (sbad hashf bs c fs pos) (seq 0 (length (c_disks c)))))
    + (if existsb (sbad hashf bs c fs pos) (seq 0 (length (c_disks c))) then 0
       else N.of_nat (length (filter (pbad c par fs pos) (seq 0 nlev)))).

  (* the side conditions of C04_scrub_locates, for one stripe *)
  Definition sc_ok (pos : nat) : Prop :=
    stripe_synced c pos
    /\ (forall j f idx b, slot_of c pos j = SFile f idx b ->
          exists g, fs_find fs j (cf_name f) = Some g /\ ff_size g = cf_size f /\ ff_mtime g = cf_mtime f /\ ff_nsec g = cf_nsec f
                    /\ (N.of_nat idx * bs + block_len bs (cf_size f) idx <= cf_size f)%N)
    /\ (forall l, (l < nlev)%nat -> prow par pos l <> PNone).

  Lemma scrub_loop_exact : forall sel acc, (forall p, In p sel -> sc_ok p) ->
    let r := scrub_loop hashf bs nlev io_limit c par fs sel acc in
    sr_bad r = sr_bad acc ++ filter sc_bad sel
    /\ sr_refreshed r = sr_refreshed acc ++ filter (fun p => negb (sc_bad p)) sel
    /\ sr_tags r = sr_tags acc ++ flat_map sc_tags sel
    /\ SM.c_error (sr_cnt r) = SM.c_error (sr_cnt acc) /\ SM.c_io (sr_cnt r) = SM.c_io (sr_cnt acc)
    /\ SM.c_silent (sr_cnt r) = SM.c_silent (sr_cnt acc) + fold_right (fun p a => sc_silent p + a) 0 sel
    /\ (sel <> [] -> sr_bailed r = false).
  Proof.
    induction sel as [|pos rest IH]; intros acc Hok; cbn [scrub_loop].
    - cbn. rewrite !app_nil_r. repeat split; auto; try lia. intro H. congruence.
    - destruct (Hok pos (or_introl eq_refl)) as [H1 [H2 H3]].
      destruct (scrub_stripe_spec hashf bs nlev io_limit c par fs pos H1 H2 H3 (sr_cnt acc)) as [o [E [B1 [B2 [B3 [B4 [B5 B6]]]]]]].
      rewrite E.
      match goal with |- context [scrub_loop _ _ _ _ _ _ _ rest ?a] => set (acc1 := a) end.
      destruct (IH acc1 (fun p Hp => Hok p (or_intror Hp))) as [C1 [C2 [C3 [C4 [C5 [C6 C7]]]]]].
      cbn zeta in *. fold (sc_bad pos) in B1. fold (sc_tags pos) in B3.
      assert (Hb : sr_bailed (scrub_loop hashf bs nlev io_limit c par fs rest acc1) = false).
      { revert C7. clear. destruct rest as [|p2 rest2]; intro C7; [reflexivity | apply C7; discriminate]. }
      split; [rewrite C1; unfold acc1; cbn [sr_bad filter]; rewrite B1; destruct (sc_bad pos); rewrite <- ?app_assoc; reflexivity|].
      split; [rewrite C2; unfold acc1; cbn [sr_refreshed filter]; rewrite B2, B1; destruct (sc_bad pos); cbn [negb]; rewrite <- ?app_assoc; reflexivity|].
      split; [rewrite C3; unfold acc1; cbn [sr_tags flat_map]; rewrite B3, <- app_assoc; reflexivity|].
      split; [rewrite C4; unfold acc1; cbn [sr_cnt]; exact B4|].
      split; [rewrite C5; unfold acc1; cbn [sr_cnt]; exact B5|].
      split; [rewrite C6; unfold acc1; cbn [sr_cnt fold_right]; rewrite B6; unfold sc_silent; lia|].
      intros _. exact Hb.
  Qed.

  (* C04 for a whole scrub plan *)
  Theorem scrub_run_exact sel : (forall p, In p sel -> sc_ok p) ->
    let r := scrub_run hashf bs nlev io_limit c par fs sel in
    sr_bailed r = false
    /\ sr_tags r = flat_map sc_tags sel
    /\ sr_bad r = filter sc_bad sel
    /\ sr_refreshed r = filter (fun p => negb (sc_bad p)) sel
    /\ SM.c_error (sr_cnt r) = 0 /\ SM.c_io (sr_cnt r) = 0
    /\ SM.c_silent (sr_cnt r) = fold_right (fun p a => sc_silent p + a) 0 sel
    /\ (scrub_fails r = true <-> exists p, In p sel /\ sc_bad p = true).
  Proof.
    intro Hok. unfold scrub_run.
    destruct (scrub_loop_exact sel (mkSR [] [] [] {| SM.c_error := 0; SM.c_silent := 0; SM.c_io := 0 |} false) Hok) as [C1 [C2 [C3 [C4 [C5 [C6 C7]]]]]].
    cbn zeta in *. cbn [sr_bad sr_refreshed sr_tags sr_cnt SM.c_error SM.c_io SM.c_silent app] in *.
    split; [destruct sel; [reflexivity | apply C7; discriminate]|].
    split; [exact C3|]. split; [exact C1|]. split; [exact C2|]. split; [exact C4|]. split; [exact C5|]. split; [lia|].
    unfold scrub_fails. rewrite C4, C5, C6. rewrite N.add_0_l, N.add_0_l, N.add_0_r.
    assert (Hs : forall p, sc_silent p = 0 <-> sc_bad p = false).
    { intro p. unfold sc_silent, sc_bad.
      destruct (existsb (sbad hashf bs c fs p) (seq 0 (length (c_disks c)))) eqn:E1.
      - cbn [orb]. split; [|discriminate]. intro H. exfalso.
        apply existsb_exists in E1. destruct E1 as [j [Hj Hb]].
        assert (In j (filter (sbad hashf bs c fs p) (seq 0 (length (c_disks c))))) by (apply filter_In; auto).
        destruct (filter (sbad hashf bs c fs p) (seq 0 (length (c_disks c)))); [contradiction | cbn in H; lia].
      - cbn [orb].
        assert (E0 : filter (sbad hashf bs c fs p) (seq 0 (length (c_disks c))) = []).
        { apply filter_nil. intros j Hj. destruct (sbad hashf bs c fs p j) eqn:X; [|reflexivity].
          assert (Y : existsb (sbad hashf bs c fs p) (seq 0 (length (c_disks c))) = true) by (apply existsb_exists; eauto). congruence. }
        rewrite E0. cbn [length N.of_nat N.add]. split.
        + intro H. destruct (existsb (pbad c par fs p) (seq 0 nlev)) eqn:E2; [|reflexivity]. exfalso.
          apply existsb_exists in E2. destruct E2 as [l [Hl Hb]].
          assert (In l (filter (pbad c par fs p) (seq 0 nlev))) by (apply filter_In; auto).
          destruct (filter (pbad c par fs p) (seq 0 nlev)); [contradiction | cbn in H; lia].
        + intro H. rewrite filter_nil; [reflexivity|]. intros l Hl. destruct (pbad c par fs p l) eqn:X; [|reflexivity].
          assert (Y : existsb (pbad c par fs p) (seq 0 nlev) = true) by (apply existsb_exists; eauto). congruence. }
    clear - Hs. induction sel as [|p t IH]; cbn [fold_right].
    - cbn. split; [discriminate | intros [p [[] _]]].
    - split.
      + intro H. destruct (sc_bad p) eqn:Eb; [exists p; split; [left; reflexivity | exact Eb]|].
        apply Hs in Eb. rewrite Eb in H. cbn [N.add] in H. destruct (proj1 IH H) as [q [Hq Hb]]. exists q. split; [right; exact Hq | exact Hb].
      + intros [q [[E|Hq] Hb]].
        * subst q. apply negb_true_iff. apply N.eqb_neq. intro H.
          assert (Z : sc_silent p = 0) by lia. apply Hs in Z. congruence.
        * assert (X : negb (fold_right (fun p a => sc_silent p + a) 0 t =? 0) = true) by (apply IH; exists q; auto).
          apply negb_true_iff in X. apply N.eqb_neq in X. apply negb_true_iff. apply N.eqb_neq. lia.
  Qed.
End ScrubRun.
