(* The detection path of scrub on the array model: the data and parity tasks of one stripe (cmdline/scrub.c
   scrub_data_reader, scrub_parity_reader, the hash comparison and the parity comparison of state_scrub_process), judged
   by C15's book-keeping model (coq/Scrub/ScrubModel.v stripe_outcome / scrub_update), which is reused, not duplicated.
   Definitions only (extracted). *)
From Coq Require Import NArith ZArith List Bool Arith.
From Snap.Array Require Import ArrayDefs.
From Snap.Fix Require Import FixModel.
Require Snap.Scrub.ScrubModel.
Import ListNotations.

Definition K_SC_OPEN : N := 40.      (* error:<pos>:<disk>:<file>: Open error.            args pos d name *)
Definition K_SC_READ : N := 41.      (* error:<pos>:<disk>:<file>: Read error at position args pos d name fpos *)
Definition K_SC_DATA : N := 42.      (* error:<pos>:<disk>:<file>: Data error at position args pos d name fpos *)
Definition K_SC_PAR_READ : N := 43.  (* parity_error:<pos>:<level>: Read error.            args pos l *)
Definition K_SC_PAR_DATA : N := 44.  (* parity_error:<pos>:<level>: Data error             args pos l *)

Section Scrub.
  Variable hashf : bid -> N -> hval.
  Variable bs : N.
  Variable nlev : nat.

  Definition sc_block (s : slot) : ScrubModel.block_state :=
    match s with
    | SEmpty => ScrubModel.BLOCK_EMPTY
    | SDeleted _ => ScrubModel.BLOCK_DELETED
    | SFile _ _ b => match fb_state b with SBlk => ScrubModel.BLOCK_BLK | SChg => ScrubModel.BLOCK_CHG | SRep => ScrubModel.BLOCK_REP end
    end.

  Definition mk_task (disk : bool) (b : ScrubModel.block_state) (ts : bool) (st : ScrubModel.task_state) (eq : bool) : ScrubModel.data_task :=
    {| ScrubModel.dt_disk := disk; ScrubModel.dt_block := b; ScrubModel.dt_ts_diff := ts; ScrubModel.dt_state := st; ScrubModel.dt_hash_eq := eq |}.

  (* scrub_data_reader + hash comparison for disk position j: the task, the buffer, the tags *)
  Definition sc_data (c : content) (fs : list (option fsdisk)) (pos j : nat) : ScrubModel.data_task * bid * list tag :=
    match nth j (c_disks c) None with
    | None => (mk_task false ScrubModel.BLOCK_EMPTY false ScrubModel.TASK_DONE true, 0%N, [])
    | Some d =>
      let s := slot_at d pos in
      match s with
      | SFile f idx b =>
        let name := cf_name f in
        match (match nth j fs None with Some fd => find_fs name fd | None => None end) with
        | None => (mk_task true (sc_block s) false ScrubModel.TASK_ERROR_CONTINUE true, 0%N, [(K_SC_OPEN, [N.of_nat pos; N.of_nat j; name])])
        | Some g =>
          let ts := negb (N.eqb (ff_size g) (cf_size f)) || negb (Z.eqb (ff_mtime g) (cf_mtime f)) || negb (Z.eqb (ff_nsec g) (cf_nsec f)) in
          let len := block_len bs (cf_size f) idx in
          if (ff_size g <? N.of_nat idx * bs + len)%N
          then (mk_task true (sc_block s) ts ScrubModel.TASK_ERROR_CONTINUE true, 0%N, [(K_SC_READ, [N.of_nat pos; N.of_nat j; name; N.of_nat idx])])
          else
            let data := nth idx (ff_blocks g) 0%N in
            let eq := hval_eqb (hashf data len) (fb_hash b) in
            (mk_task true (sc_block s) ts ScrubModel.TASK_DONE eq, data,
             if ScrubModel.block_has_updated_hash (sc_block s) && negb eq then [(K_SC_DATA, [N.of_nat pos; N.of_nat j; name; N.of_nat idx])] else [])
        end
      | _ => (mk_task true (sc_block s) false ScrubModel.TASK_DONE true, 0%N, [])
      end
    end.

  Record sc_out := mkSO { so_bad : bool;       (* the stripe gets the bad mark (silent or io error) *)
                          so_refreshed : bool; (* info_make(now, 0, 0, 0): time refreshed, flags cleared *)
                          so_tags : list tag;
                          so_cnt : ScrubModel.counters }.

  (* one selected stripe; None = goto bail *)
  Definition scrub_stripe (io_limit : N) (cnt : ScrubModel.counters) (c : content) (par : parity) (fs : list (option fsdisk)) (pos : nat)
    : option sc_out :=
    let ds := map (sc_data c fs pos) (seq 0 (length (c_disks c))) in
    let buf := map (fun x => snd (fst x)) ds in
    let ptasks : list (ScrubModel.parity_task * list tag) := map (fun l => match nth pos (nth l par []) PNone with
                                | PNone => ({| ScrubModel.pt_state := ScrubModel.TASK_ERROR_CONTINUE; ScrubModel.pt_equal := true |}, [(K_SC_PAR_READ, [N.of_nat pos; N.of_nat l])])
                                | p => ({| ScrubModel.pt_state := ScrubModel.TASK_DONE; ScrubModel.pt_equal := par_matches buf p |}, [])
                                end) (seq 0 nlev) in
    let dtasks := map (fun x => fst (fst x)) ds in
    match ScrubModel.stripe_outcome io_limit cnt dtasks (map fst ptasks) with
    | None => None
    | Some (f, cnt') =>
      (* the flags before the comparison decide whether the parity is compared at all *)
      let pre := match ScrubModel.fold_opt (ScrubModel.data_step io_limit) (ScrubModel.no_flags, cnt) dtasks with
                 | Some st1 => ScrubModel.fold_opt (ScrubModel.parity_step io_limit) st1 (map fst ptasks)
                 | None => None end in
      let compared := match pre with
                      | Some (f0, _) => negb (ScrubModel.error_on_this_block f0) && negb (ScrubModel.silent_error_on_this_block f0) && negb (ScrubModel.io_error_on_this_block f0)
                      | None => false end in
      let ptags := if compared
                   then flat_map (fun lt => let '(l, (t, _)) := lt in
                                            match ScrubModel.pt_state t with
                                            | ScrubModel.TASK_DONE => if negb (ScrubModel.pt_equal t) then [(K_SC_PAR_DATA, [N.of_nat pos; N.of_nat l])] else []
                                            | _ => [] end) (combine (seq 0 nlev) ptasks)
                   else [] in
      let bad := ScrubModel.silent_error_on_this_block f || ScrubModel.io_error_on_this_block f in
      Some (mkSO bad (negb bad && negb (ScrubModel.error_on_this_block f))
                 (flat_map (fun x => snd x) ds ++ flat_map snd ptasks ++ ptags) cnt')
    end.

  Record sc_run := mkSR { sr_bad : list nat; sr_refreshed : list nat; sr_tags : list tag; sr_cnt : ScrubModel.counters; sr_bailed : bool }.

  Fixpoint scrub_loop (io_limit : N) (c : content) (par : parity) (fs : list (option fsdisk)) (sel : list nat) (acc : sc_run) : sc_run :=
    match sel with
    | [] => acc
    | pos :: rest =>
      match scrub_stripe io_limit (sr_cnt acc) c par fs pos with
      | None => mkSR (sr_bad acc) (sr_refreshed acc) (sr_tags acc) (sr_cnt acc) true
      | Some o => scrub_loop io_limit c par fs rest
                    (mkSR (if so_bad o then sr_bad acc ++ [pos] else sr_bad acc)
                          (if so_refreshed o then sr_refreshed acc ++ [pos] else sr_refreshed acc)
                          (sr_tags acc ++ so_tags o) (so_cnt o) false)
      end
    end.

  Definition scrub_run (io_limit : N) (c : content) (par : parity) (fs : list (option fsdisk)) (sel : list nat) : sc_run :=
    scrub_loop io_limit c par fs sel (mkSR [] [] [] {| ScrubModel.c_error := 0; ScrubModel.c_silent := 0; ScrubModel.c_io := 0 |} false).
  (* exit status: failing iff error + silent + io <> 0 *)
  Definition scrub_fails (r : sc_run) : bool :=
    negb (N.eqb (ScrubModel.c_error (sr_cnt r) + ScrubModel.c_silent (sr_cnt r) + ScrubModel.c_io (sr_cnt r)) 0).
End Scrub.
