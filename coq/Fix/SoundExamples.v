(* Non-vacuity of SoundProofs.v (C05, whole run, any damage), with ONE parity level:
   1. the one-stripe array of Examples.v with BOTH files destroyed (beyond the parity level): the hypotheses of run_fix_sound hold,
      its conclusion says both files are flagged unrecoverable / gone and the exit status fails; the run computed agrees;
   2. the three-stripe array of RunExamples.v with one recoverable stripe (a block of file 2 overwritten) and one unrecoverable
      stripe (the last block of file 1 overwritten AND the parity block of that stripe overwritten): file 2 is restored with its
      recorded time-stamp, file 1 is reported unrecoverable, the exit status fails; the run computed agrees. *)
From Coq Require Import NArith ZArith List Bool Arith Lia.
From Snap.Array Require Import ArrayDefs SyncProofsDefs.
From Snap.Fix Require Import FixModel RepairProofs StripeProofs FlagWalk RunProofs Examples RunExamples GrownProofs GrownExamples SoundProofs.
Import ListNotations.

Definition sx_fix : copts := mkCO true false false false false [] [true] [false].
Lemma sx_plain_fix : plain 1 sx_fix.
Proof. constructor; try reflexivity; intros l; destruct l as [|l]; intros; cbn; auto; try lia; destruct l; reflexivity. Qed.

(* ---- 1. both files of the stripe destroyed, one parity level ------------------------------------------------------------- *)
Definition sx_fs : list (option fsdisk) := [Some []; Some []].
Definition sx_par : parity := [[PEnc [11; 12]%N]].

Lemma sx_collision_free : collision_free x_hashf x_padz x_bs 1 (co_nosearch sx_fix) x_c 1 sx_fs sx_par gx_vs.
Proof.
  constructor.
  - intros p j f i b y H Hr Hh. gx_inv H; cbn in Hr; discriminate Hr.
  - intros p Hp e x He Hx. assert (p = 0) by lia. subst p. vm_compute in He. destruct He as [He|[He|[]]]; subst e;
      unfold blockcmp, x_hashf; cbn [fe_hash fe_len fe_file hval_eqb];
      unfold is_junk, JBASE in Hx; apply andb_false_iff; left; apply N.eqb_neq; cbn; lia.
  - intros p Hp l w i e Hl He Hb. assert (p = 0) by lia. subst p. vm_compute in He.
    destruct l as [|l]; cbn in Hl; [|destruct l; discriminate Hl]. injection Hl as Hl. subst w.
    destruct He as [He|[He|[]]]; subst e;
      (destruct i as [|[|i]]; [try reflexivity; vm_compute in Hb; discriminate Hb | try reflexivity; vm_compute in Hb; discriminate Hb | destruct i; vm_compute in Hb; discriminate Hb]).
  - intros p Hp i e He Hb. assert (p = 0) by lia. subst p. vm_compute in He.
    destruct He as [He|[He|[]]]; subst e;
      (destruct i as [|[|i]]; [try reflexivity; vm_compute in Hb; discriminate Hb | try reflexivity; vm_compute in Hb; discriminate Hb | destruct i; vm_compute in Hb; discriminate Hb]).
  - intros p Hp fsx e b He Hs. assert (p = 0) by lia. subst p. vm_compute in He.
    destruct He as [He|[He|[]]]; subst e;
      destruct (search_fetch_hash x_hashf x_bs _ fsx _ b Hs) as [f [i [Ef Eh]]]; cbn in Ef; injection Ef as Ef1 Ef2; subst f i;
      unfold x_hashf in Eh; cbn in Eh; apply N.eqb_eq in Eh; unfold x_bs in Eh; unfold gx_vs; cbn; lia.
Qed.

(* more damaged data blocks (2) than parity levels (1): outside `recoverable` *)
Lemma sx_not_recoverable : ~ recoverable x_hashf x_padz x_bs 1 (co_nosearch sx_fix) x_c 1 sx_fs sx_par gx_vs.
Proof. intros [_ _ _ _ _ H]. specialize (H 0 (le_n 1)). vm_compute in H. lia. Qed.

Example sx_fix_run_sound :
  let out := check_run x_hashf x_padz x_truncf x_bs 1 false x_newino 999 sx_fix x_c sx_par sx_fs [] (seq 0 1) in
  ~ recoverable x_hashf x_padz x_bs 1 (co_nosearch sx_fix) x_c 1 sx_fs sx_par gx_vs
  /\ (forall p j f i b, slot_of x_c p j = SFile f i b ->
        fl_damaged (get_fl (r_flags (out_st out)) (j, cf_name f)) = true /\ fs_find (r_fs (out_st out)) j (cf_name f) = None)
  /\ 0 < r_unrec (out_st out) /\ out_fail out = true.
Proof.
  cbn zeta. split; [exact sx_not_recoverable|].
  destruct (run_fix_sound x_hashf x_padz x_truncf x_bs 1 false x_newino 999 sx_fix x_c 1 sx_fs sx_par gx_vs []
              sx_plain_fix eq_refl gx_synced_array eq_refl (le_n 1) sx_collision_free gx_objs_ok) as [A [B [C _]]].
  (* the theorem leaves, for each file, "recorded version" or "flagged"; the recorded version is excluded by what the run leaves *)
  assert (Hd : forall p j f i b, slot_of x_c p j = SFile f i b ->
                 fl_damaged (get_fl (r_flags (out_st (check_run x_hashf x_padz x_truncf x_bs 1 false x_newino 999 sx_fix x_c sx_par sx_fs [] (seq 0 1)))) (j, cf_name f)) = true).
  { intros p j f i b H. gx_inv H; vm_compute; reflexivity. }
  split.
  - intros p j f i b H. destruct (A p j f i b H) as [[X _]|[X [Y _]]]; [rewrite (Hd p j f i b H) in X; discriminate X | auto].
  - destruct (A 0 0 x_f1 0 _ eq_refl) as [[X _]|[_ [_ [Y Z]]]]; [rewrite (Hd 0 0 x_f1 0 _ eq_refl) in X; discriminate X | auto].
Qed.

Example sx_fix_run_computed :
  let out := check_run x_hashf x_padz x_truncf x_bs 1 false x_newino 999 sx_fix x_c sx_par sx_fs [] (seq 0 1) in
  r_fs (out_st out) = [Some []; Some []] /\ r_par (out_st out) = sx_par
  /\ map fst (r_tags (out_st out)) = [K_ERR_READ; K_ERR_READ; K_UNREC; K_UNREC; K_ST_UNREC; K_ST_UNREC]
  /\ out_fail out = true /\ r_unrec (out_st out) = 1 /\ r_rec (out_st out) = 0.
Proof. vm_compute. repeat split; reflexivity. Qed.

(* ---- 2. three stripes: one recoverable, one unrecoverable ---------------------------------------------------------------- *)
Definition sx2_fs : list (option fsdisk) := [Some [mkFF 1 2560 100 0 1 [11; 12; 99]%N]; Some [mkFF 2 2048 100 0 2 [21; 98]%N]].
Definition sx2_par : parity := [[PEnc [11; 21]; PEnc [12; 22]; PJunk 7]]%N.

Lemma sx2_collision_free : collision_free x_hashf x_padz x_bs 1 (co_nosearch sx_fix) rx_c 3 sx2_fs sx2_par rx_vs.
Proof.
  constructor.
  - intros p j f i b y H Hr Hh. rx_inv H; cbn in Hr; try discriminate Hr; injection Hr as Hr; subst y; try reflexivity; vm_compute in Hh; discriminate Hh.
  - intros p Hp e x He Hx. destruct p as [|[|[|p]]]; try lia; vm_compute in He; try contradiction; destruct He as [He|[]]; subst e;
      unfold blockcmp, x_hashf; cbn [fe_hash fe_len fe_file hval_eqb];
      unfold is_junk, JBASE in Hx; apply andb_false_iff; left; apply N.eqb_neq; cbn; lia.
  - intros p Hp l w i e Hl He Hb. destruct p as [|[|[|p]]]; try lia; vm_compute in He; try contradiction; destruct He as [He|[]]; subst e;
      (destruct l as [|l]; cbn in Hl; [|destruct l; discriminate Hl]; try discriminate Hl; injection Hl as Hl; subst w;
       (destruct i as [|[|i]]; [vm_compute in Hb; discriminate Hb | reflexivity | destruct i; vm_compute in Hb; discriminate Hb])).
  - intros p Hp i e He Hb. destruct p as [|[|[|p]]]; try lia; vm_compute in He; try contradiction; destruct He as [He|[]]; subst e;
      (destruct i as [|[|i]]; [try reflexivity; vm_compute in Hb; discriminate Hb | try reflexivity; vm_compute in Hb; discriminate Hb | destruct i; vm_compute in Hb; discriminate Hb]).
  - intros p Hp fsx e b He Hs. destruct p as [|[|[|p]]]; try lia; vm_compute in He; try contradiction; destruct He as [He|[]]; subst e;
      destruct (search_fetch_hash x_hashf x_bs _ fsx _ b Hs) as [f [i [Ef Eh]]]; cbn in Ef; injection Ef as Ef1 Ef2; subst f i;
      unfold x_hashf in Eh; cbn in Eh; apply N.eqb_eq in Eh; unfold x_bs in Eh; cbn; lia.
Qed.

Lemma sx2_not_recoverable : ~ recoverable x_hashf x_padz x_bs 1 (co_nosearch sx_fix) rx_c 3 sx2_fs sx2_par rx_vs.
Proof. intros [_ _ _ _ _ H]. specialize (H 2 (le_n 3)). vm_compute in H. lia. Qed.

Example sx2_fix_run_sound :
  let out := check_run x_hashf x_padz x_truncf x_bs 1 false x_newino 999 sx_fix rx_c sx2_par sx2_fs [] (seq 0 3) in
  ~ recoverable x_hashf x_padz x_bs 1 (co_nosearch sx_fix) rx_c 3 sx2_fs sx2_par rx_vs
  (* file 2 (disk 1): restored, with the recorded time-stamp *)
  /\ (exists g, fs_find (r_fs (out_st out)) 1 2%N = Some g /\ ff_size g = 2048%N /\ nth 0 (ff_blocks g) 0%N = 21%N /\ nth 1 (ff_blocks g) 0%N = 22%N
                /\ ff_mtime g = 100%Z /\ ff_nsec g = 0%Z)
  (* file 1 (disk 0): reported unrecoverable *)
  /\ fl_damaged (get_fl (r_flags (out_st out)) (0, 1%N)) = true /\ fs_find (r_fs (out_st out)) 0 1%N = None
  /\ 0 < r_unrec (out_st out) /\ out_fail out = true.
Proof.
  cbn zeta. split; [exact sx2_not_recoverable|].
  destruct (run_fix_sound x_hashf x_padz x_truncf x_bs 1 false x_newino 999 sx_fix rx_c 3 sx2_fs sx2_par rx_vs []
              sx_plain_fix eq_refl rx_synced_array eq_refl (le_n 1) sx2_collision_free rx_objs_ok) as [A [_ [_ [_ E]]]].
  set (out := check_run x_hashf x_padz x_truncf x_bs 1 false x_newino 999 sx_fix rx_c sx2_par sx2_fs [] (seq 0 3)) in *.
  assert (Hd1 : fl_damaged (get_fl (r_flags (out_st out)) (0, 1%N)) = true) by (vm_compute; reflexivity).
  assert (Hd2 : fl_damaged (get_fl (r_flags (out_st out)) (1, 2%N)) = false) by (vm_compute; reflexivity).
  split.
  - destruct (A 0 1 rx_fB 0 _ eq_refl) as [[_ [g [Hg [Hz Hb]]]]|[X _]]; [|cbn [cf_name rx_fB] in X; rewrite Hd2 in X; discriminate X].
    exists g. split; [exact Hg|]. split; [exact Hz|]. split; [exact (Hb 0 0 _ eq_refl)|]. split; [exact (Hb 1 1 _ eq_refl)|].
    destruct (E 0 1 rx_fB 0 _ g eq_refl (rx_uniq 1 rx_fB 0 0 _ eq_refl) Hg Hd2) as [X|X]; [exact X|].
    (* the file was written: it is not the file of the damaged array *)
    exfalso. unfold fs_find in X. cbn in X. injection X as X. subst g. specialize (Hb 1 1 _ eq_refl). cbn in Hb. discriminate Hb.
  - destruct (A 0 0 rx_fA 0 _ eq_refl) as [[X _]|[X [Y [Z W]]]]; [cbn [cf_name rx_fA] in X; rewrite Hd1 in X; discriminate X | auto].
Qed.

Example sx2_fix_run_computed :
  let out := check_run x_hashf x_padz x_truncf x_bs 1 false x_newino 999 sx_fix rx_c sx2_par sx2_fs [] (seq 0 3) in
  r_fs (out_st out) = [Some []; Some [mkFF 2 2048 100 0 2 [21; 22]%N]]
  /\ r_par (out_st out) = sx2_par
  /\ map fst (r_tags (out_st out)) = [K_ERR_DATA; K_FIXED; K_ST_RECOVERED; K_ERR_DATA; K_PAR_TRY; K_UNREC; K_ST_UNREC]
  /\ out_fail out = true /\ r_unrec (out_st out) = 1 /\ r_rec (out_st out) = 1.
Proof. vm_compute. repeat split; reflexivity. Qed.
