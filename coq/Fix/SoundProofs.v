(* C05 for FULLY SYNCED arrays, the whole run, NO bound on the damage: after fix every file recorded in the content file either has
   exactly its recorded size and blocks, or is flagged DAMAGED -- reported unrecoverable, renamed away at its last block, counted
   (r_unrec > 0) and reflected in a failing exit status.  No file is left under its name with other content without being flagged.

   1. repair_ok_sound: repair on a stripe whose failed blocks are all BLK either answers ROk and then the buffer holds the recorded
      vector (every accepted combination passed the hash test of EVERY failed entry; collision freedom does the rest), or does not
      answer ROk -- no hypothesis on the number of intact parity levels.
   2. fix_step_sound: the stripe step, both outcomes; files of the stripe may already be flagged DAMAGED, may be larger than
      recorded (if never opened; GrownProofs.v data_phase_G).
   3. fix_run_sound and corollaries: the run invariant rinvS. *)
From Coq Require Import NArith ZArith List Bool Arith Lia.
From Snap.Array Require Import ArrayDefs SyncProofsDefs.
From Snap.Fix Require Import FixModel RepairProofs StripeProofs FlagWalk RunProofs GrownProofs.
Import ListNotations.
Local Opaque JBASE.

(* ---------------------------------------------------------------------------------------------------------- *)
(* 1. repair: an accepted reconstruction is the recorded vector                                                 *)
(* ---------------------------------------------------------------------------------------------------------- *)
Section RepairSound.
  Variable hashf : bid -> N -> hval.
  Variable padz : bid -> N -> bool.
  Variable bs : N.
  Notation blockcmp := (blockcmp hashf padz bs).
  Notation fe_len := (fe_len bs).
  Notation cf_junk := (cf_junk hashf padz bs).
  Notation cf_rec := (cf_rec hashf padz bs).
  Notation cf_vec := (cf_vec hashf padz bs).

  Lemma try_combos_sound pos fm rec v :
    forall cs buf jn err tags buf' jn' err' tags',
      fm_ok fm buf -> cf_junk fm -> cf_rec fm rec v -> cf_vec fm v ->
      agree_out (map fe_idx fm) v buf = true ->
      try_combos hashf padz bs pos true (map fe_idx fm) fm rec cs buf jn err tags = (true, buf', jn', err', tags') ->
      RepairProofs.restored (map fe_idx fm) v buf buf'.
  Proof.
    set (F := map fe_idx fm).
    induction cs as [|ip rest IH]; intros buf jn err tags bufR jnR errR tagsR Hok Hj Hr Hv Hag.
    - simpl. intro H. discriminate H.
    - simpl.
      assert (InF : forall e, In e fm -> In (fe_idx e) F) by (intros e He; apply in_map; exact He).
      destruct (existsb (fun l => is_pnone (nth l rec PNone)) ip) eqn:Epn; [apply IH; auto|].
      set (x1 := match ip with [O] => true | _ => false end).
      destruct (reconstruct x1 F (map (fun l => nth l rec PNone) ip) buf jn) as [buf' jn'] eqn:ER.
      assert (Hlen : length buf' = length buf) by (pose proof (reconstruct_length x1 F (map (fun l => nth l rec PNone) ip) buf jn) as X; rewrite ER in X; exact X).
      assert (Hout : forall i, ~ In i F -> vnth buf' i = vnth buf i) by (intros i Hi; pose proof (reconstruct_outside x1 F (map (fun l => nth l rec PNone) ip) buf jn i Hi) as X; rewrite ER in X; exact X).
      assert (Hok' : fm_ok fm buf') by (destruct Hok as [A B C]; constructor; auto; intros e He; rewrite Hlen; auto).
      destruct (hash_matching hashf padz bs fm buf') eqn:EH.
      + intro H. injection H as H1 H2 H3 H4. subst bufR. split; [exact Hlen|].
        intros i Hi. destruct (memn i F) eqn:Em; [|apply Hout; apply memn_false; exact Em].
        apply memn_spec in Em. apply in_map_iff in Em. destruct Em as [e [Ee He]]. subst i.
        rewrite (hash_matching_true hashf padz bs fm buf' buf' Hok') in EH.
        pose proof (reconstruct_cases x1 F (map (fun l => nth l rec PNone) ip) buf jn) as C; rewrite ER in C; cbn [fst] in C.
        destruct C as [_ [_ [C|[C|[C|C]]]]].
        * destruct C as [w [rs [Eu [_ [_ Hw]]]]].
          rewrite Hw by (auto using InF).
          destruct ip as [|l0 ipt]; [discriminate|]. simpl in Eu. injection Eu as E0 _.
          apply (Hr l0 w (fe_idx e) e E0 He). rewrite <- Hw by (auto using InF). apply EH. exact He.
        * destruct C as [w [j [i [Eu [EF Hw]]]]].
          assert (Ej : fe_idx e = j).
          { pose proof (InF e He) as X. rewrite EF in X. destruct X as [X|[]]. auto. }
          assert (Hi' : j < length buf) by (rewrite <- Ej; exact Hi).
          rewrite Ej, (Hw Hi'). rewrite <- Ej.
          destruct ip as [|l0 ipt]; [discriminate|]. simpl in Eu. injection Eu as E0 _.
          apply (Hr l0 w i e E0 He). specialize (EH e He). rewrite Ej, (Hw Hi') in EH. exact EH.
        * destruct C as [j [i [EF [Hij Hw]]]].
          assert (Ej : fe_idx e = j).
          { pose proof (InF e He) as X. rewrite EF in X. destruct X as [X|[]]. auto. }
          assert (Hi' : j < length buf) by (rewrite <- Ej; exact Hi).
          assert (Hvi : vnth v i = vnth buf i).
          { rewrite agree_out_spec in Hag. apply Hag. rewrite EF. intros [X|[]]. apply Hij. symmetry. exact X. }
          rewrite Ej, (Hw Hi'), <- Hvi. rewrite <- Ej.
          apply (Hv i e He). specialize (EH e He). rewrite Ej, (Hw Hi'), <- Hvi in EH. exact EH.
        * exfalso. specialize (C (fe_idx e) (InF e He) Hi).
          specialize (EH e He). rewrite (Hj e _ He C) in EH. discriminate.
      + intro H.
        assert (Hag' : agree_out F v buf' = true).
        { apply agree_out_spec. intros i Hi. rewrite Hout by exact Hi. rewrite agree_out_spec in Hag. apply Hag. exact Hi. }
        destruct (IH buf' jn' (S err) _ bufR jnR errR tagsR Hok' Hj Hr Hv Hag' H) as [R1 R2].
        split; [congruence|]. intros i Hi. rewrite R2 by (rewrite Hlen; exact Hi).
        destruct (memn i F) eqn:Em; [reflexivity|]. apply Hout. apply memn_false. exact Em.
  Qed.

  Variable nlev : nat.

  Lemma repair_step_sound pos fm rec v buf jn buf' jn' tags :
    fm_ok fm buf -> cf_junk fm -> cf_rec fm rec v -> cf_vec fm v ->
    agree_out (map fe_idx fm) v buf = true ->
    repair_step hashf padz bs nlev pos fm rec buf jn = (ROk, buf', jn', tags) ->
    RepairProofs.restored (map fe_idx fm) v buf buf'.
  Proof.
    intros Hok Hj Hr Hv Hag. unfold repair_step.
    destruct (Nat.eqb (length fm) 0) eqn:E0.
    { apply Nat.eqb_eq in E0. destruct fm; [destruct (fo_ne _ _ Hok); reflexivity | discriminate]. }
    rewrite (has_hash_ok _ _ Hok).
    destruct (length fm <=? nlev); cbn [negb]; [|intro H; discriminate H].
    destruct (try_combos hashf padz bs pos true (map fe_idx fm) fm rec (combos (seq 0 nlev) (length fm)) buf jn 0 [])
      as [[[[ok b2] j2] e2] t2] eqn:E.
    destruct ok.
    - intro H. injection H as H1 H2 H3. subst b2. apply (try_combos_sound pos fm rec v _ buf jn 0 [] buf' j2 e2 t2 Hok Hj Hr Hv Hag E).
    - destruct e2; intro H; discriminate H.
  Qed.
End RepairSound.

Lemma fold_left_cons' {A B} (f : A -> B -> A) x l a : fold_left f (x :: l) a = fold_left f l (f a x).
Proof. reflexivity. Qed.

Section RepairAllSound.
  Variable hashf : bid -> N -> hval.
  Variable padz : bid -> N -> bool.
  Variable bs : N.
  Variable nlev : nat.
  Variable reduced : bool.

  (* strategy 2 on a list of bad BLK entries: the list comes back unchanged, no entry is marked, the buffer is not touched and
     nothing is UNSYNCED, so repair_step is not run again *)
  Lemma s2_fold_blk (hz : fent -> bool) : forall l fl fm b tr,
    (forall e, In e l -> fe_state e = Some SBlk /\ fe_bad e = true) ->
    exists fm' tr',
      fold_left (fun (acc : list fent * list fent * list bid * bool * bool) e =>
            let '(fl, fm, b, torec, unsync) := acc in
            match fe_state e with
            | Some SBlk =>
                if fe_bad e then (fl ++ [e], fm ++ [e], b, true, unsync) else (fl ++ [e], fm, b, torec, unsync)
            | _ =>
                let e' := fe_set_ood e in
                if fe_is SChg e && hz e
                then (fl ++ [e'], fm, set_buf b (fe_idx e) 0%N, torec, true)
                else (fl ++ [e'], fm ++ [e'], b, torec, true)
            end) l (fl, fm, b, tr, false) = (fl ++ l, fm', b, tr', false).
  Proof.
    induction l as [|e t IH]; intros fl fm b tr H.
    - exists fm, tr. cbn. rewrite app_nil_r. reflexivity.
    - rewrite fold_left_cons'. destruct (H e (or_introl eq_refl)) as [H1 H2].
      destruct (IH (fl ++ [e]) (fm ++ [e]) b true (fun x Hx => H x (or_intror Hx))) as [fm' [tr' E]].
      exists fm', tr'.
      match goal with |- fold_left ?g t ?x = _ =>
        assert (Ex : x = (fl ++ [e], fm ++ [e], b, true, false)) by (cbv beta iota; rewrite H1, H2; reflexivity); rewrite Ex end.
      rewrite E, <- app_assoc. reflexivity.
  Qed.

  Theorem repair_ok_sound pos nosearch fs0 failed rec v buf jn res failed' buf' jn' tags :
    blk_failed failed buf ->
    cf_junk hashf padz bs failed -> cf_rec hashf padz bs failed rec v -> cf_vec hashf padz bs failed v ->
    cf_search hashf bs nosearch fs0 failed v ->
    agree_out (map fe_idx failed) v buf = true ->
    repair hashf padz bs nlev reduced pos nosearch fs0 failed rec buf jn = (res, failed', buf', jn', tags) ->
    failed' = failed /\ (res = ROk -> full v buf buf').
  Proof.
    intros Hblk Hj Hr Hvec Hs Hag.
    set (g := fun (acc : list fent * list bid) e =>
                if fe_bad e then
                  match (if fe_updated_hash e then search_fetch hashf bs nosearch fs0 e else None) with
                  | Some b => (fst acc, set_buf (snd acc) (fe_idx e) b)
                  | None => (fst acc ++ [e], snd acc)
                  end
                else acc).
    assert (Hfold : forall l fm0 b0,
               (forall e, In e l -> In e failed) -> (forall e, In e fm0 -> In e failed) ->
               length b0 = length buf ->
               agree_out (map fe_idx (fm0 ++ l)) v b0 = true ->
               (forall e, In e (fst (fold_left g l (fm0, b0))) -> In e failed) /\ length (snd (fold_left g l (fm0, b0))) = length buf
               /\ agree_out (map fe_idx (fst (fold_left g l (fm0, b0)))) v (snd (fold_left g l (fm0, b0))) = true).
    { induction l as [|e t IH]; intros fm0 b0 Hl Hf0 Hlen Hag0; simpl.
      - rewrite app_nil_r in Hag0. repeat split; auto.
      - assert (He : In e failed) by (apply Hl; left; reflexivity).
        destruct (Hblk e He) as [Hb [Ho [Hst Hidx]]].
        destruct (search_fetch hashf bs nosearch fs0 e) as [x|] eqn:Es.
        + assert (Ex : x = vnth v (fe_idx e)) by (apply (Hs e x He Es)). subst x.
          assert (Eg : g (fm0, b0) e = (fm0, set_buf b0 (fe_idx e) (vnth v (fe_idx e)))).
          { unfold g. rewrite Hb. unfold fe_updated_hash. rewrite Hst, Es. reflexivity. }
          rewrite Eg.
          edestruct (IH fm0 (set_buf b0 (fe_idx e) (vnth v (fe_idx e)))) as [A [B C]].
          * intros e' He'. apply Hl. right. exact He'.
          * exact Hf0.
          * rewrite set_buf_length. exact Hlen.
          * apply agree_out_spec. intros i Hi.
            destruct (Nat.lt_ge_cases i (length b0)) as [Hil|Hil].
            -- rewrite vnth_set_buf by exact Hil. destruct (Nat.eqb i (fe_idx e)) eqn:Ei.
               ++ apply Nat.eqb_eq in Ei. subst i. reflexivity.
               ++ rewrite agree_out_spec in Hag0. apply Hag0. intro Hin. rewrite map_app in Hin. simpl in Hin.
                  apply in_app_or in Hin. destruct Hin as [Hin|[Hin|Hin]].
                  ** apply Hi. rewrite map_app. apply in_or_app. left. exact Hin.
                  ** apply Nat.eqb_neq in Ei. congruence.
                  ** apply Hi. rewrite map_app. apply in_or_app. right. exact Hin.
            -- rewrite (vnth_out (set_buf _ _ _)) by (rewrite set_buf_length; exact Hil).
               rewrite agree_out_spec in Hag0. rewrite <- (vnth_out b0 i Hil). apply Hag0.
               intro Hin. rewrite map_app in Hin. simpl in Hin. apply in_app_or in Hin. destruct Hin as [Hin|[Hin|Hin]].
               ++ apply Hi. rewrite map_app. apply in_or_app. left. exact Hin.
               ++ subst i. rewrite Hlen in Hil. lia.
               ++ apply Hi. rewrite map_app. apply in_or_app. right. exact Hin.
          * repeat split; auto.
        + assert (Eg : g (fm0, b0) e = (fm0 ++ [e], b0)).
          { unfold g. rewrite Hb. unfold fe_updated_hash. rewrite Hst, Es. reflexivity. }
          rewrite Eg.
          edestruct (IH (fm0 ++ [e]) b0) as [A [B C]].
          * intros e' He'. apply Hl. right. exact He'.
          * intros e' He'. apply in_app_or in He'. destruct He' as [He'|[He'|[]]]; [auto | subst; auto].
          * exact Hlen.
          * rewrite <- app_assoc. exact Hag0.
          * repeat split; auto. }
    assert (Hchg : map fst (map (chg_heuristic hashf padz bs reduced pos buf') failed) = failed).
    { rewrite map_map. rewrite <- (map_id failed) at 2. apply map_ext_in. intros e He.
      destruct (Hblk e He) as [_ [_ [Hst _]]]. rewrite (chg_heuristic_blk hashf padz bs reduced) by exact Hst. reflexivity. }
    unfold repair. destruct failed as [|e1 ft'] eqn:Efailed2.
    { intro H. injection H as H1 H2 H3 H4 H5. subst. split; [reflexivity|]. intros _. split; [reflexivity|].
      intros i Hi. symmetry. rewrite agree_out_spec in Hag. apply Hag. simpl. tauto. }
    rewrite <- Efailed2 in *.
    fold g.
    specialize (Hfold failed [] buf (fun e H => H) (fun e H => match H with end) eq_refl Hag).
    destruct (fold_left g failed ([], buf)) as [fm1 buf1] eqn:Ef. simpl in Hfold.
    destruct Hfold as [Hsub [Hlen1 Hag1]].
    destruct fm1 as [|e2 fmt] eqn:Efm1.
    - intro H. injection H as H1 H2 H3 H4 H5. subst. split; [reflexivity|]. intros _. split; [exact Hlen1|].
      intros i Hi. symmetry. rewrite agree_out_spec in Hag1. apply Hag1. simpl. tauto.
    - rewrite <- Efm1 in *.
      assert (Hok : fm_ok fm1 buf1).
      { constructor.
        - rewrite Efm1. discriminate.
        - intros e He. destruct (Hblk e (Hsub e He)) as [_ [Ho [Hst _]]]. split; [exact Ho|]. unfold fe_updated_hash. rewrite Hst. reflexivity.
        - intros e He. rewrite Hlen1. destruct (Hblk e (Hsub e He)) as [_ [_ [_ Hi]]]. exact Hi. }
      destruct (repair_step hashf padz bs nlev pos fm1 rec buf1 jn) as [[[r1 buf2] jn2] tags1] eqn:E.
      assert (Hall : forall e, In e failed -> fe_state e = Some SBlk /\ fe_bad e = true).
      { intros e He. destruct (Hblk e He) as [A [_ [B _]]]. auto. }
      assert (Efm1' : match fm1 with [] => true | _ => false end = false) by (rewrite Efm1; reflexivity).
      destruct fm1 as [|e3 fm3]; [discriminate|].
      destruct r1.
      + intro H. injection H as H1 H2 H3 H4 H5. subst res buf'. split; [rewrite <- H2; exact Hchg|]. intros _.
        assert (R : RepairProofs.restored (map fe_idx (e3 :: fm3)) v buf1 buf2).
        { apply (repair_step_sound hashf padz bs nlev pos (e3 :: fm3) rec v buf1 jn buf2 jn2 tags1 Hok); auto.
          - intros e x He. apply Hj. auto.
          - intros l w i e El He. apply (Hr l w i e El). auto.
          - intros i e He. apply (Hvec i e). auto. }
        destruct R as [R1 R2]. split; [congruence|]. intros i Hi.
        rewrite R2 by (rewrite Hlen1; exact Hi).
        destruct (memn i (map fe_idx (e3 :: fm3))) eqn:Em; [reflexivity|].
        symmetry. rewrite agree_out_spec in Hag1. apply Hag1. apply memn_false. exact Em.
      + match goal with |- context [fold_left ?g2 failed ([], [], buf2, false, false)] =>
          destruct (s2_fold_blk (fun e => h_is_zero reduced (fe_hash e)) failed [] [] buf2 false Hall) as [fm2 [tr2 E2]];
          change (fold_left g2 failed ([], [], buf2, false, false) = ([] ++ failed, fm2, buf2, tr2, false)) in E2; rewrite E2 end.
        rewrite andb_false_r. cbn [app]. intro H. injection H as H1 H2 H3 H4 H5. split; [congruence|]. intro X. subst res. destruct n; discriminate X.
      + match goal with |- context [fold_left ?g2 failed ([], [], buf2, false, false)] =>
          destruct (s2_fold_blk (fun e => h_is_zero reduced (fe_hash e)) failed [] [] buf2 false Hall) as [fm2 [tr2 E2]];
          change (fold_left g2 failed ([], [], buf2, false, false) = ([] ++ failed, fm2, buf2, tr2, false)) in E2; rewrite E2 end.
        rewrite andb_false_r. cbn [app]. intro H. injection H as H1 H2 H3 H4 H5. split; [congruence|]. intro X. subst res. discriminate X.
  Qed.
End RepairAllSound.

(* ---------------------------------------------------------------------------------------------------------- *)
(* 2. the stripe step, whatever repair answers                                                                  *)
(* ---------------------------------------------------------------------------------------------------------- *)
Lemma find_fs_filter_same name (d : fsdisk) : find_fs name (filter (fun x => negb (N.eqb (ff_name x) name)) d) = None.
Proof.
  unfold find_fs. induction d as [|g t IH]; [reflexivity|]. cbn [filter].
  destruct (N.eqb (ff_name g) name) eqn:E; cbn [negb]; [exact IH|]. cbn [find]. rewrite E. exact IH.
Qed.
Lemma fs_find_del_same fs j n : fs_find (fs_del fs j n) j n = None.
Proof.
  unfold fs_find, fs_del. rewrite (mapi_nth_opt _ fs j None None). destruct (j <? length fs) eqn:E.
  - rewrite Nat.eqb_refl. destruct (nth j fs None) as [d|]; [apply find_fs_filter_same | reflexivity].
  - reflexivity.
Qed.
Lemma fs_find_del_other fs j n j' n' : (j', n') <> (j, n) -> fs_find (fs_del fs j n) j' n' = fs_find fs j' n'.
Proof.
  intro H. unfold fs_find, fs_del. rewrite (mapi_nth_opt _ fs j' None None).
  destruct (j' <? length fs) eqn:E.
  - destruct (Nat.eqb j' j) eqn:Ej; [|reflexivity]. apply Nat.eqb_eq in Ej. subst j'.
    assert (Hn : n' <> n) by congruence.
    destruct (nth j fs None) as [d|]; [apply find_fs_filter_neq; exact Hn | reflexivity].
  - apply Nat.ltb_ge in E. rewrite (nth_overflow fs None E). reflexivity.
Qed.
Lemma fs_del_length fs j n : length (fs_del fs j n) = length fs.
Proof. apply mapi_length. Qed.

Definition bits3 (s s' : rstate) : Prop :=
  forall k, fl_damaged (get_fl (r_flags s') k) = fl_damaged (get_fl (r_flags s) k)
            /\ fl_fixed (get_fl (r_flags s') k) = fl_fixed (get_fl (r_flags s) k)
            /\ fl_opened (get_fl (r_flags s') k) = fl_opened (get_fl (r_flags s) k).
Lemma bits3_refl s : bits3 s s.
Proof. intro k. auto. Qed.
Lemma bits3_trans a b d : bits3 a b -> bits3 b d -> bits3 a d.
Proof. intros H1 H2 k. destruct (H1 k) as [A [B C]]. destruct (H2 k) as [A' [B' C']]. repeat split; congruence. Qed.
Lemma bits3_flag s k (g : fflags -> fflags) :
  (forall x, fl_damaged (g x) = fl_damaged x /\ fl_fixed (g x) = fl_fixed x /\ fl_opened (g x) = fl_opened x) -> bits3 s (rs_flag s k g).
Proof.
  intros Hg k'. unfold rs_flag, rs_setfl. cbn [r_flags]. destruct (fkey_eqb k k') eqn:E.
  - apply fkey_eqb_eq in E. subst k'. rewrite get_set_same. apply Hg.
  - rewrite get_set_other; [auto|]. intro X. subst k'. rewrite fkey_eqb_refl in E. discriminate.
Qed.
Lemma bits3_same s s' : r_flags s' = r_flags s -> bits3 s s'.
Proof. intros E k. rewrite E. auto. Qed.

Section Sound.
  Variable hashf : bid -> N -> hval.
  Variable padz : bid -> N -> bool.
  Variable truncf : bid -> N -> bid.
  Variable bs : N.
  Variable nlev : nat.
  Variable reduced : bool.
  Variable newino : nat -> N -> N.
  Variable now : Z.

  Notation stripe_step := (stripe_step hashf padz truncf bs nlev reduced newino now).
  Notation data_phase := (data_phase hashf bs newino now).

  (* ---- file_post, also for files flagged DAMAGED ----------------------------------------------------------------------------- *)
  Definition pfr (st s' : rstate) : Prop :=
    r_par s' = r_par st /\ r_unrec s' = r_unrec st /\ bits3 st s' /\ (forall t, In t (r_tags st) -> In t (r_tags s')).
  Lemma pfr_refl s : pfr s s.
  Proof. repeat split; auto. Qed.
  Lemma pfr_trans a b d : pfr a b -> pfr b d -> pfr a d.
  Proof. intros [A1 [A2 [A3 A4]]] [B1 [B2 [B3 B4]]]. split; [congruence|]. split; [congruence|]. split; [eapply bits3_trans; eassumption | auto]. Qed.
  Lemma pfr_tag s t : pfr s (rs_tag s t).
  Proof. split; [reflexivity|]. split; [reflexivity|]. split; [apply bits3_same; reflexivity|]. intros x Hx. cbn. apply in_or_app. left. exact Hx. Qed.
  Lemma pfr_setfs s fs : pfr s (rs_setfs s fs).
  Proof. split; [reflexivity|]. split; [reflexivity|]. split; [apply bits3_same; reflexivity | auto]. Qed.
  Lemma pfr_flag s k g :
    (forall x, fl_damaged (g x) = fl_damaged x /\ fl_fixed (g x) = fl_fixed x /\ fl_opened (g x) = fl_opened x) -> pfr s (rs_flag s k g).
  Proof. intro H. split; [reflexivity|]. split; [reflexivity|]. split; [apply bits3_flag; exact H | auto]. Qed.
  Ltac pfr_walk :=
    repeat match goal with
    | |- pfr ?a ?a => apply pfr_refl
    | |- pfr _ (rs_tag ?x _) => apply (pfr_trans _ x); [|apply pfr_tag]
    | |- pfr _ (rs_setfs ?x _) => apply (pfr_trans _ x); [|apply pfr_setfs]
    | |- pfr _ (rs_flag ?x _ fl_set_finished) => apply (pfr_trans _ x); [|apply pfr_flag; intro; auto]
    end.

  Lemma file_post_frame o c pos st j : pfr st (file_post o c pos st j).
  Proof.
    unfold file_post.
    destruct (nth j (c_disks c) None) as [d|]; [|apply pfr_refl].
    destruct (slot_at d pos) as [|f idx b|h]; try apply pfr_refl.
    destruct (negb (Nat.eqb (S idx) (length (cf_blocks f)))); [apply pfr_refl|].
    destruct (is_excl o j (cf_name f) || _); [apply pfr_refl|].
    set (fl := get_fl (r_flags st) (j, cf_name f)).
    destruct (co_fix o).
    - destruct (fl_damaged fl); [pfr_walk|].
      destruct (negb (fl_fixed fl)); [pfr_walk|].
      cbv zeta.
      match goal with |- pfr _ (match ?x with Some _ => _ | None => _ end) => destruct x end; [|pfr_walk].
      match goal with |- pfr _ (if ?b then _ else _) => destruct b end; pfr_walk.
    - destruct (fl_damaged fl); [pfr_walk|]. destruct (fl_fixed fl); pfr_walk.
  Qed.

  Lemma file_post_noslot o c pos st j : (forall f idx b, slot_of c pos j <> SFile f idx b) -> file_post o c pos st j = st.
  Proof.
    intro H. unfold file_post. pose proof (slot_of_nth c pos j) as Hs. destruct (nth j (c_disks c) None) as [d|]; [|reflexivity].
    destruct (slot_at d pos) as [|f idx b|h]; try reflexivity. exfalso. apply (H f idx b). exact Hs.
  Qed.

  Lemma file_post_dam o c pos st j f idx b :
    plain nlev o -> co_fix o = true -> slot_of c pos j = SFile f idx b -> fl_damaged (get_fl (r_flags st) (j, cf_name f)) = true ->
    let s' := file_post o c pos st j in
    (S idx <> length (cf_blocks f) -> s' = st)
    /\ (S idx = length (cf_blocks f) -> r_fs s' = fs_del (r_fs st) j (cf_name f) /\ In (K_ST_UNREC, [N.of_nat j; cf_name f]) (r_tags s')).
  Proof.
    intros Hp Hfix Hs Hd. cbn zeta. unfold file_post. rewrite slot_of_nth in Hs. destruct (nth j (c_disks c) None) as [d|]; [|discriminate]. rewrite Hs.
    destruct (Nat.eqb (S idx) (length (cf_blocks f))) eqn:El; cbn [negb].
    - apply Nat.eqb_eq in El. split; [intro X; contradiction|]. intros _.
      rewrite (plain_not_excl nlev o j _ Hp), (pl_synced nlev o Hp), Hfix. cbn [orb andb]. rewrite Hd. cbn. split; [reflexivity|].
      apply in_or_app. right. left. reflexivity.
    - apply Nat.eqb_neq in El. split; [reflexivity | intro X; contradiction].
  Qed.

  (* one disk position *)
  Lemma file_post_one o c pos st j :
    plain nlev o -> co_fix o = true ->
    let s' := file_post o c pos st j in
    length (r_fs s') = length (r_fs st)
    /\ (forall j' n', (forall f idx b, slot_of c pos j = SFile f idx b -> (j', n') <> (j, cf_name f)) -> fs_find (r_fs s') j' n' = fs_find (r_fs st) j' n')
    /\ (forall f idx b, slot_of c pos j = SFile f idx b ->
          (fl_damaged (get_fl (r_flags st) (j, cf_name f)) = true ->
             (S idx = length (cf_blocks f) -> fs_find (r_fs s') j (cf_name f) = None /\ In (K_ST_UNREC, [N.of_nat j; cf_name f]) (r_tags s'))
             /\ (S idx <> length (cf_blocks f) -> fs_find (r_fs s') j (cf_name f) = fs_find (r_fs st) j (cf_name f)))
          /\ (fl_damaged (get_fl (r_flags st) (j, cf_name f)) = false ->
                same_data (fs_find (r_fs s') j (cf_name f)) (fs_find (r_fs st) j (cf_name f))
                /\ (fl_fixed (get_fl (r_flags st) (j, cf_name f)) = false -> fs_find (r_fs s') j (cf_name f) = fs_find (r_fs st) j (cf_name f))
                /\ (uniq_stamp c j f -> S idx = length (cf_blocks f) -> fl_fixed (get_fl (r_flags st) (j, cf_name f)) = true ->
                    forall g, fs_find (r_fs st) j (cf_name f) = Some g -> fs_find (r_fs s') j (cf_name f) = Some (restamp f g)))).
  Proof.
    intros Hp Hfix. cbn zeta.
    assert (Hc : (forall f idx b, slot_of c pos j <> SFile f idx b) \/ exists f idx b, slot_of c pos j = SFile f idx b)
      by (destruct (slot_of c pos j) as [|f idx b|h]; [left; intros; discriminate | right; eauto | left; intros; discriminate]).
    destruct Hc as [Hno|[f [idx [b Es]]]].
    { rewrite file_post_noslot by exact Hno. split; [reflexivity|]. split; [reflexivity|]. intros f idx b X. exfalso. apply (Hno f idx b X). }
    destruct (fl_damaged (get_fl (r_flags st) (j, cf_name f))) eqn:Ed.
    - destruct (file_post_dam o c pos st j f idx b Hp Hfix Es Ed) as [D1 D2]. cbn zeta in D1, D2.
      destruct (Nat.eq_dec (S idx) (length (cf_blocks f))) as [El|El].
      + destruct (D2 El) as [Ef Et]. rewrite Ef. split; [apply fs_del_length|]. split.
        * intros j' n' Hne. apply fs_find_del_other. apply (Hne f idx b Es).
        * intros f0 idx0 b0 X. rewrite Es in X. injection X as X1 X2 X3. subst f0 idx0 b0. split; [|intro X; rewrite Ed in X; discriminate X]. intros _.
          split; [intros _; split; [apply fs_find_del_same | exact Et] | intro X; contradiction].
      + rewrite (D1 El). split; [reflexivity|]. split; [reflexivity|].
        intros f0 idx0 b0 X. rewrite Es in X. injection X as X1 X2 X3. subst f0 idx0 b0. split; [|intro X; rewrite Ed in X; discriminate X]. intros _.
        split; [intro X; contradiction | reflexivity].
    - assert (Hd : forall f0 idx0 b0, slot_of c pos j = SFile f0 idx0 b0 -> fl_damaged (get_fl (r_flags st) (j, cf_name f0)) = false).
      { intros f0 idx0 b0 X. rewrite Es in X. injection X as X1 X2 X3. subst f0. exact Ed. }
      destruct (file_post_fix hashf padz truncf bs nlev newino o c pos st j Hp Hfix Hd) as [_ _ _ Q4 _ Q6].
      split; [exact Q4|]. split.
      + intros j' n' Hne. apply (file_post_other nlev o c pos st j j' n' Hp Hfix).
        intros f0 idx0 b0 X. split; [apply (Hd f0 idx0 b0 X) | apply (Hne f0 idx0 b0 X)].
      + intros f0 idx0 b0 X. rewrite Es in X. injection X as X1 X2 X3. subst f0 idx0 b0. split; [intro X; rewrite Ed in X; discriminate X|]. intros _.
        destruct (file_post_at nlev o c pos st j f idx b Hp Hfix Es Ed) as [_ [_ [T3 T4]]].
        split; [apply Q6|]. split; [exact T3 | exact T4].
  Qed.

  (* the whole loop of file_post over the disks *)
  Lemma post_general o c pos : plain nlev o -> co_fix o = true -> forall js st, NoDup js ->
    let s' := fold_left (file_post o c pos) js st in
    r_par s' = r_par st /\ r_unrec s' = r_unrec st /\ bits3 st s' /\ length (r_fs s') = length (r_fs st)
    /\ (forall t, In t (r_tags st) -> In t (r_tags s'))
    /\ (forall j' n', (forall f idx b, In j' js -> slot_of c pos j' = SFile f idx b -> cf_name f <> n') -> fs_find (r_fs s') j' n' = fs_find (r_fs st) j' n')
    /\ (forall j f idx b, In j js -> slot_of c pos j = SFile f idx b ->
          (fl_damaged (get_fl (r_flags st) (j, cf_name f)) = true ->
             (S idx = length (cf_blocks f) -> fs_find (r_fs s') j (cf_name f) = None /\ In (K_ST_UNREC, [N.of_nat j; cf_name f]) (r_tags s'))
             /\ (S idx <> length (cf_blocks f) -> fs_find (r_fs s') j (cf_name f) = fs_find (r_fs st) j (cf_name f)))
          /\ (fl_damaged (get_fl (r_flags st) (j, cf_name f)) = false ->
                same_data (fs_find (r_fs s') j (cf_name f)) (fs_find (r_fs st) j (cf_name f))
                /\ (fl_fixed (get_fl (r_flags st) (j, cf_name f)) = false -> fs_find (r_fs s') j (cf_name f) = fs_find (r_fs st) j (cf_name f))
                /\ (uniq_stamp c j f -> S idx = length (cf_blocks f) -> fl_fixed (get_fl (r_flags st) (j, cf_name f)) = true ->
                    forall g, fs_find (r_fs st) j (cf_name f) = Some g -> fs_find (r_fs s') j (cf_name f) = Some (restamp f g)))).
  Proof.
    intros Hp Hfix. induction js as [|j0 t IH]; intros st Hnd; cbn [fold_left].
    - cbn zeta. split; [reflexivity|]. split; [reflexivity|]. split; [apply bits3_refl|]. split; [reflexivity|]. split; [auto|]. split; [auto|]. intros j f idx b [].
    - apply NoDup_cons_iff in Hnd. destruct Hnd as [Hnin Hnd].
      destruct (file_post_frame o c pos st j0) as [F1 [F2 [F3 F4]]].
      destruct (file_post_one o c pos st j0 Hp Hfix) as [O1 [O2 O3]]. cbn zeta in O1, O2, O3.
      set (s1 := file_post o c pos st j0) in *.
      destruct (IH s1 Hnd) as [I1 [I2 [I3 [I4 [I5 [I6 I7]]]]]]. cbn zeta in I1, I2, I3, I4, I5, I6, I7. cbn zeta.
      split; [congruence|]. split; [congruence|]. split; [eapply bits3_trans; eassumption|]. split; [congruence|]. split; [auto|]. split.
      + intros j' n' Hne. rewrite I6 by (intros f idx b Hin; apply Hne; right; exact Hin).
        apply O2. intros f idx b Es X. injection X as X1 X2. subst j'. apply (Hne f idx b (or_introl eq_refl) Es). symmetry. exact X2.
      + intros j f idx b [E|Hin] Es.
        * subst j0.
          assert (Et : fs_find (r_fs (fold_left (file_post o c pos) t s1)) j (cf_name f) = fs_find (r_fs s1) j (cf_name f)).
          { apply I6. intros f0 idx0 b0 Hin0. contradiction. }
          rewrite Et. destruct (O3 f idx b Es) as [Od Og]. split; [|exact Og].
          intro Hd. destruct (Od Hd) as [Od1 Od2]. split; [|exact Od2]. intro Hl. destruct (Od1 Hl) as [X1 X2]. split; [exact X1 | apply I5; exact X2].
        * assert (Hne : j <> j0) by (intro X; subst j0; contradiction).
          assert (Eo : fs_find (r_fs s1) j (cf_name f) = fs_find (r_fs st) j (cf_name f)).
          { apply O2. intros f0 idx0 b0 _ X. injection X as X1 X2. contradiction. }
          destruct (F3 (j, cf_name f)) as [B1 [B2 _]]. rewrite <- Eo, <- B1, <- B2. apply (I7 j f idx b Hin Es).
  Qed.

  (* ---- the step when repair does not answer ROk ------------------------------------------------------------------------------- *)
  Definition fail_body (pos : nat) (res : rres) (failed' : list fent) (s1b : rstate) : rstate :=
    let n := match res with RErr n => n | _ => O end in
    let s3 := rs_unrec (rs_err s1b n) 1 in
    let s4 := fold_left (fun s x => let '(j, f, i) := x in rs_tag s [tg K_UNREC [pos; j] [cf_name f; N.of_nat i]]) (bad_files failed') s3 in
    fold_left (fun s x => let '(j, f, i) := x in rs_flag s (j, cf_name f) fl_set_damaged) (bad_files failed') s4.

  Lemma stripe_step_fail o c fs0 pos s rec s1a res failed' buf jn' rtags :
    co_audit o = false -> res <> ROk ->
    let a := data_phase o c pos s in
    parity_phase nlev o pos (da_st a) = (rec, s1a) ->
    repair hashf padz bs nlev reduced pos (co_nosearch o) (search_view fs0 (r_fs s1a)) (da_failed a) rec (da_buf a) (r_jn s1a) = (res, failed', buf, jn', rtags) ->
    stripe_step o c fs0 s pos
    = fold_left (file_post o c pos) (seq 0 (length (c_disks c))) (fail_body pos res failed' (rs_tag (rs_setjn s1a jn') rtags)).
  Proof.
    intros Ha Hne a Hp Hr. unfold FixModel.stripe_step. fold a. rewrite Ha, Hp, Hr. destruct res; [contradiction | reflexivity | reflexivity].
  Qed.

  Lemma fold_unrec_tags pos (l : list (nat * cfile * nat)) : forall s,
    let s' := fold_left (fun s x => let '(j, f, i) := x in rs_tag s [tg K_UNREC [pos; j] [cf_name f; N.of_nat i]]) l s in
    r_fs s' = r_fs s /\ r_par s' = r_par s /\ r_unrec s' = r_unrec s /\ r_flags s' = r_flags s /\ (forall t, In t (r_tags s) -> In t (r_tags s')).
  Proof.
    induction l as [|[[j f] i] t IH]; intro s; cbn [fold_left]; [auto 10|].
    destruct (IH (rs_tag s [tg K_UNREC [pos; j] [cf_name f; N.of_nat i]])) as [A [B [C [D E]]]]. cbn zeta in *.
    rewrite A, B, C, D. do 4 (split; [reflexivity|]). intros x Hx. apply E. cbn. apply in_or_app. left. exact Hx.
  Qed.

  Definition bkey (x : nat * cfile * nat) : fkey := (fst (fst x), cf_name (snd (fst x))).
  Lemma fold_damaged (l : list (nat * cfile * nat)) : forall s,
    let s' := fold_left (fun s x => let '(j, f, i) := x in rs_flag s (j, cf_name f) fl_set_damaged) l s in
    r_fs s' = r_fs s /\ r_par s' = r_par s /\ r_unrec s' = r_unrec s /\ r_tags s' = r_tags s
    /\ (forall k, fl_fixed (get_fl (r_flags s') k) = fl_fixed (get_fl (r_flags s) k) /\ fl_opened (get_fl (r_flags s') k) = fl_opened (get_fl (r_flags s) k))
    /\ (forall k, fl_damaged (get_fl (r_flags s') k) = true <-> fl_damaged (get_fl (r_flags s) k) = true \/ exists x, In x l /\ k = bkey x).
  Proof.
    induction l as [|[[j f] i] t IH]; intro s; cbn [fold_left].
    - cbn zeta. do 4 (split; [reflexivity|]). split; [auto|]. intro k. split; [auto | intros [H|[x [[] _]]]; exact H].
    - destruct (IH (rs_flag s (j, cf_name f) fl_set_damaged)) as [A [B [C [D [E F]]]]]. cbn zeta in *.
      rewrite A, B, C, D. do 4 (split; [reflexivity|]). split.
      + intro k. destruct (E k) as [E1 E2]. rewrite E1, E2. unfold rs_flag, rs_setfl. cbn [r_flags]. rewrite !Rfl_get.
        destruct (fkey_eqb (j, cf_name f) k); auto.
      + intro k. rewrite (F k). unfold rs_flag, rs_setfl. cbn [r_flags]. rewrite Rfl_get. destruct (fkey_eqb (j, cf_name f) k) eqn:Ek.
        * apply fkey_eqb_eq in Ek. cbn. split; [intros _; right; exists (j, f, i); split; [left; reflexivity | symmetry; exact Ek] | auto].
        * split.
          -- intros [H|[x [Hx Hk]]]; [left; exact H | right; exists x; split; [right; exact Hx | exact Hk]].
          -- intros [H|[x [[Hx|Hx] Hk]]]; [left; exact H | | right; exists x; auto].
             subst x. cbn in Hk. subst k. rewrite fkey_eqb_refl in Ek. discriminate.
  Qed.

  (* ---- the body of the step (everything before file_post), seen from a reference state s --------------------------------------- *)
  Section ViewT.
    Variable o : copts.
    Variable c : content.
    Variable fs0 : list (option fsdisk).
    Variable pos : nat.
    Variable sA : rstate.
    Variable s : rstate.
    Variable v : list bid.
    Hypothesis Hplain : plain nlev o.
    Hypothesis Hfix : co_fix o = true.
    Hypothesis Hsync : stripe_synced c pos.
    Hypothesis Hlenfs : length (r_fs s) = length (c_disks c).
    Hypothesis Hfile : forall j f idx b, slot_of c pos j = SFile f idx b ->
         (0 < block_len bs (cf_size f) idx)%N
         /\ (forall g, fs_find (r_fs s) j (cf_name f) = Some g -> (ff_size g <= cf_size f)%N)
         /\ (co_fix o = true \/ fl_missing (get_fl (r_flags s) (j, cf_name f)) = false \/ fs_find (r_fs s) j (cf_name f) = None).
    Hypothesis Henc : enc_ok hashf bs c pos v.
    Hypothesis Hpad : forall j f idx b, slot_of c pos j = SFile f idx b -> pad_ok padz bs (vnth v j) (block_len bs (cf_size f) idx) = true.
    Hypothesis CFdata : forall j f idx b y, slot_of c pos j = SFile f idx b -> read_block bs s j f idx = Some y ->
                                          hash_ok hashf bs f idx b y = true -> y = vnth v j.
    Let n := length (c_disks c).
    Let rec := map (prow (r_par s) pos) (seq 0 nlev).
    Let failed := flat_map (fent_of hashf bs c pos s) (seq 0 n).
    Hypothesis Hwf : forall j f idx b, slot_of c pos j = SFile f idx b -> (N.of_nat idx * bs + block_len bs (cf_size f) idx <= cf_size f)%N.
    Hypothesis Hparlen : nlev <= length (r_par s).

    Let a := data_phase o c pos sA.
    Hypothesis Ibuf : da_buf a = map (bufval bs c pos s) (seq 0 n).
    Hypothesis Ifailed : da_failed a = failed.
    Hypothesis Ivalid : da_valid a = true.
    Hypothesis Iused : da_used a = existsb (fun j => slot_has_file (slot_of c pos j)) (seq 0 n).
    Hypothesis Cpar : r_par (da_st a) = r_par s.
    Hypothesis Cunrec : r_unrec (da_st a) = r_unrec s.
    Hypothesis Clen : length (r_fs (da_st a)) = length (r_fs s).
    Hypothesis Cfl : forall k, fl_damaged (get_fl (r_flags (da_st a)) k) = fl_damaged (get_fl (r_flags s) k)
                               /\ fl_fixed (get_fl (r_flags (da_st a)) k) = fl_fixed (get_fl (r_flags s) k)
                               /\ fl_opened (get_fl (r_flags (da_st a)) k) = fl_opened (get_fl (r_flags s) k).
    Hypothesis Ifs : forall j' n', fs_find (r_fs (da_st a)) j' n'
                                   = if j' <? length (c_disks c) then fs_after newino now o c pos s j' n' else fs_find (r_fs s) j' n'.

    Let es : list wentry :=
      flat_map (fun j => match slot_of c pos j with SFile f idx b => if is_bad hashf bs c pos s j then [(j, f, idx, b)] else [] | _ => [] end) (seq 0 n).

    Lemma failed_esT : failed = map we_ent es.
    Proof.
      unfold failed, es. generalize (seq 0 n). intro l. induction l as [|j t IH]; [reflexivity|].
      cbn [flat_map]. rewrite map_app, IH. f_equal. unfold fent_of.
      destruct (slot_of c pos j); try reflexivity. destruct (is_bad hashf bs c pos s j); reflexivity.
    Qed.
    Lemma es_jT : map we_j es = filter (is_bad hashf bs c pos s) (seq 0 n).
    Proof.
      rewrite <- (failed_idx_filter hashf bs c pos s n). fold failed. rewrite failed_esT, map_map. apply map_ext.
      intros [[[j f] idx] b]. reflexivity.
    Qed.
    Lemma es_inT x : In x es -> exists j f idx b, x = (j, f, idx, b) /\ j < n /\ slot_of c pos j = SFile f idx b /\ is_bad hashf bs c pos s j = true.
    Proof.
      unfold es. intro H. apply in_flat_map in H. destruct H as [j [Hj Hx]]. apply in_seq in Hj.
      destruct (slot_of c pos j) as [|f idx b|h] eqn:Es; try contradiction.
      destruct (is_bad hashf bs c pos s j) eqn:Eb; [|contradiction]. destruct Hx as [E|[]]. subst x.
      exists j, f, idx, b. repeat split; auto; lia.
    Qed.

    (* what repair is given *)
    Lemma view_pre : blk_failed failed (da_buf a) /\ agree_out (map fe_idx failed) v (da_buf a) = true.
    Proof.
      destruct Henc as [Hvlen Hvenc].
      assert (Hbuflen : length (da_buf a) = n) by (rewrite Ibuf, map_length, seq_length; reflexivity).
      assert (Hbufnth : forall j, j < n -> vnth (da_buf a) j = bufval bs c pos s j).
      { intros j Hj. rewrite Ibuf. unfold vnth. apply nth_map_seq. exact Hj. }
      (* the failed set *)
      assert (Hfin : forall e, In e failed -> exists j, j < n /\ In e (fent_of hashf bs c pos s j)).
      { intros e He. unfold failed in He. apply in_flat_map in He. destruct He as [j [Hj He]]. apply in_seq in Hj. exists j. split; [lia | exact He]. }
      assert (Hblk : blk_failed failed (da_buf a)).
      { intros e He. destruct (Hfin e He) as [j [Hj Hej]].
        destruct (fent_of_idx hashf bs c pos s Hsync j e Hej) as [A [B [C [D _]]]]. repeat split; auto. rewrite A, Hbuflen. exact Hj. }
      assert (Hidx : map fe_idx failed = filter (is_bad hashf bs c pos s) (seq 0 n)) by (apply failed_idx_filter).
      assert (Hag : agree_out (map fe_idx failed) v (da_buf a) = true).
      { apply agree_out_spec. intros i Hi. rewrite Hidx in Hi.
        destruct (Nat.lt_ge_cases i n) as [Hin|Hin].
        - assert (Eb : is_bad hashf bs c pos s i = false).
          { destruct (is_bad hashf bs c pos s i) eqn:E; [|reflexivity]. exfalso. apply Hi. apply filter_In. split; [apply in_seq; lia | exact E]. }
          rewrite Hbufnth by exact Hin. unfold bufval. unfold is_bad in Eb. specialize (Hvenc i ltac:(fold n; lia)).
          destruct (slot_of c pos i) as [|f idx b|h] eqn:Es.
          + cbn in Hvenc. exact Hvenc.
          + destruct (read_block bs s i f idx) as [y|] eqn:Er; [|discriminate].
            symmetry. apply (CFdata i f idx b y Es Er). destruct (hash_ok hashf bs f idx b y); [reflexivity | discriminate].
          + destruct Hsync as [Hs _]. specialize (Hs i). rewrite Es in Hs. contradiction.
        - rewrite !vnth_out by lia. reflexivity. }
      split; [exact Hblk | exact Hag].
    Qed.

    Notation the_repair := (repair hashf padz bs nlev reduced pos (co_nosearch o) (search_view fs0 (r_fs (da_st a))) failed rec (da_buf a) (r_jn (da_st a))).

    (* repair answers ROk with the recorded vector *)
    Theorem body_ok buf' jn' rtags :
      the_repair = (ROk, failed, buf', jn', rtags) -> full v (da_buf a) buf' ->
      exists s7, stripe_step o c fs0 sA pos = fold_left (file_post o c pos) (seq 0 (length (c_disks c))) s7
      /\ (forall j f idx b, slot_of c pos j = SFile f idx b ->
           exists g, fs_find (r_fs s7) j (cf_name f) = Some g /\ nth idx (ff_blocks g) 0%N = vnth v j
                  /\ (N.of_nat idx * bs + block_len bs (cf_size f) idx <= ff_size g)%N /\ (ff_size g <= cf_size f)%N
                  /\ (forall i, i <> idx -> nth i (ff_blocks g) 0%N = fblk (r_fs s) j (cf_name f) i)
                  /\ (fsz (r_fs s) j (cf_name f) <= ff_size g)%N
                  /\ (ff_size g <= N.max (fsz (r_fs s) j (cf_name f)) (N.of_nat idx * bs + block_len bs (cf_size f) idx))%N)
      /\ (forall l, l < nlev -> par_matches v (prow (r_par s7) pos l) = true)
      /\ r_unrec s7 = r_unrec s
      /\ (forall k, fl_damaged (get_fl (r_flags s7) k) = fl_damaged (get_fl (r_flags s) k)
                    /\ fl_opened (get_fl (r_flags s7) k) = fl_opened (get_fl (r_flags s) k))
      /\ length (r_fs s7) = length (r_fs s)
      /\ ((forall l p, p <> pos -> nth p (nth l (r_par s7) []) PNone = nth p (nth l (r_par s) []) PNone) /\ length (r_par s7) = length (r_par s))
      /\ (forall j' n', (forall f idx b, slot_of c pos j' = SFile f idx b -> cf_name f <> n') ->
                        fs_find (r_fs s7) j' n' = fs_find (r_fs s) j' n'
                        /\ fl_fixed (get_fl (r_flags s7) (j', n')) = fl_fixed (get_fl (r_flags s) (j', n')))
      /\ (forall j f idx b, slot_of c pos j = SFile f idx b ->
            fl_fixed (get_fl (r_flags s7) (j, cf_name f)) = fl_fixed (get_fl (r_flags s) (j, cf_name f)) || is_bad hashf bs c pos s j
            /\ (is_bad hashf bs c pos s j = false -> fs_find (r_fs s7) j (cf_name f) = fs_find (r_fs s) j (cf_name f))).
    Proof.
      intros Erep [Hfl1 Hfl2].
      destruct Henc as [Hvlen Hvenc].
      assert (Hbuflen : length (da_buf a) = n) by (rewrite Ibuf, map_length, seq_length; reflexivity).
      assert (Hbufnth : forall j, j < n -> vnth (da_buf a) j = bufval bs c pos s j).
      { intros j Hj. rewrite Ibuf. unfold vnth. apply nth_map_seq. exact Hj. }
      (* the failed set *)
      assert (Hfin : forall e, In e failed -> exists j, j < n /\ In e (fent_of hashf bs c pos s j)).
      { intros e He. unfold failed in He. apply in_flat_map in He. destruct He as [j [Hj He]]. apply in_seq in Hj. exists j. split; [lia | exact He]. }
      assert (Hblk : blk_failed failed (da_buf a)).
      { intros e He. destruct (Hfin e He) as [j [Hj Hej]].
        destruct (fent_of_idx hashf bs c pos s Hsync j e Hej) as [A [B [C [D _]]]]. repeat split; auto. rewrite A, Hbuflen. exact Hj. }
      pose proof (parity_phase_spec nlev o pos (da_st a) (pl_popen nlev o Hplain)) as Epp. rewrite Cpar in Epp. fold rec in Epp.
      cbn zeta.
      erewrite (stripe_step_ok hashf padz truncf bs nlev reduced newino now o c fs0 pos sA rec _ failed buf' jn' rtags); [| exact (pl_audit nlev o Hplain) | fold a; exact Epp | fold a; rewrite Ifailed; cbn [r_jn r_fs]; exact Erep].
      fold a. rewrite Iused, Ivalid.
      assert (Eu : existsb (fun j => slot_has_file (slot_of c pos j)) (seq 0 n) = true).
      { destruct Hsync as [_ [j Hj]]. apply existsb_exists. exists j. split; [|exact Hj].
        apply in_seq. destruct (Nat.lt_ge_cases j n) as [H|H]; [lia|]. rewrite slot_of_out in Hj by exact H. discriminate. }
      rewrite Eu. unfold ok_body. cbn [andb].
      assert (Epart : filter (fun e => fe_bad e && fe_ood e) failed = []).
      { apply filter_nil. intros e He. destruct (Hblk e He) as [_ [Ho _]]. rewrite Ho. apply andb_false_r. }
      rewrite Epart. cbn [fold_left]. rewrite Hfix. rewrite compare_phase_spec.
      set (rec2 := map (fun l => if wrong_level rec buf' l then PNone else nth l rec PNone) (seq 0 nlev)).
      match goal with |- context [write_phase padz truncf bs now o pos failed buf' ?st] => set (s5 := st) end.
      rewrite write_phase_fold, failed_esT.
      (* the write-back *)
      assert (Hfs5 : forall j' n', fs_find (r_fs s5) j' n' = fs_find (r_fs (da_st a)) j' n') by (intros; reflexivity).
      assert (Hnd : NoDup (map we_j es)) by (rewrite es_jT; apply NoDup_filter, seq_NoDup).
      assert (Hpres : forall x, In x es -> we_j x < length (r_fs s5) /\ exists g, fs_find (r_fs s5) (fst (we_key x)) (snd (we_key x)) = Some g).
      { intros x Hx. destruct (es_inT x Hx) as [j [f [idx [b [Ex [Hj [Es Eb]]]]]]]. subst x. cbn.
        split; [change (length (r_fs s5)) with (length (r_fs (da_st a))); rewrite Clen, Hlenfs; exact Hj|].
        change (r_fs s5) with (r_fs (da_st a)); rewrite Ifs. assert (E : (j <? n) = true) by (apply Nat.ltb_lt; exact Hj). fold n. rewrite E.
        unfold fs_after. rewrite Es, Hfix, N.eqb_refl. cbn [andb]. destruct (fs_find (r_fs s) j (cf_name f)); eauto. }
      destruct (wfold_spec padz truncf bs nlev now o pos buf' Hplain es s5 Hnd Hpres) as [W1 [W2 [W3 [W4 [W5 [W6 [W7 W8]]]]]]].
      set (s6 := fold_left (wstep padz truncf bs now o pos buf') (map we_ent es) s5) in *.
      (* the parity write-back *)
      destruct (parity_write_fold o pos rec2 buf' (seq 0 nlev) s6 (seq_NoDup nlev 0)) as [P1 [P2 [P3 [P4 [P5 [P6 [P7 P8]]]]]]].
      fold (parity_write_phase nlev o pos rec2 buf' s6) in *.
      set (s7 := parity_write_phase nlev o pos rec2 buf' s6) in *. fold n.
      assert (Hfull : forall j, j < n -> vnth buf' j = vnth v j) by (intros j Hj; apply Hfl2; rewrite Hbuflen; exact Hj).
      assert (Hs6all : forall j f idx b, slot_of c pos j = SFile f idx b ->
        exists g, fs_find (r_fs s6) j (cf_name f) = Some g /\ nth idx (ff_blocks g) 0%N = vnth v j
                  /\ (N.of_nat idx * bs + block_len bs (cf_size f) idx <= ff_size g)%N /\ (ff_size g <= cf_size f)%N
                  /\ (forall i, i <> idx -> nth i (ff_blocks g) 0%N = fblk (r_fs s) j (cf_name f) i)
                  /\ (fsz (r_fs s) j (cf_name f) <= ff_size g)%N
                  /\ (ff_size g <= N.max (fsz (r_fs s) j (cf_name f)) (N.of_nat idx * bs + block_len bs (cf_size f) idx))%N).
      { intros j f idx b Es.
        assert (Hj : j < n).
        { destruct (Nat.lt_ge_cases j n) as [H|H]; [exact H|]. rewrite slot_of_out in Es by exact H. discriminate. }
        destruct (is_bad hashf bs c pos s j) eqn:Eb.
          - assert (Hin : In (j, f, idx, b) es).
            { unfold es. apply in_flat_map. exists j. split; [apply in_seq; lia|]. rewrite Es, Eb. left. reflexivity. }
            destruct (Hpres _ Hin) as [_ [g Hg]]. cbn in Hg.
            rewrite (W7 j f idx b g Hin Hg).
            destruct (write_block_spec padz truncf bs now g f idx (vnth buf' j)) as [_ [X2 [X3 [X4 X5]]]].
            assert (Hgs : (ff_size g <= cf_size f)%N /\ ff_size g = fsz (r_fs s) j (cf_name f) /\ (forall i, nth i (ff_blocks g) 0%N = fblk (r_fs s) j (cf_name f) i)).
            { change (r_fs s5) with (r_fs (da_st a)) in Hg. rewrite Ifs in Hg.
              assert (E : (j <? n) = true) by (apply Nat.ltb_lt; exact Hj). fold n in Hg. rewrite E in Hg.
              unfold fs_after in Hg. rewrite Es, Hfix, N.eqb_refl in Hg. cbn [andb] in Hg. unfold fsz, fblk.
              destruct (fs_find (r_fs s) j (cf_name f)) as [g0|] eqn:Eg0.
              - injection Hg as Hg. subst g0. destruct (Hfile j f idx b Es) as [_ [Hsz _]]. split; [apply Hsz; exact Eg0 | auto].
              - injection Hg as Hg. subst g. cbn. split; [lia|]. split; [reflexivity|]. intro i. destruct i; reflexivity. }
            destruct Hgs as [Hgs [Hgz Hgb]].
            eexists. split; [reflexivity|]. split; [|split; [exact X2 | split; [apply X5; [exact Hgs | apply (Hwf j f idx b Es)]|]]].
            { rewrite X3; [apply Hfull; exact Hj|]. rewrite Hfull by exact Hj. apply (Hpad j f idx b Es). }
            split; [intros i Hi; rewrite X4 by exact Hi; apply Hgb|].
            rewrite <- Hgz. unfold write_block. cbn [ff_size].
            destruct (ff_size g <? N.of_nat idx * bs + block_len bs (cf_size f) idx)%N eqn:El; [apply N.ltb_lt in El | apply N.ltb_ge in El]; lia.
          - unfold is_bad in Eb. rewrite Es in Eb.
            destruct (read_block bs s j f idx) as [y|] eqn:Er; [|discriminate].
            assert (Ey : y = vnth v j) by (apply (CFdata j f idx b y Es Er); destruct (hash_ok hashf bs f idx b y); [reflexivity | discriminate]).
            destruct (read_block_some bs s j f idx y Er) as [g [Hg [Hy Hsz]]].
            exists g. split; [|split; [congruence | split; [exact Hsz | split; [destruct (Hfile j f idx b Es) as [_ [Hsz' _]]; apply Hsz'; exact Hg|]]]].
            2: { unfold fsz, fblk. rewrite Hg. split; [reflexivity|]. lia. }
            rewrite W8.
            + change (r_fs s5) with (r_fs (da_st a)); rewrite Ifs. assert (E : (j <? n) = true) by (apply Nat.ltb_lt; exact Hj). fold n. rewrite E.
              unfold fs_after. rewrite Es, Hfix, N.eqb_refl. cbn [andb]. rewrite Hg. reflexivity.
            + intros x Hx X. destruct (es_inT x Hx) as [j2 [f2 [i2 [b2 [Ex [_ [_ Eb2]]]]]]]. subst x. cbn in X. injection X as X1 X2. subst j2.
              unfold is_bad in Eb2. rewrite Es, Er in Eb2. rewrite Eb in Eb2. discriminate. }
      assert (Hj_of : forall j f idx b, slot_of c pos j = SFile f idx b -> j < n).
      { intros j f idx b Es. destruct (Nat.lt_ge_cases j n) as [H|H]; [exact H|]. rewrite slot_of_out in Es by exact H. discriminate. }
      (* flags and time-stamps *)
      destruct (wfold_flags padz truncf bs nlev now o pos buf' Hplain es s5 (fun x Hx => proj2 (Hpres x Hx)) Hnd) as [WF1 WF2]. fold s6 in WF1, WF2.
      assert (Hes_key : forall x j f idx b, In x es -> slot_of c pos j = SFile f idx b -> is_bad hashf bs c pos s j = false -> (j, cf_name f) <> we_key x).
      { intros x j f idx b Hx Es Eb X. destruct (es_inT x Hx) as [j2 [f2 [i2 [b2 [Ex [_ [_ Eb2]]]]]]]. subst x. cbn in X. injection X as X1 X2. subst j2. congruence. }
      exists s7. split; [reflexivity|].
      split. { intros j f idx b Es. destruct (Hs6all j f idx b Es) as [g H]. exists g. rewrite P1. exact H. }
      split. {
        intros l Hl. rewrite P7.
        assert (Em : memn l (seq 0 nlev) = true) by (apply memn_spec, in_seq; lia). rewrite Em.
        assert (El : (l <? length (r_par s6)) = true).
        { apply Nat.ltb_lt. rewrite W1. change (r_par s5) with (r_par s). lia. }
        rewrite El. unfold pw_cond. rewrite (pl_popen nlev o Hplain l Hl), (pl_pexcl nlev o Hplain l). cbn [negb andb]. rewrite !andb_true_r.
        assert (Hveq : veq v buf' = true).
        { apply veq_spec. intro i. destruct (Nat.lt_ge_cases i n) as [H|H]; [symmetry; apply Hfull; exact H|].
          rewrite !vnth_out; [reflexivity | destruct Hfl1; lia | lia]. }
        assert (Er2 : nth l rec2 PNone = if wrong_level rec buf' l then PNone else nth l rec PNone).
        { unfold rec2. apply nth_map_seq. exact Hl. }
        rewrite Er2. unfold wrong_level.
        assert (Erl : nth l rec PNone = prow (r_par s) pos l).
        { unfold rec. apply nth_map_seq. exact Hl. }
        destruct (nth l rec PNone) as [w|t|] eqn:Ep; cbn [is_pnone negb andb par_matches].
        + destruct (veq buf' w) eqn:Ew; cbn [negb is_pnone].
          * rewrite W1. change (r_par s5) with (r_par s). rewrite <- Erl. cbn. eapply veq_trans; [exact Hveq | exact Ew].
          * exact Hveq.
        + exact Hveq.
        + exact Hveq.
      }
      split. { rewrite P3, W2. change (r_unrec s5) with (r_unrec (da_st a)). exact Cunrec. }
      split. { intro k. split; [rewrite P2, (W6 k) | rewrite P2; unfold s6; rewrite (wfold_opened padz truncf bs now)]; change (r_flags s5) with (r_flags (da_st a)); apply Cfl. }
      split. { rewrite P1, W5. change (length (r_fs s5)) with (length (r_fs (da_st a))). exact Clen. }
      split. { split; [intros l p Hp; rewrite (P8 l p Hp), W1; reflexivity | rewrite P6, W1; reflexivity]. }
      split.
      { intros j' n' Hno.
        assert (Hne_es : forall x, In x es -> (j', n') <> we_key x).
        { intros x Hx X. destruct (es_inT x Hx) as [j2 [f2 [i2 [b2 [Ex [_ [Es2 _]]]]]]]. subst x. cbn in X. injection X as X1 X2. subst j2.
          apply (Hno f2 i2 b2 Es2). symmetry. exact X2. }
        split.
        - rewrite P1, W8 by exact Hne_es. change (r_fs s5) with (r_fs (da_st a)). rewrite Ifs. fold n.
          destruct (j' <? n) eqn:E; [|reflexivity]. unfold fs_after. destruct (slot_of c pos j') as [|f idx b|h] eqn:Es; try reflexivity.
          assert (En : N.eqb (cf_name f) n' = false) by (apply N.eqb_neq; apply (Hno f idx b eq_refl)).
          rewrite En, andb_false_r. reflexivity.
        - rewrite P2, WF2 by exact Hne_es. change (r_flags s5) with (r_flags (da_st a)). apply Cfl. }
      intros j f idx b Es. assert (Hj : j < n) by (apply (Hj_of j f idx b Es)). split.
      - rewrite P2. destruct (is_bad hashf bs c pos s j) eqn:Eb.
        + rewrite orb_true_r. apply (WF1 (j, f, idx, b)). unfold es. apply in_flat_map. exists j. split; [apply in_seq; lia|]. rewrite Es, Eb. left. reflexivity.
        + rewrite orb_false_r. rewrite WF2 by (intros x Hx; apply (Hes_key x j f idx b Hx Es Eb)).
          change (r_flags s5) with (r_flags (da_st a)). apply Cfl.
      - intros Eb. rewrite P1, W8 by (intros x Hx; apply (Hes_key x j f idx b Hx Es Eb)).
        change (r_fs s5) with (r_fs (da_st a)). rewrite Ifs. assert (E : (j <? n) = true) by (apply Nat.ltb_lt; exact Hj). fold n. rewrite E.
        unfold fs_after. rewrite Es, Hfix, N.eqb_refl. cbn [andb].
        unfold is_bad in Eb. rewrite Es in Eb. destruct (read_block bs s j f idx) as [y|] eqn:Er; [|discriminate].
        destruct (read_block_some bs s j f idx y Er) as [g [Hg _]]. rewrite Hg. reflexivity.
    Qed.

    (* repair does not answer ROk: nothing is written, the files of the bad blocks are flagged DAMAGED, one more unrecoverable *)
    Theorem body_fail res buf' jn' rtags :
      res <> ROk -> the_repair = (res, failed, buf', jn', rtags) ->
      exists s7, stripe_step o c fs0 sA pos = fold_left (file_post o c pos) (seq 0 (length (c_disks c))) s7
      /\ r_fs s7 = r_fs (da_st a) /\ r_par s7 = r_par s /\ r_unrec s7 = r_unrec s + 1
      /\ (forall k, fl_fixed (get_fl (r_flags s7) k) = fl_fixed (get_fl (r_flags s) k) /\ fl_opened (get_fl (r_flags s7) k) = fl_opened (get_fl (r_flags s) k))
      /\ (forall k, fl_damaged (get_fl (r_flags s7) k) = true <->
                    fl_damaged (get_fl (r_flags s) k) = true
                    \/ exists j f idx b, slot_of c pos j = SFile f idx b /\ is_bad hashf bs c pos s j = true /\ k = (j, cf_name f)).
    Proof.
      intros Hne Erep.
      pose proof (parity_phase_spec nlev o pos (da_st a) (pl_popen nlev o Hplain)) as Epp. rewrite Cpar in Epp. fold rec in Epp.
      erewrite (stripe_step_fail o c fs0 pos sA rec _ res failed buf' jn' rtags); [| exact (pl_audit nlev o Hplain) | exact Hne | fold a; exact Epp | fold a; rewrite Ifailed; cbn [r_jn r_fs]; exact Erep].
      unfold fail_body. cbv zeta.
      match goal with |- context [fold_left _ (bad_files failed) (fold_left _ (bad_files failed) ?st)] => set (s3 := st) end.
      destruct (fold_unrec_tags pos (bad_files failed) s3) as [T1 [T2 [T3 [T4 _]]]]. cbn zeta in T1, T2, T3, T4.
      set (s4 := fold_left (fun s x => let '(j, f, i) := x in rs_tag s [tg K_UNREC [pos; j] [cf_name f; N.of_nat i]]) (bad_files failed) s3) in *.
      destruct (fold_damaged (bad_files failed) s4) as [D1 [D2 [D3 [_ [D5 D6]]]]]. cbn zeta in D1, D2, D3, D5, D6.
      set (s7 := fold_left (fun s x => let '(j, f, i) := x in rs_flag s (j, cf_name f) fl_set_damaged) (bad_files failed) s4) in *.
      exists s7. split; [reflexivity|].
      split; [rewrite D1, T1; reflexivity|]. split; [rewrite D2, T2; reflexivity|].
      split; [rewrite D3, T3; unfold s3; cbn [r_unrec rs_unrec rs_err rs_tag rs_setjn]; rewrite Cunrec; reflexivity|].
      split.
      - intro k. destruct (D5 k) as [X1 X2]. rewrite X1, X2, T4. unfold s3. cbn [r_flags rs_unrec rs_err rs_tag rs_setjn]. split; apply Cfl.
      - intro k. rewrite (D6 k), T4. unfold s3. cbn [r_flags rs_unrec rs_err rs_tag rs_setjn].
        destruct (Cfl k) as [X _]. rewrite X.
        assert (Hbf : (exists x, In x (bad_files failed) /\ k = bkey x)
                      <-> exists j f idx b, slot_of c pos j = SFile f idx b /\ is_bad hashf bs c pos s j = true /\ k = (j, cf_name f)).
        { rewrite failed_esT. unfold bad_files. split.
          - intros [x [Hx Hk]]. apply in_flat_map in Hx. destruct Hx as [e [He Hx]]. apply in_map_iff in He. destruct He as [w [Ew Hw]].
            destruct (es_inT w Hw) as [j [f [idx [b [Ex [_ [Es Eb]]]]]]]. subst w e. cbn in Hx. destruct Hx as [Hx|[]]. subst x.
            exists j, f, idx, b. auto.
          - intros [j [f [idx [b [Es [Eb Hk]]]]]]. exists (j, f, idx). split; [|exact Hk].
            apply in_flat_map. exists (we_ent (j, f, idx, b)). split; [|cbn; left; reflexivity].
            apply in_map. unfold es. apply in_flat_map. exists j. split; [apply in_seq; pose proof (slot_lt c pos j f idx b Es); unfold n; lia|].
            rewrite Es, Eb. left. reflexivity. }
        rewrite Hbf. reflexivity.
    Qed.
  End ViewT.

  Ltac feed H :=
    repeat match type of H with
           | ?A -> _ => let X := fresh "X" in assert (X : A) by (first [assumption | reflexivity | (intro; auto; fail)]); specialize (H X); clear X
           end.

  (* ---- the stripe step, whatever the damage ---------------------------------------------------------------------------------- *)
  Section StepS.
    Variable o : copts.
    Variable c : content.
    Variable fs0 : list (option fsdisk).
    Variable pos : nat.
    Variable sA : rstate.
    Variable v : list bid.
    Hypothesis Hplain : plain nlev o.
    Hypothesis Hfix : co_fix o = true.
    Hypothesis Hsync : stripe_synced c pos.
    Hypothesis Hlenfs : length (r_fs sA) = length (c_disks c).
    Hypothesis HfileG : forall j f idx b, slot_of c pos j = SFile f idx b ->
         (0 < block_len bs (cf_size f) idx)%N /\ (N.of_nat idx * bs + block_len bs (cf_size f) idx <= cf_size f)%N
         /\ (forall g, fs_find (r_fs sA) j (cf_name f) = Some g -> (cf_size f < ff_size g)%N ->
                       fl_opened (get_fl (r_flags sA) (j, cf_name f)) = false).
    Hypothesis Henc : enc_ok hashf bs c pos v.
    Hypothesis Hpad : forall j f idx b, slot_of c pos j = SFile f idx b -> pad_ok padz bs (vnth v j) (block_len bs (cf_size f) idx) = true.
    Hypothesis CFdata : forall j f idx b y, slot_of c pos j = SFile f idx b -> read_block bs sA j f idx = Some y ->
                                          hash_ok hashf bs f idx b y = true -> y = vnth v j.
    Let n := length (c_disks c).
    Let rec := map (prow (r_par sA) pos) (seq 0 nlev).
    Let failed := flat_map (fent_of hashf bs c pos sA) (seq 0 n).
    Hypothesis CFj : cf_junk hashf padz bs failed.
    Hypothesis CFr : cf_rec hashf padz bs failed rec v.
    Hypothesis CFv : cf_vec hashf padz bs failed v.
    Hypothesis CFs : forall fsx, cf_search hashf bs (co_nosearch o) fsx failed v.
    Hypothesis Hparlen : nlev <= length (r_par sA).

    Notation blkend f i := (N.of_nat i * bs + block_len bs (cf_size f) i)%N.

    Theorem fix_step_sound :
      let s' := stripe_step o c fs0 sA pos in
      length (r_fs s') = length (r_fs sA)
      /\ (length (r_par s') = length (r_par sA) /\ forall l p, p <> pos -> nth p (nth l (r_par s') []) PNone = nth p (nth l (r_par sA) []) PNone)
      /\ r_unrec sA <= r_unrec s'
      (* the files that have no block in this stripe are not touched at all, nor are their DAMAGED, FIXED and OPENED flags *)
      /\ (forall j' n', (forall f idx b, slot_of c pos j' = SFile f idx b -> cf_name f <> n') ->
                        fs_find (r_fs s') j' n' = fs_find (r_fs sA) j' n'
                        /\ fl_damaged (get_fl (r_flags s') (j', n')) = fl_damaged (get_fl (r_flags sA) (j', n'))
                        /\ fl_fixed (get_fl (r_flags s') (j', n')) = fl_fixed (get_fl (r_flags sA) (j', n'))
                        /\ fl_opened (get_fl (r_flags s') (j', n')) = fl_opened (get_fl (r_flags sA) (j', n')))
      (* DAMAGED is never cleared *)
      /\ (forall k, fl_damaged (get_fl (r_flags sA) k) = true -> fl_damaged (get_fl (r_flags s') k) = true)
      (* the files of this stripe *)
      /\ (forall j f idx b, slot_of c pos j = SFile f idx b ->
            (* not flagged DAMAGED: the block of the stripe is the recorded block *)
            (fl_damaged (get_fl (r_flags s') (j, cf_name f)) = false ->
               exists g, fs_find (r_fs s') j (cf_name f) = Some g /\ nth idx (ff_blocks g) 0%N = vnth v j
                         /\ (blkend f idx <= ff_size g)%N /\ (ff_size g <= cf_size f)%N)
            (* flagged DAMAGED, last block: reported unrecoverable and renamed away *)
            /\ (fl_damaged (get_fl (r_flags s') (j, cf_name f)) = true -> S idx = length (cf_blocks f) ->
                  fs_find (r_fs s') j (cf_name f) = None /\ In (K_ST_UNREC, [N.of_nat j; cf_name f]) (r_tags s'))
            (* frame for the other blocks of the file *)
            /\ ((S idx = length (cf_blocks f) /\ fl_damaged (get_fl (r_flags s') (j, cf_name f)) = true)
                \/ ((forall i, i <> idx -> i < nblocks bs (cf_size f) -> fblk (r_fs s') j (cf_name f) i = fblk (r_fs sA) j (cf_name f) i)
                    /\ (N.min (fsz (r_fs sA) j (cf_name f)) (cf_size f) <= fsz (r_fs s') j (cf_name f))%N
                    /\ (fsz (r_fs s') j (cf_name f) <= N.max (N.min (fsz (r_fs sA) j (cf_name f)) (cf_size f)) (blkend f idx))%N))
            /\ (fsz (r_fs s') j (cf_name f) <= cf_size f)%N
            (* where the flags come from *)
            /\ (fl_damaged (get_fl (r_flags s') (j, cf_name f)) = true ->
                  fl_damaged (get_fl (r_flags sA) (j, cf_name f)) = true \/ is_bad hashf bs c pos sA j = true)
            /\ (fl_fixed (get_fl (r_flags s') (j, cf_name f)) = true ->
                  fl_fixed (get_fl (r_flags sA) (j, cf_name f)) = true \/ grownb c pos sA j = true \/ is_bad hashf bs c pos sA j = true)
            /\ (fl_fixed (get_fl (r_flags sA) (j, cf_name f)) = true -> fl_fixed (get_fl (r_flags s') (j, cf_name f)) = true)
            /\ (fl_damaged (get_fl (r_flags s') (j, cf_name f)) = false -> fl_fixed (get_fl (r_flags s') (j, cf_name f)) = false ->
                  fs_find (r_fs s') j (cf_name f) = fs_find (r_fs sA) j (cf_name f))
            /\ (uniq_stamp c j f -> S idx = length (cf_blocks f) -> fl_fixed (get_fl (r_flags s') (j, cf_name f)) = true ->
                fl_damaged (get_fl (r_flags s') (j, cf_name f)) = false ->
                exists g, fs_find (r_fs s') j (cf_name f) = Some g /\ ff_mtime g = cf_mtime f /\ ff_nsec g = cf_nsec f))
      (* nothing more unrecoverable: no new DAMAGED flag, the parity of the stripe is re-encoded *)
      /\ (r_unrec s' = r_unrec sA ->
            (forall k, fl_damaged (get_fl (r_flags s') k) = fl_damaged (get_fl (r_flags sA) k))
            /\ (forall l, l < nlev -> par_matches v (prow (r_par s') pos l) = true)).
    Proof.
      pose proof (data_phase_G hashf padz truncf bs nlev newino now o c pos sA Hplain Hfix Hsync Hlenfs HfileG) as DG.
      set (s1 := da_st (data_phase o c pos sA)) in *.
      destruct DG as [Gbuf Gfailed Gvalid Gused Gpar Gunrec Glen Gfs Ghi Gother Gdam Gfix]. fold s1 in Gpar, Gunrec, Glen, Gfs, Ghi, Gother, Gdam, Gfix.
      assert (Gslot := G_slot hashf padz truncf bs nlev newino now o c pos sA Hplain Hfix Hsync Hlenfs HfileG). fold s1 in Gslot.
      assert (Gread := G_read hashf padz truncf bs nlev newino now o c pos sA Hplain Hfix Hsync Hlenfs HfileG). fold s1 in Gread.
      assert (Gbad := G_is_bad hashf padz truncf bs nlev newino now o c pos sA Hplain Hfix Hsync Hlenfs HfileG). fold s1 in Gbad.
      assert (Gbv := G_bufval hashf padz truncf bs nlev newino now o c pos sA Hplain Hfix Hsync Hlenfs HfileG). fold s1 in Gbv.
      assert (Gfe := G_fent_of hashf padz truncf bs nlev newino now o c pos sA Hplain Hfix Hsync Hlenfs HfileG). fold s1 in Gfe.
      assert (Goth := G_other hashf padz truncf bs nlev newino now o c pos sA Hplain Hfix Hsync Hlenfs HfileG). fold s1 in Goth.
      assert (Efailed : flat_map (fent_of hashf bs c pos s1) (seq 0 (length (c_disks c))) = failed) by (unfold failed, n; apply flat_map_ext; exact Gfe).
      assert (Erec : map (prow (r_par s1) pos) (seq 0 nlev) = rec) by (unfold rec; rewrite Gpar; reflexivity).
      assert (Hfile1 : forall j f idx b, slot_of c pos j = SFile f idx b ->
         (0 < block_len bs (cf_size f) idx)%N
         /\ (forall g, fs_find (r_fs s1) j (cf_name f) = Some g -> (ff_size g <= cf_size f)%N)
         /\ (co_fix o = true \/ fl_missing (get_fl (r_flags s1) (j, cf_name f)) = false \/ fs_find (r_fs s1) j (cf_name f) = None)).
      { intros j f idx b Es. destruct (HfileG j f idx b Es) as [Hl _]. split; [exact Hl|]. split; [|left; exact Hfix].
        intros g Hg. destruct (Gslot j f idx b Es) as [g1 [E1 [Esz _]]]. rewrite E1 in Hg. injection Hg as Hg. subst g1. lia. }
      assert (Ifs : forall j' n', fs_find (r_fs s1) j' n'
                                  = if j' <? length (c_disks c) then fs_after newino now o c pos s1 j' n' else fs_find (r_fs s1) j' n').
      { intros j' n'. destruct (j' <? length (c_disks c)); [|reflexivity]. unfold fs_after.
        destruct (slot_of c pos j') as [|f idx b|h] eqn:Es; try reflexivity. rewrite Hfix. cbn [andb].
        destruct (N.eqb (cf_name f) n') eqn:En; [|reflexivity]. apply N.eqb_eq in En. subst n'.
        destruct (Gslot j' f idx b Es) as [g1 [E1 _]]. rewrite E1. reflexivity. }
      assert (Hlen1 : length (r_fs s1) = length (c_disks c)) by (rewrite Glen; exact Hlenfs).
      assert (CFd1 : forall j f idx b y, slot_of c pos j = SFile f idx b -> read_block bs s1 j f idx = Some y -> hash_ok hashf bs f idx b y = true -> y = vnth v j).
      { intros j f idx b y Es Hr. rewrite (Gread j f idx b Es) in Hr. apply (CFdata j f idx b y Es Hr). }
      assert (Hwf : forall j f idx b, slot_of c pos j = SFile f idx b -> (blkend f idx <= cf_size f)%N) by (intros j f idx b Es; apply (HfileG j f idx b Es)).
      assert (Hparlen1 : nlev <= length (r_par s1)) by (rewrite Gpar; exact Hparlen).
      assert (Ibuf1 : da_buf (data_phase o c pos sA) = map (bufval bs c pos s1) (seq 0 (length (c_disks c)))).
      { rewrite Gbuf. apply map_ext. intro j. symmetry. apply Gbv. }
      assert (Ifailed1 : da_failed (data_phase o c pos sA) = flat_map (fent_of hashf bs c pos s1) (seq 0 (length (c_disks c)))) by (rewrite Gfailed; symmetry; exact Efailed).
      pose proof (view_pre o c pos sA s1 v) as VP. feed VP. destruct VP as [Hblk Hag].
      destruct (repair hashf padz bs nlev reduced pos (co_nosearch o) (search_view fs0 (r_fs s1)) (flat_map (fent_of hashf bs c pos s1) (seq 0 (length (c_disks c))))
                       (map (prow (r_par s1) pos) (seq 0 nlev)) (da_buf (data_phase o c pos sA)) (r_jn s1)) as [[[[res failed'] buf'] jn'] rtags] eqn:Erep.
      destruct (repair_ok_sound hashf padz bs nlev reduced pos (co_nosearch o) (search_view fs0 (r_fs s1)) (flat_map (fent_of hashf bs c pos s1) (seq 0 (length (c_disks c))))
                  (map (prow (r_par s1) pos) (seq 0 nlev)) v (da_buf (data_phase o c pos sA)) (r_jn s1) res failed' buf' jn' rtags Hblk) as [Ef' Hok];
        [rewrite Efailed; exact CFj | rewrite Efailed, Erec; exact CFr | rewrite Efailed; exact CFv | rewrite Efailed; apply CFs | exact Hag | exact Erep |].
      subst failed'.
      (* both outcomes: a state s7 before the loop of file_post *)
      assert (HU : exists s7, stripe_step o c fs0 sA pos = fold_left (file_post o c pos) (seq 0 (length (c_disks c))) s7
        /\ (forall j f idx b, slot_of c pos j = SFile f idx b ->
              exists g7, fs_find (r_fs s7) j (cf_name f) = Some g7 /\ (ff_size g7 <= cf_size f)%N
                 /\ (forall i, i <> idx -> i < nblocks bs (cf_size f) -> nth i (ff_blocks g7) 0%N = fblk (r_fs sA) j (cf_name f) i)
                 /\ (N.min (fsz (r_fs sA) j (cf_name f)) (cf_size f) <= ff_size g7)%N
                 /\ (ff_size g7 <= N.max (N.min (fsz (r_fs sA) j (cf_name f)) (cf_size f)) (blkend f idx))%N
                 /\ (fl_damaged (get_fl (r_flags s7) (j, cf_name f)) = false -> nth idx (ff_blocks g7) 0%N = vnth v j /\ (blkend f idx <= ff_size g7)%N)
                 /\ (fl_damaged (get_fl (r_flags s7) (j, cf_name f)) = true ->
                       fl_damaged (get_fl (r_flags sA) (j, cf_name f)) = true \/ is_bad hashf bs c pos sA j = true)
                 /\ (fl_fixed (get_fl (r_flags s7) (j, cf_name f)) = true ->
                       fl_fixed (get_fl (r_flags sA) (j, cf_name f)) = true \/ grownb c pos sA j = true \/ is_bad hashf bs c pos sA j = true)
                 /\ (fl_damaged (get_fl (r_flags s7) (j, cf_name f)) = false -> fl_fixed (get_fl (r_flags s7) (j, cf_name f)) = false ->
                       fs_find (r_fs sA) j (cf_name f) = Some g7)
                 /\ (fl_fixed (get_fl (r_flags sA) (j, cf_name f)) = true -> fl_fixed (get_fl (r_flags s7) (j, cf_name f)) = true))
        /\ (forall j' n', (forall f idx b, slot_of c pos j' = SFile f idx b -> cf_name f <> n') ->
                        fs_find (r_fs s7) j' n' = fs_find (r_fs sA) j' n'
                        /\ fl_damaged (get_fl (r_flags s7) (j', n')) = fl_damaged (get_fl (r_flags sA) (j', n'))
                        /\ fl_fixed (get_fl (r_flags s7) (j', n')) = fl_fixed (get_fl (r_flags sA) (j', n'))
                        /\ fl_opened (get_fl (r_flags s7) (j', n')) = fl_opened (get_fl (r_flags sA) (j', n')))
        /\ (forall k, fl_damaged (get_fl (r_flags sA) k) = true -> fl_damaged (get_fl (r_flags s7) k) = true)
        /\ length (r_fs s7) = length (r_fs sA)
        /\ (length (r_par s7) = length (r_par sA) /\ forall l p, p <> pos -> nth p (nth l (r_par s7) []) PNone = nth p (nth l (r_par sA) []) PNone)
        /\ r_unrec sA <= r_unrec s7
        /\ (r_unrec s7 = r_unrec sA ->
              (forall k, fl_damaged (get_fl (r_flags s7) k) = fl_damaged (get_fl (r_flags sA) k))
              /\ (forall l, l < nlev -> par_matches v (prow (r_par s7) pos l) = true))).
      { assert (Hfx1 : forall j f idx b, slot_of c pos j = SFile f idx b ->
                   fl_fixed (get_fl (r_flags s1) (j, cf_name f)) = fl_fixed (get_fl (r_flags sA) (j, cf_name f)) || grownb c pos sA j).
        { intros j f idx b Es. apply (Gfix j f idx b Es). apply (slot_lt c pos j f idx b Es). }
        assert (Hnb : forall j f idx b, slot_of c pos j = SFile f idx b -> is_bad hashf bs c pos sA j = false ->
                   exists g, fs_find (r_fs sA) j (cf_name f) = Some g /\ nth idx (ff_blocks g) 0%N = vnth v j /\ (blkend f idx <= ff_size g)%N).
        { intros j f idx b Es Hb. unfold is_bad in Hb. rewrite Es in Hb.
          destruct (read_block bs sA j f idx) as [y|] eqn:Er; [|discriminate Hb].
          assert (Ey : y = vnth v j) by (apply (CFdata j f idx b y Es Er); destruct (hash_ok hashf bs f idx b y); [reflexivity | discriminate]).
          destruct (read_block_some bs sA j f idx y Er) as [g [Hg [Hy Hsz]]]. exists g. split; [exact Hg|]. split; [congruence | exact Hsz]. }
        assert (Hcase : res = ROk \/ res <> ROk) by (destruct res; [left; reflexivity | right; discriminate | right; discriminate]).
        destruct Hcase as [Eres|Nres].
        - (* repair succeeded *)
          subst res. specialize (Hok eq_refl).
          pose proof (body_ok o c fs0 pos sA s1 v) as BO. feed BO.
          specialize (BO buf' jn' rtags Erep Hok). destruct BO as [s7 [E7 [B1 [B2 [B3 [B4 [B5 [[B6a B6b] [B7 B8]]]]]]]]].
          exists s7. split; [exact E7|].
          assert (Ed7 : forall k, fl_damaged (get_fl (r_flags s7) k) = fl_damaged (get_fl (r_flags sA) k)) by (intro k; destruct (B4 k) as [X _]; rewrite X; apply Gdam).
          split.
          { intros j f idx b Es. destruct (B1 j f idx b Es) as [g7 [H1 [H2 [H3 [H4 [H5 [H6 H7]]]]]]].
            destruct (Gslot j f idx b Es) as [g1 [E1 [Esz [Ebl Esame]]]].
            assert (Z1 : fsz (r_fs s1) j (cf_name f) = N.min (fsz (r_fs sA) j (cf_name f)) (cf_size f)) by (unfold fsz at 1; rewrite E1; exact Esz).
            destruct (B8 j f idx b Es) as [B8a B8b].
            exists g7. split; [exact H1|]. split; [exact H4|].
            split; [intros i Hi Hin; rewrite (H5 i Hi); unfold fblk at 1; rewrite E1; apply Ebl; exact Hin|].
            split; [rewrite <- Z1; exact H6|]. split; [rewrite <- Z1; exact H7|]. split; [intros _; split; assumption|].
            split; [intro X; left; rewrite <- Ed7; exact X|]. split; [|split; [|intro X; rewrite B8a, (Hfx1 j f idx b Es), X; reflexivity]].
            - intro X. rewrite B8a, (Hfx1 j f idx b Es), Gbad in X. apply orb_true_iff in X. destruct X as [X|X]; [|right; right; exact X].
              apply orb_true_iff in X. destruct X as [X|X]; [left; exact X | right; left; exact X].
            - intros _ X. rewrite B8a, (Hfx1 j f idx b Es), Gbad in X. apply orb_false_iff in X. destruct X as [X Xb]. apply orb_false_iff in X. destruct X as [Xf Xg].
              destruct (Hnb j f idx b Es Xb) as [g [Hg _]]. rewrite Hg. f_equal.
              rewrite B8b in H1 by (rewrite Gbad; exact Xb). rewrite E1 in H1. injection H1 as H1. subst g7. symmetry. apply (Esame Xg g Hg). }
          split.
          { intros j' n' Hno. destruct (B7 j' n' Hno) as [X1 X2]. destruct (Goth j' n' Hno) as [Y1 Y2]. destruct (B4 (j', n')) as [X3 X4].
            split; [congruence|]. split; [apply Ed7|]. split; [rewrite X2, Y2; reflexivity | rewrite X4, Y2; reflexivity]. }
          split; [intros k X; rewrite Ed7; exact X|].
          split; [congruence|].
          split; [split; [congruence | intros l p Hp; rewrite (B6a l p Hp), Gpar; reflexivity]|].
          split; [rewrite B3, Gunrec; apply le_n|].
          intros _. split; [exact Ed7 | exact B2].
        - (* repair failed *)
          pose proof (body_fail o c fs0 pos sA s1) as BF. feed BF.
          specialize (BF res buf' jn' rtags Nres Erep). destruct BF as [s7 [E7 [F1 [F2 [F3 [F4 F5]]]]]].
          exists s7. split; [exact E7|].
          assert (Ed7 : forall j f idx b, slot_of c pos j = SFile f idx b -> fl_damaged (get_fl (r_flags s7) (j, cf_name f)) = false ->
                          fl_damaged (get_fl (r_flags sA) (j, cf_name f)) = false /\ is_bad hashf bs c pos sA j = false).
          { intros j f idx b Es X. split.
            - destruct (fl_damaged (get_fl (r_flags sA) (j, cf_name f))) eqn:Y; [|reflexivity]. rewrite <- X. symmetry. apply F5. left. rewrite Gdam. exact Y.
            - destruct (is_bad hashf bs c pos sA j) eqn:Y; [|reflexivity]. rewrite <- X. symmetry. apply F5. right. exists j, f, idx, b. rewrite Gbad. auto. }
          split.
          { intros j f idx b Es. destruct (Gslot j f idx b Es) as [g1 [E1 [Esz [Ebl Esame]]]].
            exists g1. split; [rewrite F1; exact E1|]. split; [lia|]. split; [intros i _ Hin; apply Ebl; exact Hin|]. split; [lia|]. split; [lia|].
            split.
            { intro X. destruct (Ed7 j f idx b Es X) as [_ Xb]. destruct (Hnb j f idx b Es Xb) as [g [Hg [Hv Hz]]].
              destruct (HfileG j f idx b Es) as [Hl [Hw _]]. pose proof (idx_lt_nblocks bs (cf_size f) idx Hl Hw) as Hin.
              rewrite (Ebl idx Hin). unfold fblk. rewrite Hg. split; [exact Hv|]. rewrite Esz. unfold fsz. rewrite Hg. lia. }
            split.
            { intro X. apply F5 in X. destruct X as [X|[j2 [f2 [i2 [b2 [Es2 [Eb2 Ek]]]]]]]; [left; rewrite <- Gdam; exact X|].
              injection Ek as Ek1 Ek2. subst j2. right. rewrite <- Gbad. exact Eb2. }
            split.
            { intro X. destruct (F4 (j, cf_name f)) as [Y _]. rewrite Y, (Hfx1 j f idx b Es) in X. apply orb_true_iff in X. destruct X as [X|X]; [left; exact X | right; left; exact X]. }
            split; [|intro X; destruct (F4 (j, cf_name f)) as [Y _]; rewrite Y, (Hfx1 j f idx b Es), X; reflexivity].
            intros X Xf. destruct (Ed7 j f idx b Es X) as [_ Xb]. destruct (Hnb j f idx b Es Xb) as [g [Hg _]].
            destruct (F4 (j, cf_name f)) as [Y _]. rewrite Y, (Hfx1 j f idx b Es) in Xf. apply orb_false_iff in Xf. destruct Xf as [_ Xg].
            rewrite Hg. f_equal. symmetry. apply (Esame Xg g Hg). }
          split.
          { intros j' n' Hno. destruct (Goth j' n' Hno) as [Y1 Y2]. destruct (F4 (j', n')) as [X2 X4].
            split; [rewrite F1; exact Y1|]. split; [|split; [rewrite X2, Y2; reflexivity | rewrite X4, Y2; reflexivity]].
            apply Bool.eq_true_iff_eq. rewrite (F5 (j', n')), Gdam. split; [|intro X; left; exact X].
            intros [X|[j2 [f2 [i2 [b2 [Es2 [_ Ek]]]]]]]; [exact X|]. injection Ek as Ek1 Ek2. subst j2. exfalso. apply (Hno f2 i2 b2 Es2). symmetry. exact Ek2. }
          split; [intros k X; apply F5; left; rewrite Gdam; exact X|].
          split; [rewrite F1; exact Glen|].
          split; [rewrite F2, Gpar; split; [reflexivity | intros; reflexivity]|].
          split; [rewrite F3, Gunrec; lia|].
          intro X. rewrite F3, Gunrec in X. lia. }
      destruct HU as [s7 [E7 [U1 [U2 [U3 [U4 [[U5a U5b] [U6 U7]]]]]]]].
      cbn zeta. rewrite E7.
      destruct (post_general o c pos Hplain Hfix (seq 0 (length (c_disks c))) s7 (seq_NoDup _ 0)) as [P1 [P2 [P3 [P4 [P5 [P6 P7]]]]]].
      cbn zeta in P1, P2, P3, P4, P5, P6, P7.
      set (s' := fold_left (file_post o c pos) (seq 0 (length (c_disks c))) s7) in *.
      split; [congruence|].
      split; [split; [congruence | intros l p Hp; rewrite P1; apply (U5b l p Hp)]|].
      split; [rewrite P2; exact U6|].
      split.
      { intros j' n' Hno. destruct (U2 j' n' Hno) as [X1 [X2 [X3 X4]]]. destruct (P3 (j', n')) as [Y2 [Y3 Y4]].
        split; [|split; [congruence | split; congruence]].
        rewrite P6; [exact X1|]. intros f idx b _ Es. apply (Hno f idx b Es). }
      split; [intros k X; destruct (P3 k) as [Y _]; rewrite Y; apply U3; exact X|].
      split.
      { intros j f idx b Es.
        destruct (U1 j f idx b Es) as [g7 [H1 [H2 [H3 [H4 [H5 [H6 [H7 [H8 [H9 H10]]]]]]]]]].
        assert (Hjn : In j (seq 0 (length (c_disks c)))) by (apply in_seq; pose proof (slot_lt c pos j f idx b Es); lia).
        destruct (P7 j f idx b Hjn Es) as [Pd Pg]. destruct (P3 (j, cf_name f)) as [Yd [Yf _]]. rewrite Yd, Yf.
        (* the file after the loop of file_post: gone, or the file before it up to the time-stamp *)
        assert (Hsd : (S idx = length (cf_blocks f) /\ fl_damaged (get_fl (r_flags s7) (j, cf_name f)) = true /\ fs_find (r_fs s') j (cf_name f) = None)
                      \/ exists g, fs_find (r_fs s') j (cf_name f) = Some g /\ ff_size g = ff_size g7 /\ ff_blocks g = ff_blocks g7).
        { destruct (fl_damaged (get_fl (r_flags s7) (j, cf_name f))) eqn:Ed.
          - destruct (Pd eq_refl) as [Pd1 Pd2]. destruct (Nat.eq_dec (S idx) (length (cf_blocks f))) as [El|El].
            + left. destruct (Pd1 El) as [X _]. auto.
            + right. exists g7. rewrite (Pd2 El). auto.
          - right. destruct (Pg eq_refl) as [Q _]. rewrite H1 in Q. destruct (fs_find (r_fs s') j (cf_name f)) as [g|]; [|contradiction].
            exists g. destruct Q as [Q1 Q2]. auto. }
        split.
        { intro X. destruct Hsd as [[_ [Y _]]|[g [Hg [Hz Hb]]]]; [rewrite X in Y; discriminate Y|].
          destruct (H6 X) as [Hv He]. exists g. split; [exact Hg|]. rewrite Hb, Hz. auto. }
        split; [intros X Hl; destruct (Pd X) as [Pd1 _]; apply (Pd1 Hl)|].
        split.
        { destruct Hsd as [[Y1 [Y2 _]]|[g [Hg [Hz Hb]]]]; [left; auto | right].
          unfold fsz at 2 3, fblk at 1. rewrite Hg, Hz, Hb. split; [exact H3 | split; [exact H4 | exact H5]]. }
        split.
        { unfold fsz. destruct Hsd as [[_ [_ Y]]|[g [Hg [Hz Hb]]]]; [rewrite Y; lia | rewrite Hg, Hz; exact H2]. }
        split; [exact H7|]. split; [exact H8|]. split; [exact H10|]. split.
        { intros X Xf. destruct (Pg X) as [_ [Q _]]. rewrite (Q Xf), H1. symmetry. apply (H9 X Xf). }
        intros Hu Hl Xf X. destruct (Pg X) as [_ [_ Q]]. exists (restamp f g7). split; [apply (Q Hu Hl Xf g7 H1) | split; reflexivity]. }
      intro X. rewrite P2 in X. destruct (U7 X) as [V1 V2]. split; [intro k; destruct (P3 k) as [Y _]; rewrite Y; apply V1 | intros l Hl; rewrite P1; apply (V2 l Hl)].
    Qed.
  End StepS.


  (* ---- the log only grows: FlagWalk.v's walk through stripe_step replayed for the tags ---------------------------------------- *)
  Definition Rt (s s' : rstate) : Prop := forall t, In t (r_tags s) -> In t (r_tags s').
  Lemma Rt_refl s : Rt s s.
  Proof. intros t H. exact H. Qed.
  Lemma Rt_trans a b d : Rt a b -> Rt b d -> Rt a d.
  Proof. intros H1 H2 t H. apply H2, H1, H. Qed.
  Ltac solve_rt := intros ? ?; cbn [r_tags rs_tag rs_err rs_recov rs_unrec rs_setfs rs_setjn rs_setpar rs_flag rs_setfl]; first [assumption | (apply in_or_app; left; assumption)].

  Section TagWalk.
    Variable o : copts.
    Variable c : content.
    Variable pos : nat.

  Ltac walk :=
    repeat match goal with
    | |- Rt _ _ => assumption
    | |- Rt ?a ?a => apply Rt_refl
    | |- Rt _ (rs_flag ?x _ _) => apply (Rt_trans _ x); [| solve_rt]
    | |- Rt _ (rs_tag ?x _) => apply (Rt_trans _ x); [| solve_rt]
    | |- Rt _ (rs_err ?x _) => apply (Rt_trans _ x); [| solve_rt]
    | |- Rt _ (rs_recov ?x _) => apply (Rt_trans _ x); [| solve_rt]
    | |- Rt _ (rs_unrec ?x _) => apply (Rt_trans _ x); [| solve_rt]
    | |- Rt _ (rs_setfs ?x _) => apply (Rt_trans _ x); [| solve_rt]
    | |- Rt _ (rs_setjn ?x _) => apply (Rt_trans _ x); [| solve_rt]
    | |- Rt _ (rs_setpar ?x _) => apply (Rt_trans _ x); [| solve_rt]
    | |- Rt _ (if ?b then _ else _) => destruct b
    | |- Rt _ (match ?x with Some _ => _ | None => _ end) => destruct x
    end.

  Lemma fold_Rt {A} (f : rstate -> A -> rstate) : (forall s x, Rt s (f s x)) -> forall l s, Rt s (fold_left f l s).
  Proof.
    intro H. induction l as [|x t IH]; intro s; [apply Rt_refl|]. cbn [fold_left].
    apply (Rt_trans _ (f s x)); [apply H | apply IH].
  Qed.
  Lemma fold_pair_Rt {A B} (f : B * rstate -> A -> B * rstate) :
    (forall acc x, Rt (snd acc) (snd (f acc x))) -> forall l acc, Rt (snd acc) (snd (fold_left f l acc)).
  Proof.
    intro H. induction l as [|x t IH]; intro acc; [apply Rt_refl|]. cbn [fold_left].
    apply (Rt_trans _ (snd (f acc x))); [apply H | apply IH].
  Qed.

  Lemma open_Rt j f s0 s4 : Kpos c pos (j, cf_name f) -> open_step bs newino now o pos j f s0 = Some s4 -> Rt s0 s4.
  Proof.
    intros HK H. unfold open_step in H.
    destruct (bool_dec (co_fix o) true) as [Efix|Efix].
    - destruct (negb (co_fix o && negb (is_excl o j (cf_name f))) && _) in H; [discriminate|].
      match type of H with match ?x with Some _ => _ | None => _ end = _ => destruct x as [g0|]; [|discriminate] end.
      injection H as H. subst s4. walk.
    - apply not_true_is_false in Efix. rewrite Efix in H. destruct (fs_find (r_fs s0) j (cf_name f)) as [g|] eqn:Ep.
      + cbn [andb negb orb] in H. destruct (fl_missing _) in H; [discriminate|]. cbv beta iota in H. rewrite Ep in H.
        injection H as H. subst s4. walk.
      + cbn [andb negb orb] in H. rewrite orb_true_r in H. discriminate.
  Qed.

  Lemma data_step_Rt a j : Rt (da_st a) (da_st (data_step hashf bs newino now o c pos a j)).
  Proof.
    unfold data_step. destruct (nth j (c_disks c) None) as [d|] eqn:En; [|apply Rt_refl].
    destruct (slot_at d pos) as [|f idx b|h] eqn:Es; try (apply Rt_refl).
    assert (HK : Kpos c pos (j, cf_name f)).
    { exists f, idx, b. cbn [fst snd]. rewrite slot_of_nth, En, Es. auto. }
    destruct (co_audit o && is_excl o j (cf_name f)); [apply Rt_refl|].
    destruct (open_step bs newino now o pos j f (da_st a)) as [s4|] eqn:Eo.
    - pose proof (open_Rt j f (da_st a) s4 HK Eo) as X.
      destruct (read_block bs s4 j f idx); [|cbn [da_st]; walk].
      destruct (fb_state b); try (destruct (hval_eqb _ _)); cbn [da_st]; walk.
    - cbn [da_st]. walk.
  Qed.

  Lemma data_phase_Rt s : Rt s (da_st (data_phase o c pos s)).
  Proof.
    unfold data_phase.
    assert (H : forall l a, Rt (da_st a) (da_st (fold_left (data_step hashf bs newino now o c pos) l a))).
    { induction l as [|x t IH]; intro a; [apply Rt_refl|]. cbn [fold_left].
      apply (Rt_trans _ (da_st (data_step hashf bs newino now o c pos a x))); [apply data_step_Rt | apply IH]. }
    apply (H _ (mkDA [] [] true false s)).
  Qed.

  Lemma parity_phase_Rt s : Rt s (snd (parity_phase nlev o pos s)).
  Proof.
    unfold parity_phase. refine (fold_pair_Rt _ _ _ ([], s)). intros [r st] l. cbn beta iota.
    destruct (nth l (co_popen o) false); [destruct (nth pos (nth l (r_par st) []) PNone)|]; cbn [snd]; walk.
  Qed.
  Lemma compare_phase_Rt rec buf s : Rt s (snd (compare_phase nlev pos rec buf s)).
  Proof.
    unfold compare_phase. refine (fold_pair_Rt _ _ _ ([], s)). intros [r st] l. cbn beta iota zeta.
    destruct (negb _ && negb _); cbn [snd]; walk.
  Qed.
  Lemma write_phase_Rt failed buf s : co_fix o = true -> Rt s (write_phase padz truncf bs now o pos failed buf s).
  Proof.
    intro Efix. unfold write_phase. apply fold_Rt. intros st e.
    destruct (negb (fe_bad e)); [walk|]. destruct (fe_file e) as [[f i]|]; [|walk].
    destruct (is_excl o (fe_idx e) (cf_name f) || _); [walk|]. walk.
  Qed.
  Lemma parity_write_Rt rec2 buf s : co_fix o = true -> Rt s (parity_write_phase nlev o pos rec2 buf s).
  Proof. intro Efix. unfold parity_write_phase. apply fold_Rt. intros st l. walk. Qed.

  Lemma file_post_Rt s j : Rt s (file_post o c pos s j).
  Proof.
    unfold file_post. destruct (nth j (c_disks c) None) as [d|]; [|walk].
    destruct (slot_at d pos) as [|f idx b|h]; try (apply Rt_refl).
    destruct (negb (Nat.eqb (S idx) (length (cf_blocks f)))); [walk|].
    destruct (is_excl o j (cf_name f) || _); [walk|].
    destruct (bool_dec (co_fix o) true) as [Efix|Efix]; [rewrite Efix | apply not_true_is_false in Efix; rewrite Efix].
    - destruct (fl_damaged _); [walk|]. destruct (negb (fl_fixed _)); [walk|].
      cbv zeta. match goal with |- Rt _ (match ?x with Some _ => _ | None => _ end) => destruct x end; [|walk].
      match goal with |- Rt _ (if ?b then _ else _) => destruct b end; walk.
    - walk.
  Qed.

  Theorem stripe_step_Rt fs0 s : Rt s (stripe_step o c fs0 s pos).
  Proof.
    unfold stripe_step. cbv zeta.
    pose proof (data_phase_Rt s) as D. set (a := data_phase o c pos s) in *.
    match goal with |- Rt _ (fold_left _ _ ?s2) => apply (Rt_trans _ s2); [| apply fold_Rt; intros; apply file_post_Rt] end.
    destruct (co_audit o).
    - apply (Rt_trans _ (da_st a)); [exact D|]. apply fold_Rt. intros st [[j f] i]. walk.
    - pose proof (parity_phase_Rt (da_st a)) as Pp. destruct (parity_phase nlev o pos (da_st a)) as [rec s1a]. cbn [snd] in Pp.
      destruct (repair hashf padz bs nlev reduced pos (co_nosearch o) (search_view fs0 (r_fs s1a)) (da_failed a) rec (da_buf a) (r_jn s1a)) as [[[[res failed'] buf] jn'] rtags].
      assert (X1 : Rt s (rs_tag (rs_setjn s1a jn') rtags)) by (apply (Rt_trans _ (da_st a)); [exact D|]; walk).
      set (s1b := rs_tag (rs_setjn s1a jn') rtags) in *.
      destruct res.
      + set (partial := filter (fun e => fe_bad e && fe_ood e) failed').
        set (s3 := fold_left _ partial s1b).
        assert (X3 : Rt s s3).
        { apply (Rt_trans _ s1b); [exact X1|]. apply fold_Rt. intros st e. destruct (fe_file e) as [[f i]|]; walk. }
        set (s4 := match partial with [] => s3 | _ => rs_unrec (rs_err s3 (length partial)) 1 end).
        assert (X4 : Rt s s4) by (unfold s4; destruct partial; walk).
        destruct (da_used a && da_valid a).
        * pose proof (compare_phase_Rt rec buf s4) as Cp. destruct (compare_phase nlev pos rec buf s4) as [rec2 s5]. cbn [snd] in Cp.
          assert (X5 : Rt s s5) by (apply (Rt_trans _ s4); assumption).
          destruct (bool_dec (co_fix o) true) as [Efix|Efix]; [rewrite Efix | apply not_true_is_false in Efix; rewrite Efix].
          -- apply (Rt_trans _ (write_phase padz truncf bs now o pos failed' buf s5)); [|apply parity_write_Rt; exact Efix].
             apply (Rt_trans _ s5); [exact X5 | apply write_phase_Rt; exact Efix].
          -- apply (Rt_trans _ s5); [exact X5|]. apply fold_Rt. intros st [[j f] i]. walk.
        * destruct (bool_dec (co_fix o) true) as [Efix|Efix]; [rewrite Efix | apply not_true_is_false in Efix; rewrite Efix].
          -- apply (Rt_trans _ s4); [exact X4 | apply write_phase_Rt; exact Efix].
          -- apply (Rt_trans _ s4); [exact X4|]. apply fold_Rt. intros st [[j f] i]. walk.
      + match goal with |- Rt _ (fold_left _ _ (fold_left _ _ ?s3)) => assert (X3 : Rt s s3) by walk end.
        match goal with |- Rt _ (fold_left _ _ ?s4) => apply (Rt_trans _ s4) end.
        * match goal with |- Rt _ (fold_left _ _ ?s3) => apply (Rt_trans _ s3); [exact X3|] end. apply fold_Rt. intros st [[j f] i]. walk.
        * apply fold_Rt. intros st [[j f] i]. walk.
      + match goal with |- Rt _ (fold_left _ _ (fold_left _ _ ?s3)) => assert (X3 : Rt s s3) by walk end.
        match goal with |- Rt _ (fold_left _ _ ?s4) => apply (Rt_trans _ s4) end.
        * match goal with |- Rt _ (fold_left _ _ ?s3) => apply (Rt_trans _ s3); [exact X3|] end. apply fold_Rt. intros st [[j f] i]. walk.
        * apply fold_Rt. intros st [[j f] i]. walk.
  Qed.
  End TagWalk.

  Lemma obj_step_Rt o c s ob : Rt s (obj_step newino now o c s ob).
  Proof.
    unfold obj_step. destruct (ob_excl ob); [apply Rt_refl|].
    destruct (ob_kind ob);
      repeat (match goal with
              | |- context [if ?b then _ else _] => destruct b
              | |- context [match ?x with Some _ => _ | None => _ end] => destruct x
              | |- context [match ?x with OOk => _ | OBad => _ end] => destruct x
              end);
      intros t Ht; cbn [r_tags rs_tag rs_err rs_recov rs_unrec rs_setfs]; repeat (try exact Ht; apply in_or_app; left).
  Qed.

  Lemma fold_obj_Rt o c : forall l st, Rt st (fold_left (obj_step newino now o c) l st).
  Proof.
    induction l as [|ob t IH]; intro st; [apply Rt_refl|]. cbn [fold_left].
    apply (Rt_trans _ (obj_step newino now o c st ob)); [apply obj_step_Rt | apply IH].
  Qed.

  (* ---- the loop over the stripes, fix mode, ANY damage ------------------------------------------------------------------- *)
  Lemma obj_step_unrec_le o c s ob : r_unrec s <= r_unrec (obj_step newino now o c s ob).
  Proof.
    unfold obj_step. destruct (ob_excl ob); [apply le_n|].
    destruct (ob_kind ob);
      repeat (match goal with
              | |- context [if ?b then _ else _] => destruct b
              | |- context [match ?x with Some _ => _ | None => _ end] => destruct x
              | |- context [match ?x with OOk => _ | OBad => _ end] => destruct x
              end); cbn; lia.
  Qed.

  Section RunS.
    Variable o : copts.
    Variable c : content.
    Variable bm : nat.
    Variable fs0 : list (option fsdisk).     (* the damaged data disks: anything *)
    Variable par : parity.                   (* the damaged parity: anything *)
    Variable vs : nat -> list bid.           (* the recorded vector of every stripe *)
    Hypothesis Hplain : plain nlev o.
    Hypothesis Hfix : co_fix o = true.
    Hypothesis Hsyn : forall p, p < bm -> stripe_synced c p.
    Hypothesis Hgeom : geom bs c bm.
    Hypothesis Hlen : length fs0 = length (c_disks c).
    Hypothesis Hparlen : nlev <= length par.
    Hypothesis Henc : forall p, p < bm -> enc_ok hashf bs c p (vs p).
    Hypothesis Hpad : forall p j f i b, slot_of c p j = SFile f i b -> pad_ok padz bs (vnth (vs p) j) (block_len bs (cf_size f) i) = true.

    Let s0 : rstate := mkRS fs0 [] par 0 0 0 [] 0%N.
    Hypothesis CFdata : forall p j f i b y, slot_of c p j = SFile f i b -> read_block bs s0 j f i = Some y ->
                                          hash_ok hashf bs f i b y = true -> y = vnth (vs p) j.
    Let failed0 (p : nat) := flat_map (fent_of hashf bs c p s0) (seq 0 (length (c_disks c))).
    Let rec0 (p : nat) := map (prow par p) (seq 0 nlev).
    Hypothesis CFj : forall p, p < bm -> cf_junk hashf padz bs (failed0 p).
    Hypothesis CFr : forall p, p < bm -> cf_rec hashf padz bs (failed0 p) (rec0 p) (vs p).
    Hypothesis CFv : forall p, p < bm -> cf_vec hashf padz bs (failed0 p) (vs p).
    Hypothesis CFs : forall p, p < bm -> forall fsx, cf_search hashf bs (co_nosearch o) fsx (failed0 p) (vs p).

    Notation blkend f i := (N.of_nat i * bs + block_len bs (cf_size f) i)%N.
    Notation dam s j f := (fl_damaged (get_fl (r_flags s) (j, cf_name f))).
    Notation fxd s j f := (fl_fixed (get_fl (r_flags s) (j, cf_name f))).

    (* the file f of disk j was intact in the damaged array: not larger than recorded, every one of its mapped blocks at a position
       < k reads and hashes to the recorded hash *)
    Definition intact_upto (k j : nat) (f : cfile) : Prop :=
      (fsz fs0 j (cf_name f) <= cf_size f)%N
      /\ forall p i b, p < k -> slot_of c p j = SFile f i b -> is_bad hashf bs c p s0 j = false.

    Record rinvS (k : nat) (s : rstate) : Prop := {
      rs_len : length (r_fs s) = length (c_disks c);
      rs_parlen : length (r_par s) = length par;
      rs_later : forall p j f i b, slot_of c p j = SFile f i b -> k <= p ->
          fblk (r_fs s) j (cf_name f) i = fblk fs0 j (cf_name f) i
          /\ ((blkend f i <= fsz (r_fs s) j (cf_name f))%N <-> (blkend f i <= fsz fs0 j (cf_name f))%N);
      rs_grown : forall p j f i b, slot_of c p j = SFile f i b -> (cf_size f < fsz (r_fs s) j (cf_name f))%N ->
                                   fl_opened (get_fl (r_flags s) (j, cf_name f)) = false;
      rs_parlater : forall p l, k <= p -> nth p (nth l (r_par s) []) PNone = nth p (nth l par []) PNone;
      (* a processed block of a file not flagged DAMAGED is the recorded block *)
      rs_good : forall p j f i b, slot_of c p j = SFile f i b -> p < k -> dam s j f = false ->
          fblk (r_fs s) j (cf_name f) i = vnth (vs p) j
          /\ (blkend f i <= fsz (r_fs s) j (cf_name f))%N /\ (fsz (r_fs s) j (cf_name f) <= cf_size f)%N;
      (* a file flagged DAMAGED is renamed away once its last block is passed *)
      rs_gone : forall p j f i b, slot_of c p j = SFile f i b -> p < k -> S i = length (cf_blocks f) -> dam s j f = true ->
          fs_find (r_fs s) j (cf_name f) = None;
      (* nothing unrecoverable so far: no file flagged, every processed parity row re-encoded *)
      rs_clean : r_unrec s = 0 ->
          (forall key, fl_damaged (get_fl (r_flags s) key) = false)
          /\ (forall p l, p < k -> l < nlev -> par_matches (vs p) (prow (r_par s) p l) = true);
      rs_nofix : forall p j f i b, slot_of c p j = SFile f i b -> fxd s j f = false -> dam s j f = false ->
                                   fs_find (r_fs s) j (cf_name f) = fs_find fs0 j (cf_name f);
      rs_frame : forall p j f i b, slot_of c p j = SFile f i b -> intact_upto k j f ->
                                   fs_find (r_fs s) j (cf_name f) = fs_find fs0 j (cf_name f) /\ fxd s j f = false /\ dam s j f = false;
      rs_stamp : forall p j f i b, slot_of c p j = SFile f i b -> uniq_stamp c j f -> S i = length (cf_blocks f) -> p < k ->
                                   fxd s j f = true -> dam s j f = false ->
                                   exists g, fs_find (r_fs s) j (cf_name f) = Some g /\ ff_mtime g = cf_mtime f /\ ff_nsec g = cf_nsec f
    }.

    Lemma rinvS_0 : rinvS 0 s0.
    Proof.
      constructor; cbn; auto.
      - intros p j f i b Hs _. split; [reflexivity | tauto].
      - intros p j f i b _ X. lia.
      - intros p j f i b _ X. lia.
      - intros _. split; [auto | intros p l X; lia].
      - intros p j f i b _ _ _ X. lia.
    Qed.

    Lemma rinvS_read k s p j f i b : rinvS k s -> k <= p -> slot_of c p j = SFile f i b -> read_block bs s j f i = read_block bs s0 j f i.
    Proof.
      intros I Hk Hs. destruct (g_wf bs c bm Hgeom p j f i b Hs) as [Hl _].
      rewrite !read_block_fsz by exact Hl.
      destruct (rs_later k s I p j f i b Hs Hk) as [Hb Hz]. change (r_fs s0) with fs0.
      rewrite Hb.
      destruct (fsz (r_fs s) j (cf_name f) <? N.of_nat i * bs + block_len bs (cf_size f) i)%N eqn:E1,
               (fsz fs0 j (cf_name f) <? N.of_nat i * bs + block_len bs (cf_size f) i)%N eqn:E2; try reflexivity.
      - apply N.ltb_lt in E1. apply N.ltb_ge in E2. apply Hz in E2. lia.
      - apply N.ltb_ge in E1. apply N.ltb_lt in E2. apply Hz in E1. lia.
    Qed.

    Lemma rinvS_is_bad k s j : rinvS k s -> k < bm -> is_bad hashf bs c k s j = is_bad hashf bs c k s0 j.
    Proof.
      intros I Hk. unfold is_bad. destruct (slot_of c k j) as [|f i b|h] eqn:Es; try reflexivity.
      rewrite (rinvS_read k s k j f i b I (le_n k) Es). reflexivity.
    Qed.

    Lemma rinvS_step k s : rinvS k s -> k < bm -> rinvS (S k) (stripe_step o c fs0 s k).
    Proof.
      intros I Hk.
      assert (Ebad : forall j, is_bad hashf bs c k s j = is_bad hashf bs c k s0 j) by (intro j; apply (rinvS_is_bad k s j I Hk)).
      assert (Efailed : flat_map (fent_of hashf bs c k s) (seq 0 (length (c_disks c))) = failed0 k).
      { unfold failed0. apply flat_map_ext_in2. intros j _. unfold fent_of. rewrite Ebad. reflexivity. }
      assert (Erec : map (prow (r_par s) k) (seq 0 nlev) = rec0 k).
      { unfold rec0. apply map_ext. intro l. unfold prow. apply (rs_parlater k s I k l). lia. }
      assert (HfileG : forall j f i b, slot_of c k j = SFile f i b ->
                (0 < block_len bs (cf_size f) i)%N /\ (blkend f i <= cf_size f)%N
                /\ (forall g, fs_find (r_fs s) j (cf_name f) = Some g -> (cf_size f < ff_size g)%N ->
                              fl_opened (get_fl (r_flags s) (j, cf_name f)) = false)).
      { intros j f i b Hs. destruct (g_wf bs c bm Hgeom k j f i b Hs) as [Hl Hw]. split; [exact Hl|]. split; [exact Hw|].
        intros g Hg Hgr. apply (rs_grown k s I k j f i b Hs). rewrite (fsz_some _ _ _ _ Hg). exact Hgr. }
      assert (CFd : forall j f i b y, slot_of c k j = SFile f i b -> read_block bs s j f i = Some y -> hash_ok hashf bs f i b y = true -> y = vnth (vs k) j).
      { intros j f i b y Hs Hr. rewrite (rinvS_read k s k j f i b I (le_n k) Hs) in Hr. apply (CFdata k j f i b y Hs Hr). }
      assert (CFj' : cf_junk hashf padz bs (flat_map (fent_of hashf bs c k s) (seq 0 (length (c_disks c))))) by (rewrite Efailed; apply CFj; exact Hk).
      assert (CFr' : cf_rec hashf padz bs (flat_map (fent_of hashf bs c k s) (seq 0 (length (c_disks c)))) (map (prow (r_par s) k) (seq 0 nlev)) (vs k)) by (rewrite Efailed, Erec; apply CFr; exact Hk).
      assert (CFv' : cf_vec hashf padz bs (flat_map (fent_of hashf bs c k s) (seq 0 (length (c_disks c)))) (vs k)) by (rewrite Efailed; apply CFv; exact Hk).
      assert (CFs' : forall fsx, cf_search hashf bs (co_nosearch o) fsx (flat_map (fent_of hashf bs c k s) (seq 0 (length (c_disks c)))) (vs k)) by (intro fsx; rewrite Efailed; apply CFs; exact Hk).
      assert (Hpl : nlev <= length (r_par s)) by (rewrite (rs_parlen k s I); exact Hparlen).
      destruct (fix_step_sound o c fs0 k s (vs k) Hplain Hfix (Hsyn k Hk) (rs_len k s I)
                  HfileG (Henc k Hk) (fun j f i b Hs => Hpad k j f i b Hs) CFd CFj' CFr' CFv' CFs' Hpl)
        as [K1 [[K2a K2b] [K3 [K4 [K5 [K6 K7]]]]]].
      set (s' := stripe_step o c fs0 s k) in *.
      assert (Hcase : forall p j f i b, slot_of c p j = SFile f i b ->
                (exists ik bk, slot_of c k j = SFile f ik bk /\ (p < k -> i < ik) /\ (k < p -> ik < i) /\ (p = k -> i = ik /\ b = bk))
                \/ (p <> k /\ fs_find (r_fs s') j (cf_name f) = fs_find (r_fs s) j (cf_name f)
                    /\ dam s' j f = dam s j f /\ fxd s' j f = fxd s j f
                    /\ fl_opened (get_fl (r_flags s') (j, cf_name f)) = fl_opened (get_fl (r_flags s) (j, cf_name f)))).
      { intros p j f i b Hs. destruct (slot_of c k j) as [|fk ik bk|h] eqn:Ek.
        - right. split; [intro X; subst p; rewrite Ek in Hs; discriminate Hs|]. apply (K4 j (cf_name f)). intros f' i' b' X. rewrite Ek in X. discriminate X.
        - destruct (N.eq_dec (cf_name fk) (cf_name f)) as [En|En].
          + left. destruct (g_same bs c bm Hgeom k p j fk ik bk f i b Ek Hs En) as [Ef H1]. subst fk.
            destruct (g_same bs c bm Hgeom p k j f i b f ik bk Hs Ek eq_refl) as [_ H2].
            exists ik, bk. split; [reflexivity|]. split; [exact H2|]. split; [exact H1|]. intro X. subst p. rewrite Ek in Hs. injection Hs as Hi Hb. auto.
          + right. split; [intro X; subst p; rewrite Ek in Hs; injection Hs as X1 X2 X3; subst fk; apply En; reflexivity|].
            apply (K4 j (cf_name f)). intros f' i' b' X. rewrite Ek in X. injection X as X1 X2 X3. subst f'. exact En.
        - right. split; [intro X; subst p; rewrite Ek in Hs; discriminate Hs|]. apply (K4 j (cf_name f)). intros f' i' b' X. rewrite Ek in X. discriminate X. }
      assert (Hdmono : forall j f, dam s' j f = false -> dam s j f = false).
      { intros j f X. destruct (dam s j f) eqn:Y; [|reflexivity]. rewrite (K5 _ Y) in X. discriminate X. }
      constructor.
      - rewrite K1. apply (rs_len k s I).
      - rewrite K2a. apply (rs_parlen k s I).
      - (* later blocks *)
        intros p j f i b Hs Hp. destruct (rs_later k s I p j f i b Hs ltac:(lia)) as [R1 R2].
        destruct (g_wf bs c bm Hgeom p j f i b Hs) as [Hl Hw]. pose proof (idx_lt_nblocks bs (cf_size f) i Hl Hw) as Hin.
        destruct (Hcase p j f i b Hs) as [[ik [bk [Ek [_ [Hgt _]]]]]|[_ [Efs _]]].
        + specialize (Hgt ltac:(lia)). destruct (K6 j f ik bk Ek) as [_ [_ [Kc _]]].
          destruct Kc as [[Kl _]|[S1 [S2 S3]]]; [pose proof (g_idx bs c bm Hgeom p j f i b Hs); lia|].
          destruct (g_wf bs c bm Hgeom k j f ik bk Ek) as [Hlk Hwk]. pose proof (block_len_le bs (cf_size f) ik) as Hbl.
          rewrite S1 by (try exact Hin; lia). split; [exact R1|]. rewrite <- R2.
          assert (Hoff : (N.of_nat ik * bs + block_len bs (cf_size f) ik <= N.of_nat i * bs)%N) by nia.
          split; intro X; lia.
        + unfold fsz, fblk. rewrite Efs. fold (fsz (r_fs s) j (cf_name f)). fold (fblk (r_fs s) j (cf_name f) i). split; [exact R1 | exact R2].
      - (* larger than recorded: never opened *)
        intros p j f i b Hs Hgr.
        destruct (Hcase p j f i b Hs) as [[ik [bk [Ek _]]]|[_ [Efs [_ [_ Eop]]]]].
        + exfalso. destruct (K6 j f ik bk Ek) as [_ [_ [_ [Kz _]]]]. lia.
        + rewrite Eop. apply (rs_grown k s I p j f i b Hs). unfold fsz in *. rewrite <- Efs. exact Hgr.
      - intros p l Hp. rewrite (K2b l p ltac:(lia)). apply (rs_parlater k s I). lia.
      - (* processed blocks of files not flagged *)
        intros p j f i b Hs Hp Hd.
        destruct (g_wf bs c bm Hgeom p j f i b Hs) as [Hl Hw]. pose proof (idx_lt_nblocks bs (cf_size f) i Hl Hw) as Hin.
        destruct (Hcase p j f i b Hs) as [[ik [bk [Ek [Hlt [_ Heq]]]]]|[Hpk [Efs [Ed _]]]].
        + destruct (K6 j f ik bk Ek) as [Ka [_ [Kc [Kz _]]]].
          destruct (Nat.eq_dec p k) as [Epk|Epk].
          * destruct (Heq Epk) as [X1 X2]. subst ik bk. subst p. destruct (Ka Hd) as [g [Hg [Hn [Hs1 Hs2]]]].
            rewrite (fblk_some _ _ _ _ _ Hg), (fsz_some _ _ _ _ Hg). auto.
          * assert (Hpk : p < k) by lia. destruct (rs_good k s I p j f i b Hs Hpk (Hdmono j f Hd)) as [R1 [R2 R3]].
            destruct Kc as [[_ Kd]|[S1 [S2 S3]]]; [rewrite Hd in Kd; discriminate Kd|].
            rewrite S1 by (try exact Hin; specialize (Hlt Hpk); lia). split; [exact R1|]. split; [lia | exact Kz].
        + unfold fsz, fblk. rewrite Efs. fold (fsz (r_fs s) j (cf_name f)). fold (fblk (r_fs s) j (cf_name f) i).
          apply (rs_good k s I p j f i b Hs ltac:(lia)). rewrite <- Ed. exact Hd.
      - (* flagged files are renamed away at their last block *)
        intros p j f i b Hs Hp Hl Hd.
        destruct (Hcase p j f i b Hs) as [[ik [bk [Ek [Hlt [_ Heq]]]]]|[Hpk [Efs [Ed _]]]].
        + destruct (Nat.eq_dec p k) as [Epk|Epk].
          * destruct (Heq Epk) as [X1 X2]. subst ik bk. destruct (K6 j f i b Ek) as [_ [Kb _]]. apply (Kb Hd Hl).
          * exfalso. pose proof (g_idx bs c bm Hgeom k j f ik bk Ek). specialize (Hlt ltac:(lia)). lia.
        + rewrite Efs. apply (rs_gone k s I p j f i b Hs ltac:(lia) Hl). rewrite <- Ed. exact Hd.
      - (* nothing unrecoverable *)
        intro Hu. assert (Hu0 : r_unrec s = 0) by lia. destruct (rs_clean k s I Hu0) as [C1 C2].
        destruct (K7 ltac:(lia)) as [V1 V2]. split.
        + intro key. rewrite V1. apply C1.
        + intros p l Hp Hl. destruct (Nat.eq_dec p k) as [Epk|Epk]; [subst p; apply V2; exact Hl|].
          unfold prow. rewrite (K2b l p Epk). apply C2; [lia | exact Hl].
      - (* never FIXED, not flagged: untouched *)
        intros p j f i b Hs Hnf Hd.
        destruct (Hcase p j f i b Hs) as [[ik [bk [Ek _]]]|[_ [Efs [Ed [Efx _]]]]].
        + destruct (K6 j f ik bk Ek) as [_ [_ [_ [_ [_ [_ [Km [Kf _]]]]]]]].
          rewrite (Kf Hd Hnf). apply (rs_nofix k s I p j f i b Hs); [|apply (Hdmono j f Hd)].
          destruct (fxd s j f) eqn:Y; [|reflexivity]. rewrite (Km eq_refl) in Hnf. discriminate Hnf.
        + rewrite Efs. apply (rs_nofix k s I p j f i b Hs); congruence.
      - (* files intact in the damaged array *)
        intros p j f i b Hs [Hng Hint].
        destruct (rs_frame k s I p j f i b Hs) as [R1 [R2 R3]]; [split; [exact Hng | intros p' i' b' Hp'; apply Hint; lia]|].
        destruct (Hcase p j f i b Hs) as [[ik [bk [Ek _]]]|[_ [Efs [Ed [Efx _]]]]].
        + destruct (K6 j f ik bk Ek) as [_ [_ [_ [_ [Kd [Ke [_ [Kf _]]]]]]]].
          assert (Hb : is_bad hashf bs c k s j = false) by (rewrite Ebad; apply (Hint k ik bk (Nat.lt_succ_diag_r k) Ek)).
          assert (Hg : grownb c k s j = false).
          { unfold grownb. rewrite Ek, R1. unfold fsz in Hng. destruct (fs_find fs0 j (cf_name f)) as [g|]; [apply N.ltb_ge; exact Hng | reflexivity]. }
          assert (Hd' : dam s' j f = false).
          { destruct (dam s' j f) eqn:Y; [|reflexivity]. destruct (Kd eq_refl) as [X|X]; congruence. }
          assert (Hf' : fxd s' j f = false).
          { destruct (fxd s' j f) eqn:Y; [|reflexivity]. destruct (Ke eq_refl) as [X|[X|X]]; congruence. }
          split; [rewrite (Kf Hd' Hf'); exact R1 | split; assumption].
        + split; [congruence | split; congruence].
      - (* FIXED and past the last block: the recorded time-stamp *)
        intros p j f i b Hs Hu Hl Hp Hfx Hd.
        destruct (Hcase p j f i b Hs) as [[ik [bk [Ek [Hlt [_ Heq]]]]]|[Hpk [Efs [Ed [Efx _]]]]].
        + destruct (Nat.eq_dec p k) as [Epk|Epk].
          * destruct (Heq Epk) as [X1 X2]. subst ik bk. destruct (K6 j f i b Ek) as [_ [_ [_ [_ [_ [_ [_ [_ Kg]]]]]]]]. apply (Kg Hu Hl Hfx Hd).
          * exfalso. pose proof (g_idx bs c bm Hgeom k j f ik bk Ek). specialize (Hlt ltac:(lia)). lia.
        + rewrite Efs. apply (rs_stamp k s I p j f i b Hs Hu Hl ltac:(lia)); congruence.
    Qed.

    Lemma rinvS_loop : forall k, k <= bm ->
      rinvS k (fold_left (fun s pos => if block_enabled nlev o c pos then stripe_step o c fs0 s pos else s) (seq 0 k) s0).
    Proof.
      induction k as [|k IH]; intro Hk; [apply rinvS_0|].
      rewrite seq_S, fold_left_app. cbn [fold_left plus].
      rewrite (block_enabled_plain nlev o c k Hplain (Hsyn k ltac:(lia))). apply rinvS_step; [apply IH; lia | lia].
    Qed.

    (* ---- the files flagged DAMAGED are reported: status:unrecoverable stays in the log ---------------------------------------- *)
    Definition tinv (k : nat) (s : rstate) : Prop :=
      forall p j f i b, slot_of c p j = SFile f i b -> p < k -> S i = length (cf_blocks f) -> dam s j f = true ->
                        In (K_ST_UNREC, [N.of_nat j; cf_name f]) (r_tags s).

    Lemma tinv_step k s : rinvS k s -> tinv k s -> k < bm -> tinv (S k) (stripe_step o c fs0 s k).
    Proof.
      intros I T Hk.
      assert (Ebad : forall j, is_bad hashf bs c k s j = is_bad hashf bs c k s0 j) by (intro j; apply (rinvS_is_bad k s j I Hk)).
      assert (Efailed : flat_map (fent_of hashf bs c k s) (seq 0 (length (c_disks c))) = failed0 k).
      { unfold failed0. apply flat_map_ext_in2. intros j _. unfold fent_of. rewrite Ebad. reflexivity. }
      assert (Erec : map (prow (r_par s) k) (seq 0 nlev) = rec0 k).
      { unfold rec0. apply map_ext. intro l. unfold prow. apply (rs_parlater k s I k l). lia. }
      assert (HfileG : forall j f i b, slot_of c k j = SFile f i b ->
                (0 < block_len bs (cf_size f) i)%N /\ (blkend f i <= cf_size f)%N
                /\ (forall g, fs_find (r_fs s) j (cf_name f) = Some g -> (cf_size f < ff_size g)%N ->
                              fl_opened (get_fl (r_flags s) (j, cf_name f)) = false)).
      { intros j f i b Hs. destruct (g_wf bs c bm Hgeom k j f i b Hs) as [Hl Hw]. split; [exact Hl|]. split; [exact Hw|].
        intros g Hg Hgr. apply (rs_grown k s I k j f i b Hs). rewrite (fsz_some _ _ _ _ Hg). exact Hgr. }
      assert (CFd : forall j f i b y, slot_of c k j = SFile f i b -> read_block bs s j f i = Some y -> hash_ok hashf bs f i b y = true -> y = vnth (vs k) j).
      { intros j f i b y Hs Hr. rewrite (rinvS_read k s k j f i b I (le_n k) Hs) in Hr. apply (CFdata k j f i b y Hs Hr). }
      assert (CFj' : cf_junk hashf padz bs (flat_map (fent_of hashf bs c k s) (seq 0 (length (c_disks c))))) by (rewrite Efailed; apply CFj; exact Hk).
      assert (CFr' : cf_rec hashf padz bs (flat_map (fent_of hashf bs c k s) (seq 0 (length (c_disks c)))) (map (prow (r_par s) k) (seq 0 nlev)) (vs k)) by (rewrite Efailed, Erec; apply CFr; exact Hk).
      assert (CFv' : cf_vec hashf padz bs (flat_map (fent_of hashf bs c k s) (seq 0 (length (c_disks c)))) (vs k)) by (rewrite Efailed; apply CFv; exact Hk).
      assert (CFs' : forall fsx, cf_search hashf bs (co_nosearch o) fsx (flat_map (fent_of hashf bs c k s) (seq 0 (length (c_disks c)))) (vs k)) by (intro fsx; rewrite Efailed; apply CFs; exact Hk).
      assert (Hpl : nlev <= length (r_par s)) by (rewrite (rs_parlen k s I); exact Hparlen).
      destruct (fix_step_sound o c fs0 k s (vs k) Hplain Hfix (Hsyn k Hk) (rs_len k s I)
                  HfileG (Henc k Hk) (fun j f i b Hs => Hpad k j f i b Hs) CFd CFj' CFr' CFv' CFs' Hpl)
        as [_ [_ [_ [K4 [_ [K6 _]]]]]].
      pose proof (stripe_step_Rt o c k fs0 s) as Mono.
      set (s' := stripe_step o c fs0 s k) in *.
      intros p j f i b Hs Hp Hl Hd.
      assert (Hother : (forall f' i' b', slot_of c k j = SFile f' i' b' -> cf_name f' <> cf_name f) -> p <> k ->
                       In (K_ST_UNREC, [N.of_nat j; cf_name f]) (r_tags s')).
      { intros Hno Hpk. destruct (K4 j (cf_name f) Hno) as [_ [Ed _]]. apply Mono. apply (T p j f i b Hs ltac:(lia) Hl). rewrite <- Ed. exact Hd. }
      destruct (slot_of c k j) as [|fk ik bk|h] eqn:Ek.
      - apply Hother; [intros f' i' b' X; discriminate X | intro X; subst p; rewrite Ek in Hs; discriminate Hs].
      - destruct (N.eq_dec (cf_name fk) (cf_name f)) as [En|En].
        + destruct (g_same bs c bm Hgeom k p j fk ik bk f i b Ek Hs En) as [Ef _]. subst fk.
          destruct (g_same bs c bm Hgeom p k j f i b f ik bk Hs Ek eq_refl) as [_ H2].
          destruct (Nat.eq_dec p k) as [Epk|Epk].
          * subst p. rewrite Ek in Hs. injection Hs as Hi Hb. subst ik bk. destruct (K6 j f i b Ek) as [_ [Kb _]]. apply (Kb Hd Hl).
          * exfalso. pose proof (g_idx bs c bm Hgeom k j f ik bk Ek). specialize (H2 ltac:(lia)). lia.
        + apply Hother; [intros f' i' b' X; injection X as X1 X2 X3; subst f'; exact En|].
          intro X. subst p. rewrite Ek in Hs. injection Hs as X1 X2 X3. subst fk. apply En. reflexivity.
      - apply Hother; [intros f' i' b' X; discriminate X | intro X; subst p; rewrite Ek in Hs; discriminate Hs].
    Qed.

    Lemma tinv_loop : forall k, k <= bm ->
      tinv k (fold_left (fun s pos => if block_enabled nlev o c pos then stripe_step o c fs0 s pos else s) (seq 0 k) s0).
    Proof.
      induction k as [|k IH]; intro Hk; [intros p j f i b _ X; lia|].
      rewrite seq_S, fold_left_app. cbn [fold_left plus].
      rewrite (block_enabled_plain nlev o c k Hplain (Hsyn k ltac:(lia))). apply tinv_step; [apply rinvS_loop; lia | apply IH; lia | lia].
    Qed.

    (* ---- the empty files, links and dirs ---------------------------------------------------------------------------- *)
    Lemma rinvS_obj s ob :
      rinvS bm s ->
      (forall p f i b, slot_of c p (ob_disk ob) = SFile f i b -> cf_name f <> ob_name ob) ->
      rinvS bm (obj_step newino now o c s ob) /\ r_flags (obj_step newino now o c s ob) = r_flags s.
    Proof.
      intros I Hnames. destruct (obj_step_frame newino now o c Hfix s ob) as [F1 [F2 [F3 [F4 _]]]].
      pose proof (obj_step_unrec_le o c s ob) as F5.
      set (s' := obj_step newino now o c s ob) in *. split; [|exact F2].
      assert (Efs : forall p j f i b, slot_of c p j = SFile f i b -> fs_find (r_fs s') j (cf_name f) = fs_find (r_fs s) j (cf_name f)).
      { intros p j f i b Hs. apply F4. intro X. injection X as X1 X2. subst j. apply (Hnames p f i b Hs). exact X2. }
      constructor.
      - rewrite F3. apply (rs_len bm s I).
      - rewrite F1. apply (rs_parlen bm s I).
      - intros p j f i b Hs. unfold fsz, fblk. rewrite (Efs p j f i b Hs). apply (rs_later bm s I p j f i b Hs).
      - intros p j f i b Hs. unfold fsz. rewrite F2, (Efs p j f i b Hs). apply (rs_grown bm s I p j f i b Hs).
      - intros p l. rewrite F1. apply (rs_parlater bm s I).
      - intros p j f i b Hs. unfold fsz, fblk. rewrite F2, (Efs p j f i b Hs). apply (rs_good bm s I p j f i b Hs).
      - intros p j f i b Hs. rewrite F2, (Efs p j f i b Hs). apply (rs_gone bm s I p j f i b Hs).
      - intro Hu. rewrite F1, F2. apply (rs_clean bm s I). lia.
      - intros p j f i b Hs. rewrite F2, (Efs p j f i b Hs). apply (rs_nofix bm s I p j f i b Hs).
      - intros p j f i b Hs. rewrite F2, (Efs p j f i b Hs). apply (rs_frame bm s I p j f i b Hs).
      - intros p j f i b Hs. rewrite F2, (Efs p j f i b Hs). apply (rs_stamp bm s I p j f i b Hs).
    Qed.

    Variable objs : list obj.
    Hypothesis Hobj_names : forall ob p f i b, In ob objs -> slot_of c p (ob_disk ob) = SFile f i b -> cf_name f <> ob_name ob.

    Lemma rinvS_objs : forall l s, incl l objs -> rinvS bm s ->
      rinvS bm (fold_left (obj_step newino now o c) l s) /\ r_flags (fold_left (obj_step newino now o c) l s) = r_flags s.
    Proof.
      induction l as [|ob t IH]; intros s Hin I; [split; [exact I | reflexivity]|]. cbn [fold_left].
      assert (Hob : In ob objs) by (apply Hin; left; reflexivity).
      destruct (rinvS_obj s ob I (fun p f i b => Hobj_names ob p f i b Hob)) as [I' E'].
      destruct (IH _ (fun x Hx => Hin x (or_intror Hx)) I') as [I'' E'']. split; [exact I'' | congruence].
    Qed.

    Hypothesis Hbm : c_blockmax c = bm.

    Lemma fix_run_rinvS :
      let out := check_run hashf padz truncf bs nlev reduced newino now o c par fs0 objs (seq 0 bm) in
      rinvS bm (out_st out) /\ out_fail out = negb (Nat.eqb (r_unrec (out_st out)) 0).
    Proof.
      cbn zeta. rewrite (check_run_unfold hashf padz truncf bs nlev reduced newino now o c par fs0 objs bm Hbm). cbv zeta. fold s0.
      pose proof (rinvS_loop bm (le_n bm)) as I1.
      pose proof (finv_loop hashf padz truncf bs nlev reduced newino now o c bm fs0 par Hplain Hfix Hsyn Hgeom Hlen Hparlen bm (le_n bm)) as J1.
      fold s0 in J1.
      set (s1 := fold_left (fun s pos => if block_enabled nlev o c pos then stripe_step o c fs0 s pos else s) (seq 0 bm) s0) in *.
      destruct (rinvS_objs objs s1 (fun x H => H) I1) as [I2 E2].
      set (s2 := fold_left (obj_step newino now o c) objs s1) in *.
      assert (Ec : cleanup o s2 = s2).
      { apply cleanup_noop. intros k f Hin. rewrite E2 in Hin. destruct J1 as [Hnd Hcr].
        pose proof (get_fl_in (r_flags s1) k f Hnd Hin) as Eg.
        destruct (fl_created f) eqn:Ecr; [|reflexivity]. cbn [andb].
        destruct (Hcr k ltac:(rewrite Eg; exact Ecr)) as [Hf|[p [j [f' [i [b [Hp [Hs _]]]]]]]].
        - rewrite Eg in Hf. rewrite Hf. reflexivity.
        - pose proof (g_bm bs c bm Hgeom p j f' i b Hs). lia. }
      rewrite Ec. cbn [out_st out_fail]. rewrite Hfix. split; [exact I2 | reflexivity].
    Qed.

    (* C05 for the whole run of a fully synced array, any damage *)
    Theorem fix_run_sound :
      let out := check_run hashf padz truncf bs nlev reduced newino now o c par fs0 objs (seq 0 bm) in
      (* every recorded file: exactly the recorded version, or flagged unrecoverable, renamed away, counted, failing exit status *)
      (forall p j f i b, slot_of c p j = SFile f i b ->
         (dam (out_st out) j f = false /\
          exists g, fs_find (r_fs (out_st out)) j (cf_name f) = Some g /\ ff_size g = cf_size f
                    /\ forall p' i' b', slot_of c p' j = SFile f i' b' -> nth i' (ff_blocks g) 0%N = vnth (vs p') j)
         \/ (dam (out_st out) j f = true /\ fs_find (r_fs (out_st out)) j (cf_name f) = None
             /\ 0 < r_unrec (out_st out) /\ out_fail out = true))
      (* the exit status *)
      /\ (out_fail out = false <-> r_unrec (out_st out) = 0)
      /\ (r_unrec (out_st out) = 0 ->
            restored nlev c bm vs (r_fs (out_st out)) (r_par (out_st out))
            /\ forall key, fl_damaged (get_fl (r_flags (out_st out)) key) = false)
      (* a file that was intact in the damaged array is not touched, whatever happens to the other files of its stripes *)
      /\ (forall p j f i b, slot_of c p j = SFile f i b -> intact_upto bm j f ->
            fs_find (r_fs (out_st out)) j (cf_name f) = fs_find fs0 j (cf_name f) /\ dam (out_st out) j f = false)
      (* time-stamps of the files left under their name *)
      /\ (forall p j f i b g, slot_of c p j = SFile f i b -> uniq_stamp c j f -> fs_find (r_fs (out_st out)) j (cf_name f) = Some g ->
            dam (out_st out) j f = false ->
            (ff_mtime g = cf_mtime f /\ ff_nsec g = cf_nsec f) \/ fs_find fs0 j (cf_name f) = Some g).
    Proof.
      cbn zeta. destruct fix_run_rinvS as [I Ef]. cbn zeta in I, Ef.
      set (out := check_run hashf padz truncf bs nlev reduced newino now o c par fs0 objs (seq 0 bm)) in *.
      set (s2 := out_st out) in *.
      assert (Hfile : forall p j f i b, slot_of c p j = SFile f i b -> dam s2 j f = false ->
                exists g, fs_find (r_fs s2) j (cf_name f) = Some g /\ ff_size g = cf_size f
                          /\ forall p' i' b', slot_of c p' j = SFile f i' b' -> nth i' (ff_blocks g) 0%N = vnth (vs p') j).
      { intros p j f i b Hs Hd.
        destruct (g_last bs c bm Hgeom p j f i b Hs) as [pl [il [bl [Hsl [_ Hend]]]]].
        destruct (rs_good bm s2 I pl j f il bl Hsl (g_bm bs c bm Hgeom pl j f il bl Hsl) Hd) as [_ [Hz1 Hz2]].
        destruct (g_wf bs c bm Hgeom pl j f il bl Hsl) as [Hl _].
        unfold fsz in Hz1, Hz2. destruct (fs_find (r_fs s2) j (cf_name f)) as [g|] eqn:Eg; [|lia].
        exists g. split; [reflexivity|]. split; [lia|].
        intros p' i' b' Hs'. destruct (rs_good bm s2 I p' j f i' b' Hs' (g_bm bs c bm Hgeom p' j f i' b' Hs') Hd) as [Hb _].
        unfold fblk in Hb. rewrite Eg in Hb. exact Hb. }
      split.
      { intros p j f i b Hs. destruct (dam s2 j f) eqn:Hd.
        - right. split; [reflexivity|].
          destruct (g_last bs c bm Hgeom p j f i b Hs) as [pl [il [bl [Hsl [Hll _]]]]].
          split; [apply (rs_gone bm s2 I pl j f il bl Hsl (g_bm bs c bm Hgeom pl j f il bl Hsl) Hll Hd)|].
          assert (Hu : r_unrec s2 <> 0).
          { intro X. destruct (rs_clean bm s2 I X) as [C1 _]. rewrite C1 in Hd. discriminate Hd. }
          split; [lia|]. rewrite Ef. apply Nat.eqb_neq in Hu. rewrite Hu. reflexivity.
        - left. split; [reflexivity|]. apply (Hfile p j f i b Hs Hd). }
      split.
      { rewrite Ef. destruct (Nat.eqb (r_unrec s2) 0) eqn:E; cbn [negb].
        - apply Nat.eqb_eq in E. tauto.
        - apply Nat.eqb_neq in E. split; [discriminate | contradiction]. }
      split.
      { intro Hu. destruct (rs_clean bm s2 I Hu) as [C1 C2]. split; [|exact C1].
        split; [apply (rs_len bm s2 I)|]. split; [|exact C2].
        intros p j f i b Hs. destruct (Hfile p j f i b Hs (C1 _)) as [g [Hg [Hz Hb]]]. exists g. split; [exact Hg|]. split; [exact Hz | apply (Hb p i b Hs)]. }
      split.
      { intros p j f i b Hs Hint. destruct (rs_frame bm s2 I p j f i b Hs Hint) as [R1 [_ R3]]. auto. }
      intros p j f i b g Hs Hu Hg Hd.
      destruct (fxd s2 j f) eqn:Efx.
      - left. destruct (g_last bs c bm Hgeom p j f i b Hs) as [pl [il [bl [Hsl [Hll _]]]]].
        destruct (rs_stamp bm s2 I pl j f il bl Hsl Hu Hll (g_bm bs c bm Hgeom pl j f il bl Hsl) Efx Hd) as [g' [Hg' [H1 H2]]].
        rewrite Hg in Hg'. injection Hg' as Hg'. subst g'. auto.
      - right. rewrite <- (rs_nofix bm s2 I p j f i b Hs Efx Hd). exact Hg.
    Qed.

    (* every file flagged DAMAGED was reported: status:unrecoverable:<disk>:<file> is in the log *)
    Theorem fix_run_reported :
      let out := check_run hashf padz truncf bs nlev reduced newino now o c par fs0 objs (seq 0 bm) in
      forall p j f i b, slot_of c p j = SFile f i b -> dam (out_st out) j f = true ->
                        In (K_ST_UNREC, [N.of_nat j; cf_name f]) (r_tags (out_st out)).
    Proof.
      cbn zeta. rewrite (check_run_unfold hashf padz truncf bs nlev reduced newino now o c par fs0 objs bm Hbm). cbv zeta. fold s0.
      pose proof (rinvS_loop bm (le_n bm)) as I1. pose proof (tinv_loop bm (le_n bm)) as T1.
      pose proof (finv_loop hashf padz truncf bs nlev reduced newino now o c bm fs0 par Hplain Hfix Hsyn Hgeom Hlen Hparlen bm (le_n bm)) as J1.
      fold s0 in J1.
      set (s1 := fold_left (fun s pos => if block_enabled nlev o c pos then stripe_step o c fs0 s pos else s) (seq 0 bm) s0) in *.
      destruct (rinvS_objs objs s1 (fun x H => H) I1) as [I2 E2].
      assert (M2 : Rt s1 (fold_left (obj_step newino now o c) objs s1)).
      { apply fold_obj_Rt. }
      set (s2 := fold_left (obj_step newino now o c) objs s1) in *.
      assert (Ec : cleanup o s2 = s2).
      { apply cleanup_noop. intros k f Hin. rewrite E2 in Hin. destruct J1 as [Hnd Hcr].
        pose proof (get_fl_in (r_flags s1) k f Hnd Hin) as Eg.
        destruct (fl_created f) eqn:Ecr; [|reflexivity]. cbn [andb].
        destruct (Hcr k ltac:(rewrite Eg; exact Ecr)) as [Hf|[p [j [f' [i [b [Hp [Hs _]]]]]]]].
        - rewrite Eg in Hf. rewrite Hf. reflexivity.
        - pose proof (g_bm bs c bm Hgeom p j f' i b Hs). lia. }
      rewrite Ec. cbn [out_st].
      intros p j f i b Hs Hd. rewrite E2 in Hd. apply M2.
      destruct (g_last bs c bm Hgeom p j f i b Hs) as [pl [il [bl [Hsl [Hll _]]]]].
      apply (T1 pl j f il bl Hsl (g_bm bs c bm Hgeom pl j f il bl Hsl) Hll Hd).
    Qed.
  End RunS.
End Sound.

(* ---------------------------------------------------------------------------------------------------------- *)
(* the statement, with the side conditions gathered in records                                                  *)
(* ---------------------------------------------------------------------------------------------------------- *)

(* `recoverable` of RunProofs.v WITHOUT its counting clause (at most as many damaged data blocks as intact parity levels): only
   collision freedom of the hash on the blocks involved, stripe by stripe *)
Record collision_free (hashf : bid -> N -> hval) (padz : bid -> N -> bool) (bs : N) (nlev : nat) (nosearch : bool)
       (c : content) (bm : nat) (fs : list (option fsdisk)) (par : parity) (vs : nat -> list bid) : Prop := {
  cfr_data : forall p j f i b y, slot_of c p j = SFile f i b -> read_block bs (st0 fs par) j f i = Some y ->
                                 hash_ok hashf bs f i b y = true -> y = vnth (vs p) j;
  cfr_junk : forall p, p < bm -> cf_junk hashf padz bs (flat_map (fent_of hashf bs c p (st0 fs par)) (seq 0 (length (c_disks c))));
  cfr_rec : forall p, p < bm -> cf_rec hashf padz bs (flat_map (fent_of hashf bs c p (st0 fs par)) (seq 0 (length (c_disks c))))
                                       (map (prow par p) (seq 0 nlev)) (vs p);
  cfr_vec : forall p, p < bm -> cf_vec hashf padz bs (flat_map (fent_of hashf bs c p (st0 fs par)) (seq 0 (length (c_disks c)))) (vs p);
  cfr_search : forall p, p < bm -> forall fsx, cf_search hashf bs nosearch fsx (flat_map (fent_of hashf bs c p (st0 fs par)) (seq 0 (length (c_disks c)))) (vs p)
}.
Lemma recoverable_collision_free hashf padz bs nlev nosearch c bm fs par vs :
  recoverable hashf padz bs nlev nosearch c bm fs par vs -> collision_free hashf padz bs nlev nosearch c bm fs par vs.
Proof. intros [R1 R2 R3 Rv R4 _]. constructor; assumption. Qed.

(* the file f of disk j is intact in the damaged array (fs, par): not larger than recorded, every mapped block reads and hashes
   to its recorded hash *)
Definition intact (hashf : bid -> N -> hval) (bs : N) (c : content) (fs : list (option fsdisk)) (par : parity) (j : nat) (f : cfile) : Prop :=
  (fsz fs j (cf_name f) <= cf_size f)%N
  /\ forall p i b, slot_of c p j = SFile f i b -> is_bad hashf bs c p (st0 fs par) j = false.

Section StatementsS.
  Variable hashf : bid -> N -> hval.
  Variable padz : bid -> N -> bool.
  Variable truncf : bid -> N -> bid.
  Variable bs : N.
  Variable nlev : nat.
  Variable reduced : bool.
  Variable newino : nat -> N -> N.
  Variable now : Z.
  Notation check_run := (check_run hashf padz truncf bs nlev reduced newino now).

  Theorem run_fix_sound o c bm fs par vs objs :
    plain nlev o -> co_fix o = true -> synced_array hashf padz bs c bm vs ->
    length fs = length (c_disks c) -> nlev <= length par ->
    collision_free hashf padz bs nlev (co_nosearch o) c bm fs par vs -> objs_ok c objs ->
    let out := check_run o c par fs objs (seq 0 bm) in
    (forall p j f i b, slot_of c p j = SFile f i b ->
       (fl_damaged (get_fl (r_flags (out_st out)) (j, cf_name f)) = false /\
        exists g, fs_find (r_fs (out_st out)) j (cf_name f) = Some g /\ ff_size g = cf_size f
                  /\ forall p' i' b', slot_of c p' j = SFile f i' b' -> nth i' (ff_blocks g) 0%N = vnth (vs p') j)
       \/ (fl_damaged (get_fl (r_flags (out_st out)) (j, cf_name f)) = true /\ fs_find (r_fs (out_st out)) j (cf_name f) = None
           /\ 0 < r_unrec (out_st out) /\ out_fail out = true))
    /\ (out_fail out = false <-> r_unrec (out_st out) = 0)
    /\ (r_unrec (out_st out) = 0 ->
          restored nlev c bm vs (r_fs (out_st out)) (r_par (out_st out))
          /\ forall key, fl_damaged (get_fl (r_flags (out_st out)) key) = false)
    /\ (forall p j f i b, slot_of c p j = SFile f i b -> intact hashf bs c fs par j f ->
          fs_find (r_fs (out_st out)) j (cf_name f) = fs_find fs j (cf_name f)
          /\ fl_damaged (get_fl (r_flags (out_st out)) (j, cf_name f)) = false)
    /\ (forall p j f i b g, slot_of c p j = SFile f i b -> uniq_stamp c j f -> fs_find (r_fs (out_st out)) j (cf_name f) = Some g ->
          fl_damaged (get_fl (r_flags (out_st out)) (j, cf_name f)) = false ->
          (ff_mtime g = cf_mtime f /\ ff_nsec g = cf_nsec f) \/ fs_find fs j (cf_name f) = Some g).
  Proof.
    intros Hp Hf [S1 S2 S3 S4 S5] Hl Hpl [R1 R2 R3 Rv R4] [O1 _]. cbn zeta.
    destruct (fix_run_sound hashf padz truncf bs nlev reduced newino now o c bm fs par vs Hp Hf S2 S3 Hl Hpl S4 S5 R1 R2 R3 Rv R4 objs O1 S1)
      as [A [B [C [D E]]]].
    split; [exact A|]. split; [exact B|]. split; [exact C|]. split; [|exact E].
    intros p j f i b Hs [Hi1 Hi2]. apply (D p j f i b Hs). split; [exact Hi1|]. intros p' i' b' _ Hs'. apply (Hi2 p' i' b' Hs').
  Qed.

  Theorem run_fix_reported o c bm fs par vs objs :
    plain nlev o -> co_fix o = true -> synced_array hashf padz bs c bm vs ->
    length fs = length (c_disks c) -> nlev <= length par ->
    collision_free hashf padz bs nlev (co_nosearch o) c bm fs par vs -> objs_ok c objs ->
    let out := check_run o c par fs objs (seq 0 bm) in
    forall p j f i b, slot_of c p j = SFile f i b -> fl_damaged (get_fl (r_flags (out_st out)) (j, cf_name f)) = true ->
                      In (K_ST_UNREC, [N.of_nat j; cf_name f]) (r_tags (out_st out)).
  Proof.
    intros Hp Hf [S1 S2 S3 S4 S5] Hl Hpl [R1 R2 R3 Rv R4] [O1 _].
    exact (fix_run_reported hashf padz truncf bs nlev reduced newino now o c bm fs par vs Hp Hf S2 S3 Hl Hpl S4 S5 R1 R2 R3 Rv R4 objs O1 S1).
  Qed.

  (* nothing unrecoverable: a following check of the whole array is silent *)
  Theorem run_fix_sound_then_check_quiet o o' c bm fs par vs objs objs' :
    plain nlev o -> co_fix o = true -> synced_array hashf padz bs c bm vs ->
    length fs = length (c_disks c) -> nlev <= length par ->
    collision_free hashf padz bs nlev (co_nosearch o) c bm fs par vs -> objs_ok c objs ->
    plain nlev o' -> co_fix o' = false ->
    let out := check_run o c par fs objs (seq 0 bm) in
    out_fail out = false ->
    (forall ob, In ob objs' -> obj_good (r_fs (out_st out)) ob) ->
    let out' := check_run o' c (r_par (out_st out)) (r_fs (out_st out)) objs' (seq 0 bm) in
    r_tags (out_st out') = [] /\ r_err (out_st out') = 0 /\ r_unrec (out_st out') = 0 /\ out_fail out' = false
    /\ r_fs (out_st out') = r_fs (out_st out) /\ r_par (out_st out') = r_par (out_st out).
  Proof.
    intros Hp Hf Hs Hl Hpl Hr Ho Hp' Hc'. cbn zeta. intros Hok Hg.
    destruct (run_fix_sound o c bm fs par vs objs Hp Hf Hs Hl Hpl Hr Ho) as [_ [B [C _]]]. cbn zeta in B, C.
    destruct (C (proj1 B Hok)) as [Hres _].
    exact (run_check_quiet hashf padz truncf bs nlev reduced newino now o' c bm _ _ vs objs' Hp' Hc' Hs Hres Hg).
  Qed.
End StatementsS.
