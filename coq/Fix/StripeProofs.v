(* Proofs about the stripe step of FixModel.v: the loop over the disks (data_phase), the parity comparison, the write-back
   of recovered blocks and parity, for stripes whose blocks are all BLK. *)
From Coq Require Import NArith ZArith List Bool Arith Lia.
From Snap.Array Require Import ArrayDefs SyncProofsDefs.
From Snap.Fix Require Import FixModel RepairProofs.
Import ListNotations.
Local Opaque JBASE.

(* ---------------------------------------------------------------------------------------------------------- *)
(* flags, file system                                                                                           *)
(* ---------------------------------------------------------------------------------------------------------- *)
Lemma fkey_eqb_eq a b : fkey_eqb a b = true <-> a = b.
Proof.
  destruct a as [a1 a2], b as [b1 b2]. unfold fkey_eqb. simpl. rewrite andb_true_iff, Nat.eqb_eq, N.eqb_eq.
  split; [intros [H1 H2]; congruence | intro H; injection H; auto].
Qed.
Lemma fkey_eqb_refl a : fkey_eqb a a = true.
Proof. apply fkey_eqb_eq. reflexivity. Qed.
Lemma fkey_eqb_neq a b : a <> b -> fkey_eqb a b = false.
Proof. intro H. destruct (fkey_eqb a b) eqn:E; [apply fkey_eqb_eq in E; contradiction | reflexivity]. Qed.

Lemma get_set_same fl k v : get_fl (set_fl fl k v) k = v.
Proof. unfold get_fl, set_fl. simpl. rewrite fkey_eqb_refl. reflexivity. Qed.
Lemma find_filter_neq (fl : flags) k k' :
  k' <> k -> find (fun x => fkey_eqb (fst x) k') (filter (fun x => negb (fkey_eqb (fst x) k)) fl) = find (fun x => fkey_eqb (fst x) k') fl.
Proof.
  intro H. induction fl as [|[a v] t IH]; simpl; [reflexivity|].
  destruct (fkey_eqb a k) eqn:E1; simpl.
  - apply fkey_eqb_eq in E1. subst a. rewrite (fkey_eqb_neq k k') by congruence. exact IH.
  - destruct (fkey_eqb a k'); [reflexivity | exact IH].
Qed.
Lemma get_set_other fl k k' v : k' <> k -> get_fl (set_fl fl k v) k' = get_fl fl k'.
Proof.
  intro H. unfold get_fl, set_fl. simpl. rewrite (fkey_eqb_neq k k') by congruence.
  rewrite find_filter_neq by exact H. reflexivity.
Qed.

Lemma mapi_nth_opt {A B} (f : nat -> A -> B) l i (da : A) (db : B) :
  nth i (mapi f l) db = if (i <? length l) then f i (nth i l da) else db.
Proof.
  destruct (i <? length l) eqn:E.
  - apply Nat.ltb_lt in E. apply mapi_nth. exact E.
  - apply Nat.ltb_ge in E. apply nth_overflow. rewrite mapi_length. exact E.
Qed.

Lemma find_fs_filter_neq name name' (d : fsdisk) :
  name' <> name -> find_fs name' (filter (fun x => negb (N.eqb (ff_name x) name)) d) = find_fs name' d.
Proof.
  intro H. unfold find_fs. induction d as [|g t IH]; simpl; [reflexivity|].
  destruct (N.eqb (ff_name g) name) eqn:E1; simpl.
  - apply N.eqb_eq in E1. rewrite E1. destruct (N.eqb name name') eqn:E2; [apply N.eqb_eq in E2; congruence | exact IH].
  - destruct (N.eqb (ff_name g) name'); [reflexivity | exact IH].
Qed.

Lemma fs_find_put_same fs j g : j < length fs -> fs_find (fs_put fs j g) j (ff_name g) = Some g.
Proof.
  intro H. unfold fs_find, fs_put. rewrite (mapi_nth_opt _ fs j None None).
  apply Nat.ltb_lt in H. rewrite H, Nat.eqb_refl. unfold find_fs. simpl. rewrite N.eqb_refl. reflexivity.
Qed.
Lemma fs_find_put_other fs j g j' n' : (j', n') <> (j, ff_name g) -> fs_find (fs_put fs j g) j' n' = fs_find fs j' n'.
Proof.
  intro H. unfold fs_find, fs_put. rewrite (mapi_nth_opt _ fs j' None None).
  destruct (j' <? length fs) eqn:E.
  - destruct (Nat.eqb j' j) eqn:Ej; [|reflexivity].
    apply Nat.eqb_eq in Ej. subst j'.
    assert (Hn : n' <> ff_name g) by congruence.
    destruct (nth j fs None) as [d|]; simpl.
    + unfold find_fs at 1. simpl. destruct (N.eqb (ff_name g) n') eqn:E2; [apply N.eqb_eq in E2; congruence|].
      apply find_fs_filter_neq. exact Hn.
    + unfold find_fs. simpl. destruct (N.eqb (ff_name g) n') eqn:E2; [apply N.eqb_eq in E2; congruence | reflexivity].
  - apply Nat.ltb_ge in E. rewrite (nth_overflow fs None E). reflexivity.
Qed.
Lemma nth_map_seq {A} (f : nat -> A) n l d : l < n -> nth l (map f (seq 0 n)) d = f l.
Proof.
  intro H. rewrite (nth_indep _ d (f 0)) by (rewrite map_length, seq_length; exact H).
  rewrite map_nth, seq_nth by exact H. reflexivity.
Qed.
Lemma fs_find_name fs j n g : fs_find fs j n = Some g -> ff_name g = n.
Proof.
  unfold fs_find. destruct (nth j fs None) as [d|]; [|discriminate]. unfold find_fs. intro H.
  apply find_some in H. destruct H as [_ H]. apply N.eqb_eq in H. exact H.
Qed.
Lemma fs_put_length fs j g : length (fs_put fs j g) = length fs.
Proof. apply mapi_length. Qed.

(* ---------------------------------------------------------------------------------------------------------- *)
(* the comparison of the parity read with the computed one                                                      *)
(* ---------------------------------------------------------------------------------------------------------- *)
Section Phases.
  Variable hashf : bid -> N -> hval.
  Variable padz : bid -> N -> bool.
  Variable truncf : bid -> N -> bid.
  Variable bs : N.
  Variable nlev : nat.
  Variable reduced : bool.
  Variable newino : nat -> N -> N.
  Variable now : Z.

  Definition wrong_level (rec : list penc) (buf : list bid) (l : nat) : bool :=
    negb (is_pnone (nth l rec PNone)) && negb (par_matches buf (nth l rec PNone)).

  Lemma compare_fold pos rec buf : forall ls r st,
    fold_left (fun (acc : list penc * rstate) l =>
                 let '(r, st) := acc in
                 let p := nth l rec PNone in
                 if negb (is_pnone p) && negb (par_matches buf p)
                 then (r ++ [PNone], rs_err (rs_tag st [tg K_PAR_DATA [pos; l] []]) 1)
                 else (r ++ [p], st)) ls (r, st)
    = (r ++ map (fun l => if wrong_level rec buf l then PNone else nth l rec PNone) ls,
       mkRS (r_fs st) (r_flags st) (r_par st) (r_err st + length (filter (wrong_level rec buf) ls)) (r_rec st) (r_unrec st)
            (r_tags st ++ map (fun l => tg K_PAR_DATA [pos; l] []) (filter (wrong_level rec buf) ls)) (r_jn st)).
  Proof.
    induction ls as [|l t IH]; intros r st.
    - simpl. rewrite !app_nil_r, Nat.add_0_r. destruct st; reflexivity.
    - cbn [fold_left].
      change (negb (is_pnone (nth l rec PNone)) && negb (par_matches buf (nth l rec PNone))) with (wrong_level rec buf l).
      cbn [filter map]. destruct (wrong_level rec buf l) eqn:E; rewrite IH; cbn; rewrite <- !app_assoc; cbn.
      + f_equal. f_equal. lia.
      + reflexivity.
  Qed.

  (* the exact result of compare_phase: the list of parity blocks still usable, one tag and one error per wrong level *)
  Lemma compare_phase_spec pos rec buf s :
    compare_phase nlev pos rec buf s
    = (map (fun l => if wrong_level rec buf l then PNone else nth l rec PNone) (seq 0 nlev),
       mkRS (r_fs s) (r_flags s) (r_par s) (r_err s + length (filter (wrong_level rec buf) (seq 0 nlev))) (r_rec s) (r_unrec s)
            (r_tags s ++ map (fun l => tg K_PAR_DATA [pos; l] []) (filter (wrong_level rec buf) (seq 0 nlev))) (r_jn s)).
  Proof. unfold compare_phase. rewrite compare_fold. reflexivity. Qed.

  (* ---- reading the parity --------------------------------------------------------------------------------- *)
  Definition prow (par : parity) (pos l : nat) : penc := nth pos (nth l par []) PNone.

  Lemma parity_fold o pos par : forall ls r st,
    (forall l, In l ls -> nth l (co_popen o) false = true) -> r_par st = par ->
    fold_left (fun (acc : list penc * rstate) l =>
                 let '(r, st) := acc in
                 if nth l (co_popen o) false then
                   match nth pos (nth l (r_par st) []) PNone with
                   | PNone => (r ++ [PNone], rs_err (rs_tag st [tg K_PAR_READ [pos; l] []]) 1)
                   | p => (r ++ [p], st)
                   end
                 else (r ++ [PNone], st)) ls (r, st)
    = (r ++ map (prow par pos) ls,
       mkRS (r_fs st) (r_flags st) (r_par st) (r_err st + length (filter (fun l => is_pnone (prow par pos l)) ls)) (r_rec st) (r_unrec st)
            (r_tags st ++ map (fun l => tg K_PAR_READ [pos; l] []) (filter (fun l => is_pnone (prow par pos l)) ls)) (r_jn st)).
  Proof.
    induction ls as [|l t IH]; intros r st Hop Hpar; subst par.
    - simpl. rewrite !app_nil_r, Nat.add_0_r. destruct st; reflexivity.
    - cbn [fold_left]. rewrite (Hop l (or_introl eq_refl)). fold (prow (r_par st) pos l).
      cbn [filter map]. destruct (prow (r_par st) pos l) eqn:E; cbn [is_pnone];
        (rewrite IH; [| intros l' Hl'; apply Hop; right; exact Hl' | reflexivity]); cbn; rewrite <- !app_assoc; cbn; try reflexivity.
      f_equal. f_equal. lia.
  Qed.

  Lemma parity_phase_spec o pos s :
    (forall l, l < nlev -> nth l (co_popen o) false = true) ->
    parity_phase nlev o pos s
    = (map (prow (r_par s) pos) (seq 0 nlev),
       mkRS (r_fs s) (r_flags s) (r_par s) (r_err s + length (filter (fun l => is_pnone (prow (r_par s) pos l)) (seq 0 nlev))) (r_rec s) (r_unrec s)
            (r_tags s ++ map (fun l => tg K_PAR_READ [pos; l] []) (filter (fun l => is_pnone (prow (r_par s) pos l)) (seq 0 nlev))) (r_jn s)).
  Proof.
    intro H. unfold parity_phase. rewrite (parity_fold o pos (r_par s)); [reflexivity | | reflexivity].
    intros l Hl. apply H. apply in_seq in Hl. lia.
  Qed.

  (* ---- rewriting the parity --------------------------------------------------------------------------------- *)
  Definition pw_cond (o : copts) (rec2 : list penc) (l : nat) : bool :=
    is_pnone (nth l rec2 PNone) && nth l (co_popen o) false && negb (nth l (co_pexcl o) false).

  Lemma prow_mapi_set par pos buf l l' :
    prow (mapi (fun k lv => if Nat.eqb k l then set_ext PNone pos (PEnc buf) lv else lv) par) pos l'
    = if Nat.eqb l' l && (l' <? length par) then PEnc buf else prow par pos l'.
  Proof.
    unfold prow. rewrite (mapi_nth_opt _ par l' [] []).
    destruct (l' <? length par) eqn:E.
    - destruct (Nat.eqb l' l); simpl; [apply nth_set_ext_same | reflexivity].
    - rewrite andb_false_r. apply Nat.ltb_ge in E. rewrite (nth_overflow par [] E). reflexivity.
  Qed.
  Lemma prow_mapi_set_other par pos buf l l' p : p <> pos ->
    nth p (nth l' (mapi (fun k lv => if Nat.eqb k l then set_ext PNone pos (PEnc buf) lv else lv) par) []) PNone = nth p (nth l' par []) PNone.
  Proof.
    intro Hp. rewrite (mapi_nth_opt _ par l' [] []).
    destruct (l' <? length par) eqn:E; [|apply Nat.ltb_ge in E; rewrite (nth_overflow par [] E); reflexivity].
    destruct (Nat.eqb l' l); [apply nth_set_ext_other; exact Hp | reflexivity].
  Qed.

  Lemma parity_write_fold o pos rec2 buf : forall ls s,
    NoDup ls ->
    let s' := fold_left (fun s l =>
                 if is_pnone (nth l rec2 PNone) && nth l (co_popen o) false && negb (nth l (co_pexcl o) false)
                 then rs_recov (rs_tag (rs_setpar s (mapi (fun k lv => if Nat.eqb k l then set_ext PNone pos (PEnc buf) lv else lv) (r_par s)))
                                       [tg K_PAR_FIXED [pos; l] []]) 1
                 else s) ls s in
    r_fs s' = r_fs s /\ r_flags s' = r_flags s /\ r_unrec s' = r_unrec s /\ r_err s' = r_err s /\ r_jn s' = r_jn s
    /\ length (r_par s') = length (r_par s)
    /\ (forall l', prow (r_par s') pos l' = if memn l' ls && pw_cond o rec2 l' && (l' <? length (r_par s)) then PEnc buf else prow (r_par s) pos l')
    /\ (forall l' p, p <> pos -> nth p (nth l' (r_par s') []) PNone = nth p (nth l' (r_par s) []) PNone).
  Proof.
    induction ls as [|l t IH]; intros s Hnd; cbn [fold_left].
    - repeat split; auto.
    - apply NoDup_cons_iff in Hnd. destruct Hnd as [Hnin Hnd].
      fold (pw_cond o rec2 l). destruct (pw_cond o rec2 l) eqn:Ec.
      + specialize (IH (rs_recov (rs_tag (rs_setpar s (mapi (fun k lv => if Nat.eqb k l then set_ext PNone pos (PEnc buf) lv else lv) (r_par s)))
                                       [tg K_PAR_FIXED [pos; l] []]) 1) Hnd).
        cbn zeta in IH. destruct IH as [A [B [C [D [E [F [G H]]]]]]]. cbn in A, B, C, D, E, F.
        repeat split; auto.
        * rewrite F. cbn. apply mapi_length.
        * intro l'. rewrite G. cbn [r_par rs_recov rs_tag rs_setpar]. rewrite mapi_length. rewrite prow_mapi_set.
          cbn [memn existsb]. destruct (Nat.eqb l' l) eqn:El.
          -- apply Nat.eqb_eq in El. subst l'. rewrite Ec.
             assert (Em : memn l t = false) by (apply memn_false; exact Hnin). rewrite Em. simpl.
             destruct (l <? length (r_par s)); reflexivity.
          -- simpl. unfold memn. reflexivity.
        * intros l' p Hp. rewrite H by exact Hp. cbn [r_par rs_recov rs_tag rs_setpar]. apply prow_mapi_set_other. exact Hp.
      + specialize (IH s Hnd). cbn zeta in IH. destruct IH as [A [B [C [D [E [F [G H]]]]]]].
        repeat split; auto.
        intro l'. rewrite G. cbn [memn existsb]. destruct (Nat.eqb l' l) eqn:El.
        * apply Nat.eqb_eq in El. subst l'. rewrite Ec.
          assert (Em : memn l t = false) by (apply memn_false; exact Hnin). rewrite Em. reflexivity.
        * simpl. unfold memn. reflexivity.
  Qed.

  (* ---- options without filters ------------------------------------------------------------------------------ *)
  Record plain (o : copts) : Prop := {
    pl_audit : co_audit o = false;
    pl_badfile : co_badfile o = false;
    pl_synced : co_syncedonly o = false;
    pl_excl : co_excl o = [];
    pl_popen : forall l, l < nlev -> nth l (co_popen o) false = true;
    pl_pexcl : forall l, nth l (co_pexcl o) false = false
  }.
  Lemma plain_not_excl o j name : plain o -> is_excl o j name = false.
  Proof. intro H. unfold is_excl. rewrite (pl_excl o H). reflexivity. Qed.

  (* ---- opening a file ----------------------------------------------------------------------------------------- *)
  (* what open_step never touches *)
  Definition same_core (s s' : rstate) : Prop :=
    r_par s' = r_par s /\ r_unrec s' = r_unrec s /\ r_rec s' = r_rec s /\ r_jn s' = r_jn s /\ r_err s' = r_err s /\ r_tags s' = r_tags s
    /\ length (r_fs s') = length (r_fs s)
    /\ (forall k, fl_damaged (get_fl (r_flags s') k) = fl_damaged (get_fl (r_flags s) k)
                  /\ fl_fixed (get_fl (r_flags s') k) = fl_fixed (get_fl (r_flags s) k)
                  /\ fl_finished (get_fl (r_flags s') k) = fl_finished (get_fl (r_flags s) k)).

  Lemma rs_flag_keeps s k (g : fflags -> fflags) :
    (forall f, fl_damaged (g f) = fl_damaged f /\ fl_fixed (g f) = fl_fixed f /\ fl_finished (g f) = fl_finished f) ->
    forall k', fl_damaged (get_fl (r_flags (rs_flag s k g)) k') = fl_damaged (get_fl (r_flags s) k')
               /\ fl_fixed (get_fl (r_flags (rs_flag s k g)) k') = fl_fixed (get_fl (r_flags s) k')
               /\ fl_finished (get_fl (r_flags (rs_flag s k g)) k') = fl_finished (get_fl (r_flags s) k').
  Proof.
    intros Hg k'. unfold rs_flag, rs_setfl. cbn [r_flags].
    destruct (fkey_eqb k k') eqn:E.
    - apply fkey_eqb_eq in E. subst k'. rewrite get_set_same. apply Hg.
    - rewrite get_set_other; [auto|]. intro H. subst k'. rewrite fkey_eqb_refl in E. discriminate.
  Qed.
  Lemma keeps_opened f : fl_damaged (fl_set_opened f) = fl_damaged f /\ fl_fixed (fl_set_opened f) = fl_fixed f /\ fl_finished (fl_set_opened f) = fl_finished f.
  Proof. auto. Qed.
  Lemma keeps_unsynced f : fl_damaged (fl_set_unsynced f) = fl_damaged f /\ fl_fixed (fl_set_unsynced f) = fl_fixed f /\ fl_finished (fl_set_unsynced f) = fl_finished f.
  Proof. auto. Qed.
  Lemma keeps_created f : fl_damaged (fl_set_created f) = fl_damaged f /\ fl_fixed (fl_set_created f) = fl_fixed f /\ fl_finished (fl_set_created f) = fl_finished f.
  Proof. auto. Qed.
  Lemma keeps_missing f : fl_damaged (fl_set_missing f) = fl_damaged f /\ fl_fixed (fl_set_missing f) = fl_fixed f /\ fl_finished (fl_set_missing f) = fl_finished f.
  Proof. auto. Qed.

  (* the file is there and not larger than recorded: opening changes flags only *)
  Lemma open_present o pos j f s g :
    plain o -> fs_find (r_fs s) j (cf_name f) = Some g -> (ff_size g <= cf_size f)%N ->
    (co_fix o = true \/ fl_missing (get_fl (r_flags s) (j, cf_name f)) = false) ->
    exists s4, open_step bs newino now o pos j f s = Some s4 /\ r_fs s4 = r_fs s /\ same_core s s4.
  Proof.
    intros Hp Hf Hsz Hm. unfold open_step. rewrite (plain_not_excl o j _ Hp), Hf, (pl_synced o Hp).
    assert (E0 : negb (co_fix o && negb false) && (fl_missing (get_fl (r_flags s) (j, cf_name f)) || negb true) = false).
    { destruct Hm as [Hm|Hm]; rewrite Hm; simpl; [reflexivity | destruct (co_fix o); reflexivity]. }
    rewrite E0. rewrite Hf.
    assert (El : (cf_size f <? ff_size g)%N = false) by (apply N.ltb_ge; exact Hsz).
    rewrite El. rewrite !andb_false_r.
    eexists. split; [reflexivity|]. split.
    - destruct (negb (fl_opened _) && negb false && _); reflexivity.
    - unfold same_core.
      destruct (negb (fl_opened (get_fl (r_flags s) (j, cf_name f))) && negb false &&
                (negb (ff_size g =? cf_size f)%N || negb (ff_mtime g =? cf_mtime f)%Z || negb (ff_nsec g =? cf_nsec f)%Z));
        cbn; repeat split; auto; intros;
        try (apply (rs_flag_keeps _ _ _ keeps_opened));
        try (destruct (rs_flag_keeps (rs_flag s (j, cf_name f) fl_set_unsynced) (j, cf_name f) _ keeps_opened k) as [A [B C]];
             destruct (rs_flag_keeps s (j, cf_name f) _ keeps_unsynced k) as [A' [B' C']]; cbn in *; congruence).
  Qed.

  (* the file is not there: fix creates it empty, check fails to open it *)
  Lemma open_absent_fix o pos j f s :
    plain o -> co_fix o = true -> fs_find (r_fs s) j (cf_name f) = None -> j < length (r_fs s) ->
    exists s4, open_step bs newino now o pos j f s = Some s4
               /\ r_fs s4 = fs_put (r_fs s) j (mkFF (cf_name f) 0 now 0 (newino j (cf_name f)) []) /\ same_core s s4.
  Proof.
    intros Hp Hfix Hf Hj. unfold open_step. rewrite (plain_not_excl o j _ Hp), Hf, (pl_synced o Hp), Hfix.
    cbn [negb andb orb]. cbn [r_fs rs_flag rs_setfs rs_setfl].
    rewrite fs_find_put_same by exact Hj.
    cbn [ff_size ff_mtime ff_nsec ff_inode ff_blocks].
    assert (El : (cf_size f <? 0)%N = false) by (apply N.ltb_ge; lia).
    rewrite El. rewrite !andb_false_r.
    eexists. split; [reflexivity|]. split.
    - match goal with |- context [if ?c then _ else _] => destruct c end; reflexivity.
    - unfold same_core.
      match goal with |- context [if ?c then _ else _] => destruct c end;
        cbn; repeat split; auto; try (apply fs_put_length); intros;
        repeat match goal with
               | |- context [get_fl (set_fl ?fl ?k ?v) ?k'] =>
                   let E := fresh "E" in destruct (fkey_eqb k k') eqn:E;
                   [apply fkey_eqb_eq in E; subst; rewrite get_set_same
                   | rewrite (get_set_other fl k k' v) by (intro X; subst; rewrite fkey_eqb_refl in E; discriminate)]
               end; cbn; auto.
  Qed.
  Lemma open_absent_check o pos j f s :
    plain o -> co_fix o = false -> fs_find (r_fs s) j (cf_name f) = None ->
    open_step bs newino now o pos j f s = None.
  Proof.
    intros Hp Hfix Hf. unfold open_step. rewrite (plain_not_excl o j _ Hp), Hf, Hfix. cbn. rewrite orb_true_r. reflexivity.
  Qed.

  (* the file is there, LARGER than recorded, and opened for the first time in this run: fix cuts it back to the recorded size,
     reports `Size error` + `Fixed size`, counts one error recovered, and flags the file FIXED (so that file_post reports it
     recovered and restores its time-stamp, file_post_at below); nothing else moves *)
  Lemma open_larger_fix o pos j f s g :
    plain o -> co_fix o = true -> fs_find (r_fs s) j (cf_name f) = Some g -> (cf_size f < ff_size g)%N ->
    fl_opened (get_fl (r_flags s) (j, cf_name f)) = false ->
    exists s4, open_step bs newino now o pos j f s = Some s4
      /\ r_fs s4 = fs_put (r_fs s) j (mkFF (cf_name f) (cf_size f) now 0 (ff_inode g) (firstn (nblocks bs (cf_size f)) (ff_blocks g)))
      /\ r_tags s4 = r_tags s ++ [tg K_ERR_SIZE [pos; j] [cf_name f]; tg K_FIXED_SIZE [pos; j] [cf_name f]]
      /\ r_err s4 = r_err s + 1 /\ r_rec s4 = r_rec s + 1 /\ r_unrec s4 = r_unrec s /\ r_par s4 = r_par s
      /\ fl_fixed (get_fl (r_flags s4) (j, cf_name f)) = true /\ fl_opened (get_fl (r_flags s4) (j, cf_name f)) = true
      /\ fl_damaged (get_fl (r_flags s4) (j, cf_name f)) = fl_damaged (get_fl (r_flags s) (j, cf_name f))
      /\ (forall k', k' <> (j, cf_name f) -> get_fl (r_flags s4) k' = get_fl (r_flags s) k').
  Proof.
    intros Hp Hfix Hf Hsz Hop. unfold open_step. rewrite (plain_not_excl o j _ Hp), Hf, (pl_synced o Hp), Hfix.
    cbn [negb andb orb]. rewrite Hf. rewrite Hop. cbn [negb andb].
    assert (E1 : N.eqb (ff_size g) (cf_size f) = false) by (apply N.eqb_neq; lia).
    assert (E2 : (cf_size f <? ff_size g)%N = true) by (apply N.ltb_lt; exact Hsz).
    rewrite E1. cbn [negb orb]. rewrite E2.
    eexists. split; [reflexivity|].
    cbn [r_fs r_tags r_err r_rec r_unrec r_par r_flags rs_flag rs_setfl rs_recov rs_tag rs_setfs rs_err].
    split; [reflexivity|]. split; [rewrite <- app_assoc; reflexivity|]. split; [reflexivity|]. split; [reflexivity|]. split; [reflexivity|]. split; [reflexivity|].
    rewrite !get_set_same. cbn [fl_fixed fl_opened fl_damaged fl_set_opened fl_set_fixed fl_set_unsynced].
    split; [reflexivity|]. split; [reflexivity|]. split; [reflexivity|].
    intros k' Hk. rewrite !get_set_other by exact Hk. reflexivity.
  Qed.

  Lemma rs_flag_unsynced s k (g : fflags -> fflags) k' :
    (forall x, fl_unsynced (g x) = fl_unsynced x) -> fl_unsynced (get_fl (r_flags (rs_flag s k g)) k') = fl_unsynced (get_fl (r_flags s) k').
  Proof.
    intro Hg. unfold rs_flag, rs_setfl. cbn [r_flags]. destruct (fkey_eqb k k') eqn:E.
    - apply fkey_eqb_eq in E. subst k'. rewrite get_set_same. apply Hg.
    - rewrite get_set_other; [reflexivity|]. intro X. subst k'. rewrite fkey_eqb_refl in E. discriminate.
  Qed.

  (* the size / time-stamp test that flags a file UNSYNCED is made at the FIRST open of the file in the run only (FILE_IS_OPENED):
     once a file is flagged OPENED, opening it again -- after fix itself has written a repaired block into it and so changed its
     time-stamp -- leaves the UNSYNCED flag of every file as it was (check.c state_check_process: `if (!file_flag_has(file,
     FILE_IS_OPENED) && ...)`).  For ANY options (also -e / -b, where UNSYNCED files are skipped). *)
  Lemma open_step_opened_keeps_unsynced o pos j f s s4 :
    fl_opened (get_fl (r_flags s) (j, cf_name f)) = true -> open_step bs newino now o pos j f s = Some s4 ->
    (forall k, fl_unsynced (get_fl (r_flags s4) k) = fl_unsynced (get_fl (r_flags s) k))
    /\ r_tags s4 = r_tags s /\ r_err s4 = r_err s.
  Proof.
    intros Hop H. unfold open_step in H.
    destruct (negb (co_fix o && negb (is_excl o j (cf_name f))) && _) in H; [discriminate|].
    destruct (fs_find (r_fs s) j (cf_name f)) as [g|] eqn:Eg.
    - rewrite Eg in H. rewrite Hop in H. cbn [negb andb] in H. injection H as H. subst s4.
      split; [|split; reflexivity]. intro k. apply (rs_flag_unsynced s (j, cf_name f) fl_set_opened k). reflexivity.
    - match type of H with match ?x with Some _ => _ | None => _ end = _ => destruct x as [g0|] eqn:Eg0; [|discriminate] end.
      assert (Hop' : fl_opened (get_fl (r_flags (rs_flag (rs_setfs s (fs_put (r_fs s) j (mkFF (cf_name f) 0 now 0 (newino j (cf_name f)) []))) (j, cf_name f) fl_set_created)) (j, cf_name f)) = true).
      { unfold rs_flag, rs_setfl, rs_setfs. cbn [r_flags]. rewrite get_set_same. exact Hop. }
      rewrite Hop' in H. cbn [negb andb] in H. injection H as H. subst s4.
      split; [|split; reflexivity]. intro k.
      rewrite (rs_flag_unsynced _ (j, cf_name f) fl_set_opened k) by reflexivity.
      apply (rs_flag_unsynced (rs_setfs s _) (j, cf_name f) fl_set_created k). reflexivity.
  Qed.

  Lemma rs_flag_other s k g k' : k' <> k -> get_fl (r_flags (rs_flag s k g)) k' = get_fl (r_flags s) k'.
  Proof. intro H. unfold rs_flag, rs_setfl. cbn [r_flags]. apply get_set_other. exact H. Qed.

  Lemma open_step_other_flags o pos j f s s4 k' :
    open_step bs newino now o pos j f s = Some s4 -> k' <> (j, cf_name f) -> get_fl (r_flags s4) k' = get_fl (r_flags s) k'.
  Proof.
    intros H Hk. unfold open_step in H.
    destruct (negb (co_fix o && negb (is_excl o j (cf_name f))) && _) in H; [discriminate|].
    match type of H with match ?x with Some _ => _ | None => _ end = _ => destruct x as [g0|]; [|discriminate] end.
    injection H as H. subst s4.
    rewrite rs_flag_other by exact Hk.
    repeat match goal with
           | |- context [if ?c then _ else _] => destruct c
           end; cbn [r_flags rs_recov rs_tag rs_setfs rs_err rs_flag rs_setfl]; 
      repeat (rewrite get_set_other by exact Hk); reflexivity.
  Qed.

  (* ---- one disk of the stripe --------------------------------------------------------------------------------- *)
  Definition core2 (s s' : rstate) : Prop :=
    r_par s' = r_par s /\ r_unrec s' = r_unrec s /\ r_rec s' = r_rec s /\ r_jn s' = r_jn s
    /\ length (r_fs s') = length (r_fs s)
    /\ (forall k, fl_damaged (get_fl (r_flags s') k) = fl_damaged (get_fl (r_flags s) k)
                  /\ fl_fixed (get_fl (r_flags s') k) = fl_fixed (get_fl (r_flags s) k)
                  /\ fl_finished (get_fl (r_flags s') k) = fl_finished (get_fl (r_flags s) k)).
  Lemma same_core_core2 s s' : same_core s s' -> core2 s s'.
  Proof. unfold same_core, core2. tauto. Qed.
  Lemma core2_refl s : core2 s s.
  Proof. unfold core2. repeat split; auto. Qed.
  Lemma core2_trans s1 s2 s3 : core2 s1 s2 -> core2 s2 s3 -> core2 s1 s3.
  Proof.
    unfold core2. intros [A1 [A2 [A3 [A4 [A5 A6]]]]] [B1 [B2 [B3 [B4 [B5 B6]]]]].
    repeat split; try congruence; destruct (A6 k) as [X [Y Z]]; destruct (B6 k) as [X' [Y' Z']]; congruence.
  Qed.
  Lemma core2_err_tag s n t : core2 s (rs_err (rs_tag s t) n).
  Proof. unfold core2. cbn. repeat split; auto. Qed.

  Definition ent (j : nat) (f : cfile) (idx : nat) (b : fblock) (bad : bool) : fent :=
    mkFE bad false j (Some (fb_state b)) (fb_hash b) (Some (f, idx)).

  (* what one step of the loop over the disks does at a BLK block *)
  Record step_out (o : copts) (pos j : nat) (f : cfile) (idx : nat) (b : fblock) (s : rstate) (x : bid) (fe : list fent) (s' : rstate) : Prop := {
    so_core : core2 s s';
    so_other : forall j' n', (j', n') <> (j, cf_name f) -> fs_find (r_fs s') j' n' = fs_find (r_fs s) j' n';
    so_flags : forall k', k' <> (j, cf_name f) -> get_fl (r_flags s') k' = get_fl (r_flags s) k';
    so_read :
      match read_block bs s j f idx with
      | Some y =>
          x = y /\ r_fs s' = r_fs s
          /\ (if hval_eqb (hashf y (block_len bs (cf_size f) idx)) (fb_hash b)
              then fe = [] /\ r_tags s' = r_tags s /\ r_err s' = r_err s
              else fe = [ent j f idx b true] /\ r_tags s' = r_tags s ++ [tg K_ERR_DATA [pos; j] [cf_name f; N.of_nat idx]] /\ r_err s' = r_err s + 1)
      | None =>
          x = 0%N /\ fe = [ent j f idx b true] /\ r_err s' = r_err s + 1
          /\ r_tags s' = r_tags s ++ [tg (if co_fix o || match fs_find (r_fs s) j (cf_name f) with Some _ => true | None => false end then K_ERR_READ else K_ERR_OPEN)
                                           [pos; j] [cf_name f; N.of_nat idx]]
          /\ (co_fix o = false -> r_fs s' = r_fs s)
          /\ (co_fix o = true ->
              match fs_find (r_fs s) j (cf_name f) with
              | Some g => r_fs s' = r_fs s
              | None => r_fs s' = fs_put (r_fs s) j (mkFF (cf_name f) 0 now 0 (newino j (cf_name f)) [])
              end)
      end
  }.

  Lemma read_block_same_fs s s' j f idx : r_fs s' = r_fs s -> read_block bs s' j f idx = read_block bs s j f idx.
  Proof. intro H. unfold read_block. rewrite H. reflexivity. Qed.

  Lemma data_step_blk o c pos a j d f idx b :
    plain o -> nth j (c_disks c) None = Some d -> slot_at d pos = SFile f idx b -> fb_state b = SBlk ->
    j < length (r_fs (da_st a)) ->
    (forall g, fs_find (r_fs (da_st a)) j (cf_name f) = Some g -> (ff_size g <= cf_size f)%N) ->
    (co_fix o = true \/ fl_missing (get_fl (r_flags (da_st a)) (j, cf_name f)) = false \/ fs_find (r_fs (da_st a)) j (cf_name f) = None) ->
    (0 < block_len bs (cf_size f) idx)%N ->
    exists s' x fe,
      data_step hashf bs newino now o c pos a j = mkDA (da_buf a ++ [x]) (da_failed a ++ fe) (da_valid a) true s'
      /\ step_out o pos j f idx b (da_st a) x fe s'.
  Proof.
    intros Hp Hd Hs Hst Hj Hsz Hm Hlen.
    unfold data_step. rewrite Hd, Hs, (pl_audit o Hp). cbn [andb]. rewrite Hst. cbn [bstate_eqb]. rewrite andb_true_r.
    set (s := da_st a).
    destruct (fs_find (r_fs s) j (cf_name f)) as [g|] eqn:Ef.
    - (* present *)
      assert (Hm' : co_fix o = true \/ fl_missing (get_fl (r_flags s) (j, cf_name f)) = false).
      { destruct Hm as [Hm|[Hm|Hm]]; [left; exact Hm | right; exact Hm |]. fold s in Hm. rewrite Ef in Hm. discriminate. }
      destruct (open_present o pos j f s g Hp Ef (Hsz g Ef) Hm') as [s4 [Eo [Efs Hc]]].
      pose proof (open_step_other_flags o pos j f s s4) as Hfl.
      fold s. rewrite Eo. rewrite (read_block_same_fs s s4 j f idx Efs).
      destruct (read_block bs s j f idx) as [y|] eqn:Er.
      + destruct (hval_eqb (hashf y (block_len bs (cf_size f) idx)) (fb_hash b)) eqn:Eh.
        * exists s4, y, []. split; [rewrite app_nil_r; reflexivity|].
          constructor; [apply same_core_core2; exact Hc | intros; rewrite Efs; reflexivity | intros k' Hk; apply Hfl; auto |].
          rewrite Er. rewrite Eh. destruct Hc as [_ [_ [_ [_ [He [Ht _]]]]]]. auto.
        * eexists _, y, [ent j f idx b true]. split; [unfold ent; rewrite Hst; reflexivity|].
          constructor.
          -- eapply core2_trans; [apply same_core_core2; exact Hc | apply core2_err_tag].
          -- intros. cbn. rewrite Efs. reflexivity.
          -- intros k' Hk. cbn. apply Hfl; auto.
          -- rewrite Er, Eh. cbn. destruct Hc as [_ [_ [_ [_ [He [Ht _]]]]]]. rewrite He, Ht. auto.
      + eexists _, 0%N, [ent j f idx b true]. split; [unfold ent; rewrite Hst; reflexivity|].
        constructor.
        -- eapply core2_trans; [apply same_core_core2; exact Hc | apply core2_err_tag].
        -- intros. cbn. rewrite Efs. reflexivity.
        -- intros k' Hk. cbn. apply Hfl; auto.
        -- rewrite Er. cbn. destruct Hc as [_ [_ [_ [_ [He [Ht _]]]]]]. rewrite He, Ht. rewrite Ef, orb_true_r.
           repeat split; auto.
    - (* absent *)
      assert (Er : read_block bs s j f idx = None) by (unfold read_block; rewrite Ef; reflexivity).
      destruct (co_fix o) eqn:Efix.
      + destruct (open_absent_fix o pos j f s Hp Efix Ef Hj) as [s4 [Eo [Efs Hc]]].
        pose proof (open_step_other_flags o pos j f s s4) as Hfl.
        fold s. rewrite Eo.
        assert (Er4 : read_block bs s4 j f idx = None).
        { unfold read_block. rewrite Efs. rewrite fs_find_put_same by exact Hj. cbn [ff_size].
          assert (E : (0 <? N.of_nat idx * bs + block_len bs (cf_size f) idx)%N = true) by (apply N.ltb_lt; lia).
          rewrite E. reflexivity. }
        rewrite Er4.
        eexists _, 0%N, [ent j f idx b true]. split; [unfold ent; rewrite Hst; reflexivity|].
        constructor.
        -- eapply core2_trans; [apply same_core_core2; exact Hc | apply core2_err_tag].
        -- intros j' n' Hne. cbn. rewrite Efs. apply fs_find_put_other. exact Hne.
        -- intros k' Hk. cbn. apply Hfl; auto.
        -- rewrite Er. cbn. destruct Hc as [_ [_ [_ [_ [He [Ht _]]]]]]. rewrite He, Ht. rewrite Efix. cbn [orb].
           repeat split; auto; [intro X; discriminate X | intros _; rewrite Ef; exact Efs].
      + fold s. rewrite (open_absent_check o pos j f s Hp Efix Ef).
        eexists _, 0%N, [ent j f idx b true]. split; [unfold ent; rewrite Hst; reflexivity|].
        constructor.
        -- eapply core2_trans; [|apply core2_err_tag]. unfold core2. cbn. repeat split; auto; apply (rs_flag_keeps _ _ _ keeps_missing).
        -- intros. reflexivity.
        -- intros k' Hk. cbn. apply rs_flag_other. exact Hk.
        -- rewrite Er. cbn. rewrite Efix, Ef. cbn [orb]. repeat split; auto. intro X; discriminate X.
  Qed.

  (* ---- the loop over the disks ---------------------------------------------------------------------------------- *)
  Section DataPhase.
    Variable o : copts.
    Variable c : content.
    Variable pos : nat.
    Variable s : rstate.
    Hypothesis Hplain : plain o.
    Hypothesis Hsync : stripe_synced c pos.
    Hypothesis Hlenfs : length (r_fs s) = length (c_disks c).
    Hypothesis Hfile : forall j f idx b, slot_of c pos j = SFile f idx b ->
         (0 < block_len bs (cf_size f) idx)%N
         /\ (forall g, fs_find (r_fs s) j (cf_name f) = Some g -> (ff_size g <= cf_size f)%N)
         /\ (co_fix o = true \/ fl_missing (get_fl (r_flags s) (j, cf_name f)) = false \/ fs_find (r_fs s) j (cf_name f) = None).

    Definition hash_ok (f : cfile) (idx : nat) (b : fblock) (y : bid) : bool := hval_eqb (hashf y (block_len bs (cf_size f) idx)) (fb_hash b).
    Definition is_bad (j : nat) : bool :=
      match slot_of c pos j with
      | SFile f idx b => match read_block bs s j f idx with Some y => negb (hash_ok f idx b y) | None => true end
      | _ => false end.
    Definition bufval (j : nat) : bid :=
      match slot_of c pos j with
      | SFile f idx b => match read_block bs s j f idx with Some y => y | None => 0%N end
      | _ => 0%N end.
    Definition fent_of (j : nat) : list fent :=
      match slot_of c pos j with SFile f idx b => if is_bad j then [ent j f idx b true] else [] | _ => [] end.
    Definition tag_of (j : nat) : list tag :=
      match slot_of c pos j with
      | SFile f idx b =>
          match read_block bs s j f idx with
          | Some y => if hash_ok f idx b y then [] else [tg K_ERR_DATA [pos; j] [cf_name f; N.of_nat idx]]
          | None => [tg (if co_fix o || match fs_find (r_fs s) j (cf_name f) with Some _ => true | None => false end then K_ERR_READ else K_ERR_OPEN)
                        [pos; j] [cf_name f; N.of_nat idx]]
          end
      | _ => [] end.
    (* the file system after the loop: fix creates the missing files (empty) *)
    Definition fs_after (j' : nat) (n' : N) : option fsfile :=
      match slot_of c pos j' with
      | SFile f idx b =>
          if co_fix o && N.eqb (cf_name f) n'
          then match fs_find (r_fs s) j' n' with Some g => Some g | None => Some (mkFF n' 0 now 0 (newino j' n') []) end
          else fs_find (r_fs s) j' n'
      | _ => fs_find (r_fs s) j' n' end.

    Record dinv (k : nat) (a : dacc) : Prop := {
      di_buf : da_buf a = map bufval (seq 0 k);
      di_failed : da_failed a = flat_map fent_of (seq 0 k);
      di_valid : da_valid a = true;
      di_used : da_used a = existsb (fun j => slot_has_file (slot_of c pos j)) (seq 0 k);
      di_core : core2 s (da_st a);
      di_err : r_err (da_st a) = r_err s + length (da_failed a);
      di_tags : r_tags (da_st a) = r_tags s ++ flat_map tag_of (seq 0 k);
      di_fs : forall j' n', fs_find (r_fs (da_st a)) j' n' = if j' <? k then fs_after j' n' else fs_find (r_fs s) j' n';
      di_flags : forall k', k <= fst k' -> get_fl (r_flags (da_st a)) k' = get_fl (r_flags s) k';
      di_fs_check : co_fix o = false -> r_fs (da_st a) = r_fs s
    }.

    Lemma dinv_0 : dinv 0 (mkDA [] [] true false s).
    Proof.
      constructor; cbn; auto; try lia; try apply core2_refl; try (rewrite app_nil_r; reflexivity).
    Qed.

    Lemma slot_cases j :
      (slot_of c pos j = SEmpty /\ (nth j (c_disks c) None = None \/ exists d, nth j (c_disks c) None = Some d /\ slot_at d pos = SEmpty))
      \/ exists d f idx b, nth j (c_disks c) None = Some d /\ slot_at d pos = SFile f idx b /\ slot_of c pos j = SFile f idx b /\ fb_state b = SBlk.
    Proof.
      destruct Hsync as [Hs _]. specialize (Hs j). rewrite slot_of_nth in *.
      destruct (nth j (c_disks c) None) as [d|] eqn:Ed.
      - destruct (slot_at d pos) as [|f idx b|h] eqn:Es.
        + left. split; [reflexivity|]. right. exists d. auto.
        + right. exists d, f, idx, b. simpl in Hs. auto.
        + simpl in Hs. contradiction.
      - left. split; [reflexivity|]. left. reflexivity.
    Qed.

    Lemma dinv_step k a : k < length (c_disks c) -> dinv k a -> dinv (S k) (data_step hashf bs newino now o c pos a k).
    Proof.
      intros Hk I.
      assert (Eseq : seq 0 (S k) = seq 0 k ++ [k]) by (rewrite seq_S; reflexivity).
      destruct (slot_cases k) as [[Es Hn]|[d [f [idx [b [Ed [Esa [Es Hst]]]]]]]].
      - (* nothing at this disk position *)
        assert (Eds : data_step hashf bs newino now o c pos a k = mkDA (da_buf a ++ [0%N]) (da_failed a) (da_valid a) (da_used a) (da_st a)).
        { unfold data_step. destruct Hn as [Hn|[d [Hd Hsd]]]; [rewrite Hn; reflexivity | rewrite Hd, Hsd; reflexivity]. }
        rewrite Eds. destruct I. constructor; cbn [da_buf da_failed da_valid da_used da_st]; rewrite ?Eseq; auto.
        + rewrite map_app. cbn. unfold bufval at 2. rewrite Es. rewrite di_buf0. reflexivity.
        + rewrite flat_map_app. cbn. unfold fent_of at 2. rewrite Es. rewrite app_nil_r. exact di_failed0.
        + rewrite existsb_app. cbn. rewrite Es. cbn. rewrite orb_false_r. exact di_used0.
        + rewrite flat_map_app. cbn. unfold tag_of at 2. rewrite Es. rewrite !app_nil_r. exact di_tags0.
        + intros j' n'. rewrite di_fs0. destruct (Nat.eq_dec j' k) as [E|E].
          * subst j'. rewrite Nat.ltb_irrefl. assert (E1 : (k <? S k) = true) by (apply Nat.ltb_lt; lia). rewrite E1.
            unfold fs_after. rewrite Es. reflexivity.
          * assert (E1 : (j' <? S k) = (j' <? k)).
            { destruct (j' <? k) eqn:X; [apply Nat.ltb_lt in X; apply Nat.ltb_lt; lia | apply Nat.ltb_ge in X; apply Nat.ltb_ge; lia]. }
            rewrite E1. reflexivity.
        + intros k' Hk'. apply di_flags0. lia.
      - (* a BLK block *)
        destruct (Hfile k f idx b Es) as [Hlen [Hsz Hm]].
        destruct I.
        assert (Efs : fs_find (r_fs (da_st a)) k (cf_name f) = fs_find (r_fs s) k (cf_name f)) by (rewrite di_fs0, Nat.ltb_irrefl; reflexivity).
        assert (Erd : read_block bs (da_st a) k f idx = read_block bs s k f idx) by (unfold read_block; rewrite Efs; reflexivity).
        destruct (data_step_blk o c pos a k d f idx b Hplain Ed Esa Hst) as [s' [x [fe [Eds SO]]]].
        + destruct di_core0 as [_ [_ [_ [_ [L _]]]]]. rewrite L, Hlenfs. exact Hk.
        + intros g Hg. apply Hsz. rewrite <- Efs. exact Hg.
        + destruct Hm as [Hm|[Hm|Hm]]; [left; exact Hm | right; left; rewrite di_flags0 by (cbn; lia); exact Hm | right; right; rewrite Efs; exact Hm].
        + exact Hlen.
        + rewrite Eds. destruct SO as [SOc SOo SOf SOr]. rewrite Erd in SOr.
          assert (Hx : x = bufval k /\ fe = fent_of k /\ r_err s' = r_err (da_st a) + length fe /\ r_tags s' = r_tags (da_st a) ++ tag_of k).
          { unfold bufval, fent_of, tag_of, is_bad, hash_ok. rewrite Es.
            destruct (read_block bs s k f idx) as [y|] eqn:Er.
            - destruct SOr as [Ex [_ SOr]]. subst x. destruct (hval_eqb (hashf y (block_len bs (cf_size f) idx)) (fb_hash b)) eqn:Eh; cbn [negb].
              + destruct SOr as [A [B C]]. subst fe. rewrite app_nil_r. cbn. rewrite Nat.add_0_r. auto.
              + destruct SOr as [A [B C]]. subst fe. cbn. auto.
            - destruct SOr as [Ex [A [B [C _]]]]. subst x fe. rewrite Efs in C. cbn. repeat split; auto. }
          destruct Hx as [Hx1 [Hx2 [Hx3 Hx4]]].
          constructor; cbn [da_buf da_failed da_valid da_used da_st]; rewrite ?Eseq.
          * rewrite map_app. cbn. rewrite di_buf0, Hx1. reflexivity.
          * rewrite flat_map_app. cbn. rewrite app_nil_r, di_failed0, Hx2. reflexivity.
          * exact di_valid0.
          * rewrite existsb_app. cbn. rewrite Es. cbn. rewrite orb_true_r. reflexivity.
          * eapply core2_trans; [exact di_core0 | exact SOc].
          * rewrite app_length, Hx3, di_err0. lia.
          * rewrite flat_map_app. cbn. rewrite app_nil_r, Hx4, di_tags0, app_assoc. reflexivity.
          * intros j' n'. destruct (Nat.eq_dec j' k) as [E|E].
            -- subst j'. assert (E1 : (k <? S k) = true) by (apply Nat.ltb_lt; lia). rewrite E1.
               unfold fs_after. rewrite Es.
               destruct (N.eqb (cf_name f) n') eqn:En.
               ++ apply N.eqb_eq in En. subst n'. rewrite andb_true_r.
                  destruct (read_block bs s k f idx) as [y|] eqn:Er.
                  ** destruct SOr as [_ [Efs' _]]. rewrite Efs', Efs.
                     unfold read_block in Er. destruct (fs_find (r_fs s) k (cf_name f)); [destruct (co_fix o); reflexivity | discriminate].
                  ** destruct SOr as [_ [_ [_ [_ [Hcheck Hfix]]]]]. destruct (co_fix o) eqn:Efix.
                     --- specialize (Hfix eq_refl). rewrite Efs in Hfix.
                         destruct (fs_find (r_fs s) k (cf_name f)) eqn:Ef0.
                         +++ rewrite Hfix. exact Efs.
                         +++ rewrite Hfix. apply fs_find_put_same.
                             destruct di_core0 as [_ [_ [_ [_ [L _]]]]]. rewrite L, Hlenfs. exact Hk.
                     --- rewrite (Hcheck eq_refl). exact Efs.
               ++ rewrite andb_false_r. rewrite SOo; [rewrite di_fs0, Nat.ltb_irrefl; reflexivity|].
                  intro X. injection X as X. apply N.eqb_neq in En. congruence.
            -- assert (E1 : (j' <? S k) = (j' <? k)).
               { destruct (j' <? k) eqn:X; [apply Nat.ltb_lt in X; apply Nat.ltb_lt; lia | apply Nat.ltb_ge in X; apply Nat.ltb_ge; lia]. }
               rewrite E1. rewrite SOo by congruence. apply di_fs0.
          * intros k' Hk'. rewrite SOf; [apply di_flags0; lia|]. intro X. subst k'. cbn in Hk'. lia.
          * intro Hc. rewrite <- (di_fs_check0 Hc).
            destruct (read_block bs s k f idx); [destruct SOr as [_ [E _]]; exact E | destruct SOr as [_ [_ [_ [_ [E _]]]]]; exact (E Hc)].
    Qed.

    Lemma data_phase_prefix k : k <= length (c_disks c) ->
      dinv k (fold_left (data_step hashf bs newino now o c pos) (seq 0 k) (mkDA [] [] true false s)).
    Proof.
      induction k as [|k IH]; intro Hk.
      - apply dinv_0.
      - rewrite seq_S, fold_left_app. cbn [fold_left plus]. apply dinv_step; [lia | apply IH; lia].
    Qed.
    Theorem data_phase_inv : dinv (length (c_disks c)) (data_phase hashf bs newino now o c pos s).
    Proof. unfold data_phase. apply data_phase_prefix. lia. Qed.

    (* consequences used below *)
    Lemma fent_of_idx j e : In e (fent_of j) -> fe_idx e = j /\ fe_bad e = true /\ fe_ood e = false /\ fe_state e = Some SBlk
                                               /\ exists f idx b, slot_of c pos j = SFile f idx b /\ e = ent j f idx b true /\ is_bad j = true.
    Proof.
      unfold fent_of. destruct (slot_cases j) as [[Es _]|[d [f [idx [b [_ [_ [Es Hst]]]]]]]]; rewrite Es; [intros []|].
      destruct (is_bad j) eqn:Eb; [|intros []]. intros [E|[]]. subst e. cbn. rewrite Hst. repeat split; auto.
      exists f, idx, b. auto.
    Qed.
    Lemma failed_idx_filter n : map fe_idx (flat_map fent_of (seq 0 n)) = filter is_bad (seq 0 n).
    Proof.
      induction n as [|n IH]; [reflexivity|].
      rewrite seq_S, flat_map_app, map_app, filter_app, IH. cbn [plus flat_map filter]. f_equal.
      rewrite app_nil_r. unfold fent_of.
      destruct (slot_of c pos n) as [|f idx b|h] eqn:Es; try (unfold is_bad; rewrite Es; reflexivity).
      destruct (is_bad n); reflexivity.
    Qed.

    (* the data errors are located: one error tag per damaged block, in disk order, nothing else; one error counted per tag *)
    Theorem data_errors_located :
      let a := data_phase hashf bs newino now o c pos s in
      r_tags (da_st a) = r_tags s ++ flat_map tag_of (seq 0 (length (c_disks c)))
      /\ r_err (da_st a) = r_err s + length (filter is_bad (seq 0 (length (c_disks c))))
      /\ map fe_idx (da_failed a) = filter is_bad (seq 0 (length (c_disks c)))
      /\ (forall j, tag_of j = [] <-> is_bad j = false)
      /\ (forall j t, In t (tag_of j) -> exists f idx b k, slot_of c pos j = SFile f idx b
                                         /\ t = tg k [pos; j] [cf_name f; N.of_nat idx] /\ (k = K_ERR_DATA \/ k = K_ERR_READ \/ k = K_ERR_OPEN)).
    Proof.
      cbn zeta. destruct data_phase_inv as [Ibuf Ifailed Ivalid Iused Icore Ierr Itags Ifs Iflags Ifsc].
      split; [exact Itags|]. split.
      - rewrite Ierr, Ifailed. rewrite <- (map_length fe_idx), failed_idx_filter. reflexivity.
      - split; [rewrite Ifailed; apply failed_idx_filter|]. split.
        + intro j. unfold tag_of, is_bad. destruct (slot_of c pos j) as [|f idx b|h]; try tauto.
          destruct (read_block bs s j f idx) as [y|].
          * destruct (hash_ok f idx b y); cbn; split; intro H; try reflexivity; discriminate.
          * split; intro H; discriminate.
        + intros j t Ht. unfold tag_of in Ht. destruct (slot_of c pos j) as [|f idx b|h]; try contradiction.
          destruct (read_block bs s j f idx) as [y|].
          * destruct (hash_ok f idx b y); [contradiction|]. destruct Ht as [E|[]]. subst t. exists f, idx, b, K_ERR_DATA. auto.
          * destruct Ht as [E|[]]. subst t. exists f, idx, b. eexists. split; [reflexivity|]. split; [reflexivity|].
            destruct (co_fix o || _); auto.
    Qed.
  End DataPhase.

  (* a block is reported iff it is not the recorded one (collision freedom between the block on disk and the recorded one) *)
  Lemma is_bad_iff c pos s v j f idx b :
    slot_of c pos j = SFile f idx b -> enc_ok hashf bs c pos v -> j < length (c_disks c) ->
    (forall y, read_block bs s j f idx = Some y -> hash_ok f idx b y = true -> y = vnth v j) ->
    (is_bad c pos s j = false <-> read_block bs s j f idx = Some (vnth v j)).
  Proof.
    intros Es [_ Henc] Hj Hcf. unfold is_bad. rewrite Es. specialize (Henc j Hj). rewrite Es in Henc. cbn in Henc.
    destruct (read_block bs s j f idx) as [y|] eqn:Er.
    - split.
      + intro H. f_equal. apply Hcf; [reflexivity|]. destruct (hash_ok f idx b y); [reflexivity | discriminate].
      + intro H. injection H as H. subst y. unfold hash_ok, vnth. rewrite Henc. destruct (fb_hash b); cbn; auto. rewrite N.eqb_refl. reflexivity.
    - split; intro H; discriminate.
  Qed.

  (* ---- writing back ------------------------------------------------------------------------------------------------ *)
  (* states that differ only in counters, tags, the junk counter, and flags other than DAMAGED *)
  Definition keeps_damaged (s s' : rstate) : Prop :=
    forall k, fl_damaged (get_fl (r_flags s') k) = fl_damaged (get_fl (r_flags s) k).

  Lemma write_block_spec g f idx b :
    let g' := write_block padz truncf bs now g f idx b in
    ff_name g' = ff_name g
    /\ (N.of_nat idx * bs + block_len bs (cf_size f) idx <= ff_size g')%N
    /\ (pad_ok padz bs b (block_len bs (cf_size f) idx) = true -> nth idx (ff_blocks g') 0%N = b)
    /\ (forall i, i <> idx -> nth i (ff_blocks g') 0%N = nth i (ff_blocks g) 0%N)
    /\ (forall M, (ff_size g <= M)%N -> (N.of_nat idx * bs + block_len bs (cf_size f) idx <= M)%N -> (ff_size g' <= M)%N).
  Proof.
    unfold write_block. cbn. repeat split.
    - destruct (ff_size g <? N.of_nat idx * bs + block_len bs (cf_size f) idx)%N eqn:E; [lia | apply N.ltb_ge in E; exact E].
    - intro Hp. rewrite Hp. apply nth_set_ext_same.
    - intros i Hi. apply nth_set_ext_other. exact Hi.
    - intros M H1 H2. destruct (ff_size g <? N.of_nat idx * bs + block_len bs (cf_size f) idx)%N; assumption.
  Qed.

  Definition wstep (o : copts) (pos : nat) (buf : list bid) (s : rstate) (e : fent) : rstate :=
    if negb (fe_bad e) then s else
    match fe_file e with
    | None => s
    | Some (f, i) =>
      let j := fe_idx e in
      let key := (j, cf_name f) in
      if is_excl o j (cf_name f) || (co_syncedonly o && fl_unsynced (get_fl (r_flags s) key)) then s else
      let s' := match fs_find (r_fs s) j (cf_name f) with
                | Some g => rs_setfs s (fs_put (r_fs s) j (write_block padz truncf bs now g f i (vnth buf j)))
                | None => s end in
      if fe_ood e then rs_flag s' key fl_set_damaged
      else rs_recov (rs_tag (rs_flag s' key fl_set_fixed) [tg K_FIXED [pos; j] [cf_name f; N.of_nat i]]) 1
    end.
  Lemma write_phase_fold o pos failed buf s : write_phase padz truncf bs now o pos failed buf s = fold_left (wstep o pos buf) failed s.
  Proof. reflexivity. Qed.

  Lemma keeps_fixed f : fl_damaged (fl_set_fixed f) = fl_damaged f.
  Proof. reflexivity. Qed.

  (* one recovered block written: the file holds it, nothing else moves *)
  Lemma wstep_spec o pos buf s j f idx b g :
    plain o -> j < length (r_fs s) -> fs_find (r_fs s) j (cf_name f) = Some g ->
    let e := ent j f idx b true in
    let s' := wstep o pos buf s e in
    r_par s' = r_par s /\ r_unrec s' = r_unrec s /\ r_err s' = r_err s /\ r_jn s' = r_jn s /\ length (r_fs s') = length (r_fs s)
    /\ keeps_damaged s s'
    /\ fs_find (r_fs s') j (cf_name f) = Some (write_block padz truncf bs now g f idx (vnth buf j))
    /\ (forall j' n', (j', n') <> (j, cf_name f) -> fs_find (r_fs s') j' n' = fs_find (r_fs s) j' n').
  Proof.
    intros Hp Hj Hf. cbn zeta. unfold wstep, ent. cbn [fe_bad fe_file fe_idx fe_ood negb].
    rewrite (plain_not_excl o j _ Hp), (pl_synced o Hp). cbn [orb andb]. rewrite Hf.
    cbn. repeat split; auto.
    - apply fs_put_length.
    - intro k. unfold rs_flag, rs_setfl, rs_setfs. cbn.
      destruct (fkey_eqb (j, cf_name f) k) eqn:E.
      + apply fkey_eqb_eq in E. subst k. rewrite get_set_same. reflexivity.
      + rewrite get_set_other; [reflexivity|]. intro X. subst k. rewrite fkey_eqb_refl in E. discriminate.
    - pose proof (fs_find_put_same (r_fs s) j (write_block padz truncf bs now g f idx (vnth buf j)) Hj) as X.
      cbn in X. rewrite (fs_find_name _ _ _ _ Hf) in X. exact X.
    - intros j' n' Hne. apply (fs_find_put_other (r_fs s) j (write_block padz truncf bs now g f idx (vnth buf j)) j' n'). cbn.
      rewrite (fs_find_name _ _ _ _ Hf). exact Hne.
  Qed.

  Definition wentry := (nat * cfile * nat * fblock)%type.
  Definition we_j (x : wentry) : nat := fst (fst (fst x)).
  Definition we_ent (x : wentry) : fent := let '(j, f, idx, b) := x in ent j f idx b true.
  Definition we_key (x : wentry) : fkey := let '(j, f, idx, b) := x in (j, cf_name f).

  Lemma wfold_spec o pos buf : plain o -> forall es s,
    NoDup (map we_j es) ->
    (forall x, In x es -> we_j x < length (r_fs s) /\ exists g, fs_find (r_fs s) (fst (we_key x)) (snd (we_key x)) = Some g) ->
    let s' := fold_left (wstep o pos buf) (map we_ent es) s in
    r_par s' = r_par s /\ r_unrec s' = r_unrec s /\ r_err s' = r_err s /\ r_jn s' = r_jn s /\ length (r_fs s') = length (r_fs s)
    /\ keeps_damaged s s'
    /\ (forall j f idx b g, In (j, f, idx, b) es -> fs_find (r_fs s) j (cf_name f) = Some g ->
                            fs_find (r_fs s') j (cf_name f) = Some (write_block padz truncf bs now g f idx (vnth buf j)))
    /\ (forall j' n', (forall x, In x es -> (j', n') <> we_key x) -> fs_find (r_fs s') j' n' = fs_find (r_fs s) j' n').
  Proof.
    intro Hp. induction es as [|x t IH]; intros s Hnd Hpres; cbn [map fold_left].
    - cbn. repeat split; auto. intros j f idx b g [].
    - destruct x as [[[j f] idx] b]. cbn [we_ent].
      apply NoDup_cons_iff in Hnd. destruct Hnd as [Hnin Hnd]. cbn [map we_j fst] in Hnin.
      destruct (Hpres (j, f, idx, b) (or_introl eq_refl)) as [Hj [g Hg]]. cbn in Hj, Hg.
      destruct (wstep_spec o pos buf s j f idx b g Hp Hj Hg) as [A1 [A2 [A3 [A4 [A5 [A6 [A7 A8]]]]]]].
      set (s1 := wstep o pos buf s (ent j f idx b true)) in *.
      assert (Hother : forall x, In x t -> we_key x <> (j, cf_name f)).
      { intros [[[j2 f2] i2] b2] Hin X. cbn in X. injection X as X1 X2. apply Hnin. apply in_map_iff. exists (j2, f2, i2, b2). auto. }
      assert (Hpres1 : forall x, In x t -> we_j x < length (r_fs s1) /\ exists g0, fs_find (r_fs s1) (fst (we_key x)) (snd (we_key x)) = Some g0).
      { intros x Hx. destruct (Hpres x (or_intror Hx)) as [B1 [g0 B2]]. split; [rewrite A5; exact B1|].
        exists g0. rewrite A8; [exact B2|]. destruct (we_key x) eqn:Ek. cbn. rewrite <- Ek. apply Hother. exact Hx. }
      destruct (IH s1 Hnd Hpres1) as [B1 [B2 [B3 [B4 [B5 [B6 [B7 B8]]]]]]].
      split; [congruence|]. split; [congruence|]. split; [congruence|]. split; [congruence|]. split; [congruence|].
      split; [intro k; etransitivity; [apply B6 | apply A6]|]. split.
      + intros j0 f0 idx0 b0 g0 [E|Hin] Hg0.
        * injection E as E1 E2 E3 E4. subst j0 f0 idx0 b0. rewrite Hg in Hg0. injection Hg0 as Hg0. subst g0.
          rewrite B8; [exact A7|]. intros x Hx X. apply (Hother x Hx). symmetry. exact X.
        * apply (B7 j0 f0 idx0 b0 g0 Hin). rewrite A8; [exact Hg0|].
          intro X. apply (Hother (j0, f0, idx0, b0) Hin). cbn. exact X.
      + intros j' n' Hall. rewrite B8.
        * apply A8. apply (Hall (j, f, idx, b)). left. reflexivity.
        * intros x Hx. apply Hall. right. exact Hx.
  Qed.

  (* ---- file_post ------------------------------------------------------------------------------------------------------ *)
  Definition same_data (a b : option fsfile) : Prop :=
    match a, b with
    | Some x, Some y => ff_size x = ff_size y /\ ff_blocks x = ff_blocks y
    | None, None => True
    | _, _ => False
    end.
  Lemma same_data_refl a : same_data a a.
  Proof. destruct a; cbn; auto. Qed.
  Lemma same_data_trans a b c : same_data a b -> same_data b c -> same_data a c.
  Proof. destruct a, b, c; cbn; try tauto. intros [A B] [C D]. split; congruence. Qed.

  Record post_ok (s s' : rstate) : Prop := {
    po_par : r_par s' = r_par s;
    po_unrec : r_unrec s' = r_unrec s;
    po_err : r_err s' = r_err s;
    po_len : length (r_fs s') = length (r_fs s);
    po_dam : keeps_damaged s s';
    po_data : forall j' n', same_data (fs_find (r_fs s') j' n') (fs_find (r_fs s) j' n')
  }.
  Lemma post_ok_refl s : post_ok s s.
  Proof. constructor; auto; [intro k; reflexivity | intros; apply same_data_refl]. Qed.
  Lemma post_ok_trans s1 s2 s3 : post_ok s1 s2 -> post_ok s2 s3 -> post_ok s1 s3.
  Proof.
    intros [A1 A2 A3 A4 A5 A6] [B1 B2 B3 B4 B5 B6].
    constructor; [congruence | congruence | congruence | congruence | |].
    - intro k. unfold keeps_damaged in *. rewrite B5. apply A5.
    - intros. eapply same_data_trans; [apply B6 | apply A6].
  Qed.

  Lemma rs_flag_post s k g : (forall f, fl_damaged (g f) = fl_damaged f) -> post_ok s (rs_flag s k g).
  Proof.
    intro Hg. constructor; cbn; auto; [|intros; apply same_data_refl].
    intro k'. unfold rs_flag, rs_setfl. cbn. destruct (fkey_eqb k k') eqn:E.
    - apply fkey_eqb_eq in E. subst k'. rewrite get_set_same. apply Hg.
    - rewrite get_set_other; [reflexivity|]. intro X. subst k'. rewrite fkey_eqb_refl in E. discriminate.
  Qed.
  Lemma rs_tag_post s t : post_ok s (rs_tag s t).
  Proof. constructor; cbn; auto; [intro k; reflexivity | intros; apply same_data_refl]. Qed.

  Lemma file_post_fix o c pos s j :
    plain o -> co_fix o = true ->
    (forall f idx b, slot_of c pos j = SFile f idx b -> fl_damaged (get_fl (r_flags s) (j, cf_name f)) = false) ->
    post_ok s (file_post o c pos s j).
  Proof.
    intros Hp Hfix Hd. unfold file_post. pose proof (slot_of_nth c pos j) as Hs.
    destruct (nth j (c_disks c) None) as [d|]; [|apply post_ok_refl].
    destruct (slot_at d pos) as [|f idx b|h] eqn:Es; try apply post_ok_refl.
    specialize (Hd f idx b Hs).
    destruct (negb (Nat.eqb (S idx) (length (cf_blocks f)))); [apply post_ok_refl|].
    rewrite (plain_not_excl o j _ Hp), (pl_synced o Hp), Hfix. cbn [orb andb]. rewrite Hd.
    set (s1 := rs_flag s (j, cf_name f) fl_set_finished).
    assert (P1 : post_ok s s1) by (apply rs_flag_post; reflexivity).
    destruct (negb (fl_fixed (get_fl (r_flags s) (j, cf_name f)))); [exact P1|].
    eapply post_ok_trans; [exact P1|]. eapply post_ok_trans; [apply rs_tag_post|].
    cbn [r_fs rs_tag].
    change (r_fs s1) with (r_fs s).
    destruct (fs_find (r_fs s) j (cf_name f)) as [g|] eqn:Eg; [|apply post_ok_refl].
    match goal with |- context [if ?c then _ else _] => destruct c end; [|apply rs_tag_post].
    assert (Hj : j < length (r_fs s)).
    { unfold fs_find in Eg. destruct (Nat.lt_ge_cases j (length (r_fs s))) as [H|H]; [exact H|].
      rewrite (nth_overflow (r_fs s) None H) in Eg. discriminate. }
    set (g' := mkFF (cf_name f) (ff_size g) (cf_mtime f) (cf_nsec f) (ff_inode g) (ff_blocks g)).
    constructor; try reflexivity.
    - apply fs_put_length.
    - intro k. reflexivity.
    - intros j' n'. change (r_fs (rs_setfs (rs_tag s1 [(K_ST_RECOVERED, [N.of_nat j; cf_name f])]) (fs_put (r_fs s) j g'))) with (fs_put (r_fs s) j g').
      change (r_fs (rs_tag s1 [(K_ST_RECOVERED, [N.of_nat j; cf_name f])])) with (r_fs s).
      destruct (fkey_eqb (j', n') (j, cf_name f)) eqn:E.
      + apply fkey_eqb_eq in E. injection E as E1 E2. subst j' n'.
        pose proof (fs_find_put_same (r_fs s) j g' Hj) as X. cbn [ff_name g'] in X. rewrite X, Eg. cbn. auto.
      + rewrite (fs_find_put_other (r_fs s) j g' j' n').
        * apply same_data_refl.
        * cbn [ff_name g']. intro X. rewrite X, fkey_eqb_refl in E. discriminate.
  Qed.

  Lemma file_post_check_quiet o c pos s j :
    plain o -> co_fix o = false ->
    (forall f idx b, slot_of c pos j = SFile f idx b ->
       fl_damaged (get_fl (r_flags s) (j, cf_name f)) = false /\ fl_fixed (get_fl (r_flags s) (j, cf_name f)) = false) ->
    file_post o c pos s j = s.
  Proof.
    intros Hp Hfix Hd. unfold file_post. pose proof (slot_of_nth c pos j) as Hs.
    destruct (nth j (c_disks c) None) as [d|]; [|reflexivity].
    destruct (slot_at d pos) as [|f idx b|h] eqn:Es; try reflexivity.
    destruct (Hd f idx b Hs) as [H1 H2].
    destruct (negb (Nat.eqb (S idx) (length (cf_blocks f)))); [reflexivity|].
    rewrite (plain_not_excl o j _ Hp), (pl_synced o Hp), Hfix. cbn [orb andb]. rewrite H1, H2. reflexivity.
  Qed.

  (* ---- the stripe step along the path where repair succeeds ------------------------------------------------------------- *)
  Definition ok_body (o : copts) (pos : nat) (failed' : list fent) (rec : list penc) (buf : list bid) (check_par : bool) (s1b : rstate) : rstate :=
    let partial := filter (fun e => fe_bad e && fe_ood e) failed' in
    let s3 := fold_left (fun s e => match fe_file e with
                                    | Some (f, i) => rs_tag s [tg K_UNREC_UNSYNC [pos; fe_idx e] [cf_name f; N.of_nat i]]
                                    | None => s end) partial s1b in
    let s4 := match partial with [] => s3 | _ => rs_unrec (rs_err s3 (length partial)) 1 end in
    let '(rec2, s5) := if check_par then compare_phase nlev pos rec buf s4 else (rec, s4) in
    if co_fix o then
      let s6 := write_phase padz truncf bs now o pos failed' buf s5 in
      if check_par then parity_write_phase nlev o pos rec2 buf s6 else s6
    else
      fold_left (fun s x => let '(j, f, i) := x in rs_flag s (j, cf_name f) fl_set_fixed) (bad_files failed') s5.

  Lemma stripe_step_ok o c fs0 pos s rec s1a failed' buf jn' rtags :
    co_audit o = false ->
    let a := data_phase hashf bs newino now o c pos s in
    parity_phase nlev o pos (da_st a) = (rec, s1a) ->
    repair hashf padz bs nlev reduced pos (co_nosearch o) (search_view fs0 (r_fs s1a)) (da_failed a) rec (da_buf a) (r_jn s1a) = (ROk, failed', buf, jn', rtags) ->
    stripe_step hashf padz truncf bs nlev reduced newino now o c fs0 s pos
    = fold_left (file_post o c pos) (seq 0 (length (c_disks c)))
                (ok_body o pos failed' rec buf (da_used a && da_valid a) (rs_tag (rs_setjn s1a jn') rtags)).
  Proof.
    intros Ha a Hp Hr. unfold stripe_step. fold a. rewrite Ha, Hp, Hr. reflexivity.
  Qed.

  Lemma fent_of_good c pos s j : is_bad c pos s j = false -> fent_of c pos s j = [].
  Proof. intro H. unfold fent_of. destruct (slot_of c pos j); try reflexivity. rewrite H. reflexivity. Qed.
  Lemma flat_map_nil {A B} (f : A -> list B) l : (forall x, In x l -> f x = []) -> flat_map f l = [].
  Proof. induction l as [|x t IH]; intro H; [reflexivity|]. cbn. rewrite (H x (or_introl eq_refl)). apply IH. intros y Hy. apply H. right. exact Hy. Qed.
  Lemma filter_nil {A} (f : A -> bool) l : (forall x, In x l -> f x = false) -> filter f l = [].
  Proof. induction l as [|x t IH]; intro H; [reflexivity|]. cbn. rewrite (H x (or_introl eq_refl)). apply IH. intros y Hy. apply H. right. exact Hy. Qed.

  Section NoAlarm.
    Variable o : copts.
    Variable c : content.
    Variable fs0 : list (option fsdisk).
    Variable pos : nat.
    Variable s : rstate.
    Hypothesis Hplain : plain o.
    Hypothesis Hcheck : co_fix o = false.
    Hypothesis Hsync : stripe_synced c pos.
    Hypothesis Hlenfs : length (r_fs s) = length (c_disks c).
    Hypothesis Hfile : forall j f idx b, slot_of c pos j = SFile f idx b ->
         (0 < block_len bs (cf_size f) idx)%N
         /\ (forall g, fs_find (r_fs s) j (cf_name f) = Some g -> (ff_size g <= cf_size f)%N)
         /\ (co_fix o = true \/ fl_missing (get_fl (r_flags s) (j, cf_name f)) = false \/ fs_find (r_fs s) j (cf_name f) = None).
    (* nothing is damaged: every block reads and hashes to the recorded hash, every level encodes what was read *)
    Hypothesis Hgood : forall j, is_bad c pos s j = false.
    Hypothesis Hpar : forall l, l < nlev -> par_matches (map (bufval c pos s) (seq 0 (length (c_disks c)))) (prow (r_par s) pos l) = true.
    Hypothesis Hflags : forall j f idx b, slot_of c pos j = SFile f idx b ->
         fl_damaged (get_fl (r_flags s) (j, cf_name f)) = false /\ fl_fixed (get_fl (r_flags s) (j, cf_name f)) = false.

    Theorem check_step_quiet_full :
      let s' := stripe_step hashf padz truncf bs nlev reduced newino now o c fs0 s pos in
      r_tags s' = r_tags s /\ r_err s' = r_err s /\ r_rec s' = r_rec s /\ r_unrec s' = r_unrec s /\ r_fs s' = r_fs s /\ r_par s' = r_par s
      /\ (forall k, fl_damaged (get_fl (r_flags s') k) = fl_damaged (get_fl (r_flags s) k)
                    /\ fl_fixed (get_fl (r_flags s') k) = fl_fixed (get_fl (r_flags s) k)).
    Proof.
      pose proof (data_phase_inv o c pos s Hplain Hsync Hlenfs Hfile) as I.
      set (a := data_phase hashf bs newino now o c pos s) in *.
      destruct I as [Ibuf Ifailed Ivalid Iused Icore Ierr Itags Ifs Iflags Ifsc].
      assert (Ef : da_failed a = []).
      { rewrite Ifailed. apply flat_map_nil. intros j _. apply fent_of_good. apply Hgood. }
      assert (Et : flat_map (tag_of o c pos s) (seq 0 (length (c_disks c))) = []).
      { apply flat_map_nil. intros j _. unfold tag_of. specialize (Hgood j). unfold is_bad in Hgood.
        destruct (slot_of c pos j); try reflexivity. destruct (read_block bs s j f idx); [|discriminate].
        unfold hash_ok in *. destruct (hval_eqb _ _); [reflexivity | discriminate]. }
      destruct Icore as [Cpar [Cunrec [Crec [Cjn [Clen Cfl]]]]].
      assert (Epn : filter (fun l => is_pnone (prow (r_par (da_st a)) pos l)) (seq 0 nlev) = []).
      { apply filter_nil. intros l Hl. apply in_seq in Hl. rewrite Cpar. specialize (Hpar l ltac:(lia)).
        destruct (prow (r_par s) pos l); [reflexivity | discriminate | discriminate]. }
      pose proof (parity_phase_spec o pos (da_st a) (pl_popen o Hplain)) as Epp. rewrite Epn in Epp. cbn [length map] in Epp.
      cbn zeta.
      erewrite (stripe_step_ok o c fs0 pos s _ _ [] (da_buf a) _ []); [| exact (pl_audit o Hplain) | fold a; exact Epp | fold a; rewrite Ef; reflexivity].
      fold a. rewrite Iused, Ivalid.
      assert (Eu : existsb (fun j => slot_has_file (slot_of c pos j)) (seq 0 (length (c_disks c))) = true).
      { destruct Hsync as [_ [j Hj]]. apply existsb_exists. exists j. split; [|exact Hj].
        apply in_seq. destruct (Nat.lt_ge_cases j (length (c_disks c))) as [H|H]; [lia|].
        rewrite slot_of_out in Hj by exact H. discriminate. }
      rewrite Eu. unfold ok_body. cbn [filter fold_left andb]. rewrite Hcheck.
      rewrite compare_phase_spec.
      assert (Ew : filter (wrong_level (map (prow (r_par (da_st a)) pos) (seq 0 nlev)) (da_buf a)) (seq 0 nlev) = []).
      { apply filter_nil. intros l Hl. apply in_seq in Hl. unfold wrong_level.
        rewrite (nth_indep _ PNone (prow (r_par (da_st a)) pos 0)) by (rewrite map_length, seq_length; lia).
        rewrite map_nth. rewrite seq_nth by lia. cbn [plus]. rewrite Cpar, Ibuf. rewrite (Hpar l ltac:(lia)). rewrite andb_false_r. reflexivity. }
      rewrite Ew. cbn [bad_files flat_map fold_left length map].
      (* the loop of file_post does nothing *)
      match goal with |- context [fold_left (file_post o c pos) ?l ?st] => set (st0 := st) end.
      assert (Hfp : forall js, fold_left (file_post o c pos) js st0 = st0).
      { induction js as [|j t IHt]; [reflexivity|]. cbn [fold_left]. rewrite file_post_check_quiet; auto.
        intros f idx b Hs. destruct (Hflags j f idx b Hs) as [H1 H2].
        unfold st0. cbn [r_flags rs_tag rs_setjn]. destruct (Cfl (j, cf_name f)) as [D1 [D2 _]]. rewrite D1, D2. auto. }
      rewrite Hfp. unfold st0. cbn. rewrite Itags, Et, Ierr, Ef, !app_nil_r. cbn [length].
      split; [reflexivity|]. split; [lia|]. split; [auto|]. split; [auto|]. split; [auto|]. split; [auto|].
      intro k. destruct (Cfl k) as [D1 [D2 _]]. split; assumption.
    Qed.
    Theorem check_step_quiet :
      let s' := stripe_step hashf padz truncf bs nlev reduced newino now o c fs0 s pos in
      r_tags s' = r_tags s /\ r_err s' = r_err s /\ r_rec s' = r_rec s /\ r_unrec s' = r_unrec s /\ r_fs s' = r_fs s /\ r_par s' = r_par s.
    Proof. destruct check_step_quiet_full as [A [B [C [D [E [F _]]]]]]. repeat split; assumption. Qed.
  End NoAlarm.

  (* size and blocks of a file of the run state, 0 when the file is absent *)
  Definition fsz (fs : list (option fsdisk)) (j : nat) (n : N) : N := match fs_find fs j n with Some g => ff_size g | None => 0%N end.
  Definition fblk (fs : list (option fsdisk)) (j : nat) (n : N) (i : nat) : bid := match fs_find fs j n with Some g => nth i (ff_blocks g) 0%N | None => 0%N end.
  Lemma same_data_fsz fs fs' j n : same_data (fs_find fs' j n) (fs_find fs j n) -> fsz fs' j n = fsz fs j n /\ forall i, fblk fs' j n i = fblk fs j n i.
  Proof. unfold fsz, fblk. destruct (fs_find fs' j n), (fs_find fs j n); cbn; try tauto. intros [A B]. rewrite A, B. auto. Qed.

  (* ---- fix restores a stripe --------------------------------------------------------------------------------------------- *)
  Lemma hval_eqb_refl h : hval_eqb h h = true.
  Proof. destruct h; cbn; auto. apply N.eqb_refl. Qed.
  Lemma hval_eqb_eq a b : hval_eqb a b = true -> a = b.
  Proof. destruct a, b; cbn; intro H; try discriminate; auto. apply N.eqb_eq in H. congruence. Qed.

  Lemma read_block_some s j f idx y :
    read_block bs s j f idx = Some y ->
    exists g, fs_find (r_fs s) j (cf_name f) = Some g /\ y = nth idx (ff_blocks g) 0%N
              /\ (N.of_nat idx * bs + block_len bs (cf_size f) idx <= ff_size g)%N.
  Proof.
    unfold read_block. destruct (fs_find (r_fs s) j (cf_name f)) as [g|]; [|discriminate].
    destruct (ff_size g <? N.of_nat idx * bs + block_len bs (cf_size f) idx)%N eqn:E; [discriminate|].
    intro H. injection H as H. exists g. apply N.ltb_ge in E. auto.
  Qed.

  Lemma fold_file_post_fix o c pos : plain o -> co_fix o = true -> forall js st,
    (forall j f idx b, slot_of c pos j = SFile f idx b -> fl_damaged (get_fl (r_flags st) (j, cf_name f)) = false) ->
    post_ok st (fold_left (file_post o c pos) js st).
  Proof.
    intros Hp Hfix. induction js as [|j t IH]; intros st Hd; [apply post_ok_refl|].
    cbn [fold_left].
    assert (P : post_ok st (file_post o c pos st j)) by (apply file_post_fix; auto; intros; eapply Hd; eauto).
    eapply post_ok_trans; [exact P|]. apply IH.
    intros j' f idx b Hs. rewrite (po_dam _ _ P). eapply Hd. exact Hs.
  Qed.


  (* ---- time-stamps: what file_post does to the file of a slot, exactly (fix) ------------------------------------------- *)
  Definition restamp (f : cfile) (g : fsfile) : fsfile := mkFF (cf_name f) (ff_size g) (cf_mtime f) (cf_nsec f) (ff_inode g) (ff_blocks g).
  (* no other file of the disk has the size and the time-stamp of f (else fix does not set the time and reports collision:) *)
  Definition uniq_stamp (c : content) (j : nat) (f : cfile) : Prop :=
    forall d h, nth j (c_disks c) None = Some d -> In h (cd_files d) ->
                cf_size h = cf_size f -> cf_mtime h = cf_mtime f -> cf_nsec h = cf_nsec f -> cf_name h = cf_name f.

  Lemma file_post_fix_shape o c pos s j d f idx b :
    plain o -> co_fix o = true -> nth j (c_disks c) None = Some d -> slot_at d pos = SFile f idx b ->
    fl_damaged (get_fl (r_flags s) (j, cf_name f)) = false ->
    let s' := file_post o c pos s j in
    (Nat.eqb (S idx) (length (cf_blocks f)) = false -> s' = s)
    /\ (Nat.eqb (S idx) (length (cf_blocks f)) = true ->
          r_flags s' = set_fl (r_flags s) (j, cf_name f) (fl_set_finished (get_fl (r_flags s) (j, cf_name f)))
          /\ (r_fs s' = r_fs s \/ (fl_fixed (get_fl (r_flags s) (j, cf_name f)) = true
                                  /\ exists g, fs_find (r_fs s) j (cf_name f) = Some g /\ r_fs s' = fs_put (r_fs s) j (restamp f g)))
          /\ (uniq_stamp c j f -> fl_fixed (get_fl (r_flags s) (j, cf_name f)) = true ->
              forall g, fs_find (r_fs s) j (cf_name f) = Some g -> r_fs s' = fs_put (r_fs s) j (restamp f g))
          /\ (fl_fixed (get_fl (r_flags s) (j, cf_name f)) = false -> r_fs s' = r_fs s)).
  Proof.
    intros Hp Hfix Hd Hs Hdam. cbn zeta. unfold file_post. rewrite Hd, Hs.
    destruct (Nat.eqb (S idx) (length (cf_blocks f))) eqn:El; cbn [negb]; split; try (intro X; discriminate X); [|intros _; reflexivity].
    intros _. rewrite (plain_not_excl o j _ Hp), (pl_synced o Hp), Hfix. cbn [orb andb]. rewrite Hdam.
    destruct (fl_fixed (get_fl (r_flags s) (j, cf_name f))) eqn:Efx; cbn [negb].
    - cbv zeta. cbn [r_fs rs_tag rs_flag rs_setfl].
      destruct (fs_find (r_fs s) j (cf_name f)) as [g|] eqn:Eg.
      + match goal with |- context [if ?c then _ else _] => destruct c eqn:Est end.
        * cbn [r_flags r_fs rs_setfs rs_tag rs_flag rs_setfl]. split; [reflexivity|]. split; [right; split; [reflexivity|]; exists g; split; reflexivity|].
          split; [intros _ _ g' Hg'; injection Hg' as Hg'; subst g'; reflexivity | intro X; discriminate X].
        * cbn [r_flags r_fs rs_setfs rs_tag rs_flag rs_setfl]. split; [reflexivity|]. split; [left; reflexivity|].
          split; [|intro X; discriminate X]. intros Hu _ g' Hg'. exfalso.
          destruct (find (fun h => N.eqb (cf_inode h) (ff_inode g)) (cd_files d)) as [h|] eqn:Ec; [|discriminate Est].
          apply find_some in Ec. destruct Ec as [Hin _].
          destruct (N.eqb (cf_size h) (cf_size f)) eqn:E1; [|cbn in Est; rewrite orb_true_r in Est; discriminate Est].
          destruct (Z.eqb (cf_mtime h) (cf_mtime f)) eqn:E2; [|cbn in Est; rewrite !orb_true_r in Est; discriminate Est].
          destruct (Z.eqb (cf_nsec h) (cf_nsec f)) eqn:E3; [|cbn in Est; rewrite !orb_true_r in Est; discriminate Est].
          apply N.eqb_eq in E1. apply Z.eqb_eq in E2. apply Z.eqb_eq in E3.
          rewrite (Hu d h Hd Hin E1 E2 E3), N.eqb_refl in Est. discriminate Est.
      + cbn [r_flags r_fs rs_setfs rs_tag rs_flag rs_setfl]. split; [reflexivity|]. split; [left; reflexivity|].
        split; [intros _ _ g' Hg'; discriminate Hg' | intro X; discriminate X].
    - cbn [r_flags r_fs rs_flag rs_setfl]. split; [reflexivity|]. split; [left; reflexivity|].
      split; [intros _ X; discriminate X | intros _; reflexivity].
  Qed.

  (* the files of the other slots / of no slot are not touched by file_post j *)
  Lemma file_post_other o c pos s j j' n' :
    plain o -> co_fix o = true ->
    (forall f idx b, slot_of c pos j = SFile f idx b -> fl_damaged (get_fl (r_flags s) (j, cf_name f)) = false /\ (j', n') <> (j, cf_name f)) ->
    fs_find (r_fs (file_post o c pos s j)) j' n' = fs_find (r_fs s) j' n'
    /\ fl_fixed (get_fl (r_flags (file_post o c pos s j)) (j', n')) = fl_fixed (get_fl (r_flags s) (j', n')).
  Proof.
    intros Hp Hfix H. pose proof (slot_of_nth c pos j) as Hs.
    destruct (nth j (c_disks c) None) as [d|] eqn:Hd; [|unfold file_post; rewrite Hd; auto].
    destruct (slot_at d pos) as [|f idx b|h] eqn:Es; [unfold file_post; rewrite Hd, Es; auto | | unfold file_post; rewrite Hd, Es; auto].
    destruct (H f idx b Hs) as [Hdam Hne].
    destruct (file_post_fix_shape o c pos s j d f idx b Hp Hfix Hd Es Hdam) as [S1 S2]. cbn zeta in S1, S2.
    destruct (Nat.eqb (S idx) (length (cf_blocks f))) eqn:El; [|rewrite (S1 eq_refl); auto].
    destruct (S2 eq_refl) as [Ef [Efs _]]. rewrite Ef. split.
    - destruct Efs as [E|[_ [g [_ E]]]]; rewrite E; [reflexivity|]. apply fs_find_put_other. exact Hne.
    - rewrite get_set_other by exact Hne. reflexivity.
  Qed.

  Lemma file_post_at o c pos s j f idx b :
    plain o -> co_fix o = true -> slot_of c pos j = SFile f idx b -> fl_damaged (get_fl (r_flags s) (j, cf_name f)) = false ->
    fl_fixed (get_fl (r_flags (file_post o c pos s j)) (j, cf_name f)) = fl_fixed (get_fl (r_flags s) (j, cf_name f))
    /\ fl_damaged (get_fl (r_flags (file_post o c pos s j)) (j, cf_name f)) = false
    /\ (fl_fixed (get_fl (r_flags s) (j, cf_name f)) = false -> fs_find (r_fs (file_post o c pos s j)) j (cf_name f) = fs_find (r_fs s) j (cf_name f))
    /\ (uniq_stamp c j f -> S idx = length (cf_blocks f) -> fl_fixed (get_fl (r_flags s) (j, cf_name f)) = true ->
        forall g, fs_find (r_fs s) j (cf_name f) = Some g -> fs_find (r_fs (file_post o c pos s j)) j (cf_name f) = Some (restamp f g)).
  Proof.
    intros Hp Hfix Hs Hdam. rewrite slot_of_nth in Hs. destruct (nth j (c_disks c) None) as [d|] eqn:Hd; [|discriminate].
    destruct (file_post_fix_shape o c pos s j d f idx b Hp Hfix Hd Hs Hdam) as [S1 S2]. cbn zeta in S1, S2.
    destruct (Nat.eqb (S idx) (length (cf_blocks f))) eqn:El.
    - destruct (S2 eq_refl) as [Ef [_ [Eu Enf]]]. rewrite Ef, get_set_same. split; [reflexivity|]. split; [exact Hdam|]. split.
      + intro X. rewrite (Enf X). reflexivity.
      + intros Hu _ Hfx g Hg. rewrite (Eu Hu Hfx g Hg).
        assert (Hj : j < length (r_fs s)).
        { unfold fs_find in Hg. destruct (Nat.lt_ge_cases j (length (r_fs s))) as [H|H]; [exact H|]. rewrite (nth_overflow (r_fs s) None H) in Hg. discriminate. }
        apply (fs_find_put_same (r_fs s) j (restamp f g) Hj).
    - rewrite (S1 eq_refl). split; [reflexivity|]. split; [exact Hdam|]. split; [reflexivity|].
      intros _ X. apply Nat.eqb_neq in El. congruence.
  Qed.

  (* the whole loop of file_post over the disks *)
  Lemma fold_file_post_stamps o c pos : plain o -> co_fix o = true -> forall js st, NoDup js ->
    (forall j f idx b, slot_of c pos j = SFile f idx b -> fl_damaged (get_fl (r_flags st) (j, cf_name f)) = false) ->
    let s' := fold_left (file_post o c pos) js st in
    (forall j' n', (forall j f idx b, In j js -> slot_of c pos j = SFile f idx b -> (j', n') <> (j, cf_name f)) ->
                   fs_find (r_fs s') j' n' = fs_find (r_fs st) j' n' /\ fl_fixed (get_fl (r_flags s') (j', n')) = fl_fixed (get_fl (r_flags st) (j', n')))
    /\ (forall j f idx b, In j js -> slot_of c pos j = SFile f idx b ->
          fl_fixed (get_fl (r_flags s') (j, cf_name f)) = fl_fixed (get_fl (r_flags st) (j, cf_name f))
          /\ (fl_fixed (get_fl (r_flags st) (j, cf_name f)) = false -> fs_find (r_fs s') j (cf_name f) = fs_find (r_fs st) j (cf_name f))
          /\ (uniq_stamp c j f -> S idx = length (cf_blocks f) -> fl_fixed (get_fl (r_flags st) (j, cf_name f)) = true ->
              forall g, fs_find (r_fs st) j (cf_name f) = Some g -> fs_find (r_fs s') j (cf_name f) = Some (restamp f g))).
  Proof.
    intros Hp Hfix. induction js as [|j0 t IH]; intros st Hnd Hd; cbn [fold_left].
    - cbn zeta. split; [auto|]. intros j f idx b [].
    - apply NoDup_cons_iff in Hnd. destruct Hnd as [Hnin Hnd].
      assert (P : post_ok st (file_post o c pos st j0)) by (apply file_post_fix; auto; intros; eapply Hd; eauto).
      assert (Hd1 : forall j f idx b, slot_of c pos j = SFile f idx b -> fl_damaged (get_fl (r_flags (file_post o c pos st j0)) (j, cf_name f)) = false).
      { intros j f idx b Hs. rewrite (po_dam _ _ P). eapply Hd. exact Hs. }
      destruct (IH (file_post o c pos st j0) Hnd Hd1) as [A B]. cbn zeta in A, B. cbn zeta. split.
      + intros j' n' Hne.
        destruct (A j' n' (fun j f idx b Hin Hs => Hne j f idx b (or_intror Hin) Hs)) as [A1 A2].
        destruct (file_post_other o c pos st j0 j' n' Hp Hfix) as [O1 O2].
        { intros f idx b Hs. split; [eapply Hd; exact Hs | apply (Hne j0 f idx b (or_introl eq_refl) Hs)]. }
        split; congruence.
      + intros j f idx b [E|Hin] Hs.
        * subst j0.
          destruct (file_post_at o c pos st j f idx b Hp Hfix Hs (Hd j f idx b Hs)) as [T1 [T2 [T3 T4]]].
          destruct (A j (cf_name f)) as [A1 A2].
          { intros j2 f2 i2 b2 Hin2 Hs2 X. injection X as X1 X2. subst j2. contradiction. }
          split; [congruence|]. split; [intro X; rewrite A1; apply T3; exact X|].
          intros Hu Hl Hfx g Hg. rewrite A1. apply (T4 Hu Hl Hfx g Hg).
        * destruct (B j f idx b Hin Hs) as [B1 [B2 B3]].
          assert (Hjne : j <> j0) by (intro X; subst j0; contradiction).
          destruct (file_post_other o c pos st j0 j (cf_name f) Hp Hfix) as [O1 O2].
          { intros f0 i0 b0 Hs0. split; [eapply Hd; exact Hs0 | intro X; injection X as X1 X2; contradiction]. }
          split; [congruence|]. split; [intro X; rewrite B2; [exact O1 | congruence]|].
          intros Hu Hl Hfx g Hg. apply (B3 Hu Hl); [congruence | rewrite O1; exact Hg].
  Qed.

  (* the write-back: FIXED is set on the files written, no other flag of another file moves *)
  Lemma wfold_flags o pos buf : plain o -> forall es s,
    (forall x, In x es -> exists g, fs_find (r_fs s) (fst (we_key x)) (snd (we_key x)) = Some g) ->
    NoDup (map we_j es) ->
    let s' := fold_left (wstep o pos buf) (map we_ent es) s in
    (forall x, In x es -> fl_fixed (get_fl (r_flags s') (we_key x)) = true)
    /\ (forall k, (forall x, In x es -> k <> we_key x) -> get_fl (r_flags s') k = get_fl (r_flags s) k).
  Proof.
    intro Hp. induction es as [|x t IH]; intros s Hpres Hnd; cbn [map fold_left].
    - cbn zeta. split; [intros x [] | auto].
    - destruct x as [[[j f] idx] b]. cbn [we_ent].
      apply NoDup_cons_iff in Hnd. destruct Hnd as [Hnin Hnd]. cbn [map we_j fst] in Hnin.
      destruct (Hpres (j, f, idx, b) (or_introl eq_refl)) as [g Hg]. cbn in Hg.
      assert (Hj : j < length (r_fs s)).
      { unfold fs_find in Hg. destruct (Nat.lt_ge_cases j (length (r_fs s))) as [H|H]; [exact H|]. rewrite (nth_overflow (r_fs s) None H) in Hg. discriminate. }
      destruct (wstep_spec o pos buf s j f idx b g Hp Hj Hg) as [_ [_ [_ [_ [_ [_ [_ A8]]]]]]].
      assert (Efl : r_flags (wstep o pos buf s (ent j f idx b true)) = set_fl (r_flags s) (j, cf_name f) (fl_set_fixed (get_fl (r_flags s) (j, cf_name f)))).
      { unfold wstep, ent. cbn [fe_bad fe_file fe_idx fe_ood negb]. rewrite (plain_not_excl o j _ Hp), (pl_synced o Hp). cbn [orb andb]. rewrite Hg. reflexivity. }
      set (s1 := wstep o pos buf s (ent j f idx b true)) in *.
      assert (Hother : forall x, In x t -> we_key x <> (j, cf_name f)).
      { intros [[[j2 f2] i2] b2] Hin X. cbn in X. injection X as X1 X2. apply Hnin. apply in_map_iff. exists (j2, f2, i2, b2). auto. }
      destruct (IH s1) as [B1 B2]; [|exact Hnd|].
      { intros x Hx. destruct (Hpres x (or_intror Hx)) as [g0 Hg0]. exists g0. rewrite A8; [exact Hg0|].
        destruct (we_key x) eqn:Ek. cbn. rewrite <- Ek. apply Hother. exact Hx. }
      cbn zeta in B1, B2. cbn zeta. split.
      + intros x [E|Hin]; [|apply B1; exact Hin]. subst x. cbn [we_key].
        rewrite B2; [rewrite Efl, get_set_same; reflexivity|]. intros x Hx X. apply (Hother x Hx). symmetry. exact X.
      + intros k Hk. rewrite B2 by (intros x Hx; apply Hk; right; exact Hx). rewrite Efl. apply get_set_other.
        apply (Hk (j, f, idx, b)). left. reflexivity.
  Qed.

  Section Restore.
    Variable o : copts.
    Variable c : content.
    Variable fs0 : list (option fsdisk).
    Variable pos : nat.
    Variable s : rstate.
    Variable v : list bid.
    Hypothesis Hplain : plain o.
    Hypothesis Hfix : co_fix o = true.
    Hypothesis Hsync : stripe_synced c pos.
    Hypothesis Hlenfs : length (r_fs s) = length (c_disks c).
    Hypothesis Hfile : forall j f idx b, slot_of c pos j = SFile f idx b ->
         (0 < block_len bs (cf_size f) idx)%N
         /\ (forall g, fs_find (r_fs s) j (cf_name f) = Some g -> (ff_size g <= cf_size f)%N)
         /\ (co_fix o = true \/ fl_missing (get_fl (r_flags s) (j, cf_name f)) = false \/ fs_find (r_fs s) j (cf_name f) = None).
    (* v is the recorded vector of the stripe (C06: ParOK gives it), zero padded *)
    Hypothesis Henc : enc_ok hashf bs c pos v.
    Hypothesis Hpad : forall j f idx b, slot_of c pos j = SFile f idx b -> pad_ok padz bs (vnth v j) (block_len bs (cf_size f) idx) = true.
    (* collision freedom on the blocks involved *)
    Hypothesis CFdata : forall j f idx b y, slot_of c pos j = SFile f idx b -> read_block bs s j f idx = Some y ->
                                          hash_ok f idx b y = true -> y = vnth v j.
    Let n := length (c_disks c).
    Let rec := map (prow (r_par s) pos) (seq 0 nlev).
    Let failed := flat_map (fent_of c pos s) (seq 0 n).
    Hypothesis CFj : cf_junk hashf padz bs failed.
    Hypothesis CFr : cf_rec hashf padz bs failed rec v.
    Hypothesis CFv : cf_vec hashf padz bs failed v.
    Hypothesis CFs : forall fsx, cf_search hashf bs (co_nosearch o) fsx failed v.
    (* at most as many damaged blocks as intact parity levels *)
    Hypothesis Hcount : length (filter (is_bad c pos s) (seq 0 n)) <= length (filter (good_level v rec) (seq 0 nlev)).
    Hypothesis Hparlen : nlev <= length (r_par s).
    Hypothesis Hdam : forall j f idx b, slot_of c pos j = SFile f idx b -> fl_damaged (get_fl (r_flags s) (j, cf_name f)) = false.
    (* the block lies inside the recorded size of its file *)
    Hypothesis Hwf : forall j f idx b, slot_of c pos j = SFile f idx b -> (N.of_nat idx * bs + block_len bs (cf_size f) idx <= cf_size f)%N.

    Let es : list wentry :=
      flat_map (fun j => match slot_of c pos j with SFile f idx b => if is_bad c pos s j then [(j, f, idx, b)] else [] | _ => [] end) (seq 0 n).

    Lemma failed_es : failed = map we_ent es.
    Proof.
      clear CFj CFr CFv CFs Hcount. unfold failed, es. generalize (seq 0 n). intro l. induction l as [|j t IH]; [reflexivity|].
      cbn [flat_map]. rewrite map_app, IH. f_equal. unfold fent_of.
      destruct (slot_of c pos j); try reflexivity. destruct (is_bad c pos s j); reflexivity.
    Qed.
    Lemma es_j : map we_j es = filter (is_bad c pos s) (seq 0 n).
    Proof.
      rewrite <- (failed_idx_filter c pos s n). fold failed. rewrite failed_es, map_map. apply map_ext.
      intros [[[j f] idx] b]. reflexivity.
    Qed.
    Lemma es_in x : In x es -> exists j f idx b, x = (j, f, idx, b) /\ j < n /\ slot_of c pos j = SFile f idx b /\ is_bad c pos s j = true.
    Proof.
      unfold es. intro H. apply in_flat_map in H. destruct H as [j [Hj Hx]]. apply in_seq in Hj.
      destruct (slot_of c pos j) as [|f idx b|h] eqn:Es; try contradiction.
      destruct (is_bad c pos s j) eqn:Eb; [|contradiction]. destruct Hx as [E|[]]. subst x.
      exists j, f, idx, b. repeat split; auto; lia.
    Qed.

    (* the step with its frame: what it does at this stripe AND what it leaves alone (other stripes of the parity, other
       files, the other blocks of the files of this stripe; a file grows at most to the end of the block written) *)
    Theorem fix_step_full :
      let s' := stripe_step hashf padz truncf bs nlev reduced newino now o c fs0 s pos in
      (forall j f idx b, slot_of c pos j = SFile f idx b ->
         exists g, fs_find (r_fs s') j (cf_name f) = Some g /\ nth idx (ff_blocks g) 0%N = vnth v j
                   /\ (N.of_nat idx * bs + block_len bs (cf_size f) idx <= ff_size g)%N /\ (ff_size g <= cf_size f)%N)
      /\ (forall l, l < nlev -> par_matches v (prow (r_par s') pos l) = true)
      /\ r_unrec s' = r_unrec s
      /\ keeps_damaged s s'
      /\ length (r_fs s') = length (r_fs s)
      /\ (forall l p, p <> pos -> nth p (nth l (r_par s') []) PNone = nth p (nth l (r_par s) []) PNone)
      /\ length (r_par s') = length (r_par s)
      /\ (forall j' n', (forall f idx b, slot_of c pos j' = SFile f idx b -> cf_name f <> n') ->
                        same_data (fs_find (r_fs s') j' n') (fs_find (r_fs s) j' n'))
      /\ (forall j f idx b, slot_of c pos j = SFile f idx b ->
            (forall i, i <> idx -> fblk (r_fs s') j (cf_name f) i = fblk (r_fs s) j (cf_name f) i)
            /\ (fsz (r_fs s) j (cf_name f) <= fsz (r_fs s') j (cf_name f))%N
            /\ (fsz (r_fs s') j (cf_name f) <= N.max (fsz (r_fs s) j (cf_name f)) (N.of_nat idx * bs + block_len bs (cf_size f) idx))%N)
      (* the files that have no block in this stripe are not touched at all, nor is their FIXED flag *)
      /\ (forall j' n', (forall f idx b, slot_of c pos j' = SFile f idx b -> cf_name f <> n') ->
                        fs_find (r_fs s') j' n' = fs_find (r_fs s) j' n'
                        /\ fl_fixed (get_fl (r_flags s') (j', n')) = fl_fixed (get_fl (r_flags s) (j', n')))
      (* FIXED is set exactly on the files whose block was damaged; a file neither damaged here nor FIXED before is not touched;
         at its last block a FIXED file gets its recorded time-stamp back *)
      /\ (forall j f idx b, slot_of c pos j = SFile f idx b ->
            fl_fixed (get_fl (r_flags s') (j, cf_name f)) = fl_fixed (get_fl (r_flags s) (j, cf_name f)) || is_bad c pos s j
            /\ (is_bad c pos s j = false -> fl_fixed (get_fl (r_flags s) (j, cf_name f)) = false ->
                fs_find (r_fs s') j (cf_name f) = fs_find (r_fs s) j (cf_name f))
            /\ (uniq_stamp c j f -> S idx = length (cf_blocks f) -> fl_fixed (get_fl (r_flags s') (j, cf_name f)) = true ->
                exists g, fs_find (r_fs s') j (cf_name f) = Some g /\ ff_mtime g = cf_mtime f /\ ff_nsec g = cf_nsec f)).
    Proof.
      pose proof (data_phase_inv o c pos s Hplain Hsync Hlenfs Hfile) as I.
      set (a := data_phase hashf bs newino now o c pos s) in *.
      destruct I as [Ibuf Ifailed Ivalid Iused Icore Ierr Itags Ifs Iflags Ifsc].
      fold n in Ibuf, Ifailed, Iused, Itags. fold failed in Ifailed.
      destruct Icore as [Cpar [Cunrec [Crec [Cjn [Clen Cfl]]]]].
      destruct Henc as [Hvlen Hvenc].
      assert (Hbuflen : length (da_buf a) = n) by (rewrite Ibuf, map_length, seq_length; reflexivity).
      assert (Hbufnth : forall j, j < n -> vnth (da_buf a) j = bufval c pos s j).
      { intros j Hj. rewrite Ibuf. unfold vnth. apply nth_map_seq. exact Hj. }
      (* the failed set *)
      assert (Hfin : forall e, In e failed -> exists j, j < n /\ In e (fent_of c pos s j)).
      { intros e He. unfold failed in He. apply in_flat_map in He. destruct He as [j [Hj He]]. apply in_seq in Hj. exists j. split; [lia | exact He]. }
      assert (Hblk : blk_failed failed (da_buf a)).
      { intros e He. destruct (Hfin e He) as [j [Hj Hej]].
        destruct (fent_of_idx c pos s Hsync j e Hej) as [A [B [C [D _]]]]. repeat split; auto. rewrite A, Hbuflen. exact Hj. }
      assert (Hhv : hv_ok hashf padz bs failed v).
      { intros e He. destruct (Hfin e He) as [j [Hj Hej]].
        destruct (fent_of_idx c pos s Hsync j e Hej) as [A [_ [_ [_ [f [idx [b [Es [Ee _]]]]]]]]]. subst e. cbn.
        unfold blockcmp. specialize (Hvenc j ltac:(fold n; lia)). rewrite Es in Hvenc. cbn in Hvenc. unfold vnth. rewrite Hvenc, hval_eqb_refl. cbn.
        apply (Hpad j f idx b Es). }
      assert (Hidx : map fe_idx failed = filter (is_bad c pos s) (seq 0 n)) by (apply failed_idx_filter).
      assert (Hag : agree_out (map fe_idx failed) v (da_buf a) = true).
      { apply agree_out_spec. intros i Hi. rewrite Hidx in Hi.
        destruct (Nat.lt_ge_cases i n) as [Hin|Hin].
        - assert (Eb : is_bad c pos s i = false).
          { destruct (is_bad c pos s i) eqn:E; [|reflexivity]. exfalso. apply Hi. apply filter_In. split; [apply in_seq; lia | exact E]. }
          rewrite Hbufnth by exact Hin. unfold bufval. unfold is_bad in Eb. specialize (Hvenc i ltac:(fold n; lia)).
          destruct (slot_of c pos i) as [|f idx b|h] eqn:Es.
          + cbn in Hvenc. exact Hvenc.
          + destruct (read_block bs s i f idx) as [y|] eqn:Er; [|discriminate].
            symmetry. apply (CFdata i f idx b y Es Er). destruct (hash_ok f idx b y); [reflexivity | discriminate].
          + destruct Hsync as [Hs _]. specialize (Hs i). rewrite Es in Hs. contradiction.
        - rewrite !vnth_out by lia. reflexivity. }
      assert (Hcnt : length failed <= length (filter (good_level v rec) (seq 0 nlev))).
      { rewrite <- (map_length fe_idx), Hidx. exact Hcount. }
      (* the parity read *)
      pose proof (parity_phase_spec o pos (da_st a) (pl_popen o Hplain)) as Epp. rewrite Cpar in Epp. fold rec in Epp.
      (* repair *)
      destruct (repair_restores hashf padz bs nlev reduced pos (co_nosearch o) (search_view fs0 (r_fs (da_st a))) failed rec v (da_buf a)
                  (r_jn (da_st a)) Hblk Hhv CFj CFr CFv (CFs _) Hag Hcnt) as [buf' [jn' [rtags [Erep [Hfl1 Hfl2]]]]].
      cbn zeta.
      erewrite (stripe_step_ok o c fs0 pos s rec _ failed buf' jn' rtags); [| exact (pl_audit o Hplain) | fold a; exact Epp | fold a; rewrite Ifailed; cbn [r_jn r_fs]; exact Erep].
      fold a. rewrite Iused, Ivalid.
      assert (Eu : existsb (fun j => slot_has_file (slot_of c pos j)) (seq 0 n) = true).
      { destruct Hsync as [_ [j Hj]]. apply existsb_exists. exists j. split; [|exact Hj].
        apply in_seq. destruct (Nat.lt_ge_cases j n) as [H|H]; [lia|]. rewrite slot_of_out in Hj by exact H. discriminate. }
      rewrite Eu. unfold ok_body. cbn [andb].
      assert (Epart : filter (fun e => fe_bad e && fe_ood e) failed = []).
      { apply filter_nil. intros e He. destruct (Hblk e He) as [_ [Ho _]]. rewrite Ho. apply andb_false_r. }
      rewrite Epart. cbn [fold_left]. rewrite Hfix. rewrite compare_phase_spec.
      set (rec2 := map (fun l => if wrong_level rec buf' l then PNone else nth l rec PNone) (seq 0 nlev)).
      match goal with |- context [write_phase padz truncf bs now o pos failed buf' ?st] => set (s5 := st) end.
      rewrite write_phase_fold, failed_es.
      (* the write-back *)
      assert (Hfs5 : forall j' n', fs_find (r_fs s5) j' n' = fs_find (r_fs (da_st a)) j' n') by (intros; reflexivity).
      assert (Hnd : NoDup (map we_j es)) by (rewrite es_j; apply NoDup_filter, seq_NoDup).
      assert (Hpres : forall x, In x es -> we_j x < length (r_fs s5) /\ exists g, fs_find (r_fs s5) (fst (we_key x)) (snd (we_key x)) = Some g).
      { intros x Hx. destruct (es_in x Hx) as [j [f [idx [b [Ex [Hj [Es Eb]]]]]]]. subst x. cbn.
        split; [change (length (r_fs s5)) with (length (r_fs (da_st a))); rewrite Clen, Hlenfs; exact Hj|].
        change (r_fs s5) with (r_fs (da_st a)); rewrite Ifs. assert (E : (j <? n) = true) by (apply Nat.ltb_lt; exact Hj). fold n. rewrite E.
        unfold fs_after. rewrite Es, Hfix, N.eqb_refl. cbn [andb]. destruct (fs_find (r_fs s) j (cf_name f)); eauto. }
      destruct (wfold_spec o pos buf' Hplain es s5 Hnd Hpres) as [W1 [W2 [W3 [W4 [W5 [W6 [W7 W8]]]]]]].
      set (s6 := fold_left (wstep o pos buf') (map we_ent es) s5) in *.
      (* the parity write-back *)
      destruct (parity_write_fold o pos rec2 buf' (seq 0 nlev) s6 (seq_NoDup nlev 0)) as [P1 [P2 [P3 [P4 [P5 [P6 [P7 P8]]]]]]].
      fold (parity_write_phase nlev o pos rec2 buf' s6) in *.
      set (s7 := parity_write_phase nlev o pos rec2 buf' s6) in *. fold n.
      (* damaged flags so far *)
      assert (Hd7 : forall k, fl_damaged (get_fl (r_flags s7) k) = fl_damaged (get_fl (r_flags s) k)).
      { intro k. rewrite P2. rewrite (W6 k). change (r_flags s5) with (r_flags (da_st a)). apply Cfl. }
      pose proof (fold_file_post_fix o c pos Hplain Hfix (seq 0 n) s7) as PO.
      specialize (PO ltac:(intros j f idx b Es; rewrite Hd7; eapply Hdam; exact Es)).
      set (s8 := fold_left (file_post o c pos) (seq 0 n) s7) in *.
      destruct PO as [Q1 Q2 Q3 Q4 Q5 Q6].
      assert (Hfull : forall j, j < n -> vnth buf' j = vnth v j) by (intros j Hj; apply Hfl2; rewrite Hbuflen; exact Hj).
      assert (Hs6all : forall j f idx b, slot_of c pos j = SFile f idx b ->
        exists g, fs_find (r_fs s6) j (cf_name f) = Some g /\ nth idx (ff_blocks g) 0%N = vnth v j
                  /\ (N.of_nat idx * bs + block_len bs (cf_size f) idx <= ff_size g)%N /\ (ff_size g <= cf_size f)%N
                  /\ (forall i, i <> idx -> nth i (ff_blocks g) 0%N = fblk (r_fs s) j (cf_name f) i)
                  /\ (fsz (r_fs s) j (cf_name f) <= ff_size g)%N
                  /\ (ff_size g <= N.max (fsz (r_fs s) j (cf_name f)) (N.of_nat idx * bs + block_len bs (cf_size f) idx))%N).
      { intros j f idx b Es.
        assert (Hj : j < n).
        { destruct (Nat.lt_ge_cases j n) as [H|H]; [exact H|]. rewrite slot_of_out in Es by exact H. discriminate. }
        destruct (is_bad c pos s j) eqn:Eb.
          - assert (Hin : In (j, f, idx, b) es).
            { unfold es. apply in_flat_map. exists j. split; [apply in_seq; lia|]. rewrite Es, Eb. left. reflexivity. }
            destruct (Hpres _ Hin) as [_ [g Hg]]. cbn in Hg.
            rewrite (W7 j f idx b g Hin Hg).
            destruct (write_block_spec g f idx (vnth buf' j)) as [_ [X2 [X3 [X4 X5]]]].
            assert (Hgs : (ff_size g <= cf_size f)%N /\ ff_size g = fsz (r_fs s) j (cf_name f) /\ (forall i, nth i (ff_blocks g) 0%N = fblk (r_fs s) j (cf_name f) i)).
            { change (r_fs s5) with (r_fs (da_st a)) in Hg. rewrite Ifs in Hg.
              assert (E : (j <? n) = true) by (apply Nat.ltb_lt; exact Hj). fold n in Hg. rewrite E in Hg.
              unfold fs_after in Hg. rewrite Es, Hfix, N.eqb_refl in Hg. cbn [andb] in Hg. unfold fsz, fblk.
              destruct (fs_find (r_fs s) j (cf_name f)) as [g0|] eqn:Eg0.
              - injection Hg as Hg. subst g0. destruct (Hfile j f idx b Es) as [_ [Hsz _]]. split; [apply Hsz; exact Eg0 | auto].
              - injection Hg as Hg. subst g. cbn. split; [lia|]. split; [reflexivity|]. intro i. destruct i; reflexivity. }
            destruct Hgs as [Hgs [Hgz Hgb]].
            eexists. split; [reflexivity|]. split; [|split; [exact X2 | split; [apply X5; [exact Hgs | apply (Hwf j f idx b Es)]|]]].
            { rewrite X3; [apply Hfull; exact Hj|]. rewrite Hfull by exact Hj. apply (Hpad j f idx b Es). }
            split; [intros i Hi; rewrite X4 by exact Hi; apply Hgb|].
            rewrite <- Hgz. unfold write_block. cbn [ff_size].
            destruct (ff_size g <? N.of_nat idx * bs + block_len bs (cf_size f) idx)%N eqn:El; [apply N.ltb_lt in El | apply N.ltb_ge in El]; lia.
          - unfold is_bad in Eb. rewrite Es in Eb.
            destruct (read_block bs s j f idx) as [y|] eqn:Er; [|discriminate].
            assert (Ey : y = vnth v j) by (apply (CFdata j f idx b y Es Er); destruct (hash_ok f idx b y); [reflexivity | discriminate]).
            destruct (read_block_some s j f idx y Er) as [g [Hg [Hy Hsz]]].
            exists g. split; [|split; [congruence | split; [exact Hsz | split; [destruct (Hfile j f idx b Es) as [_ [Hsz' _]]; apply Hsz'; exact Hg|]]]].
            2: { unfold fsz, fblk. rewrite Hg. split; [reflexivity|]. lia. }
            rewrite W8.
            + change (r_fs s5) with (r_fs (da_st a)); rewrite Ifs. assert (E : (j <? n) = true) by (apply Nat.ltb_lt; exact Hj). fold n. rewrite E.
              unfold fs_after. rewrite Es, Hfix, N.eqb_refl. cbn [andb]. rewrite Hg. reflexivity.
            + intros x Hx X. destruct (es_in x Hx) as [j2 [f2 [i2 [b2 [Ex [_ [_ Eb2]]]]]]]. subst x. cbn in X. injection X as X1 X2. subst j2.
              unfold is_bad in Eb2. rewrite Es, Er in Eb2. rewrite Eb in Eb2. discriminate. }
      assert (Hj_of : forall j f idx b, slot_of c pos j = SFile f idx b -> j < n).
      { intros j f idx b Es. destruct (Nat.lt_ge_cases j n) as [H|H]; [exact H|]. rewrite slot_of_out in Es by exact H. discriminate. }
      (* flags and time-stamps *)
      destruct (wfold_flags o pos buf' Hplain es s5 (fun x Hx => proj2 (Hpres x Hx)) Hnd) as [WF1 WF2]. fold s6 in WF1, WF2.
      assert (Hd7' : forall j f idx b, slot_of c pos j = SFile f idx b -> fl_damaged (get_fl (r_flags s7) (j, cf_name f)) = false).
      { intros j f idx b Es. rewrite Hd7. eapply Hdam. exact Es. }
      destruct (fold_file_post_stamps o c pos Hplain Hfix (seq 0 n) s7 (seq_NoDup n 0) Hd7') as [FSA FSB]. fold s8 in FSA, FSB.
      assert (Hes_key : forall x j f idx b, In x es -> slot_of c pos j = SFile f idx b -> is_bad c pos s j = false -> (j, cf_name f) <> we_key x).
      { intros x j f idx b Hx Es Eb X. destruct (es_in x Hx) as [j2 [f2 [i2 [b2 [Ex [_ [_ Eb2]]]]]]]. subst x. cbn in X. injection X as X1 X2. subst j2. congruence. }
      assert (G1 : forall j' n', (forall f idx b, slot_of c pos j' = SFile f idx b -> cf_name f <> n') ->
                        fs_find (r_fs s8) j' n' = fs_find (r_fs s) j' n'
                        /\ fl_fixed (get_fl (r_flags s8) (j', n')) = fl_fixed (get_fl (r_flags s) (j', n'))).
      { intros j' n' Hno.
        assert (Hne_es : forall x, In x es -> (j', n') <> we_key x).
        { intros x Hx X. destruct (es_in x Hx) as [j2 [f2 [i2 [b2 [Ex [_ [Es2 _]]]]]]]. subst x. cbn in X. injection X as X1 X2. subst j2.
          apply (Hno f2 i2 b2 Es2). symmetry. exact X2. }
        destruct (FSA j' n') as [A1 A2].
        { intros j f idx b _ Es X. injection X as X1 X2. subst j'. apply (Hno f idx b Es). symmetry. exact X2. }
        split.
        - rewrite A1, P1, W8 by exact Hne_es. change (r_fs s5) with (r_fs (da_st a)). rewrite Ifs. fold n.
          destruct (j' <? n) eqn:E; [|reflexivity]. unfold fs_after. destruct (slot_of c pos j') as [|f idx b|h] eqn:Es; try reflexivity.
          assert (En : N.eqb (cf_name f) n' = false) by (apply N.eqb_neq; apply (Hno f idx b eq_refl)).
          rewrite En, andb_false_r. reflexivity.
        - rewrite A2, P2, WF2 by exact Hne_es. change (r_flags s5) with (r_flags (da_st a)). apply Cfl. }
      assert (G2 : forall j f idx b, slot_of c pos j = SFile f idx b ->
            fl_fixed (get_fl (r_flags s8) (j, cf_name f)) = fl_fixed (get_fl (r_flags s) (j, cf_name f)) || is_bad c pos s j
            /\ (is_bad c pos s j = false -> fl_fixed (get_fl (r_flags s) (j, cf_name f)) = false ->
                fs_find (r_fs s8) j (cf_name f) = fs_find (r_fs s) j (cf_name f))
            /\ (uniq_stamp c j f -> S idx = length (cf_blocks f) -> fl_fixed (get_fl (r_flags s8) (j, cf_name f)) = true ->
                exists g, fs_find (r_fs s8) j (cf_name f) = Some g /\ ff_mtime g = cf_mtime f /\ ff_nsec g = cf_nsec f)).
      { intros j f idx b Es. assert (Hj : j < n) by (apply (Hj_of j f idx b Es)).
        destruct (FSB j f idx b ltac:(apply in_seq; lia) Es) as [B1 [B2 B3]].
        assert (Efx7 : fl_fixed (get_fl (r_flags s7) (j, cf_name f)) = fl_fixed (get_fl (r_flags s) (j, cf_name f)) || is_bad c pos s j).
        { rewrite P2. destruct (is_bad c pos s j) eqn:Eb.
          - rewrite orb_true_r. apply (WF1 (j, f, idx, b)). unfold es. apply in_flat_map. exists j. split; [apply in_seq; lia|]. rewrite Es, Eb. left. reflexivity.
          - rewrite orb_false_r. rewrite WF2 by (intros x Hx; apply (Hes_key x j f idx b Hx Es Eb)).
            change (r_flags s5) with (r_flags (da_st a)). apply Cfl. }
        split; [rewrite B1; exact Efx7|]. split.
        - intros Eb Hnf. rewrite B2 by (rewrite Efx7, Hnf, Eb; reflexivity).
          rewrite P1, W8 by (intros x Hx; apply (Hes_key x j f idx b Hx Es Eb)).
          change (r_fs s5) with (r_fs (da_st a)). rewrite Ifs. assert (E : (j <? n) = true) by (apply Nat.ltb_lt; exact Hj). fold n. rewrite E.
          unfold fs_after. rewrite Es, Hfix, N.eqb_refl. cbn [andb].
          unfold is_bad in Eb. rewrite Es in Eb. destruct (read_block bs s j f idx) as [y|] eqn:Er; [|discriminate].
          destruct (read_block_some s j f idx y Er) as [g [Hg _]]. rewrite Hg. reflexivity.
        - intros Hu Hl Hfx. rewrite B1 in Hfx.
          destruct (Hs6all j f idx b Es) as [g6 [Hg6 _]]. rewrite <- P1 in Hg6.
          exists (restamp f g6). split; [apply (B3 Hu Hl Hfx g6 Hg6) | split; reflexivity]. }
      split; [|split; [|split; [|split; [|split; [|split; [|split; [|split]]]]]]].
      - (* the data *)
        intros j f idx b Es.
        destruct (Hs6all j f idx b Es) as [g [Hg [Hb [Hsz [Hle _]]]]].
        specialize (Q6 j (cf_name f)). rewrite P1, Hg in Q6.
        destruct (fs_find (r_fs s8) j (cf_name f)) as [g8|] eqn:E8; [|contradiction]. destruct Q6 as [Qa Qb].
        exists g8. split; [first [reflexivity | exact E8]|]. rewrite Qa, Qb. auto.
      - (* the parity *)
        intros l Hl. rewrite Q1. rewrite P7.
        assert (Em : memn l (seq 0 nlev) = true) by (apply memn_spec, in_seq; lia). rewrite Em.
        assert (El : (l <? length (r_par s6)) = true).
        { apply Nat.ltb_lt. rewrite W1. change (r_par s5) with (r_par s). lia. }
        rewrite El. unfold pw_cond. rewrite (pl_popen o Hplain l Hl), (pl_pexcl o Hplain l). cbn [negb andb]. rewrite !andb_true_r.
        assert (Hveq : veq v buf' = true).
        { apply veq_spec. intro i. destruct (Nat.lt_ge_cases i n) as [H|H]; [symmetry; apply Hfull; exact H|].
          rewrite !vnth_out; [reflexivity | destruct Hfl1; lia | lia]. }
        assert (Er2 : nth l rec2 PNone = if wrong_level rec buf' l then PNone else nth l rec PNone).
        { unfold rec2. apply nth_map_seq. exact Hl. }
        rewrite Er2. unfold wrong_level.
        assert (Erl : nth l rec PNone = prow (r_par s) pos l).
        { unfold rec. apply nth_map_seq. exact Hl. }
        destruct (nth l rec PNone) as [w|t|] eqn:Ep; cbn [is_pnone negb andb par_matches].
        + destruct (veq buf' w) eqn:Ew; cbn [negb is_pnone].
          * rewrite W1. change (r_par s5) with (r_par s). rewrite <- Erl. cbn. eapply veq_trans; [exact Hveq | exact Ew].
          * exact Hveq.
        + exact Hveq.
        + exact Hveq.
      - rewrite Q2, P3, W2. change (r_unrec s5) with (r_unrec (da_st a)). exact Cunrec.
      - intro k. rewrite (Q5 k). apply Hd7.
      - rewrite Q4, P1, W5. change (length (r_fs s5)) with (length (r_fs (da_st a))). exact Clen.
      - intros l p Hp. rewrite Q1, (P8 l p Hp), W1. reflexivity.
      - rewrite Q1, P6, W1. reflexivity.
      - (* other files *)
        intros j' n' Hno. eapply same_data_trans; [apply Q6|]. rewrite P1, W8.
        + change (r_fs s5) with (r_fs (da_st a)). rewrite Ifs. fold n. destruct (j' <? n) eqn:E; [|apply same_data_refl].
          unfold fs_after. destruct (slot_of c pos j') as [|f idx b|h] eqn:Es; try apply same_data_refl.
          assert (En : N.eqb (cf_name f) n' = false) by (apply N.eqb_neq; apply (Hno f idx b eq_refl)).
          rewrite En, andb_false_r. apply same_data_refl.
        + intros x Hx X. destruct (es_in x Hx) as [j2 [f2 [i2 [b2 [Ex [_ [Es2 _]]]]]]]. subst x. cbn in X. injection X as X1 X2. subst j2.
          apply (Hno f2 i2 b2 Es2). symmetry. exact X2.
      - split; [|split; [exact G1 | exact G2]].
        (* the other blocks of the files of this stripe *)
        intros j f idx b Es. destruct (Hs6all j f idx b Es) as [g [Hg [_ [_ [_ [Hoth [Hlo Hhi]]]]]]].
        pose proof (Q6 j (cf_name f)) as Q. rewrite P1, Hg in Q.
        unfold fsz at 2 3, fblk at 1. destruct (fs_find (r_fs s8) j (cf_name f)) as [g8|] eqn:E8; [|contradiction]. destruct Q as [Qa Qb].
        rewrite Qa, Qb. auto.
    Qed.

    Theorem fix_step_restores :
      let s' := stripe_step hashf padz truncf bs nlev reduced newino now o c fs0 s pos in
      (forall j f idx b, slot_of c pos j = SFile f idx b ->
         exists g, fs_find (r_fs s') j (cf_name f) = Some g /\ nth idx (ff_blocks g) 0%N = vnth v j
                   /\ (N.of_nat idx * bs + block_len bs (cf_size f) idx <= ff_size g)%N /\ (ff_size g <= cf_size f)%N)
      /\ (forall l, l < nlev -> par_matches v (prow (r_par s') pos l) = true)
      /\ r_unrec s' = r_unrec s
      /\ keeps_damaged s s'
      /\ length (r_fs s') = length (r_fs s).
    Proof. destruct fix_step_full as [A [B [C [D [E _]]]]]. repeat split; assumption. Qed.

    (* ... and a following check of the stripe (a new run: fresh flags and counters) reports nothing *)
    Variable o' : copts.
    Hypothesis Hplain' : plain o'.
    Hypothesis Hcheck' : co_fix o' = false.
    Hypothesis Hlen0 : forall j f idx b, slot_of c pos j = SFile f idx b -> (0 < block_len bs (cf_size f) idx)%N.

    Lemma par_matches_veq x y p : veq x y = true -> par_matches x p = par_matches y p.
    Proof.
      intro H. destruct p as [w|t|]; cbn; try reflexivity.
      destruct (veq x w) eqn:E1, (veq y w) eqn:E2; try reflexivity.
      - rewrite (veq_trans y x w (veq_sym _ _ H) E1) in E2. discriminate.
      - rewrite (veq_trans x y w H E2) in E1. discriminate.
    Qed.

    Theorem fix_then_check_quiet :
      let s' := stripe_step hashf padz truncf bs nlev reduced newino now o c fs0 s pos in
      let s0 := mkRS (r_fs s') [] (r_par s') 0 0 0 [] 0%N in
      let s'' := stripe_step hashf padz truncf bs nlev reduced newino now o' c (r_fs s') s0 pos in
      r_tags s'' = [] /\ r_err s'' = 0 /\ r_unrec s'' = 0 /\ r_fs s'' = r_fs s' /\ r_par s'' = r_par s'.
    Proof.
      cbn zeta. destruct fix_step_restores as [Ha [Hb [_ [_ Hl]]]].
      set (s' := stripe_step hashf padz truncf bs nlev reduced newino now o c fs0 s pos) in *.
      set (s0 := mkRS (r_fs s') [] (r_par s') 0 0 0 [] 0%N).
      destruct Henc as [Hvlen Hvenc].
      assert (Hrd : forall j f idx b, slot_of c pos j = SFile f idx b -> read_block bs s0 j f idx = Some (vnth v j)).
      { intros j f idx b Es. destruct (Ha j f idx b Es) as [g [Hg [Hb' [Hsz _]]]].
        unfold read_block. cbn [r_fs s0]. rewrite Hg.
        assert (E : (ff_size g <? N.of_nat idx * bs + block_len bs (cf_size f) idx)%N = false) by (apply N.ltb_ge; exact Hsz).
        rewrite E, Hb'. reflexivity. }
      assert (Hbv : forall j, j < n -> bufval c pos s0 j = vnth v j).
      { intros j Hj. unfold bufval. specialize (Hvenc j ltac:(fold n; lia)).
        destruct (slot_of c pos j) as [|f idx b|h] eqn:Es.
        - cbn in Hvenc. symmetry. exact Hvenc.
        - rewrite (Hrd j f idx b Es). reflexivity.
        - destruct Hsync as [Hs _]. specialize (Hs j). rewrite Es in Hs. contradiction. }
      destruct (check_step_quiet o' c (r_fs s') pos s0 Hplain' Hcheck' Hsync) as [T1 [T2 [T3 [T4 [T5 T6]]]]].
      - cbn [r_fs s0]. rewrite Hl. exact Hlenfs.
      - intros j f idx b Es. split; [apply (Hlen0 j f idx b Es)|]. split.
        + intros g Hg. destruct (Ha j f idx b Es) as [g' [Hg' [_ [_ Hle]]]]. cbn [r_fs s0] in Hg. rewrite Hg' in Hg. injection Hg as Hg. subst g'. exact Hle.
        + right. left. reflexivity.
      - intro j. unfold is_bad. destruct (slot_of c pos j) as [|f idx b|h] eqn:Es; try reflexivity.
        rewrite (Hrd j f idx b Es). unfold hash_ok.
        assert (Hj : j < n) by (destruct (Nat.lt_ge_cases j n) as [H|H]; [exact H | rewrite slot_of_out in Es by exact H; discriminate]).
        specialize (Hvenc j ltac:(fold n; lia)). rewrite Es in Hvenc. cbn in Hvenc. unfold vnth. rewrite Hvenc, hval_eqb_refl. reflexivity.
      - intros l Hl'. cbn [r_par s0]. rewrite <- (Hb l Hl'). apply par_matches_veq. apply veq_spec. intro i.
        destruct (Nat.lt_ge_cases i n) as [H|H].
        + unfold vnth at 1. rewrite nth_map_seq by exact H. apply Hbv. exact H.
        + rewrite !vnth_out; [reflexivity | lia | rewrite map_length, seq_length; exact H].
      - intros. cbn. auto.
      - cbn in *. auto.
    Qed.
  End Restore.
  (* ---- the tags of repair are never "located error" tags ------------------------------------------------------------- *)
  Definition aux_tag (t : tag) : Prop := fst t = K_PAR_TRY \/ fst t = K_HASH_UNKNOWN.
  Definition status_tag (t : tag) : Prop := fst t = K_ST_UNREC \/ fst t = K_ST_RECOVERABLE \/ fst t = K_ST_DAMAGED.

  Lemma try_combos_tags pos wh F fm rec : forall cs buf jn err tags,
    exists ext, snd (try_combos hashf padz bs pos wh F fm rec cs buf jn err tags) = tags ++ ext /\ Forall aux_tag ext.
  Proof.
    induction cs as [|ip rest IH]; intros buf jn err tags; cbn [try_combos].
    - exists []. rewrite app_nil_r. split; [reflexivity | constructor].
    - destruct (existsb _ ip); [apply IH|].
      destruct (reconstruct _ F _ buf jn) as [buf' jn'].
      match goal with |- context [if ?b then (true, _, _, _, _) else _] => destruct b end.
      + exists []. rewrite app_nil_r. split; [reflexivity | constructor].
      + match goal with |- context [try_combos _ _ _ _ _ _ _ _ _ _ _ _ (tags ++ [?t])] =>
          destruct (IH buf' jn' (S err) (tags ++ [t])) as [ext [E Hf]]; exists (t :: ext) end.
        split; [rewrite E, <- app_assoc; reflexivity|]. constructor; [left; reflexivity | exact Hf].
  Qed.

  Lemma repair_step_tags pos fm rec buf jn : Forall aux_tag (snd (repair_step hashf padz bs nlev pos fm rec buf jn)).
  Proof.
    unfold repair_step. destruct (Nat.eqb (length fm) 0); [constructor|].
    destruct (negb _); [constructor|].
    match goal with |- context [try_combos ?h ?p ?b ?ps ?wh ?F ?fm ?rec ?cs ?buf ?jn 0 []] =>
      destruct (try_combos_tags ps wh F fm rec cs buf jn 0 []) as [ext [E Hf]];
      destruct (try_combos h p b ps wh F fm rec cs buf jn 0 []) as [[[[ok buf'] jn'] err] tags] end.
    cbn [snd] in E. cbn [app] in E. subst tags. destruct ok; cbn [snd]; exact Hf.
  Qed.

  Lemma chg_heuristic_tags pos buf e : Forall aux_tag (snd (chg_heuristic hashf padz bs reduced pos buf e)).
  Proof.
    unfold chg_heuristic. destruct (fe_bad e && fe_is SChg e); [|constructor].
    destruct (h_is_invalid reduced (fe_hash e)); [constructor; [right; reflexivity | constructor]|].
    destruct (h_is_zero reduced (fe_hash e)).
    - destruct (N.eqb _ 0); [constructor; [right; reflexivity | constructor] | constructor].
    - destruct (blockcmp _ _ _ _ _ _); [constructor; [right; reflexivity | constructor] | constructor].
  Qed.

  Lemma Forall_flat_map {A B} (P : B -> Prop) (f : A -> list B) l : (forall a, Forall P (f a)) -> Forall P (flat_map f l).
  Proof. intro H. induction l as [|x t IH]; [constructor|]. cbn. apply Forall_app. split; [apply H | exact IH]. Qed.

  Lemma repair_tags pos nosearch fs0 failed rec buf jn :
    Forall aux_tag (snd (repair hashf padz bs nlev reduced pos nosearch fs0 failed rec buf jn)).
  Proof.
    unfold repair. destruct failed as [|e0 ft]; [constructor|].
    match goal with |- context [fold_left ?g (e0 :: ft) ([], buf)] => destruct (fold_left g (e0 :: ft) ([], buf)) as [fm1 buf1] end.
    destruct fm1 as [|e1 fm1]; [constructor|].
    pose proof (repair_step_tags pos (e1 :: fm1) rec buf1 jn) as T1.
    destruct (repair_step hashf padz bs nlev pos (e1 :: fm1) rec buf1 jn) as [[[r1 buf2] jn2] tags1]. cbn [snd] in T1.
    assert (Hrest : forall r1', r1' <> ROk ->
       Forall aux_tag (snd (
          let err1 := match r1' with RErr n => n | _ => O end in
          let step := fun (acc : list fent * list fent * list bid * bool * bool) e =>
            let '(fl, fm, b, torec, unsync) := acc in
            match fe_state e with
            | Some SBlk => if fe_bad e then (fl ++ [e], fm ++ [e], b, true, unsync) else (fl ++ [e], fm, b, torec, unsync)
            | _ => let e' := fe_set_ood e in
                   if fe_is SChg e && h_is_zero reduced (fe_hash e) then (fl ++ [e'], fm, set_buf b (fe_idx e) 0%N, torec, true)
                   else (fl ++ [e'], fm ++ [e'], b, torec, true)
            end in
          let '(failed2, fm2, buf3, torec, unsync) := fold_left step (e0 :: ft) ([], [], buf2, false, false) in
          if torec && unsync then
            let '(r2, buf4, jn4, tags2) := repair_step hashf padz bs nlev pos fm2 rec buf3 jn2 in
            match r2 with
            | ROk => let t := flat_map (fun e => if fe_bad e && (fe_is SChg e || fe_is SRep e)
                                                 then [(K_HASH_UNKNOWN, [N.of_nat pos; N.of_nat (fe_idx e); 4%N])] else []) failed2 in
                     (ROk, failed2, buf4, jn4, tags1 ++ tags2 ++ t)
            | _ => let err2 := match r2 with RErr n => n | _ => O end in
                   (match (err1 + err2)%nat with O => RNone | S k => RErr (S k) end, failed2, buf4, jn4, tags1 ++ tags2)
            end
          else (match err1 with O => RNone | S k => RErr (S k) end, failed2, buf3, jn2, tags1)))).
    { intros r1' _. cbv zeta.
      match goal with |- context [fold_left ?g (e0 :: ft) ?i] => destruct (fold_left g (e0 :: ft) i) as [[[[failed2 fm2] buf3] torec] unsync] end.
      destruct (torec && unsync); [|exact T1].
      pose proof (repair_step_tags pos fm2 rec buf3 jn2) as T2.
      destruct (repair_step hashf padz bs nlev pos fm2 rec buf3 jn2) as [[[r2 buf4] jn4] tags2]. cbn [snd] in T2.
      destruct r2; cbn [snd]; repeat (apply Forall_app; split); auto.
      apply Forall_flat_map. intro e. destruct (fe_bad e && _); [constructor; [right; reflexivity | constructor] | constructor]. }
    destruct r1.
    - cbn [snd]. apply Forall_app. split; [exact T1|]. rewrite flat_map_concat_map, map_map, <- flat_map_concat_map.
      apply Forall_flat_map. intro e. apply chg_heuristic_tags.
    - apply (Hrest (RErr n)). discriminate.
    - apply (Hrest RNone). discriminate.
  Qed.

  (* the files are only tagged by file_post when checking *)
  Record pchk (s s' : rstate) : Prop := {
    pc_fs : r_fs s' = r_fs s; pc_par : r_par s' = r_par s; pc_err : r_err s' = r_err s; pc_unrec : r_unrec s' = r_unrec s;
    pc_flags : r_flags s' = r_flags s;
    pc_tags : exists t, r_tags s' = r_tags s ++ t /\ Forall status_tag t }.
  Lemma pchk_refl s : pchk s s.
  Proof. constructor; auto. exists []. rewrite app_nil_r. split; [reflexivity | constructor]. Qed.
  Lemma pchk_trans a b d : pchk a b -> pchk b d -> pchk a d.
  Proof.
    intros [A1 A2 A3 A4 A5 [t1 [A6 A7]]] [B1 B2 B3 B4 B5 [t2 [B6 B7]]]. constructor; try congruence.
    exists (t1 ++ t2). split; [rewrite B6, A6, app_assoc; reflexivity | apply Forall_app; split; assumption].
  Qed.
  Lemma file_post_pchk o c pos s j : co_fix o = false -> pchk s (file_post o c pos s j).
  Proof.
    intro Hc. unfold file_post. destruct (nth j (c_disks c) None) as [d|]; [|apply pchk_refl].
    destruct (slot_at d pos) as [|f idx b|h]; try apply pchk_refl.
    destruct (negb (Nat.eqb (S idx) (length (cf_blocks f)))); [apply pchk_refl|].
    destruct (is_excl o j (cf_name f) || _); [apply pchk_refl|]. rewrite Hc.
    destruct (fl_damaged _).
    - constructor; cbn; auto. eexists. split; [reflexivity|]. constructor; [|constructor].
      destruct (co_audit o); [right; right; reflexivity | left; reflexivity].
    - destruct (fl_fixed _); [|apply pchk_refl].
      constructor; cbn; auto. eexists. split; [reflexivity|]. constructor; [right; left; reflexivity | constructor].
  Qed.
  Lemma fold_file_post_pchk o c pos : co_fix o = false -> forall js s, pchk s (fold_left (file_post o c pos) js s).
  Proof.
    intro Hc. induction js as [|j t IH]; intro s; [apply pchk_refl|]. cbn [fold_left].
    eapply pchk_trans; [apply file_post_pchk; exact Hc | apply IH].
  Qed.

  Lemma fold_fixed_only (l : list (nat * cfile * nat)) : forall s,
    let s' := fold_left (fun s x => let '(j, f, i) := x in rs_flag s (j, cf_name f) fl_set_fixed) l s in
    r_fs s' = r_fs s /\ r_par s' = r_par s /\ r_err s' = r_err s /\ r_unrec s' = r_unrec s /\ r_tags s' = r_tags s
    /\ keeps_damaged s s'.
  Proof.
    induction l as [|[[j f] i] t IH]; intro s; cbn [fold_left]; [unfold keeps_damaged; auto 10|].
    destruct (IH (rs_flag s (j, cf_name f) fl_set_fixed)) as [A [B [C [D [E F]]]]]. cbn zeta in *.
    rewrite A, B, C, D, E. do 5 (split; [reflexivity|]).
    intro k. rewrite (F k). unfold rs_flag, rs_setfl. cbn [r_flags].
    destruct (fkey_eqb (j, cf_name f) k) eqn:E0.
    - apply fkey_eqb_eq in E0. subst k. rewrite get_set_same. reflexivity.
    - rewrite get_set_other; [reflexivity|]. intro X. subst k. rewrite fkey_eqb_refl in E0. discriminate.
  Qed.

  (* ---- check locates: the whole step on a damaged (recoverable) stripe, check mode ------------------------------------- *)
  Section Locate.
    Variable o : copts.
    Variable c : content.
    Variable fs0 : list (option fsdisk).
    Variable pos : nat.
    Variable s : rstate.
    Variable v : list bid.
    Hypothesis Hplain : plain o.
    Hypothesis Hcheck : co_fix o = false.
    Hypothesis Hsync : stripe_synced c pos.
    Hypothesis Hlenfs : length (r_fs s) = length (c_disks c).
    Hypothesis Hfile : forall j f idx b, slot_of c pos j = SFile f idx b ->
         (0 < block_len bs (cf_size f) idx)%N
         /\ (forall g, fs_find (r_fs s) j (cf_name f) = Some g -> (ff_size g <= cf_size f)%N)
         /\ (co_fix o = true \/ fl_missing (get_fl (r_flags s) (j, cf_name f)) = false \/ fs_find (r_fs s) j (cf_name f) = None).
    Hypothesis Henc : enc_ok hashf bs c pos v.
    Hypothesis Hpad : forall j f idx b, slot_of c pos j = SFile f idx b -> pad_ok padz bs (vnth v j) (block_len bs (cf_size f) idx) = true.
    Hypothesis CFdata : forall j f idx b y, slot_of c pos j = SFile f idx b -> read_block bs s j f idx = Some y ->
                                          hash_ok f idx b y = true -> y = vnth v j.
    Let n := length (c_disks c).
    Let rec := map (prow (r_par s) pos) (seq 0 nlev).
    Let failed := flat_map (fent_of c pos s) (seq 0 n).
    Hypothesis CFj : cf_junk hashf padz bs failed.
    Hypothesis CFr : cf_rec hashf padz bs failed rec v.
    Hypothesis CFv : cf_vec hashf padz bs failed v.
    Hypothesis CFs : forall fsx, cf_search hashf bs (co_nosearch o) fsx failed v.
    Hypothesis Hcount : length (filter (is_bad c pos s) (seq 0 n)) <= length (filter (good_level v rec) (seq 0 nlev)).

    Lemma par_matches_veq' x y p : veq x y = true -> par_matches x p = par_matches y p.
    Proof.
      intro H. destruct p as [w|t|]; cbn; try reflexivity.
      destruct (veq x w) eqn:E1, (veq y w) eqn:E2; try reflexivity.
      - rewrite (veq_trans y x w (veq_sym _ _ H) E1) in E2. discriminate.
      - rewrite (veq_trans x y w H E2) in E1. discriminate.
    Qed.

    Theorem check_step_full :
      let s' := stripe_step hashf padz truncf bs nlev reduced newino now o c fs0 s pos in
      r_fs s' = r_fs s /\ r_par s' = r_par s /\ r_unrec s' = r_unrec s
      /\ r_err s' = r_err s + length (filter (is_bad c pos s) (seq 0 n))
                    + length (filter (fun l => is_pnone (prow (r_par s) pos l)) (seq 0 nlev))
                    + length (filter (wrong_level rec v) (seq 0 nlev))
      /\ keeps_damaged s s'
      /\ exists rtags ptags,
           r_tags s' = r_tags s ++ flat_map (tag_of o c pos s) (seq 0 n)
                       ++ map (fun l => tg K_PAR_READ [pos; l] []) (filter (fun l => is_pnone (prow (r_par s) pos l)) (seq 0 nlev))
                       ++ rtags
                       ++ map (fun l => tg K_PAR_DATA [pos; l] []) (filter (wrong_level rec v) (seq 0 nlev))
                       ++ ptags
           /\ Forall aux_tag rtags /\ Forall status_tag ptags.
    Proof.
      pose proof (data_phase_inv o c pos s Hplain Hsync Hlenfs Hfile) as I.
      set (a := data_phase hashf bs newino now o c pos s) in *.
      destruct I as [Ibuf Ifailed Ivalid Iused Icore Ierr Itags Ifs Iflags Ifsc].
      fold n in Ibuf, Ifailed, Iused, Itags. fold failed in Ifailed.
      destruct Icore as [Cpar [Cunrec [Crec [Cjn [Clen Cfl]]]]].
      destruct Henc as [Hvlen Hvenc].
      assert (Hbuflen : length (da_buf a) = n) by (rewrite Ibuf, map_length, seq_length; reflexivity).
      assert (Hbufnth : forall j, j < n -> vnth (da_buf a) j = bufval c pos s j).
      { intros j Hj. rewrite Ibuf. unfold vnth. apply nth_map_seq. exact Hj. }
      (* the failed set *)
      assert (Hfin : forall e, In e failed -> exists j, j < n /\ In e (fent_of c pos s j)).
      { intros e He. unfold failed in He. apply in_flat_map in He. destruct He as [j [Hj He]]. apply in_seq in Hj. exists j. split; [lia | exact He]. }
      assert (Hblk : blk_failed failed (da_buf a)).
      { intros e He. destruct (Hfin e He) as [j [Hj Hej]].
        destruct (fent_of_idx c pos s Hsync j e Hej) as [A [B [C [D _]]]]. repeat split; auto. rewrite A, Hbuflen. exact Hj. }
      assert (Hhv : hv_ok hashf padz bs failed v).
      { intros e He. destruct (Hfin e He) as [j [Hj Hej]].
        destruct (fent_of_idx c pos s Hsync j e Hej) as [A [_ [_ [_ [f [idx [b [Es [Ee _]]]]]]]]]. subst e. cbn.
        unfold blockcmp. specialize (Hvenc j ltac:(fold n; lia)). rewrite Es in Hvenc. cbn in Hvenc. unfold vnth. rewrite Hvenc, hval_eqb_refl. cbn.
        apply (Hpad j f idx b Es). }
      assert (Hidx : map fe_idx failed = filter (is_bad c pos s) (seq 0 n)) by (apply failed_idx_filter).
      assert (Hag : agree_out (map fe_idx failed) v (da_buf a) = true).
      { apply agree_out_spec. intros i Hi. rewrite Hidx in Hi.
        destruct (Nat.lt_ge_cases i n) as [Hin|Hin].
        - assert (Eb : is_bad c pos s i = false).
          { destruct (is_bad c pos s i) eqn:E; [|reflexivity]. exfalso. apply Hi. apply filter_In. split; [apply in_seq; lia | exact E]. }
          rewrite Hbufnth by exact Hin. unfold bufval. unfold is_bad in Eb. specialize (Hvenc i ltac:(fold n; lia)).
          destruct (slot_of c pos i) as [|f idx b|h] eqn:Es.
          + cbn in Hvenc. exact Hvenc.
          + destruct (read_block bs s i f idx) as [y|] eqn:Er; [|discriminate].
            symmetry. apply (CFdata i f idx b y Es Er). destruct (hash_ok f idx b y); [reflexivity | discriminate].
          + destruct Hsync as [Hs _]. specialize (Hs i). rewrite Es in Hs. contradiction.
        - rewrite !vnth_out by lia. reflexivity. }
      assert (Hcnt : length failed <= length (filter (good_level v rec) (seq 0 nlev))).
      { rewrite <- (map_length fe_idx), Hidx. exact Hcount. }
      (* the parity read *)
      pose proof (parity_phase_spec o pos (da_st a) (pl_popen o Hplain)) as Epp. rewrite Cpar in Epp. fold rec in Epp.
      (* repair *)
      destruct (repair_restores hashf padz bs nlev reduced pos (co_nosearch o) (search_view fs0 (r_fs (da_st a))) failed rec v (da_buf a)
                  (r_jn (da_st a)) Hblk Hhv CFj CFr CFv (CFs _) Hag Hcnt) as [buf' [jn' [rtags [Erep [Hfl1 Hfl2]]]]].
      cbn zeta.
      erewrite (stripe_step_ok o c fs0 pos s rec _ failed buf' jn' rtags); [| exact (pl_audit o Hplain) | fold a; exact Epp | fold a; rewrite Ifailed; cbn [r_jn r_fs]; exact Erep].
      fold a. rewrite Iused, Ivalid.
      assert (Eu : existsb (fun j => slot_has_file (slot_of c pos j)) (seq 0 n) = true).
      { destruct Hsync as [_ [j Hj]]. apply existsb_exists. exists j. split; [|exact Hj].
        apply in_seq. destruct (Nat.lt_ge_cases j n) as [H|H]; [lia|]. rewrite slot_of_out in Hj by exact H. discriminate. }
      rewrite Eu. unfold ok_body. cbn [andb].
      assert (Epart : filter (fun e => fe_bad e && fe_ood e) failed = []).
      { apply filter_nil. intros e He. destruct (Hblk e He) as [_ [Ho _]]. rewrite Ho. apply andb_false_r. }
      rewrite Epart. cbn [fold_left]. rewrite Hcheck. rewrite compare_phase_spec.
      pose proof (repair_tags pos (co_nosearch o) (search_view fs0 (r_fs (da_st a))) failed rec (da_buf a) (r_jn (da_st a))) as Hrt. rewrite Erep in Hrt. cbn [snd] in Hrt.
      assert (Hfull : forall j, j < n -> vnth buf' j = vnth v j) by (intros j Hj; apply Hfl2; rewrite Hbuflen; exact Hj).
      assert (Hveq : veq v buf' = true).
      { apply veq_spec. intro i. destruct (Nat.lt_ge_cases i n) as [H|H]; [symmetry; apply Hfull; exact H|].
        rewrite !vnth_out; [reflexivity | destruct Hfl1; lia | lia]. }
      assert (Ewl : filter (wrong_level rec buf') (seq 0 nlev) = filter (wrong_level rec v) (seq 0 nlev)).
      { apply filter_ext. intro l. unfold wrong_level. rewrite (par_matches_veq' v buf' _ Hveq). reflexivity. }
      rewrite Ewl.
      match goal with |- context [fold_left _ (bad_files failed) ?st] => set (s5 := st) end.
      destruct (fold_fixed_only (bad_files failed) s5) as [X1 [X2 [X3 [X4 [X5 X6]]]]]. cbn zeta in X1, X2, X3, X4, X5, X6.
      set (s6 := fold_left (fun s x => let '(j, f, i) := x in rs_flag s (j, cf_name f) fl_set_fixed) (bad_files failed) s5) in *.
      destruct (fold_file_post_pchk o c pos Hcheck (seq 0 (length (c_disks c))) s6) as [Q1 Q2 Q3 Q4 Q5 [ptags [Q6 Q7]]].
      set (s8 := fold_left (file_post o c pos) (seq 0 (length (c_disks c))) s6) in *.
      assert (Elen : length failed = length (filter (is_bad c pos s) (seq 0 n))) by (rewrite <- (map_length fe_idx), Hidx; reflexivity).
      split; [rewrite Q1, X1; unfold s5; cbn [r_fs]; apply Ifsc; exact Hcheck|].
      split; [rewrite Q2, X2; unfold s5; cbn [r_par]; reflexivity|].
      split; [rewrite Q4, X4; unfold s5; cbn [r_unrec]; exact Cunrec|].
      split; [rewrite Q3, X3; unfold s5; cbn [r_err rs_tag rs_setjn]; rewrite Ierr, Ifailed; fold n; fold failed; rewrite Elen, ?map_length; lia|].
      split; [intro k; rewrite Q5, (X6 k); unfold s5; cbn [r_flags rs_tag rs_setjn]; apply Cfl|].
      exists rtags, ptags. split; [|split; [exact Hrt | exact Q7]].
      rewrite Q6, X5. unfold s5. cbn [r_tags rs_tag rs_setjn]. rewrite Itags. fold n. rewrite <- !app_assoc. reflexivity.
    Qed.
  End Locate.
End Phases.
