(* Proofs about the stripe step of FixModel.v: the loop over the disks (data_phase), the parity comparison, the write-back
   of recovered blocks and parity, for stripes whose blocks are all BLK. *)
From Coq Require Import NArith ZArith List Bool Arith Lia.
From Snap.Array Require Import ArrayDefs SyncProofsDefs.
From Snap.Fix Require Import FixModel RepairProofs.
Import ListNotations.
Local Opaque JBASE.

(* ---------------------------------------------------------------------------------------------------------- *)
(* flags, file system                                                                                           *)
(* ---------------------------------------------------------------------------------------------------------- *)
Lemma fkey_eqb_eq a b : fkey_eqb a b = true <-> a = b.
Proof.
  destruct a as [a1 a2], b as [b1 b2]. unfold fkey_eqb. simpl. rewrite andb_true_iff, Nat.eqb_eq, N.eqb_eq.
  split; [intros [H1 H2]; congruence | intro H; injection H; auto].
Qed.
Lemma fkey_eqb_refl a : fkey_eqb a a = true.
Proof. apply fkey_eqb_eq. reflexivity. Qed.
Lemma fkey_eqb_neq a b : a <> b -> fkey_eqb a b = false.
Proof. intro H. destruct (fkey_eqb a b) eqn:E; [apply fkey_eqb_eq in E; contradiction | reflexivity]. Qed.

Lemma get_set_same fl k v : get_fl (set_fl fl k v) k = v.
Proof. unfold get_fl, set_fl. simpl. rewrite fkey_eqb_refl. reflexivity. Qed.
Lemma find_filter_neq (fl : flags) k k' :
  k' <> k -> find (fun x => fkey_eqb (fst x) k') (filter (fun x => negb (fkey_eqb (fst x) k)) fl) = find (fun x => fkey_eqb (fst x) k') fl.
Proof.
  intro H. induction fl as [|[a v] t IH]; simpl; [reflexivity|].
  destruct (fkey_eqb a k) eqn:E1; simpl.
  - apply fkey_eqb_eq in E1. subst a. rewrite (fkey_eqb_neq k k') by congruence. exact IH.
  - destruct (fkey_eqb a k'); [reflexivity | exact IH].
Qed.
Lemma get_set_other fl k k' v : k' <> k -> get_fl (set_fl fl k v) k' = get_fl fl k'.
Proof.
  intro H. unfold get_fl, set_fl. simpl. rewrite (fkey_eqb_neq k k') by congruence.
  rewrite find_filter_neq by exact H. reflexivity.
Qed.

Lemma mapi_nth_opt {A B} (f : nat -> A -> B) l i (da : A) (db : B) :
  nth i (mapi f l) db = if (i <? length l) then f i (nth i l da) else db.
Proof.
  destruct (i <? length l) eqn:E.
  - apply Nat.ltb_lt in E. apply mapi_nth. exact E.
  - apply Nat.ltb_ge in E. apply nth_overflow. rewrite mapi_length. exact E.
Qed.

Lemma find_fs_filter_neq name name' (d : fsdisk) :
  name' <> name -> find_fs name' (filter (fun x => negb (N.eqb (ff_name x) name)) d) = find_fs name' d.
Proof.
  intro H. unfold find_fs. induction d as [|g t IH]; simpl; [reflexivity|].
  destruct (N.eqb (ff_name g) name) eqn:E1; simpl.
  - apply N.eqb_eq in E1. rewrite E1. destruct (N.eqb name name') eqn:E2; [apply N.eqb_eq in E2; congruence | exact IH].
  - destruct (N.eqb (ff_name g) name'); [reflexivity | exact IH].
Qed.

Lemma fs_find_put_same fs j g : j < length fs -> fs_find (fs_put fs j g) j (ff_name g) = Some g.
Proof.
  intro H. unfold fs_find, fs_put. rewrite (mapi_nth_opt _ fs j None None).
  apply Nat.ltb_lt in H. rewrite H, Nat.eqb_refl. unfold find_fs. simpl. rewrite N.eqb_refl. reflexivity.
Qed.
Lemma fs_find_put_other fs j g j' n' : (j', n') <> (j, ff_name g) -> fs_find (fs_put fs j g) j' n' = fs_find fs j' n'.
Proof.
  intro H. unfold fs_find, fs_put. rewrite (mapi_nth_opt _ fs j' None None).
  destruct (j' <? length fs) eqn:E.
  - destruct (Nat.eqb j' j) eqn:Ej; [|reflexivity].
    apply Nat.eqb_eq in Ej. subst j'.
    assert (Hn : n' <> ff_name g) by congruence.
    destruct (nth j fs None) as [d|]; simpl.
    + unfold find_fs at 1. simpl. destruct (N.eqb (ff_name g) n') eqn:E2; [apply N.eqb_eq in E2; congruence|].
      apply find_fs_filter_neq. exact Hn.
    + unfold find_fs. simpl. destruct (N.eqb (ff_name g) n') eqn:E2; [apply N.eqb_eq in E2; congruence | reflexivity].
  - apply Nat.ltb_ge in E. rewrite (nth_overflow fs None E). reflexivity.
Qed.
Lemma fs_put_length fs j g : length (fs_put fs j g) = length fs.
Proof. apply mapi_length. Qed.

(* ---------------------------------------------------------------------------------------------------------- *)
(* the comparison of the parity read with the computed one                                                      *)
(* ---------------------------------------------------------------------------------------------------------- *)
Section Phases.
  Variable hashf : bid -> N -> hval.
  Variable padz : bid -> N -> bool.
  Variable truncf : bid -> N -> bid.
  Variable bs : N.
  Variable nlev : nat.
  Variable reduced : bool.
  Variable newino : nat -> N -> N.
  Variable now : Z.

  Definition wrong_level (rec : list penc) (buf : list bid) (l : nat) : bool :=
    negb (is_pnone (nth l rec PNone)) && negb (par_matches buf (nth l rec PNone)).

  Lemma compare_fold pos rec buf : forall ls r st,
    fold_left (fun (acc : list penc * rstate) l =>
                 let '(r, st) := acc in
                 let p := nth l rec PNone in
                 if negb (is_pnone p) && negb (par_matches buf p)
                 then (r ++ [PNone], rs_err (rs_tag st [tg K_PAR_DATA [pos; l] []]) 1)
                 else (r ++ [p], st)) ls (r, st)
    = (r ++ map (fun l => if wrong_level rec buf l then PNone else nth l rec PNone) ls,
       mkRS (r_fs st) (r_flags st) (r_par st) (r_err st + length (filter (wrong_level rec buf) ls)) (r_rec st) (r_unrec st)
            (r_tags st ++ map (fun l => tg K_PAR_DATA [pos; l] []) (filter (wrong_level rec buf) ls)) (r_jn st)).
  Proof.
    induction ls as [|l t IH]; intros r st.
    - simpl. rewrite !app_nil_r, Nat.add_0_r. destruct st; reflexivity.
    - cbn [fold_left].
      change (negb (is_pnone (nth l rec PNone)) && negb (par_matches buf (nth l rec PNone))) with (wrong_level rec buf l).
      cbn [filter map]. destruct (wrong_level rec buf l) eqn:E; rewrite IH; cbn; rewrite <- !app_assoc; cbn.
      + f_equal. f_equal. lia.
      + reflexivity.
  Qed.

  (* the exact result of compare_phase: the list of parity blocks still usable, one tag and one error per wrong level *)
  Lemma compare_phase_spec pos rec buf s :
    compare_phase nlev pos rec buf s
    = (map (fun l => if wrong_level rec buf l then PNone else nth l rec PNone) (seq 0 nlev),
       mkRS (r_fs s) (r_flags s) (r_par s) (r_err s + length (filter (wrong_level rec buf) (seq 0 nlev))) (r_rec s) (r_unrec s)
            (r_tags s ++ map (fun l => tg K_PAR_DATA [pos; l] []) (filter (wrong_level rec buf) (seq 0 nlev))) (r_jn s)).
  Proof. unfold compare_phase. rewrite compare_fold. reflexivity. Qed.

  (* ---- reading the parity --------------------------------------------------------------------------------- *)
  Definition prow (par : parity) (pos l : nat) : penc := nth pos (nth l par []) PNone.

  Lemma parity_fold o pos par : forall ls r st,
    (forall l, In l ls -> nth l (co_popen o) false = true) -> r_par st = par ->
    fold_left (fun (acc : list penc * rstate) l =>
                 let '(r, st) := acc in
                 if nth l (co_popen o) false then
                   match nth pos (nth l (r_par st) []) PNone with
                   | PNone => (r ++ [PNone], rs_err (rs_tag st [tg K_PAR_READ [pos; l] []]) 1)
                   | p => (r ++ [p], st)
                   end
                 else (r ++ [PNone], st)) ls (r, st)
    = (r ++ map (prow par pos) ls,
       mkRS (r_fs st) (r_flags st) (r_par st) (r_err st + length (filter (fun l => is_pnone (prow par pos l)) ls)) (r_rec st) (r_unrec st)
            (r_tags st ++ map (fun l => tg K_PAR_READ [pos; l] []) (filter (fun l => is_pnone (prow par pos l)) ls)) (r_jn st)).
  Proof.
    induction ls as [|l t IH]; intros r st Hop Hpar; subst par.
    - simpl. rewrite !app_nil_r, Nat.add_0_r. destruct st; reflexivity.
    - cbn [fold_left]. rewrite (Hop l (or_introl eq_refl)). fold (prow (r_par st) pos l).
      cbn [filter map]. destruct (prow (r_par st) pos l) eqn:E; cbn [is_pnone];
        (rewrite IH; [| intros l' Hl'; apply Hop; right; exact Hl' | reflexivity]); cbn; rewrite <- !app_assoc; cbn; try reflexivity.
      f_equal. f_equal. lia.
  Qed.

  Lemma parity_phase_spec o pos s :
    (forall l, l < nlev -> nth l (co_popen o) false = true) ->
    parity_phase nlev o pos s
    = (map (prow (r_par s) pos) (seq 0 nlev),
       mkRS (r_fs s) (r_flags s) (r_par s) (r_err s + length (filter (fun l => is_pnone (prow (r_par s) pos l)) (seq 0 nlev))) (r_rec s) (r_unrec s)
            (r_tags s ++ map (fun l => tg K_PAR_READ [pos; l] []) (filter (fun l => is_pnone (prow (r_par s) pos l)) (seq 0 nlev))) (r_jn s)).
  Proof.
    intro H. unfold parity_phase. rewrite (parity_fold o pos (r_par s)); [reflexivity | | reflexivity].
    intros l Hl. apply H. apply in_seq in Hl. lia.
  Qed.

  (* ---- rewriting the parity --------------------------------------------------------------------------------- *)
  Definition pw_cond (o : copts) (rec2 : list penc) (l : nat) : bool :=
    is_pnone (nth l rec2 PNone) && nth l (co_popen o) false && negb (nth l (co_pexcl o) false).

  Lemma prow_mapi_set par pos buf l l' :
    prow (mapi (fun k lv => if Nat.eqb k l then set_ext PNone pos (PEnc buf) lv else lv) par) pos l'
    = if Nat.eqb l' l && (l' <? length par) then PEnc buf else prow par pos l'.
  Proof.
    unfold prow. rewrite (mapi_nth_opt _ par l' [] []).
    destruct (l' <? length par) eqn:E.
    - destruct (Nat.eqb l' l); simpl; [apply nth_set_ext_same | reflexivity].
    - rewrite andb_false_r. apply Nat.ltb_ge in E. rewrite (nth_overflow par [] E). reflexivity.
  Qed.
  Lemma prow_mapi_set_other par pos buf l l' p : p <> pos ->
    nth p (nth l' (mapi (fun k lv => if Nat.eqb k l then set_ext PNone pos (PEnc buf) lv else lv) par) []) PNone = nth p (nth l' par []) PNone.
  Proof.
    intro Hp. rewrite (mapi_nth_opt _ par l' [] []).
    destruct (l' <? length par) eqn:E; [|apply Nat.ltb_ge in E; rewrite (nth_overflow par [] E); reflexivity].
    destruct (Nat.eqb l' l); [apply nth_set_ext_other; exact Hp | reflexivity].
  Qed.

  Lemma parity_write_fold o pos rec2 buf : forall ls s,
    NoDup ls ->
    let s' := fold_left (fun s l =>
                 if is_pnone (nth l rec2 PNone) && nth l (co_popen o) false && negb (nth l (co_pexcl o) false)
                 then rs_recov (rs_tag (rs_setpar s (mapi (fun k lv => if Nat.eqb k l then set_ext PNone pos (PEnc buf) lv else lv) (r_par s)))
                                       [tg K_PAR_FIXED [pos; l] []]) 1
                 else s) ls s in
    r_fs s' = r_fs s /\ r_flags s' = r_flags s /\ r_unrec s' = r_unrec s /\ r_err s' = r_err s /\ r_jn s' = r_jn s
    /\ length (r_par s') = length (r_par s)
    /\ (forall l', prow (r_par s') pos l' = if memn l' ls && pw_cond o rec2 l' && (l' <? length (r_par s)) then PEnc buf else prow (r_par s) pos l')
    /\ (forall l' p, p <> pos -> nth p (nth l' (r_par s') []) PNone = nth p (nth l' (r_par s) []) PNone).
  Proof.
    induction ls as [|l t IH]; intros s Hnd; cbn [fold_left].
    - repeat split; auto.
    - apply NoDup_cons_iff in Hnd. destruct Hnd as [Hnin Hnd].
      fold (pw_cond o rec2 l). destruct (pw_cond o rec2 l) eqn:Ec.
      + specialize (IH (rs_recov (rs_tag (rs_setpar s (mapi (fun k lv => if Nat.eqb k l then set_ext PNone pos (PEnc buf) lv else lv) (r_par s)))
                                       [tg K_PAR_FIXED [pos; l] []]) 1) Hnd).
        cbn zeta in IH. destruct IH as [A [B [C [D [E [F [G H]]]]]]]. cbn in A, B, C, D, E, F.
        repeat split; auto.
        * rewrite F. cbn. apply mapi_length.
        * intro l'. rewrite G. cbn [r_par rs_recov rs_tag rs_setpar]. rewrite mapi_length. rewrite prow_mapi_set.
          cbn [memn existsb]. destruct (Nat.eqb l' l) eqn:El.
          -- apply Nat.eqb_eq in El. subst l'. rewrite Ec.
             assert (Em : memn l t = false) by (apply memn_false; exact Hnin). rewrite Em. simpl.
             destruct (l <? length (r_par s)); reflexivity.
          -- simpl. unfold memn. reflexivity.
        * intros l' p Hp. rewrite H by exact Hp. cbn [r_par rs_recov rs_tag rs_setpar]. apply prow_mapi_set_other. exact Hp.
      + specialize (IH s Hnd). cbn zeta in IH. destruct IH as [A [B [C [D [E [F [G H]]]]]]].
        repeat split; auto.
        intro l'. rewrite G. cbn [memn existsb]. destruct (Nat.eqb l' l) eqn:El.
        * apply Nat.eqb_eq in El. subst l'. rewrite Ec.
          assert (Em : memn l t = false) by (apply memn_false; exact Hnin). rewrite Em. reflexivity.
        * simpl. unfold memn. reflexivity.
  Qed.

  (* ---- options without filters ------------------------------------------------------------------------------ *)
  Record plain (o : copts) : Prop := {
    pl_audit : co_audit o = false;
    pl_badfile : co_badfile o = false;
    pl_synced : co_syncedonly o = false;
    pl_excl : co_excl o = [];
    pl_popen : forall l, l < nlev -> nth l (co_popen o) false = true;
    pl_pexcl : forall l, nth l (co_pexcl o) false = false
  }.
  Lemma plain_not_excl o j name : plain o -> is_excl o j name = false.
  Proof. intro H. unfold is_excl. rewrite (pl_excl o H). reflexivity. Qed.

  (* ---- opening a file ----------------------------------------------------------------------------------------- *)
  (* what open_step never touches *)
  Definition same_core (s s' : rstate) : Prop :=
    r_par s' = r_par s /\ r_unrec s' = r_unrec s /\ r_rec s' = r_rec s /\ r_jn s' = r_jn s /\ r_err s' = r_err s /\ r_tags s' = r_tags s
    /\ length (r_fs s') = length (r_fs s)
    /\ (forall k, fl_damaged (get_fl (r_flags s') k) = fl_damaged (get_fl (r_flags s) k)
                  /\ fl_fixed (get_fl (r_flags s') k) = fl_fixed (get_fl (r_flags s) k)
                  /\ fl_finished (get_fl (r_flags s') k) = fl_finished (get_fl (r_flags s) k)).

  Lemma rs_flag_keeps s k (g : fflags -> fflags) :
    (forall f, fl_damaged (g f) = fl_damaged f /\ fl_fixed (g f) = fl_fixed f /\ fl_finished (g f) = fl_finished f) ->
    forall k', fl_damaged (get_fl (r_flags (rs_flag s k g)) k') = fl_damaged (get_fl (r_flags s) k')
               /\ fl_fixed (get_fl (r_flags (rs_flag s k g)) k') = fl_fixed (get_fl (r_flags s) k')
               /\ fl_finished (get_fl (r_flags (rs_flag s k g)) k') = fl_finished (get_fl (r_flags s) k').
  Proof.
    intros Hg k'. unfold rs_flag, rs_setfl. cbn [r_flags].
    destruct (fkey_eqb k k') eqn:E.
    - apply fkey_eqb_eq in E. subst k'. rewrite get_set_same. apply Hg.
    - rewrite get_set_other; [auto|]. intro H. subst k'. rewrite fkey_eqb_refl in E. discriminate.
  Qed.
  Lemma keeps_opened f : fl_damaged (fl_set_opened f) = fl_damaged f /\ fl_fixed (fl_set_opened f) = fl_fixed f /\ fl_finished (fl_set_opened f) = fl_finished f.
  Proof. auto. Qed.
  Lemma keeps_unsynced f : fl_damaged (fl_set_unsynced f) = fl_damaged f /\ fl_fixed (fl_set_unsynced f) = fl_fixed f /\ fl_finished (fl_set_unsynced f) = fl_finished f.
  Proof. auto. Qed.
  Lemma keeps_created f : fl_damaged (fl_set_created f) = fl_damaged f /\ fl_fixed (fl_set_created f) = fl_fixed f /\ fl_finished (fl_set_created f) = fl_finished f.
  Proof. auto. Qed.
  Lemma keeps_missing f : fl_damaged (fl_set_missing f) = fl_damaged f /\ fl_fixed (fl_set_missing f) = fl_fixed f /\ fl_finished (fl_set_missing f) = fl_finished f.
  Proof. auto. Qed.

  (* the file is there and not larger than recorded: opening changes flags only *)
  Lemma open_present o pos j f s g :
    plain o -> fs_find (r_fs s) j (cf_name f) = Some g -> (ff_size g <= cf_size f)%N ->
    (co_fix o = true \/ fl_missing (get_fl (r_flags s) (j, cf_name f)) = false) ->
    exists s4, open_step bs newino now o pos j f s = Some s4 /\ r_fs s4 = r_fs s /\ same_core s s4.
  Proof.
    intros Hp Hf Hsz Hm. unfold open_step. rewrite (plain_not_excl o j _ Hp), Hf, (pl_synced o Hp).
    assert (E0 : negb (co_fix o && negb false) && (fl_missing (get_fl (r_flags s) (j, cf_name f)) || negb true) = false).
    { destruct Hm as [Hm|Hm]; rewrite Hm; simpl; [reflexivity | destruct (co_fix o); reflexivity]. }
    rewrite E0. rewrite Hf.
    assert (El : (cf_size f <? ff_size g)%N = false) by (apply N.ltb_ge; exact Hsz).
    rewrite El. rewrite !andb_false_r.
    eexists. split; [reflexivity|]. split.
    - destruct (negb (fl_opened _) && negb false && _); reflexivity.
    - unfold same_core.
      destruct (negb (fl_opened (get_fl (r_flags s) (j, cf_name f))) && negb false &&
                (negb (ff_size g =? cf_size f)%N || negb (ff_mtime g =? cf_mtime f)%Z || negb (ff_nsec g =? cf_nsec f)%Z));
        cbn; repeat split; auto; intros;
        try (apply (rs_flag_keeps _ _ _ keeps_opened));
        try (destruct (rs_flag_keeps (rs_flag s (j, cf_name f) fl_set_unsynced) (j, cf_name f) _ keeps_opened k) as [A [B C]];
             destruct (rs_flag_keeps s (j, cf_name f) _ keeps_unsynced k) as [A' [B' C']]; cbn in *; congruence).
  Qed.

  (* the file is not there: fix creates it empty, check fails to open it *)
  Lemma open_absent_fix o pos j f s :
    plain o -> co_fix o = true -> fs_find (r_fs s) j (cf_name f) = None -> j < length (r_fs s) ->
    exists s4, open_step bs newino now o pos j f s = Some s4
               /\ r_fs s4 = fs_put (r_fs s) j (mkFF (cf_name f) 0 now 0 (newino j (cf_name f)) []) /\ same_core s s4.
  Proof.
    intros Hp Hfix Hf Hj. unfold open_step. rewrite (plain_not_excl o j _ Hp), Hf, (pl_synced o Hp), Hfix.
    cbn [negb andb orb]. cbn [r_fs rs_flag rs_setfs rs_setfl].
    rewrite fs_find_put_same by exact Hj.
    cbn [ff_size ff_mtime ff_nsec ff_inode ff_blocks].
    assert (El : (cf_size f <? 0)%N = false) by (apply N.ltb_ge; lia).
    rewrite El. rewrite !andb_false_r.
    eexists. split; [reflexivity|]. split.
    - match goal with |- context [if ?c then _ else _] => destruct c end; reflexivity.
    - unfold same_core.
      match goal with |- context [if ?c then _ else _] => destruct c end;
        cbn; repeat split; auto; try (apply fs_put_length); intros;
        repeat match goal with
               | |- context [get_fl (set_fl ?fl ?k ?v) ?k'] =>
                   let E := fresh "E" in destruct (fkey_eqb k k') eqn:E;
                   [apply fkey_eqb_eq in E; subst; rewrite get_set_same
                   | rewrite (get_set_other fl k k' v) by (intro X; subst; rewrite fkey_eqb_refl in E; discriminate)]
               end; cbn; auto.
  Qed.
  Lemma open_absent_check o pos j f s :
    plain o -> co_fix o = false -> fs_find (r_fs s) j (cf_name f) = None ->
    open_step bs newino now o pos j f s = None.
  Proof.
    intros Hp Hfix Hf. unfold open_step. rewrite (plain_not_excl o j _ Hp), Hf, Hfix. cbn. rewrite orb_true_r. reflexivity.
  Qed.

  Lemma rs_flag_other s k g k' : k' <> k -> get_fl (r_flags (rs_flag s k g)) k' = get_fl (r_flags s) k'.
  Proof. intro H. unfold rs_flag, rs_setfl. cbn [r_flags]. apply get_set_other. exact H. Qed.

  Lemma open_step_other_flags o pos j f s s4 k' :
    open_step bs newino now o pos j f s = Some s4 -> k' <> (j, cf_name f) -> get_fl (r_flags s4) k' = get_fl (r_flags s) k'.
  Proof.
    intros H Hk. unfold open_step in H.
    destruct (negb (co_fix o && negb (is_excl o j (cf_name f))) && _) in H; [discriminate|].
    match type of H with match ?x with Some _ => _ | None => _ end = _ => destruct x as [g0|]; [|discriminate] end.
    injection H as H. subst s4.
    rewrite rs_flag_other by exact Hk.
    repeat match goal with
           | |- context [if ?c then _ else _] => destruct c
           end; cbn [r_flags rs_recov rs_tag rs_setfs rs_err rs_flag rs_setfl]; 
      repeat (rewrite get_set_other by exact Hk); reflexivity.
  Qed.

  (* ---- one disk of the stripe --------------------------------------------------------------------------------- *)
  Definition core2 (s s' : rstate) : Prop :=
    r_par s' = r_par s /\ r_unrec s' = r_unrec s /\ r_rec s' = r_rec s /\ r_jn s' = r_jn s
    /\ length (r_fs s') = length (r_fs s)
    /\ (forall k, fl_damaged (get_fl (r_flags s') k) = fl_damaged (get_fl (r_flags s) k)
                  /\ fl_fixed (get_fl (r_flags s') k) = fl_fixed (get_fl (r_flags s) k)
                  /\ fl_finished (get_fl (r_flags s') k) = fl_finished (get_fl (r_flags s) k)).
  Lemma same_core_core2 s s' : same_core s s' -> core2 s s'.
  Proof. unfold same_core, core2. tauto. Qed.
  Lemma core2_refl s : core2 s s.
  Proof. unfold core2. repeat split; auto. Qed.
  Lemma core2_trans s1 s2 s3 : core2 s1 s2 -> core2 s2 s3 -> core2 s1 s3.
  Proof.
    unfold core2. intros [A1 [A2 [A3 [A4 [A5 A6]]]]] [B1 [B2 [B3 [B4 [B5 B6]]]]].
    repeat split; try congruence; destruct (A6 k) as [X [Y Z]]; destruct (B6 k) as [X' [Y' Z']]; congruence.
  Qed.
  Lemma core2_err_tag s n t : core2 s (rs_err (rs_tag s t) n).
  Proof. unfold core2. cbn. repeat split; auto. Qed.

  Definition ent (j : nat) (f : cfile) (idx : nat) (b : fblock) (bad : bool) : fent :=
    mkFE bad false j (Some (fb_state b)) (fb_hash b) (Some (f, idx)).

  (* what one step of the loop over the disks does at a BLK block *)
  Record step_out (o : copts) (pos j : nat) (f : cfile) (idx : nat) (b : fblock) (s : rstate) (x : bid) (fe : list fent) (s' : rstate) : Prop := {
    so_core : core2 s s';
    so_other : forall j' n', (j', n') <> (j, cf_name f) -> fs_find (r_fs s') j' n' = fs_find (r_fs s) j' n';
    so_flags : forall k', k' <> (j, cf_name f) -> get_fl (r_flags s') k' = get_fl (r_flags s) k';
    so_read :
      match read_block bs s j f idx with
      | Some y =>
          x = y /\ r_fs s' = r_fs s
          /\ (if hval_eqb (hashf y (block_len bs (cf_size f) idx)) (fb_hash b)
              then fe = [] /\ r_tags s' = r_tags s /\ r_err s' = r_err s
              else fe = [ent j f idx b true] /\ r_tags s' = r_tags s ++ [tg K_ERR_DATA [pos; j] [cf_name f; N.of_nat idx]] /\ r_err s' = r_err s + 1)
      | None =>
          x = 0%N /\ fe = [ent j f idx b true] /\ r_err s' = r_err s + 1
          /\ r_tags s' = r_tags s ++ [tg (if co_fix o || match fs_find (r_fs s) j (cf_name f) with Some _ => true | None => false end then K_ERR_READ else K_ERR_OPEN)
                                           [pos; j] [cf_name f; N.of_nat idx]]
          /\ (co_fix o = false -> r_fs s' = r_fs s)
          /\ (co_fix o = true ->
              match fs_find (r_fs s) j (cf_name f) with
              | Some g => r_fs s' = r_fs s
              | None => r_fs s' = fs_put (r_fs s) j (mkFF (cf_name f) 0 now 0 (newino j (cf_name f)) [])
              end)
      end
  }.

  Lemma read_block_same_fs s s' j f idx : r_fs s' = r_fs s -> read_block bs s' j f idx = read_block bs s j f idx.
  Proof. intro H. unfold read_block. rewrite H. reflexivity. Qed.

  Lemma data_step_blk o c pos a j d f idx b :
    plain o -> nth j (c_disks c) None = Some d -> slot_at d pos = SFile f idx b -> fb_state b = SBlk ->
    j < length (r_fs (da_st a)) ->
    (forall g, fs_find (r_fs (da_st a)) j (cf_name f) = Some g -> (ff_size g <= cf_size f)%N) ->
    (co_fix o = true \/ fl_missing (get_fl (r_flags (da_st a)) (j, cf_name f)) = false) ->
    (0 < block_len bs (cf_size f) idx)%N ->
    exists s' x fe,
      data_step hashf bs newino now o c pos a j = mkDA (da_buf a ++ [x]) (da_failed a ++ fe) (da_valid a) true s'
      /\ step_out o pos j f idx b (da_st a) x fe s'.
  Proof.
    intros Hp Hd Hs Hst Hj Hsz Hm Hlen.
    unfold data_step. rewrite Hd, Hs, (pl_audit o Hp). cbn [andb]. rewrite Hst. cbn [bstate_eqb]. rewrite andb_true_r.
    set (s := da_st a).
    destruct (fs_find (r_fs s) j (cf_name f)) as [g|] eqn:Ef.
    - (* present *)
      destruct (open_present o pos j f s g Hp Ef (Hsz g Ef) Hm) as [s4 [Eo [Efs Hc]]].
      pose proof (open_step_other_flags o pos j f s s4) as Hfl.
      fold s. rewrite Eo. rewrite (read_block_same_fs s s4 j f idx Efs).
      destruct (read_block bs s j f idx) as [y|] eqn:Er.
      + destruct (hval_eqb (hashf y (block_len bs (cf_size f) idx)) (fb_hash b)) eqn:Eh.
        * exists s4, y, []. split; [rewrite app_nil_r; reflexivity|].
          constructor; [apply same_core_core2; exact Hc | intros; rewrite Efs; reflexivity | intros k' Hk; apply Hfl; auto |].
          rewrite Er. rewrite Eh. destruct Hc as [_ [_ [_ [_ [He [Ht _]]]]]]. auto.
        * eexists _, y, [ent j f idx b true]. split; [unfold ent; rewrite Hst; reflexivity|].
          constructor.
          -- eapply core2_trans; [apply same_core_core2; exact Hc | apply core2_err_tag].
          -- intros. cbn. rewrite Efs. reflexivity.
          -- intros k' Hk. cbn. apply Hfl; auto.
          -- rewrite Er, Eh. cbn. destruct Hc as [_ [_ [_ [_ [He [Ht _]]]]]]. rewrite He, Ht. auto.
      + eexists _, 0%N, [ent j f idx b true]. split; [unfold ent; rewrite Hst; reflexivity|].
        constructor.
        -- eapply core2_trans; [apply same_core_core2; exact Hc | apply core2_err_tag].
        -- intros. cbn. rewrite Efs. reflexivity.
        -- intros k' Hk. cbn. apply Hfl; auto.
        -- rewrite Er. cbn. destruct Hc as [_ [_ [_ [_ [He [Ht _]]]]]]. rewrite He, Ht. rewrite Ef, orb_true_r.
           repeat split; auto.
    - (* absent *)
      assert (Er : read_block bs s j f idx = None) by (unfold read_block; rewrite Ef; reflexivity).
      destruct (co_fix o) eqn:Efix.
      + destruct (open_absent_fix o pos j f s Hp Efix Ef Hj) as [s4 [Eo [Efs Hc]]].
        pose proof (open_step_other_flags o pos j f s s4) as Hfl.
        fold s. rewrite Eo.
        assert (Er4 : read_block bs s4 j f idx = None).
        { unfold read_block. rewrite Efs. rewrite fs_find_put_same by exact Hj. cbn [ff_size].
          assert (E : (0 <? N.of_nat idx * bs + block_len bs (cf_size f) idx)%N = true) by (apply N.ltb_lt; lia).
          rewrite E. reflexivity. }
        rewrite Er4.
        eexists _, 0%N, [ent j f idx b true]. split; [unfold ent; rewrite Hst; reflexivity|].
        constructor.
        -- eapply core2_trans; [apply same_core_core2; exact Hc | apply core2_err_tag].
        -- intros j' n' Hne. cbn. rewrite Efs. apply fs_find_put_other. exact Hne.
        -- intros k' Hk. cbn. apply Hfl; auto.
        -- rewrite Er. cbn. destruct Hc as [_ [_ [_ [_ [He [Ht _]]]]]]. rewrite He, Ht. rewrite Efix. cbn [orb].
           repeat split; auto; [intro X; discriminate X | intros _; rewrite Ef; exact Efs].
      + fold s. rewrite (open_absent_check o pos j f s Hp Efix Ef).
        eexists _, 0%N, [ent j f idx b true]. split; [unfold ent; rewrite Hst; reflexivity|].
        constructor.
        -- eapply core2_trans; [|apply core2_err_tag]. unfold core2. cbn. repeat split; auto; apply (rs_flag_keeps _ _ _ keeps_missing).
        -- intros. reflexivity.
        -- intros k' Hk. cbn. apply rs_flag_other. exact Hk.
        -- rewrite Er. cbn. rewrite Efix, Ef. cbn [orb]. repeat split; auto. intro X; discriminate X.
  Qed.

  (* ---- the loop over the disks ---------------------------------------------------------------------------------- *)
  Section DataPhase.
    Variable o : copts.
    Variable c : content.
    Variable pos : nat.
    Variable s : rstate.
    Hypothesis Hplain : plain o.
    Hypothesis Hsync : stripe_synced c pos.
    Hypothesis Hlenfs : length (r_fs s) = length (c_disks c).
    Hypothesis Hfile : forall j f idx b, slot_of c pos j = SFile f idx b ->
         (0 < block_len bs (cf_size f) idx)%N
         /\ (forall g, fs_find (r_fs s) j (cf_name f) = Some g -> (ff_size g <= cf_size f)%N)
         /\ (co_fix o = true \/ fl_missing (get_fl (r_flags s) (j, cf_name f)) = false).

    Definition hash_ok (f : cfile) (idx : nat) (b : fblock) (y : bid) : bool := hval_eqb (hashf y (block_len bs (cf_size f) idx)) (fb_hash b).
    Definition is_bad (j : nat) : bool :=
      match slot_of c pos j with
      | SFile f idx b => match read_block bs s j f idx with Some y => negb (hash_ok f idx b y) | None => true end
      | _ => false end.
    Definition bufval (j : nat) : bid :=
      match slot_of c pos j with
      | SFile f idx b => match read_block bs s j f idx with Some y => y | None => 0%N end
      | _ => 0%N end.
    Definition fent_of (j : nat) : list fent :=
      match slot_of c pos j with SFile f idx b => if is_bad j then [ent j f idx b true] else [] | _ => [] end.
    Definition tag_of (j : nat) : list tag :=
      match slot_of c pos j with
      | SFile f idx b =>
          match read_block bs s j f idx with
          | Some y => if hash_ok f idx b y then [] else [tg K_ERR_DATA [pos; j] [cf_name f; N.of_nat idx]]
          | None => [tg (if co_fix o || match fs_find (r_fs s) j (cf_name f) with Some _ => true | None => false end then K_ERR_READ else K_ERR_OPEN)
                        [pos; j] [cf_name f; N.of_nat idx]]
          end
      | _ => [] end.
    (* the file system after the loop: fix creates the missing files (empty) *)
    Definition fs_after (j' : nat) (n' : N) : option fsfile :=
      match slot_of c pos j' with
      | SFile f idx b =>
          if co_fix o && N.eqb (cf_name f) n'
          then match fs_find (r_fs s) j' n' with Some g => Some g | None => Some (mkFF n' 0 now 0 (newino j' n') []) end
          else fs_find (r_fs s) j' n'
      | _ => fs_find (r_fs s) j' n' end.

    Record dinv (k : nat) (a : dacc) : Prop := {
      di_buf : da_buf a = map bufval (seq 0 k);
      di_failed : da_failed a = flat_map fent_of (seq 0 k);
      di_valid : da_valid a = true;
      di_used : da_used a = existsb (fun j => slot_has_file (slot_of c pos j)) (seq 0 k);
      di_core : core2 s (da_st a);
      di_err : r_err (da_st a) = r_err s + length (da_failed a);
      di_tags : r_tags (da_st a) = r_tags s ++ flat_map tag_of (seq 0 k);
      di_fs : forall j' n', fs_find (r_fs (da_st a)) j' n' = if j' <? k then fs_after j' n' else fs_find (r_fs s) j' n';
      di_flags : forall k', k <= fst k' -> get_fl (r_flags (da_st a)) k' = get_fl (r_flags s) k'
    }.

    Lemma dinv_0 : dinv 0 (mkDA [] [] true false s).
    Proof.
      constructor; cbn; auto; try lia; try apply core2_refl; try (rewrite app_nil_r; reflexivity).
    Qed.

    Lemma slot_cases j :
      (slot_of c pos j = SEmpty /\ (nth j (c_disks c) None = None \/ exists d, nth j (c_disks c) None = Some d /\ slot_at d pos = SEmpty))
      \/ exists d f idx b, nth j (c_disks c) None = Some d /\ slot_at d pos = SFile f idx b /\ slot_of c pos j = SFile f idx b /\ fb_state b = SBlk.
    Proof.
      destruct Hsync as [Hs _]. specialize (Hs j). rewrite slot_of_nth in *.
      destruct (nth j (c_disks c) None) as [d|] eqn:Ed.
      - destruct (slot_at d pos) as [|f idx b|h] eqn:Es.
        + left. split; [reflexivity|]. right. exists d. auto.
        + right. exists d, f, idx, b. simpl in Hs. auto.
        + simpl in Hs. contradiction.
      - left. split; [reflexivity|]. left. reflexivity.
    Qed.

    Lemma dinv_step k a : k < length (c_disks c) -> dinv k a -> dinv (S k) (data_step hashf bs newino now o c pos a k).
    Proof.
      intros Hk I.
      assert (Eseq : seq 0 (S k) = seq 0 k ++ [k]) by (rewrite seq_S; reflexivity).
      destruct (slot_cases k) as [[Es Hn]|[d [f [idx [b [Ed [Esa [Es Hst]]]]]]]].
      - (* nothing at this disk position *)
        assert (Eds : data_step hashf bs newino now o c pos a k = mkDA (da_buf a ++ [0%N]) (da_failed a) (da_valid a) (da_used a) (da_st a)).
        { unfold data_step. destruct Hn as [Hn|[d [Hd Hsd]]]; [rewrite Hn; reflexivity | rewrite Hd, Hsd; reflexivity]. }
        rewrite Eds. destruct I. constructor; cbn [da_buf da_failed da_valid da_used da_st]; rewrite ?Eseq; auto.
        + rewrite map_app. cbn. unfold bufval at 2. rewrite Es. rewrite di_buf0. reflexivity.
        + rewrite flat_map_app. cbn. unfold fent_of at 2. rewrite Es. rewrite app_nil_r. exact di_failed0.
        + rewrite existsb_app. cbn. rewrite Es. cbn. rewrite orb_false_r. exact di_used0.
        + rewrite flat_map_app. cbn. unfold tag_of at 2. rewrite Es. rewrite !app_nil_r. exact di_tags0.
        + intros j' n'. rewrite di_fs0. destruct (Nat.eq_dec j' k) as [E|E].
          * subst j'. rewrite Nat.ltb_irrefl. assert (E1 : (k <? S k) = true) by (apply Nat.ltb_lt; lia). rewrite E1.
            unfold fs_after. rewrite Es. reflexivity.
          * assert (E1 : (j' <? S k) = (j' <? k)).
            { destruct (j' <? k) eqn:X; [apply Nat.ltb_lt in X; apply Nat.ltb_lt; lia | apply Nat.ltb_ge in X; apply Nat.ltb_ge; lia]. }
            rewrite E1. reflexivity.
        + intros k' Hk'. apply di_flags0. lia.
      - (* a BLK block *)
        destruct (Hfile k f idx b Es) as [Hlen [Hsz Hm]].
        destruct I.
        assert (Efs : fs_find (r_fs (da_st a)) k (cf_name f) = fs_find (r_fs s) k (cf_name f)) by (rewrite di_fs0, Nat.ltb_irrefl; reflexivity).
        assert (Erd : read_block bs (da_st a) k f idx = read_block bs s k f idx) by (unfold read_block; rewrite Efs; reflexivity).
        destruct (data_step_blk o c pos a k d f idx b Hplain Ed Esa Hst) as [s' [x [fe [Eds SO]]]].
        + destruct di_core0 as [_ [_ [_ [_ [L _]]]]]. rewrite L, Hlenfs. exact Hk.
        + intros g Hg. apply Hsz. rewrite <- Efs. exact Hg.
        + destruct Hm as [Hm|Hm]; [left; exact Hm | right]. rewrite di_flags0 by (cbn; lia). exact Hm.
        + exact Hlen.
        + rewrite Eds. destruct SO as [SOc SOo SOf SOr]. rewrite Erd in SOr.
          assert (Hx : x = bufval k /\ fe = fent_of k /\ r_err s' = r_err (da_st a) + length fe /\ r_tags s' = r_tags (da_st a) ++ tag_of k).
          { unfold bufval, fent_of, tag_of, is_bad, hash_ok. rewrite Es.
            destruct (read_block bs s k f idx) as [y|] eqn:Er.
            - destruct SOr as [Ex [_ SOr]]. subst x. destruct (hval_eqb (hashf y (block_len bs (cf_size f) idx)) (fb_hash b)) eqn:Eh; cbn [negb].
              + destruct SOr as [A [B C]]. subst fe. rewrite app_nil_r. cbn. rewrite Nat.add_0_r. auto.
              + destruct SOr as [A [B C]]. subst fe. cbn. auto.
            - destruct SOr as [Ex [A [B [C _]]]]. subst x fe. rewrite Efs in C. cbn. repeat split; auto. }
          destruct Hx as [Hx1 [Hx2 [Hx3 Hx4]]].
          constructor; cbn [da_buf da_failed da_valid da_used da_st]; rewrite ?Eseq.
          * rewrite map_app. cbn. rewrite di_buf0, Hx1. reflexivity.
          * rewrite flat_map_app. cbn. rewrite app_nil_r, di_failed0, Hx2. reflexivity.
          * exact di_valid0.
          * rewrite existsb_app. cbn. rewrite Es. cbn. rewrite orb_true_r. reflexivity.
          * eapply core2_trans; [exact di_core0 | exact SOc].
          * rewrite app_length, Hx3, di_err0. lia.
          * rewrite flat_map_app. cbn. rewrite app_nil_r, Hx4, di_tags0, app_assoc. reflexivity.
          * intros j' n'. destruct (Nat.eq_dec j' k) as [E|E].
            -- subst j'. assert (E1 : (k <? S k) = true) by (apply Nat.ltb_lt; lia). rewrite E1.
               unfold fs_after. rewrite Es.
               destruct (N.eqb (cf_name f) n') eqn:En.
               ++ apply N.eqb_eq in En. subst n'. rewrite andb_true_r.
                  destruct (read_block bs s k f idx) as [y|] eqn:Er.
                  ** destruct SOr as [_ [Efs' _]]. rewrite Efs', Efs.
                     unfold read_block in Er. destruct (fs_find (r_fs s) k (cf_name f)); [destruct (co_fix o); reflexivity | discriminate].
                  ** destruct SOr as [_ [_ [_ [_ [Hcheck Hfix]]]]]. destruct (co_fix o) eqn:Efix.
                     --- specialize (Hfix eq_refl). rewrite Efs in Hfix.
                         destruct (fs_find (r_fs s) k (cf_name f)) eqn:Ef0.
                         +++ rewrite Hfix. exact Efs.
                         +++ rewrite Hfix. apply fs_find_put_same.
                             destruct di_core0 as [_ [_ [_ [_ [L _]]]]]. rewrite L, Hlenfs. exact Hk.
                     --- rewrite (Hcheck eq_refl). exact Efs.
               ++ rewrite andb_false_r. rewrite SOo; [rewrite di_fs0, Nat.ltb_irrefl; reflexivity|].
                  intro X. injection X as X. apply N.eqb_neq in En. congruence.
            -- assert (E1 : (j' <? S k) = (j' <? k)).
               { destruct (j' <? k) eqn:X; [apply Nat.ltb_lt in X; apply Nat.ltb_lt; lia | apply Nat.ltb_ge in X; apply Nat.ltb_ge; lia]. }
               rewrite E1. rewrite SOo by congruence. apply di_fs0.
          * intros k' Hk'. rewrite SOf; [apply di_flags0; lia|]. intro X. subst k'. cbn in Hk'. lia.
    Qed.
  End DataPhase.
End Phases.
