(* C05: the full-strength statement and its refutations on the faithful model (DESIGN.md section 5: F-C05a, b, c, and
   F-C05d found by check_C05).  Each witness is a history of at most 9 operations evaluated by vm_compute; the same
   histories are replayed on the real binary by harness/py/check_C05.py (corpus/C05/f_c05{a,b,c,d}.json). *)
From Coq Require Import NArith ZArith List Bool Arith Lia.
From Snap.Array Require Import ArrayDefs SyncModel.
From Snap.Fix Require Import FixModel HistModel.
Import ListNotations.

(* ---- the statement ------------------------------------------------------------------------------------------ *)
(* collision freedom, globally (the witnesses use an injective hash, so the refutations do not depend on collisions) *)
Definition hash_injective (hashf : bid -> N -> hval) : Prop :=
  (forall b l, exists x, hashf b l = HReal x) /\ (forall b b' l, hashf b l = hashf b' l -> b = b').

(* well-formed histories: a written file has as many blocks as its size needs, every version has its own time-stamp,
   the history ends with the fix *)
Definition wf_op (bs : N) (op : hop) : bool :=
  match op with HWrite _ g => Nat.eqb (length (ff_blocks g)) (nblocks bs (ff_size g)) | _ => true end.
Fixpoint distinct_stamps (seen : list (nat * N * Z)) (ops : list hop) : bool :=
  match ops with
  | [] => true
  | HWrite j g :: t => negb (existsb (fun x => Nat.eqb (fst (fst x)) j && N.eqb (snd (fst x)) (ff_name g) && Z.eqb (snd x) (ff_mtime g)) seen)
                       && distinct_stamps ((j, ff_name g, ff_mtime g) :: seen) t
  | _ :: t => distinct_stamps seen t
  end.
Definition wf_hist (bs : N) (ops : list hop) : bool :=
  forallb (wf_op bs) ops && distinct_stamps [] ops
  && match rev ops with HFix _ _ _ _ :: t => forallb (fun op => match op with HFix _ _ _ _ => false | _ => true end) t | _ => false end.

(* "Fix never silently leaves or produces wrong data": after ANY history of writes, removals, syncs (complete, partial,
   with stripes skipped by read errors), ANY loss of files or parity, and a fix with ANY filters, every file named in
   the content file has exactly the blocks of its recorded version or is reported unrecoverable with a failing status *)
Definition fix_never_wrong : Prop :=
  forall hashf padz truncf bs nlev reduced newino now ndisk ops,
    hash_injective hashf -> (0 < bs)%N -> wf_hist bs ops = true ->
    all_fine (run_hist hashf padz truncf bs nlev reduced newino now ndisk ops) = true.

(* ---- the witnesses ---------------------------------------------------------------------------------------------- *)
Definition w_hashf (b : bid) (len : N) : hval := HReal (b * 4096 + len)%N.
Lemma w_hashf_injective : hash_injective w_hashf.
Proof.
  split.
  - intros b l. eexists. reflexivity.
  - intros b b' l H. unfold w_hashf in H. injection H as H. lia.
Qed.
Definition w_padz (b : bid) (len : N) : bool := negb (N.eqb b 11 && N.eqb len 100).   (* block 11 is a full 1 KiB block *)
Definition w_truncf (b : bid) (len : N) : bid := if N.eqb b 11 && N.eqb len 100 then 111%N else b.
Definition w_newino (j : nat) (n : N) : N := (900 + n)%N.
Definition ff (name size : N) (mtime : Z) (ino : N) (blocks : list bid) : fsfile := mkFF name size mtime 0 ino blocks.
Definition run (reduced : bool) := run_hist w_hashf w_padz w_truncf 1024 2 reduced w_newino 999%Z 2.
Definition fix_m := HFix None None true false.

(* a (REPAIRED in /repo by 0d034b0, regression statement): a sync that skips the stripe used to put the hash of the NEW data
      into the CHG block; now the block keeps its past hash, fix sees "maybe old data" and reports the file unrecoverable *)
Definition ops_a : list hop :=
  [HWrite 0 (ff 1 1024 100 1 [11%N]); HWrite 0 (ff 2 1024 100 2 [12%N]); HWrite 1 (ff 3 1024 100 3 [13%N]); HSync 0 0 [];
   HWrite 0 (ff 1 1024 200 4 [14%N]); HSync 0 0 [(0%nat, 1%nat, RdErrCont)]; HLose 0 1; fix_m].
(* b: the past hash (taken over 1024 bytes) is compared over the 100 bytes of the new block *)
Definition ops_b : list hop :=
  [HWrite 0 (ff 1 1024 100 1 [11%N]); HWrite 0 (ff 2 1024 100 2 [12%N]); HWrite 1 (ff 3 1024 100 3 [13%N]); HSync 0 0 [];
   HWrite 0 (ff 1 100 200 4 [14%N]); HSync 1 1 []; HLose 0 1; fix_m].
(* c: stripes whose blocks are all DELETED are dropped from the content file without a parity update; a file allocated
      there later gets the ZERO past hash *)
Definition ops_c : list hop :=
  [HWrite 0 (ff 1 4096 100 1 [21;22;23;24]%N); HWrite 0 (ff 2 1024 100 2 [25%N]);
   HWrite 1 (ff 3 1024 100 3 [26%N]); HWrite 1 (ff 4 3072 100 4 [27;28;29]%N); HWrite 1 (ff 5 1024 100 5 [30%N]); HSync 0 0 [];
   HRemove 1 4; HSync 0 0 []; HRemove 0 1; HSync 0 0 [];
   HWrite 0 (ff 6 3072 200 6 [31;32;33]%N); HSync 0 1 []; HLose 0 6; fix_m].
(* d: with a reduced hash size the INVALID marker of a CHG block is not recognised *)
Definition ops_d : list hop :=
  [HWrite 0 (ff 1 1024 100 1 [41%N]); HWrite 0 (ff 2 1024 100 2 [42%N]); HWrite 1 (ff 3 2048 100 3 [43;44]%N); HSync 0 0 [];
   HRemove 0 1; HSync 1 1 []; HWrite 0 (ff 4 1024 200 4 [45%N]); HSync 1 1 []; HLose 0 4; fix_m].

(* what the final state looks like: the blocks of the file under its name, the recovered tag, the exit status *)
Definition file_blocks (s : hstate) (j : nat) (name : N) : option (list bid) :=
  match fs_find (h_fs s) j name with Some g => Some (ff_blocks g) | None => None end.
Definition said_recovered (s : hstate) (j : nat) (name : N) : bool :=
  match h_out s with
  | Some r => negb (out_fail r) && existsb (fun t => N.eqb (fst t) K_ST_RECOVERED && match snd t with [d; n] => N.eqb d (N.of_nat j) && N.eqb n name | _ => false end) (r_tags (out_st r))
  | None => false end.

(* the state before the loss and the fix: the history without its last two operations *)
Definition chg_hash_after_skipped_sync : option hval :=
  match nth 0 (c_disks (h_c (run false (firstn 6 ops_a)))) None with
  | Some d => match slot_at d 0 with SFile _ _ b => Some (fb_hash b) | _ => None end
  | None => None end.
Lemma regression_a : wf_hist 1024 ops_a = true /\ all_fine (run false ops_a) = true
                     /\ said_recovered (run false ops_a) 0 1 = false
                     /\ chg_hash_after_skipped_sync = Some (w_hashf 11%N 1024%N).      (* still the hash of the OLD block 11 *)
Proof. vm_compute. repeat split; reflexivity. Qed.
Lemma witness_b : wf_hist 1024 ops_b = true /\ all_fine (run false ops_b) = false
                  /\ file_blocks (run false ops_b) 0 1 = Some [111%N] /\ said_recovered (run false ops_b) 0 1 = true.
Proof. vm_compute. repeat split; reflexivity. Qed.
Lemma witness_c : wf_hist 1024 ops_c = true /\ all_fine (run false ops_c) = false
                  /\ file_blocks (run false ops_c) 0 6 = Some [31; 22; 23]%N /\ said_recovered (run false ops_c) 0 6 = true.
Proof. vm_compute. repeat split; reflexivity. Qed.
Lemma witness_d : wf_hist 1024 ops_d = true /\ all_fine (run true ops_d) = false
                  /\ file_blocks (run true ops_d) 0 4 = Some [41%N] /\ said_recovered (run true ops_d) 0 4 = true.
Proof. vm_compute. repeat split; reflexivity. Qed.
(* the same history with the full hash size is handled correctly: the file is reported unrecoverable *)
Lemma witness_d_full_hash : all_fine (run false ops_d) = true /\ said_recovered (run false ops_d) 0 4 = false.
Proof. vm_compute. split; reflexivity. Qed.

Lemma refute (reduced : bool) ops : wf_hist 1024 ops = true -> all_fine (run reduced ops) = false -> ~ fix_never_wrong.
Proof.
  intros Hwf Hbad H.
  specialize (H w_hashf w_padz w_truncf 1024%N 2%nat reduced w_newino 999%Z 2%nat ops w_hashf_injective eq_refl Hwf).
  unfold run in Hbad. congruence.
Qed.
Theorem fix_never_wrong_refuted_b : ~ fix_never_wrong.
Proof. exact (refute false ops_b (proj1 witness_b) (proj1 (proj2 witness_b))). Qed.
Theorem fix_never_wrong_refuted_c : ~ fix_never_wrong.
Proof. exact (refute false ops_c (proj1 witness_c) (proj1 (proj2 witness_c))). Qed.
Theorem fix_never_wrong_refuted_d : ~ fix_never_wrong.
Proof. exact (refute true ops_d (proj1 witness_d) (proj1 (proj2 witness_d))). Qed.
