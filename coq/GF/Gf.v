(* Feasibility prototype: GF(2^8)/0x11d on N, field laws without any 2^24 sweep. *)
From Coq Require Import NArith List Bool Lia Arith.
Import ListNotations.
Local Open Scope N_scope.

Definition xtime (a : N) : N :=
  let a2 := N.shiftl a 1 in
  if N.testbit a 7 then N.lxor (N.land a2 255) 29 else a2.

Fixpoint pmul_aux (fuel : nat) (a b acc : N) : N :=
  match fuel with
  | O => acc
  | S f => pmul_aux f (xtime a) (N.shiftr b 1) (if N.odd b then N.lxor acc a else acc)
  end.
Definition gmul (a b : N) : N := pmul_aux 8 a b 0.

Definition range (n : nat) : list N := map N.of_nat (seq 0 n).
Definition r256 := range 256.

Lemma in_range n x : x < N.of_nat n -> In x (range n).
Proof.
  intros H. unfold range. apply in_map_iff. exists (N.to_nat x). split.
  - apply N2Nat.id.
  - apply in_seq. lia.
Qed.

Lemma all1 (p : N -> bool) : forallb p r256 = true -> forall a, a < 256 -> p a = true.
Proof. intros H a Ha. rewrite forallb_forall in H. apply H. apply (in_range 256). exact Ha. Qed.

Lemma all2 (p : N -> N -> bool) :
  forallb (fun a => forallb (p a) r256) r256 = true -> forall a b, a < 256 -> b < 256 -> p a b = true.
Proof. intros H a b Ha Hb. apply (all1 (p a)); auto. apply (all1 (fun a => forallb (p a) r256)); auto. Qed.

(* exponent table: exp_tab[k] = 2^k, k < 255 *)
Fixpoint iter_tab (n : nat) (x : N) : list N :=
  match n with O => [] | S n' => x :: iter_tab n' (xtime x) end.
Definition exp_tab : list N := Eval vm_compute in iter_tab 255 1.
Definition gexp (k : nat) : N := nth k exp_tab 0.
Fixpoint find_idx (a : N) (l : list N) (i : nat) : nat :=
  match l with [] => i | x :: t => if N.eqb x a then i else find_idx a t (S i) end.
Definition glog (a : N) : nat := find_idx a exp_tab 0.

Lemma gmul_range a b : a < 256 -> b < 256 -> gmul a b < 256.
Proof.
  intros. apply N.ltb_lt. apply (all2 (fun a b => gmul a b <? 256)); [vm_compute; reflexivity|assumption|assumption].
Qed.

Lemma explog a : a < 256 -> a <> 0 -> gexp (glog a) = a /\ (glog a < 255)%nat.
Proof.
  intros Ha Hn.
  assert (H := all1 (fun a => (a =? 0) || ((gexp (glog a) =? a) && (Nat.ltb (glog a) 255))) ltac:(vm_compute; reflexivity) a Ha).
  apply orb_true_iff in H. destruct H as [H|H].
  - apply N.eqb_eq in H. contradiction.
  - apply andb_true_iff in H. destruct H as [H1 H2]. apply N.eqb_eq in H1. apply Nat.ltb_lt in H2. auto.
Qed.

Lemma logexp k : (k < 255)%nat -> glog (gexp k) = k /\ gexp k <> 0 /\ gexp k < 256.
Proof.
  intros Hk.
  assert (H : forallb (fun k => Nat.eqb (glog (gexp k)) k && negb (gexp k =? 0) && (gexp k <? 256)) (seq 0 255) = true) by (vm_compute; reflexivity).
  rewrite forallb_forall in H. specialize (H k). rewrite in_seq in H. specialize (H ltac:(lia)).
  apply andb_true_iff in H. destruct H as [H H3]. apply andb_true_iff in H. destruct H as [H1 H2].
  apply Nat.eqb_eq in H1. apply negb_true_iff in H2. apply N.eqb_neq in H2. apply N.ltb_lt in H3. auto.
Qed.

Lemma gmul_log a b : a < 256 -> b < 256 -> a <> 0 -> b <> 0 ->
  gmul a b = gexp ((glog a + glog b) mod 255).
Proof.
  intros Ha Hb Hna Hnb.
  assert (H := all2 (fun a b => (a =? 0) || (b =? 0) || (gmul a b =? gexp ((glog a + glog b) mod 255)))
     ltac:(vm_compute; reflexivity) a b Ha Hb).
  apply orb_true_iff in H. destruct H as [H|H].
  - apply orb_true_iff in H. destruct H as [H|H]; apply N.eqb_eq in H; contradiction.
  - apply N.eqb_eq in H. exact H.
Qed.

Lemma gmul_0_l b : b < 256 -> gmul 0 b = 0.
Proof. intros. apply N.eqb_eq. apply (all1 (fun b => gmul 0 b =? 0)); [vm_compute; reflexivity|assumption]. Qed.
Lemma gmul_0_r a : a < 256 -> gmul a 0 = 0.
Proof. intros. apply N.eqb_eq. apply (all1 (fun a => gmul a 0 =? 0)); [vm_compute; reflexivity|assumption]. Qed.
Lemma gmul_1_l b : b < 256 -> gmul 1 b = b.
Proof. intros. apply N.eqb_eq. apply (all1 (fun b => gmul 1 b =? b)); [vm_compute; reflexivity|assumption]. Qed.

Lemma gmul_comm a b : a < 256 -> b < 256 -> gmul a b = gmul b a.
Proof.
  intros Ha Hb. destruct (N.eq_dec a 0) as [->|Hna]. { rewrite gmul_0_l, gmul_0_r; auto. }
  destruct (N.eq_dec b 0) as [->|Hnb]. { rewrite gmul_0_l, gmul_0_r; auto. }
  rewrite !gmul_log by auto. f_equal. f_equal. lia.
Qed.

Lemma gmul_nz a b : a < 256 -> b < 256 -> a <> 0 -> b <> 0 ->
  gmul a b <> 0 /\ glog (gmul a b) = ((glog a + glog b) mod 255)%nat.
Proof.
  intros Ha Hb Hna Hnb. rewrite gmul_log by auto.
  assert (Hk : ((glog a + glog b) mod 255 < 255)%nat) by (apply Nat.mod_upper_bound; lia).
  destruct (logexp _ Hk) as [H1 [H2 H3]]. auto.
Qed.

Lemma gmul_assoc a b c : a < 256 -> b < 256 -> c < 256 -> gmul a (gmul b c) = gmul (gmul a b) c.
Proof.
  intros Ha Hb Hc.
  destruct (N.eq_dec a 0) as [->|Hna]. { rewrite !gmul_0_l; auto using gmul_range. }
  destruct (N.eq_dec b 0) as [->|Hnb]. { rewrite gmul_0_l, !gmul_0_r, gmul_0_l; auto. }
  destruct (N.eq_dec c 0) as [->|Hnc]. { rewrite !gmul_0_r; auto using gmul_range. }
  destruct (gmul_nz b c) as [Hbc Lbc]; auto. destruct (gmul_nz a b) as [Hab Lab]; auto.
  rewrite (gmul_log a (gmul b c)), (gmul_log (gmul a b) c) by auto using gmul_range.
  rewrite Lbc, Lab. f_equal.
  rewrite Nat.add_mod_idemp_r, Nat.add_mod_idemp_l by lia. f_equal. lia.
Qed.

(* XOR-linearity in the second argument, via the bit decomposition *)
Definition bitsum (a b : N) : N :=
  fold_right (fun i acc => N.lxor (if N.testbit b (N.of_nat i) then gmul a (N.shiftl 1 (N.of_nat i)) else 0) acc) 0 (seq 0 8).

Lemma gmul_bitsum a b : a < 256 -> b < 256 -> gmul a b = bitsum a b.
Proof.
  intros. apply N.eqb_eq. apply (all2 (fun a b => gmul a b =? bitsum a b)); [vm_compute; reflexivity|assumption|assumption].
Qed.

Lemma lxor_swap4 a x b y : N.lxor (N.lxor a x) (N.lxor b y) = N.lxor (N.lxor a b) (N.lxor x y).
Proof.
  rewrite !N.lxor_assoc. f_equal. rewrite <- !N.lxor_assoc. f_equal. apply N.lxor_comm.
Qed.

Lemma if_xorb (p q : bool) t : (if xorb p q then t else 0) = N.lxor (if p then t else 0) (if q then t else 0).
Proof.
  destruct p, q; cbn [xorb]; rewrite ?N.lxor_nilpotent, ?N.lxor_0_l, ?N.lxor_0_r; reflexivity.
Qed.

Lemma bitsum_lxor a b c : bitsum a (N.lxor b c) = N.lxor (bitsum a b) (bitsum a c).
Proof.
  unfold bitsum. induction (seq 0 8) as [|i l IH]; cbn [fold_right].
  - reflexivity.
  - rewrite IH, N.lxor_spec, if_xorb. apply eq_sym. apply lxor_swap4.
Qed.

Lemma lxor_range a b : a < 256 -> b < 256 -> N.lxor a b < 256.
Proof.
  intros. apply N.ltb_lt. apply (all2 (fun a b => N.lxor a b <? 256)); [vm_compute; reflexivity|assumption|assumption].
Qed.

Lemma gmul_distr_r a b c : a < 256 -> b < 256 -> c < 256 ->
  gmul a (N.lxor b c) = N.lxor (gmul a b) (gmul a c).
Proof.
  intros. rewrite !gmul_bitsum by auto using lxor_range. apply bitsum_lxor.
Qed.

Definition ginv (a : N) : N := gexp ((255 - glog a) mod 255).
Lemma gmul_inv a : a < 256 -> a <> 0 -> gmul a (ginv a) = 1 /\ ginv a < 256.
Proof.
  intros Ha Hn.
  assert (H := all1 (fun a => (a =? 0) || ((gmul a (ginv a) =? 1) && (ginv a <? 256))) ltac:(vm_compute; reflexivity) a Ha).
  apply orb_true_iff in H. destruct H as [H|H]. { apply N.eqb_eq in H; contradiction. }
  apply andb_true_iff in H. destruct H as [H1 H2]. apply N.eqb_eq in H1. apply N.ltb_lt in H2. auto.
Qed.

Print Assumptions gmul_assoc.
Print Assumptions gmul_distr_r.
