(* Feasibility prototype: GF(2^8) as a MathComp fieldType on top of the N-level functions. *)
From mathcomp Require Import all_ssreflect all_algebra.
From Coq Require Import NArith.
From Snap.GF Require Import Gf.
Set Implicit Arguments.
Unset Strict Implicit.
Unset Printing Implicit Defensive.
Import GRing.Theory.
Arguments lxor_range {a b}.
Arguments gmul_range {a b}.
Arguments gmul_comm {a b}.
Arguments gmul_inv {a}.

Definition N_choiceMixin := CanChoiceMixin nat_of_binK.
Canonical N_choiceType := Eval hnf in ChoiceType N N_choiceMixin.

Record gf : Type := MkGf { gval : N; _ : (gval <? 256)%N }.
Canonical gf_subType := Eval hnf in [subType for gval].
Definition gf_eqMixin := Eval hnf in [eqMixin of gf by <:].
Canonical gf_eqType := Eval hnf in EqType gf gf_eqMixin.
Definition gf_choiceMixin := [choiceMixin of gf by <:].
Canonical gf_choiceType := Eval hnf in ChoiceType gf gf_choiceMixin.

Lemma gvalP (x : gf) : (gval x < 256)%N.
Proof. by case: x => v /= /N.ltb_lt. Qed.

Lemma ltb256 (v : N) : (v < 256)%N -> (v <? 256)%N.
Proof. by move/N.ltb_lt. Qed.

Definition mk (v : N) (H : (v < 256)%N) : gf := MkGf (ltb256 H).

Definition gadd (x y : gf) : gf := mk (lxor_range (gvalP x) (gvalP y)).
Definition gmulf (x y : gf) : gf := mk (gmul_range (gvalP x) (gvalP y)).
Lemma lt0_256 : (0 < 256)%N. Proof. by []. Qed.
Lemma lt1_256 : (1 < 256)%N. Proof. by []. Qed.
Definition g0 : gf := mk lt0_256.
Definition g1 : gf := mk lt1_256.

Lemma gf_inj (x y : gf) : gval x = gval y -> x = y.
Proof. exact: val_inj. Qed.

Lemma gaddA : associative gadd.
Proof. by move=> x y z; apply: gf_inj; rewrite /= N.lxor_assoc. Qed.
Lemma gaddC : commutative gadd.
Proof. by move=> x y; apply: gf_inj; rewrite /= N.lxor_comm. Qed.
Lemma gadd0 : left_id g0 gadd.
Proof. by move=> x; apply: gf_inj; rewrite /gadd /g0 /=. Qed.
Lemma gaddN : left_inverse g0 id gadd.
Proof. by move=> x; apply: gf_inj; rewrite /= N.lxor_nilpotent. Qed.

Definition gf_zmodMixin := ZmodMixin gaddA gaddC gadd0 gaddN.
Canonical gf_zmodType := Eval hnf in ZmodType gf gf_zmodMixin.

Lemma gmulA : associative gmulf.
Proof. by move=> x y z; apply: gf_inj; rewrite /= gmul_assoc //; exact: gvalP. Qed.
Lemma gmulC : commutative gmulf.
Proof. by move=> x y; apply: gf_inj; rewrite /= gmul_comm //; exact: gvalP. Qed.
Lemma gmul1 : left_id g1 gmulf.
Proof. by move=> x; apply: gf_inj; rewrite /gmulf /g1 /= gmul_1_l //; exact: gvalP. Qed.
Lemma gmulDl : left_distributive gmulf gadd.
Proof.
move=> x y z; apply: gf_inj => /=.
rewrite (gmul_comm (lxor_range (gvalP x) (gvalP y)) (gvalP z)).
rewrite gmul_distr_r; try exact: gvalP.
by rewrite (gmul_comm (gvalP z) (gvalP x)) (gmul_comm (gvalP z) (gvalP y)).
Qed.
Lemma g1n0 : g1 != g0. Proof. by []. Qed.

Definition gf_ringMixin := ComRingMixin gmulA gmulC gmul1 gmulDl g1n0.
Canonical gf_ringType := Eval hnf in RingType gf gf_ringMixin.
Canonical gf_comRingType := Eval hnf in ComRingType gf gmulC.
Local Open Scope ring_scope.

Lemma ginv_range (x : gf) : (ginv (gval x) < 256)%N.
Proof.
case: (N.eq_dec (gval x) 0) => [->|nz]; first by vm_compute.
by case: (gmul_inv (gvalP x) nz).
Qed.
Definition ginvf (x : gf) : gf := if x == 0 then 0 else mk (ginv_range x).

Lemma gmulVf : GRing.Field.axiom ginvf.
Proof.
move=> x xn0; rewrite /ginvf (negbTE xn0); apply: gf_inj => /=.
have nz : gval x <> 0%N by move=> e; case/eqP: xn0; apply: gf_inj.
rewrite gmul_comm; [|exact: ginv_range|exact: gvalP].
by case: (gmul_inv (gvalP x) nz).
Qed.
Lemma ginvf0 : ginvf 0 = 0.
Proof. by rewrite /ginvf eqxx. Qed.

Definition gf_unitRingMixin := FieldUnitMixin gmulVf ginvf0.
Canonical gf_unitRingType := Eval hnf in UnitRingType gf gf_unitRingMixin.
Canonical gf_comUnitRingType := Eval hnf in [comUnitRingType of gf].
Lemma gf_fieldMixin : GRing.Field.mixin_of gf_unitRingType.
Proof. exact: FieldMixin. Qed.
Definition gf_idomainMixin := FieldIdomainMixin gf_fieldMixin.
Canonical gf_idomainType := Eval hnf in IdomainType gf gf_idomainMixin.
Canonical gf_fieldType := Eval hnf in FieldType gf gf_fieldMixin.

(* bridge: ring operations of the structure are the N-level functions *)
Lemma gval_add (x y : gf) : gval (x + y)%R = N.lxor (gval x) (gval y).
Proof. by []. Qed.
Lemma gval_mul (x y : gf) : gval (x * y)%R = gmul (gval x) (gval y).
Proof. by []. Qed.
Lemma gval_0 : gval (0%R : gf) = 0%N. Proof. by []. Qed.
Lemma gval_1 : gval (1%R : gf) = 1%N. Proof. by []. Qed.

Check (gf_fieldType : fieldType).
Print Assumptions gf_fieldMixin.
Print Assumptions gmulA.
