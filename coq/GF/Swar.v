(* Feasibility prototype: the SWAR "multiply every byte by 2 in GF(2^8)" trick of raid/gf.h
   x2_32, proved for ALL 32-bit words by lane decomposition (no 2^32 sweep). *)
From Coq Require Import NArith List Bool Lia.
Import ListNotations.
Local Open Scope N_scope.

Definition w32 (x : N) : N := x mod 2^32.

(* C: mask = v & 0x80808080; mask = (mask << 1) - (mask >> 7);
      v = (v << 1) & 0xfefefefe; v ^= mask & 0x1d1d1d1d;              (all uint32_t) *)
Definition x2_32 (v : N) : N :=
  let mask := N.land v 0x80808080 in
  let mask := w32 (w32 (N.shiftl mask 1) + 2^32 - N.shiftr mask 7) in
  let v := N.land (w32 (N.shiftl v 1)) 0xfefefefe in
  N.lxor v (N.land mask 0x1d1d1d1d).

Definition xtime (a : N) : N :=
  let a2 := N.shiftl a 1 in
  if N.testbit a 7 then N.lxor (N.land a2 255) 29 else a2.

Definition pack4 (b0 b1 b2 b3 : N) : N := b0 + 2^8 * b1 + 2^16 * b2 + 2^24 * b3.

(* bit p of a packed word is bit (p mod 8) of lane (p / 8) *)
Lemma testbit_pack4 b0 b1 b2 b3 p :
  b0 < 256 -> b1 < 256 -> b2 < 256 -> b3 < 256 ->
  N.testbit (pack4 b0 b1 b2 b3) p =
    if p <? 8 then N.testbit b0 p
    else if p <? 16 then N.testbit b1 (p - 8)
    else if p <? 24 then N.testbit b2 (p - 16)
    else if p <? 32 then N.testbit b3 (p - 24) else false.
Proof.
  intros H0 H1 H2 H3. unfold pack4.
  assert (E : b0 + 2^8 * b1 + 2^16 * b2 + 2^24 * b3
            = N.lor b0 (N.shiftl (N.lor b1 (N.shiftl (N.lor b2 (N.shiftl b3 8)) 8)) 8)).
  { assert (L : forall a b, a < 256 -> N.lor a (N.shiftl b 8) = a + 2^8 * b).
    { intros a b Ha. rewrite N.shiftl_mul_pow2.
      rewrite <- N.lxor_lor, <- N.add_nocarry_lxor.
      - lia.
      - apply N.bits_inj_0. intros k. rewrite N.land_spec.
        destruct (N.ltb_spec k 8).
        + rewrite N.mul_pow2_bits_low by assumption. apply andb_false_r.
        + replace (N.testbit a k) with false; [reflexivity|].
          symmetry. apply N.bits_above_log2. destruct (N.eq_dec a 0) as [->|Hn]; [simpl; lia|].
          apply N.log2_lt_pow2; [lia|]. apply N.lt_le_trans with (2^8); [exact Ha|]. apply N.pow_le_mono_r; lia.
      - apply N.bits_inj_0. intros k. rewrite N.land_spec.
        destruct (N.ltb_spec k 8).
        + rewrite N.mul_pow2_bits_low by assumption. apply andb_false_r.
        + replace (N.testbit a k) with false; [reflexivity|].
          symmetry. apply N.bits_above_log2. destruct (N.eq_dec a 0) as [->|Hn]; [simpl; lia|].
          apply N.log2_lt_pow2; [lia|]. apply N.lt_le_trans with (2^8); [exact Ha|]. apply N.pow_le_mono_r; lia. }
    rewrite (L b2 b3 H2). rewrite (L b1 _ H1). rewrite (L b0 _ H0). lia. }
  rewrite E. clear E.
  assert (HB : forall b q, b < 256 -> 8 <= q -> N.testbit b q = false).
  { intros b q Hb Hq. apply N.bits_above_log2. destruct (N.eq_dec b 0) as [->|Hn]; [simpl; lia|].
    apply N.log2_lt_pow2; [lia|]. apply N.lt_le_trans with (2^8); [exact Hb|]. apply N.pow_le_mono_r; lia. }
  rewrite N.lor_spec.
  destruct (N.ltb_spec p 8) as [P8|P8].
  { rewrite N.shiftl_spec_low by assumption. apply orb_false_r. }
  rewrite (HB b0 p H0 P8). cbn [orb]. rewrite N.shiftl_spec_high' by assumption. rewrite N.lor_spec.
  destruct (N.ltb_spec p 16) as [P16|P16].
  { rewrite N.shiftl_spec_low by lia. apply orb_false_r. }
  rewrite (HB b1 (p-8) H1) by lia. cbn [orb]. rewrite N.shiftl_spec_high' by lia. rewrite N.lor_spec.
  replace (p - 8 - 8) with (p - 16) by lia.
  destruct (N.ltb_spec p 24) as [P24|P24].
  { rewrite N.shiftl_spec_low by lia. apply orb_false_r. }
  rewrite (HB b2 (p-16) H2) by lia. cbn [orb]. rewrite N.shiftl_spec_high' by lia.
  replace (p - 16 - 8) with (p - 24) by lia.
  destruct (N.ltb_spec p 32) as [P32|P32]; [reflexivity|].
  apply HB; [assumption|lia].
Qed.


(* ---- finite sweeps (<= 2^16 cases) ---- *)
Definition r256 : list N := map N.of_nat (seq 0 256).
Lemma in_r256 x : x < 256 -> In x r256.
Proof.
  intros H. unfold r256. apply in_map_iff. exists (N.to_nat x). split; [apply N2Nat.id|].
  apply in_seq. lia.
Qed.
Lemma all1 (p : N -> bool) : forallb p r256 = true -> forall a, a < 256 -> p a = true.
Proof. intros H a Ha. rewrite forallb_forall in H. apply H, in_r256, Ha. Qed.
Lemma all2 (p : N -> N -> bool) :
  forallb (fun a => forallb (p a) r256) r256 = true -> forall a b, a < 256 -> b < 256 -> p a b = true.
Proof. intros H a b Ha Hb. apply (all1 (p a)); [|exact Hb]. apply (all1 (fun a => forallb (p a) r256)); assumption. Qed.

Lemma land_lt a c : a < 256 -> c < 256 -> N.land a c < 256.
Proof. intros Ha Hc. apply N.ltb_lt. apply (all2 (fun a c => N.land a c <? 256)); [vm_compute; reflexivity|assumption|assumption]. Qed.
Lemma lxor_lt a c : a < 256 -> c < 256 -> N.lxor a c < 256.
Proof. intros Ha Hc. apply N.ltb_lt. apply (all2 (fun a c => N.lxor a c <? 256)); [vm_compute; reflexivity|assumption|assumption]. Qed.

(* ---- lane-wise and / xor ---- *)
Ltac lanes p :=
  destruct (N.ltb_spec p 8); [reflexivity|];
  destruct (N.ltb_spec p 16); [reflexivity|];
  destruct (N.ltb_spec p 24); [reflexivity|];
  destruct (N.ltb_spec p 32); reflexivity.

Lemma land_pack4 a0 a1 a2 a3 c0 c1 c2 c3 :
  a0 < 256 -> a1 < 256 -> a2 < 256 -> a3 < 256 -> c0 < 256 -> c1 < 256 -> c2 < 256 -> c3 < 256 ->
  N.land (pack4 a0 a1 a2 a3) (pack4 c0 c1 c2 c3) = pack4 (N.land a0 c0) (N.land a1 c1) (N.land a2 c2) (N.land a3 c3).
Proof.
  intros. apply N.bits_inj. intros p. rewrite N.land_spec.
  rewrite !testbit_pack4 by auto using land_lt. rewrite !N.land_spec. lanes p.
Qed.

Lemma lxor_pack4 a0 a1 a2 a3 c0 c1 c2 c3 :
  a0 < 256 -> a1 < 256 -> a2 < 256 -> a3 < 256 -> c0 < 256 -> c1 < 256 -> c2 < 256 -> c3 < 256 ->
  N.lxor (pack4 a0 a1 a2 a3) (pack4 c0 c1 c2 c3) = pack4 (N.lxor a0 c0) (N.lxor a1 c1) (N.lxor a2 c2) (N.lxor a3 c3).
Proof.
  intros. apply N.bits_inj. intros p. rewrite N.lxor_spec.
  rewrite !testbit_pack4 by auto using lxor_lt. rewrite !N.lxor_spec. lanes p.
Qed.

(* ---- the arithmetic part ---- *)
Definition hi (b : N) := b / 128.
Definition lo (b : N) := b mod 128.

Lemma split_byte b : b < 256 -> b = 128 * hi b + lo b /\ hi b < 2 /\ lo b < 128.
Proof.
  intros Hb. unfold hi, lo. split; [apply N.div_mod; lia|]. split.
  - apply N.div_lt_upper_bound; lia.
  - apply N.mod_lt; lia.
Qed.

Lemma shl1_pack4 b0 b1 b2 b3 : b0 < 256 -> b1 < 256 -> b2 < 256 -> b3 < 256 ->
  w32 (N.shiftl (pack4 b0 b1 b2 b3) 1) =
  pack4 (2 * lo b0) (2 * lo b1 + hi b0) (2 * lo b2 + hi b1) (2 * lo b3 + hi b2).
Proof.
  intros H0 H1 H2 H3.
  destruct (split_byte b0 H0) as [E0 [A0 B0]]. destruct (split_byte b1 H1) as [E1 [A1 B1]].
  destruct (split_byte b2 H2) as [E2 [A2 B2]]. destruct (split_byte b3 H3) as [E3 [A3 B3]].
  unfold w32, pack4. rewrite N.shiftl_mul_pow2.
  set (h0 := hi b0) in *. set (h1 := hi b1) in *. set (h2 := hi b2) in *. set (h3 := hi b3) in *.
  set (l0 := lo b0) in *. set (l1 := lo b1) in *. set (l2 := lo b2) in *. set (l3 := lo b3) in *.
  rewrite E0, E1, E2, E3.
  replace ((128 * h0 + l0 + 2 ^ 8 * (128 * h1 + l1) + 2 ^ 16 * (128 * h2 + l2) + 2 ^ 24 * (128 * h3 + l3)) * 2 ^ 1)
     with (h3 * 2^32 + (2 * l0 + 2^8 * (2 * l1 + h0) + 2^16 * (2 * l2 + h1) + 2^24 * (2 * l3 + h2))) by lia.
  rewrite N.add_comm, N.mod_add by lia. apply N.mod_small. lia.
Qed.

Lemma mask_pack4 b0 b1 b2 b3 : b0 < 256 -> b1 < 256 -> b2 < 256 -> b3 < 256 ->
  let mask := pack4 (128 * hi b0) (128 * hi b1) (128 * hi b2) (128 * hi b3) in
  w32 (w32 (N.shiftl mask 1) + 2^32 - N.shiftr mask 7) =
  pack4 (255 * hi b0) (255 * hi b1) (255 * hi b2) (255 * hi b3).
Proof.
  intros H0 H1 H2 H3.
  destruct (split_byte b0 H0) as [_ [A0 _]]. destruct (split_byte b1 H1) as [_ [A1 _]].
  destruct (split_byte b2 H2) as [_ [A2 _]]. destruct (split_byte b3 H3) as [_ [A3 _]].
  set (h0 := hi b0) in *. set (h1 := hi b1) in *. set (h2 := hi b2) in *. set (h3 := hi b3) in *.
  clearbody h0 h1 h2 h3.
  assert (C : forall h, h < 2 -> h = 0 \/ h = 1) by (intros; lia).
  destruct (C h0 A0) as [-> | ->], (C h1 A1) as [-> | ->], (C h2 A2) as [-> | ->], (C h3 A3) as [-> | ->];
    vm_compute; reflexivity.
Qed.

(* per-lane facts, 256 or 512 cases each *)
Lemma lane_hi b : b < 256 -> N.land b 0x80 = 128 * hi b.
Proof. intros. apply N.eqb_eq. apply (all1 (fun b => N.land b 0x80 =? 128 * hi b)); [vm_compute; reflexivity|assumption]. Qed.
Lemma lane_shift b c : b < 256 -> c < 256 -> N.land (2 * lo b + hi c) 0xfe = 2 * lo b.
Proof. intros. apply N.eqb_eq. apply (all2 (fun b c => N.land (2 * lo b + hi c) 0xfe =? 2 * lo b)); [vm_compute; reflexivity|assumption|assumption]. Qed.
Lemma lane_shift0 b : b < 256 -> N.land (2 * lo b) 0xfe = 2 * lo b.
Proof. intros. apply N.eqb_eq. apply (all1 (fun b => N.land (2 * lo b) 0xfe =? 2 * lo b)); [vm_compute; reflexivity|assumption]. Qed.
Lemma lane_poly b : b < 256 -> N.land (255 * hi b) 0x1d = 0x1d * hi b.
Proof. intros. apply N.eqb_eq. apply (all1 (fun b => N.land (255 * hi b) 0x1d =? 0x1d * hi b)); [vm_compute; reflexivity|assumption]. Qed.
Lemma lane_xtime b : b < 256 -> N.lxor (2 * lo b) (0x1d * hi b) = xtime b.
Proof. intros. apply N.eqb_eq. apply (all1 (fun b => N.lxor (2 * lo b) (0x1d * hi b) =? xtime b)); [vm_compute; reflexivity|assumption]. Qed.
Lemma lane_bounds b c : b < 256 -> c < 256 ->
  128 * hi b < 256 /\ 255 * hi b < 256 /\ 2 * lo b < 256 /\ 2 * lo b + hi c < 256 /\ 0x1d * hi b < 256 /\ xtime b < 256.
Proof.
  intros Hb Hc. destruct (split_byte b Hb) as [_ [A B]]. destruct (split_byte c Hc) as [_ [A' _]].
  repeat split; try lia.
  apply N.ltb_lt. apply (all1 (fun b => xtime b <? 256)); [vm_compute; reflexivity|assumption].
Qed.

Theorem x2_32_lanes b0 b1 b2 b3 : b0 < 256 -> b1 < 256 -> b2 < 256 -> b3 < 256 ->
  x2_32 (pack4 b0 b1 b2 b3) = pack4 (xtime b0) (xtime b1) (xtime b2) (xtime b3).
Proof.
  intros H0 H1 H2 H3. unfold x2_32.
  destruct (lane_bounds b0 b0 H0 H0) as [K0 [L0 [M0 [_ [P0 X0]]]]].
  destruct (lane_bounds b1 b0 H1 H0) as [K1 [L1 [M1 [N1 [P1 X1]]]]].
  destruct (lane_bounds b2 b1 H2 H1) as [K2 [L2 [M2 [N2 [P2 X2]]]]].
  destruct (lane_bounds b3 b2 H3 H2) as [K3 [L3 [M3 [N3 [P3 X3]]]]].
  change 0x80808080 with (pack4 0x80 0x80 0x80 0x80).
  change 0xfefefefe with (pack4 0xfe 0xfe 0xfe 0xfe).
  change 0x1d1d1d1d with (pack4 0x1d 0x1d 0x1d 0x1d).
  rewrite land_pack4 by (assumption || reflexivity).
  rewrite !lane_hi by assumption.
  rewrite (mask_pack4 b0 b1 b2 b3) by assumption.
  rewrite shl1_pack4 by assumption.
  rewrite !land_pack4 by (assumption || reflexivity).
  rewrite lane_shift0, !lane_shift, !lane_poly by assumption.
  rewrite lxor_pack4 by assumption.
  rewrite !lane_xtime by assumption. reflexivity.
Qed.

(* every 32-bit word is a pack4 of bytes, so this is the statement for ALL words *)
Lemma word_is_pack4 v : v < 2^32 -> exists b0 b1 b2 b3,
  b0 < 256 /\ b1 < 256 /\ b2 < 256 /\ b3 < 256 /\ v = pack4 b0 b1 b2 b3.
Proof.
  intros Hv. exists (v mod 256), ((v / 2^8) mod 256), ((v / 2^16) mod 256), (v / 2^24).
  repeat split; try (apply N.mod_lt; lia).
  - apply N.div_lt_upper_bound; lia.
  - unfold pack4.
    assert (E1 := N.div_mod v 256 ltac:(lia)).
    assert (E2 := N.div_mod (v / 2^8) 256 ltac:(lia)).
    assert (E3 := N.div_mod (v / 2^16) 256 ltac:(lia)).
    assert (D1 : v / 2^8 / 256 = v / 2^16) by (rewrite N.div_div by lia; reflexivity).
    assert (D2 : v / 2^16 / 256 = v / 2^24) by (rewrite N.div_div by lia; reflexivity).
    change (2^8) with 256 in *. lia.
Qed.

Print Assumptions x2_32_lanes.
