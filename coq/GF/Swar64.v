(* The three sibling SWAR functions of raid/gf.h: x2_64, d2_32, d2_64, proved lane-wise
   correct for ALL words (no sweep larger than 2^16), extending Swar.v (x2_32). *)
From Coq Require Import NArith List Bool Lia.
From Snap.GF Require Import Swar.
Import ListNotations.
Local Open Scope N_scope.

Definition w64 (x : N) : N := x mod 2^64.

(* C: mask = v & 0x8080808080808080; mask = (mask << 1) - (mask >> 7);
      v = (v << 1) & 0xfefefefefefefefe; v ^= mask & 0x1d1d1d1d1d1d1d1d;     (all uint64_t) *)
Definition x2_64 (v : N) : N :=
  let mask := N.land v 0x8080808080808080 in
  let mask := w64 (w64 (N.shiftl mask 1) + 2^64 - N.shiftr mask 7) in
  let v := N.land (w64 (N.shiftl v 1)) 0xfefefefefefefefe in
  N.lxor v (N.land mask 0x1d1d1d1d1d1d1d1d).

(* C: mask = v & 0x01010101; mask = (mask << 8) - mask;
      v = (v >> 1) & 0x7f7f7f7f; v ^= mask & 0x8e8e8e8e;                      (all uint32_t) *)
Definition d2_32 (v : N) : N :=
  let mask := N.land v 0x01010101 in
  let mask := w32 (w32 (N.shiftl mask 8) + 2^32 - mask) in
  let v := N.land (N.shiftr v 1) 0x7f7f7f7f in
  N.lxor v (N.land mask 0x8e8e8e8e).

Definition d2_64 (v : N) : N :=
  let mask := N.land v 0x0101010101010101 in
  let mask := w64 (w64 (N.shiftl mask 8) + 2^64 - mask) in
  let v := N.land (N.shiftr v 1) 0x7f7f7f7f7f7f7f7f in
  N.lxor v (N.land mask 0x8e8e8e8e8e8e8e8e).

(* byte-wise division by 2 in GF(2^8)/0x11d *)
Definition dtime (a : N) : N := N.lxor (N.shiftr a 1) (if N.odd a then 0x8e else 0).

Definition pack8 (b0 b1 b2 b3 b4 b5 b6 b7 : N) : N :=
  b0 + 2^8 * b1 + 2^16 * b2 + 2^24 * b3 + 2^32 * b4 + 2^40 * b5 + 2^48 * b6 + 2^56 * b7.

Lemma pack8_nest b0 b1 b2 b3 b4 b5 b6 b7 :
  pack8 b0 b1 b2 b3 b4 b5 b6 b7 =
  b0 + 256 * (b1 + 256 * (b2 + 256 * (b3 + 256 * (b4 + 256 * (b5 + 256 * (b6 + 256 * b7)))))).
Proof. unfold pack8. lia. Qed.

(* ---- one-lane "cons" lemmas: a byte below, anything above ---- *)
Lemma testbit_cons b x p : b < 256 ->
  N.testbit (b + 256 * x) p = if p <? 8 then N.testbit b p else N.testbit x (p - 8).
Proof.
  intros Hb. destruct (N.ltb_spec p 8) as [P|P].
  - rewrite <- (N.mod_pow2_bits_low (b + 256 * x) 8 p P).
    replace ((b + 256 * x) mod 2^8) with b; [reflexivity|].
    change (2^8) with 256. rewrite (N.mul_comm 256 x), N.mod_add by lia.
    symmetry. apply N.mod_small. exact Hb.
  - replace (N.testbit (b + 256 * x) p) with (N.testbit ((b + 256 * x) / 2^8) (p - 8)).
    + f_equal. change (2^8) with 256. rewrite (N.mul_comm 256 x), N.div_add by lia.
      rewrite (N.div_small b 256) by exact Hb. reflexivity.
    + rewrite N.div_pow2_bits. f_equal. lia.
Qed.

Lemma land_cons b c x y : b < 256 -> c < 256 ->
  N.land (b + 256 * x) (c + 256 * y) = N.land b c + 256 * N.land x y.
Proof.
  intros Hb Hc. apply N.bits_inj. intros p. rewrite N.land_spec.
  rewrite !testbit_cons by auto using land_lt.
  destruct (p <? 8); rewrite N.land_spec; reflexivity.
Qed.

Lemma lxor_cons b c x y : b < 256 -> c < 256 ->
  N.lxor (b + 256 * x) (c + 256 * y) = N.lxor b c + 256 * N.lxor x y.
Proof.
  intros Hb Hc. apply N.bits_inj. intros p. rewrite N.lxor_spec.
  rewrite !testbit_cons by auto using lxor_lt.
  destruct (p <? 8); rewrite N.lxor_spec; reflexivity.
Qed.

Lemma land_pack8 a0 a1 a2 a3 a4 a5 a6 a7 c0 c1 c2 c3 c4 c5 c6 c7 :
  a0 < 256 -> a1 < 256 -> a2 < 256 -> a3 < 256 -> a4 < 256 -> a5 < 256 -> a6 < 256 -> a7 < 256 ->
  c0 < 256 -> c1 < 256 -> c2 < 256 -> c3 < 256 -> c4 < 256 -> c5 < 256 -> c6 < 256 -> c7 < 256 ->
  N.land (pack8 a0 a1 a2 a3 a4 a5 a6 a7) (pack8 c0 c1 c2 c3 c4 c5 c6 c7) =
  pack8 (N.land a0 c0) (N.land a1 c1) (N.land a2 c2) (N.land a3 c3)
        (N.land a4 c4) (N.land a5 c5) (N.land a6 c6) (N.land a7 c7).
Proof.
  intros. rewrite !pack8_nest. rewrite !land_cons by assumption. reflexivity.
Qed.

Lemma lxor_pack8 a0 a1 a2 a3 a4 a5 a6 a7 c0 c1 c2 c3 c4 c5 c6 c7 :
  a0 < 256 -> a1 < 256 -> a2 < 256 -> a3 < 256 -> a4 < 256 -> a5 < 256 -> a6 < 256 -> a7 < 256 ->
  c0 < 256 -> c1 < 256 -> c2 < 256 -> c3 < 256 -> c4 < 256 -> c5 < 256 -> c6 < 256 -> c7 < 256 ->
  N.lxor (pack8 a0 a1 a2 a3 a4 a5 a6 a7) (pack8 c0 c1 c2 c3 c4 c5 c6 c7) =
  pack8 (N.lxor a0 c0) (N.lxor a1 c1) (N.lxor a2 c2) (N.lxor a3 c3)
        (N.lxor a4 c4) (N.lxor a5 c5) (N.lxor a6 c6) (N.lxor a7 c7).
Proof.
  intros. rewrite !pack8_nest. rewrite !lxor_cons by assumption. reflexivity.
Qed.

(* ================= x2_64 ================= *)

Lemma shl1_pack8 b0 b1 b2 b3 b4 b5 b6 b7 :
  b0 < 256 -> b1 < 256 -> b2 < 256 -> b3 < 256 -> b4 < 256 -> b5 < 256 -> b6 < 256 -> b7 < 256 ->
  w64 (N.shiftl (pack8 b0 b1 b2 b3 b4 b5 b6 b7) 1) =
  pack8 (2 * lo b0) (2 * lo b1 + hi b0) (2 * lo b2 + hi b1) (2 * lo b3 + hi b2)
        (2 * lo b4 + hi b3) (2 * lo b5 + hi b4) (2 * lo b6 + hi b5) (2 * lo b7 + hi b6).
Proof.
  intros H0 H1 H2 H3 H4 H5 H6 H7.
  destruct (split_byte b0 H0) as [E0 [A0 B0]]. destruct (split_byte b1 H1) as [E1 [A1 B1]].
  destruct (split_byte b2 H2) as [E2 [A2 B2]]. destruct (split_byte b3 H3) as [E3 [A3 B3]].
  destruct (split_byte b4 H4) as [E4 [A4 B4]]. destruct (split_byte b5 H5) as [E5 [A5 B5]].
  destruct (split_byte b6 H6) as [E6 [A6 B6]]. destruct (split_byte b7 H7) as [E7 [A7 B7]].
  unfold w64, pack8. rewrite N.shiftl_mul_pow2.
  set (h0 := hi b0) in *. set (h1 := hi b1) in *. set (h2 := hi b2) in *. set (h3 := hi b3) in *.
  set (h4 := hi b4) in *. set (h5 := hi b5) in *. set (h6 := hi b6) in *. set (h7 := hi b7) in *.
  set (l0 := lo b0) in *. set (l1 := lo b1) in *. set (l2 := lo b2) in *. set (l3 := lo b3) in *.
  set (l4 := lo b4) in *. set (l5 := lo b5) in *. set (l6 := lo b6) in *. set (l7 := lo b7) in *.
  clearbody h0 h1 h2 h3 h4 h5 h6 h7 l0 l1 l2 l3 l4 l5 l6 l7.
  symmetry. apply (N.mod_unique _ _ h7); lia.
Qed.

Lemma bit01 h : h < 2 -> h = 0 \/ h = 1.
Proof. lia. Qed.

Lemma mask_x2_pack8 h0 h1 h2 h3 h4 h5 h6 h7 :
  h0 < 2 -> h1 < 2 -> h2 < 2 -> h3 < 2 -> h4 < 2 -> h5 < 2 -> h6 < 2 -> h7 < 2 ->
  let mask := pack8 (128 * h0) (128 * h1) (128 * h2) (128 * h3)
                    (128 * h4) (128 * h5) (128 * h6) (128 * h7) in
  w64 (w64 (N.shiftl mask 1) + 2^64 - N.shiftr mask 7) =
  pack8 (255 * h0) (255 * h1) (255 * h2) (255 * h3) (255 * h4) (255 * h5) (255 * h6) (255 * h7).
Proof.
  intros A0 A1 A2 A3 A4 A5 A6 A7.
  destruct (bit01 h0 A0) as [-> | ->], (bit01 h1 A1) as [-> | ->],
           (bit01 h2 A2) as [-> | ->], (bit01 h3 A3) as [-> | ->],
           (bit01 h4 A4) as [-> | ->], (bit01 h5 A5) as [-> | ->],
           (bit01 h6 A6) as [-> | ->], (bit01 h7 A7) as [-> | ->];
    vm_compute; reflexivity.
Qed.

Theorem x2_64_lanes b0 b1 b2 b3 b4 b5 b6 b7 :
  b0 < 256 -> b1 < 256 -> b2 < 256 -> b3 < 256 -> b4 < 256 -> b5 < 256 -> b6 < 256 -> b7 < 256 ->
  x2_64 (pack8 b0 b1 b2 b3 b4 b5 b6 b7) =
  pack8 (xtime b0) (xtime b1) (xtime b2) (xtime b3) (xtime b4) (xtime b5) (xtime b6) (xtime b7).
Proof.
  intros H0 H1 H2 H3 H4 H5 H6 H7. unfold x2_64.
  destruct (lane_bounds b0 b0 H0 H0) as [K0 [L0 [M0 [_ [P0 X0]]]]].
  destruct (lane_bounds b1 b0 H1 H0) as [K1 [L1 [M1 [N1 [P1 X1]]]]].
  destruct (lane_bounds b2 b1 H2 H1) as [K2 [L2 [M2 [N2 [P2 X2]]]]].
  destruct (lane_bounds b3 b2 H3 H2) as [K3 [L3 [M3 [N3 [P3 X3]]]]].
  destruct (lane_bounds b4 b3 H4 H3) as [K4 [L4 [M4 [N4 [P4 X4]]]]].
  destruct (lane_bounds b5 b4 H5 H4) as [K5 [L5 [M5 [N5 [P5 X5]]]]].
  destruct (lane_bounds b6 b5 H6 H5) as [K6 [L6 [M6 [N6 [P6 X6]]]]].
  destruct (lane_bounds b7 b6 H7 H6) as [K7 [L7 [M7 [N7 [P7 X7]]]]].
  destruct (split_byte b0 H0) as [_ [A0 _]]. destruct (split_byte b1 H1) as [_ [A1 _]].
  destruct (split_byte b2 H2) as [_ [A2 _]]. destruct (split_byte b3 H3) as [_ [A3 _]].
  destruct (split_byte b4 H4) as [_ [A4 _]]. destruct (split_byte b5 H5) as [_ [A5 _]].
  destruct (split_byte b6 H6) as [_ [A6 _]]. destruct (split_byte b7 H7) as [_ [A7 _]].
  change 0x8080808080808080 with (pack8 0x80 0x80 0x80 0x80 0x80 0x80 0x80 0x80).
  change 0xfefefefefefefefe with (pack8 0xfe 0xfe 0xfe 0xfe 0xfe 0xfe 0xfe 0xfe).
  change 0x1d1d1d1d1d1d1d1d with (pack8 0x1d 0x1d 0x1d 0x1d 0x1d 0x1d 0x1d 0x1d).
  rewrite land_pack8 by (assumption || reflexivity).
  rewrite !lane_hi by assumption.
  rewrite (mask_x2_pack8 (hi b0) (hi b1) (hi b2) (hi b3) (hi b4) (hi b5) (hi b6) (hi b7)) by assumption.
  rewrite shl1_pack8 by assumption.
  rewrite !land_pack8 by (assumption || reflexivity).
  rewrite lane_shift0, !lane_shift, !lane_poly by assumption.
  rewrite lxor_pack8 by assumption.
  rewrite !lane_xtime by assumption. reflexivity.
Qed.

(* ================= d2 : lane facts ================= *)

Definition dh (b : N) := b / 2.
Definition dl (b : N) := b mod 2.

Lemma split_byte2 b : b < 256 -> b = 2 * dh b + dl b /\ dh b < 128 /\ dl b < 2.
Proof.
  intros Hb. unfold dh, dl. split; [apply N.div_mod; lia|]. split.
  - apply N.div_lt_upper_bound; lia.
  - apply N.mod_lt; lia.
Qed.

Lemma lane_dl b : b < 256 -> N.land b 0x01 = dl b.
Proof. intros. apply N.eqb_eq. apply (all1 (fun b => N.land b 0x01 =? dl b)); [vm_compute; reflexivity|assumption]. Qed.
Lemma lane_shr b c : b < 256 -> c < 256 -> N.land (dh b + 128 * dl c) 0x7f = dh b.
Proof. intros. apply N.eqb_eq. apply (all2 (fun b c => N.land (dh b + 128 * dl c) 0x7f =? dh b)); [vm_compute; reflexivity|assumption|assumption]. Qed.
Lemma lane_shr0 b : b < 256 -> N.land (dh b) 0x7f = dh b.
Proof. intros. apply N.eqb_eq. apply (all1 (fun b => N.land (dh b) 0x7f =? dh b)); [vm_compute; reflexivity|assumption]. Qed.
Lemma lane_dpoly b : b < 256 -> N.land (255 * dl b) 0x8e = 0x8e * dl b.
Proof. intros. apply N.eqb_eq. apply (all1 (fun b => N.land (255 * dl b) 0x8e =? 0x8e * dl b)); [vm_compute; reflexivity|assumption]. Qed.
Lemma lane_dtime b : b < 256 -> N.lxor (dh b) (0x8e * dl b) = dtime b.
Proof. intros. apply N.eqb_eq. apply (all1 (fun b => N.lxor (dh b) (0x8e * dl b) =? dtime b)); [vm_compute; reflexivity|assumption]. Qed.
Lemma dtime_lt b : b < 256 -> dtime b < 256.
Proof. intros. apply N.ltb_lt. apply (all1 (fun b => dtime b <? 256)); [vm_compute; reflexivity|assumption]. Qed.

Lemma lane_bounds2 b c : b < 256 -> c < 256 ->
  dl b < 256 /\ 255 * dl b < 256 /\ dh b < 256 /\ dh b + 128 * dl c < 256 /\ 0x8e * dl b < 256 /\ dtime b < 256.
Proof.
  intros Hb Hc. destruct (split_byte2 b Hb) as [_ [A B]]. destruct (split_byte2 c Hc) as [_ [_ B']].
  repeat split; try lia. apply dtime_lt; assumption.
Qed.

(* ================= d2_32 ================= *)

Lemma shr1_pack4 b0 b1 b2 b3 : b0 < 256 -> b1 < 256 -> b2 < 256 -> b3 < 256 ->
  N.shiftr (pack4 b0 b1 b2 b3) 1 =
  pack4 (dh b0 + 128 * dl b1) (dh b1 + 128 * dl b2) (dh b2 + 128 * dl b3) (dh b3).
Proof.
  intros H0 H1 H2 H3.
  destruct (split_byte2 b0 H0) as [E0 [A0 B0]]. destruct (split_byte2 b1 H1) as [E1 [A1 B1]].
  destruct (split_byte2 b2 H2) as [E2 [A2 B2]]. destruct (split_byte2 b3 H3) as [E3 [A3 B3]].
  unfold pack4. rewrite N.shiftr_div_pow2.
  set (h0 := dh b0) in *. set (h1 := dh b1) in *. set (h2 := dh b2) in *. set (h3 := dh b3) in *.
  set (l0 := dl b0) in *. set (l1 := dl b1) in *. set (l2 := dl b2) in *. set (l3 := dl b3) in *.
  clearbody h0 h1 h2 h3 l0 l1 l2 l3.
  symmetry. apply (N.div_unique _ _ _ l0); lia.
Qed.

Lemma mask_d2_pack4 h0 h1 h2 h3 : h0 < 2 -> h1 < 2 -> h2 < 2 -> h3 < 2 ->
  let mask := pack4 h0 h1 h2 h3 in
  w32 (w32 (N.shiftl mask 8) + 2^32 - mask) = pack4 (255 * h0) (255 * h1) (255 * h2) (255 * h3).
Proof.
  intros A0 A1 A2 A3.
  destruct (bit01 h0 A0) as [-> | ->], (bit01 h1 A1) as [-> | ->],
           (bit01 h2 A2) as [-> | ->], (bit01 h3 A3) as [-> | ->];
    vm_compute; reflexivity.
Qed.

Theorem d2_32_lanes b0 b1 b2 b3 : b0 < 256 -> b1 < 256 -> b2 < 256 -> b3 < 256 ->
  d2_32 (pack4 b0 b1 b2 b3) = pack4 (dtime b0) (dtime b1) (dtime b2) (dtime b3).
Proof.
  intros H0 H1 H2 H3. unfold d2_32.
  destruct (lane_bounds2 b0 b1 H0 H1) as [K0 [L0 [M0 [N0 [P0 X0]]]]].
  destruct (lane_bounds2 b1 b2 H1 H2) as [K1 [L1 [M1 [N1 [P1 X1]]]]].
  destruct (lane_bounds2 b2 b3 H2 H3) as [K2 [L2 [M2 [N2 [P2 X2]]]]].
  destruct (lane_bounds2 b3 b3 H3 H3) as [K3 [L3 [M3 [_ [P3 X3]]]]].
  destruct (split_byte2 b0 H0) as [_ [_ A0]]. destruct (split_byte2 b1 H1) as [_ [_ A1]].
  destruct (split_byte2 b2 H2) as [_ [_ A2]]. destruct (split_byte2 b3 H3) as [_ [_ A3]].
  change 0x01010101 with (pack4 0x01 0x01 0x01 0x01).
  change 0x7f7f7f7f with (pack4 0x7f 0x7f 0x7f 0x7f).
  change 0x8e8e8e8e with (pack4 0x8e 0x8e 0x8e 0x8e).
  rewrite land_pack4 by (assumption || reflexivity).
  rewrite !lane_dl by assumption.
  rewrite (mask_d2_pack4 (dl b0) (dl b1) (dl b2) (dl b3)) by assumption.
  rewrite shr1_pack4 by assumption.
  rewrite !land_pack4 by (assumption || reflexivity).
  rewrite lane_shr0, !lane_shr, !lane_dpoly by assumption.
  rewrite lxor_pack4 by assumption.
  rewrite !lane_dtime by assumption. reflexivity.
Qed.

(* ================= d2_64 ================= *)

Lemma shr1_pack8 b0 b1 b2 b3 b4 b5 b6 b7 :
  b0 < 256 -> b1 < 256 -> b2 < 256 -> b3 < 256 -> b4 < 256 -> b5 < 256 -> b6 < 256 -> b7 < 256 ->
  N.shiftr (pack8 b0 b1 b2 b3 b4 b5 b6 b7) 1 =
  pack8 (dh b0 + 128 * dl b1) (dh b1 + 128 * dl b2) (dh b2 + 128 * dl b3) (dh b3 + 128 * dl b4)
        (dh b4 + 128 * dl b5) (dh b5 + 128 * dl b6) (dh b6 + 128 * dl b7) (dh b7).
Proof.
  intros H0 H1 H2 H3 H4 H5 H6 H7.
  destruct (split_byte2 b0 H0) as [E0 [A0 B0]]. destruct (split_byte2 b1 H1) as [E1 [A1 B1]].
  destruct (split_byte2 b2 H2) as [E2 [A2 B2]]. destruct (split_byte2 b3 H3) as [E3 [A3 B3]].
  destruct (split_byte2 b4 H4) as [E4 [A4 B4]]. destruct (split_byte2 b5 H5) as [E5 [A5 B5]].
  destruct (split_byte2 b6 H6) as [E6 [A6 B6]]. destruct (split_byte2 b7 H7) as [E7 [A7 B7]].
  unfold pack8. rewrite N.shiftr_div_pow2.
  set (h0 := dh b0) in *. set (h1 := dh b1) in *. set (h2 := dh b2) in *. set (h3 := dh b3) in *.
  set (h4 := dh b4) in *. set (h5 := dh b5) in *. set (h6 := dh b6) in *. set (h7 := dh b7) in *.
  set (l0 := dl b0) in *. set (l1 := dl b1) in *. set (l2 := dl b2) in *. set (l3 := dl b3) in *.
  set (l4 := dl b4) in *. set (l5 := dl b5) in *. set (l6 := dl b6) in *. set (l7 := dl b7) in *.
  clearbody h0 h1 h2 h3 h4 h5 h6 h7 l0 l1 l2 l3 l4 l5 l6 l7.
  symmetry. apply (N.div_unique _ _ _ l0); lia.
Qed.

Lemma mask_d2_pack8 h0 h1 h2 h3 h4 h5 h6 h7 :
  h0 < 2 -> h1 < 2 -> h2 < 2 -> h3 < 2 -> h4 < 2 -> h5 < 2 -> h6 < 2 -> h7 < 2 ->
  let mask := pack8 h0 h1 h2 h3 h4 h5 h6 h7 in
  w64 (w64 (N.shiftl mask 8) + 2^64 - mask) =
  pack8 (255 * h0) (255 * h1) (255 * h2) (255 * h3) (255 * h4) (255 * h5) (255 * h6) (255 * h7).
Proof.
  intros A0 A1 A2 A3 A4 A5 A6 A7.
  destruct (bit01 h0 A0) as [-> | ->], (bit01 h1 A1) as [-> | ->],
           (bit01 h2 A2) as [-> | ->], (bit01 h3 A3) as [-> | ->],
           (bit01 h4 A4) as [-> | ->], (bit01 h5 A5) as [-> | ->],
           (bit01 h6 A6) as [-> | ->], (bit01 h7 A7) as [-> | ->];
    vm_compute; reflexivity.
Qed.

Theorem d2_64_lanes b0 b1 b2 b3 b4 b5 b6 b7 :
  b0 < 256 -> b1 < 256 -> b2 < 256 -> b3 < 256 -> b4 < 256 -> b5 < 256 -> b6 < 256 -> b7 < 256 ->
  d2_64 (pack8 b0 b1 b2 b3 b4 b5 b6 b7) =
  pack8 (dtime b0) (dtime b1) (dtime b2) (dtime b3) (dtime b4) (dtime b5) (dtime b6) (dtime b7).
Proof.
  intros H0 H1 H2 H3 H4 H5 H6 H7. unfold d2_64.
  destruct (lane_bounds2 b0 b1 H0 H1) as [K0 [L0 [M0 [N0 [P0 X0]]]]].
  destruct (lane_bounds2 b1 b2 H1 H2) as [K1 [L1 [M1 [N1 [P1 X1]]]]].
  destruct (lane_bounds2 b2 b3 H2 H3) as [K2 [L2 [M2 [N2 [P2 X2]]]]].
  destruct (lane_bounds2 b3 b4 H3 H4) as [K3 [L3 [M3 [N3 [P3 X3]]]]].
  destruct (lane_bounds2 b4 b5 H4 H5) as [K4 [L4 [M4 [N4 [P4 X4]]]]].
  destruct (lane_bounds2 b5 b6 H5 H6) as [K5 [L5 [M5 [N5 [P5 X5]]]]].
  destruct (lane_bounds2 b6 b7 H6 H7) as [K6 [L6 [M6 [N6 [P6 X6]]]]].
  destruct (lane_bounds2 b7 b7 H7 H7) as [K7 [L7 [M7 [_ [P7 X7]]]]].
  destruct (split_byte2 b0 H0) as [_ [_ A0]]. destruct (split_byte2 b1 H1) as [_ [_ A1]].
  destruct (split_byte2 b2 H2) as [_ [_ A2]]. destruct (split_byte2 b3 H3) as [_ [_ A3]].
  destruct (split_byte2 b4 H4) as [_ [_ A4]]. destruct (split_byte2 b5 H5) as [_ [_ A5]].
  destruct (split_byte2 b6 H6) as [_ [_ A6]]. destruct (split_byte2 b7 H7) as [_ [_ A7]].
  change 0x0101010101010101 with (pack8 0x01 0x01 0x01 0x01 0x01 0x01 0x01 0x01).
  change 0x7f7f7f7f7f7f7f7f with (pack8 0x7f 0x7f 0x7f 0x7f 0x7f 0x7f 0x7f 0x7f).
  change 0x8e8e8e8e8e8e8e8e with (pack8 0x8e 0x8e 0x8e 0x8e 0x8e 0x8e 0x8e 0x8e).
  rewrite land_pack8 by (assumption || reflexivity).
  rewrite !lane_dl by assumption.
  rewrite (mask_d2_pack8 (dl b0) (dl b1) (dl b2) (dl b3) (dl b4) (dl b5) (dl b6) (dl b7)) by assumption.
  rewrite shr1_pack8 by assumption.
  rewrite !land_pack8 by (assumption || reflexivity).
  rewrite lane_shr0, !lane_shr, !lane_dpoly by assumption.
  rewrite lxor_pack8 by assumption.
  rewrite !lane_dtime by assumption. reflexivity.
Qed.

(* every 64-bit word is a pack8 of bytes, so these are statements for ALL words *)
Lemma word_is_pack8 v : v < 2^64 -> exists b0 b1 b2 b3 b4 b5 b6 b7,
  b0 < 256 /\ b1 < 256 /\ b2 < 256 /\ b3 < 256 /\ b4 < 256 /\ b5 < 256 /\ b6 < 256 /\ b7 < 256 /\
  v = pack8 b0 b1 b2 b3 b4 b5 b6 b7.
Proof.
  intros Hv.
  exists (v mod 256), ((v / 2^8) mod 256), ((v / 2^16) mod 256), ((v / 2^24) mod 256),
         ((v / 2^32) mod 256), ((v / 2^40) mod 256), ((v / 2^48) mod 256), (v / 2^56).
  repeat split; try (apply N.mod_lt; lia).
  - apply N.div_lt_upper_bound; lia.
  - unfold pack8.
    assert (E1 := N.div_mod v 256 ltac:(lia)).
    assert (E2 := N.div_mod (v / 2^8) 256 ltac:(lia)).
    assert (E3 := N.div_mod (v / 2^16) 256 ltac:(lia)).
    assert (E4 := N.div_mod (v / 2^24) 256 ltac:(lia)).
    assert (E5 := N.div_mod (v / 2^32) 256 ltac:(lia)).
    assert (E6 := N.div_mod (v / 2^40) 256 ltac:(lia)).
    assert (E7 := N.div_mod (v / 2^48) 256 ltac:(lia)).
    assert (D1 : v / 2^8 / 256 = v / 2^16) by (rewrite N.div_div by lia; reflexivity).
    assert (D2 : v / 2^16 / 256 = v / 2^24) by (rewrite N.div_div by lia; reflexivity).
    assert (D3 : v / 2^24 / 256 = v / 2^32) by (rewrite N.div_div by lia; reflexivity).
    assert (D4 : v / 2^32 / 256 = v / 2^40) by (rewrite N.div_div by lia; reflexivity).
    assert (D5 : v / 2^40 / 256 = v / 2^48) by (rewrite N.div_div by lia; reflexivity).
    assert (D6 : v / 2^48 / 256 = v / 2^56) by (rewrite N.div_div by lia; reflexivity).
    change (2^8) with 256 in *. lia.
Qed.

(* the "for every word" corollaries *)
Corollary x2_64_all v : v < 2^64 -> exists b0 b1 b2 b3 b4 b5 b6 b7,
  b0 < 256 /\ b1 < 256 /\ b2 < 256 /\ b3 < 256 /\ b4 < 256 /\ b5 < 256 /\ b6 < 256 /\ b7 < 256 /\
  v = pack8 b0 b1 b2 b3 b4 b5 b6 b7 /\
  x2_64 v = pack8 (xtime b0) (xtime b1) (xtime b2) (xtime b3) (xtime b4) (xtime b5) (xtime b6) (xtime b7).
Proof.
  intros Hv. destruct (word_is_pack8 v Hv) as (b0 & b1 & b2 & b3 & b4 & b5 & b6 & b7 &
    H0 & H1 & H2 & H3 & H4 & H5 & H6 & H7 & E).
  exists b0, b1, b2, b3, b4, b5, b6, b7. repeat (split; [assumption|]).
  rewrite E. apply x2_64_lanes; assumption.
Qed.

Corollary d2_64_all v : v < 2^64 -> exists b0 b1 b2 b3 b4 b5 b6 b7,
  b0 < 256 /\ b1 < 256 /\ b2 < 256 /\ b3 < 256 /\ b4 < 256 /\ b5 < 256 /\ b6 < 256 /\ b7 < 256 /\
  v = pack8 b0 b1 b2 b3 b4 b5 b6 b7 /\
  d2_64 v = pack8 (dtime b0) (dtime b1) (dtime b2) (dtime b3) (dtime b4) (dtime b5) (dtime b6) (dtime b7).
Proof.
  intros Hv. destruct (word_is_pack8 v Hv) as (b0 & b1 & b2 & b3 & b4 & b5 & b6 & b7 &
    H0 & H1 & H2 & H3 & H4 & H5 & H6 & H7 & E).
  exists b0, b1, b2, b3, b4, b5, b6, b7. repeat (split; [assumption|]).
  rewrite E. apply d2_64_lanes; assumption.
Qed.

Corollary d2_32_all v : v < 2^32 -> exists b0 b1 b2 b3,
  b0 < 256 /\ b1 < 256 /\ b2 < 256 /\ b3 < 256 /\ v = pack4 b0 b1 b2 b3 /\
  d2_32 v = pack4 (dtime b0) (dtime b1) (dtime b2) (dtime b3).
Proof.
  intros Hv. destruct (word_is_pack4 v Hv) as (b0 & b1 & b2 & b3 & H0 & H1 & H2 & H3 & E).
  exists b0, b1, b2, b3. repeat (split; [assumption|]).
  rewrite E. apply d2_32_lanes; assumption.
Qed.

Print Assumptions x2_64_lanes.
Print Assumptions d2_32_lanes.
Print Assumptions d2_64_lanes.
