(* tables_ok: every table of raid/tables.c (as regenerated into Snap.Gen.Tables) equals the closed form
   over GF(2^8)/0x11d.  Each equality is a finite statement (at most 2^16 entries) checked by vm_compute,
   then turned into a lookup lemma. *)
From Coq Require Import NArith List Bool Lia Arith.
From Snap.Gen Require Import Tables.
From Snap.GF Require Import Gf.
From Snap.Raid Require Import GenModel.
Import ListNotations.
Local Open Scope N_scope.

Definition rangeN (n : nat) : list N := map N.of_nat (seq 0 n).

Lemma nth_rangeN_map {A} (f : N -> A) (d : A) n (a : N) :
  a < N.of_nat n -> nth (N.to_nat a) (map f (rangeN n)) d = f a.
Proof.
  intros H. unfold rangeN. rewrite map_map.
  rewrite nth_indep with (d' := f (N.of_nat 0)) by (rewrite map_length, seq_length; lia).
  change (f (N.of_nat 0)) with ((fun x => f (N.of_nat x)) 0%nat).
  rewrite map_nth. rewrite seq_nth by lia. cbn [Nat.add]. rewrite N2Nat.id. reflexivity.
Qed.

(* closed forms of the rows *)
Definition cf_gfmul : list (list N) := map (fun a => map (gmul a) (rangeN 256)) (rangeN 256).
Definition cf_gfexp : list (list N) := [map (fun a => pow2N (N.to_nat a)) (rangeN 256)].
Definition cf_gfinv : list (list N) := [map (fun a => if a =? 0 then 0 else ginv a) (rangeN 256)].
Definition cf_matrix (M : nat -> nat -> N) (rows : nat) : list (list N) :=
  map (fun j => map (fun i => if i <? 251 then M (N.to_nat j) (N.to_nat i) else 0) (rangeN 256)) (rangeN rows).
(* pshufb nibble tables: 16 products with the low nibble values k, 16 with the high nibble values 16k *)
Definition nib (c : N) : list N :=
  map (fun k => gmul c k) (rangeN 16) ++ map (fun k => gmul c (16 * k)) (rangeN 16).
Definition cf_cauchypshufb : list (list N) :=
  map (fun i => concat (map (fun p => nib (cauchyN (N.to_nat p) (N.to_nat i))) [2; 3; 4; 5])) (rangeN 251).
Definition cf_mulpshufb : list (list N) := map (fun m => nib m) (rangeN 256).

Lemma gfmul_ok : gfmul_rows = cf_gfmul. Proof. vm_compute. reflexivity. Qed.
Lemma gfexp_ok : gfexp_rows = cf_gfexp. Proof. vm_compute. reflexivity. Qed.
Lemma gfinv_ok : gfinv_rows = cf_gfinv. Proof. vm_compute. reflexivity. Qed.
Lemma gfcauchy_ok : gfcauchy_rows = cf_matrix cauchyN 6. Proof. vm_compute. reflexivity. Qed.
Lemma gfvandermonde_ok : gfvandermonde_rows = cf_matrix powerN 3. Proof. vm_compute. reflexivity. Qed.
Lemma gfcauchypshufb_ok : gfcauchypshufb_rows = cf_cauchypshufb. Proof. vm_compute. reflexivity. Qed.
Lemma gfmulpshufb_ok : gfmulpshufb_rows = cf_mulpshufb. Proof. vm_compute. reflexivity. Qed.

(* lookup lemmas: what the C expressions gfmul[a][b], gfexp[k], gfinv[a], gfgen[j][d] evaluate to *)
Lemma t_gfmul_ok a b : a < 256 -> b < 256 -> t_gfmul a b = gmul a b.
Proof.
  intros Ha Hb. unfold t_gfmul, tab2, tab1. rewrite gfmul_ok. unfold cf_gfmul.
  rewrite (nth_rangeN_map (fun a => map (gmul a) (rangeN 256)) [] 256 a) by exact Ha.
  apply (nth_rangeN_map (gmul a) 0 256 b). exact Hb.
Qed.

Lemma t_gfexp_ok k : k < 256 -> t_gfexp k = pow2N (N.to_nat k).
Proof.
  intros Hk. unfold t_gfexp, tab2, tab1. rewrite gfexp_ok. unfold cf_gfexp. cbn [N.to_nat nth].
  apply (nth_rangeN_map (fun a => pow2N (N.to_nat a)) 0 256 k). exact Hk.
Qed.

Lemma t_gfinv_ok a : a < 256 -> a <> 0 -> t_gfinv a = ginv a.
Proof.
  intros Ha Hn. unfold t_gfinv, tab2, tab1. rewrite gfinv_ok. unfold cf_gfinv. cbn [N.to_nat nth].
  rewrite (nth_rangeN_map (fun a => if a =? 0 then 0 else ginv a) 0 256 a) by exact Ha.
  destruct (N.eqb_spec a 0); [contradiction|reflexivity].
Qed.

Lemma t_matrix_ok (M : nat -> nat -> N) rows j d :
  j < N.of_nat rows -> d < 251 ->
  tab2 (cf_matrix M rows) j d = M (N.to_nat j) (N.to_nat d).
Proof.
  intros Hj Hd. unfold tab2, tab1, cf_matrix.
  rewrite (nth_rangeN_map (fun j => map (fun i => if i <? 251 then M (N.to_nat j) (N.to_nat i) else 0) (rangeN 256)) [] rows j) by exact Hj.
  rewrite (nth_rangeN_map (fun i => if i <? 251 then M (N.to_nat j) (N.to_nat i) else 0) 0 256 d) by lia.
  destruct (N.ltb_spec d 251); [reflexivity|lia].
Qed.

Lemma t_gfgen_ok m j d :
  j < (match m with Cauchy => 6 | Vandermonde => 3 end) -> d < 251 ->
  t_gfgen m j d = matN m (N.to_nat j) (N.to_nat d).
Proof.
  intros Hj Hd. destruct m; unfold t_gfgen, matN.
  - rewrite gfcauchy_ok. apply (t_matrix_ok cauchyN 6); assumption.
  - rewrite gfvandermonde_ok. apply (t_matrix_ok powerN 3); assumption.
Qed.

(* the facts about the matrix that the code exploits *)
Lemma cauchy_row0 i : cauchyN 0 i = 1. Proof. reflexivity. Qed.
Lemma cauchy_row1 i : (i < 255)%nat -> cauchyN 1 i = pow2N i.
Proof.
  intros Hi.
  assert (H : forallb (fun i => cauchyN 1 i =? pow2N i) (seq 0 255) = true) by (vm_compute; reflexivity).
  rewrite forallb_forall in H. apply N.eqb_eq. apply H. apply in_seq. lia.
Qed.
Lemma cauchy_col0 j : (j < 6)%nat -> cauchyN j 0 = 1.
Proof.
  intros Hj.
  assert (H : forallb (fun j => cauchyN j 0 =? 1) (seq 0 6) = true) by (vm_compute; reflexivity).
  rewrite forallb_forall in H. apply N.eqb_eq. apply H. apply in_seq. lia.
Qed.
Lemma power_col0 j : powerN j 0 = 1.
Proof. destruct j as [|[|j]]; vm_compute; reflexivity. Qed.
Lemma power_row0 i : powerN 0 i = 1. Proof. reflexivity. Qed.
Lemma power_row1 i : powerN 1 i = pow2N i. Proof. reflexivity. Qed.
Lemma mat_col0 m j : (j < 6)%nat -> matN m j 0 = 1.
Proof. destruct m; [apply cauchy_col0|intros _; apply power_col0]. Qed.

Lemma matN_range m j i : (j < 6)%nat -> (i < 251)%nat -> matN m j i < 256.
Proof.
  intros Hj Hi.
  assert (H : forallb (fun j => forallb (fun i => (cauchyN j i <? 256) && (powerN j i <? 256)) (seq 0 251)) (seq 0 6) = true)
    by (vm_compute; reflexivity).
  rewrite forallb_forall in H. specialize (H j ltac:(apply in_seq; lia)).
  rewrite forallb_forall in H. specialize (H i ltac:(apply in_seq; lia)).
  apply andb_true_iff in H. destruct H as [H1 H2]. destruct m; apply N.ltb_lt; assumption.
Qed.

Lemma pow2N_range k : pow2N k < 256.
Proof.
  unfold pow2N. assert (Hk : (k mod 255 < 255)%nat) by (apply Nat.mod_upper_bound; lia).
  destruct (logexp _ Hk) as [_ [_ H]]. exact H.
Qed.
