(* file_block_size of cmdline/elem.c: the number of bytes of a file that live in its block number `pos`
   (this is the length that is hashed and that enters parity; the rest of the block is zero padding).
     if (file_pos + 1 == file->blockmax) {            block_off_t = uint32_t arithmetic
         if (file->size == 0) return 0;
         block_remainder = file->size % block_size;
         if (block_remainder == 0) block_remainder = block_size;
         return block_remainder; }
     return block_size;                                                                                  *)
From Coq Require Import NArith Lia ZArith.
Local Open Scope N_scope.

Definition file_block_size (size blockmax pos bs : N) : N :=
  if (pos + 1) mod 2^32 =? blockmax then
    if size =? 0 then 0
    else let r := size mod bs in if r =? 0 then bs else r
  else bs.

(* blockmax as computed by the scanner: (size + bs - 1) / bs *)
Definition blockmax_of (size bs : N) : N := (size + bs - 1) / bs.

Ltac Zify.zify_post_hook ::= Z.to_euclidean_division_equations.

(* the rule: block `pos` holds bytes [pos*bs, min(size, (pos+1)*bs)) of the file *)
Theorem block_size_rule size pos bs :
  0 < bs -> blockmax_of size bs < 2^32 -> pos < blockmax_of size bs ->
  file_block_size size (blockmax_of size bs) pos bs = N.min bs (size - pos * bs).
Proof.
  intros Hbs Hmax Hpos. unfold file_block_size.
  set (bm := blockmax_of size bs) in *.
  assert (Hbm : bm = (size + bs - 1) / bs) by reflexivity.
  assert (Q : size + bs - 1 = bs * bm + (size + bs - 1) mod bs) by (rewrite Hbm; apply N.div_mod; lia).
  assert (R : (size + bs - 1) mod bs < bs) by (apply N.mod_lt; lia).
  change (2^32) with 4294967296 in *.
  rewrite (N.mod_small (pos + 1)) by lia.
  assert (Hs : size <> 0) by (intros ->; rewrite Hbm in Hpos; replace (0 + bs - 1) with (bs - 1) in Hpos by lia;
                              rewrite N.div_small in Hpos by lia; lia).
  destruct (N.eqb_spec (pos + 1) bm) as [E|E].
  - destruct (N.eqb_spec size 0) as [Z|_]; [contradiction|].
    assert (D : size = bs * (size / bs) + size mod bs) by (apply N.div_mod; lia).
    assert (M : size mod bs < bs) by (apply N.mod_lt; lia).
    destruct (N.eqb_spec (size mod bs) 0) as [Z|NZ].
    + (* size is a multiple of bs: the last block is full *)
      assert (size / bs = bm) by nia. rewrite N.min_l; [reflexivity|]. nia.
    + assert (size / bs = pos) by nia. rewrite N.min_r; nia.
  - assert (pos + 1 < bm) by lia. rewrite N.min_l; [reflexivity|]. nia.
Qed.

Example block_size_examples :
  file_block_size 2500 3 2 1024 = 452 /\ file_block_size 2048 2 1 1024 = 1024 /\ file_block_size 2500 3 0 1024 = 1024 /\
  file_block_size 0 0 4294967295 1024 = 0 /\ blockmax_of 2500 1024 = 3.
Proof. repeat split; vm_compute; reflexivity. Qed.
